(* C32 proofs, part 6: OwnedValue::jsonb_get / jsonb_array_get / jsonb_get_path on stored documents. *)
From Coq Require Import ZArith List Bool Lia ZifyBool Sorting.Permutation Sorting.Sorted.
From TV Require Import Lib.MachInt Lib.MachIntFacts Gen.JsonbBits Model.Jsonb
  Proof.JsonbBits Proof.JsonbLayout Proof.JsonbDecode Proof.BytesOrder Proof.Jsonb Proof.JsonbTop.
Import ListNotations.
Open Scope Z_scope.

Ltac Zify.zify_post_hook ::= Z.to_euclidean_division_equations.

Definition good (e : json) : Prop := wf_json true e = true /\ blen (encode_value e) <= 2 ^ 24.

Lemma good_member kvs k e : good (JObj kvs) -> In (k, e) kvs -> good e.
Proof.
  intros [Hwf Hlen] Hin. change (wf_json true (JObj kvs)) with (forallb member_ok kvs) in Hwf.
  destruct (obj_view kvs _ eq_refl Hlen Hwf) as (_ & _ & Hrd).
  apply (sort_in fst) in Hin. apply In_nth_error in Hin. destruct Hin as [i Hi].
  destruct (Hrd i k e Hi) as (_ & _ & Hle). split; [|lia].
  rewrite forallb_forall in Hwf. assert (Hin : In (k, e) kvs) by (apply (sort_in fst); eapply nth_error_In; exact Hi).
  specialize (Hwf _ Hin). cbn [member_ok] in Hwf. apply andb_true_iff in Hwf. apply Hwf.
Qed.

Lemma good_elem els i e : good (JArr els) -> nth_error els i = Some e -> good e.
Proof.
  intros [Hwf Hlen] Hi. cbn [wf_json] in Hwf.
  destruct (arr_view els _ eq_refl Hlen Hwf) as (_ & _ & Hrd). destruct (Hrd i e Hi) as [_ Hle].
  split; [eapply forallb_nth; eassumption | lia].
Qed.

Lemma get_good kvs key : good (JObj kvs) ->
  (exists e, In (key, e) kvs /\ good e /\ get (encode_value (JObj kvs)) key = Ok (Some (jv_of e))) \/
  ((forall e, ~ In (key, e) kvs) /\ get (encode_value (JObj kvs)) key = Ok None).
Proof.
  intros Hg. destruct Hg as [Hwf Hlen]. change (wf_json true (JObj kvs)) with (forallb member_ok kvs) in Hwf.
  destruct (get_obj kvs key Hwf Hlen) as [[e [Hin Hr]] | H]; [left | right; exact H].
  exists e. repeat split; try assumption; apply (good_member kvs key e (conj Hwf Hlen) Hin).
Qed.

Lemma get_not_object v key : good v -> (forall kvs, v <> JObj kvs) -> get (encode_value v) key = Err.
Proof.
  intros [Hwf Hlen] Hn.
  assert (Hf : fits v = true) by (unfold fits; rewrite (wf_nested_root v Hwf); cbn [andb]; lia).
  pose proof (as_value_enc v Hf) as Hav. unfold as_value in Hav. unfold get.
  destruct (root_type (encode_value v)) as [t| | |]; cbn [bind] in *; try discriminate.
  destruct (Z.eqb_spec t JSONB_TYPE_OBJECT) as [Ht|Ht]; [|reflexivity]. subst t.
  change (JSONB_TYPE_OBJECT =? JSONB_TYPE_OBJECT) with true in Hav. cbv iota in Hav.
  inversion Hav as [H1]. destruct v; cbn [jv_of] in H1; try discriminate. exfalso. eapply Hn. reflexivity.
Qed.

Lemma ov_stepwise_none ks : ov_stepwise None ks = Ok None.
Proof. destruct ks; reflexivity. Qed.

Lemma ov_get_scalar v key : (forall d, from_jsonb_value (jv_of v) <> OVJsonb d) -> ov_get (from_jsonb_value (jv_of v)) key = Ok None.
Proof. intros H. destruct v; cbn in *; try reflexivity; exfalso; eapply H; reflexivity. Qed.

(* the loop of get_path from a stored value, against the one-key-at-a-time walk *)
Lemma path_loop_spec : forall ks e, good e ->
  exists c', path_loop (Some (jv_of e)) ks = Ok c' /\
    (c' = None \/ exists e', c' = Some (jv_of e') /\ good e' /\ tree_path e ks e') /\
    (ov_stepwise (Some (from_jsonb_value (jv_of e))) ks = Ok (option_map from_jsonb_value c') \/
     (c' = None /\ ov_stepwise (Some (from_jsonb_value (jv_of e))) ks = Err)).
Proof.
  induction ks as [|k ks IH]; intros e Hg.
  - exists (Some (jv_of e)). cbn [path_loop ov_stepwise option_map]. split; [reflexivity|]. split; [|left; reflexivity].
    right. exists e. split; [reflexivity|]. split; [exact Hg|constructor].
  - destruct e as [| bb | x | s | els | kvs].
    1-4: exists None; cbn [path_loop jv_of]; (split; [reflexivity|]); (split; [left; reflexivity|]); left;
         cbn [ov_stepwise from_jsonb_value ov_get bind]; apply ov_stepwise_none.
    + (* array: get_path says None, jsonb_get on the nested bytes is an error *)
      exists None. cbn [path_loop jv_of]. split; [reflexivity|]. split; [left; reflexivity|]. right. split; [reflexivity|].
      cbn [ov_stepwise from_jsonb_value]. unfold ov_get. rewrite view_new_enc. cbn [bind].
      rewrite (get_not_object (JArr els) k Hg) by congruence. reflexivity.
    + cbn [path_loop jv_of ov_stepwise from_jsonb_value]. unfold ov_get. rewrite view_new_enc. cbn [bind].
      destruct (get_good kvs k Hg) as [[e1 (Hin & Hg1 & Hr)] | [Hn Hr]]; rewrite Hr; unfold rmap; cbn [bind option_map].
      * destruct (IH e1 Hg1) as (c' & Hp & Hc & Hs). exists c'. split; [exact Hp|]. split; [|exact Hs].
        destruct Hc as [->|[e' (-> & Hg' & Ht)]]; [left; reflexivity|]. right. exists e'.
        split; [reflexivity|]. split; [exact Hg'|]. econstructor; eassumption.
      * exists None. split; [destruct ks; reflexivity|]. split; [left; reflexivity|]. left. apply ov_stepwise_none.
Qed.

Definition root_of (j : json) : ov := OVJsonb (encode_value j).

Lemma fits_good j : fits j = true -> (forall s, j <> JStr s) -> good j.
Proof. intros Hf Hs. apply fits_nested; assumption. Qed.

Lemma get_root_not_object j key : fits j = true -> (forall kvs, j <> JObj kvs) -> get (encode_value j) key = Err.
Proof.
  intros Hf Hn. pose proof (as_value_enc j Hf) as Hav. unfold as_value in Hav. unfold get.
  destruct (root_type (encode_value j)) as [t| | |]; cbn [bind] in *; try discriminate.
  destruct (Z.eqb_spec t JSONB_TYPE_OBJECT) as [Ht|Ht]; [|reflexivity]. subst t.
  change (JSONB_TYPE_OBJECT =? JSONB_TYPE_OBJECT) with true in Hav. cbv iota in Hav.
  inversion Hav as [H1]. destruct j; cbn [jv_of] in H1; try discriminate. exfalso. eapply Hn. reflexivity.
Qed.

Lemma path_stepwise_l : forall j k ks, fits j = true ->
  let r1 := ov_get_path (root_of j) (k :: ks) in
  let r2 := ov_stepwise (Some (root_of j)) (k :: ks) in
  (r1 = r2 \/ (r1 = Ok None /\ r2 = Err)) /\
  (forall o, r1 = Ok (Some o) -> exists e, tree_path j (k :: ks) e /\ o = ov_of e) /\
  (r1 = Ok None \/ (exists o, r1 = Ok (Some o)) \/ (r1 = Err /\ forall kvs, j <> JObj kvs)).
Proof.
  intros j k ks Hf r1 r2. subst r1 r2. unfold root_of, ov_get_path. cbn [ov_stepwise]. unfold ov_get.
  rewrite view_new_enc. cbn [bind get_path].
  destruct j as [| bb | x | s | els | kvs].
  1-5: rewrite get_root_not_object by (exact Hf || congruence); cbn [bind rmap];
       (split; [left; reflexivity|]); (split; [intros o Ho; discriminate|]); right; right; split; [reflexivity|congruence].
  assert (Hg : good (JObj kvs)) by (apply fits_good; [exact Hf|congruence]).
  destruct (get_good kvs k Hg) as [[e1 (Hin & Hg1 & Hr)] | [Hn Hr]]; rewrite Hr; unfold rmap; cbn [bind option_map].
  - destruct (path_loop_spec ks e1 Hg1) as (c' & Hp & Hc & Hs). rewrite Hp. cbn [bind].
    split; [|split].
    + destruct Hs as [Hs | [-> Hs]]; rewrite Hs; [left; reflexivity | right; split; reflexivity].
    + intros o Ho. inversion Ho as [Ho']. destruct Hc as [->|[e' (-> & Hg' & Ht)]]; [discriminate|].
      cbn [option_map] in Ho'. inversion Ho'. exists e'. split; [econstructor; eassumption|reflexivity].
    + destruct c'; [right; left; eexists; reflexivity | left; reflexivity].
  - replace (path_loop None ks) with (@Ok (option jvalue) None) by (destruct ks; reflexivity). cbn [bind option_map].
    rewrite ov_stepwise_none. split; [left; reflexivity|]. split; [intros o Ho; discriminate|left; reflexivity].
Qed.

(* with no repeated keys every path of the document is found *)
Lemma nodup_member (kvs : list (list Z * json)) k e e' : NoDup (map fst kvs) -> In (k, e) kvs -> In (k, e') kvs -> e = e'.
Proof.
  induction kvs as [|[k0 e0] t IH]; intros Hnd H1 H2; [inversion H1|].
  cbn [map fst] in Hnd. inversion Hnd as [|? ? Hnot Hnd']; subst.
  destruct H1 as [H1|H1]; destruct H2 as [H2|H2].
  - congruence.
  - inversion H1; subst. exfalso. apply Hnot. apply in_map_iff. exists (k, e'). split; [reflexivity|exact H2].
  - inversion H2; subst. exfalso. apply Hnot. apply in_map_iff. exists (k, e). split; [reflexivity|exact H1].
  - apply IH; assumption.
Qed.

Lemma nodup_child kvs k e : nodup_keys (JObj kvs) -> In (k, e) kvs -> nodup_keys e.
Proof.
  cbn [nodup_keys]. intros [_ H] Hin. induction kvs as [|[k0 e0] t IH]; [inversion Hin|].
  cbn [fold_right] in H. destruct H as [H0 Ht]. destruct Hin as [Hin|Hin]; [inversion Hin; subst; exact H0|].
  apply IH; assumption.
Qed.

Lemma path_loop_complete : forall ks e e', good e -> nodup_keys e -> tree_path e ks e' ->
  path_loop (Some (jv_of e)) ks = Ok (Some (jv_of e')).
Proof.
  induction ks as [|k ks IH]; intros e e' Hg Hnd Ht; inversion Ht; subst; [reflexivity|].
  cbn [path_loop jv_of].
  destruct (get_good kvs k Hg) as [[e1 (Hin & Hg1 & Hr)] | [Hn Hr]]; rewrite Hr.
  - assert (e1 = e'0) by (eapply nodup_member; [apply Hnd|eassumption|eassumption]). subst e'0.
    apply IH; try assumption. eapply nodup_child; eassumption.
  - exfalso. eapply Hn. eassumption.
Qed.

Lemma path_complete_l : forall j k ks e, fits j = true -> nodup_keys j -> tree_path j (k :: ks) e ->
  ov_get_path (root_of j) (k :: ks) = Ok (Some (ov_of e)).
Proof.
  intros j k ks e Hf Hnd Ht. inversion Ht; subst.
  assert (Hg : good (JObj kvs)) by (apply fits_good; [exact Hf|congruence]).
  unfold root_of, ov_get_path. rewrite view_new_enc. cbn [bind get_path].
  destruct (get_good kvs k Hg) as [[e1 (Hin & Hg1 & Hr)] | [Hn Hr]]; rewrite Hr; cbn [bind].
  - assert (e1 = e') by (eapply nodup_member; [apply Hnd|eassumption|eassumption]). subst e'.
    rewrite (path_loop_complete ks e1 e Hg1); [reflexivity| |assumption]. eapply nodup_child; eassumption.
  - exfalso. eapply Hn. eassumption.
Qed.

(* ------------------------------------------------------------------ single lookups, as stated in Props *)
Lemma get_key_l : forall kvs key, fits (JObj kvs) = true ->
  (exists e, In (key, e) kvs /\ ov_get (root_of (JObj kvs)) key = Ok (Some (ov_of e))) \/
  ((forall e, ~ In (key, e) kvs) /\ ov_get (root_of (JObj kvs)) key = Ok None).
Proof.
  intros kvs key Hf. destruct (fits_obj kvs Hf) as [Hwf Hlen].
  unfold root_of, ov_get. rewrite view_new_enc. cbn [bind].
  destruct (get_obj kvs key Hwf Hlen) as [[e [Hin Hr]] | [Hn Hr]]; rewrite Hr; [left|right].
  - exists e. split; [exact Hin|reflexivity].
  - split; [exact Hn|reflexivity].
Qed.

Lemma get_key_nodup_l : forall kvs key e, fits (JObj kvs) = true -> NoDup (map fst kvs) -> In (key, e) kvs ->
  ov_get (root_of (JObj kvs)) key = Ok (Some (ov_of e)).
Proof.
  intros kvs key e Hf Hnd Hin. destruct (get_key_l kvs key Hf) as [[e' [Hin' Hr]] | [Hn _]].
  - rewrite Hr. rewrite (nodup_member kvs key e e' Hnd Hin Hin'). reflexivity.
  - exfalso. eapply Hn. exact Hin.
Qed.

Lemma array_get_l : forall els i, fits (JArr els) = true -> 0 <= i ->
  ov_array_get (root_of (JArr els)) i = Ok (option_map ov_of (nth_error els (Z.to_nat i))).
Proof.
  intros els i Hf Hi. destruct (fits_arr els Hf) as [Hwf Hlen].
  unfold root_of, ov_array_get. rewrite view_new_enc. cbn [bind].
  rewrite (array_get_arr els i Hwf Hlen Hi). unfold rmap. cbn [bind].
  destruct (nth_error els (Z.to_nat i)); reflexivity.
Qed.
