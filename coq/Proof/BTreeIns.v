(* C28 proofs, part 6: insertion into a subtree (all three forms, with split propagation through
   insert_into_interior / split_interior) keeps the invariant and adds exactly the new entry. *)
From Coq Require Import ZArith List Bool Lia Sorting.Permutation Sorting.Sorted.
From TV Require Import Lib.MachInt Gen.Varint Model.BTree Model.BTreeSpec Model.BTreeInv
  Proof.BTreeOrder Proof.BTreeInv Proof.BTreeLeaf Proof.BTreeLeafIns Proof.BTreeNode.
Import ListNotations.
Open Scope Z_scope.
Arguments Z.sub : simpl never.
Arguments Z.add : simpl never.
Arguments Z.mul : simpl never.
Arguments Z.of_nat : simpl never.

Section I.
Variable V : Type.
Variable vlen : V -> Z.
Hypothesis vlen_nonneg : forall v, 0 <= vlen v.
Notation entry := (entry V).
Notation leaf := (leaf V).
Notation tree := (tree V).
Notation kid := (kid V).
Notation ires := (ires V).
Notation csize := (csize V vlen).
Notation bounded := (bounded V vlen).
Notation abs := (abs V).
Notation keys := (keys V).
Notation kabs := (kabs V).
Notation ires_ok := (ires_ok V vlen).
Notation sep_fits := (sep_fits).

Lemma ifree_seps (a b : list kid) : map fst a = map fst b -> ifree V a = ifree V b.
Proof.
  revert b. induction a as [|x a IH]; intros [|y b] H; cbn [map] in H; try discriminate; [reflexivity|].
  injection H as H1 H2. rewrite !ifree_cons, (IH b H2), H1. reflexivity.
Qed.

Lemma splice_seps_perm (kids : list kid) : forall r i L s R,
  Permutation (map fst (fst (splice V kids r i L s R))) (s :: map fst kids).
Proof.
  induction kids as [|sc rest IH]; intros r i L s R.
  - rewrite splice_nil. apply Permutation_refl.
  - destruct i as [|j].
    + rewrite splice_0. cbn [fst map]. apply Permutation_refl.
    + rewrite splice_S. cbn [fst map]. eapply Permutation_trans; [apply perm_skip; apply IH | apply perm_swap].
Qed.

Lemma kid_size_le (kids : list kid) sc : 0 <= ifree V kids -> In sc kids -> klen (fst sc) + ISLOT <= ICAP.
Proof.
  intros Hf Hin. rewrite ifree_sizes in Hf.
  assert (H : klen (fst sc) + ISLOT <= sumz (ksizes V kids)).
  { clear Hf. induction kids as [|x r IH]; [destruct Hin|]. unfold ksizes in *. cbn [map]. rewrite sumz_cons.
    assert (Hr : 0 <= sumz (map (fun sc0 : kid => klen (fst sc0) + ISLOT) r)).
    { clear. induction r as [|y r IHr]; [cbn; lia|]. cbn [map]. rewrite sumz_cons. unfold klen, ISLOT in *. pose proof (Nat2Z.is_nonneg (length (fst y))). lia. }
    destruct Hin as [<- | Hin]; [lia|]. specialize (IH Hin). unfold klen, ISLOT in *. pose proof (Nat2Z.is_nonneg (length (fst x))). lia. }
  lia.
Qed.

Lemma node_ins_ok h' id (kids : list kid) r (e : entry) lo hi (res : ires) :
  0 <= ifree V kids -> kids_bounded V (bounded h') lo hi kids r -> lo_ok lo (fst e) -> hi_ok hi (fst e) ->
  ires_ok h' (lo_at V lo kids (cidx V (fst e) kids)) (hi_at V hi kids (cidx V (fst e) kids))
          (child_at V kids r (cidx V (fst e) kids)) e res ->
  ires_ok (S h') lo hi (Node id kids r) e
    (match res with
     | IOk c np' => let '(k2, r2) := set_child V kids r (cidx V (fst e) kids) c in IOk (Node id k2 r2) np'
     | ISplit L s R np' => int_ins V id kids r (cidx V (fst e) kids) L s R np'
     | IDup n0 => IDup n0
     | IFull n0 => IFull n0
     | IErr er0 => IErr er0
     end).
Proof.
  intros Hfree HB Hlok Hhik Hres. set (i := cidx V (fst e) kids) in *.
  assert (Hi : (i <= length kids)%nat) by apply cidx_le.
  destruct (kabs_decomp V h' kids r i) as (X & HX1 & HX2).
  destruct res as [c np' | L s R np' | np' | np' | er]; cbn [BTreeLeafIns.ires_ok] in Hres |- *.
  - destruct Hres as [Hc Hp]. destruct (set_child V kids r i c) as [k2 r2] eqn:Esc. cbn [BTreeLeafIns.ires_ok].
    assert (E2 : k2 = fst (set_child V kids r i c)) by (rewrite Esc; reflexivity).
    assert (E3 : r2 = snd (set_child V kids r i c)) by (rewrite Esc; reflexivity).
    split.
    + cbn [BTreeInv.bounded]. split.
      * rewrite (ifree_seps k2 kids); [exact Hfree|]. rewrite E2. apply set_child_seps.
      * rewrite E2, E3. apply kids_set_child; assumption.
    + rewrite !abs_node, E2, E3. eapply Permutation_trans; [apply HX2|].
      eapply Permutation_trans; [apply Permutation_app_tail; exact Hp|]. cbn [app]. apply perm_skip.
      apply Permutation_sym. exact HX1.
  - destruct Hres as (HL & HR & Hlo & Hhi & Hsf & Hp).
    assert (Hsp : sep_pos (map fst kids) i s) by (eapply kids_sep_pos; eassumption).
    assert (Habs : Permutation (kabs h' (fst (splice V kids r i L s R)) (snd (splice V kids r i L s R))) (e :: kabs h' kids r)).
    { eapply Permutation_trans; [apply splice_abs|].
      eapply Permutation_trans; [apply Permutation_app_head; apply HX2|]. rewrite app_assoc.
      eapply Permutation_trans; [apply Permutation_app_tail; eapply Permutation_trans; [apply Permutation_app_comm | exact Hp]|].
      cbn [app]. apply perm_skip. apply Permutation_sym. exact HX1. }
    assert (HKB : kids_bounded V (bounded h') lo hi (fst (splice V kids r i L s R)) (snd (splice V kids r i L s R)))
      by (apply splice_bounded; assumption).
    destruct (Z.leb_spec (klen s + ISLOT) (ifree V kids)) as [Hroom | Hfull].
    + rewrite (int_ins_room V id kids r i L s R np' Hsp Hi Hroom). cbn [BTreeLeafIns.ires_ok].
      split.
      * cbn [BTreeInv.bounded]. split; [rewrite splice_ifree; lia | exact HKB].
      * rewrite !abs_node. exact Habs.
    + unfold int_ins. destruct (set_child V kids r i L) as [kids1 right1] eqn:Esc.
      destruct (Z.leb_spec (klen s + ISLOT) (ifree V kids)) as [Hc | _]; [lia|].
      assert (E2 : kids1 = fst (set_child V kids r i L)) by (rewrite Esc; reflexivity).
      assert (E3 : right1 = snd (set_child V kids r i L)) by (rewrite Esc; reflexivity).
      rewrite E2, E3, (split_interior_eq V id kids r i L s R np' Hsp Hi).
      set (K := fst (splice V kids r i L s R)) in *. set (rr := snd (splice V kids r i L s R)) in *.
      assert (HKne : K <> []).
      { intros HK. pose proof (Permutation_length (splice_seps_perm kids r i L s R)) as PL. fold K in PL. rewrite HK in PL. discriminate. }
      assert (HKtot : sumz (ksizes V K) <= 2 * ICAP).
      { pose proof (splice_ifree V kids r i L s R) as Hi2. fold K in Hi2. rewrite !ifree_sizes in Hi2.
        rewrite ifree_sizes in Hfree. unfold sep_fits in Hsf. fold ICAP in Hsf. lia. }
      assert (HKfit : seps_fit V K).
      { intros sc Hsc. assert (Hk : In (fst sc) (s :: map fst kids)).
        { eapply Permutation_in; [apply splice_seps_perm | apply in_map; exact Hsc]. }
        destruct Hk as [<- | Hk]; [exact Hsf|]. apply in_map_iff in Hk as (sc' & Heq & Hin'). rewrite <- Heq.
        eapply kid_size_le; eassumption. }
      pose proof (si_body_ok V vlen h' id np' K rr lo hi HKB HKne HKtot HKfit) as Hsi.
      destruct (si_body V id np' K rr) as [? ? | Lf prom Rg np2 | ? | ? | er]; cbn [BTreeLeafIns.ires_ok]; try contradiction.
      destruct Hsi as (H1 & H2 & H3 & H4 & H5 & H6). repeat split; try assumption.
      rewrite H6, abs_node. exact Habs.
  - rewrite abs_node. unfold BTreeOrder.keys in *. apply in_map_iff in Hres as (x & Hx & Hin). apply in_map_iff. exists x. split; [exact Hx|].
    eapply Permutation_in; [apply Permutation_sym; exact HX1|]. apply in_or_app. left. exact Hin.
  - destruct Hres as (Habsent & c & Hc & Hbig). split.
    { intros Hin. apply Habsent. unfold BTreeOrder.keys in *. apply in_map_iff in Hin as (x & Hx & Hxin). apply in_map_iff. exists x.
      split; [exact Hx|]. rewrite abs_node in Hxin. eapply kabs_key_in_child; eassumption. }
    exists c. split; [|exact Hbig]. destruct Hc as [<- | Hc]; [left; reflexivity|]. right.
    rewrite abs_node. eapply Permutation_in; [apply Permutation_sym; exact HX1|]. apply in_or_app. left. exact Hc.
  - exact Hres.
Qed.

Lemma abs_child_incl h' id (kids : list kid) r i x : In x (abs h' (child_at V kids r i)) -> In x (abs (S h') (Node id kids r)).
Proof.
  intros H. destruct (kabs_decomp V h' kids r i) as (X & HX1 & _). rewrite abs_node.
  eapply Permutation_in; [apply Permutation_sym; exact HX1|]. apply in_or_app. left. exact H.
Qed.

Lemma ins_ok : forall h m rm (t : tree) (e : entry) np lo hi,
  bounded h lo hi t -> lo_ok lo (fst e) -> hi_ok hi (fst e) -> cell_fits V vlen e ->
  (m = MAppend -> forall x, In x (abs h t) -> klt (fst x) (fst e)) ->
  ires_ok h lo hi t e (ins V vlen h m rm t e np).
Proof.
  induction h as [|h' IH]; intros m rm t e np lo hi HB Hlo Hhi Hfit Happ; destruct t as [l | id kids r]; cbn in HB; try contradiction.
  - cbn [ins]. apply leaf_ins_ok; try assumption.
    intros Hm x Hx. apply (Happ Hm). rewrite abs_leaf. exact Hx.
  - destruct HB as [Hfree HB]. cbn [ins].
    destruct (kids_child V _ kids lo hi r (fst e) HB Hlo Hhi) as (Hc & Hl & Hh).
    apply (node_ins_ok h' id kids r e lo hi (ins V vlen h' m (rm && (cidx V (fst e) kids =? length kids)%nat) (child_at V kids r (cidx V (fst e) kids)) e np)); try assumption.
    apply IH; try assumption.
    intros Hm x Hx. apply (Happ Hm). eapply abs_child_incl. exact Hx.
Qed.

End I.
