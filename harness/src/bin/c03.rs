//! C03 WAL replay: drives the real `Wal` API (create / write_frame / batches with and without
//! sync / set_sync_mode / sync / rotate_segment / truncate / drop + Wal::open) on generated
//! op sequences over a small page space, damages one segment file (cut / byte flip / zero
//! fill), reopens and observes `read_page`, `recover` and `recover_for_file` into fresh
//! `MmapStorage` files.  Also: the checksum stored by the real writer for given header fields
//! (cross-check of the Gallina CRC-64), and the verdict of the real `read_frame` on damaged
//! slots (oracle bits carried in the case).
use std::panic::AssertUnwindSafe;
use std::path::{Path, PathBuf};
use tvh::*;
use turdb::storage::{MmapStorage, SyncMode, Wal, WalSegment};

const PAGE: usize = 16384;
const FRAME: u64 = 32 + 16384;
const NFID: u64 = 2;
const NPAGE: u32 = 3;

#[derive(Clone, Debug, PartialEq)]
struct Fr { fid: u64, page: u32, dbs: u32, fill: u8 }

#[derive(Clone, Debug, PartialEq)]
enum Op { W(Fr), B(Vec<Fr>, bool), S(bool), Y, R, T, O }

#[derive(Clone, Debug, PartialEq)]
enum Dmg { None, Cut(usize, u64), Flip(usize, u64, u8), Zero(usize, u64, u64) }

// ------------------------------------------------------------------ replay line syntax
fn fr_str(f: &Fr) -> String { format!("{}.{}.{}.{}", f.fid, f.page, f.dbs, f.fill) }
fn parse_fr(s: &str) -> Option<Fr> {
    let v: Vec<&str> = s.split('.').collect();
    if v.len() != 4 { return None; }
    Some(Fr { fid: v[0].parse().ok()?, page: v[1].parse().ok()?, dbs: v[2].parse().ok()?, fill: v[3].parse().ok()? })
}
fn op_str(o: &Op) -> String {
    match o {
        Op::W(f) => format!("w{}", fr_str(f)),
        Op::B(fs, nosync) => format!("b{}:{}", if *nosync { 1 } else { 0 }, fs.iter().map(fr_str).collect::<Vec<_>>().join("+")),
        Op::S(full) => format!("s{}", if *full { 1 } else { 0 }),
        Op::Y => "y".into(),
        Op::R => "r".into(),
        Op::T => "t".into(),
        Op::O => "o".into(),
    }
}
fn parse_op(s: &str) -> Option<Op> {
    let (h, r) = s.split_at(1.min(s.len()));
    match h {
        "w" => Some(Op::W(parse_fr(r)?)),
        "b" => {
            let (ns, rest) = r.split_once(':')?;
            let mut fs = vec![];
            for p in rest.split('+') { if !p.is_empty() { fs.push(parse_fr(p)?); } }
            Some(Op::B(fs, ns == "1"))
        }
        "s" => Some(Op::S(r == "1")),
        "y" => Some(Op::Y),
        "r" => Some(Op::R),
        "t" => Some(Op::T),
        "o" => Some(Op::O),
        _ => None,
    }
}
fn dmg_str(d: &Dmg) -> String {
    match d {
        Dmg::None => "none".into(),
        Dmg::Cut(s, o) => format!("cut:{}:{}", s, o),
        Dmg::Flip(s, o, m) => format!("flip:{}:{}:{}", s, o, m),
        Dmg::Zero(s, o, n) => format!("zero:{}:{}:{}", s, o, n),
    }
}
fn parse_dmg(s: &str) -> Option<Dmg> {
    let v: Vec<&str> = s.split(':').collect();
    match v[0] {
        "none" => Some(Dmg::None),
        "cut" if v.len() == 3 => Some(Dmg::Cut(v[1].parse().ok()?, v[2].parse().ok()?)),
        "flip" if v.len() == 4 => Some(Dmg::Flip(v[1].parse().ok()?, v[2].parse().ok()?, v[3].parse().ok()?)),
        "zero" if v.len() == 4 => Some(Dmg::Zero(v[1].parse().ok()?, v[2].parse().ok()?, v[3].parse().ok()?)),
        _ => None,
    }
}
fn line_of(ops: &[Op], d: &Dmg) -> String {
    format!("ops={} dmg={}", ops.iter().map(op_str).collect::<Vec<_>>().join(","), dmg_str(d))
}
enum Line { Run(Vec<Op>, Dmg), Crc(Fr, bool) }
fn parse_line(l: &str) -> Option<Line> {
    let l = l.trim();
    if let Some(r) = l.strip_prefix("crc ") {
        let mut fr = None; let mut reopen = false;
        for t in r.split_whitespace() {
            if let Some(x) = t.strip_prefix("fr=") { fr = parse_fr(x); }
            if t == "reopen=1" { reopen = true; }
        }
        return Some(Line::Crc(fr?, reopen));
    }
    let mut ops = vec![]; let mut d = Dmg::None; let mut seen = false;
    for t in l.split_whitespace() {
        if let Some(x) = t.strip_prefix("ops=") {
            seen = true;
            for o in x.split(',') { if !o.is_empty() { ops.push(parse_op(o)?); } }
        } else if let Some(x) = t.strip_prefix("dmg=") { d = parse_dmg(x)?; }
        // any other token (e.g. class=N appended by search mode) is ignored
    }
    if seen { Some(Line::Run(ops, d)) } else { None }
}

// ------------------------------------------------------------------ Coq terms
fn fr_term(f: &Fr) -> String { format!("(Fr {} {} {} {})", f.fid, f.page, f.dbs, f.fill) }
fn op_term(o: &Op) -> String {
    match o {
        Op::W(f) => format!("OWrite {}", fr_term(f)),
        Op::B(fs, ns) => format!("OBatch {} {}", clist(&fs.iter().map(fr_term).collect::<Vec<_>>()), cbool(*ns)),
        Op::S(b) => format!("OSetSync {}", cbool(*b)),
        Op::Y => "OSync".into(),
        Op::R => "ORotate".into(),
        Op::T => "OTruncate".into(),
        Op::O => "OReopen".into(),
    }
}

// ------------------------------------------------------------------ running the implementation
#[derive(Clone, Debug, PartialEq)]
enum Rd { None, Some(i32), Err, Panic }
fn rd_term(r: &Rd) -> String {
    match r { Rd::None => "RNone".into(), Rd::Some(v) => format!("(RSome {})", z(*v)), Rd::Err => "RErr".into(), Rd::Panic => "RPanic".into() }
}
#[derive(Clone, Debug, PartialEq)]
enum Rec { Ok(u32, Vec<i32>), Err, Panic }
fn rec_term(r: &Rec) -> String {
    match r {
        Rec::Ok(n, ps) => format!("(RecOk {} {})", n, clist(&ps.iter().map(|v| z(*v)).collect::<Vec<_>>())),
        Rec::Err => "RecErr".into(),
        Rec::Panic => "RecPanic".into(),
    }
}
/// a page image as the model sees it: its fill byte, or -1 when the bytes are not uniform
fn fill_of(b: &[u8]) -> i32 {
    if b.is_empty() { return -1; }
    let f = b[0];
    if b.iter().all(|x| *x == f) { f as i32 } else { -1 }
}
fn page_of(fill: u8) -> Vec<u8> { vec![fill; PAGE] }

struct Tmp(PathBuf);
impl Tmp {
    fn new() -> Tmp {
        use std::sync::atomic::{AtomicU64, Ordering};
        static N: AtomicU64 = AtomicU64::new(0);
        let root = std::env::var("C03_TMP").unwrap_or_else(|_| "/verif/build/tmp".to_string());
        let p = Path::new(&root).join(format!("c03-{}-{}", std::process::id(), N.fetch_add(1, Ordering::Relaxed)));
        let _ = std::fs::remove_dir_all(&p);
        std::fs::create_dir_all(&p).expect("tmp dir");
        Tmp(p)
    }
}
impl Drop for Tmp { fn drop(&mut self) { let _ = std::fs::remove_dir_all(&self.0); } }

fn seg_files(dir: &Path) -> Vec<PathBuf> {
    let mut v: Vec<PathBuf> = std::fs::read_dir(dir).map(|rd| rd.filter_map(|e| e.ok()).map(|e| e.path())
        .filter(|p| p.file_name().map(|n| { let n = n.to_string_lossy(); n.starts_with("wal.") && n.len() == 10 }).unwrap_or(false)).collect()).unwrap_or_default();
    v.sort();
    v
}

fn apply_op(wal: &mut Option<Wal>, dir: &Path, op: &Op) -> bool {
    let w = match wal.as_ref() { Some(w) => w, None => return false };
    let ok = match op {
        Op::W(f) => { let d = page_of(f.fill); w.write_frame_with_file_id(f.page, f.dbs, &d, f.fid).is_ok() }
        Op::B(fs, nosync) => {
            let datas: Vec<Vec<u8>> = fs.iter().map(|f| page_of(f.fill)).collect();
            let it = fs.iter().zip(datas.iter()).map(|(f, d)| (f.page, f.dbs, d.as_slice(), f.fid));
            if *nosync { w.write_frames_batch_no_sync(it).is_ok() } else { w.write_frames_batch(it).is_ok() }
        }
        Op::S(full) => { w.set_sync_mode(if *full { SyncMode::Full } else { SyncMode::Off }); true }
        Op::Y => w.sync().is_ok(),
        Op::R => w.rotate_segment().is_ok(),
        Op::T => w.truncate().is_ok(),
        Op::O => {
            *wal = None; // drop the handle (BufWriter flushes), then reopen
            match Wal::open(dir) { Ok(n) => { *wal = Some(n); true } Err(_) => false }
        }
    };
    ok
}

fn read_all(w: &Wal) -> Vec<Rd> {
    let mut v = vec![];
    for fid in 0..NFID { for p in 0..NPAGE {
        let r = catch(AssertUnwindSafe(|| w.read_page(fid, p)));
        v.push(match r {
            Caught::Done(Ok(None)) => Rd::None,
            Caught::Done(Ok(Some(b))) => Rd::Some(if b.len() == PAGE { fill_of(&b) } else { -1 }),
            Caught::Done(Err(_)) => Rd::Err,
            Caught::Panicked(_) => Rd::Panic,
        });
    } }
    v
}

fn recover_into(w: &Wal, path: &Path, fid: Option<u64>) -> Rec {
    let _ = std::fs::remove_file(path);
    let mut st = match MmapStorage::create(path, 1) { Ok(s) => s, Err(_) => return Rec::Err };
    let r = catch(AssertUnwindSafe(|| match fid { None => w.recover(&mut st), Some(f) => w.recover_for_file(&mut st, f) }));
    match r {
        Caught::Done(Ok(n)) => {
            let mut ps = vec![];
            for p in 0..st.page_count().min(64) { ps.push(st.page(p).map(fill_of).unwrap_or(-1)); }
            Rec::Ok(n, ps)
        }
        Caught::Done(Err(_)) => Rec::Err,
        Caught::Panicked(_) => Rec::Panic,
    }
}

/// verdict of the real sequential reader on one 16416-byte slot
fn slot_valid(tmp: &Path, bytes: &[u8]) -> bool {
    if bytes.len() as u64 != FRAME { return false; }
    let p = tmp.join("probe.seg");
    if std::fs::write(&p, bytes).is_err() { return false; }
    let ok = match WalSegment::open(&p, 1) { Ok(mut s) => matches!(catch(AssertUnwindSafe(|| s.read_frame().is_ok())), Caught::Done(true)), Err(_) => false };
    let _ = std::fs::remove_file(&p);
    ok
}

struct Outcome {
    ops_ok: bool,
    seglens: Vec<u64>,
    live: Vec<Rd>,
    vfirst: u8,
    vlast: u8,
    reads: Vec<Rd>,
    rec: Rec,
    rec0: Rec,
    rec1: Rec,
    curlen: u64,
    panicked: bool,
}

fn run_case(ops: &[Op], dmg: &Dmg) -> Outcome {
    let tmp = Tmp::new();
    let dir = tmp.0.join("wal");
    let mut out = Outcome { ops_ok: true, seglens: vec![], live: vec![], vfirst: 0, vlast: 0, reads: vec![],
        rec: Rec::Err, rec0: Rec::Err, rec1: Rec::Err, curlen: 0, panicked: false };
    let r = catch(AssertUnwindSafe(|| {
        let mut wal = Wal::create(&dir).ok();
        let mut ok = wal.is_some();
        for op in ops { if !apply_op(&mut wal, &dir, op) { ok = false; } }
        let live = match wal.as_ref() { Some(w) => read_all(w), None => vec![] };
        drop(wal);
        (ok, live)
    }));
    match r {
        Caught::Done((ok, live)) => { out.ops_ok = ok; out.live = live; }
        Caught::Panicked(_) => { out.ops_ok = false; out.panicked = true; }
    }
    let segs = seg_files(&dir);
    out.seglens = segs.iter().map(|p| std::fs::metadata(p).map(|m| m.len()).unwrap_or(0)).collect();
    // ---- damage
    match dmg {
        Dmg::None => {}
        Dmg::Cut(s, off) => {
            if *s < segs.len() && *off <= out.seglens[*s] {
                let f = std::fs::OpenOptions::new().write(true).open(&segs[*s]).expect("open seg");
                f.set_len(*off).expect("cut");
            }
        }
        Dmg::Flip(s, off, m) => {
            if *s < segs.len() && *off < out.seglens[*s] {
                let mut b = std::fs::read(&segs[*s]).expect("read seg");
                b[*off as usize] ^= *m;
                std::fs::write(&segs[*s], &b).expect("write seg");
            }
        }
        Dmg::Zero(s, off, n) => {
            if *s < segs.len() && *off < out.seglens[*s] && *n > 0 {
                let before = std::fs::read(&segs[*s]).expect("read seg");
                let mut b = before.clone();
                let end = (*off + *n).min(b.len() as u64);
                for x in &mut b[*off as usize..end as usize] { *x = 0; }
                std::fs::write(&segs[*s], &b).expect("write seg");
                // what became of slot i: 0 unchanged, 1 all zero, 2 changed and rejected by the real reader, 3 changed but accepted
                let sv = |i: u64| -> u8 {
                    let lo = (i * FRAME) as usize; let hi = lo + FRAME as usize;
                    if hi > b.len() { return 2; }
                    if b[lo..hi] == before[lo..hi] { 0 }
                    else if b[lo..hi].iter().all(|x| *x == 0) { 1 }
                    else if slot_valid(&tmp.0, &b[lo..hi]) { 3 } else { 2 }
                };
                out.vfirst = sv(*off / FRAME);
                out.vlast = sv((end - 1) / FRAME);
            }
        }
    }
    // ---- reopen, read, recover
    match catch(AssertUnwindSafe(|| Wal::open(&dir))) {
        Caught::Done(Ok(w)) => {
            out.curlen = segs.last().and_then(|p| std::fs::metadata(p).ok()).map(|m| m.len()).unwrap_or(0);
            out.reads = read_all(&w);
            out.rec = recover_into(&w, &tmp.0.join("db_all"), None);
            out.rec0 = recover_into(&w, &tmp.0.join("db_0"), Some(0));
            out.rec1 = recover_into(&w, &tmp.0.join("db_1"), Some(1));
        }
        Caught::Done(Err(_)) => { out.ops_ok = false; }
        Caught::Panicked(_) => { out.ops_ok = false; out.panicked = true; out.rec = Rec::Panic; }
    }
    out
}

/// run the cases on a few threads (each case has its own temp directory); results in input order
fn par_run(runs: &[(Vec<Op>, Dmg, &'static str)]) -> Vec<Outcome> {
    use std::sync::atomic::{AtomicUsize, Ordering};
    use std::sync::Mutex;
    let n = runs.len();
    let nt = std::env::var("C03_THREADS").ok().and_then(|v| v.parse::<usize>().ok()).unwrap_or(8).max(1);
    let next = AtomicUsize::new(0);
    let slots: Vec<Mutex<Option<Outcome>>> = (0..n).map(|_| Mutex::new(None)).collect();
    std::thread::scope(|sc| {
        for _ in 0..nt {
            sc.spawn(|| loop {
                let i = next.fetch_add(1, Ordering::Relaxed);
                if i >= n { break; }
                let o = run_case(&runs[i].0, &runs[i].1);
                *slots[i].lock().unwrap() = Some(o);
            });
        }
    });
    slots.into_iter().map(|m| m.into_inner().unwrap().expect("case ran")).collect()
}

fn dmg_term(d: &Dmg, o: &Outcome) -> String {
    match d {
        Dmg::None => "DNone".into(),
        Dmg::Cut(s, off) => format!("(DCut {} {})", s, off),
        Dmg::Flip(s, off, m) => format!("(DFlip {} {} {})", s, off, m),
        Dmg::Zero(s, off, n) => format!("(DZero {} {} {} {} {})", s, off, n, o.vfirst, o.vlast),
    }
}
fn case_term(ops: &[Op], d: &Dmg, o: &Outcome) -> String {
    format!("Run {} {} (Obs {} {} {} {} {} {} {} {})",
        clist(&ops.iter().map(op_term).collect::<Vec<_>>()), dmg_term(d, o), cbool(o.ops_ok && !o.panicked),
        clist(&o.seglens.iter().map(|v| v.to_string()).collect::<Vec<_>>()),
        clist(&o.live.iter().map(rd_term).collect::<Vec<_>>()),
        clist(&o.reads.iter().map(rd_term).collect::<Vec<_>>()),
        rec_term(&o.rec), rec_term(&o.rec0), rec_term(&o.rec1), o.curlen)
}

// ------------------------------------------------------------------ checksum cross-check
/// Write one frame through the real writer and read back the header the implementation
/// stored (salts and checksum); `reopen`: the frame is written after Wal::open of an empty log.
fn crc_case(f: &Fr, reopen: bool) -> Option<String> {
    let tmp = Tmp::new();
    let dir = tmp.0.join("wal");
    let mut w = Wal::create(&dir).ok()?;
    if reopen { drop(w); w = Wal::open(&dir).ok()?; }
    w.write_frame_with_file_id(f.page, f.dbs, &page_of(f.fill), f.fid).ok()?;
    drop(w);
    let b = std::fs::read(dir.join("wal.000001")).ok()?;
    if b.len() as u64 != FRAME { return None; }
    let u32at = |o: usize| u32::from_le_bytes([b[o], b[o + 1], b[o + 2], b[o + 3]]);
    let u64at = |o: usize| u64::from_le_bytes([b[o], b[o + 1], b[o + 2], b[o + 3], b[o + 4], b[o + 5], b[o + 6], b[o + 7]]);
    let (fid, page, dbs, s1, s2, ck) = (u64at(0), u32at(8), u32at(12), u32at(16), u32at(20), u64at(24));
    let data_ok = fill_of(&b[32..]) == f.fill as i32;
    Some(format!("CrcCase {} {} {} {} {} {} {} {}", fid, page, dbs, s1, s2, f.fill, ck, cbool(data_ok && fid == f.fid && page == f.page && dbs == f.dbs)))
}

// ------------------------------------------------------------------ the property's oracle, in Rust (search mode and `nontrivial`)
/// counters of a writer WITHOUT the repairs 3b478c2 / 68f3fa5: used only to label histories that
/// go through the repaired paths (1 append after reopening a non-empty segment, 2 append after
/// truncate at a cursor > 0, 3 truncate with frames buffered) in the case distribution
#[derive(Clone, Copy)]
struct Trk { cur: u64, off: u64, pend: u64, flen: u64, sync: bool, why: u8 }
fn trk_flush(t: &mut Trk) { if t.pend > 0 { t.flen = t.flen.max(t.cur + t.pend); t.cur += t.pend; t.pend = 0; } }
/// first finding class triggered by the op sequence (0 = none)
fn repaired_path(ops: &[Op]) -> u8 {
    let mut t = Trk { cur: 0, off: 0, pend: 0, flen: 0, sync: true, why: 0 };
    for op in ops {
        let nw = match op { Op::W(_) => 1, Op::B(fs, _) => fs.len() as u64, _ => 0 };
        if nw > 0 && t.cur + t.pend != t.off { return if t.why == 2 { 2 } else { 1 }; }
        match op {
            Op::W(_) => { t.pend += 1; t.off += 1; if t.sync { trk_flush(&mut t); } }
            Op::B(fs, ns) => { t.pend += nw; t.off += nw; if !*ns && t.sync && !fs.is_empty() { trk_flush(&mut t); } }
            Op::S(b) => t.sync = *b,
            Op::Y => trk_flush(&mut t),
            Op::R => { t = Trk { cur: 0, off: 0, pend: 0, flen: 0, sync: t.sync, why: 0 }; }
            Op::T => {
                if t.pend > 0 { return 3; }
                t.flen = 0; t.off = 0; if t.cur != 0 { t.why = 2; }
            }
            Op::O => { trk_flush(&mut t); t.off = t.flen; t.cur = 0; t.sync = true; if t.off != 0 { t.why = 1; } }
        }
    }
    0
}
/// the abstract log: frames since the last truncate, per segment, in write order
fn log_of(ops: &[Op]) -> Vec<Vec<Fr>> {
    let mut closed: Vec<Vec<Fr>> = vec![]; let mut cur: Vec<Fr> = vec![];
    for op in ops {
        match op {
            Op::W(f) => cur.push(f.clone()),
            Op::B(fs, _) => cur.extend(fs.iter().cloned()),
            Op::R => { closed.push(std::mem::take(&mut cur)); }
            Op::T => { closed.clear(); cur.clear(); }
            _ => {}
        }
    }
    closed.push(cur);
    closed
}
/// number of leading frames of a segment of `n` written frames that are intact after the damage
fn intact(n: u64, d: &Dmg, vfirst: u8, vlast: u8) -> u64 {
    match d {
        Dmg::None => n,
        Dmg::Cut(_, off) => if *off <= n * FRAME { (*off / FRAME).min(n) } else { n },
        Dmg::Flip(_, off, m) => if *m != 0 && *off < n * FRAME { *off / FRAME } else { n },
        Dmg::Zero(_, off, len) => {
            if *len == 0 || *off >= n * FRAME { return n; }
            let end = (*off + *len).min(n * FRAME);
            let (i0, i1) = (*off / FRAME, (end - 1) / FRAME);
            for i in i0..=i1 {
                let whole = *off <= i * FRAME && (i + 1) * FRAME <= end;
                let cls = if whole { 1 } else if i == i0 { vfirst } else { vlast };
                if cls != 0 { return i; }
            }
            n
        }
    }
}
fn dmg_seg(d: &Dmg) -> Option<usize> { match d { Dmg::None => None, Dmg::Cut(s, _) | Dmg::Flip(s, _, _) | Dmg::Zero(s, _, _) => Some(*s) } }
/// the longest valid prefix of the log after the damage
fn valid_prefix(log: &[Vec<Fr>], d: &Dmg, vfirst: u8, vlast: u8) -> Vec<Fr> {
    let mut out = vec![];
    for (k, seg) in log.iter().enumerate() {
        if dmg_seg(d) == Some(k) {
            let n = intact(seg.len() as u64, d, vfirst, vlast) as usize;
            if n < seg.len() { out.extend(seg[..n].iter().cloned()); return out; }
        }
        out.extend(seg.iter().cloned());
    }
    out
}
fn last_image(fs: &[Fr], fid: u64, page: u32) -> Rd {
    match fs.iter().rev().find(|f| f.fid == fid && f.page == page) { Some(f) => Rd::Some(f.fill as i32), None => Rd::None }
}
fn expect_reads(fs: &[Fr]) -> Vec<Rd> {
    let mut v = vec![];
    for fid in 0..NFID { for p in 0..NPAGE { v.push(last_image(fs, fid, p)); } }
    v
}
fn rec_ok(fs: &[Fr], r: &Rec) -> bool {
    match r {
        Rec::Ok(n, pages) => {
            if *n as usize != fs.len() { return false; }
            for (p, got) in pages.iter().enumerate() {
                let want = fs.iter().rev().find(|f| f.page as usize == p).map(|f| f.fill as i32).unwrap_or(0);
                if *got != want { return false; }
            }
            fs.iter().all(|f| (f.page as usize) < pages.len())
        }
        Rec::Err => false,
        Rec::Panic => false,
    }
}
/// does the observed behaviour satisfy the property?  (same rule as Corr.C03.spec_ok)
fn spec_ok(ops: &[Op], d: &Dmg, o: &Outcome) -> bool {
    if !o.ops_ok || o.panicked { return false; }
    let log = log_of(ops);
    let vp = valid_prefix(&log, d, o.vfirst, o.vlast);
    let by = |fid: u64| -> Vec<Fr> { vp.iter().filter(|f| f.fid == fid).cloned().collect() };
    o.reads == expect_reads(&vp) && rec_ok(&vp, &o.rec) && rec_ok(&by(0), &o.rec0) && rec_ok(&by(1), &o.rec1)
}
/// finding class of a case (0 = none): same rule as Model.WalSpec.dmg_class
///   6  the first destroyed frame slot is all zero bytes after the fault (accepted as a frame)
///   7  a closed segment cut exactly at a frame boundary, frames in a later segment
fn known_class(ops: &[Op], d: &Dmg, o: &Outcome) -> u8 {
    let log = log_of(ops);
    if let Some(s) = dmg_seg(d) {
        if s < log.len() {
            let len = log[s].len() as u64;
            let n = intact(len, d, o.vfirst, o.vlast);
            if n < len {
                if let Dmg::Zero(_, off, k) = d {
                    if *k > 0 && *off < len * FRAME {
                        let end = (*off + *k).min(len * FRAME);
                        let whole = *off <= n * FRAME && (n + 1) * FRAME <= end;
                        let overlapped = !((n + 1) * FRAME <= *off || end <= n * FRAME);
                        let cls = if !overlapped { 0 } else if whole { 1 } else if n == *off / FRAME { o.vfirst } else { o.vlast };
                        if cls == 1 { return 6; }
                    }
                }
                if let Dmg::Cut(_, off) = d {
                    if *off <= len * FRAME && *off % FRAME == 0 && log[s + 1..].iter().any(|g| !g.is_empty()) { return 7; }
                }
            }
        }
    }
    0
}

// ------------------------------------------------------------------ generators
fn gen_fr(rng: &mut Rng) -> Fr {
    let fid = if rng.chance(3, 4) { 0 } else { 1 };
    let page = rng.below(NPAGE as u64) as u32;
    let dbs = *rng.pick(&[0u32, 1, 2, 3, 4]);
    let fill = if rng.chance(1, 6) { 0 } else { *rng.pick(&[1u8, 2, 3, 7, 0x55, 0xAA, 0xFF, 9, 17, 200]) };
    Fr { fid, page, dbs, fill }
}
fn gen_ops(rng: &mut Rng, maxlen: usize, _clean: bool) -> Vec<Op> {
    let n = 1 + rng.below(maxlen as u64) as usize;
    let mut ops: Vec<Op> = vec![];
    let mut tries = 0;
    while ops.len() < n && tries < 200 {
        tries += 1;
        let op = match rng.below(100) {
            0..=44 => Op::W(gen_fr(rng)),
            45..=59 => { let k = rng.below(4) as usize; Op::B((0..k).map(|_| gen_fr(rng)).collect(), rng.chance(1, 2)) }
            60..=65 => Op::S(rng.chance(1, 2)),
            66..=70 => Op::Y,
            71..=79 => Op::R,
            80..=88 => Op::T,
            _ => Op::O,
        };
        ops.push(op);
    }
    ops
}
fn total_frames_upper(ops: &[Op]) -> u64 {
    ops.iter().map(|o| match o { Op::W(_) => 1, Op::B(fs, _) => fs.len() as u64, _ => 0 }).sum::<u64>() + 2
}
fn gen_dmg(rng: &mut Rng, nseg: usize, ops: &[Op]) -> Dmg {
    let s = if rng.chance(3, 4) { nseg.saturating_sub(1) } else { rng.below(nseg.max(1) as u64) as usize };
    let nf = total_frames_upper(ops);
    let k = rng.below(nf);
    let within = match rng.below(8) {
        0 => 0, 1 => 1, 2 => FRAME - 1, 3 => rng.below(32), 4 => 31, 5 => 32, 6 => 24 + rng.below(8), _ => rng.below(FRAME),
    };
    let off = k * FRAME + within;
    match rng.below(10) {
        0..=3 => Dmg::Cut(s, off),
        4..=6 => Dmg::Flip(s, off, 1u8 << rng.below(8)),
        _ => {
            let len = match rng.below(5) { 0 => 1, 1 => 8, 2 => FRAME, 3 => 2 * FRAME, _ => 1 + rng.below(2 * FRAME) };
            let off = if rng.chance(1, 3) { k * FRAME } else { off };
            Dmg::Zero(s, off, len)
        }
    }
}
fn nseg_of(ops: &[Op]) -> usize { log_of(ops).len() }

fn boundary_cases() -> Vec<(Vec<Op>, Dmg, &'static str)> {
    let f = |fid, page, dbs, fill| Fr { fid, page, dbs, fill };
    let w = |page, fill| Op::W(Fr { fid: 0, page, dbs: 3, fill });
    let mut v: Vec<(Vec<Op>, Dmg, &'static str)> = vec![];
    v.push((vec![], Dmg::None, "boundary"));
    v.push((vec![w(0, 1)], Dmg::None, "boundary"));
    v.push((vec![w(0, 1), w(1, 2), w(0, 3)], Dmg::None, "boundary"));
    // the probe's three situations
    v.push((vec![w(0, 1), w(1, 2), Op::O, w(2, 3)], Dmg::None, "boundary"));
    v.push((vec![w(1, 1), w(2, 2), Op::T, w(1, 3)], Dmg::None, "boundary"));
    v.push((vec![Op::S(false), w(1, 1), Op::T], Dmg::None, "boundary"));
    v.push((vec![w(0, 1), Op::R, w(1, 2)], Dmg::Flip(0, 40, 1), "boundary"));
    v.push((vec![w(0, 1), Op::R, w(1, 2)], Dmg::None, "boundary"));
    v.push((vec![Op::B(vec![f(1, 2, 4, 9), f(0, 2, 0, 7)], true), Op::Y, Op::O], Dmg::None, "boundary"));
    // every cut offset class of a 3-frame segment
    let three = vec![w(0, 1), w(1, 2), w(0, 3)];
    for k in 0..=3u64 { for d in [0i64, 1, 31, 32, 33, -1] {
        let off = (k * FRAME) as i64 + d;
        if off >= 0 && off as u64 <= 3 * FRAME { v.push((three.clone(), Dmg::Cut(0, off as u64), "cut_sweep")); }
    } }
    for k in 0..3u64 { for o in [0u64, 7, 8, 12, 16, 20, 24, 31, 32, 33, FRAME - 1] {
        v.push((three.clone(), Dmg::Flip(0, k * FRAME + o, 0x80), "flip_sweep"));
    } }
    for k in 0..3u64 {
        v.push((three.clone(), Dmg::Zero(0, k * FRAME, FRAME), "zero_sweep"));
        v.push((three.clone(), Dmg::Zero(0, k * FRAME + 24, 8), "zero_sweep"));
        v.push((three.clone(), Dmg::Zero(0, k * FRAME + 32, 100), "zero_sweep"));
        v.push((three.clone(), Dmg::Zero(0, k * FRAME + 100, FRAME), "zero_sweep"));
    }
    // zero-filling bytes that already are zero (page image 0) must not invalidate the frame
    v.push((vec![w(0, 1), w(1, 0), w(2, 5)], Dmg::Zero(0, FRAME + 32, 500), "zero_sweep"));
    v
}

fn main() {
    let a = Args::parse();
    let _ = std::fs::create_dir_all(std::env::var("C03_TMP").unwrap_or_else(|_| "/verif/build/tmp".to_string()));
    match a.mode.as_str() {
        "gen" => gen(&a),
        "search" => search(&a),
        _ => { eprintln!("c03: unknown mode"); std::process::exit(2); }
    }
}

fn dmg_kind(d: &Dmg) -> &'static str {
    match d { Dmg::None => "nodmg", Dmg::Cut(..) => "cut", Dmg::Flip(..) => "flip", Dmg::Zero(..) => "zero" }
}

/// the small op alphabet of the exhaustive enumerations
fn alphabet() -> Vec<Op> {
    let f = |fid, page, dbs, fill| Fr { fid, page, dbs, fill };
    vec![
        Op::W(f(0, 0, 3, 1)), Op::W(f(0, 1, 2, 2)), Op::W(f(1, 2, 4, 3)),
        Op::B(vec![f(0, 1, 3, 5), f(0, 0, 0, 6)], true), Op::B(vec![f(1, 1, 1, 7)], false),
        Op::S(false), Op::Y, Op::R, Op::T, Op::O,
    ]
}
fn all_seqs(maxlen: usize) -> Vec<Vec<Op>> {
    let al = alphabet();
    let mut out: Vec<Vec<Op>> = vec![];
    let mut level: Vec<Vec<Op>> = vec![vec![]];
    for _ in 0..maxlen {
        let mut next = vec![];
        for s in &level { for o in &al { let mut t = s.clone(); t.push(o.clone()); next.push(t); } }
        out.extend(next.iter().cloned());
        level = next;
    }
    out
}

fn gen(a: &Args) {
    let mut rng = Rng::new(a.seed);
    let mut w = CaseWriter::new(&a.out, "C03", "Corr.C03", 300);
    let mut runs: Vec<(Vec<Op>, Dmg, &'static str)> = vec![];
    let mut crcs: Vec<(Fr, bool)> = vec![];
    if let Some(lines) = a.replay_lines() {
        for l in lines {
            match parse_line(&l) {
                Some(Line::Run(ops, d)) => runs.push((ops, d, "replay")),
                Some(Line::Crc(f, r)) => crcs.push((f, r)),
                None => {}
            }
        }
    } else {
        runs = boundary_cases();
        // exhaustive over the small alphabet
        for ops in all_seqs(if a.thorough() { 4 } else { 2 }) {
            if a.thorough() && ops.len() <= 3 {
                for _ in 0..2 { let d = gen_dmg(&mut rng, nseg_of(&ops), &ops); runs.push((ops.clone(), d, "exhaustive_dmg")); }
            }
            runs.push((ops, Dmg::None, "exhaustive"));
        }
        {
            let wr = |page, fill| Op::W(Fr { fid: 0, page, dbs: 3, fill });
            let multi = vec![wr(0, 1), wr(1, 2), Op::R, wr(2, 3), wr(0, 4), Op::R, wr(1, 5)];
            for sgm in 0..3usize { for k in 0..2u64 { for j in [0u64, 33, FRAME - 1] {
                runs.push((multi.clone(), Dmg::Cut(sgm, k * FRAME + j), "multi_sweep"));
                runs.push((multi.clone(), Dmg::Flip(sgm, k * FRAME + j, 0x10), "multi_sweep"));
                runs.push((multi.clone(), Dmg::Zero(sgm, k * FRAME + j, FRAME), "multi_sweep"));
            } } }
        }
        if a.thorough() {
            // dense truncation sweep of a 3-frame segment, and of the middle segment of three
            let wr = |page, fill| Op::W(Fr { fid: 0, page, dbs: 3, fill });
            let three = vec![wr(0, 1), wr(1, 2), wr(0, 3)];
            for k in 0..3u64 { for j in (0..=40u64).chain(FRAME - 40..FRAME) { runs.push((three.clone(), Dmg::Cut(0, k * FRAME + j), "cut_sweep")); } }
            let multi = vec![wr(0, 1), wr(1, 2), Op::R, wr(2, 3), wr(0, 4), Op::R, wr(1, 5)];
            for sgm in 0..3usize { for k in 0..2u64 { for j in [0u64, 1, 31, 32, 33, 8000, FRAME - 1] {
                runs.push((multi.clone(), Dmg::Cut(sgm, k * FRAME + j), "cut_sweep"));
                runs.push((multi.clone(), Dmg::Flip(sgm, k * FRAME + j, 0x10), "flip_sweep"));
            } } }
        }
        let (nseq, per) = if a.thorough() { (1300, 4) } else { (200, 3) };
        for i in 0..nseq {
            let clean = i % 10 < 8;
            let ops = gen_ops(&mut rng, if a.thorough() { 14 } else { 12 }, clean);
            runs.push((ops.clone(), Dmg::None, "random"));
            for _ in 0..per {
                let d = gen_dmg(&mut rng, nseg_of(&ops), &ops);
                runs.push((ops.clone(), d, "random"));
            }
        }
        let ncrc = if a.thorough() { 60 } else { 10 };
        crcs.push((Fr { fid: 0, page: 0, dbs: 0, fill: 0 }, false));
        crcs.push((Fr { fid: 1, page: 2, dbs: 3, fill: 255 }, true));
        for _ in 0..ncrc {
            let f = Fr { fid: rng.next() >> rng.below(64), page: (rng.next() >> 32 >> rng.below(32)) as u32, dbs: (rng.next() >> 32 >> rng.below(32)) as u32, fill: rng.next() as u8 };
            crcs.push((f, rng.chance(1, 3)));
        }
    }
    let mut by_class = [0u64; 8];
    let mut oracle_fail = [0u64; 8];
    let mut total_runs = 0u64;
    let outcomes = par_run(&runs);
    for ((ops, d, base), o) in runs.into_iter().zip(outcomes.into_iter()) {
        let term = case_term(&ops, &d, &o);
        let k = known_class(&ops, &d, &o) as usize;
        by_class[k.min(7)] += 1;
        if !spec_ok(&ops, &d, &o) { oracle_fail[k.min(7)] += 1; }
        total_runs += 1;
        // the interesting regime: at least two frames written, and either a fault or one of the
        // hazards (reopen, truncate, rotate, frames left in the BufWriter) is present
        let nfr: u64 = ops.iter().map(|o| match o { Op::W(_) => 1, Op::B(fs, _) => fs.len() as u64, _ => 0 }).sum();
        let hazard = ops.iter().any(|o| matches!(o, Op::O | Op::T | Op::R | Op::S(false) | Op::B(_, true)));
        let nontrivial = nfr >= 2 && (hazard || d != Dmg::None);
        let kind = if base == "random" || base == "exhaustive" || base == "exhaustive_dmg" { format!("{}_class{}_path{}_{}", base, k, repaired_path(&ops), dmg_kind(&d)) } else { base.to_string() };
        w.push(term, line_of(&ops, &d), nontrivial, &kind);
    }
    for (f, r) in crcs {
        match crc_case(&f, r) {
            Some(t) => w.push(t, format!("crc fr={} reopen={}", fr_str(&f), if r { 1 } else { 0 }), true, "crc"),
            None => w.push("CrcFail".into(), format!("crc fr={} reopen={}", fr_str(&f), if r { 1 } else { 0 }), true, "crc"),
        }
    }
    let arr = |x: &[u64; 8]| format!("[{}]", x.iter().map(|v| v.to_string()).collect::<Vec<_>>().join(", "));
    w.finish(&[
        ("run_cases".to_string(), total_runs.to_string()),
        ("cases_by_finding_class_0_to_7".to_string(), arr(&by_class)),
        ("rust_oracle_failures_by_class_0_to_7".to_string(), arr(&oracle_fail)),
    ]);
}

/// Oracle only: the property's own rule (spec_ok above) on the implementation.  FAIL lines
/// carry the finding class of the case (`class=N`, 0 = unexplained) for check.py's filter.
fn search(a: &Args) {
    let mut rng = Rng::new(a.seed ^ 0xC03);
    let budget = a.budget.min(6000) as usize;
    let mut runs: Vec<(Vec<Op>, Dmg, &'static str)> = boundary_cases();
    for ops in all_seqs(3) { runs.push((ops, Dmg::None, "exhaustive")); }
    runs.truncate(budget.max(1));
    while runs.len() < budget {
        let clean = rng.chance(4, 5);
        let ops = gen_ops(&mut rng, 10, clean);
        let d = if rng.chance(1, 3) { Dmg::None } else { gen_dmg(&mut rng, nseg_of(&ops), &ops) };
        runs.push((ops, d, "random"));
    }
    let outcomes = par_run(&runs);
    let mut fails: Vec<String> = vec![];
    let mut per_class = [0u32; 8];
    for ((ops, d, _), o) in runs.iter().zip(outcomes.iter()) {
        if !spec_ok(ops, d, o) {
            let k = (known_class(ops, d, o) as usize).min(7);
            per_class[k] += 1;
            if (k == 0 && per_class[0] <= 20) || (k != 0 && per_class[k] <= 2) { fails.push(format!("{} class={}", line_of(ops, d), k)); }
        }
    }
    let mut out = format!("tried={}\n", runs.len());
    // unexplained failures first
    fails.sort_by_key(|l| if l.ends_with("class=0") { 0 } else { 1 });
    for f in &fails { out.push_str("FAIL "); out.push_str(f); out.push('\n'); }
    std::fs::write(&a.out, out).expect("write search output");
}
