(* C22 proofs, part 4: next_token and the caller's loop.
   lexer_total_l      for EVERY byte string the fuel S (length s) is enough (no OutOfFuel): each
                      next_token call either returns Eof or consumes at least one byte, each further
                      iteration of next_token's comment loop has consumed at least one byte;
   lexer_no_panic_l   on valid UTF-8 (the &str invariant) shorter than 2^31 bytes nothing panics and
                      the token list ends with Eof. *)
From Coq Require Import ZArith List Bool Arith Lia ZifyBool.
From TV Require Import Model.LexerKeywords Model.Lexer Proof.LexerBase Proof.LexerScan Proof.LexerScan2.
Import ListNotations.
Open Scope Z_scope.

Ltac Zify.zify_post_hook ::= Z.to_euclidean_division_equations.

Definition last_is_eof (toks : list ltok) : Prop :=
  exists pre t a b, toks = pre ++ [L t a b] /\ is_eof_tok t = true.

Section Total.
Variable s : list Z.
Variable pan : bool.
Hypothesis Hgood : pan = false -> utf8_valid s = true /\ Z.of_nat (len s) < 2 ^ 31.

Notation inv := (inv s pan).
Notation bd := (bd s pan).
Notation wp := (wp pan).

(* ---- tactics: symbolic execution of the monadic code *)
Ltac eofs :=
  repeat match goal with
         | H : is_eof s _ = true |- _ => apply (proj1 (eof_true s _)) in H
         | H : is_eof s _ = false |- _ => apply (proj1 (eof_false s _)) in H
         end.

Ltac ex_bytes :=
  repeat match goal with
         | H : exists b, nth_error _ _ = Some b /\ _ |- _ => destruct H as (? & ? & ? & ?)
         end.

(* a goal `bd i` *)
Ltac bdt :=
  first
    [ assumption
    | apply (bd_len s pan)
    | eapply (bd_at s pan); [eassumption | cls]
    | match goal with
      | H : forall b, nth_error s _ = Some b -> is_ascii b = true -> LexerBase.bd s pan _ |- _ =>
          eapply H; [eassumption | cls]
      end ].

Ltac step :=
  match goal with
  | |- LexerBase.wp _ (bind (advance _ _) _) _ =>
      eapply wp_bind; [apply (wp_advance s pan Hgood); assumption|];
      let st' := fresh "st" in intros st' (? & ? & ? & ? & ? & ?)
  | |- LexerBase.wp _ (bind (skip_while _ _ (lfuel _) _) _) _ =>
      eapply wp_bind; [apply (wp_skip_while s pan Hgood); [assumption | unfold lfuel; lia]|];
      let st' := fresh "st" in intros st' (? & ? & ? & ? & ?)
  | |- LexerBase.wp _ (bind (slice _ _ _) _) _ =>
      eapply wp_bind; [apply (wp_slice s pan Hgood) | intros _ _]
  | |- LexerBase.wp _ (bind (at_byte _ _ _) _) _ =>
      eapply wp_bind; [apply (wp_at_byte s pan)|];
      let g := fresh "g" in intros g ?; destruct g
  | |- LexerBase.wp _ (bind (current _ _) _) _ =>
      eapply wp_bind; [apply (wp_current s pan); lia|]; let H := fresh "Hc" in intros ? H; cbv beta in H
  | |- LexerBase.wp _ (bind (Ok _) _) _ => cbn [bind]
  | |- LexerBase.wp _ (if is_eof _ _ then _ else _) _ =>
      let E := fresh "E" in destruct (is_eof s _) eqn:E; eofs
  | |- LexerBase.wp _ (if ?c then _ else _) _ => let E := fresh "E" in destruct c eqn:E
  end.

Ltac fin := simpl; split; [assumption | lia].

(* turn `pos a < len -> pos b = S (pos a)` into the equation when the premise is known *)
Ltac posn :=
  repeat match goal with
         | H : (pos ?a < len s)%nat -> pos ?b = S (pos ?a) |- _ =>
             let H' := fresh in assert (H' : (pos a < len s)%nat) by lia; specialize (H H'); clear H'
         end.


Definition nt_post (st : lx) (r : tok * nat * lx * nat) : Prop :=
  let '(t, ts, st', d) := r in
  inv st' /\ (pos st <= pos st')%nat /\ (is_eof_tok t = true \/ (pos st < pos st')%nat).

Lemma wp_next_token : forall fuel st, inv st -> (len s - pos st < fuel)%nat ->
  wp (next_token s fuel st) (nt_post st).
Proof.
  induction fuel as [|f IH]; intros st Hi Hf; [lia|].
  cbn [next_token]. step. step.
  - simpl. split; [assumption|]. split; [lia|]. left. reflexivity.
  - eapply wp_bind; [apply (wp_comment_or_token s pan Hgood); assumption|].
    intros [t st2|st2] [? ?].
    + simpl. split; [assumption|]. split; [lia|]. right. lia.
    + eapply wp_bind; [apply IH; [assumption | lia]|].
      intros [[[t ts] st3] d] (? & ? & ?). simpl. split; [assumption|]. split; [lia|]. right. lia.
Qed.

Lemma wp_lex_all : forall fuel st, inv st -> (len s - pos st < fuel)%nat ->
  wp (lex_all s fuel st) (fun r => let '(toks, st', d) := r in inv st' /\ last_is_eof toks).
Proof.
  induction fuel as [|f IH]; intros st Hi Hf; [lia|].
  cbn [lex_all].
  eapply wp_bind; [apply wp_next_token; [assumption | unfold lfuel; lia]|].
  intros [[[t ts] st1] d] (Hi1 & Hle & Hpr). cbv beta iota.
  destruct (is_eof_tok t) eqn:Et.
  - simpl. split; [assumption|]. exists [], t, ts, (pos st1). split; [reflexivity | assumption].
  - destruct Hpr as [Hpr|Hpr]; [congruence|]. pose proof (proj1 Hi1) as Hp1.
    eapply wp_bind; [apply IH; [assumption | lia]|].
    intros [[rest st2] d2] (Hi2 & pre & t' & a & b & Hrest & Hte). simpl.
    split; [assumption|]. exists (L t ts (pos st1) :: pre), t', a, b. split; [rewrite Hrest; reflexivity | assumption].
Qed.

End Total.

(* ---------------------------------------------------------------- the closed statements *)
Lemma lexer_total_l : forall s, lex s <> OutOfFuel.
Proof.
  intros s. unfold lex.
  eapply (wp_not_fuel true).
  apply (wp_lex_all s true).
  - intros H; discriminate.
  - apply inv_init.
  - unfold lfuel, init; cbn [pos]. lia.
Qed.

Lemma lexer_no_panic_l : forall s, utf8_valid s = true -> Z.of_nat (length s) < 2 ^ 31 ->
  exists toks st d, lex s = Ok (toks, st, d) /\ last_is_eof toks.
Proof.
  intros s Hv Hl. unfold lex.
  assert (Hw : LexerBase.wp false (lex_all s (lfuel s) init)
                 (fun r => let '(toks, st', d) := r in LexerBase.inv s false st' /\ last_is_eof toks)).
  { apply (wp_lex_all s false).
    - intros _. split; [exact Hv | exact Hl].
    - apply inv_init.
    - unfold lfuel, init; cbn [pos]. lia. }
  apply wp_false_ok in Hw. destruct Hw as [[[toks st] d] [Heq [_ Hlast]]].
  exists toks, st, d. split; assumption.
Qed.

(* progress of one call (any byte string): unless it returns Eof, next_token consumes >= 1 byte *)
Lemma lexer_progress_l : forall s st t ts st' d, (pos st <= length s)%nat ->
  next_token s (lfuel s) st = Ok (t, ts, st', d) ->
  (pos st <= pos st' <= length s)%nat /\ (is_eof_tok t = false -> (pos st < pos st')%nat).
Proof.
  intros s st t ts st' d Hp Heq.
  assert (Hw : LexerBase.wp true (next_token s (lfuel s) st) (nt_post s true st)).
  { apply (wp_next_token s true).
    - intros H; discriminate.
    - split; [exact Hp | intros H; discriminate].
    - unfold lfuel, len. lia. }
  rewrite Heq in Hw. simpl in Hw. destruct Hw as ([Hp' _] & Hle & Hpr).
  split; [unfold len in Hp'; lia|]. intros Ht. destruct Hpr as [Hpr|Hpr]; [congruence | exact Hpr].
Qed.
