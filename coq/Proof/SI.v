(* C08 -- properties of the snapshot-isolation reference Model/SI.v, for every state and every
   schedule: statements of an open transaction are invisible to the other handles, a transaction's
   view does not change under the statements of other handles, a rolled-back transaction leaves
   no trace, first committer wins (no lost update); and what the header helpers of
   src/mvcc/version.rs would decide if they were called. *)
From Coq Require Import ZArith List Bool Lia.
From TV Require Import Model.SqlSpec Model.UndoLog Model.SI.
Import ListNotations.
Open Scope Z_scope.

(* ------------------------------------------------------------------ value equality is equality *)
Lemma zlist_eqb'_eq : forall a b, zlist_eqb' a b = true -> a = b.
Proof.
  induction a as [|x a IH]; destruct b as [|y b]; cbn [zlist_eqb']; intro H; try discriminate; [reflexivity|].
  apply andb_true_iff in H. destruct H as [H1 H2]. apply Z.eqb_eq in H1. subst y. f_equal. apply IH. exact H2.
Qed.
Lemma value_eqb_eq : forall a b, value_eqb a b = true -> a = b.
Proof.
  destruct a as [|x|x|x|x]; destruct b as [|y|y|y|y]; cbn [value_eqb]; intro H; try discriminate; try reflexivity.
  - apply Z.eqb_eq in H. congruence.
  - apply Z.eqb_eq in H. congruence.
  - apply zlist_eqb'_eq in H. congruence.
  - apply Bool.eqb_prop in H. congruence.
Qed.
Lemma zlist_eqb'_refl : forall l, zlist_eqb' l l = true.
Proof. induction l as [|x l IH]; cbn [zlist_eqb']; [reflexivity|]. rewrite Z.eqb_refl, IH. reflexivity. Qed.
Lemma value_eqb_refl : forall v, value_eqb v v = true.
Proof.
  destruct v as [|z|b|s|b]; cbn [value_eqb]; try reflexivity; try apply Z.eqb_refl.
  - apply zlist_eqb'_refl.
  - destruct b; reflexivity.
Qed.

(* ------------------------------------------------------------------ handle slots *)
Lemma nth_set_nth_other : forall {A} (l : list A) i j x, i <> j -> nth_error (set_nth i x l) j = nth_error l j.
Proof.
  intros A l. induction l as [|y l IH]; intros i j x Hij.
  - destruct i; reflexivity.
  - destruct i, j; cbn [set_nth nth_error]; try reflexivity; [contradiction|]. apply IH. congruence.
Qed.
Lemma nth_set_nth_same : forall {A} (l : list A) i x y, nth_error l i = Some y -> nth_error (set_nth i x l) i = Some x.
Proof.
  intros A l. induction l as [|z l IH]; intros i x y H; destruct i; cbn [set_nth nth_error] in *; try discriminate; [reflexivity|].
  eapply IH. exact H.
Qed.

(* a step of handle h' leaves the slot of every other handle alone *)
Lemma si_exec_other_slot : forall s h h' o, h <> h' -> nth_error (hs (snd (si_exec h' o s))) h = nth_error (hs s) h.
Proof.
  intros s h h' o Hne. unfold si_exec.
  destruct (nth_error (hs s) h') as [[tx|]|] eqn:E; [| |reflexivity].
  - destruct o; cbn [snd hs]; try reflexivity; unfold set_h;
      try (rewrite nth_set_nth_other by congruence; reflexivity).
    + destruct (dml_apply (OIns rows) (view tx)) as [[[r t'] ks]|]; cbn [snd hs]; [unfold set_h; rewrite nth_set_nth_other by congruence|]; reflexivity.
    + destruct (dml_apply (OUpd sc v w) (view tx)) as [[[r t'] ks]|]; cbn [snd hs]; [unfold set_h; rewrite nth_set_nth_other by congruence|]; reflexivity.
    + destruct (dml_apply (ODel w) (view tx)) as [[[r t'] ks]|]; cbn [snd hs]; [unfold set_h; rewrite nth_set_nth_other by congruence|]; reflexivity.
    + destruct (conflict tx s); cbn [snd hs]; unfold set_h; rewrite nth_set_nth_other by congruence; reflexivity.
  - destruct o; cbn [snd hs]; try reflexivity; unfold set_h;
      try (rewrite nth_set_nth_other by congruence; reflexivity).
Qed.

(* a transaction's reads see its snapshot plus its own writes, whatever the other handles do
   (DML, COMMIT, autocommit statements): "consistent snapshot taken at BEGIN" *)
Lemma si_snapshot_stable_l : forall s h h' o,
  h <> h' -> in_txn h s ->
  si_view h (snd (si_exec h' o s)) = si_view h s /\ in_txn h (snd (si_exec h' o s)).
Proof.
  intros s h h' o Hne [tx Htx]. unfold si_view, in_txn.
  rewrite (si_exec_other_slot s h h' o Hne), Htx. split; [reflexivity| exists tx; reflexivity].
Qed.

(* an open transaction never changes the committed table before it commits *)
Lemma si_uncommitted_keeps_committed : forall s h' o,
  in_txn h' s -> o <> OCommit -> committed (snd (si_exec h' o s)) = committed s.
Proof.
  intros s h' o [tx Htx] Hc. unfold si_exec. rewrite Htx.
  destruct o; cbn [snd committed]; try reflexivity; try contradiction.
Qed.

(* no dirty read: no statement of an open transaction (other than its COMMIT) changes what any
   other handle reads *)
Lemma si_no_dirty_read_l : forall s h h' o,
  h <> h' -> in_txn h' s -> o <> OCommit ->
  si_view h (snd (si_exec h' o s)) = si_view h s.
Proof.
  intros s h h' o Hne Hin Hc. unfold si_view.
  rewrite (si_exec_other_slot s h h' o Hne), (si_uncommitted_keeps_committed s h' o Hin Hc). reflexivity.
Qed.

(* DML and reads keep a transaction open *)
Definition keeps_open (o : op) : bool :=
  match o with OIns _ | OUpd _ _ _ | ODel _ | OObs | OBegin => true | _ => false end.
Lemma si_keeps_open : forall s h o, in_txn h s -> keeps_open o = true -> in_txn h (snd (si_exec h o s)).
Proof.
  intros s h o [tx Htx] Hk. unfold si_exec, in_txn. rewrite Htx.
  destruct o; cbn [keeps_open] in Hk; try discriminate; cbn [snd hs].
  - destruct (dml_apply (OIns rows) (view tx)) as [[[r t'] ks]|]; cbn [snd hs]; [|exists tx; exact Htx].
    eexists. unfold set_h. eapply nth_set_nth_same. exact Htx.
  - destruct (dml_apply (OUpd sc v w) (view tx)) as [[[r t'] ks]|]; cbn [snd hs]; [|exists tx; exact Htx].
    eexists. unfold set_h. eapply nth_set_nth_same. exact Htx.
  - destruct (dml_apply (ODel w) (view tx)) as [[[r t'] ks]|]; cbn [snd hs]; [|exists tx; exact Htx].
    eexists. unfold set_h. eapply nth_set_nth_same. exact Htx.
  - exists tx. exact Htx.
  - exists tx. exact Htx.
Qed.
Lemma keeps_open_not_commit : forall o, keeps_open o = true -> o <> OCommit.
Proof. intros o H E. subst o. discriminate. Qed.

(* a whole transaction body followed by ROLLBACK is invisible to every other handle, at every point *)
Lemma si_rollback_invisible_l : forall body s h h',
  h <> h' -> in_txn h' s -> forallb keeps_open body = true ->
  si_view h (si_run (map (pair h') (body ++ [ORollback])) s) = si_view h s.
Proof.
  induction body as [|o body IH]; intros s h h' Hne Hin Hk.
  - cbn [app map si_run]. apply si_no_dirty_read_l; [exact Hne| exact Hin| discriminate].
  - cbn [forallb] in Hk. apply andb_true_iff in Hk. destruct Hk as [H1 H2].
    cbn [app map si_run]. rewrite IH; [|exact Hne| apply si_keeps_open; assumption | exact H2].
    apply si_no_dirty_read_l; [exact Hne| exact Hin| apply keeps_open_not_commit; exact H1].
Qed.

(* ------------------------------------------------------------------ first committer wins *)
Lemma lastw_of_stamp_hit : forall k ks ts l, kmem_v k ks = true -> lastw_of k (stamp ks ts l) = ts.
Proof.
  intros k ks ts l H. unfold lastw_of, stamp. induction ks as [|x ks IH]; [discriminate|].
  cbn [kmem_v existsb] in H. cbn [map app find fst]. destruct (value_eqb x k) eqn:E; [reflexivity|].
  cbn [orb] in H. apply IH. exact H.
Qed.

Lemma si_no_lost_update_l : forall s a b ta tb k s',
  si_wf s -> a <> b ->
  nth_error (hs s) a = Some (Some ta) -> nth_error (hs s) b = Some (Some tb) ->
  kmem_v k (wkeys ta) = true -> kmem_v k (wkeys tb) = true ->
  si_exec a OCommit s = (ROk, s') ->
  fst (si_exec b OCommit s') = RErr.
Proof.
  intros s a b ta tb k s' Hw1 Hab Ha Hb Hka Hkb Hex.
  unfold si_exec in Hex. rewrite Ha in Hex. destruct (conflict ta s); [discriminate|].
  injection Hex as <-. unfold si_exec. cbn [hs]. unfold set_h. rewrite nth_set_nth_other by exact Hab. rewrite Hb.
  assert (Hc : conflict tb (mkSI (merge (wkeys ta) (view ta) (committed s)) (stamp (wkeys ta) (clock s + 1) (lastw s))
                                 (clock s + 1) (set_nth a None (hs s))) = true).
  { unfold conflict. cbn [lastw]. apply existsb_exists.
    unfold kmem_v in Hkb. apply existsb_exists in Hkb. destruct Hkb as (x & Hx & Hxk).
    apply value_eqb_eq in Hxk. subst x. exists k. split; [exact Hx|].
    rewrite (lastw_of_stamp_hit k (wkeys ta) (clock s + 1) (lastw s) Hka).
    apply Z.ltb_lt. specialize (Hw1 b tb Hb). lia. }
  rewrite Hc. reflexivity.
Qed.

(* every state a schedule reaches is well formed (no transaction started in the future) *)
Lemma nth_set_nth_inv : forall {A} (l : list A) i j x y,
  nth_error (set_nth i x l) j = Some y -> (i = j /\ y = x) \/ nth_error l j = Some y.
Proof.
  intros A l. induction l as [|z l IH]; intros i j x y H.
  - destruct i; cbn [set_nth] in H; destruct j; discriminate.
  - destruct i, j; cbn [set_nth nth_error] in *.
    + injection H as <-. left. split; reflexivity.
    + right. exact H.
    + right. exact H.
    + destruct (IH i j x y H) as [[-> ->]|H']; [left; split; reflexivity | right; exact H'].
Qed.

Lemma si_wf_init : forall nh, si_wf (si_init nh).
Proof.
  intros nh h tx H. unfold si_init in H. cbn [hs] in H. apply nth_error_In in H. apply repeat_spec in H. discriminate.
Qed.

Lemma si_wf_exec : forall s h o, si_wf s -> si_wf (snd (si_exec h o s)).
Proof.
  intros s h o Hw. unfold si_exec.
  destruct (nth_error (hs s) h) as [[tx|]|] eqn:E; [| |exact Hw].
  - destruct o; cbn [snd]; try exact Hw.
    + destruct (dml_apply (OIns rows) (view tx)) as [[[r t'] ks]|]; cbn [snd]; [|exact Hw].
      intros h0 tx0 H0. cbn [hs clock] in *. unfold set_h in H0. destruct (nth_set_nth_inv _ _ _ _ _ H0) as [[_ Hx]|Hx].
      * injection Hx as ->. cbn [start]. apply (Hw h tx E).
      * apply (Hw h0 tx0 Hx).
    + destruct (dml_apply (OUpd sc v w) (view tx)) as [[[r t'] ks]|]; cbn [snd]; [|exact Hw].
      intros h0 tx0 H0. cbn [hs clock] in *. unfold set_h in H0. destruct (nth_set_nth_inv _ _ _ _ _ H0) as [[_ Hx]|Hx].
      * injection Hx as ->. cbn [start]. apply (Hw h tx E).
      * apply (Hw h0 tx0 Hx).
    + destruct (dml_apply (ODel w) (view tx)) as [[[r t'] ks]|]; cbn [snd]; [|exact Hw].
      intros h0 tx0 H0. cbn [hs clock] in *. unfold set_h in H0. destruct (nth_set_nth_inv _ _ _ _ _ H0) as [[_ Hx]|Hx].
      * injection Hx as ->. cbn [start]. apply (Hw h tx E).
      * apply (Hw h0 tx0 Hx).
    + destruct (conflict tx s); cbn [snd]; intros h0 tx0 H0; cbn [hs clock] in *; unfold set_h in H0;
        destruct (nth_set_nth_inv _ _ _ _ _ H0) as [[_ Hx]|Hx]; try discriminate; specialize (Hw h0 tx0 Hx); lia.
    + intros h0 tx0 H0; cbn [hs clock] in *; unfold set_h in H0;
        destruct (nth_set_nth_inv _ _ _ _ _ H0) as [[_ Hx]|Hx]; try discriminate; apply (Hw h0 tx0 Hx).
    + intros h0 tx0 H0; cbn [hs clock] in *; unfold set_h in H0;
        destruct (nth_set_nth_inv _ _ _ _ _ H0) as [[_ Hx]|Hx]; try discriminate; apply (Hw h0 tx0 Hx).
  - destruct o; cbn [snd]; try exact Hw.
    + destruct (dml_apply (OIns rows) (committed s)) as [[[r t'] ks]|]; cbn [snd]; [|exact Hw].
      intros h0 tx0 H0. cbn [hs clock] in *. specialize (Hw h0 tx0 H0). lia.
    + destruct (dml_apply (OUpd sc v w) (committed s)) as [[[r t'] ks]|]; cbn [snd]; [|exact Hw].
      intros h0 tx0 H0. cbn [hs clock] in *. specialize (Hw h0 tx0 H0). lia.
    + destruct (dml_apply (ODel w) (committed s)) as [[[r t'] ks]|]; cbn [snd]; [|exact Hw].
      intros h0 tx0 H0. cbn [hs clock] in *. specialize (Hw h0 tx0 H0). lia.
    + intros h0 tx0 H0. cbn [hs clock] in *. unfold set_h in H0. destruct (nth_set_nth_inv _ _ _ _ _ H0) as [[_ Hx]|Hx].
      * injection Hx as ->. cbn [start]. lia.
      * apply (Hw h0 tx0 Hx).
Qed.

Lemma si_wf_run : forall sched s, si_wf s -> si_wf (si_run sched s).
Proof.
  induction sched as [|[h o] sched IH]; intros s Hw; [exact Hw|]. cbn [si_run]. apply IH. apply si_wf_exec. exact Hw.
Qed.

Lemma si_wf_reachable_l : forall nh sched, si_wf (si_run sched (si_init nh)).
Proof. intros nh sched. apply si_wf_run. apply si_wf_init. Qed.

(* ------------------------------------------------------------------ src/mvcc/version.rs *)
Lemma visible_rule_sound_l : forall hd ts,
  is_visible_to hd ts = Visible <-> (h_locked hd = false /\ h_txn hd <= ts /\ h_deleted hd = false).
Proof.
  intros hd ts. unfold is_visible_to. destruct (h_locked hd), (h_deleted hd); destruct (ts <? h_txn hd) eqn:E;
    try apply Z.ltb_lt in E; try apply Z.ltb_ge in E; split; intro H; try discriminate; try reflexivity;
    try (destruct H as (H1 & H2 & H3); try discriminate; lia); repeat split; try reflexivity; lia.
Qed.
Lemma can_write_sound_l : forall hd w rts,
  can_write hd w rts = CanWrite <-> ((h_locked hd = true /\ h_txn hd = w) \/ (h_locked hd = false /\ h_txn hd <= rts)).
Proof.
  intros hd w rts. unfold can_write. destruct (h_locked hd).
  - destruct (h_txn hd =? w) eqn:E; [apply Z.eqb_eq in E|apply Z.eqb_neq in E]; split; intro H; try discriminate; try reflexivity.
    + left. split; [reflexivity|exact E].
    + destruct H as [[_ H]|[H _]]; [contradiction|discriminate].
  - destruct (rts <? h_txn hd) eqn:E; [apply Z.ltb_lt in E|apply Z.ltb_ge in E]; split; intro H; try discriminate; try reflexivity.
    + destruct H as [[H _]|[_ H]]; [discriminate|lia].
    + right. split; [reflexivity|exact E].
Qed.

(* for all schedules: nothing other handles do -- uncommitted, committed or autocommit -- changes
   what an open transaction reads *)
Lemma si_txn_reads_stable_l : forall sched s h,
  in_txn h s -> forallb (fun p => negb (Nat.eqb (fst p) h)) sched = true ->
  si_view h (si_run sched s) = si_view h s.
Proof.
  induction sched as [|[h' o] sched IH]; intros s h Hin Hall; [reflexivity|].
  cbn [forallb fst] in Hall. apply andb_true_iff in Hall. destruct Hall as [H1 H2].
  apply negb_true_iff in H1. apply Nat.eqb_neq in H1.
  cbn [si_run]. destruct (si_snapshot_stable_l s h h' o (not_eq_sym H1) Hin) as [Hv Hin'].
  rewrite IH; assumption.
Qed.
