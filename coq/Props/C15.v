(* C15 - ORDER BY, LIMIT, OFFSET and DISTINCT are exact.  Property theorems only. *)
From Coq Require Import ZArith List Bool.
From TV Require Import Model.KnnOrder.
From TV Require Import Model.SqlSpec Model.SortSpec Model.SortQuery Model.SortImpl.
From TV Require Import Proof.SortLimit.
Import ListNotations.

(* the LIMIT / OFFSET state machine returns exactly the window, for every offset, limit, stream *)
Theorem limit_machine_is_window :
  forall (A : Type) (lim : option nat) (off : nat) (xs : list A), limit_exec lim off xs = window off lim xs.
Proof. exact (@limit_machine_is_window_l). Qed.

Check limit_machine_is_window :
  forall (A : Type) (lim : option nat) (off : nat) (xs : list A), limit_exec lim off xs = window off lim xs.
Print Assumptions limit_machine_is_window.
