(* C13 proofs, part 2: what value_to_sql_literal prints is read back, by the lexer and the parser's
   unescape, as exactly the bound value -- for every text, every i64 except i64::MIN, every blob,
   NULL and the booleans -- and the literal is consumed as one token whatever follows it.
   (Model/ParamSubst.v: render, escape/unescape, qsplit, scan, read_literal.) *)
From Coq Require Import ZArith List Bool Lia ZifyBool Arith.
From TV Require Import Model.ParamSubst Proof.ParamSubstLex.
Import ListNotations.
Open Scope Z_scope.
Ltac Zify.zify_post_hook ::= Z.to_euclidean_division_equations.

(* ---------------------------------------------------------------- text *)
Lemma unescape_escape_l : forall s, unescape (escape s) = s.
Proof.
  induction s as [|c t IH]; [reflexivity|].
  cbn [escape]. destruct (c =? 39) eqn:E.
  - apply Z.eqb_eq in E. subst c. cbn [unescape]. change ((39 =? 39) && (39 =? 39)) with true.
    cbv iota. rewrite IH. reflexivity.
  - cbn [unescape]. destruct (escape t) as [|c2 t2] eqn:Et.
    + cbn [unescape] in IH. subst t. reflexivity.
    + rewrite E. cbn [andb]. rewrite IH. reflexivity.
Qed.

(* the string scanner, started after the opening quote, stops exactly at the closing quote that
   value_to_sql_literal wrote -- unless the byte after it is again a quote *)
Lemma qsplit_escape_l :
  forall s rest, starts_with 39 rest = false ->
    qsplit 39 (escape s ++ 39 :: rest) = Some (escape s, rest).
Proof.
  intros s rest Hr. induction s as [|c t IH].
  - cbn [escape app qsplit]. change (39 =? 39) with true. cbv iota.
    destruct rest as [|c2 t2]; [reflexivity|].
    cbn [starts_with] in Hr. rewrite Hr. reflexivity.
  - cbn [escape]. destruct (c =? 39) eqn:E.
    + apply Z.eqb_eq in E. subst c. cbn [app qsplit]. change (39 =? 39) with true. cbv iota.
      rewrite IH. reflexivity.
    + cbn [app qsplit]. rewrite E, IH. reflexivity.
Qed.

Lemma quote_unquote_l :
  forall s rest, starts_with 39 rest = false ->
    qsplit 39 (escape s ++ 39 :: rest) = Some (escape s, rest) /\ unescape (escape s) = s.
Proof. intros s rest H. split; [exact (qsplit_escape_l s rest H)|exact (unescape_escape_l s)]. Qed.

Lemma render_text_app s rest : render (VText s) ++ rest = 39 :: (escape s ++ 39 :: rest).
Proof. cbn [render app]. rewrite <- app_assoc. reflexivity. Qed.

(* injection freedom: whatever the bound text contains, the lexer standing at the literal reads
   exactly the literal as ONE string token and continues with the text that followed the placeholder *)
Lemma text_one_token_l :
  forall s rest f, starts_with 39 rest = false ->
    lex_loop (S f) (render (VText s) ++ rest) =
    option_map (cons (KStr, render (VText s))) (lex_loop f rest).
Proof.
  intros s rest f Hr. rewrite render_text_app.
  rewrite (quoted_one_item_l 39 KStr _ (escape s) rest f); [reflexivity| |apply qsplit_escape_l; exact Hr].
  left. split; reflexivity.
Qed.

Lemma lex_one_item f k txt :
  lex_loop (S f) txt = option_map (cons (k, txt)) (lex_loop f []) -> (length txt <= S f)%nat ->
  lex txt = Some [(k, txt)].
Proof.
  intros E Hl. rewrite lex_loop_nil in E. cbn [option_map] in E.
  unfold lex. destruct (lex_total_l txt) as [items [E2 _]]. unfold lex in E2.
  rewrite (lex_loop_mono _ _ _ E2 (S f)) in E by exact Hl. inversion E; subst. exact E2.
Qed.

Lemma text_literal_l : forall s, read_literal (render (VText s)) = LText s.
Proof.
  intros s.
  assert (E : lex (render (VText s)) = Some [(KStr, render (VText s))]).
  { apply (lex_one_item (length (render (VText s)))); [|lia].
    pose proof (text_one_token_l s [] (length (render (VText s))) eq_refl) as H.
    rewrite app_nil_r in H. exact H. }
  unfold read_literal. rewrite E. cbn [render]. change (39 =? 39) with true. cbv iota.
  rewrite removelast_last, unescape_escape_l. reflexivity.
Qed.

(* ---------------------------------------------------------------- byte class facts *)
Lemma digit_not_ws d : is_digit d = true -> is_ws d = false.
Proof. unfold is_digit, is_ws. lia. Qed.
Lemma digit_not_ident_start d : is_digit d = true -> is_ident_start d = false.
Proof. unfold is_digit, is_ident_start, is_alpha, is_upper, is_lower. lia. Qed.

Lemma count_while_app_stop p a rest :
  forallb p a = true -> (match rest with [] => true | c :: _ => negb (p c) end = true) ->
  count_while p (a ++ rest) = length a.
Proof.
  intros Ha Hr. induction a as [|x a IH].
  - cbn [app length]. destruct rest as [|c t]; [reflexivity|]. cbn [count_while].
    apply negb_true_iff in Hr. rewrite Hr. reflexivity.
  - cbn [forallb] in Ha. apply andb_true_iff in Ha. destruct Ha as [Hx Ha].
    cbn [app count_while length]. rewrite Hx, (IH Ha). reflexivity.
Qed.

(* ---------------------------------------------------------------- integers *)
Lemma digits_value_snoc a d : digits_value (a ++ [d]) = digits_value a * 10 + (d - 48).
Proof. unfold digits_value. rewrite fold_left_app. reflexivity. Qed.

Lemma dec_digits_spec :
  forall fuel n acc, (0 < fuel)%nat -> 0 <= n < 10 ^ Z.of_nat fuel ->
    exists D, dec_digits fuel n acc = D ++ acc /\ D <> [] /\ forallb is_digit D = true /\ digits_value D = n.
Proof.
  induction fuel as [|f IH]; intros n acc Hf Hn.
  - lia.
  - cbn [dec_digits]. destruct (n <? 10) eqn:E.
    + exists [48 + n]. split; [reflexivity|]. split; [discriminate|]. split.
      * cbn [forallb]. unfold is_digit. lia.
      * unfold digits_value. cbn [fold_left]. lia.
    + assert (Hq : 0 <= n / 10 < 10 ^ Z.of_nat f).
      { rewrite Nat2Z.inj_succ, Z.pow_succ_r in Hn by lia. lia. }
      assert (Hf' : (0 < f)%nat).
      { destruct f; [|lia]. change (10 ^ Z.of_nat 0) with 1 in Hq. lia. }
      destruct (IH (n / 10) ((48 + n mod 10) :: acc) Hf' Hq) as [D [E1 [E2 [E3 E4]]]].
      exists (D ++ [48 + n mod 10]). split; [rewrite E1, <- app_assoc; reflexivity|].
      split; [destruct D; discriminate|]. split.
      * rewrite forallb_app, E3. cbn [forallb]. unfold is_digit. lia.
      * rewrite digits_value_snoc, E4. lia.
Qed.

Lemma show_nat_spec :
  forall n, 0 <= n < 10 ^ 40 ->
    exists d ds, show_nat n = d :: ds /\ forallb is_digit (d :: ds) = true /\ digits_value (d :: ds) = n.
Proof.
  intros n Hn. unfold show_nat.
  destruct (dec_digits_spec 40 n [] ltac:(lia) Hn) as [D [E1 [E2 [E3 E4]]]].
  rewrite app_nil_r in E1. destruct D as [|d ds]; [contradiction|].
  exists d, ds. repeat split; assumption.
Qed.

Lemma num_follow_cons c t :
  num_follow_ok (c :: t) = true -> is_digit c = false /\ (c =? 46) = false /\ is_ident_char c = false.
Proof.
  cbn [num_follow_ok]. rewrite !andb_true_iff, !negb_true_iff. tauto.
Qed.

Lemma scan_plain_digits ds rest :
  forallb is_digit ds = true -> num_follow_ok rest = true ->
  scan_plain (ds ++ rest) = (KInt, length ds).
Proof.
  intros Hd Hr. unfold scan_plain.
  assert (Hc : count_while is_digit (ds ++ rest) = length ds).
  { apply count_while_app_stop; [exact Hd|]. destruct rest as [|c t]; [reflexivity|].
    destruct (num_follow_cons c t Hr) as [H1 _]. rewrite H1. reflexivity. }
  rewrite Hc, skipn_len_app.
  assert (Hf : scan_fraction rest = (O, false)).
  { destruct rest as [|c t]; [reflexivity|]. destruct (num_follow_cons c t Hr) as [_ [H2 _]].
    cbn [scan_fraction]. rewrite H2. reflexivity. }
  rewrite Hf. cbn [skipn].
  assert (He : scan_exponent rest = (O, false)).
  { destruct rest as [|c t]; [reflexivity|]. destruct (num_follow_cons c t Hr) as [_ [_ H3]].
    cbn [scan_exponent].
    assert (is_exp c = false).
    { unfold is_exp. unfold is_ident_char, is_alnum, is_alpha, is_upper, is_lower, is_digit in H3. lia. }
    rewrite H. reflexivity. }
  rewrite He. cbn [orb]. f_equal. lia.
Qed.

Lemma scan_digits d ds rest :
  forallb is_digit (d :: ds) = true -> num_follow_ok rest = true ->
  scan d (ds ++ rest) = (KInt, length ds).
Proof.
  intros Hd Hr. cbn [forallb] in Hd. apply andb_true_iff in Hd. destruct Hd as [H0 Hd].
  unfold scan. rewrite (digit_not_ws d H0), (digit_not_ident_start d H0), H0.
  unfold scan_number.
  assert (Hp := scan_plain_digits ds rest Hd Hr).
  destruct (d =? 48); [|exact Hp].
  destruct (ds ++ rest) as [|n t] eqn:El; [exact Hp|].
  assert (Hn : ((n =? 120) || (n =? 88) = false) /\ ((n =? 98) || (n =? 66) = false) /\ ((n =? 111) || (n =? 79) = false)).
  { destruct ds as [|x ds'].
    - cbn [app] in El. subst rest. destruct (num_follow_cons n t Hr) as [_ [_ H3]].
      unfold is_ident_char, is_alnum, is_alpha, is_upper, is_lower, is_digit in H3. lia.
    - cbn [app] in El. inversion El; subst. cbn [forallb] in Hd. unfold is_digit in Hd. lia. }
  destruct Hn as [H1 [H2 H3]]. rewrite H1, H2, H3. exact Hp.
Qed.

(* a run of digits followed by something that does not continue a number is ONE Integer token *)
Lemma digits_one_token_l :
  forall d ds rest f, forallb is_digit (d :: ds) = true -> num_follow_ok rest = true ->
    lex_loop (S f) ((d :: ds) ++ rest) = option_map (cons (KInt, d :: ds)) (lex_loop f rest).
Proof.
  intros d ds rest f Hd Hr. cbn [app]. rewrite lex_loop_cons, (scan_digits d ds rest Hd Hr).
  rewrite firstn_len_app, skipn_len_app. destruct (lex_loop f rest); reflexivity.
Qed.

Lemma minus_then_digit d r : is_digit d = true -> scan 45 (d :: r) = (KMinus, O).
Proof.
  intros H. change (scan 45 (d :: r)) with (scan_minus (d :: r)). unfold scan_minus.
  assert (d =? 45 = false) by (unfold is_digit in H; lia).
  assert (d =? 62 = false) by (unfold is_digit in H; lia).
  rewrite H0, H1. reflexivity.
Qed.

(* the literal of an i64, in any context that does not continue a number, is read as itself:
   one Integer token, preceded by one Minus token when negative *)
Lemma int_tokens_l :
  forall z rest f, i64_min <= z <= i64_max -> num_follow_ok rest = true ->
    lex_loop (S (S f)) (render (VInt z) ++ rest) =
    option_map (fun t => if z <? 0 then (KMinus, [45]) :: (KInt, show_nat (- z)) :: t
                         else (KInt, show_nat z) :: t)
               (lex_loop (if z <? 0 then f else S f) rest).
Proof.
  intros z rest f Hz Hr. cbn [render]. unfold show_int. unfold i64_min, i64_max in Hz.
  destruct (z <? 0) eqn:E.
  - destruct (show_nat_spec (- z)) as [d [ds [E1 [E2 E3]]]]; [lia|].
    rewrite E1. cbn [app]. rewrite lex_loop_cons.
    assert (Hd : is_digit d = true) by (pose proof E2 as E2'; cbn [forallb] in E2'; apply andb_true_iff in E2'; exact (proj1 E2')).
    rewrite (minus_then_digit d _ Hd). cbn [firstn skipn].
    change (d :: ds ++ rest) with ((d :: ds) ++ rest).
    rewrite (digits_one_token_l d ds rest f E2 Hr).
    destruct (lex_loop f rest); reflexivity.
  - destruct (show_nat_spec z) as [d [ds [E1 [E2 E3]]]]; [lia|].
    rewrite E1. rewrite (digits_one_token_l d ds rest (S f) E2 Hr).
    destruct (lex_loop (S f) rest); reflexivity.
Qed.

Lemma int_literal_l :
  forall z, i64_min < z <= i64_max -> read_literal (render (VInt z)) = LInt z.
Proof.
  intros z Hz. unfold i64_min, i64_max in Hz.
  pose proof (int_tokens_l z [] (length (render (VInt z))) ltac:(unfold i64_min, i64_max; lia) eq_refl) as E.
  rewrite app_nil_r in E. rewrite !lex_loop_nil in E. cbn [option_map] in E.
  assert (El : lex (render (VInt z)) =
               Some (if z <? 0 then [(KMinus, [45]); (KInt, show_nat (- z))] else [(KInt, show_nat z)])).
  { destruct (lex_total_l (render (VInt z))) as [items [E2 _]]. rewrite E2. unfold lex in E2.
    rewrite (lex_loop_mono _ _ _ E2 (S (S (length (render (VInt z)))))) in E by lia. exact E. }
  unfold read_literal. rewrite El. unfold parse_i64_digits, i64_max.
  destruct (z <? 0) eqn:Ez.
  - destruct (show_nat_spec (- z)) as [d [ds [E1 [E2 E3]]]]; [lia|].
    rewrite E1, E3. destruct (- z <=? 9223372036854775807) eqn:Eb; [|lia]. f_equal. lia.
  - destruct (show_nat_spec z) as [d [ds [E1 [E2 E3]]]]; [lia|].
    rewrite E1, E3. destruct (z <=? 9223372036854775807) eqn:Eb; [|lia]. reflexivity.
Qed.

(* the expected refutation: the literal of i64::MIN is minus applied to 9223372036854775808, which
   does not fit an i64 *)
Lemma int_min_refuted_l : read_literal (render (VInt i64_min)) = LIntOverflow.
Proof. vm_compute. reflexivity. Qed.

(* ---------------------------------------------------------------- blobs *)
Lemma hex_digit_ok n : 0 <= n < 16 -> is_hexdigit (hex_digit n) = true /\ unhex_digit (hex_digit n) = n.
Proof.
  intros H. unfold hex_digit. destruct (n <? 10) eqn:E.
  - assert (D : is_digit (48 + n) = true) by (unfold is_digit; lia).
    unfold is_hexdigit, unhex_digit. rewrite D. cbn [orb]. split; [reflexivity|lia].
  - assert (D : is_digit (87 + n) = false) by (unfold is_digit; lia).
    assert (L : (87 + n <? 97) = false) by lia.
    unfold is_hexdigit, unhex_digit. rewrite D, L. cbn [orb]. split; lia.
Qed.

Lemma hex_of_ok b :
  forallb byte_ok b = true -> forallb is_hexdigit (hex_of b) = true /\ unhex (hex_of b) = b.
Proof.
  induction b as [|x t IH]; intros H; [split; reflexivity|].
  cbn [forallb] in H. apply andb_true_iff in H. destruct H as [Hx Ht].
  destruct (IH Ht) as [I1 I2]. unfold byte_ok in Hx.
  destruct (hex_digit_ok (x / 16)) as [A1 A2]; [lia|].
  destruct (hex_digit_ok (x mod 16)) as [B1 B2]; [lia|].
  cbn [hex_of forallb unhex]. rewrite A1, B1, I1, A2, B2, I2. split; [reflexivity|]. f_equal. lia.
Qed.

(* X'..' is one token whatever follows: the scanner returns at the closing quote *)
Lemma blob_one_token_l :
  forall b rest f, forallb byte_ok b = true ->
    lex_loop (S f) (render (VBlob b) ++ rest) =
    option_map (cons (KHex, render (VBlob b))) (lex_loop f rest).
Proof.
  intros b rest f Hb. destruct (hex_of_ok b Hb) as [H1 _].
  cbn [render app]. rewrite lex_loop_cons.
  change (scan 88 (39 :: (hex_of b ++ [39]) ++ rest)) with (scan_ident 88 (39 :: (hex_of b ++ [39]) ++ rest)).
  unfold scan_ident. change ((88 =? 120) || (88 =? 88)) with true. cbn [starts_with andb tl].
  change (39 =? 39) with true. cbv iota.
  rewrite <- app_assoc. cbn [app].
  assert (Hc : count_while is_hexdigit (hex_of b ++ 39 :: rest) = length (hex_of b)).
  { apply count_while_app_stop; [exact H1|reflexivity]. }
  rewrite Hc, skipn_len_app. change (39 =? 39) with true. cbv iota.
  rewrite firstn_cons, skipn_cons, firstn_S_app, skipn_S_app.
  destruct (lex_loop f rest); reflexivity.
Qed.

Lemma blob_literal_l :
  forall b, forallb byte_ok b = true -> read_literal (render (VBlob b)) = LBlob b.
Proof.
  intros b Hb.
  assert (E : lex (render (VBlob b)) = Some [(KHex, render (VBlob b))]).
  { apply (lex_one_item (length (render (VBlob b)))); [|lia].
    pose proof (blob_one_token_l b [] (length (render (VBlob b))) Hb) as H.
    rewrite app_nil_r in H. exact H. }
  unfold read_literal. rewrite E. cbn [render].
  change ((88 =? 88) || (88 =? 120)) with true. change (39 =? 39) with true. cbn [andb].
  rewrite removelast_last. destruct (hex_of_ok b Hb) as [_ H2]. rewrite H2. reflexivity.
Qed.

(* ---------------------------------------------------------------- every modelled value *)
Lemma literal_roundtrip_l :
  forall v, val_ok v = true -> is_float v = false -> val_class v = 0 ->
    read_literal (render v) = lit_of v.
Proof.
  intros v Hok Hf Hc. destruct v as [|b|z|s|b|bits shown]; try discriminate.
  - reflexivity.
  - destruct b; reflexivity.
  - cbn [lit_of]. apply int_literal_l. cbn [val_ok] in Hok.
    unfold val_class, is_int_min in Hc.
    destruct (z =? i64_min) eqn:E; [discriminate|]. lia.
  - apply text_literal_l.
  - apply blob_literal_l. exact Hok.
Qed.

Lemma literal_roundtrip_refuted_l :
  exists v, val_ok v = true /\ is_float v = false /\ val_class v = 6 /\ read_literal (render v) <> lit_of v.
Proof. exists (VInt i64_min). repeat split. vm_compute. discriminate. Qed.

(* a negative number after a minus sign is kept apart from it (before e081981 `a-?` with -5 became
   `a--5`, a comment) *)
Lemma minus_kept_apart_l :
  subst [97; 45; 63] [VInt (-5)] = SOk [97; 45; 32; 45; 53] /\
  subst_stable [97; 45; 63] [VInt (-5)] = true /\
  lex [97; 45; 32; 45; 53] = Some [(KId, [97]); (KMinus, [45]); (KWs, [32]); (KMinus, [45]); (KInt, [53])].
Proof. vm_compute. repeat split; reflexivity. Qed.
