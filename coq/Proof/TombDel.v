(* C05 -- row selection (primary-key fast path = scan) and DELETE of the repaired mechanism
   against the reference. *)
From Coq Require Import ZArith List Bool Lia.
From TV Require Import Model.SqlSpec Model.DmlSpec Model.Tombstone Proof.SqlSpecLaws Proof.TombBase.
Import ListNotations.
Open Scope Z_scope.

Lemma pk_literal_inv : forall w v, pk_literal w = Some v ->
  w = Some (ECmp CEq (ECol O) (ELit v)) \/ w = Some (ECmp CEq (ELit v) (ECol O)).
Proof.
  intros w v H. destruct w as [e|]; [|discriminate]. destruct e; try discriminate.
  destruct op; try discriminate.
  destruct e1; try discriminate.
  - destruct i; try discriminate. destruct e2; try discriminate. cbn in H. inversion H; subst. left. reflexivity.
  - destruct e2; try discriminate. destruct i; try discriminate. cbn in H. inversion H; subst. right. reflexivity.
Qed.

(* WHERE id = z on a row whose key is an integer or NULL *)
Lemma wpass_pk_eq : forall w z r, pk_literal w = Some (VInt z) -> key_int (key_of r) = true ->
  wpass w r = value_eqb (key_of r) (VInt z).
Proof.
  intros w z r Hw Hk. apply pk_literal_inv in Hw. unfold wpass, wsel, sem3.
  destruct r as [|k r]; cbn [key_of] in *.
  - destruct Hw as [-> | ->]; cbn; reflexivity.
  - destruct k as [|x| | |]; try discriminate.
    + destruct Hw as [-> | ->]; cbn; reflexivity.
    + destruct Hw as [-> | ->]; cbn [eval nth_error cmp3 cmp_values ret_tv option_map bind_tv value_eqb].
      * destruct (Z.compare_spec x z) as [E|E|E]; cbn.
        -- subst. rewrite Z.eqb_refl. reflexivity.
        -- symmetry. apply Z.eqb_neq. lia.
        -- symmetry. apply Z.eqb_neq. lia.
      * destruct (Z.compare_spec z x) as [E|E|E]; cbn.
        -- subst. rewrite Z.eqb_refl. reflexivity.
        -- symmetry. apply Z.eqb_neq. lia.
        -- symmetry. apply Z.eqb_neq. lia.
Qed.

(* under the invariant the primary-key fast path selects what the scan selects *)
Lemma select_true_scan : forall sch st w, InvS sch st ->
  select true sch w st = scan true w (ents st).
Proof.
  intros sch st w HI. unfold select. destruct (pk_target true sch w st) as [e|] eqn:T; [|reflexivity].
  unfold pk_target in T. destruct (s_key sch) eqn:SK; try discriminate.
  assert (K : keyed sch = true) by (unfold keyed; rewrite SK; reflexivity).
  destruct (pk_literal w) as [v|] eqn:PL; [|discriminate].
  destruct (idx_find v (kidx st)) as [id|] eqn:IF; [|discriminate].
  destruct (find_ent id (ents st)) as [e0|] eqn:FE; [|discriminate].
  destruct (value_eqb (e_key e0) v && cand true e0) eqn:C; [|discriminate].
  inversion T; subst e0; clear T. apply andb_true_iff in C. destruct C as [Ckey Clive]. cbn [cand] in Clive.
  apply value_eqb_eq in Ckey.
  destruct (inv_ids _ _ HI) as [Hnd _].
  apply find_ent_some in FE. destruct FE as [Hin Hid].
  apply idx_find_some in IF. rewrite (inv_idx _ _ HI), K in IF. apply in_idx_of in IF.
  destruct IF as [e1 [Hin1 [L1 [N1 [K1 I1]]]]].
  assert (e1 = e) by (eapply ids_inj; [exact Hnd|exact Hin1|exact Hin|congruence]). subst e1.
  pose proof (inv_kty _ _ HI K e Hin) as KI. rewrite K1 in KI, N1.
  destruct v as [|z| | |]; try discriminate. clear N1 KI.
  symmetry. unfold scan. apply filter_unique.
  - apply ids_nodup. exact Hnd.
  - exact Hin.
  - cbn [cand]. rewrite Clive. cbn [andb]. rewrite (wpass_pk_eq w z) by (try exact PL; apply (inv_kty _ _ HI K e Hin)).
    fold (e_key e). rewrite K1. apply value_eqb_refl.
  - intros x Hx Hf. cbn [cand] in Hf. apply andb_true_iff in Hf. destruct Hf as [Lx Wx].
    rewrite (wpass_pk_eq w z) in Wx by (try exact PL; apply (inv_kty _ _ HI K x Hx)).
    apply value_eqb_eq in Wx. fold (e_key x) in Wx.
    eapply ids_inj; [exact Hnd|exact Hx|exact Hin|].
    eapply (inv_uniq _ _ HI K); try eassumption.
    + rewrite Wx. reflexivity.
    + congruence.
Qed.

(* ------------------------------------------------------------------ DELETE *)
Definition dead (e : entry) : entry := mkEnt (e_id e) true (e_row e).

Lemma mark_del_filter : forall es P, NoDup (map e_id es) ->
  mark_del (filter P es) es = map (fun e => if P e then dead e else e) es.
Proof.
  intros es P Hnd. unfold mark_del. apply map_ext_in. intros e Hin.
  rewrite in_sel_filter by assumption. reflexivity.
Qed.
Lemma map_id_mark : forall (P : entry -> bool) es, map e_id (map (fun e => if P e then dead e else e) es) = map e_id es.
Proof.
  intros P es. rewrite map_map. apply map_ext. intro e. destruct (P e); reflexivity.
Qed.
Lemma filter_live_mark : forall (P : entry -> bool) es,
  (forall e, P e = true -> live e = true) ->
  filter live (map (fun e => if P e then dead e else e) es) = filter (fun e => live e && negb (P e)) es.
Proof.
  intros P es HP. induction es as [|e es IH]; cbn [map filter]; [reflexivity|].
  destruct (P e) eqn:E; cbn [negb].
  - unfold live at 1. cbn [dead e_del negb]. rewrite andb_false_r. exact IH.
  - rewrite andb_true_r. destruct (live e); rewrite IH; reflexivity.
Qed.

Lemma idx_drop_sel : forall es P, NoDup (map e_id es) -> uniq_keys es ->
  (forall e, P e = true -> live e = true) ->
  filter (fun p => negb (key_in_sel (filter P es) (fst p))) (idx_of es)
  = idx_of (map (fun e => if P e then dead e else e) es).
Proof.
  intros es P Hnd Hu HP.
  assert (R : idx_of (map (fun e => if P e then dead e else e) es)
              = map (fun e => (e_key e, e_id e)) (filter (fun e => idx_live e && negb (P e)) es)).
  { unfold idx_of. clear Hnd Hu. induction es as [|e es IH]; cbn [map filter]; [reflexivity|].
    destruct (P e) eqn:E; cbn [negb].
    - unfold idx_live at 1, live. cbn [dead e_del negb andb]. rewrite andb_false_r. exact IH.
    - rewrite andb_true_r. destruct (idx_live e); cbn [map]; rewrite IH; reflexivity. }
  rewrite R. unfold idx_of. rewrite filter_map_comm. cbn [fst]. rewrite filter_filter_and. f_equal.
  apply filter_ext_in. intros e Hin. destruct (idx_live e) eqn:IL; cbn [andb]; [|reflexivity]. f_equal.
  unfold idx_live in IL. apply andb_true_iff in IL. destruct IL as [Le Ne]. apply negb_true_iff in Ne.
  unfold key_in_sel. destruct (P e) eqn:E.
  - apply existsb_exists. exists e. split; [apply filter_In; split; assumption|].
    rewrite Ne. cbn [negb andb]. apply value_eqb_refl.
  - destruct (existsb (fun s => negb (is_null (e_key s)) && value_eqb (e_key s) (e_key e)) (filter P es)) eqn:X; [|reflexivity].
    apply existsb_exists in X. destruct X as [s [Hs C]]. apply filter_In in Hs. destruct Hs as [Hs Ps].
    apply andb_true_iff in C. destruct C as [Ns Es]. apply negb_true_iff in Ns. apply value_eqb_eq in Es.
    assert (e_id s = e_id e) by (apply Hu; try assumption; apply HP; exact Ps).
    assert (s = e) by (eapply ids_inj; eassumption). subst. congruence.
Qed.

Lemma delete_refines : forall sch st w ret r t', Inv sch st ->
  fst (step true sch st (SDelete w ret)) <> RUnmod ->
  spec_step sch (visible st) (SDelete w ret) = Some (r, t') ->
  exists st', step true sch st (SDelete w ret) = (r, st') /\ visible st' = t' /\ Inv sch st'.
Proof.
  intros sch st w ret r t' [HI Hc] Hm H. cbn [spec_step step] in *. unfold do_delete in *.
  destruct (where_modelled w st); [|exfalso; apply Hm; reflexivity]. clear Hm.
  destruct (wdefined w (visible st)); [|discriminate]. inversion H; subst; clear H.
  rewrite (select_true_scan _ _ _ HI). unfold scan.
  set (P := fun e => cand true e && wpass w (e_row e)).
  destruct (inv_ids _ _ HI) as [Hnd Hlt].
  assert (HP : forall e, P e = true -> live e = true).
  { intros e He. unfold P in He. cbn [cand] in He. apply andb_true_iff in He. tauto. }
  assert (Hsel : map e_row (filter P (ents st)) = filter (wpass w) (visible st)).
  { unfold visible. rewrite filter_map_comm, filter_filter_and. reflexivity. }
  eexists. split; [|split].
  - rewrite Hsel. unfold zlen. rewrite <- Hsel, map_length. reflexivity.
  - unfold visible at 1. cbn [ents]. rewrite mark_del_filter by exact Hnd.
    rewrite (filter_live_mark P _ HP). unfold visible. rewrite filter_map_comm, filter_filter_and. f_equal.
    apply filter_ext. intro e. unfold P. cbn [cand]. destruct (live e); cbn [andb]; reflexivity.
  - split.
    + constructor; cbn [ents nextid kidx].
      * rewrite mark_del_filter by exact Hnd. split.
        -- rewrite map_id_mark. exact Hnd.
        -- intros e Hin. apply in_map_iff in Hin. destruct Hin as [e0 [E Hin]].
           apply Hlt in Hin. destruct (P e0); subst; cbn [dead e_id]; exact Hin.
      * unfold idx_drop. rewrite (inv_idx _ _ HI). destruct (keyed sch) eqn:K; [|reflexivity].
        rewrite mark_del_filter by exact Hnd. apply idx_drop_sel; [exact Hnd|apply (inv_uniq _ _ HI K)|exact HP].
      * intros K a b Ha Hb La Lb Na E. rewrite mark_del_filter in Ha, Hb by exact Hnd.
        apply in_map_iff in Ha. destruct Ha as [a0 [Ea Ha]]. apply in_map_iff in Hb. destruct Hb as [b0 [Eb Hb]].
        destruct (P a0) eqn:Pa; subst a; [unfold live in La; cbn in La; discriminate|].
        destruct (P b0) eqn:Pb; subst b; [unfold live in Lb; cbn in Lb; discriminate|].
        eapply (inv_uniq _ _ HI K); eassumption.
      * intros K e Hin. rewrite mark_del_filter in Hin by exact Hnd.
        apply in_map_iff in Hin. destruct Hin as [e0 [E Hin]].
        pose proof (inv_kty _ _ HI K e0 Hin) as KI. destruct (P e0); subst; exact KI.
    + cbn [rcount]. unfold visible. cbn [ents]. rewrite mark_del_filter by exact Hnd.
      rewrite (filter_live_mark P _ HP). rewrite zlen_map.
      rewrite Hc. unfold visible. rewrite zlen_map. fold (zlen (filter P (ents st))).
      rewrite (zlen_filter_split _ live P (ents st)).
      assert (E1 : filter (fun x => live x && P x) (ents st) = filter P (ents st)).
      { apply filter_ext. intro e. destruct (P e) eqn:Pe; [rewrite (HP e Pe)|rewrite andb_false_r]; reflexivity. }
      rewrite E1. pose proof (zlen_nonneg _ (filter (fun x => live x && negb (P x)) (ents st))). lia.
Qed.
