(* C30 proofs, part 1: the byte-string order, the 4-byte prefix hint and the AVX2 lane comparison.
     - lex_cmp is a strict total order on byte strings;
     - prefix_of is monotone: a < b  ->  prefix a <= prefix b, hence prefix a < prefix b -> a < b;
     - the sign-flip trick of the AVX2 code is the unsigned comparison. *)
From Coq Require Import ZArith List Bool Lia ZifyBool.
From TV Require Import Lib.MachInt Lib.MachIntFacts Model.LeafSearch.
Import ListNotations.
Open Scope Z_scope.
Ltac Zify.zify_post_hook ::= Z.to_euclidean_division_equations.
Arguments Z.div : simpl never.
Arguments Z.modulo : simpl never.
Arguments Z.pow : simpl never.
Arguments Z.mul : simpl never.
Arguments Z.add : simpl never.
Arguments Z.sub : simpl never.
Arguments Z.lxor : simpl never.

(* ---------------------------------------------------------------- lex_cmp *)
Lemma lex_cmp_refl a : lex_cmp a a = Eq.
Proof.
  induction a as [|x a IH]; cbn [lex_cmp]; [reflexivity|].
  rewrite Z.compare_refl. exact IH.
Qed.

Lemma lex_cmp_eq a : forall b, lex_cmp a b = Eq -> a = b.
Proof.
  induction a as [|x a IH]; intros [|y b] H; cbn [lex_cmp] in H; try discriminate; [reflexivity|].
  destruct (Z.compare_spec x y) as [Hxy|Hxy|Hxy]; try discriminate.
  subst. f_equal. apply IH. exact H.
Qed.

Lemma lex_cmp_antisym a : forall b, lex_cmp b a = CompOpp (lex_cmp a b).
Proof.
  induction a as [|x a IH]; intros [|y b]; cbn [lex_cmp]; try reflexivity.
  rewrite (Z.compare_antisym x y). destruct (x ?= y); cbn [CompOpp]; auto.
Qed.

Lemma lex_cmp_gt_lt a b : lex_cmp a b = Gt <-> lex_cmp b a = Lt.
Proof.
  rewrite (lex_cmp_antisym a b). destruct (lex_cmp a b); cbn [CompOpp]; split; intro H; try discriminate; reflexivity.
Qed.

Lemma lex_lt_trans a : forall b c, lex_cmp a b = Lt -> lex_cmp b c = Lt -> lex_cmp a c = Lt.
Proof.
  induction a as [|x a IH]; intros [|y b] [|z c] H1 H2; cbn [lex_cmp] in *; try discriminate; try reflexivity.
  destruct (Z.compare_spec x y) as [E1|E1|E1]; try discriminate;
  destruct (Z.compare_spec y z) as [E2|E2|E2]; try discriminate;
  destruct (Z.compare_spec x z) as [E3|E3|E3]; try lia; try reflexivity.
  eapply IH; eassumption.
Qed.

Lemma lex_lt_irrefl a : lex_cmp a a <> Lt.
Proof. rewrite lex_cmp_refl. discriminate. Qed.

(* ---------------------------------------------------------------- padding and the prefix value *)
Fixpoint padr (n : nat) (k : list Z) : list Z :=
  match n with
  | O => []
  | S n' => match k with
            | [] => 0 :: padr n' []
            | x :: k' => x :: padr n' k'
            end
  end.

Lemma pad4_padr k : pad4 k = padr 4 k.
Proof. destruct k as [|a [|b [|c [|d k]]]]; reflexivity. Qed.

Lemma padr_length n : forall k, length (padr n k) = n.
Proof. induction n as [|n IH]; intros [|x k]; cbn [padr length]; auto. Qed.

Lemma padr_bytes_ok n : forall k, bytes_ok k = true -> bytes_ok (padr n k) = true.
Proof.
  induction n as [|n IH]; intros k Hk; [reflexivity|].
  destruct k as [|x k]; cbn [padr].
  - apply bytes_ok_cons. split; [lia|]. apply IH. reflexivity.
  - apply bytes_ok_cons in Hk. destruct Hk as [Hx Hk]. apply bytes_ok_cons. split; [exact Hx|]. apply IH. exact Hk.
Qed.

Lemma padr_nil_le n : forall b, bytes_ok b = true -> lex_cmp (padr n []) (padr n b) <> Gt.
Proof.
  induction n as [|n IH]; intros b Hb; [cbn; discriminate|].
  destruct b as [|y b]; cbn [padr lex_cmp].
  - rewrite Z.compare_refl. apply IH. reflexivity.
  - apply bytes_ok_cons in Hb. destruct Hb as [Hy Hb].
    destruct (Z.compare_spec 0 y) as [E|E|E]; try discriminate; try lia.
    apply IH. exact Hb.
Qed.

Lemma padr_mono n : forall a b, bytes_ok b = true -> lex_cmp a b = Lt -> lex_cmp (padr n a) (padr n b) <> Gt.
Proof.
  induction n as [|n IH]; intros a b Hb Hlt; [cbn; discriminate|].
  destruct a as [|x a].
  - apply (padr_nil_le (S n)). exact Hb.
  - destruct b as [|y b]; [cbn [lex_cmp] in Hlt; discriminate|].
    apply bytes_ok_cons in Hb. destruct Hb as [Hy Hb].
    cbn [padr lex_cmp] in *.
    destruct (x ?= y); try discriminate.
    apply IH; assumption.
Qed.

Lemma from_be_bound x : bytes_ok x = true -> 0 <= from_be x < 256 ^ Z.of_nat (length x).
Proof.
  induction x as [|b x IH]; intro H; cbn [from_be length].
  - change (256 ^ Z.of_nat 0) with 1. lia.
  - apply bytes_ok_cons in H. destruct H as [Hb Hx]. specialize (IH Hx).
    rewrite Nat2Z.inj_succ, Z.pow_succ_r by lia.
    nia.
Qed.

Lemma from_be_cmp x : forall y, length x = length y -> bytes_ok x = true -> bytes_ok y = true ->
  lex_cmp x y = (from_be x ?= from_be y).
Proof.
  induction x as [|a x IH]; intros [|b y] Hl Hx Hy; cbn [length] in Hl; try discriminate.
  - reflexivity.
  - injection Hl as Hl.
    apply bytes_ok_cons in Hx. destruct Hx as [Ha Hx].
    apply bytes_ok_cons in Hy. destruct Hy as [Hb Hy].
    cbn [lex_cmp from_be]. rewrite <- Hl.
    pose proof (from_be_bound x Hx) as Bx. pose proof (from_be_bound y Hy) as By. rewrite <- Hl in By.
    set (P := 256 ^ Z.of_nat (length x)) in *.
    destruct (Z.compare_spec a b) as [E|E|E].
    + subst b. rewrite (IH y Hl Hx Hy).
      destruct (Z.compare_spec (from_be x) (from_be y)) as [E2|E2|E2]; symmetry.
      * apply Z.compare_eq_iff. lia.
      * apply Z.compare_lt_iff. lia.
      * apply Z.compare_gt_iff. lia.
    + symmetry. apply Z.compare_lt_iff. nia.
    + symmetry. apply Z.compare_gt_iff. nia.
Qed.

Lemma prefix_of_range k : bytes_ok k = true -> 0 <= prefix_of k < 2 ^ 32.
Proof.
  intro H. unfold prefix_of. rewrite pad4_padr.
  pose proof (from_be_bound (padr 4 k) (padr_bytes_ok 4 k H)) as B.
  rewrite padr_length in B. change (256 ^ Z.of_nat 4) with (2 ^ 32) in B. exact B.
Qed.

(* prefix_monotone *)
Lemma prefix_mono a b : bytes_ok a = true -> bytes_ok b = true ->
  lex_cmp a b = Lt -> prefix_of a <= prefix_of b.
Proof.
  intros Ha Hb Hlt. unfold prefix_of. rewrite !pad4_padr.
  pose proof (padr_mono 4 a b Hb Hlt) as Hm.
  rewrite (from_be_cmp (padr 4 a) (padr 4 b)) in Hm.
  - destruct (Z.compare_spec (from_be (padr 4 a)) (from_be (padr 4 b))); try lia. congruence.
  - rewrite !padr_length. reflexivity.
  - apply padr_bytes_ok. exact Ha.
  - apply padr_bytes_ok. exact Hb.
Qed.

(* prefix_lt_implies_lt *)
Lemma prefix_lt_lex_lt a b : bytes_ok a = true -> bytes_ok b = true ->
  prefix_of a < prefix_of b -> lex_cmp a b = Lt.
Proof.
  intros Ha Hb Hlt.
  destruct (lex_cmp a b) eqn:E; [| reflexivity |].
  - apply lex_cmp_eq in E. subst. lia.
  - apply lex_cmp_gt_lt in E. pose proof (prefix_mono b a Hb Ha E). lia.
Qed.

Lemma prefix_gt_lex_gt a b : bytes_ok a = true -> bytes_ok b = true ->
  prefix_of b < prefix_of a -> lex_cmp a b = Gt.
Proof.
  intros Ha Hb Hlt. apply lex_cmp_gt_lt. apply prefix_lt_lex_lt; assumption.
Qed.

(* ---------------------------------------------------------------- the AVX2 lane comparison *)
Lemma lxor_sign_low x : 0 <= x < 2 ^ 31 -> Z.lxor x (2 ^ 31) = x + 2 ^ 31.
Proof.
  intro H. symmetry. apply Z.add_nocarry_lxor.
  apply Z.bits_inj'. intros n Hn. rewrite Z.land_spec, Z.bits_0.
  destruct (Z.eq_dec n 31) as [->|Hne].
  - rewrite (Z.bits_above_log2 x 31); [reflexivity| lia |].
    destruct (Z.eq_dec x 0) as [->|Hx0]; [cbn; lia|].
    apply Z.log2_lt_pow2; lia.
  - rewrite Z.pow2_bits_false by lia. apply andb_false_r.
Qed.

Lemma lxor_sign_high x : 2 ^ 31 <= x < 2 ^ 32 -> Z.lxor x (2 ^ 31) = x - 2 ^ 31.
Proof.
  intro H.
  assert (E : x = Z.lxor (x - 2 ^ 31) (2 ^ 31)) by (rewrite lxor_sign_low; lia).
  rewrite E at 1. rewrite Z.lxor_assoc, Z.lxor_nilpotent, Z.lxor_0_r. reflexivity.
Qed.

(* avx2_unsigned_cmp: cmpgt on sign-flipped lanes is the unsigned `<` *)
Lemma lane_lt_unsigned t p : 0 <= t < 2 ^ 32 -> 0 <= p < 2 ^ 32 -> lane_lt t p = (p <? t).
Proof.
  intros Ht Hp. unfold lane_lt, as_i32, xor_sign.
  change 2147483648 with (2 ^ 31). change 4294967296 with (2 ^ 32).
  destruct (Z_lt_dec p (2 ^ 31)) as [Hpl|Hph]; destruct (Z_lt_dec t (2 ^ 31)) as [Htl|Hth];
    rewrite ?(lxor_sign_low p), ?(lxor_sign_high p), ?(lxor_sign_low t), ?(lxor_sign_high t) by lia;
    change (2 ^ 31) with 2147483648 in *; change (2 ^ 32) with 4294967296 in *;
    repeat match goal with |- context [if ?a <? ?b then _ else _] => destruct (Z.ltb_spec a b) end;
    lia.
Qed.

Lemma as_i32_wrap_s x : 0 <= x < 2 ^ 32 -> as_i32 x = wrap_s 32 x.
Proof.
  intro H. unfold as_i32, wrap_s. change 2147483648 with (2 ^ 31). change 4294967296 with (2 ^ 32).
  change (2 ^ (32 - 1)) with (2 ^ 31).
  change (2 ^ 31) with 2147483648 in *; change (2 ^ 32) with 4294967296 in *.
  destruct (Z.ltb_spec x 2147483648); lia.
Qed.
