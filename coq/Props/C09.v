(* C09 - Declared constraints hold exactly.  Property theorems only.
   Spec: Model/ConstrSpec.v (valid_db, exec_write = apply then keep iff valid).
   Implementation models: Model/CheckStr.v (CHECK text + string evaluator), Model/ConstrImpl.v
   (INSERT / UPDATE / DELETE mechanisms), finding classes: Model/ConstrClass.v. *)
From Coq Require Import ZArith List Bool.
From TV Require Import Model.SqlSpec Model.CheckStr Model.ConstrSpec Model.ConstrImpl Model.ConstrClass
                       Proof.CheckStrMain.
Import ListNotations.
Open Scope Z_scope.

(* CHECK: on the fragment OR-of-ANDs of `<column> {<,<=,>,>=} <integer literal below 2^53>` (at
   most 30 comparisons) what INSERT / UPDATE compute from the text stored by CREATE TABLE is
   exactly "the expression is not FALSE" under three-valued logic, for every integer or NULL
   value of the column *)
Theorem check_eval_agrees :
  forall n ci e r,
    (ci < n)%nat -> (n <= 10)%nat -> chk_frag ci e = true ->
    (exists z, nth_error r ci = Some (VInt z)) \/ nth_error r ci = Some VNull ->
    impl_check (cnames n) ci e (col_val ci r) = COk (chk_b e r).
Proof. exact check_eval_agrees_l. Qed.
Check check_eval_agrees :
  forall n ci e r,
    (ci < n)%nat -> (n <= 10)%nat -> chk_frag ci e = true ->
    (exists z, nth_error r ci = Some (VInt z)) \/ nth_error r ci = Some VNull ->
    impl_check (cnames n) ci e (col_val ci r) = COk (chk_b e r).
Print Assumptions check_eval_agrees.
