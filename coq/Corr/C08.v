(* C08 correspondence: uncommitted changes are isolated from other handles.  Definitions only;
   evaluated by vm_compute on the cases written by harness/src/bin/c08.rs.

   A `Sched` case is one schedule of statements issued through nh cloned handles of ONE database
   (driven from one thread, statement granularity).  After every step the harness records the
   statement's result, SELECT star and COUNT star as seen through the handle that made the step.
     spec_ok      = the PROPERTY: results and rows are those of the snapshot-isolation reference
                    Model/SI.v (rows as bags); no demand where the reference is not defined
                    (duplicate / NULL / assigned keys, savepoints);
     model_agrees = Model/MvccImpl.v (shared table, per-handle undo logs, no isolation) reproduces
                    every observation. *)
From Coq Require Import ZArith List Bool.
From TV Require Export Model.SqlSpec Model.UndoLog Model.SI Model.MvccImpl.
Import ListNotations.
Open Scope Z_scope.

Inductive hobs := HO (r : res) (rows : list trow) (cnt : Z).
Inductive case := Sched (sch : schema) (nh : nat) (steps : list (nat * op)) (obs : list hobs).

Definition res_eqb (a b : res) : bool :=
  match a, b with
  | RAff x, RAff y => x =? y
  | ROk, ROk | RErr, RErr | RPanic, RPanic | RBad, RBad => true
  | _, _ => false
  end.
Fixpoint rows_eqb (a b : list trow) : bool :=
  match a, b with
  | [], [] => true
  | x :: a', y :: b' => trow_eqb x y && rows_eqb a' b'
  | _, _ => false
  end.
Fixpoint remove1 (x : trow) (l : list trow) : option (list trow) :=
  match l with
  | [] => None
  | y :: l' => if trow_eqb x y then Some l' else match remove1 x l' with Some r => Some (y :: r) | None => None end
  end.
Fixpoint bag_eqb (a b : list trow) : bool :=
  match a with
  | [] => match b with [] => true | _ => false end
  | x :: a' => match remove1 x b with Some b' => bag_eqb a' b' | None => false end
  end.

(* ------------------------------------------------------------------ implementation model *)
Fixpoint agree (sch : schema) (steps : list (nat * op)) (obs : list hobs) (s : hstate) : bool :=
  match steps, obs with
  | [], [] => true
  | (h, o) :: steps', HO r rows cnt :: obs' =>
      let (r', s') := exec_h sch h o s in
      res_eqb r r' && rows_eqb rows (impl_view s') && (cnt =? count_star (fst s')) && agree sch steps' obs' s'
  | _, _ => false
  end.
Definition model_agrees (c : case) : bool :=
  match c with Sched sch nh steps obs => agree sch steps obs (impl_init nh) end.

(* ------------------------------------------------------------------ the property: snapshot isolation *)
Fixpoint si_agree (steps : list (nat * op)) (obs : list hobs) (s : sstate) : bool :=
  match steps, obs with
  | [], [] => true
  | (h, o) :: steps', HO r rows _ :: obs' =>
      let (r', s') := si_exec h o s in
      res_eqb r r' && bag_eqb rows (si_view h s') && si_agree steps' obs' s'
  | _, _ => false
  end.
(* where the reference speaks: rows are identified by c0, so inserted keys are distinct and not
   NULL, c0 is never assigned, no savepoints, handles exist *)
Definition ins_keys (steps : list (nat * op)) : list value :=
  flat_map (fun p => match snd p with OIns rows => map c0 rows | _ => [] end) steps.
Fixpoint keys_distinct (l : list value) : bool :=
  match l with [] => true | k :: l' => negb (is_null k) && negb (kmem_v k l') && keys_distinct l' end.
Definition op_in_ref (o : op) : bool :=
  match o with OUpd C0 _ _ | OSave _ | ORollTo _ | ORelease _ => false | _ => true end.
(* UPDATE / DELETE scans of the implementation do not skip tombstones (recorded under C05): a key
   that some statement DELETEs must not be the target of any other UPDATE / DELETE of the schedule,
   and every UPDATE / DELETE names its row by key, otherwise that defect -- not isolation -- decides
   the outcome and the reference makes no demand *)
Definition del_keys (steps : list (nat * op)) : list value :=
  flat_map (fun p => match snd p with ODel (Some (C0, k)) => [k] | _ => [] end) steps.
Definition upd_keys (steps : list (nat * op)) : list value :=
  flat_map (fun p => match snd p with OUpd _ _ (Some (C0, k)) => [k] | _ => [] end) steps.
Definition by_key (o : op) : bool :=
  match o with
  | OUpd _ _ (Some (C0, _)) | ODel (Some (C0, _)) => true
  | OUpd _ _ _ | ODel _ => false
  | _ => true
  end.
Definition spec_defined (sch : schema) (nh : nat) (steps : list (nat * op)) : bool :=
  keys_distinct (ins_keys steps) && forallb (fun p => op_in_ref (snd p) && by_key (snd p) && Nat.ltb (fst p) nh) steps
  && keys_distinct (del_keys steps) && negb (existsb (fun k => kmem_v k (upd_keys steps)) (del_keys steps)).
Definition spec_ok (c : case) : bool :=
  match c with
  | Sched sch nh steps obs => if spec_defined sch nh steps then si_agree steps obs (si_init nh) else true
  end.

(* ------------------------------------------------------------------ recorded finding classes (design level) *)
(* per handle: in a transaction? wrote since BEGIN? did someone else commit a write since BEGIN?
   did an overlapping writing transaction commit since BEGIN? *)
Record hflag := mkF { f_in : bool; f_wrote : bool; f_stale : bool; f_sawc : bool }.
Definition f_idle : hflag := mkF false false false false.
Definition is_dml (o : op) : bool := match o with OIns _ | OUpd _ _ _ | ODel _ => true | _ => false end.
Fixpoint others (h : nat) (i : nat) (fs : list hflag) (f : hflag -> hflag) : list hflag :=
  match fs with
  | [] => []
  | x :: fs' => (if Nat.eqb i h then x else f x) :: others h (S i) fs' f
  end.
Definition mark_stale (x : hflag) : hflag := if f_in x then mkF true (f_wrote x) true (f_sawc x) else x.
Definition mark_sawc (x : hflag) : hflag := if f_in x then mkF true (f_wrote x) true true else x.
Fixpoint other_dirty (h : nat) (i : nat) (fs : list hflag) : bool :=
  match fs with
  | [] => false
  | x :: fs' => (negb (Nat.eqb i h) && f_in x && f_wrote x) || other_dirty h (S i) fs'
  end.
(* returns (dirty read possible, stale snapshot read, overlapping writers both committed) *)
Fixpoint classify (steps : list (nat * op)) (fs : list hflag) (a b c : bool) : bool * bool * bool :=
  match steps with
  | [] => (a, b, c)
  | (h, o) :: rest =>
      let me := nth h fs f_idle in
      let a' := a || other_dirty h O fs in
      let b' := b || (f_in me && f_stale me) in
      let upd := fun x => set_nth h x fs in
      match o with
      | OBegin => if f_in me then classify rest fs a' b' c else classify rest (upd (mkF true false false false)) a' b' c
      | OCommit =>
          if f_in me then
            let c' := c || (f_wrote me && f_sawc me) in
            let fs1 := upd f_idle in
            classify rest (if f_wrote me then others h O fs1 mark_sawc else fs1) a' b' c'
          else classify rest fs a' b' c
      | ORollback | ODrop => classify rest (upd f_idle) a' b' c
      | _ =>
          if is_dml o then
            if f_in me then classify rest (upd (mkF true true (f_stale me) (f_sawc me))) a' b' c
            else classify rest (others h O fs mark_stale) a' b' c
          else classify rest fs a' b' c
      end
  end.
Definition known_class (cs : case) : Z :=
  match cs with
  | Sched sch nh steps obs =>
      match classify steps (repeat f_idle nh) false false false with
      | (_, _, true) => 3
      | (true, _, false) => 1
      | (false, true, false) => 2
      | (false, false, false) => 0
      end
  end.

Fixpoint failures_from (i : Z) (cs : list case) : list (Z * bool * bool * Z) :=
  match cs with
  | [] => []
  | c :: t =>
      let m := model_agrees c in
      let s := spec_ok c in
      if m && s then failures_from (i + 1) t else (i, m, s, known_class c) :: failures_from (i + 1) t
  end.
Definition failures := failures_from 0.
