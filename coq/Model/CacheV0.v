(* HISTORICAL -- not the code under verification any more.
   The C35 model as it was BEFORE /repo commits 1cb9a1e and b391e62 (findings F-C35-1 / F-C35-2, both
   fixed): get_or_insert returned through `?` when the init closure failed, leaving the page charged
   to the Cache pool ([gleak]), and clear() took len() under read locks before site 502 and released
   that amount after clearing the shards ([grace] = a residency change inside that window).
   Kept only so that Props/C35.v can state, by evaluation, what the old code did on the two recorded
   schedules.  Definitions only. *)
From Coq Require Import ZArith List Bool Arith.
From TV Require Import Lib.Interleave Gen.CacheConsts.
Import ListNotations.
Open Scope Z_scope.

(* ------------------------------------------------------------------ shard *)
Record entry := mkE { ekey : Z; evis : bool; epin : Z; edata : Z }.

Record shard := mkSh { ents : list entry; idx : list (Z * nat); hand : nat; cap : nat; wl : option nat }.

Definition NSH : nat := Z.to_nat CACHE_SHARD_COUNT.

(* HashMap<PageKey, usize> *)
Fixpoint idx_get (m : list (Z * nat)) (k : Z) : option nat :=
  match m with
  | [] => None
  | (k', i) :: r => if k' =? k then Some i else idx_get r k
  end.
Definition idx_del (m : list (Z * nat)) (k : Z) : list (Z * nat) :=
  filter (fun p => negb (fst p =? k)) m.
Definition idx_set (m : list (Z * nat)) (k : Z) (i : nat) : list (Z * nat) := (k, i) :: idx_del m k.

Fixpoint set_nth {A} (l : list A) (i : nat) (x : A) : list A :=
  match l, i with
  | [], _ => []
  | _ :: r, O => x :: r
  | a :: r, S j => a :: set_nth r j x
  end.

Definition is_pinned (e : entry) : bool := 0 <? epin e.
Definition set_vis (e : entry) (b : bool) : entry := mkE (ekey e) b (epin e) (edata e).
Definition set_pin (e : entry) (p : Z) : entry := mkE (ekey e) (evis e) p (edata e).
Definition set_data (e : entry) (d : Z) : entry := mkE (ekey e) (evis e) (epin e) d.

(* CacheShard::evict: the loop, with explicit outcomes for an out-of-range index and for fuel *)
Inductive evres := EvSome (k : Z) | EvNone | EvPanic | EvFuel.

Fixpoint evict_loop (fuel : nat) (es : list entry) (h start : nat) (chk : bool) : evres * list entry * nat :=
  match fuel with
  | O => (EvFuel, es, h)
  | S f =>
      match nth_error es h with
      | None => (EvPanic, es, h)
      | Some e =>
          if is_pinned e then
            let h' := Nat.modulo (S h) (length es) in
            if Nat.eqb h' start then
              if chk then (EvNone, es, h') else evict_loop f es h' start true
            else evict_loop f es h' start chk
          else if evis e then
            evict_loop f (set_nth es h (set_vis e false)) (Nat.modulo (S h) (length es)) start chk
          else (EvSome (ekey e), es, h)
      end
  end.

(* enough for every shard (Proof/CacheShard.v: evict_loop_no_fuel); the loop itself has no bound *)
Definition evict_fuel (es : list entry) : nat := (length es * length es + 2 * length es + 2)%nat.

Definition evict (sh : shard) : evres * shard :=
  match ents sh with
  | [] => (EvNone, sh)
  | _ =>
      let '(r, es, h) := evict_loop (evict_fuel (ents sh)) (ents sh) (hand sh) (hand sh) false in
      (r, mkSh es (idx sh) h (cap sh) (wl sh))
  end.

(* Vec::swap_remove *)
Definition swap_remove (es : list entry) (i : nat) : option (entry * list entry) :=
  match nth_error es i with
  | None => None
  | Some e =>
      let l := removelast es in
      Some (e, if Nat.ltb i (length l) then set_nth l i (last es e) else l)
  end.

(* CacheShard::remove; None = swap_remove panicked *)
Definition remove (sh : shard) (i : nat) : option shard :=
  match swap_remove (ents sh) i with
  | None => None
  | Some (e, es) =>
      let m1 := idx_del (idx sh) (ekey e) in
      let m2 := match nth_error es i with Some mv => idx_set m1 (ekey mv) i | None => m1 end in
      let h := if Nat.leb (length es) (hand sh) && negb (Nat.eqb (length es) 0) then O else hand sh in
      Some (mkSh es m2 h (cap sh) (wl sh))
  end.

Definition insert (sh : shard) (e : entry) : shard :=
  mkSh (ents sh ++ [e]) (idx_set (idx sh) (ekey e) (length (ents sh))) (hand sh) (cap sh) (wl sh).

Definition is_full (sh : shard) : bool := Nat.leb (cap sh) (length (ents sh)).

Definition set_wl (sh : shard) (w : option nat) : shard := mkSh (ents sh) (idx sh) (hand sh) (cap sh) w.
Definition set_ents (sh : shard) (es : list entry) : shard := mkSh es (idx sh) (hand sh) (cap sh) (wl sh).
Definition clear_shard (sh : shard) : shard := mkSh [] [] O (cap sh) (wl sh).

(* indices of unpinned entries, descending (evict_all_unpinned: to_remove, sorted b.cmp(a)) *)
Fixpoint unpinned_from (i : nat) (es : list entry) : list nat :=
  match es with
  | [] => []
  | e :: r => if is_pinned e then unpinned_from (S i) r else i :: unpinned_from (S i) r
  end.
Definition to_remove (es : list entry) : list nat := rev (unpinned_from O es).

(* PageCache::shard_index *)
Definition shard_of (k : Z) : nat :=
  Z.to_nat (((k / 4294967296) * 31 + k mod 4294967296) mod CACHE_SHARD_COUNT).

(* ------------------------------------------------------------------ budget arithmetic *)
Definition sat_sub (a b : Z) : Z := Z.max 0 (a - b).
(* MemoryBudget::shared_available, given the loaded limit and total *)
Definition shared_available (limit total : Z) : Z :=
  sat_sub (sat_sub limit TOTAL_RESERVED) (Z.max (sat_sub total TOTAL_RESERVED) 0).
(* MemoryBudget::available(Pool::Cache): pool counter loaded first, total afterwards *)
Definition available_cache (limit pool_used total : Z) : Z :=
  sat_sub CACHE_RESERVED pool_used + shared_available limit total.

(* ------------------------------------------------------------------ threads *)
Inductive op :=
| OGet (k : Z) | OGetIns (k : Z) (ok : bool) (v : Z) | OUnpin (k : Z) | OWrite (k v : Z) | ORead (k : Z)
| OClear | OEvictAll.

Inductive result :=
| RHit | RMiss | RIns | RInitErr | RErrExhausted | RErrAlloc | RErrFull
| RUnpinned | RUnpinPanic | RNoRef | RData (d : option Z) | RWrote | RWritePanic
| RCleared | REvicted (n : Z) | RPanic.

Record gi := mkGi { gk : Z; gok : bool; gv : Z }.

Inductive cont :=
| KCan (g : gi) | KInit (g : gi) | KFailFull (g : gi) | KEvRem (i : nat) (todo : list nat) (cnt : Z)
| KFinish.                                (* the release that ends clear() *)

Inductive pcT :=
| PIdle
| PGI501 (g : gi)                         (* site 501 *)
| PCan1 (g : gi) | PCan2 (g : gi) (a : Z)
| PAl99 (g : gi)                          (* site 99: in front of the allocate mutex *)
| PAl0 (g : gi)
| PAl1 (g : gi) (cur : Z)                 (* site 100 *)
| PAl2 (g : gi) (cur tot : Z)             (* site 101 *)
| PAl3 (g : gi) (cur : Z)                 (* site 102 *)
| PFull (g : gi) | PInit (g : gi) | PFailFull (g : gi)
| PRel0 (n : Z) (c : cont)
| PRel1 (n cur : Z) (c : cont)            (* site 112 *)
| PClLen (i : nat) (acc : Z)
| PCl502 (acc : Z)                        (* site 502 *)
| PClSh (i : nat) (acc : Z)
| PEv (i : nat) (cnt : Z) | PEvRem (i : nat) (todo : list nat) (cnt : Z).

Record thread := mkTh { prog : list op; pc : pcT; held : list Z; res : list result }.

Record st := mkSt {
  shs : list shard; used : Z; lim : Z; oth : Z; thr : list (nat * thread);
  alock : option nat;           (* MemoryBudget::alloc_lock: held by allocate from its first load to its return *)
  glast : list (Z * Z); gleak : bool; grace : bool }.

Definition set_pc (th : thread) (p : pcT) : thread := mkTh (prog th) p (held th) (res th).
Definition finish (th : thread) (r : result) : thread := mkTh (prog th) PIdle (held th) (r :: res th).
Definition finish_hold (th : thread) (k : Z) (r : result) : thread := mkTh (prog th) PIdle (k :: held th) (r :: res th).

Fixpoint remove_one (l : list Z) (k : Z) : list Z :=
  match l with
  | [] => []
  | x :: r => if x =? k then r else x :: remove_one r k
  end.
Definition holds (l : list Z) (k : Z) : bool := existsb (Z.eqb k) l.

Definition glast_get (m : list (Z * Z)) (k : Z) : option Z :=
  match find (fun p => fst p =? k) m with Some p => Some (snd p) | None => None end.
Definition glast_set (m : list (Z * Z)) (k v : Z) : list (Z * Z) := (k, v) :: m.

(* is shard j inside the window of a clear() that thread-pc p is executing? *)
Definition in_window (p : pcT) (j : nat) : bool :=
  match p with
  | PClLen i _ => Nat.ltb j i
  | PCl502 _ => true
  | PClSh i _ => Nat.leb i j
  | _ => false
  end.
Definition covered (ths : list (nat * thread)) (t : nat) (j : nat) : bool :=
  existsb (fun p => negb (Nat.eqb (fst p) t) && in_window (pc (snd p)) j) ths.

(* state updates *)
Definition upd (s : st) (shs' : list shard) (used' : Z) (t : nat) (th : thread) : st :=
  mkSt shs' used' (lim s) (oth s) (lset (thr s) t th) (alock s) (glast s) (gleak s) (grace s).
Definition upd_th (s : st) (t : nat) (th : thread) : st := upd s (shs s) (used s) t th.
Definition upd_sh (s : st) (i : nat) (sh : shard) (t : nat) (th : thread) : st :=
  upd s (set_nth (shs s) i sh) (used s) t th.
(* a step of thread t that changed the residency of shard i *)
Definition mark_race (s : st) (t : nat) (i : nat) (s' : st) : st :=
  mkSt (shs s') (used s') (lim s') (oth s') (thr s') (alock s') (glast s') (gleak s') (grace s' || covered (thr s) t i).
Definition set_glast (s : st) (k v : Z) : st :=
  mkSt (shs s) (used s) (lim s) (oth s) (thr s) (alock s) (glast_set (glast s) k v) (gleak s) (grace s).
Definition set_gleak (s : st) : st :=
  mkSt (shs s) (used s) (lim s) (oth s) (thr s) (alock s) (glast s) true (grace s).
Definition set_alock (s : st) (w : option nat) : st :=
  mkSt (shs s) (used s) (lim s) (oth s) (thr s) w (glast s) (gleak s) (grace s).

Definition pc_of_cont (c : cont) : option pcT :=
  match c with
  | KCan g => Some (PCan1 g)
  | KInit g => Some (PInit g)
  | KFailFull g => Some (PFailFull g)
  | KEvRem i todo cnt => Some (PEvRem i todo cnt)
  | KFinish => None
  end.
Definition resume (th : thread) (c : cont) : thread :=
  match c with
  | KFinish => finish th RCleared
  | KCan g => set_pc th (PCan1 g)
  | KInit g => set_pc th (PInit g)
  | KFailFull g => set_pc th (PFailFull g)
  | KEvRem i todo cnt => set_pc th (PEvRem i todo cnt)
  end.

(* the pin + access of a hit (get and the two probes of get_or_insert) *)
Definition hit_entry (sh : shard) (j : nat) : option shard :=
  match nth_error (ents sh) j with
  | Some e => Some (set_ents sh (set_nth (ents sh) j (set_vis (set_pin e (epin e + 1)) true)))
  | None => None
  end.

(* read-locked probe shared by get and get_or_insert.  None = blocked by a writer *)
Inductive probe := PrBlocked | PrHit (sh : shard) | PrMiss | PrPanic.
Definition probe_shard (sh : shard) (k : Z) : probe :=
  match wl sh with
  | Some _ => PrBlocked
  | None =>
      match idx_get (idx sh) k with
      | Some j => match hit_entry sh j with Some sh' => PrHit sh' | None => PrPanic end
      | None => PrMiss
      end
  end.

Definition start_op (t : nat) (s : st) (th : thread) (o : op) : option st :=
  match o with
  | OGet k =>
      let i := shard_of k in
      match nth_error (shs s) i with
      | None => None
      | Some sh =>
          match probe_shard sh k with
          | PrBlocked => None
          | PrHit sh' => Some (upd_sh s i sh' t (finish_hold th k RHit))
          | PrMiss => Some (upd_th s t (finish th RMiss))
          | PrPanic => Some (upd_th s t (finish th RPanic))
          end
      end
  | OGetIns k ok v =>
      let i := shard_of k in
      match nth_error (shs s) i with
      | None => None
      | Some sh =>
          match probe_shard sh k with
          | PrBlocked => None
          | PrHit sh' => Some (upd_sh s i sh' t (finish_hold th k RHit))
          | PrMiss => Some (upd_th s t (set_pc th (PGI501 (mkGi k ok v))))
          | PrPanic => Some (upd_th s t (finish th RPanic))
          end
      end
  | OUnpin k =>
      if holds (held th) k then
        let i := shard_of k in
        let th1 := mkTh (prog th) (pc th) (remove_one (held th) k) (res th) in
        match nth_error (shs s) i with
        | None => None
        | Some sh =>
            match wl sh with
            | Some _ => None
            | None =>
                match idx_get (idx sh) k with
                | None => Some (upd_th s t (finish th1 RUnpinned))
                | Some j =>
                    match nth_error (ents sh) j with
                    | None => Some (upd_th s t (finish th1 RPanic))
                    | Some e =>
                        if epin e =? 0 then
                          (* fetch_sub wraps, then debug_assert!(prev > 0) panics *)
                          Some (upd_sh s i (set_ents sh (set_nth (ents sh) j (set_pin e 4294967295))) t (finish th1 RUnpinPanic))
                        else
                          Some (upd_sh s i (set_ents sh (set_nth (ents sh) j (set_pin e (epin e - 1)))) t (finish th1 RUnpinned))
                    end
                end
            end
        end
      else Some (upd_th s t (finish th RNoRef))
  | OWrite k v =>
      if holds (held th) k then
        let i := shard_of k in
        match nth_error (shs s) i with
        | None => None
        | Some sh =>
            match wl sh with
            | Some _ => None
            | None =>
                match idx_get (idx sh) k with
                | None => Some (upd_th s t (finish th RWritePanic))
                | Some j =>
                    match nth_error (ents sh) j with
                    | None => Some (upd_th s t (finish th RPanic))
                    | Some e =>
                        Some (set_glast (upd_sh s i (set_ents sh (set_nth (ents sh) j (set_data e v))) t (finish th RWrote)) k v)
                    end
                end
            end
        end
      else Some (upd_th s t (finish th RNoRef))
  | ORead k =>
      let i := shard_of k in
      match nth_error (shs s) i with
      | None => None
      | Some sh =>
          match wl sh with
          | Some _ => None
          | None =>
              match idx_get (idx sh) k with
              | None => Some (upd_th s t (finish th (RData None)))
              | Some j =>
                  match nth_error (ents sh) j with
                  | None => Some (upd_th s t (finish th RPanic))
                  | Some e => Some (upd_th s t (finish th (RData (Some (edata e)))))
                  end
              end
          end
      end
  | OClear => Some (upd_th s t (set_pc th (PClLen O 0)))
  | OEvictAll => Some (upd_th s t (set_pc th (PEv O 0)))
  end.

(* evict + get + remove, as written twice in get_or_insert.
   Some (shard', removed?) ; None = nothing evictable *)
Inductive evrem := ERemoved (sh : shard) | ENotIndexed (sh : shard) | ENothing (sh : shard) | EPanicked (sh : shard).
Definition evict_remove (sh : shard) : evrem :=
  match evict sh with
  | (EvSome vk, sh1) =>
      match idx_get (idx sh1) vk with
      | Some j => match remove sh1 j with Some sh2 => ERemoved sh2 | None => EPanicked sh1 end
      | None => ENotIndexed sh1
      end
  | (EvNone, sh1) => ENothing sh1
  | (_, sh1) => EPanicked sh1
  end.

Definition step (t : nat) (s : st) : option st :=
  match lget (thr s) t with
  | None => None
  | Some th =>
      match pc th with
      | PIdle =>
          match prog th with
          | [] => None
          | o :: rest => start_op t s (mkTh rest (pc th) (held th) (res th)) o
          end
      | PGI501 g =>
          let i := shard_of (gk g) in
          match nth_error (shs s) i with
          | None => None
          | Some sh =>
              match wl sh with
              | Some _ => None
              | None =>
                  match idx_get (idx sh) (gk g) with
                  | Some j =>
                      match hit_entry sh j with
                      | Some sh' => Some (upd_sh s i sh' t (finish_hold th (gk g) RHit))
                      | None => Some (upd_th s t (finish th RPanic))
                      end
                  | None => Some (upd_sh s i (set_wl sh (Some t)) t (set_pc th (PCan1 g)))
                  end
              end
          end
      | PCan1 g => Some (upd_th s t (set_pc th (PCan2 g (used s))))
      | PCan2 g a =>
          if PAGE_SIZE <=? available_cache (lim s) a (used s + oth s) then Some (upd_th s t (set_pc th (PAl99 g)))
          else
            let i := shard_of (gk g) in
            match nth_error (shs s) i with
            | None => None
            | Some sh =>
                match evict_remove sh with
                | ERemoved sh' => Some (mark_race s t i (upd_sh s i sh' t (set_pc th (PRel0 PAGE_SIZE (KCan g)))))
                | ENotIndexed sh' => Some (upd_sh s i sh' t (set_pc th (PCan1 g)))
                | ENothing sh' => Some (upd_sh s i (set_wl sh' None) t (finish th RErrExhausted))
                | EPanicked sh' => Some (upd_sh s i (set_wl sh' None) t (finish th RPanic))
                end
            end
      | PAl99 g =>
          match alock s with
          | Some _ => None
          | None => Some (set_alock (upd_th s t (set_pc th (PAl0 g))) (Some t))
          end
      | PAl0 g => Some (upd_th s t (set_pc th (PAl1 g (used s))))
      | PAl1 g cur => Some (upd_th s t (set_pc th (PAl2 g cur (used s + oth s))))
      | PAl2 g cur tot =>
          let i := shard_of (gk g) in
          match nth_error (shs s) i with
          | None => None
          | Some sh =>
              if lim s <? tot + PAGE_SIZE then Some (set_alock (upd_sh s i (set_wl sh None) t (finish th RErrAlloc)) None)
              else if (CACHE_RESERVED <? cur + PAGE_SIZE)
                      && (shared_available (lim s) (used s + oth s) <? cur + PAGE_SIZE - CACHE_RESERVED)
              then Some (set_alock (upd_sh s i (set_wl sh None) t (finish th RErrAlloc)) None)
              else Some (upd_th s t (set_pc th (PAl3 g cur)))
          end
      | PAl3 g cur =>
          if used s =? cur then Some (set_alock (upd s (shs s) (cur + PAGE_SIZE) t (set_pc th (PFull g))) None)
          else Some (upd_th s t (set_pc th (PAl0 g)))
      | PFull g =>
          let i := shard_of (gk g) in
          match nth_error (shs s) i with
          | None => None
          | Some sh =>
              if is_full sh then
                match evict_remove sh with
                | ERemoved sh' => Some (mark_race s t i (upd_sh s i sh' t (set_pc th (PRel0 PAGE_SIZE (KInit g)))))
                | ENotIndexed sh' => Some (upd_sh s i sh' t (set_pc th (PInit g)))
                | ENothing sh' => Some (upd_sh s i sh' t (set_pc th (PRel0 PAGE_SIZE (KFailFull g))))
                | EPanicked sh' => Some (upd_sh s i (set_wl sh' None) t (finish th RPanic))
                end
              else Some (upd_th s t (set_pc th (PInit g)))
          end
      | PInit g =>
          let i := shard_of (gk g) in
          match nth_error (shs s) i with
          | None => None
          | Some sh =>
              if gok g then
                let sh' := set_wl (insert sh (mkE (gk g) true 1 (gv g))) None in
                Some (set_glast (mark_race s t i (upd_sh s i sh' t (finish_hold th (gk g) RIns))) (gk g) (gv g))
              else
                (* `init(...)?` returns with the page charged to the budget and no entry inserted *)
                Some (set_gleak (upd_sh s i (set_wl sh None) t (finish th RInitErr)))
          end
      | PFailFull g =>
          let i := shard_of (gk g) in
          match nth_error (shs s) i with
          | None => None
          | Some sh => Some (upd_sh s i (set_wl sh None) t (finish th RErrFull))
          end
      | PRel0 n c => Some (upd_th s t (set_pc th (PRel1 n (used s) c)))
      | PRel1 n cur c =>
          if used s =? cur then Some (upd s (shs s) (sat_sub cur n) t (resume th c))
          else Some (upd_th s t (set_pc th (PRel0 n c)))
      | PClLen i acc =>
          if Nat.leb NSH i then Some (upd_th s t (set_pc th (PCl502 acc)))
          else
            match nth_error (shs s) i with
            | None => None
            | Some sh =>
                match wl sh with
                | Some _ => None
                | None => Some (upd_th s t (set_pc th (PClLen (S i) (acc + Z.of_nat (length (ents sh))))))
                end
            end
      | PCl502 acc => Some (upd_th s t (set_pc th (PClSh O acc)))
      | PClSh i acc =>
          if Nat.leb NSH i then
            if acc * PAGE_SIZE =? 0 then Some (upd_th s t (finish th RCleared))
            else Some (upd_th s t (set_pc th (PRel0 (acc * PAGE_SIZE) KFinish)))
          else
            match nth_error (shs s) i with
            | None => None
            | Some sh =>
                match wl sh with
                | Some _ => None
                | None =>
                    let s' := upd_sh s i (clear_shard sh) t (set_pc th (PClSh (S i) acc)) in
                    Some (match ents sh with [] => s' | _ => mark_race s t i s' end)
                end
            end
      | PEv i cnt =>
          if Nat.leb NSH i then Some (upd_th s t (finish th (REvicted cnt)))
          else
            match nth_error (shs s) i with
            | None => None
            | Some sh =>
                match wl sh with
                | Some _ => None
                | None => Some (upd_sh s i (set_wl sh (Some t)) t (set_pc th (PEvRem i (to_remove (ents sh)) cnt)))
                end
            end
      | PEvRem i todo cnt =>
          match nth_error (shs s) i with
          | None => None
          | Some sh =>
              match todo with
              | [] => Some (upd_sh s i (set_wl sh None) t (set_pc th (PEv (S i) cnt)))
              | j :: rest =>
                  match remove sh j with
                  | Some sh' => Some (mark_race s t i (upd_sh s i sh' t (set_pc th (PRel0 PAGE_SIZE (KEvRem i rest (cnt + 1))))))
                  | None => Some (upd_sh s i (set_wl sh None) t (finish th RPanic))
                  end
              end
          end
      end
  end.

(* hook sites: where the deterministic scheduler can park a thread *)
Definition site_of (p : pcT) : option Z :=
  match p with
  | PIdle => Some 900          (* between two operations (a site of the harness), start and end *)
  | PGI501 _ => Some 501
  | PAl99 _ => Some 99
  | PAl1 _ _ => Some 100
  | PAl2 _ _ _ => Some 101
  | PAl3 _ _ => Some 102
  | PRel1 _ _ _ => Some 112
  | PCl502 _ => Some 502
  | _ => None
  end.
Definition at_site (t : nat) (s : st) : bool :=
  match lget (thr s) t with
  | None => true
  | Some th => match site_of (pc th) with Some _ => true | None => false end
  end.

(* ------------------------------------------------------------------ initial state *)
(* PageCache::with_budget(total_capacity, ..): shard i gets total/64 (+1 if i < total mod 64) *)
Definition init_shards (total : nat) : list shard :=
  map (fun i => mkSh [] [] O (Nat.div total NSH + (if Nat.ltb i (Nat.modulo total NSH) then 1 else 0))%nat None) (seq O NSH).

Definition init_thread (p : list op) : thread := mkTh p PIdle [] [].

(* c0: bytes already charged to Pool::Cache by somebody else; o: bytes used by the other pools *)
Definition init_st (total : nat) (limit c0 o : Z) (progs : list (nat * list op)) : st :=
  mkSt (init_shards total) c0 limit o (map (fun p => (fst p, init_thread (snd p))) progs) None [] false false.

(* ------------------------------------------------------------------ observations *)
Definition total_len (s : st) : Z := fold_right (fun sh a => Z.of_nat (length (ents sh)) + a) 0 (shs s).

(* index lookup followed by entries[idx], as every PageCache accessor does *)
Definition lookup (sh : shard) (k : Z) : option entry :=
  match idx_get (idx sh) k with
  | Some j => nth_error (ents sh) j
  | None => None
  end.
Definition slookup (ss : list shard) (k : Z) : option entry :=
  match nth_error ss (shard_of k) with
  | Some sh => lookup sh k
  | None => None
  end.

(* PageCache::data as a pure function of the state *)
Definition cache_data (s : st) (k : Z) : option Z := option_map edata (slookup (shs s) k).

Definition quiescent (s : st) : Prop := forall t th, In (t, th) (thr s) -> pc th = PIdle.


Definition idle_b (s : st) : bool :=
  forallb (fun p => match pc (snd p) with PIdle => true | _ => false end) (thr s).
