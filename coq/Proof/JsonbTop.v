(* C32 proofs, part 5: whole documents -- read-back = canonical form, the canonical form is an equal
   JSON value, get / array_get / get_path on a stored document, path lookup vs stepwise lookup. *)
From Coq Require Import ZArith List Bool Lia ZifyBool Sorting.Permutation Sorting.Sorted.
From TV Require Import Lib.MachInt Lib.MachIntFacts Gen.JsonbBits Model.Jsonb
  Proof.JsonbBits Proof.JsonbLayout Proof.JsonbDecode Proof.BytesOrder Proof.Jsonb.
Import ListNotations.
Open Scope Z_scope.

Ltac Zify.zify_post_hook ::= Z.to_euclidean_division_equations.

Lemma header_u32 hv rest : 0 <= hv < 2 ^ 32 -> header (u32le hv ++ rest) = Ok hv.
Proof.
  intros H. unfold header.
  rewrite (sub_mid' (u32le hv ++ rest) [] (u32le hv) rest 0 4 eq_refl eq_refl (eq_sym (u32le_length hv))).
  unfold rmap, bind. rewrite from_le_u32le by exact H. reflexivity.
Qed.

Lemma wf_nested_root v : wf_json true v = true -> wf_json false v = true.
Proof.
  destruct v; cbn [wf_json]; auto. intros H. apply andb_true_iff in H. destruct H as [H1 H2].
  rewrite H1. cbn [andb]. change (2 ^ 16) with 65536 in H2. change (2 ^ 28) with 268435456. lia.
Qed.

Lemma view_new_enc v : view_new (encode_value v) = Ok (encode_value v).
Proof. unfold view_new. pose proof (enc_len_ge4 v). replace (blen (encode_value v) <? 4) with false by lia. reflexivity. Qed.

(* as_value on a stored document *)
Lemma as_value_enc v : fits v = true -> as_value (encode_value v) = Ok (jv_of v).
Proof.
  unfold fits. intros H. apply andb_true_iff in H. destruct H as [Hwf Hlen].
  destruct v as [| bb | x | s | els | kvs]; cbn [is_str orb] in Hlen; try apply Z.leb_le in Hlen.
  - unfold as_value, root_type. cbn [encode_value]. rewrite <- (app_nil_r (u32le _)).
    rewrite header_u32 by (vm_compute; split; congruence). reflexivity.
  - unfold as_value, root_type, entry_count. cbn [encode_value]. rewrite <- (app_nil_r (u32le _)).
    replace (Z.lor (JSONB_TYPE_BOOL * 2 ^ 28) (b2z bb)) with (3 * 2 ^ 28 + b2z bb) by (destruct bb; reflexivity).
    rewrite header_u32 by (destruct bb; vm_compute; split; congruence). destruct bb; reflexivity.
  - cbn [wf_json] in Hwf. apply in_u_true in Hwf.
    unfold as_value, root_type. cbn [encode_value].
    rewrite header_u32 by (vm_compute; split; congruence). cbn [rmap bind].
    change ((JSONB_TYPE_NUMBER * 2 ^ 28 / 2 ^ 28) mod 16) with 4. tags.
    change (4 =? 0) with false. change (4 =? 1) with false. change (4 =? 2) with false.
    change (4 =? 3) with false. change (4 =? 4) with true. cbv iota.
    rewrite (sub_mid' _ (u32le (4 * 2 ^ 28)) (le_bytes 8 x) [] 4 8) by
      (try (rewrite app_nil_r; reflexivity); try reflexivity).
    unfold rmap. cbn [bind]. rewrite from_le_le8 by exact Hwf. reflexivity.
  - cbn [wf_json] in Hwf. apply andb_true_iff in Hwf. destruct Hwf as [Hu Hs]. pose proof (blen_nonneg s).
    unfold as_value, root_type, entry_count. cbn [encode_value].
    assert (Hs' : blen s < 2 ^ 28) by lia.
    rewrite wrap_u_small by (change (2 ^ 28) with 268435456 in Hs'; change (2 ^ 32) with 4294967296; lia).
    rewrite lor_disjoint by lia.
    rewrite header_u32 by (change (2 ^ 28) with 268435456 in *; change (2 ^ 32) with 4294967296; unfold JSONB_TYPE_STRING; lia).
    cbn [rmap bind].
    replace ((JSONB_TYPE_STRING * 2 ^ 28 + blen s) / 2 ^ 28 mod 16) with 5
      by (unfold JSONB_TYPE_STRING; change (2 ^ 28) with 268435456 in *; lia).
    replace ((JSONB_TYPE_STRING * 2 ^ 28 + blen s) mod 2 ^ 28) with (blen s)
      by (unfold JSONB_TYPE_STRING; change (2 ^ 28) with 268435456 in *; lia).
    tags. change (5 =? 0) with false. change (5 =? 1) with false. change (5 =? 2) with false.
    change (5 =? 3) with false. change (5 =? 4) with false. change (5 =? 5) with true. cbv iota.
    rewrite (sub_mid' _ (u32le (5 * 2 ^ 28 + blen s)) s [] 4 (blen s)) by
      (try (rewrite app_nil_r; reflexivity); try reflexivity; rewrite u32le_length; reflexivity).
    unfold rmap. cbn [bind]. unfold str_of. rewrite Hu. reflexivity.
  - cbn [wf_json] in Hwf. destruct (arr_view els _ eq_refl Hlen Hwf) as (Hrt & _).
    unfold as_value. rewrite Hrt. reflexivity.
  - change (wf_json false (JObj kvs)) with (forallb member_ok kvs) in Hwf.
    destruct (obj_view kvs _ eq_refl Hlen Hwf) as (Hrt & _).
    unfold as_value. rewrite Hrt. reflexivity.
Qed.

Lemma fits_nested v : fits v = true -> (forall s, v <> JStr s) -> wf_json true v = true /\ blen (encode_value v) <= 2 ^ 24.
Proof.
  unfold fits. intros H Hs. apply andb_true_iff in H. destruct H as [Hwf Hlen].
  destruct v; cbn [is_str orb] in Hlen; try (split; [exact Hwf|lia]). exfalso. eapply Hs. reflexivity.
Qed.

Lemma roundtrip_l : forall j, fits j = true -> tree_of_view (S (depth j)) (encode_value j) = Ok (canon j).
Proof.
  intros j Hf. unfold tree_of_view. rewrite view_new_enc. cbn [bind]. rewrite as_value_enc by exact Hf. cbn [bind].
  destruct j as [| bb | x | s | els | kvs]; try reflexivity.
  - apply tree_jv; try lia; apply (fits_nested _ Hf); congruence.
  - apply tree_jv; try lia; apply (fits_nested _ Hf); congruence.
Qed.

(* more fuel does not change the result *)
Lemma roundtrip_fuel_l : forall j fuel, fits j = true -> (depth j < fuel)%nat ->
  tree_of_view fuel (encode_value j) = Ok (canon j).
Proof.
  intros j fuel Hf Hd. unfold tree_of_view. rewrite view_new_enc. cbn [bind]. rewrite as_value_enc by exact Hf. cbn [bind].
  destruct j as [| bb | x | s | els | kvs]; try (destruct fuel; [lia|reflexivity]).
  - apply tree_jv; try lia; apply (fits_nested _ Hf); congruence.
  - apply tree_jv; try lia; apply (fits_nested _ Hf); congruence.
Qed.

(* ------------------------------------------------------------------ the canonical form is a legitimate reading *)
Lemma canon_equiv_l : forall j, jequiv j (canon j).
Proof.
  induction j as [| bb | x | s | els IH | kvs IH] using json_ind2; try (cbn [canon]; constructor).
  - induction IH as [|e t He Ht IHt]; cbn [map]; constructor; assumption.
  - rewrite canon_obj. apply (EqObj kvs (stable_sort fst kvs)); [apply sort_perm|].
    assert (Hall : Forall (fun kv => jequiv (snd kv) (canon (snd kv))) (stable_sort fst kvs)).
    { rewrite Forall_forall in *. intros kv Hin. apply IH. apply (sort_in fst). exact Hin. }
    induction Hall as [|kv t Hkv Ht IHt]; cbn [map]; constructor; [split; [reflexivity|exact Hkv]|exact IHt].
Qed.

Lemma keys_sorted_of l : StronglySorted (fun a b => bytes_leb a b = true) l -> keys_sorted l = true.
Proof.
  induction 1 as [|a t Hs IH Hall]; [reflexivity|]. destruct t as [|b t']; [reflexivity|].
  cbn [keys_sorted]. inversion Hall; subst. rewrite H1. exact IH.
Qed.

Lemma sorted_map_fst {B} (l : list (list Z * B)) :
  StronglySorted (kle fst) l -> StronglySorted (fun a b => bytes_leb a b = true) (map fst l).
Proof.
  induction 1 as [|a t Hs IH Hall]; cbn [map]; constructor; [exact IH|].
  rewrite Forall_forall in *. intros k Hk. apply in_map_iff in Hk. destruct Hk as [kv [<- Hin]]. apply Hall. exact Hin.
Qed.

Lemma canon_sorted_l : forall j, objects_sorted (canon j) = true.
Proof.
  induction j as [| bb | x | s | els IH | kvs IH] using json_ind2; try reflexivity.
  - cbn [canon objects_sorted]. rewrite forallb_forall. intros e He. apply in_map_iff in He.
    destruct He as [e0 [<- Hin]]. rewrite Forall_forall in IH. apply IH. exact Hin.
  - rewrite canon_obj. cbn [objects_sorted]. apply andb_true_iff. split.
    + rewrite map_map. cbn [fst]. apply keys_sorted_of. apply sorted_map_fst. apply sort_sorted.
    + rewrite forallb_forall. intros kv Hin. apply in_map_iff in Hin. destruct Hin as [[k e] [<- Hin]].
      cbn [fst snd]. rewrite Forall_forall in IH. apply (IH (k, e)). apply (sort_in fst). exact Hin.
Qed.

(* members that share a key keep their document order (the sort is stable) *)
Lemma canon_stable_l : forall kvs k,
  match canon (JObj kvs) with
  | JObj ms => map fst (filter (fun kv => zlist_eqb (fst kv) k) ms) = map fst (filter (fun kv => zlist_eqb (fst kv) k) kvs) /\
               map snd (filter (fun kv => zlist_eqb (fst kv) k) ms) = map canon (map snd (filter (fun kv => zlist_eqb (fst kv) k) kvs))
  | _ => False
  end.
Proof.
  intros kvs k. rewrite canon_obj.
  assert (H : forall l : list (list Z * json),
            filter (fun kv => zlist_eqb (fst kv) k) (map (fun kv => (fst kv, canon (snd kv))) l) =
            map (fun kv => (fst kv, canon (snd kv))) (filter (fun kv => zlist_eqb (fst kv) k) l)).
  { induction l as [|kv t IH]; [reflexivity|]. cbn [map filter fst]. destruct (zlist_eqb (fst kv) k); cbn [map]; rewrite IH; reflexivity. }
  rewrite H, (sort_stable fst k kvs). rewrite !map_map. cbn [fst snd]. split; reflexivity.
Qed.
