(* HISTORICAL: what the C35 model of the code BEFORE /repo 1cb9a1e / b391e62 (Model/CacheV0.v) did on
   the two recorded schedules (findings F-C35-1 and F-C35-2, both fixed).  Evaluation only. *)
From Coq Require Import ZArith List Bool Arith.
From TV Require Import Lib.Interleave Gen.CacheConsts.
From TV Require Model.CacheV0.
Import ListNotations.
Open Scope Z_scope.

Definition sched_of0 (l : list (nat * nat)) : list nat := flat_map (fun p => repeat (fst p) (snd p)) l.

(* F-C35-1: the init closure fails after the page was charged; nothing resident, one page still charged *)
Lemma v0_init_failure_leaked :
  exists progs sched,
    let s := run CacheV0.step sched (CacheV0.init_st 64 4194304 0 0 progs) in
    CacheV0.idle_b s = true /\ CacheV0.gleak s = true /\ CacheV0.grace s = false /\
    CacheV0.total_len s = 0 /\ CacheV0.used s = PAGE_SIZE.
Proof.
  exists [(0%nat, [CacheV0.OGetIns 0 false 11])], (sched_of0 [(0%nat, 12%nat)]). vm_compute. repeat split.
Qed.

(* F-C35-2: an insert between len() and the shard clears of another thread's clear() *)
Lemma v0_clear_race_leaked :
  exists progs sched,
    let s := run CacheV0.step sched (CacheV0.init_st 64 4194304 0 0 progs) in
    CacheV0.idle_b s = true /\ CacheV0.gleak s = false /\ CacheV0.grace s = true /\
    CacheV0.total_len s = 0 /\ CacheV0.used s = PAGE_SIZE.
Proof.
  exists [(0%nat, [CacheV0.OGetIns 0 true 1; CacheV0.OUnpin 0; CacheV0.OClear]); (1%nat, [CacheV0.OGetIns 1 true 2])],
         (sched_of0 [(0%nat, 78%nat); (1%nat, 12%nat); (0%nat, 80%nat)]).
  vm_compute. repeat split.
Qed.
