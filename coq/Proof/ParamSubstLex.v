(* C13 proofs, part 1: the token loop of Model/ParamSubst.v.
   - fuel never runs out and the items reproduce the input (lex_total_l);
   - a quoted construct ('...', "...", `...`), a `--` comment and a block comment are ONE item that is
     not a parameter, whatever bytes they contain (…_one_item_l);
   - a parameter token can only start at one of the bytes ? $ : @ (param_start_l);
   - substitute_parameters copies every non-parameter item verbatim and indexes the bound values
     by position (anon_index_l, pos_index_l). *)
From Coq Require Import ZArith List Bool Lia Arith.
From TV Require Import Model.ParamSubst.
Import ListNotations.
Open Scope Z_scope.

(* ---------------------------------------------------------------- list helpers *)
Lemma firstn_S_app {A} (a : list A) c r : firstn (S (length a)) (a ++ c :: r) = a ++ [c].
Proof. induction a as [|x a IH]; [reflexivity|]. cbn [length app]. cbn [firstn]. f_equal. exact IH. Qed.

Lemma skipn_S_app {A} (a : list A) c r : skipn (S (length a)) (a ++ c :: r) = r.
Proof. induction a as [|x a IH]; [reflexivity|]. cbn [length app skipn]. exact IH. Qed.

Lemma firstn_len_app {A} (a b : list A) : firstn (length a) (a ++ b) = a.
Proof. induction a as [|x a IH]; [reflexivity|]. cbn [length app firstn]. f_equal. exact IH. Qed.

Lemma skipn_len_app {A} (a b : list A) : skipn (length a) (a ++ b) = b.
Proof. induction a as [|x a IH]; [reflexivity|]. cbn [length app skipn]. exact IH. Qed.

Lemma skipn_length_le {A} n (l : list A) : (length (skipn n l) <= length l)%nat.
Proof. rewrite skipn_length. lia. Qed.

(* ---------------------------------------------------------------- the loop *)
Lemma lex_loop_cons f b r :
  lex_loop (S f) (b :: r) =
  let '(k, n) := scan b r in
  match lex_loop f (skipn n r) with
  | Some t => Some ((k, b :: firstn n r) :: t)
  | None => None
  end.
Proof. reflexivity. Qed.

Lemma lex_loop_nil f : lex_loop f [] = Some [].
Proof. destruct f; reflexivity. Qed.

Lemma lex_loop_enough :
  forall fuel l, (length l <= fuel)%nat ->
    exists items, lex_loop fuel l = Some items /\ concat (map snd items) = l.
Proof.
  induction fuel as [|f IH]; intros l Hl.
  - destruct l; [|cbn [length] in Hl; lia]. exists []. split; reflexivity.
  - destruct l as [|b r]; [exists []; split; reflexivity|].
    rewrite lex_loop_cons. destruct (scan b r) as [k n].
    destruct (IH (skipn n r)) as [items [E C]].
    { cbn [length] in Hl. pose proof (skipn_length_le n r). lia. }
    rewrite E. exists ((k, b :: firstn n r) :: items). split; [reflexivity|].
    cbn [map snd concat]. rewrite C. cbn [app]. f_equal. apply firstn_skipn.
Qed.

(* fuel never runs out, and nothing of the input is lost or invented *)
Lemma lex_total_l :
  forall sql, exists items, lex sql = Some items /\ concat (map snd items) = sql.
Proof. intros sql. unfold lex. apply lex_loop_enough. lia. Qed.

(* more fuel does not change the result *)
Lemma lex_loop_mono :
  forall f l items, lex_loop f l = Some items -> forall g, (f <= g)%nat -> lex_loop g l = Some items.
Proof.
  induction f as [|f IH]; intros l items E g Hg.
  - destruct l; [|discriminate]. cbn in E. rewrite lex_loop_nil. exact E.
  - destruct l as [|b r]; [rewrite lex_loop_nil; exact E|].
    destruct g as [|g]; [lia|].
    rewrite lex_loop_cons in *. destruct (scan b r) as [k n].
    destruct (lex_loop f (skipn n r)) as [t|] eqn:Et; [|discriminate].
    rewrite (IH _ _ Et g) by lia. exact E.
Qed.

(* ---------------------------------------------------------------- quoted constructs *)
Lemma qsplit_spec q :
  forall n l, (length l <= n)%nat -> forall body rest,
    qsplit q l = Some (body, rest) -> l = body ++ q :: rest.
Proof.
  induction n as [|n IH]; intros l Hl body rest E.
  - destruct l; [discriminate|cbn [length] in Hl; lia].
  - destruct l as [|c t]; [discriminate|].
    cbn [qsplit] in E. destruct (c =? q) eqn:Ec.
    + apply Z.eqb_eq in Ec. subst c.
      destruct t as [|c2 t2].
      * inversion E; subst. reflexivity.
      * destruct (c2 =? q) eqn:Ec2.
        -- apply Z.eqb_eq in Ec2. subst c2.
           destruct (qsplit q t2) as [[b' r']|] eqn:E2; [|discriminate].
           inversion E; subst. cbn [app]. f_equal. f_equal.
           apply (IH t2); [cbn [length] in Hl; lia|exact E2].
        -- inversion E; subst. reflexivity.
    + destruct (qsplit q t) as [[b' r']|] eqn:E2; [|discriminate].
      inversion E; subst. cbn [app]. f_equal.
      apply (IH t); [cbn [length] in Hl; lia|exact E2].
Qed.

Lemma qsplit_app q l body rest : qsplit q l = Some (body, rest) -> l = body ++ q :: rest.
Proof. apply (qsplit_spec q (length l)). lia. Qed.

Lemma scan_quote q k l : quote_kind q k -> scan q l = scan_quoted q k l.
Proof. intros [[-> ->]|[[-> ->]|[-> ->]]]; reflexivity. Qed.

(* a closed quoted construct is one item, whatever it contains; the loop goes on right after the
   closing quote *)
Lemma quoted_one_item_l :
  forall q k l body rest f, quote_kind q k -> qsplit q l = Some (body, rest) ->
    lex_loop (S f) (q :: l) = option_map (cons (k, q :: body ++ [q])) (lex_loop f rest).
Proof.
  intros q k l body rest f Hq E.
  rewrite lex_loop_cons, (scan_quote q k l Hq). unfold scan_quoted. rewrite E.
  rewrite (qsplit_app _ _ _ _ E), firstn_S_app, skipn_S_app.
  destruct (lex_loop f rest); reflexivity.
Qed.

(* an unterminated one swallows the rest of the input as one Error item *)
Lemma quoted_unterminated_l :
  forall q k l f, quote_kind q k -> qsplit q l = None ->
    lex_loop (S f) (q :: l) = Some [(KErr, q :: l)].
Proof.
  intros q k l f Hq E.
  rewrite lex_loop_cons, (scan_quote q k l Hq). unfold scan_quoted. rewrite E.
  rewrite firstn_all, skipn_all, lex_loop_nil. reflexivity.
Qed.

(* ---------------------------------------------------------------- comments *)
Lemma line_comment_one_item_l :
  forall l f,
    let c := count_while not_newline l in
    lex_loop (S f) (45 :: 45 :: l) =
    option_map (cons (KCom, 45 :: 45 :: firstn c l)) (lex_loop f (skipn c l)).
Proof.
  intros l f c. rewrite lex_loop_cons.
  change (scan 45 (45 :: l)) with (KCom, S (count_while not_newline l)).
  cbn [firstn skipn]. fold c. destruct (lex_loop f (skipn c l)); reflexivity.
Qed.

Lemma count_while_stop p l :
  skipn (count_while p l) l = [] \/ exists b t, skipn (count_while p l) l = b :: t /\ p b = false.
Proof.
  induction l as [|b t IH]; [left; reflexivity|].
  cbn [count_while]. destruct (p b) eqn:E.
  - cbn [skipn]. exact IH.
  - right. exists b, t. split; [reflexivity|exact E].
Qed.

Lemma count_while_all p l : forallb p (firstn (count_while p l) l) = true.
Proof.
  induction l as [|b t IH]; [reflexivity|].
  cbn [count_while]. destruct (p b) eqn:E; [|reflexivity].
  cbn [firstn forallb]. rewrite E, IH. reflexivity.
Qed.

(* the comment ends at the end of the input or right before a newline *)
Lemma line_comment_end_l :
  forall l, let c := count_while not_newline l in
    skipn c l = [] \/ exists t, skipn c l = 10 :: t.
Proof.
  intros l c. destruct (count_while_stop not_newline l) as [E|[b [t [E H]]]]; [left; exact E|].
  right. exists t. unfold not_newline in H. apply negb_false_iff, Z.eqb_eq in H. subst b. exact E.
Qed.

Lemma block_comment_one_item_l :
  forall l n f, blk O l = Some n ->
    lex_loop (S f) (47 :: 42 :: l) =
    option_map (cons (KCom, 47 :: 42 :: firstn n l)) (lex_loop f (skipn n l)).
Proof.
  intros l n f E. rewrite lex_loop_cons.
  change (scan 47 (42 :: l)) with (match blk O l with Some n => (KCom, S n) | None => (KErr, length (42 :: l)) end).
  rewrite E. cbn [firstn skipn]. destruct (lex_loop f (skipn n l)); reflexivity.
Qed.

Lemma block_comment_unterminated_l :
  forall l f, blk O l = None ->
    lex_loop (S f) (47 :: 42 :: l) = Some [(KErr, 47 :: 42 :: l)].
Proof.
  intros l f E. rewrite lex_loop_cons.
  change (scan 47 (42 :: l)) with (match blk O l with Some n => (KCom, S n) | None => (KErr, length (42 :: l)) end).
  rewrite E, firstn_all, skipn_all, lex_loop_nil. reflexivity.
Qed.

Lemma block_comment_opaque_l :
  forall l f,
    match blk O l with
    | Some n => lex_loop (S f) (47 :: 42 :: l) =
                option_map (cons (KCom, 47 :: 42 :: firstn n l)) (lex_loop f (skipn n l))
    | None => lex_loop (S f) (47 :: 42 :: l) = Some [(KErr, 47 :: 42 :: l)]
    end.
Proof.
  intros l f. destruct (blk O l) eqn:E;
    [exact (block_comment_one_item_l l n f E)|exact (block_comment_unterminated_l l f E)].
Qed.

(* ---------------------------------------------------------------- where a parameter can start *)
Ltac np_tac :=
  repeat match goal with
         | |- context [match ?x with _ => _ end] => destruct x
         | |- context [if ?c then _ else _] => destruct c
         end; try reflexivity.

Lemma scan_quoted_np q k r : is_param k = false -> is_param (fst (scan_quoted q k r)) = false.
Proof. intros H. unfold scan_quoted. destruct (qsplit q r) as [[b t]|]; [exact H|reflexivity]. Qed.

Lemma scan_ident_np b r : is_param (fst (scan_ident b r)) = false.
Proof. unfold scan_ident. np_tac. Qed.

Lemma scan_plain_np r : is_param (fst (scan_plain r)) = false.
Proof.
  unfold scan_plain.
  destruct (scan_fraction (skipn (count_while is_digit r) r)) as [d2 fl].
  destruct (scan_exponent (skipn d2 (skipn (count_while is_digit r) r))) as [d3 ex].
  destruct (fl || ex); reflexivity.
Qed.

Lemma scan_radix_np p r : is_param (fst (scan_radix p r)) = false.
Proof. unfold scan_radix. destruct (count_while p (tl r) =? 0)%nat; reflexivity. Qed.

Lemma scan_number_np b r : is_param (fst (scan_number b r)) = false.
Proof.
  unfold scan_number.
  destruct (b =? 48); [|apply scan_plain_np].
  destruct r as [|n t]; [apply scan_plain_np|].
  repeat match goal with |- context [if ?c then _ else _] => destruct c end;
    first [apply scan_plain_np | apply scan_radix_np].
Qed.

(* a parameter token starts with one of  ?  $  :  @  -- never inside anything else *)
Lemma param_start_l :
  forall b r k n, scan b r = (k, n) -> is_param k = true -> b = 63 \/ b = 36 \/ b = 58 \/ b = 64.
Proof.
  intros b r k n E Hk.
  assert (Hf : is_param (fst (scan b r)) = true) by (rewrite E; exact Hk).
  clear E Hk. unfold scan in Hf.
  destruct (is_ws b); [discriminate|].
  destruct (is_ident_start b); [rewrite scan_ident_np in Hf; discriminate|].
  destruct (is_digit b); [rewrite scan_number_np in Hf; discriminate|].
  destruct (b =? 39); [rewrite scan_quoted_np in Hf by reflexivity; discriminate|].
  destruct (b =? 34); [rewrite scan_quoted_np in Hf by reflexivity; discriminate|].
  destruct (b =? 96); [rewrite scan_quoted_np in Hf by reflexivity; discriminate|].
  destruct (b =? 36) eqn:E36; [apply Z.eqb_eq in E36; auto|].
  destruct (b =? 58) eqn:E58; [apply Z.eqb_eq in E58; auto|].
  destruct (b =? 64) eqn:E64; [apply Z.eqb_eq in E64; auto|].
  destruct (b =? 63) eqn:E63; [apply Z.eqb_eq in E63; auto|].
  exfalso. revert Hf.
  destruct (b =? 45). { unfold scan_minus. np_tac; discriminate. }
  destruct (b =? 47). { unfold scan_slash. np_tac; discriminate. }
  repeat match goal with |- context [if ?c then _ else _] => destruct c end; try discriminate.
  unfold scan_dot. np_tac; discriminate.
Qed.

(* ---------------------------------------------------------------- substitute_parameters *)
(* everything that is not a parameter token is copied verbatim *)
Lemma subst_copies_nonparam_l :
  forall k txt t ps i, is_param k = false ->
    subst_items ((k, txt) :: t) ps i = option_map (app txt) (subst_items t ps i).
Proof.
  intros k txt t ps i H. destruct k; try discriminate; cbn [subst_items];
    destruct (subst_items t ps i); reflexivity.
Qed.

Lemma subst_items_app :
  forall pre post ps i,
    subst_items (pre ++ post) ps i =
    match subst_items pre ps i with
    | Some o1 => option_map (app o1) (subst_items post ps (i + count_anon pre))
    | None => None
    end.
Proof.
  induction pre as [|[k txt] pre IH]; intros post ps i.
  - cbn [app subst_items]. unfold count_anon. cbn. rewrite Nat.add_0_r.
    destruct (subst_items post ps i); reflexivity.
  - cbn [app].
    assert (Hnp : forall j, is_param k = false ->
              subst_items ((k, txt) :: pre ++ post) ps j =
              match subst_items ((k, txt) :: pre) ps j with
              | Some o1 => option_map (app o1) (subst_items post ps (j + count_anon ((k, txt) :: pre)))
              | None => None
              end).
    { intros j Hk. rewrite !subst_copies_nonparam_l by exact Hk. rewrite IH.
      assert (Hc : count_anon ((k, txt) :: pre) = count_anon pre).
      { unfold count_anon. cbn [filter fst]. destruct k; try discriminate; reflexivity. }
      rewrite Hc. destruct (subst_items pre ps j); [|reflexivity]. cbn [option_map].
      destruct (subst_items post ps (j + count_anon pre)); cbn [option_map]; [|reflexivity].
      rewrite app_assoc. reflexivity. }
    assert (Hanon : k = KAnon \/ k = KNamed ->
              subst_items ((k, txt) :: pre ++ post) ps i =
              match subst_items ((k, txt) :: pre) ps i with
              | Some o1 => option_map (app o1) (subst_items post ps (i + count_anon ((k, txt) :: pre)))
              | None => None
              end).
    { intros Hk.
      assert (Hc : count_anon ((k, txt) :: pre) = S (count_anon pre)).
      { unfold count_anon. cbn [filter fst]. destruct Hk; subst k; reflexivity. }
      rewrite Hc.
      assert (Hu : forall t, subst_items ((k, txt) :: t) ps i =
                 match nth_error ps i with
                 | Some v => match subst_items t ps (S i) with Some o => Some (emit v ++ o) | None => None end
                 | None => None end) by (intros t; destruct Hk; subst k; reflexivity).
      rewrite !Hu. destruct (nth_error ps i) as [v|]; [|reflexivity].
      rewrite IH. destruct (subst_items pre ps (S i)); [|reflexivity].
      replace (i + S (count_anon pre))%nat with (S i + count_anon pre)%nat by lia.
      destruct (subst_items post ps (S i + count_anon pre)); cbn [option_map]; [|reflexivity].
      rewrite app_assoc. reflexivity. }
    destruct k; try (apply Hnp; reflexivity); try (apply Hanon; solve [left; reflexivity | right; reflexivity]).
    (* KPos *)
    change (count_anon ((KPos n, txt) :: pre)) with (count_anon pre).
    cbn [subst_items].
    destruct (nth_error ps (Z.to_nat (n - 1))) as [v|]; [|reflexivity].
    rewrite IH. destruct (subst_items pre ps i); [|reflexivity].
    destruct (subst_items post ps (i + count_anon pre)); cbn [option_map]; [|reflexivity].
    rewrite app_assoc. reflexivity.
Qed.

(* the k-th anonymous (or named) placeholder receives the k-th bound value *)
Lemma anon_index_l :
  forall pre txt post ps out,
    subst_items (pre ++ (KAnon, txt) :: post) ps O = Some out ->
    exists o1 v o2,
      subst_items pre ps O = Some o1 /\
      nth_error ps (count_anon pre) = Some v /\
      subst_items post ps (S (count_anon pre)) = Some o2 /\
      out = o1 ++ emit v ++ o2.
Proof.
  intros pre txt post ps out E. rewrite subst_items_app in E.
  destruct (subst_items pre ps O) as [o1|]; [|discriminate]. cbn [Nat.add] in E.
  cbn [subst_items] in E.
  destruct (nth_error ps (count_anon pre)) as [v|]; [|discriminate].
  destruct (subst_items post ps (S (count_anon pre))) as [o2|]; [|discriminate].
  cbn [option_map] in E. inversion E. exists o1, v, o2. repeat split; reflexivity.
Qed.

(* $n receives the n-th bound value wherever it stands ($0 is read as $1), and does not advance
   the anonymous counter *)
Lemma pos_index_l :
  forall pre n txt post ps out,
    subst_items (pre ++ (KPos n, txt) :: post) ps O = Some out ->
    exists o1 v o2,
      subst_items pre ps O = Some o1 /\
      nth_error ps (Z.to_nat (n - 1)) = Some v /\
      subst_items post ps (count_anon pre) = Some o2 /\
      out = o1 ++ emit v ++ o2.
Proof.
  intros pre n txt post ps out E. rewrite subst_items_app in E.
  destruct (subst_items pre ps O) as [o1|]; [|discriminate]. cbn [Nat.add] in E.
  cbn [subst_items] in E.
  destruct (nth_error ps (Z.to_nat (n - 1))) as [v|]; [|discriminate].
  destruct (subst_items post ps (count_anon pre)) as [o2|]; [|discriminate].
  cbn [option_map] in E. inversion E. exists o1, v, o2. repeat split; reflexivity.
Qed.
