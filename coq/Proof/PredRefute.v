(* C14: (a) the witnesses of the thirteen findings repaired in /repo (known_findings.d/C14.json,
   status "fixed"; re-run on the real Database by every check) are computed correctly by the
   model; (b) non-vacuity examples.  All by computation.  (File name kept for history: it used to
   hold the refutations of the finding classes.) *)
From Coq Require Import ZArith List Bool.
From TV Require Import Model.SqlSpec Model.PredImpl Model.PredClass.
Import ListNotations.
Open Scope Z_scope.

(* t(id, c1 BIGINT, c2 DOUBLE, c3 TEXT) = (1, 1, 1.0, 'abc'), (2, 2, 2.5, 'b%d'), (3, NULL, NULL, NULL) *)
Definition T3 : table :=
  [ [VInt 1; VInt 1; VFloat 4607182418800017408; VText [97; 98; 99]];
    [VInt 2; VInt 2; VFloat 4612811918334230528; VText [98; 37; 100]];
    [VInt 3; VNull; VNull; VNull] ].
Definition c1_eq_1 : expr := ECmp CEq (ECol 1) (ELit (VInt 1)).

Definition where_right (sty : Z) (e : expr) (t : table) : Prop :=
  cls_where sty e t = 0 /\ defined_on e t = true /\
  model_where (parsed sty e) t = MOut (QRows (spec_rows e t)).
Definition select_right (sty : Z) (e : expr) (t : table) : Prop :=
  cls_select sty e t = 0 /\ defined_on e t = true /\
  model_select (parsed sty e) t = MOut (QVals (spec_vals e t)).

(* 13: t(id, c1, c2) = (1, 5, NULL), (2, 5, 1);  c1 NOT BETWEEN (c2 + 1) AND 0 is TRUE on both rows *)
Definition T13 : table := [[VInt 1; VInt 5; VNull]; [VInt 2; VInt 5; VInt 1]].
Definition e13 : expr := EBetween true (ECol 1) (EArith AAdd (ECol 2) (ELit (VInt 1))) (ELit (VInt 0)).

(* the witnesses of the repaired findings 1..13 *)
Lemma repaired_witnesses :
  where_right 0 (ENot c1_eq_1) T3 /\
  where_right 0 (ECmp CEq (ECol 1) (ELit VNull)) T3 /\
  where_right 0 (EIn false (ECol 1) [ELit (VInt 1); ELit VNull]) T3 /\
  where_right 0 (EIn true (ECol 1) [ELit (VInt 2); ELit VNull]) T3 /\
  where_right 0 (EIsNull false c1_eq_1) T3 /\
  select_right 0 c1_eq_1 T3 /\
  where_right 0 (ECmp CNe (ELit VNull) (ELit (VInt 1))) T3 /\
  where_right 0 (EAnd c1_eq_1 (ELit (VBool false))) T3 /\
  where_right 0 (ELike false (ECol 1) (ELit (VText [37; 97])))
    [[VInt 1; VText [37; 98; 97]]; [VInt 2; VText [98; 97]]] /\
  where_right 0 (EIn false (ECol 1) [ELit (VFloat 0)])
    [[VInt 1; VFloat 4352464011485697175]; [VInt 2; VFloat 0]] /\
  where_right 0 (ECmp CGt (ECol 1) (ELit (VInt (-9223372036854775808))))
    [[VInt 1; VInt 0]; [VInt 2; VInt (-5)]] /\
  where_right 1 (ENot c1_eq_1) T3 /\
  where_right 0 e13 T13 /\ spec_rows e13 T13 = [1; 1].
Proof. vm_compute. repeat split. Qed.

(* non-vacuity of the positive theorems: queries over NULLs, with NOT and negated forms, on which
   the reference returns something non-trivial *)
Definition good1 : expr :=
  EOr (EAnd (ECmp CGe (ECol 1) (ELit (VInt 1))) (ENot (ECmp CLt (ECol 2) (ELit (VFloat 4612811918334230528)))))
      (EIsNull false (ECmp CEq (ECol 3) (ELit (VText [97])))).
Definition good2 : expr :=
  EAnd (EBetween true (ECol 1) (ELit (VInt 2)) (ELit VNull))
       (EOr (ELike true (ECol 3) (ELit (VText [37; 100]))) (EIn true (ECol 2) [ELit (VInt 1); ELit VNull])).
Lemma good_examples :
  cls_where 0 good1 T3 = 0 /\ defined_on good1 T3 = true /\ spec_rows good1 T3 = [0; 1; 1] /\
  spec_vals good1 T3 = [0; 1; 1] /\
  cls_where 0 good2 T3 = 0 /\ defined_on good2 T3 = true /\ spec_rows good2 T3 = [1; 0; 0] /\
  spec_vals good2 T3 = [1; 2; 2].
Proof. vm_compute. repeat split. Qed.
