(* C10 proofs: the prefix scan of an ordered index equals the filter "key starts with the
   prefix"; on keys `encode(value) ++ row id` (C26's encoding) "starts with encode(c)" is exactly
   "value = c"; INSERT's maintenance keeps the index exact; an exact index answers a point query
   with precisely the row ids of the rows that hold the value.  Refutations: DELETE / UPDATE
   maintenance and the residual filter as coded (witnesses on Model/IndexTwin.v). *)
From Coq Require Import ZArith List Bool Lia ZifyBool Sorted.
From TV Require Import Lib.MachInt Model.SqlSpec Model.CheckStr Model.ConstrSpec Model.ConstrImpl
                       Model.KeySpec Model.Key Model.KeyKnown Proof.KeyBytes Proof.KeyProps Model.IndexTwin.
Import ListNotations.
Open Scope Z_scope.

(* ---------------------------------------------------------------- bytewise order facts *)
Lemma lex_cmp_refl k : lex_cmp k k = Eq.
Proof. induction k as [|x k IH]; [reflexivity|]. cbn [lex_cmp]. rewrite Z.compare_refl. exact IH. Qed.

Lemma starts_with_app p r : starts_with p (p ++ r) = true.
Proof. induction p as [|x p IH]; [reflexivity|]. cbn [app starts_with]. rewrite Z.eqb_refl. exact IH. Qed.

Lemma starts_with_split p k : starts_with p k = true -> exists r, k = p ++ r.
Proof.
  revert k. induction p as [|x p IH]; intros k H.
  - exists k. reflexivity.
  - destruct k as [|y k]; [discriminate|]. cbn [starts_with] in H.
    apply andb_true_iff in H. destruct H as [Hx Hk]. apply Z.eqb_eq in Hx. subst y.
    destruct (IH k Hk) as [r ->]. exists r. reflexivity.
Qed.

(* a key below the prefix does not start with it *)
Lemma below_no_prefix p : forall k, lex_cmp k p = Lt -> starts_with p k = false.
Proof.
  induction p as [|x p IH]; intros k H.
  - destruct k; discriminate.
  - destruct k as [|y k]; [reflexivity|]. cbn [lex_cmp] in H. cbn [starts_with].
    destruct (Z.compare_spec y x) as [E|L|G]; cbn [cthen] in H.
    + subst y. rewrite Z.eqb_refl. cbn [andb]. exact (IH k H).
    + assert (Hne : (x =? y) = false) by lia. rewrite Hne. reflexivity.
    + discriminate.
Qed.

(* a key that is not below the prefix and does not start with it: nothing after it starts with it *)
Lemma past_no_prefix p : forall k1 k2,
  lex_cmp k1 p <> Lt -> starts_with p k1 = false -> lex_cmp k1 k2 = Lt -> starts_with p k2 = false.
Proof.
  induction p as [|x p IH]; intros k1 k2 H1 H2 H3.
  - discriminate.
  - destruct k1 as [|y1 k1].
    + exfalso. apply H1. reflexivity.
    + destruct k2 as [|y2 k2]; [reflexivity|].
      cbn [lex_cmp] in H1, H3. cbn [starts_with] in H2 |- *.
      destruct (Z.compare_spec y1 x) as [E|L|G]; cbn [cthen] in H1.
      * subst y1. rewrite Z.eqb_refl in H2. cbn [andb] in H2.
        destruct (Z.compare_spec x y2) as [E2|L2|G2]; cbn [cthen] in H3.
        -- subst y2. rewrite Z.eqb_refl. cbn [andb]. exact (IH k1 k2 H1 H2 H3).
        -- assert (Hne : (x =? y2) = false) by lia. rewrite Hne. reflexivity.
        -- discriminate.
      * exfalso. apply H1. reflexivity.
      * destruct (Z.compare_spec y1 y2) as [E2|L2|G2]; cbn [cthen] in H3.
        -- subst y2. assert (Hne : (x =? y1) = false) by lia. rewrite Hne. reflexivity.
        -- assert (Hne : (x =? y2) = false) by lia. rewrite Hne. reflexivity.
        -- discriminate.
Qed.

(* ---------------------------------------------------------------- T1: prefix scan = filter *)
Definition key_lt (a b : list Z * Z) : Prop := lex_cmp (fst a) (fst b) = Lt.
Definition sorted (ix : sidx) : Prop := StronglySorted key_lt ix.

Lemma filter_none_after p e ix :
  StronglySorted key_lt (e :: ix) ->
  lex_cmp (fst e) p <> Lt -> starts_with p (fst e) = false ->
  filter (fun x => starts_with p (fst x)) ix = [].
Proof.
  intros S H1 H2. inversion S as [|? ? _ HF]; subst.
  induction ix as [|x ix IH]; [reflexivity|].
  inversion HF as [|? ? Hx HF']; subst. cbn [filter].
  rewrite (past_no_prefix p (fst e) (fst x) H1 H2 Hx). apply IH.
  - inversion S as [|? ? S' _]; subst. inversion S' as [|? ? S'' _]; subst.
    constructor; [exact S''|exact HF'].
  - exact HF'.
Qed.

Lemma take_prefix_is_filter p : forall ix,
  sorted ix -> (forall e, In e ix -> lex_cmp (fst e) p <> Lt) ->
  take_prefix p ix = filter (fun x => starts_with p (fst x)) ix.
Proof.
  induction ix as [|e ix IH]; intros S Hge; [reflexivity|].
  cbn [take_prefix filter]. destruct (starts_with p (fst e)) eqn:E.
  - f_equal. apply IH.
    + inversion S; assumption.
    + intros x Hx. apply Hge. right. exact Hx.
  - symmetry. apply (filter_none_after p e ix S); [apply Hge; left; reflexivity|exact E].
Qed.

Lemma lex_cmp_trans_lt a : forall b c, lex_cmp a b = Lt -> lex_cmp b c = Lt -> lex_cmp a c = Lt.
Proof.
  induction a as [|x a IH]; intros b c H1 H2.
  - destruct b; [discriminate|]. destruct c; [discriminate|reflexivity].
  - destruct b as [|y b]; [discriminate|]. destruct c as [|z c]; [discriminate|].
    cbn [lex_cmp] in *.
    destruct (Z.compare_spec x y) as [E|L|G]; cbn [cthen] in H1; try discriminate;
    destruct (Z.compare_spec y z) as [E2|L2|G2]; cbn [cthen] in H2; try discriminate.
    + subst. rewrite Z.compare_refl. cbn [cthen]. exact (IH b c H1 H2).
    + subst. assert (Hc : (y ?= z) = Lt) by (apply Z.compare_lt_iff; lia). rewrite Hc. reflexivity.
    + subst. assert (Hc : (x ?= z) = Lt) by (apply Z.compare_lt_iff; lia). rewrite Hc. reflexivity.
    + assert (Hc : (x ?= z) = Lt) by (apply Z.compare_lt_iff; lia). rewrite Hc. reflexivity.
Qed.

Lemma lex_cmp_lt_not_lt a b : lex_cmp a b = Lt -> lex_cmp b a <> Lt.
Proof.
  intros H1 H2. pose proof (lex_cmp_trans_lt a b a H1 H2) as H. rewrite lex_cmp_refl in H. discriminate.
Qed.

Theorem scan_prefix_is_filter_l p : forall ix,
  sorted ix -> scan_prefix p ix = filter (fun x => starts_with p (fst x)) ix.
Proof.
  unfold scan_prefix. induction ix as [|e ix IH]; intros S; [reflexivity|].
  cbn [drop_below filter]. destruct (lex_cmp (fst e) p) eqn:E.
  - apply (take_prefix_is_filter p (e :: ix) S).
    intros x [<-|Hx]; [rewrite E; discriminate|].
    inversion S as [|? ? _ HF]; subst. rewrite Forall_forall in HF. specialize (HF x Hx).
    intros Hlt. unfold key_lt in HF.
    pose proof (lex_cmp_trans_lt _ _ _ HF Hlt) as H. rewrite E in H. discriminate.
  - rewrite (below_no_prefix p (fst e) E). apply IH. inversion S; assumption.
  - apply (take_prefix_is_filter p (e :: ix) S).
    intros x [<-|Hx]; [rewrite E; discriminate|].
    inversion S as [|? ? _ HF]; subst. rewrite Forall_forall in HF. specialize (HF x Hx).
    intros Hlt. unfold key_lt in HF.
    pose proof (lex_cmp_trans_lt _ _ _ HF Hlt) as H. rewrite E in H. discriminate.
Qed.

(* ---------------------------------------------------------------- T2: the prefix of a point query *)
Definition int_ok (v : value) : bool := match v with VInt z => in_s 64 z | _ => false end.

Lemma good_int z : in_s 64 z = true -> good (KS (SInt z)) = true.
Proof. intros H. unfold good. cbn [kwf swf]. rewrite H. reflexivity. Qed.

(* C26 (enc_prefix_free): no key is a proper prefix of another, equal keys mean equal values *)
Theorem eq_prefix_correct_l v c r :
  in_s 64 v = true -> in_s 64 c = true ->
  starts_with (kenc (VInt c)) (kenc (VInt v) ++ r) = (v =? c).
Proof.
  intros Hv Hc. cbn [kenc]. destruct (v =? c) eqn:E.
  - apply Z.eqb_eq in E. subst v. apply starts_with_app.
  - destruct (starts_with (enc (KS (SInt c))) (enc (KS (SInt v)) ++ r)) eqn:S; [|reflexivity].
    destruct (starts_with_split _ _ S) as [r' Hr].
    destruct (enc_prefix_free_l (KS (SInt v)) (KS (SInt c)) r r' (good_int v Hv) (good_int c Hc) Hr) as [Hcanon _].
    cbn [canon scanon] in Hcanon. injection Hcanon as Heq. lia.
Qed.

(* a NULL in the indexed column has its own key prefix: never found by an integer point query *)
Lemma null_prefix_differs c r : in_s 64 c = true -> starts_with (kenc (VInt c)) (kenc VNull ++ r) = false.
Proof.
  intros Hc. cbn [kenc].
  destruct (starts_with (enc (KS (SInt c))) (enc (KS SNull) ++ r)) eqn:S; [|reflexivity].
  destruct (starts_with_split _ _ S) as [r' Hr].
  assert (Gn : good (KS SNull) = true) by reflexivity.
  destruct (enc_prefix_free_l (KS SNull) (KS (SInt c)) r r' Gn (good_int c Hc) Hr) as [Hcanon _].
  discriminate.
Qed.

(* ---------------------------------------------------------------- T3: maintenance by INSERT *)
Lemma sidx_ins_in k v ix e :
  In e (sidx_ins k v ix) -> e = (k, v) \/ In e ix.
Proof.
  induction ix as [|[k' v'] ix IH]; cbn [sidx_ins].
  - intros [<-|[]]. left. reflexivity.
  - destruct (lex_cmp k k').
    + intros H. right. exact H.
    + intros [<-|H]; [left; reflexivity|right; exact H].
    + intros [<-|H]; [right; left; reflexivity|].
      destruct (IH H) as [->|H']; [left; reflexivity|right; right; exact H'].
Qed.

Lemma sidx_ins_keeps k v ix e : In e ix -> In e (sidx_ins k v ix).
Proof.
  induction ix as [|[k' v'] ix IH]; [intros []|]. cbn [sidx_ins]. intros H.
  destruct (lex_cmp k k'); [exact H|right; exact H|].
  destruct H as [<-|H]; [left; reflexivity|right; exact (IH H)].
Qed.

Lemma sidx_ins_new k v ix :
  (forall e, In e ix -> lex_cmp k (fst e) <> Eq) -> In (k, v) (sidx_ins k v ix).
Proof.
  induction ix as [|[k' v'] ix IH]; intros H; [left; reflexivity|]. cbn [sidx_ins].
  destruct (lex_cmp k k') eqn:E.
  - exfalso. apply (H (k', v')); [left; reflexivity|exact E].
  - left. reflexivity.
  - right. apply IH. intros e He. apply H. right. exact He.
Qed.

Lemma lex_cmp_gt_lt a : forall b, lex_cmp a b = Gt -> lex_cmp b a = Lt.
Proof.
  induction a as [|x a IH]; intros b H.
  - destruct b; discriminate.
  - destruct b as [|y b]; [reflexivity|]. cbn [lex_cmp] in *.
    destruct (Z.compare_spec x y) as [E|L|G]; cbn [cthen] in H; try discriminate.
    + subst. rewrite Z.compare_refl. cbn [cthen]. exact (IH b H).
    + assert (Hc : (y ?= x) = Lt) by (apply Z.compare_lt_iff; lia). rewrite Hc. reflexivity.
Qed.

Lemma sidx_ins_sorted k v : forall ix, sorted ix -> sorted (sidx_ins k v ix).
Proof.
  induction ix as [|[k' v'] ix IH]; intros S.
  - constructor; constructor.
  - cbn [sidx_ins]. destruct (lex_cmp k k') eqn:E.
    + exact S.
    + constructor; [exact S|]. constructor; [exact E|].
      inversion S as [|? ? _ HF]; subst. rewrite Forall_forall in HF |- *. intros x Hx.
      unfold key_lt in *. cbn [fst] in *. exact (lex_cmp_trans_lt _ _ _ E (HF x Hx)).
    + inversion S as [|? ? S' HF]; subst. constructor; [exact (IH S')|].
      rewrite Forall_forall in HF |- *. intros x Hx.
      destruct (sidx_ins_in _ _ _ _ Hx) as [->|Hx']; [|exact (HF x Hx')].
      unfold key_lt. cbn [fst]. exact (lex_cmp_gt_lt _ _ E).
Qed.

(* ---------------------------------------------------------------- T4: an exact index answers point queries *)
(* the single-column index ix1 ON t(x1) over the entries es: sorted, and its entries are exactly
   (encode(x1 of the row) ++ row id, row id) for the rows of es *)
Definition exact1 (ix : sidx) (es : list entry) : Prop :=
  sorted ix /\
  forall k v, In (k, v) ix <-> exists e, In e es /\ k = kenc (col_val 1 (e_row e)) ++ rid8 (e_id e) /\ v = e_id e.
Definition rows_wf (es : list entry) : Prop :=
  forall e, In e es -> 0 <= e_id e < 2 ^ 64 /\
                       (col_val 1 (e_row e) = VNull \/ exists z, col_val 1 (e_row e) = VInt z /\ in_s 64 z = true).

Lemma from_be_be8 k : 0 <= k < 2 ^ 64 -> from_be (be_bytes 8 k) = k.
Proof.
  intros H. apply from_be_be_bytes. change (256 ^ Z.of_nat 8) with (2 ^ 64). exact H.
Qed.

Lemma key_rid_suffix p k : 0 <= k < 2 ^ 64 -> key_rid (p ++ rid8 k) = Some k.
Proof.
  intros H. unfold key_rid, rid8.
  assert (L : length (be_bytes 8 k) = 8%nat) by reflexivity.
  rewrite app_length, L.
  assert (E : (length p + 8 <? 8)%nat = false) by (apply Nat.ltb_ge; lia). rewrite E.
  replace (length p + 8 - 8)%nat with (length p) by lia.
  rewrite skipn_app, skipn_all, Nat.sub_diag. cbn [app skipn]. rewrite (from_be_be8 k H). reflexivity.
Qed.

(* the row ids a point query x1 = c reads from an exact index: exactly the ids of the rows with x1 = c *)
Theorem exact_index_point_query_l ix es c :
  exact1 ix es -> rows_wf es -> in_s 64 c = true ->
  forall k, In k (flat_map (fun e => match key_rid (fst e) with Some k => [k] | None => [] end)
                           (scan_prefix (kenc (VInt c)) ix))
            <-> exists e, In e es /\ e_id e = k /\ col_val 1 (e_row e) = VInt c.
Proof.
  intros [S Hex] Hwf Hc k. rewrite (scan_prefix_is_filter_l _ ix S). rewrite in_flat_map. split.
  - intros [[key v] [Hin Hk]]. apply filter_In in Hin. destruct Hin as [Hin Hst]. cbn [fst] in *.
    apply Hex in Hin. destruct Hin as [e [He [-> ->]]].
    destruct (Hwf e He) as [Hid Hv].
    rewrite (key_rid_suffix _ _ Hid) in Hk. destruct Hk as [<-|[]].
    exists e. split; [exact He|]. split; [reflexivity|].
    destruct Hv as [Hn|[z [Hz Hzs]]].
    + rewrite Hn in Hst. rewrite (null_prefix_differs c _ Hc) in Hst. discriminate.
    + rewrite Hz in Hst |- *. rewrite (eq_prefix_correct_l z c _ Hzs Hc) in Hst.
      apply Z.eqb_eq in Hst. subst z. reflexivity.
  - intros [e [He [<- Hv]]]. destruct (Hwf e He) as [Hid _].
    exists (kenc (col_val 1 (e_row e)) ++ rid8 (e_id e), e_id e). split.
    + apply filter_In. split.
      * apply Hex. exists e. repeat split. exact He.
      * cbn [fst]. rewrite Hv. apply starts_with_app.
    + cbn [fst]. rewrite (key_rid_suffix _ _ Hid). left. reflexivity.
Qed.

(* INSERT keeps the index exact (the new row id is fresh) *)
Lemma lex_cmp_eq a : forall b, lex_cmp a b = Eq -> a = b.
Proof.
  induction a as [|x a IH]; intros b H.
  - destruct b; [reflexivity|discriminate].
  - destruct b as [|y b]; [discriminate|]. cbn [lex_cmp] in H.
    destruct (Z.compare_spec x y) as [E|L|G]; cbn [cthen] in H; try discriminate.
    subst. f_equal. exact (IH b H).
Qed.

Lemma rid8_inj a b : 0 <= a < 2 ^ 64 -> 0 <= b < 2 ^ 64 -> rid8 a = rid8 b -> a = b.
Proof.
  intros Ha Hb E. rewrite <- (from_be_be8 a Ha), <- (from_be_be8 b Hb). unfold rid8 in E. rewrite E. reflexivity.
Qed.

Theorem insert_keeps_exact_l ix es r rid :
  exact1 ix es -> rows_wf es -> 0 <= rid < 2 ^ 64 ->
  (forall e, In e es -> e_id e <> rid) ->
  (col_val 1 r = VNull \/ exists z, col_val 1 r = VInt z /\ in_s 64 z = true) ->
  exact1 (ins_six r rid 0 ix) (es ++ [mkEnt rid false r]).
Proof.
  intros [S Hex] Hwf Hrid Hfresh Hv. unfold ins_six. cbn [slot_cols ktuple flat_map]. rewrite app_nil_r.
  split; [apply sidx_ins_sorted; exact S|].
  assert (Hnew : forall e, In e ix -> lex_cmp (kenc (col_val 1 r) ++ rid8 rid) (fst e) <> Eq).
  { intros [k v] Hin Heq. cbn [fst] in Heq. apply lex_cmp_eq in Heq. subst k.
    apply Hex in Hin. destruct Hin as [e [He [Hk _]]].
    (* equal keys: equal encodings of the values (prefix-freeness), hence equal row-id suffixes *)
    destruct (Hwf e He) as [Hid Hve].
    assert (Gr : good (match col_val 1 r with VInt z => KS (SInt z) | _ => KS SNull end) = true).
    { destruct Hv as [->|[z [-> Hz]]]; [reflexivity|exact (good_int z Hz)]. }
    assert (Ge : good (match col_val 1 (e_row e) with VInt z => KS (SInt z) | _ => KS SNull end) = true).
    { destruct Hve as [->|[z [-> Hz]]]; [reflexivity|exact (good_int z Hz)]. }
    assert (Kr : kenc (col_val 1 r) = enc (match col_val 1 r with VInt z => KS (SInt z) | _ => KS SNull end)).
    { destruct Hv as [->|[z [-> _]]]; reflexivity. }
    assert (Ke : kenc (col_val 1 (e_row e)) = enc (match col_val 1 (e_row e) with VInt z => KS (SInt z) | _ => KS SNull end)).
    { destruct Hve as [->|[z [-> _]]]; reflexivity. }
    rewrite Kr, Ke in Hk.
    destruct (enc_prefix_free_l _ _ _ _ Gr Ge Hk) as [_ [_ Hs]].
    apply (Hfresh e He). symmetry. apply (rid8_inj _ _ Hrid Hid Hs). }
  intros k v. split.
  - intros Hin. destruct (sidx_ins_in _ _ _ _ Hin) as [E|Hin'].
    + injection E as -> ->. exists (mkEnt rid false r). split; [apply in_or_app; right; left; reflexivity|].
      split; reflexivity.
    + apply Hex in Hin'. destruct Hin' as [e [He Hkv]]. exists e. split; [apply in_or_app; left; exact He|exact Hkv].
  - intros [e [He [-> ->]]]. apply in_app_or in He. destruct He as [He|[<-|[]]].
    + apply sidx_ins_keeps. apply Hex. exists e. repeat split. exact He.
    + cbn [e_row e_id]. apply sidx_ins_new. exact Hnew.
Qed.

(* ---------------------------------------------------------------- refutations (the code as it is) *)
Definition run_a (h : list tstmt) : astate := fold_left (fun a s => snd (step_a a s)) h a_empty.
Definition run_b (h : list tstmt) : dstate := fold_left (fun b s => snd (step_b b s)) h b_empty.
Definition q15 : expr := ECmp CEq (ECol 1) (ELit (VInt 5)).

(* the residual filter forgets x1 > 7: class 3 (open) *)
Lemma index_refuted_residual :
  let h := [TCreate 0; TIns [VInt 1; VInt 5; VInt 1]] in
  let q := EAnd q15 (ECmp CGt (ECol 1) (ELit (VInt 7))) in
  query_a (run_a h) q = [[VInt 1; VInt 5; VInt 1]] /\ query_b (run_b h) q = [] /\ q_class (run_a h) q = 3.
Proof. vm_compute. repeat split. Qed.

(* CREATE INDEX back-fills the tombstone a DELETE left behind, the scan does not look at the delete
   bit of the rows it fetches and returns the deleted row: class 1 (open) *)
Lemma index_refuted_backfill_tomb :
  let h := [TIns [VInt 1; VInt 5; VInt 1]; TDel (Some (ECmp CEq (ECol 0) (ELit (VInt 1)))); TCreate 0] in
  query_a (run_a h) q15 = [[VInt 1; VInt 5; VInt 1]] /\ query_b (run_b h) q15 = [] /\ q_class (run_a h) q15 = 1.
Proof. vm_compute. repeat split. Qed.

(* ---------------------------------------------------------------- repaired (653471d, f7aa3d3, 772f5ce) *)
(* DELETE removes the index entry (key with the row-id suffix): the former class-1 witness *)
Lemma index_repaired_delete :
  let h := [TCreate 0; TIns [VInt 1; VInt 5; VInt 1]; TDel (Some (ECmp CEq (ECol 0) (ELit (VInt 1))))] in
  query_a (run_a h) q15 = [] /\ query_b (run_b h) q15 = [] /\ q_class (run_a h) q15 = 0.
Proof. vm_compute. repeat split. Qed.
(* UPDATE of the indexed column moves the entry, on the multi-pass path and on the former one-pass
   path (WHERE pk = literal) alike: the former class-2 witnesses *)
Lemma index_repaired_update :
  (let h := [TCreate 0; TIns [VInt 1; VInt 5; VInt 1];
             TUpd [(1%nat, VInt 6)] (Some (ECmp CEq (ECol 2) (ELit (VInt 1))))] in
   query_a (run_a h) q15 = [] /\ query_b (run_b h) q15 = [] /\ q_class (run_a h) q15 = 0 /\
   query_a (run_a h) (ECmp CEq (ECol 1) (ELit (VInt 6))) = [[VInt 1; VInt 6; VInt 1]] /\
   query_b (run_b h) (ECmp CEq (ECol 1) (ELit (VInt 6))) = [[VInt 1; VInt 6; VInt 1]]) /\
  (let h := [TCreate 0; TIns [VInt 1; VInt 5; VInt 1];
             TUpd [(1%nat, VInt 6)] (Some (ECmp CEq (ECol 0) (ELit (VInt 1))))] in
   query_a (run_a h) q15 = [] /\ query_b (run_b h) q15 = [] /\
   query_a (run_a h) (ECmp CEq (ECol 1) (ELit (VInt 6))) = [[VInt 1; VInt 6; VInt 1]] /\
   query_b (run_b h) (ECmp CEq (ECol 1) (ELit (VInt 6))) = [[VInt 1; VInt 6; VInt 1]]).
Proof. vm_compute. repeat split. Qed.
(* CREATE INDEX back-fills rows with a NULL in another indexed column: the former class-4 witness *)
Lemma index_repaired_backfill :
  let h := [TIns [VInt 1; VNull; VInt 2]; TCreate 1] in
  let q := ECmp CEq (ECol 2) (ELit (VInt 2)) in
  query_a (run_a h) q = [[VInt 1; VNull; VInt 2]] /\ query_b (run_b h) q = [[VInt 1; VNull; VInt 2]] /\ q_class (run_a h) q = 0.
Proof. vm_compute. repeat split. Qed.
