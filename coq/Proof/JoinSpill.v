(* C17 proofs, part 2: spilling is transparent.  A partition written to PartitionSpiller and
   read back (C33: Model/RowSerde.v spiller_read, Proof/RowSerde.v) is the partition itself, for
   every byte budget, provided the rows are well-formed spill rows (i64 / f64 patterns / valid
   UTF-8 below 2^32 bytes / fewer than 2^16 columns, no NaN with a non-canonical payload).
   Hence the grace hash join with a spill directory returns, for every memory budget, the SQL
   join (Proof/JoinExec.v). *)
From Coq Require Import ZArith List Bool Lia Permutation.
From TV Require Lib.MachInt Model.RowSerde Proof.RowSerde.
From TV Require Import Model.SqlSpec Model.JoinSpec Model.JoinExec Proof.JoinBag Proof.JoinExec.
Import ListNotations.
Open Scope Z_scope.

(* the values a spill file keeps bit for bit *)
Definition sval_ok (v : value) : bool :=
  match v with
  | VNull => true
  | VInt z => MachInt.in_s 64 z
  | VFloat b => MachInt.in_u 64 b && (negb (Model.RowSerde.f64_is_nan b) || (b =? Model.RowSerde.F64_CANON_NAN))
  | VText s => MachInt.bytes_ok s && Model.RowSerde.utf8_valid s && (MachInt.blen s <? 2 ^ 32)
  | VBool _ => false
  end.
Definition srow_ok (r : hrow) : bool := forallb sval_ok (fst r) && (Z.of_nat (length (fst r)) <? 2 ^ 16).

Lemma to_sv_wf v : sval_ok v = true -> Model.RowSerde.value_wf (to_sv v) = true /\ Model.RowSerde.value_exact (to_sv v) = true.
Proof.
  destruct v as [|z|b|s|b]; cbn [sval_ok to_sv]; intros H; try discriminate;
    unfold Model.RowSerde.value_wf; cbn [Model.RowSerde.value_typed Model.RowSerde.value_fits Model.RowSerde.value_exact].
  - split; reflexivity.
  - rewrite H. split; reflexivity.
  - apply andb_true_iff in H. destruct H as [H1 H2]. rewrite H1, H2. split; reflexivity.
  - apply andb_true_iff in H. destruct H as [H H3]. apply andb_true_iff in H. destruct H as [H1 H2].
    rewrite H1, H2, H3. split; reflexivity.
Qed.

Lemma of_to_sv v : sval_ok v = true -> of_sv (to_sv v) = Some v.
Proof. destruct v; cbn; intros H; try reflexivity; discriminate. Qed.

Lemma of_to_sv_row r : forallb sval_ok r = true -> of_sv_row (map to_sv r) = Some r.
Proof.
  induction r as [|v r IH]; intros H; [reflexivity|].
  cbn [forallb] in H. apply andb_true_iff in H. destruct H as [Hv Hr].
  cbn [map of_sv_row]. rewrite (of_to_sv v Hv), (IH Hr). reflexivity.
Qed.

Lemma row_wf_exact r : srow_ok r = true ->
  Model.RowSerde.row_wf (map to_sv (fst r)) = true /\ forallb Model.RowSerde.value_exact (map to_sv (fst r)) = true.
Proof.
  unfold srow_ok, Model.RowSerde.row_wf. intros H. apply andb_true_iff in H. destruct H as [Hv Hl].
  rewrite map_length, Hl, andb_true_r.
  induction (fst r) as [|v t IH]; [split; reflexivity|].
  cbn [forallb] in Hv. apply andb_true_iff in Hv. destruct Hv as [H1 H2].
  cbn [map forallb]. destruct (to_sv_wf v H1) as [W E]. rewrite W, E.
  cbn [length] in Hl. destruct IH as [IW IE]; [exact H2|lia|]. rewrite IW, IE. split; reflexivity.
Qed.

Lemma rows_wf rows : forallb srow_ok rows = true ->
  forallb Model.RowSerde.row_wf (map (fun x : hrow => map to_sv (fst x)) rows) = true /\
  map (map Model.RowSerde.canon_value) (map (fun x : hrow => map to_sv (fst x)) rows) = map (fun x : hrow => map to_sv (fst x)) rows.
Proof.
  induction rows as [|r rows IH]; intros H; [split; reflexivity|].
  cbn [forallb] in H. apply andb_true_iff in H. destruct H as [Hr Hrs].
  destruct (row_wf_exact r Hr) as [W E]. destruct (IH Hrs) as [IW IE].
  cbn [map forallb]. rewrite W, IW, IE, (Proof.RowSerde.canon_row_exact _ E). split; reflexivity.
Qed.

Lemma rezip_id rows : forallb srow_ok rows = true ->
  rezip (map (fun x : hrow => map to_sv (fst x)) rows) rows = Some rows.
Proof.
  induction rows as [|r rows IH]; intros H; [reflexivity|].
  cbn [forallb] in H. apply andb_true_iff in H. destruct H as [Hr Hrs].
  cbn [map rezip]. unfold srow_ok in Hr. apply andb_true_iff in Hr. destruct Hr as [Hv _].
  rewrite (of_to_sv_row _ Hv), (IH Hrs). destruct r; reflexivity.
Qed.

(* whatever the budget, the partition store hands back the rows it was given *)
Theorem spill_rows_id_l : forall budget rows, forallb srow_ok rows = true -> spill_rows budget rows = Some rows.
Proof.
  intros budget rows H. unfold spill_rows.
  destruct (rows_wf rows H) as [W E].
  pose proof (rezip_id rows H) as Z0.
  set (rs := map (fun x : hrow => map to_sv (fst x)) rows) in *.
  assert (Model.RowSerde.spiller_read budget rs = Some rs) as S.
  { unfold Model.RowSerde.spiller_read. destruct (Model.RowSerde.spiller_spilled budget rs); [|reflexivity].
    pose proof (Proof.RowSerde.deser_ser_rows_l rs [] W) as D. rewrite app_nil_r in D. rewrite D, E. reflexivity. }
  change (match Model.RowSerde.spiller_read budget rs with Some out => rezip out rows | None => None end = Some rows).
  rewrite S. exact Z0.
Qed.

Lemma forallb_filter {X} (p q : X -> bool) l : forallb p l = true -> forallb p (filter q l) = true.
Proof.
  induction l as [|x l IH]; intros H; [reflexivity|].
  cbn [forallb] in H. apply andb_true_iff in H. destruct H as [H1 H2].
  cbn [filter]. destruct (q x); cbn [forallb]; [rewrite H1|]; apply IH; exact H2.
Qed.

(* grace_run does not see the difference between two stores that agree on the partitions *)
Lemma grace_run_store {A B C} (both : A -> B -> C) lonly ronly jt hl hr km n (s1 s1' : list A -> option (list A)) (s2 s2' : list B -> option (list B)) ps L R :
  (forall p, s1 (filter (fun l => in_part n p (hl l)) L) = s1' (filter (fun l => in_part n p (hl l)) L)) ->
  (forall p, s2 (filter (fun r => in_part n p (hr r)) R) = s2' (filter (fun r => in_part n p (hr r)) R)) ->
  grace_run both lonly ronly jt hl hr km n s1 s2 ps L R = grace_run both lonly ronly jt hl hr km n s1' s2' ps L R.
Proof.
  intros H1 H2. induction ps as [|p ps IH]; cbn [grace_run]; [reflexivity|].
  rewrite H1, H2, IH. reflexivity.
Qed.

(* The dynamic grace hash join on SQL rows: with a spill directory and ANY memory budget it
   emits what it emits in memory *)
Theorem grace_spill_transparent_l : forall jt n lk rk lw rw budget sw (L R : list hrow),
  forallb srow_ok L = true -> forallb srow_ok R = true ->
  exec_model AGraceDyn jt n (Some budget) sw lk rk lw rw L R = exec_model AGraceDyn jt n None sw lk rk lw rw L R.
Proof.
  intros jt n lk rk lw rw budget sw L R HL HR. unfold exec_model.
  destruct (n <=? 0); [reflexivity|]. unfold grace_exec.
  rewrite (grace_run_store _ _ _ _ _ _ _ _ (store (Some budget) n) (store None n) (store (Some budget) n) (store None n)); [reflexivity| |];
    intros p; unfold store; apply spill_rows_id_l; apply forallb_filter; assumption.
Qed.

(* ... and that is the SQL join under keys_match_static, as a bag, whenever the hash respects the match *)
Theorem grace_dyn_is_join_l : forall jt n lk rk lw rw spill sw (L R : list hrow),
  0 < n ->
  (forall l r : hrow, keys_match_static (fst l) (fst r) lk rk = true -> snd l = snd r) ->
  (spill = None \/ (forallb srow_ok L = true /\ forallb srow_ok R = true)) ->
  exists t, exec_model AGraceDyn jt n spill sw lk rk lw rw L R = XRows t /\
            Permutation t (join_rows jt lw rw (fun l r => keys_match_static l r lk rk) (map fst L) (map fst R)).
Proof.
  intros jt n lk rk lw rw spill sw L R Hn Hresp Hs.
  assert (exec_model AGraceDyn jt n spill sw lk rk lw rw L R = exec_model AGraceDyn jt n None sw lk rk lw rw L R) as E.
  { destruct spill as [b|]; [|reflexivity]. destruct Hs as [Hs|[HL HR]]; [discriminate|]. apply grace_spill_transparent_l; assumption. }
  rewrite E. unfold exec_model. destruct (Z.leb_spec n 0) as [Hle|_]; [lia|].
  destruct (grace_exec_spec_l hrow hrow row cat_lr (fun l : hrow => fst l ++ nulls rw) (fun r : hrow => nulls lw ++ fst r) jt
              snd snd (fun l r => keys_match_static (fst l) (fst r) lk rk) n Hn Hresp L R) as [out [Ho Hp]].
  unfold grace_exec in *.
  rewrite (grace_run_store _ _ _ _ _ _ _ _ (store None n) Some (store None n) Some) by (intros; reflexivity).
  rewrite Ho. exists out. split; [reflexivity|].
  eapply Permutation_trans; [exact Hp|].
  (* the join over (row, hash) pairs is the join over the rows *)
  unfold join_rows, join_g, inner_part, left_part, right_part, cat_lr.
  assert (forall (f : hrow -> bool) (g : row -> bool) (X : list hrow), (forall x, f x = g (fst x)) -> map fst (filter f X) = filter g (map fst X)) as MF.
  { intros f g X Hfg. induction X as [|x X IH]; [reflexivity|]. cbn [filter map]. rewrite <- Hfg. destruct (f x); cbn [map]; rewrite IH; reflexivity. }
  assert (forall (f : hrow -> bool) (g : row -> bool) (X : list hrow), (forall x, f x = g (fst x)) -> existsb f X = existsb g (map fst X)) as EF.
  { intros f g X Hfg. induction X as [|x X IH]; [reflexivity|]. cbn [existsb map]. rewrite <- Hfg, IH. reflexivity. }
  apply Permutation_app; [|apply Permutation_app].
  - rewrite flat_map_concat_map, (flat_map_concat_map _ (map fst L)), map_map.
    erewrite map_ext; [apply Permutation_refl|]. intros l. cbn beta.
    rewrite <- (MF (fun r : hrow => keys_match_static (fst l) (fst r) lk rk) (fun r => keys_match_static (fst l) r lk rk) R (fun _ => eq_refl)).
    rewrite map_map. reflexivity.
  - destruct (left_outer jt); [|constructor].
    rewrite <- (MF (fun l : hrow => negb (existsb (fun r : hrow => keys_match_static (fst l) (fst r) lk rk) R))
                   (fun l => negb (existsb (fun r => keys_match_static l r lk rk) (map fst R))) L).
    + rewrite map_map. apply Permutation_refl.
    + intros l. f_equal. apply EF. reflexivity.
  - destruct (right_outer jt); [|constructor].
    rewrite <- (MF (fun r : hrow => negb (existsb (fun l : hrow => keys_match_static (fst l) (fst r) lk rk) L))
                   (fun r => negb (existsb (fun l => keys_match_static l r lk rk) (map fst L))) R).
    + rewrite map_map. apply Permutation_refl.
    + intros r. f_equal. apply EF. reflexivity.
Qed.
