(* C02 - Crash recovery yields a prefix-consistent database.
   Property theorems only, about the protocol model Model/Crash.v (see Props/C01.v) and the
   two recovery paths of Model/RecPaths.v.  Page level; every workload, every crash position. *)
From Coq Require Import ZArith List Bool.
From TV Require Import Model.Crash Model.RecPaths Proof.CrashBase Proof.CrashStep Proof.CrashRun Proof.CrashMain
                       Proof.CrashAtomic Proof.CrashRefute Proof.RecPaths.
Import ListNotations.
Open Scope Z_scope.

(* process kill: at every crash position where no dirty page is waiting for the log, what
   Database::open reconstructs is the live state of all data files at that instant - the state
   after a prefix of the submitted operations, with the current statement's in-place phase either
   not begun or finished (the tracker is non-empty in between) *)
Theorem kill_prefix_exact :
  forall os, wf_run init os = true ->
  forall i n, quiet (at_pos os i n) = true ->
  forall k, r_pages (recover Kill (at_pos os i n)) k = vol (at_pos os i n) k.
Proof. exact kill_quiet_exact_l. Qed.

(* power loss: the recoverable pages always equal the ghost view ... *)
Theorem power_view_c02 :
  forall os, wf_run init os = true ->
  forall i n k, kmem k (g_unl (ghost_at os i n)) = false ->
  r_pages (recover Power (at_pos os i n)) k = g_view (ghost_at os i n) k.
Proof. exact power_view_l. Qed.

(* ... and the view moves at one instant per statement / per COMMIT: at every position inside an
   autocommit statement or a COMMIT it is the view before the operation or the view after it *)
Theorem power_statement_atomic :
  forall os i t marks body post, nth_error os i = Some (ODml t marks body post) ->
  forall n, g_view (ghost_at os i n) = g_view (ghost_at os i 0)
         \/ g_view (ghost_at os i n) = g_view (ghost_at os (S i) 0).
Proof. exact power_statement_atomic_l. Qed.

Theorem power_commit_atomic :
  forall os i ord, nth_error os i = Some (OCommit ord) ->
  forall n, (forall k, g_view (ghost_at os i n) k = g_view (ghost_at os i 0) k)
         \/ (forall k, g_view (ghost_at os i n) k = g_view (ghost_at os (S i) 0) k).
Proof. exact power_commit_atomic_l. Qed.

(* where it fails: a kill while pages are dirty leaves the in-place stores of the unfinished
   statement / transaction in the files (there is no undo): torn between two pages here *)
Theorem kill_torn_refuted :
  exists os i n, wf_run init os = true
    /\ quiet (at_pos os i n) = false
    /\ r_pages (recover Kill (at_pos os i n)) (1, 1) = Some 7
    /\ r_pages (recover Kill (at_pos os i n)) (1, 2) = None
    /\ r_pages (recover Kill (at_pos os i 0)) (1, 1) = Some 5.
Proof. exact kill_torn_refuted_l. Qed.

(* the automatic and the streaming recovery path agree on every log without undo frames
   (the unchanged tree never writes one) and differ on a log that has one *)
Theorem recovery_paths_agree :
  forall tables log m, redo_only log = true -> auto_recover tables log m = streaming_recover tables log m.
Proof. exact recovery_paths_agree_l. Qed.

Theorem recovery_paths_differ :
  exists tables log m k, auto_recover tables log m k <> streaming_recover tables log m k.
Proof. exact recovery_paths_differ_l. Qed.

(* non-vacuity: inside the autocommit statement 2 of this workload the view is the old one before
   the sync (position 4: page (1,1) = 5) and the new one after it (position 5: 7), and both
   recovery paths replay a two-frame log the same way *)
Definition demo2 : list op :=
  [OCreate 1 1 2 3 2;
   ODml 1 [(1, 1)] [BStore 1 0 4; BStore 1 1 5; BStore 101 1 6] [];
   ODml 1 [(1, 1)] [BStore 1 1 7] []].

Example c02_witness :
  wf_run init demo2 = true
  /\ g_view (ghost_at demo2 2 4) (1, 1) = Some 5 /\ r_pages (recover Power (at_pos demo2 2 4)) (1, 1) = Some 5
  /\ g_view (ghost_at demo2 2 5) (1, 1) = Some 7 /\ r_pages (recover Power (at_pos demo2 2 5)) (1, 1) = Some 7
  /\ quiet (at_pos demo2 2 2) = false /\ quiet (at_pos demo2 2 4) = true
  /\ redo_only [WRedo 1 1 (Some 5); WRedo 1 1 (Some 7)] = true
  /\ auto_recover [1] [WRedo 1 1 (Some 5); WRedo 1 1 (Some 7)] pempty (1, 1) = Some 7.
Proof. vm_compute. repeat split; reflexivity. Qed.

Check kill_prefix_exact : forall os, wf_run init os = true -> forall i n, quiet (at_pos os i n) = true -> forall k, r_pages (recover Kill (at_pos os i n)) k = vol (at_pos os i n) k.
Check power_view_c02 : forall os, wf_run init os = true -> forall i n k, kmem k (g_unl (ghost_at os i n)) = false -> r_pages (recover Power (at_pos os i n)) k = g_view (ghost_at os i n) k.
Check power_statement_atomic : forall os i t marks body post, nth_error os i = Some (ODml t marks body post) -> forall n, g_view (ghost_at os i n) = g_view (ghost_at os i 0) \/ g_view (ghost_at os i n) = g_view (ghost_at os (S i) 0).
Check power_commit_atomic : forall os i ord, nth_error os i = Some (OCommit ord) -> forall n, (forall k, g_view (ghost_at os i n) k = g_view (ghost_at os i 0) k) \/ (forall k, g_view (ghost_at os i n) k = g_view (ghost_at os (S i) 0) k).
Check kill_torn_refuted : exists os i n, wf_run init os = true /\ quiet (at_pos os i n) = false /\ r_pages (recover Kill (at_pos os i n)) (1, 1) = Some 7 /\ r_pages (recover Kill (at_pos os i n)) (1, 2) = None /\ r_pages (recover Kill (at_pos os i 0)) (1, 1) = Some 5.
Check recovery_paths_agree : forall tables log m, redo_only log = true -> auto_recover tables log m = streaming_recover tables log m.
Check recovery_paths_differ : exists tables log m k, auto_recover tables log m k <> streaming_recover tables log m k.

Print Assumptions kill_prefix_exact.
Print Assumptions power_view_c02.
Print Assumptions power_statement_atomic.
Print Assumptions power_commit_atomic.
Print Assumptions kill_torn_refuted.
Print Assumptions recovery_paths_agree.
Print Assumptions recovery_paths_differ.
