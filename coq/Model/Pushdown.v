(* Model of PredicatePushdownRule for a Filter over a Join (src/sql/optimizer/rules/
   predicate_pushdown.rs: try_push_filter, collect_expr_tables), transcribed by hand, and the
   reference-level plans before / after the push.  Definitions only; Proof/Pushdown.v proves when
   the push preserves the result, the `Push` cases of the correspondence run apply the REAL rule.

   all_sides is what a predicate really mentions; vis_sides is what collect_expr_tables saw
   BEFORE the repair (it descended through BinaryOp and UnaryOp nodes only, so columns inside IN
   lists, BETWEEN, LIKE, IS NULL ... were missed) and is kept for the historical refutations.
   Columns are positions of the concatenated row: the left input owns positions < wl. *)
From Coq Require Import ZArith List Bool.
From TV Require Import Model.SqlSpec Model.QuerySpec.
Import ListNotations.
Open Scope Z_scope.

Definition or2 (a b : bool * bool) : bool * bool := (fst a || fst b, snd a || snd b).

Fixpoint vis_sides (wl : nat) (e : expr) : bool * bool :=
  match e with
  | ECol i => if Nat.ltb i wl then (true, false) else (false, true)
  | EArith _ a b | ECmp _ a b | EAnd a b | EOr a b => or2 (vis_sides wl a) (vis_sides wl b)
  | ENot a => vis_sides wl a
  | _ => (false, false)
  end.

Fixpoint all_sides (wl : nat) (e : expr) : bool * bool :=
  match e with
  | ECol i => if Nat.ltb i wl then (true, false) else (false, true)
  | ELit _ => (false, false)
  | EArith _ a b | ECmp _ a b | EAnd a b | EOr a b | ELike _ a b => or2 (all_sides wl a) (all_sides wl b)
  | ENot a | EIsNull _ a => all_sides wl a
  | EIn _ a l => fold_right (fun x acc => or2 (all_sides wl x) acc) (all_sides wl a) l
  | EBetween _ a lo hi => or2 (all_sides wl a) (or2 (all_sides wl lo) (all_sides wl hi))
  end.

Inductive push_out := PStay | PLeft | PRight | POther.

(* when is the push a sound plan rewrite (Proof/Pushdown.v)? *)
Definition left_push_ok (k : jkind) : bool := match k with JCross | JInner | JLeft => true | _ => false end.
Definition right_push_ok (k : jkind) : bool := match k with JCross | JInner | JRight => true | _ => false end.

(* try_push_filter, Join arm, as repaired in /repo (commit 2cb4862): the predicate is classified by
   ALL the columns it mentions (collect_expr_tables now visits every expression kind; the harness
   prints qualified columns only, so the classification never fails), and it moves onto the left
   input only under INNER / CROSS / LEFT, onto the right input only under INNER / CROSS / RIGHT *)
Definition push_decision (k : jkind) (wl : nat) (p : expr) : push_out :=
  match all_sides wl p with
  | (true, false) => if left_push_ok k then PLeft else PStay
  | (false, true) => if right_push_ok k then PRight else PStay
  | _ => PStay
  end.

(* HISTORICAL (before 2cb4862; findings F-C19-4 and F-C19-6): the rule classified by the columns
   it happened to see (vis_sides) and did not consult the join type *)
Definition push_decision_old (wl : nat) (p : expr) : push_out :=
  match vis_sides wl p with
  | (true, false) => PLeft
  | (false, true) => PRight
  | _ => PStay
  end.

(* ------------------------------------------------------------------ reference-level plans *)
(* Filter(p) over Join: p is over the concatenated row *)
Definition plan_before (k : jkind) (on : expr) (wl wr : nat) (L R : table) (p : expr) : table :=
  filter (passes p) (join_spec k on wl wr L R).
(* the filter moved onto the left input: evaluated on left rows alone *)
Definition plan_left (k : jkind) (on : expr) (wl wr : nat) (L R : table) (p : expr) : table :=
  join_spec k on wl wr (filter (passes p) L) R.
(* ... onto the right input: the right rows' columns are positions wl .. of the concatenated row *)
Definition shift_down (wl : nat) (i : nat) : nat := (i - wl)%nat.
Definition plan_right (k : jkind) (on : expr) (wl wr : nat) (L R : table) (p : expr) : table :=
  join_spec k on wl wr L (filter (passes (remap (shift_down wl) p)) R).

Definition only_left (wl : nat) (p : expr) : bool := negb (snd (all_sides wl p)).
Definition only_right (wl : nat) (p : expr) : bool := negb (fst (all_sides wl p)).
