(* C08 -- the implementation model (Model/MvccImpl.v: one shared table, per-handle undo logs, scans
   that filter DELETE_BIT only) REFUTES the property; each witness schedule is replayed on the
   real Database by the harness (known_findings.d/C08.json). *)
From Coq Require Import ZArith List Bool.
From TV Require Import Model.SqlSpec Model.UndoLog Model.SI Model.MvccImpl.
Import ListNotations.
Open Scope Z_scope.

Definition sch0 : schema := mkSchema KNone KInt false false.
Definition i (z : Z) : value := VInt z.

(* A: BEGIN; A: INSERT -- B reads the uncommitted row *)
Lemma impl_dirty_read_refuted_l :
  exists sched h,
    impl_view (impl_run sch0 sched (impl_init 2)) = [R (i 1) (i 10)] /\
    si_view h (si_run sched (si_init 2)) = [].
Proof. exists [(0%nat, OBegin); (0%nat, OIns [R (i 1) (i 10)])], 1%nat. vm_compute. split; reflexivity. Qed.

(* B: BEGIN; B reads; A: autocommit UPDATE; B reads again and sees the new value *)
Lemma impl_snapshot_refuted_l :
  exists pre sched h,
    impl_view (impl_run sch0 (pre ++ sched) (impl_init 2)) <> impl_view (impl_run sch0 pre (impl_init 2)) /\
    si_view h (si_run (pre ++ sched) (si_init 2)) = si_view h (si_run pre (si_init 2)).
Proof.
  exists [(0%nat, OIns [R (i 1) (i 10)]); (1%nat, OBegin); (1%nat, OObs)],
         [(0%nat, OUpd C1 (i 20) (Some (C0, i 1))); (1%nat, OObs)], 1%nat.
  vm_compute. split; [discriminate|reflexivity].
Qed.

(* two transactions update the same row: both COMMITs succeed in the implementation, the
   reference refuses the second one *)
Definition lost_update_sched : list (nat * op) :=
  [(0%nat, OIns [R (i 1) (i 10)]); (0%nat, OBegin); (1%nat, OBegin);
   (0%nat, OUpd C1 (i 20) (Some (C0, i 1))); (1%nat, OUpd C1 (i 30) (Some (C0, i 1)));
   (0%nat, OCommit)].
Lemma impl_lost_update_refuted_l :
  fst (exec_h sch0 1 OCommit (impl_run sch0 lost_update_sched (impl_init 2))) = ROk /\
  fst (si_exec 1 OCommit (si_run lost_update_sched (si_init 2))) = RErr.
Proof. vm_compute. split; reflexivity. Qed.

(* two transactions update the same row and both roll back: the table ends with a value that was
   never committed (the undo image of the second one is the first one's uncommitted write) *)
Lemma impl_rollback_clobbers_refuted_l :
  exists sched,
    impl_view (impl_run sch0 sched (impl_init 2)) = [R (i 1) (i 20)] /\
    committed (si_run sched (si_init 2)) = [R (i 1) (i 10)].
Proof.
  exists [(0%nat, OIns [R (i 1) (i 10)]); (0%nat, OBegin); (1%nat, OBegin);
          (0%nat, OUpd C1 (i 20) (Some (C0, i 1))); (1%nat, OUpd C1 (i 30) (Some (C0, i 1)));
          (0%nat, ORollback); (1%nat, ORollback)].
  vm_compute. split; reflexivity.
Qed.

(* in the implementation model a handle's undo log is its own: steps of other handles never touch it *)
Lemma set_nth_other : forall {A} (l : list A) i j x, i <> j -> nth_error (set_nth i x l) j = nth_error l j.
Proof.
  intros A l. induction l as [|y l IH]; intros i j x Hij.
  - destruct i; reflexivity.
  - destruct i, j; cbn [set_nth nth_error]; try reflexivity; [contradiction|]. apply IH. congruence.
Qed.
Lemma impl_txn_private_l : forall sch s h h' o,
  h <> h' -> nth_error (snd (snd (exec_h sch h' o s))) h = nth_error (snd s) h.
Proof.
  intros sch s h h' o Hne. unfold exec_h. destruct (nth_error (snd s) h') as [tx|]; [|reflexivity].
  destruct (exec sch o (fst s, tx)) as [r s']. cbn [snd]. apply set_nth_other. congruence.
Qed.
