(* C12 - AUTO_INCREMENT values are unique and increasing.
   Property theorems only.  Model/AutoInc.v is the hand-written model of the counter handling in
   src/database/dml/insert.rs (after the repairs a94d684, 66de927, 6d846b9, 94b952d); w is the
   width of the id column's integer type (16 SMALLINT / 32 INTEGER / otherwise 64 bits);
   [trace w h] lists every (id, generated?) a history h of INSERT statements (any mix of NULL /
   explicit ids, any statement failing at any row), insert_batch calls (Bulk), DELETEs,
   BEGIN / COMMIT / ROLLBACK and reopen cycles writes into the column, [trace_w w h] the values
   the column stores for them, [counter w h] the header counter afterwards. *)
From Coq Require Import ZArith List Bool.
From TV Require Import Lib.MachInt Model.AutoInc Proof.AutoInc.
Import ListNotations.
Open Scope Z_scope.

(* EVERY history: each generated id differs from every value the column held before (explicit or
   generated, deleted / rolled back or not) and exceeds every earlier generated id *)
Theorem autoinc_fresh_increasing :
  forall w h, fresh_increasing (trace w h).
Proof. exact autoinc_fresh_increasing_l. Qed.

(* ... because the header counter stays an upper bound of everything the column ever held *)
Theorem autoinc_counter_dominates :
  forall w h v b, In (v, b) (trace w h) -> v <= counter w h.
Proof. exact autoinc_counter_dominates_l. Qed.

(* ... generated ids are positive and within the id column's type (nothing wraps) ... *)
Theorem autoinc_no_wrap :
  forall w h g, In (g, true) (trace w h) -> 1 <= g <= limit w.
Proof. exact autoinc_no_wrap_l. Qed.

(* ... and generating beyond the type's maximum is an Error outcome, not an id: the statement
   writes nothing and leaves the counter alone *)
Theorem autoinc_overflow_is_error :
  forall w ai rows, limit w <= ai -> insert_stmt w ai (RNull :: rows) None = (ai, [], false).
Proof. exact autoinc_overflow_is_error_l. Qed.

(* deletes, transaction control and reopen cycles change neither the generated ids nor the counter *)
Theorem autoinc_other_ops_irrelevant :
  forall w h, trace w h = trace w (filter is_insert h) /\ counter w h = counter w (filter is_insert h).
Proof. exact autoinc_other_ops_irrelevant_l. Qed.

(* what the column stores: nothing an INSERT writes is truncated, so (as long as ids loaded through
   insert_batch, which does not check, fit the column's type) the stored values are the ids and
   are fresh and increasing as well *)
Theorem autoinc_fresh_increasing_stored :
  forall w h, forallb (bulk_fits w) h = true -> trace_w w h = trace w h /\ fresh_increasing (trace_w w h).
Proof. exact autoinc_fresh_increasing_stored_l. Qed.

(* the checker run on the implementation's observed ids decides exactly the property *)
Theorem fresh_increasing_chk_correct :
  forall tr, fresh_increasing_chk tr = true <-> fresh_increasing tr.
Proof. exact fresh_increasing_chk_correct_l. Qed.

(* non-vacuity / the five former defect regimes (findings F-C12-1..5, fixed) on the repaired model:
   1 explicit id inside a statement is skipped over; 2 ids of a failing statement are burnt;
   3 i64::MAX is the last id, then Err; 4 ids loaded by insert_batch raise the counter;
   5 an INTEGER column ends at 2147483647, then Err - and a mixed history with a delete, a rolled
   back transaction and a reopen *)
Example c12_witness :
  trace 64 [Insert [RNull; RInt 2; RNull] None] = [(1, true); (2, false); (3, true)] /\
  trace 64 [Insert [RNull; RNull] (Some 1%nat); Insert [RNull] None] = [(1, true); (3, true)] /\
  trace 64 [Insert [RNull] None; Insert [RInt 9223372036854775807] None; Insert [RNull] None]
    = [(1, true); (9223372036854775807, false)] /\
  trace 64 [Insert [RNull] None; Bulk [RInt 3] ; Insert [RNull; RNull] None]
    = [(1, true); (3, false); (4, true); (5, true)] /\
  trace 32 [Insert [RInt 2147483646] None; Insert [RNull] None; Insert [RNull] None]
    = [(2147483646, false); (2147483647, true)] /\
  (let h := [Insert [RNull; RNull] None; Insert [RNull; RInt 10; RInt 4] None; Delete;
             Insert [RNull; RInt 7] (Some 0%nat); TxBegin; Insert [RNull; RNull] None; TxRollback;
             Reopen; Insert [RInt 12; RNull] (Some 1%nat); Insert [RNull] None;
             Bulk [RNull; RInt 5; RInt (-2)]; Insert [RNull] None] in
   counter 16 h = 16 /\
   trace 16 h = [(1, true); (2, true); (3, true); (10, false); (4, false); (12, true); (13, true);
                 (12, false); (15, true); (5, false); (-2, false); (16, true)] /\
   forallb (bulk_fits 16) h = true).
Proof. vm_compute. repeat split. Qed.

Check autoinc_fresh_increasing : forall w h, fresh_increasing (trace w h).
Check autoinc_counter_dominates : forall w h v b, In (v, b) (trace w h) -> v <= counter w h.
Check autoinc_no_wrap : forall w h g, In (g, true) (trace w h) -> 1 <= g <= limit w.
Check autoinc_overflow_is_error : forall w ai rows, limit w <= ai -> insert_stmt w ai (RNull :: rows) None = (ai, [], false).
Check autoinc_other_ops_irrelevant : forall w h, trace w h = trace w (filter is_insert h) /\ counter w h = counter w (filter is_insert h).
Check autoinc_fresh_increasing_stored : forall w h, forallb (bulk_fits w) h = true -> trace_w w h = trace w h /\ fresh_increasing (trace_w w h).
Check fresh_increasing_chk_correct : forall tr, fresh_increasing_chk tr = true <-> fresh_increasing tr.

Print Assumptions autoinc_fresh_increasing.
Print Assumptions autoinc_counter_dominates.
Print Assumptions autoinc_no_wrap.
Print Assumptions autoinc_overflow_is_error.
Print Assumptions autoinc_other_ops_irrelevant.
Print Assumptions autoinc_fresh_increasing_stored.
Print Assumptions fresh_increasing_chk_correct.
