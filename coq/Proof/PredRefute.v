(* C14: the hypothesis `class = 0` of the correctness theorems cannot be dropped: for every
   recorded class a concrete query (the witness of known_findings.d/C14.json, which the check
   runs on the real Database on every run) on which the faithful implementation model returns
   something else than the reference semantics demands.  All by computation. *)
From Coq Require Import ZArith List Bool.
From TV Require Import Model.SqlSpec Model.PredImpl Model.PredClass.
Import ListNotations.
Open Scope Z_scope.

(* t(id, c1 BIGINT, c2 DOUBLE, c3 TEXT) = (1, 1, 1.0, 'abc'), (2, 2, 2.5, 'b%d'), (3, NULL, NULL, NULL) *)
Definition T3 : table :=
  [ [VInt 1; VInt 1; VFloat 4607182418800017408; VText [97; 98; 99]];
    [VInt 2; VInt 2; VFloat 4612811918334230528; VText [98; 37; 100]];
    [VInt 3; VNull; VNull; VNull] ].
Definition c1_eq_1 : expr := ECmp CEq (ECol 1) (ELit (VInt 1)).

Definition where_wrong (sty k : Z) (e : expr) (t : table) : Prop :=
  cls_where sty e t = k /\ defined_on e t = true /\
  model_where (parsed sty e) t <> MOut (QRows (spec_rows e t)).
Definition select_wrong (sty k : Z) (e : expr) (t : table) : Prop :=
  cls_select sty e t = k /\ defined_on e t = true /\
  model_select (parsed sty e) t <> MOut (QVals (spec_vals e t)).

Ltac refute := vm_compute; repeat split; discriminate.

(* 1: WHERE NOT (c1 = 1) returns all three rows (only row 2 qualifies) *)
Lemma class1_refuted : where_wrong 0 1 (ENot c1_eq_1) T3.
Proof. refute. Qed.
(* 2: WHERE c1 = NULL returns the row with c1 NULL *)
Lemma class2_refuted : where_wrong 0 2 (ECmp CEq (ECol 1) (ELit VNull)) T3.
Proof. refute. Qed.
(* 3: WHERE c1 IN (1, NULL) returns the row with c1 NULL as well *)
Lemma class3_refuted : where_wrong 0 3 (EIn false (ECol 1) [ELit (VInt 1); ELit VNull]) T3.
Proof. refute. Qed.
(* 4: WHERE c1 NOT IN (2, NULL) returns row 1 (never TRUE in SQL) *)
Lemma class4_refuted : where_wrong 0 4 (EIn true (ECol 1) [ELit (VInt 2); ELit VNull]) T3.
Proof. refute. Qed.
(* 5: WHERE (c1 = 1) IS NULL returns nothing (row 3 qualifies) *)
Lemma class5_refuted : where_wrong 0 5 (EIsNull false c1_eq_1) T3.
Proof. refute. Qed.
(* 6: SELECT (c1 = 1) gives FALSE for the NULL row *)
Lemma class6_refuted : select_wrong 0 6 c1_eq_1 T3.
Proof. refute. Qed.
(* 7: WHERE NULL <> 1 is folded to TRUE: all rows *)
Lemma class7_refuted : where_wrong 0 7 (ECmp CNe (ELit VNull) (ELit (VInt 1))) T3.
Proof. refute. Qed.
(* 8: WHERE (c1 = 1) AND FALSE: the query fails *)
Lemma class8_refuted : where_wrong 0 8 (EAnd c1_eq_1 (ELit (VBool false))) T3.
Proof. refute. Qed.
(* 9: '%ba' LIKE '%a' is FALSE *)
Lemma class9_refuted :
  where_wrong 0 9 (ELike false (ECol 1) (ELit (VText [37; 97])))
    [[VInt 1; VText [37; 98; 97]]; [VInt 2; VText [98; 97]]].
Proof. refute. Qed.
(* 10: 1e-17 IN (0.0) is TRUE *)
Lemma class10_refuted :
  where_wrong 0 10 (EIn false (ECol 1) [ELit (VFloat 0)])
    [[VInt 1; VFloat 4352464011485697175]; [VInt 2; VFloat 0]].
Proof. refute. Qed.
(* 11: c1 > -9223372036854775808 is FALSE for every row *)
Lemma class11_refuted :
  where_wrong 0 11 (ECmp CGt (ECol 1) (ELit (VInt (-9223372036854775808))))
    [[VInt 1; VInt 0]; [VInt 2; VInt (-5)]].
Proof. refute. Qed.
(* 12: NOT c1 = 1 (printed without parentheses) is read as (NOT c1) = 1 *)
Lemma class12_refuted : where_wrong 1 12 (ENot c1_eq_1) T3.
Proof. refute. Qed.

Lemma known_classes_refuted :
  (exists e t, where_wrong 0 1 e t) /\ (exists e t, where_wrong 0 2 e t) /\
  (exists e t, where_wrong 0 3 e t) /\ (exists e t, where_wrong 0 4 e t) /\
  (exists e t, where_wrong 0 5 e t) /\ (exists e t, select_wrong 0 6 e t) /\
  (exists e t, where_wrong 0 7 e t) /\ (exists e t, where_wrong 0 8 e t) /\
  (exists e t, where_wrong 0 9 e t) /\ (exists e t, where_wrong 0 10 e t) /\
  (exists e t, where_wrong 0 11 e t) /\ (exists e t, where_wrong 1 12 e t).
Proof.
  repeat split; do 2 eexists;
    first [ exact class1_refuted | exact class2_refuted | exact class3_refuted | exact class4_refuted
          | exact class5_refuted | exact class6_refuted | exact class7_refuted | exact class8_refuted
          | exact class9_refuted | exact class10_refuted | exact class11_refuted | exact class12_refuted ].
Qed.

(* non-vacuity of the positive theorems: queries outside every class, with NULLs, on which the
   reference and the model return something non-trivial *)
Definition good1 : expr :=
  EOr (EAnd (ECmp CGe (ECol 1) (ELit (VInt 1))) (ECmp CLt (ECol 2) (ELit (VFloat 4612811918334230528))))
      (EIsNull false (ECol 3)).
Definition good2 : expr :=
  EAnd (EBetween false (ECol 1) (ELit (VInt 0)) (ELit (VInt 2)))
       (EOr (ELike false (ECol 3) (ELit (VText [97; 95; 99]))) (EIn false (ECol 2) [ELit (VInt 1); ELit (VFloat 4612811918334230528)])).
Lemma good_examples :
  cls_where 0 good1 T3 = 0 /\ defined_on good1 T3 = true /\ spec_rows good1 T3 = [1; 0; 1] /\
  cls_where 0 good2 T3 = 0 /\ defined_on good2 T3 = true /\ spec_rows good2 T3 = [1; 1; 0] /\
  cls_select 0 (EIsNull true (ECol 1)) T3 = 0 /\ spec_vals (EIsNull true (ECol 1)) T3 = [1; 1; 0].
Proof. vm_compute. repeat split. Qed.
