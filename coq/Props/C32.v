(* C32 - JSON documents round-trip through JSONB.  Property theorems only (proofs in Proof/Jsonb*.v).
   Models: Model/Jsonb.v (records/jsonb.rs builder + view, owned_value.rs lookups; entry-word accessors
   and constants regenerated in Gen/JsonbBits.v).
   `typed j`: what the Rust types guarantee (numbers are 64-bit patterns, strings/keys are UTF-8).
   `fits j`: typed, strings and keys below the root shorter than 2^16 bytes, a root string shorter than
   2^28, and (unless the document is a single string) an encoding of at most 2^24 bytes.
   `try_build` (JsonbBuilder::try_build, what the SQL conversion path stores since 00ee7a4) succeeds
   exactly on these; `encode_value` is the raw `build` / to_jsonb_bytes, which does not check. *)
From Coq Require Import ZArith List Bool.
From TV Require Import Lib.MachInt Gen.JsonbBits Model.Jsonb Model.JsonText Model.JsonGrammar
  Proof.Jsonb Proof.JsonbTop Proof.JsonbPath Proof.JsonbTryBuild Proof.JsonText Proof.JsonEndToEnd.
Import ListNotations.
Open Scope Z_scope.

(* building a document and reading it back through the view gives its canonical form ... *)
Theorem jsonb_roundtrip :
  forall j, fits j = true -> tree_of_view (S (depth j)) (encode_value j) = Ok (canon j).
Proof. exact roundtrip_l. Qed.

(* ... with any larger recursion budget too (the budget is only the model's fuel) *)
Theorem jsonb_roundtrip_fuel :
  forall j fuel, fits j = true -> (depth j < fuel)%nat -> tree_of_view fuel (encode_value j) = Ok (canon j).
Proof. exact roundtrip_fuel_l. Qed.

(* ... and the canonical form is an equal JSON value: same members (as a multiset), keys sorted,
   members sharing a key in document order *)
Theorem jsonb_canon_equal : forall j, jequiv j (canon j).
Proof. exact canon_equiv_l. Qed.

Theorem jsonb_canon_sorted : forall j, objects_sorted (canon j) = true.
Proof. exact canon_sorted_l. Qed.

Theorem jsonb_canon_stable :
  forall kvs k,
  match canon (JObj kvs) with
  | JObj ms => map fst (filter (fun kv => zlist_eqb (fst kv) k) ms) = map fst (filter (fun kv => zlist_eqb (fst kv) k) kvs) /\
               map snd (filter (fun kv => zlist_eqb (fst kv) k) ms) = map canon (map snd (filter (fun kv => zlist_eqb (fst kv) k) kvs))
  | _ => False
  end.
Proof. exact canon_stable_l. Qed.

(* jsonb_get: a key that occurs is found with the value of a member carrying it, a key that does not occur gives None *)
Theorem jsonb_get_key :
  forall kvs key, fits (JObj kvs) = true ->
  (exists e, In (key, e) kvs /\ ov_get (root_of (JObj kvs)) key = Ok (Some (ov_of e))) \/
  ((forall e, ~ In (key, e) kvs) /\ ov_get (root_of (JObj kvs)) key = Ok None).
Proof. exact get_key_l. Qed.

(* without repeated keys: every member is looked up to its own value *)
Theorem jsonb_get_key_nodup :
  forall kvs key e, fits (JObj kvs) = true -> NoDup (map fst kvs) -> In (key, e) kvs ->
  ov_get (root_of (JObj kvs)) key = Ok (Some (ov_of e)).
Proof. exact get_key_nodup_l. Qed.

(* jsonb_array_get: element i, None past the end *)
Theorem jsonb_array_get :
  forall els i, fits (JArr els) = true -> 0 <= i ->
  ov_array_get (root_of (JArr els)) i = Ok (option_map ov_of (nth_error els (Z.to_nat i))).
Proof. exact array_get_l. Qed.

(* jsonb_get_path against one jsonb_get per key: equal, except that below an ARRAY the path lookup
   answers None where the single lookup reports an error; whatever the path lookup finds is the value
   at that path of the document; it never panics *)
Theorem jsonb_path_stepwise :
  forall j k ks, fits j = true ->
  let r1 := ov_get_path (root_of j) (k :: ks) in
  let r2 := ov_stepwise (Some (root_of j)) (k :: ks) in
  (r1 = r2 \/ (r1 = Ok None /\ r2 = Err)) /\
  (forall o, r1 = Ok (Some o) -> exists e, tree_path j (k :: ks) e /\ o = ov_of e) /\
  (r1 = Ok None \/ (exists o, r1 = Ok (Some o)) \/ (r1 = Err /\ forall kvs, j <> JObj kvs)).
Proof. exact path_stepwise_l. Qed.

(* without repeated keys every path of the document is found *)
Theorem jsonb_path_complete :
  forall j k ks e, fits j = true -> nodup_keys j -> tree_path j (k :: ks) e ->
  ov_get_path (root_of j) (k :: ks) = Ok (Some (ov_of e)).
Proof. exact path_complete_l. Qed.

(* ---- the checked entry point: refusal instead of corruption, for EVERY document *)
Theorem jsonb_try_build_roundtrip :
  forall j b, typed j = true -> try_build j = Ok b -> tree_of_view (S (depth j)) b = Ok (canon j).
Proof. exact try_build_roundtrip_l. Qed.

Theorem jsonb_try_build_accepts :
  forall j, fits j = true -> try_build j = Ok (encode_value j).
Proof. exact try_build_fits_l. Qed.

Theorem jsonb_try_build_refuses :
  forall j, typed j = true -> fits j = false -> try_build j = Err.
Proof. exact try_build_refuses_l. Qed.

(* documented limit of the RAW API (`build` / to_jsonb_bytes, unchanged): beyond `fits` it still
   truncates -- a 65536-byte string below the root is stored with `len as u16`; try_build refuses it.
   (Was finding F-C32-1 while the SQL path used `build`; fixed in 00ee7a4.) *)
Theorem jsonb_raw_build_truncates_beyond_fits :
  exists j, typed j = true /\ fits j = false /\ blen (encode_value j) <= 2 ^ 24 /\
            tree_of_view (S (depth j)) (encode_value j) = Ok (JArr [JStr []]) /\ canon j <> JArr [JStr []] /\
            try_build j = Err.
Proof. exact raw_build_long_string_l. Qed.

(* ---- text side (Model/JsonText.v = parsing/json.rs; Model/JsonGrammar.v = the JSON grammar as a data type:
   `render d` ranges over every spelling of a document -- whitespace, escapes, hex case, number text --,
   `erase d` is the value it denotes, `num_of` is str::parse::<f64>, any function) *)

(* parse_json returns the denoted value for every document (surrogate-pair escapes included since
   456f370), and `consumed` stops before trailing whitespace only.  Not in the grammar, hence not
   covered: an escape \uD800..\uDFFF that is not half of a pair (it denotes no Unicode string; the
   parser rejects it, see c32_text_witness) *)
Theorem json_text_parse :
  forall (num_of : list Z -> res Z) d, dj_ok num_of d = true ->
  parse_json num_of (render d) = Ok (erase d, blen (render d) - blen (trail d)) /\ all_ws (trail d) = true.
Proof. exact parse_json_ok_l. Qed.

(* text -> parse_json -> to_jsonb_bytes -> JsonbView read-back: an equal JSON value *)
Theorem json_text_jsonb_roundtrip :
  forall (num_of : list Z -> res Z) d, dj_ok num_of d = true -> fits (erase d) = true ->
  exists v n, parse_json num_of (render d) = Ok (v, n) /\
              tree_of_view (S (depth v)) (encode_value v) = Ok (canon (erase d)) /\
              jequiv (erase d) (canon (erase d)).
Proof. exact text_jsonb_roundtrip_l. Qed.

(* text -> parse_json -> try_build (SQL path): either refused or stored so that it reads back equal *)
Theorem json_text_try_build_roundtrip :
  forall (num_of : list Z -> res Z) d, dj_ok num_of d = true -> typed (erase d) = true ->
  exists v n, parse_json num_of (render d) = Ok (v, n) /\ v = erase d /\
              (try_build v = Err \/
               exists b, try_build v = Ok b /\ tree_of_view (S (depth v)) b = Ok (canon v) /\ jequiv v (canon v)).
Proof. exact text_try_build_roundtrip_l. Qed.

(* non-vacuity on the text side: {"a" : [1e2, "\u00e9\n", true ] } with an oracle that knows 1e2 *)
Example c32_text_witness :
  let num_of := fun t => if zlist_eqb t [49; 101; 50] then Ok 4636737291354636288 else Err in
  let d := DWs [32] (DObj [] [([], [CRaw 97], [32], DWs [32] (DArr [] [DNum [49; 101; 50] 4636737291354636288;
             DWs [32] (DStr [CU 48 48 101 57; CEsc 110]) []; DWs [] (DBool true) [32]]) [32])]) [10] in
  dj_ok num_of d = true /\
  render d = [32; 123; 34; 97; 34; 32; 58; 32; 91; 49; 101; 50; 44; 32; 34; 92; 117; 48; 48; 101; 57; 92; 110; 34; 44; 116; 114; 117; 101; 32; 93; 32; 125; 10] /\
  parse_json num_of (render d) = Ok (JObj [([97], JArr [JNum 4636737291354636288; JStr [195; 169; 10]; JBool true])], 33).
Proof. vm_compute. repeat split; reflexivity. Qed.

(* an escaped surrogate pair is the one character it stands for; unpaired surrogate escapes are rejected *)
Example c32_pair_witness :
  forall (num_of : list Z -> res Z),
  let d := DStr [CPair 100 56 51 100 100 101 48 48] in
  dj_ok num_of d = true /\ render d = [34; 92; 117; 100; 56; 51; 100; 92; 117; 100; 101; 48; 48; 34] /\
  parse_json num_of (render d) = Ok (JStr [240; 159; 152; 128], 14) /\
  parse_json num_of [34; 92; 117; 100; 56; 48; 48; 34] = Err /\
  parse_json num_of [34; 92; 117; 100; 56; 48; 48; 92; 117; 48; 48; 52; 49; 34] = Err /\
  parse_json num_of [34; 92; 117; 100; 99; 48; 48; 34] = Err.
Proof. exact parse_json_pair_l. Qed.

(* non-vacuity: a nested document with unsorted and repeated keys fits, and the lookups do what is claimed *)
Example c32_witness :
  let inner := JObj [([98], JNum 1); ([97], JStr [120; 121])] in
  let j := JObj [([107; 50], JArr [JNull; JBool true; inner]); ([107; 49], inner); ([107; 50], JNum 7)] in
  fits j = true /\
  canon j = JObj [([107; 49], canon inner); ([107; 50], JArr [JNull; JBool true; canon inner]); ([107; 50], JNum 7)] /\
  tree_of_view 4 (encode_value j) = Ok (canon j) /\
  ov_get_path (root_of j) [[107; 49]; [97]] = Ok (Some (OVText [120; 121])) /\
  ov_get (root_of j) [122] = Ok None /\
  ov_array_get (root_of (JArr [JNull; JNum 5])) 1 = Ok (Some (OVFloat 5)) /\
  nodup_keys inner.
Proof.
  vm_compute. repeat (split; [reflexivity|]). split; [|tauto].
  apply NoDup_cons; [|apply NoDup_cons; [|apply NoDup_nil]]; cbn; intuition congruence.
Qed.

Check jsonb_roundtrip : forall j, fits j = true -> tree_of_view (S (depth j)) (encode_value j) = Ok (canon j).
Check jsonb_roundtrip_fuel : forall j fuel, fits j = true -> (depth j < fuel)%nat -> tree_of_view fuel (encode_value j) = Ok (canon j).
Check jsonb_canon_equal : forall j, jequiv j (canon j).
Check jsonb_canon_sorted : forall j, objects_sorted (canon j) = true.
Check jsonb_canon_stable : forall kvs k,
  match canon (JObj kvs) with
  | JObj ms => map fst (filter (fun kv => zlist_eqb (fst kv) k) ms) = map fst (filter (fun kv => zlist_eqb (fst kv) k) kvs) /\
               map snd (filter (fun kv => zlist_eqb (fst kv) k) ms) = map canon (map snd (filter (fun kv => zlist_eqb (fst kv) k) kvs))
  | _ => False
  end.
Check jsonb_get_key : forall kvs key, fits (JObj kvs) = true ->
  (exists e, In (key, e) kvs /\ ov_get (root_of (JObj kvs)) key = Ok (Some (ov_of e))) \/
  ((forall e, ~ In (key, e) kvs) /\ ov_get (root_of (JObj kvs)) key = Ok None).
Check jsonb_get_key_nodup : forall kvs key e, fits (JObj kvs) = true -> NoDup (map fst kvs) -> In (key, e) kvs ->
  ov_get (root_of (JObj kvs)) key = Ok (Some (ov_of e)).
Check jsonb_array_get : forall els i, fits (JArr els) = true -> 0 <= i ->
  ov_array_get (root_of (JArr els)) i = Ok (option_map ov_of (nth_error els (Z.to_nat i))).
Check jsonb_path_stepwise : forall j k ks, fits j = true ->
  let r1 := ov_get_path (root_of j) (k :: ks) in
  let r2 := ov_stepwise (Some (root_of j)) (k :: ks) in
  (r1 = r2 \/ (r1 = Ok None /\ r2 = Err)) /\
  (forall o, r1 = Ok (Some o) -> exists e, tree_path j (k :: ks) e /\ o = ov_of e) /\
  (r1 = Ok None \/ (exists o, r1 = Ok (Some o)) \/ (r1 = Err /\ forall kvs, j <> JObj kvs)).
Check jsonb_path_complete : forall j k ks e, fits j = true -> nodup_keys j -> tree_path j (k :: ks) e ->
  ov_get_path (root_of j) (k :: ks) = Ok (Some (ov_of e)).

Check jsonb_try_build_roundtrip : forall j b, typed j = true -> try_build j = Ok b -> tree_of_view (S (depth j)) b = Ok (canon j).
Check jsonb_try_build_accepts : forall j, fits j = true -> try_build j = Ok (encode_value j).
Check jsonb_try_build_refuses : forall j, typed j = true -> fits j = false -> try_build j = Err.
Check jsonb_raw_build_truncates_beyond_fits :
  exists j, typed j = true /\ fits j = false /\ blen (encode_value j) <= 2 ^ 24 /\
            tree_of_view (S (depth j)) (encode_value j) = Ok (JArr [JStr []]) /\ canon j <> JArr [JStr []] /\
            try_build j = Err.
Check json_text_parse : forall (num_of : list Z -> res Z) d, dj_ok num_of d = true ->
  parse_json num_of (render d) = Ok (erase d, blen (render d) - blen (trail d)) /\ all_ws (trail d) = true.
Check json_text_jsonb_roundtrip : forall (num_of : list Z -> res Z) d, dj_ok num_of d = true -> fits (erase d) = true ->
  exists v n, parse_json num_of (render d) = Ok (v, n) /\
              tree_of_view (S (depth v)) (encode_value v) = Ok (canon (erase d)) /\
              jequiv (erase d) (canon (erase d)).
Check json_text_try_build_roundtrip : forall (num_of : list Z -> res Z) d, dj_ok num_of d = true -> typed (erase d) = true ->
  exists v n, parse_json num_of (render d) = Ok (v, n) /\ v = erase d /\
              (try_build v = Err \/
               exists b, try_build v = Ok b /\ tree_of_view (S (depth v)) b = Ok (canon v) /\ jequiv v (canon v)).

Print Assumptions json_text_parse.
Print Assumptions json_text_jsonb_roundtrip.
Print Assumptions json_text_try_build_roundtrip.
Print Assumptions jsonb_try_build_roundtrip.
Print Assumptions jsonb_try_build_accepts.
Print Assumptions jsonb_try_build_refuses.
Print Assumptions jsonb_raw_build_truncates_beyond_fits.
Print Assumptions jsonb_roundtrip.
Print Assumptions jsonb_roundtrip_fuel.
Print Assumptions jsonb_canon_equal.
Print Assumptions jsonb_canon_sorted.
Print Assumptions jsonb_canon_stable.
Print Assumptions jsonb_get_key.
Print Assumptions jsonb_get_key_nodup.
Print Assumptions jsonb_array_get.
Print Assumptions jsonb_path_stepwise.
Print Assumptions jsonb_path_complete.
