(* C37 group commit: liveness-related invariants of Model/GroupCommit.v (no lost wake-up, the
   flush flag is not left set, everything submitted is eventually handed to a WAL write), for
   every variant, every number of threads and every schedule. *)
From Coq Require Import ZArith List Bool Arith Lia.
From TV Require Import Lib.Interleave Model.GroupCommit Proof.GroupCommitStep Proof.GroupCommitSafe.
Import ListNotations.
Open Scope Z_scope.

(* phases of a thread, as seen by the others *)
(* between take_pending -> Some and the reset of the flush flag *)
Definition comm1 (th : thr) : bool :=
  match pc th with
  | S404 | S403 | MarkC _ | MarkF1 _ | MarkF2 _ _ | S305 | FUnlock => true
  | _ => false
  end.
(* ... until notify_all has been called *)
Definition comm2 (th : thr) : bool :=
  match pc th with
  | S404 | S403 | MarkC _ | MarkF1 _ | MarkF2 _ _ | S305 | FUnlock | CNotify | FNotify => true
  | _ => false
  end.
(* about to call take_pending *)
Definition potent (fx : bool) (th : thr) : bool :=
  match pc th with
  | S402 => negb fx || elected th
  | S304 => true
  | _ => false
  end.
Definition Ex (P : thr -> bool) (l : list (nat * thr)) : Prop :=
  exists u th, lget l u = Some th /\ P th = true.
(* the thread still has to mark commit c completed *)
Definition holds (th : thr) (c : Z) : Prop :=
  match pc th with
  | S404 | S403 => In c (batch th)
  | MarkC todo | MarkF1 todo => In c todo
  | MarkF2 c' r => c = c' \/ In c r
  | _ => False
  end.
Definition inwait (p : pcT) : bool :=
  match p with S301 | WHead | S302 | Waiting => true | _ => false end.
(* the thread's own commit may still be in the queue *)
Definition owner (th : thr) : bool :=
  match pc th with
  | S301 | WHead | S302 | Waiting => true
  | S402 | S304 => elected th
  | _ => false
  end.

Record LI (fx : bool) (s : St) : Prop := {
  li_fip : fip (sh s) = true ->
           Ex comm1 (thrs s) \/ (pending (sh s) <> [] /\ Ex (potent fx) (thrs s));
  li_wait : waiters (sh s) <> [] ->
            Ex comm2 (thrs s) \/ (pending (sh s) <> [] /\ Ex (potent fx) (thrs s));
  li_held : forall c u, In (c, u) (taken (sh s)) ->
            In c (completed (sh s)) \/ exists th, lget (thrs s) u = Some th /\ holds th c;
  li_sub : forall u th, lget (thrs s) u = Some th -> inwait (pc th) = true ->
           In (myid th) (pending (sh s)) \/ In (myid th) (map fst (taken (sh s)));
  li_owner : forall c, In c (pending (sh s)) ->
             exists u th, lget (thrs s) u = Some th /\ myid th = c /\ owner th = true;
  li_subs : forall c l, In (c, l) (subs (sh s)) ->
            In c (pending (sh s)) \/ In c (map fst (taken (sh s)));
  li_att : forall c u, In (c, u) (taken (sh s)) ->
           In c (att_ok (sh s) ++ att_fail (sh s)) \/
           exists th, lget (thrs s) u = Some th /\ pc th = S404 /\ In c (batch th)
}.

(* ------------------------------------------------------------------ helpers *)
Lemma Ex_step P l t th th' :
  lget l t = Some th -> Ex P l -> (P th = true -> P th' = true) -> Ex P (lset l t th').
Proof.
  intros Hl [u [x [Hu Hp]]] Himp. destruct (Nat.eq_dec t u) as [->|Hne].
  - exists u, th'. split; [apply lget_lset_same|]. apply Himp. congruence.
  - exists u, x. split; [rewrite lget_lset_other by exact Hne; exact Hu | exact Hp].
Qed.
Lemma Ex_self P l t th' : P th' = true -> Ex P (lset l t th').
Proof. intros H. exists t, th'. split; [apply lget_lset_same | exact H]. Qed.

Lemma lget_lset_cases {L} (l : list (nat * L)) t v u x :
  lget (lset l t v) u = Some x -> (u = t /\ x = v) \/ (u <> t /\ lget l u = Some x).
Proof.
  intros H. destruct (Nat.eq_dec t u) as [->|Hne].
  - rewrite lget_lset_same in H. injection H as <-. left. auto.
  - rewrite lget_lset_other in H by exact Hne. right. auto.
Qed.

Lemma exth_step (Q : thr -> Prop) l t th th' u :
  lget l t = Some th -> (exists x, lget l u = Some x /\ Q x) -> (u = t -> Q th -> Q th') ->
  exists x, lget (lset l t th') u = Some x /\ Q x.
Proof.
  intros Hl [x [Hu Hq]] Himp. destruct (Nat.eq_dec t u) as [->|Hne].
  - exists th'. split; [apply lget_lset_same|]. apply Himp; [reflexivity|]. congruence.
  - exists x. split; [rewrite lget_lset_other by exact Hne; exact Hu | exact Hq].
Qed.

Ltac split_p0 :=
  try match goal with H : ?p = S301 \/ ?p = WHead |- _ => destruct H; subst p end.

Ltac ex_keep Hl A :=
  eapply Ex_step; [exact Hl | exact A |
    let Hp := fresh "Hp" in cbn; intros Hp; first [discriminate Hp | reflexivity | exact Hp]].

Lemma Ex_weaken (P Q : thr -> bool) l : (forall th, P th = true -> Q th = true) -> Ex P l -> Ex Q l.
Proof. intros H [u [th [Hu Hp]]]. exists u, th. split; [exact Hu | apply H; exact Hp]. Qed.
Lemma comm1_comm2 th : comm1 th = true -> comm2 th = true.
Proof. unfold comm1, comm2. destruct (pc th); auto. Qed.
Lemma holds_comm1 th c : holds th c -> comm1 th = true.
Proof. unfold holds, comm1. destruct (pc th); auto; intros []. Qed.

Lemma done_is_taken s c : SI s -> In c (completed s) -> In c (map fst (taken s)).
Proof.
  intros HS Hc. apply (si_att_taken _ HS). apply in_app_iff.
  destruct (si_done _ HS c Hc) as [H|H]; [left; exact H | right; apply (si_errs _ HS); exact H].
Qed.
Lemma done_not_pending s c : SI s -> In c (completed s) -> In c (pending s) -> False.
Proof.
  intros HS Hc Hp. exact (NoDup_app_disj _ _ _ (si_nodup _ HS) Hp (done_is_taken _ _ HS Hc)).
Qed.

(* ------------------------------------------------------------------ preservation, field by field *)
Section Step.
  Variables (fx : bool) (t : nat) (l : list (nat * thr)) (s s' : shared) (th th' : thr).
  Hypothesis Hl : lget l t = Some th.
  Hypothesis HTS : TS fx t s th s' th'.
  Hypothesis HS : SI s.
  Hypothesis HT : forall u x, lget l u = Some x -> TI s u x.
  Hypothesis HL : LI fx (MkSt s l).

  Lemma pres_fip :
    fip s' = true -> Ex comm1 (lset l t th') \/ (pending s' <> [] /\ Ex (potent fx) (lset l t th')).
  Proof.
    pose proof (li_fip _ _ HL) as Hold. cbn [sh thrs] in Hold.
    destruct HTS; split_p0; cbn [fip pending sh_push sh_set_fip sh_wait sh_ack sh_steal sh_drain sh_write sh_complete sh_err sh_notify_all];
      intros Hf; try discriminate Hf;
      try (destruct (Hold Hf) as [A|[B1 B2]];
           [left; ex_keep Hl A | right; split; [first [exact B1 | intros E; apply app_eq_nil in E; destruct E; discriminate] | ex_keep Hl B2]]).
    - (* elect *) right. split; [apply nonempty_true; assumption|]. apply Ex_self. cbn. apply orb_true_r.
    - (* skip *) destruct (Hold Hf) as [A|[B1 B2]]; [left; ex_keep Hl A|].
      right. split; [exact B1|]. eapply Ex_step; [exact Hl | exact B2|]. cbn. match goal with H : fx = true |- _ => rewrite H end. intros Hp; discriminate Hp.
    - (* none *) destruct (Hold Hf) as [A|[B1 B2]]; [left; ex_keep Hl A|].
      exfalso. apply B1. apply nonempty_false. assumption.
    - (* drain *) left. apply Ex_self. reflexivity.
  Qed.

  Lemma pres_wait :
    waiters s' <> [] -> Ex comm2 (lset l t th') \/ (pending s' <> [] /\ Ex (potent fx) (lset l t th')).
  Proof.
    pose proof (li_wait _ _ HL) as Hold. cbn [sh thrs] in Hold.
    pose proof (li_fip _ _ HL) as Hfip. cbn [sh thrs] in Hfip.
    destruct HTS; split_p0; cbn [waiters pending sh_push sh_set_fip sh_wait sh_ack sh_steal sh_drain sh_write sh_complete sh_err sh_notify_all];
      intros Hf; try (exfalso; apply Hf; reflexivity);
      try (destruct (Hold Hf) as [A|[B1 B2]];
           [left; ex_keep Hl A | right; split; [first [exact B1 | intros E; apply app_eq_nil in E; destruct E; discriminate] | ex_keep Hl B2]]).
    - (* wait *)
      destruct (fip s) eqn:Ef.
      + destruct (Hfip eq_refl) as [A|[B1 B2]].
        * left. apply (Ex_weaken _ _ _ comm1_comm2) in A. ex_keep Hl A.
        * right. split; [exact B1 | ex_keep Hl B2].
      + cbn [negb andb] in *. left.
        assert (Hp : pending s = []) by (apply nonempty_false; assumption).
        destruct (li_sub _ _ HL t _ Hl eq_refl) as [Hin|Hin]; cbn [sh thrs myid] in Hin.
        * rewrite Hp in Hin. destruct Hin.
        * apply in_map_iff in Hin. destruct Hin as [[c u] [Hc Hin]]. cbn [fst] in Hc. subst c.
          destruct (li_held _ _ HL _ _ Hin) as [Hd|[thh [Hu Hh]]]; cbn [sh thrs] in *.
          -- apply memZ_In in Hd. congruence.
          -- assert (A : Ex comm2 l) by (exists u, thh; split; [exact Hu | apply comm1_comm2; eapply holds_comm1; exact Hh]).
             ex_keep Hl A.
    - (* skip *) destruct (Hold Hf) as [A|[B1 B2]]; [left; ex_keep Hl A|].
      right. split; [exact B1|]. eapply Ex_step; [exact Hl | exact B2|]. cbn. match goal with H : fx = true |- _ => rewrite H end. intros Hp; discriminate Hp.
    - (* none *) destruct (Hold Hf) as [A|[B1 B2]]; [left; ex_keep Hl A|].
      exfalso. apply B1. apply nonempty_false. assumption.
    - (* drain *) left. apply Ex_self. reflexivity.
  Qed.

  Lemma pres_held :
    forall c u, In (c, u) (taken s') ->
      In c (completed s') \/ exists x, lget (lset l t th') u = Some x /\ holds x c.
  Proof.
    pose proof (li_held _ _ HL) as Hold. cbn [sh thrs] in Hold.
    destruct HTS; split_p0; cbn [taken completed sh_push sh_set_fip sh_wait sh_ack sh_steal sh_drain sh_write sh_complete sh_err sh_notify_all];
      intros c0 u Hin;
      try (destruct (Hold c0 u Hin) as [Hd|Hex];
           [left; exact Hd |
            right; eapply exth_step; [exact Hl | exact Hex |
              let Hh := fresh "Hh" in intros _ Hh; cbn in Hh |- *; first [exact Hh | contradiction]]]).
    - (* drain *)
      apply in_app_iff in Hin. destruct Hin as [Hin|Hin].
      + destruct (Hold c0 u Hin) as [Hd|Hex]; [left; exact Hd|].
        right. eapply exth_step; [exact Hl | exact Hex|]. intros _ Hh. cbn in Hh. contradiction.
      + apply in_pair_map in Hin. destruct Hin as [Hin ->]. right.
        eexists. split; [apply lget_lset_same|]. cbn. exact Hin.
    - (* markc *)
      destruct (Hold c0 u Hin) as [Hd|Hex]; [left; right; exact Hd|].
      destruct (Z.eq_dec c0 c) as [->|Hne]; [left; left; reflexivity|].
      right. eapply exth_step; [exact Hl | exact Hex|]. intros _ Hh. cbn in Hh |- *.
      destruct Hh as [Hh|Hh]; [congruence | exact Hh].
    - (* markf1 *)
      destruct (Hold c0 u Hin) as [Hd|Hex]; [left; exact Hd|].
      right. eapply exth_step; [exact Hl | exact Hex|]. intros _ Hh. cbn in Hh |- *.
      destruct Hh as [Hh|Hh]; [left; congruence | right; exact Hh].
    - (* markf2 *)
      destruct (Hold c0 u Hin) as [Hd|Hex]; [left; right; exact Hd|].
      destruct (Z.eq_dec c0 c) as [->|Hne]; [left; left; reflexivity|].
      right. eapply exth_step; [exact Hl | exact Hex|]. intros _ Hh. cbn in Hh |- *.
      destruct Hh as [Hh|Hh]; [congruence | exact Hh].
  Qed.

  Lemma pres_sub :
    forall u x, lget (lset l t th') u = Some x -> inwait (pc x) = true ->
      In (myid x) (pending s') \/ In (myid x) (map fst (taken s')).
  Proof.
    pose proof (li_sub _ _ HL) as Hold. cbn [sh thrs] in Hold.
    assert (Hother : forall c, In c (pending s) \/ In c (map fst (taken s)) ->
                               In c (pending s') \/ In c (map fst (taken s'))).
    { destruct HTS; cbn [pending taken sh_push sh_set_fip sh_wait sh_ack sh_steal sh_drain sh_write sh_complete sh_err sh_notify_all]; auto.
      - intros c0 [Hc|Hc]; [left; apply in_app_iff; left; exact Hc | right; exact Hc].
      - intros c0 [Hc|Hc]; right; rewrite map_app, map_fst_pair; apply in_app_iff; [right|left]; exact Hc. }
    intros u x Hu Hw. destruct (lget_lset_cases _ _ _ _ _ Hu) as [[-> ->]|[Hne Hu']].
    - destruct HTS; split_p0; cbn [pc inwait] in Hw; try discriminate Hw; cbn [myid];
        try (apply Hother; apply (Hold t _ Hl eq_refl)).
      (* push *) left. cbn [pending sh_push]. apply in_app_iff. right. left. reflexivity.
    - apply Hother. apply (Hold u x Hu' Hw).
  Qed.

  Lemma pres_owner :
    forall c, In c (pending s') ->
      exists u x, lget (lset l t th') u = Some x /\ myid x = c /\ owner x = true.
  Proof.
    pose proof (li_owner _ _ HL) as Hold. cbn [sh thrs] in Hold.
    assert (Hkeep : forall c, In c (pending s) -> (myid th = c -> owner th = true -> myid th' = c /\ owner th' = true) ->
                    exists u x, lget (lset l t th') u = Some x /\ myid x = c /\ owner x = true).
    { intros c Hc Himp. destruct (Hold c Hc) as [u [x [Hu [Hm Ho]]]].
      destruct (Nat.eq_dec t u) as [->|Hne].
      - exists u, th'. split; [apply lget_lset_same|]. apply Himp; congruence.
      - exists u, x. split; [rewrite lget_lset_other by exact Hne; exact Hu | auto]. }
    destruct HTS; split_p0; cbn [pending sh_push sh_set_fip sh_wait sh_ack sh_steal sh_drain sh_write sh_complete sh_err sh_notify_all];
      intros c0 Hin;
      try (apply Hkeep; [exact Hin|]; cbn; intros Hm Ho; first [discriminate Ho | split; [exact Hm | first [exact Ho | reflexivity]]]).
    - (* push *)
      apply in_app_iff in Hin. destruct Hin as [Hin|[<-|[]]].
      + apply Hkeep; [exact Hin|]. cbn. intros _ Ho. discriminate Ho.
      + exists t. eexists. split; [apply lget_lset_same|]. cbn. auto.
    - (* load_done S301 *) apply Hkeep; [exact Hin|]. cbn. intros -> _. exfalso.
      eapply done_not_pending; [exact HS | apply memZ_In; eassumption | exact Hin].
    - (* load_done WHead *) apply Hkeep; [exact Hin|]. cbn. intros -> _. exfalso.
      eapply done_not_pending; [exact HS | apply memZ_In; eassumption | exact Hin].
    - (* chk_done *) apply Hkeep; [exact Hin|]. cbn. intros -> _. exfalso.
      eapply done_not_pending; [exact HS | apply memZ_In; eassumption | exact Hin].
    - (* none *) exfalso. assert (Hp : pending s = []) by (apply nonempty_false; assumption). rewrite Hp in Hin. destruct Hin.
    - (* drain *) destruct Hin.
  Qed.

  Lemma pend_taken_mono :
    forall c, In c (pending s) \/ In c (map fst (taken s)) -> In c (pending s') \/ In c (map fst (taken s')).
  Proof.
    destruct HTS; cbn [pending taken sh_push sh_set_fip sh_wait sh_ack sh_steal sh_drain sh_write sh_complete sh_err sh_notify_all]; auto.
    - intros c0 [Hc|Hc]; [left; apply in_app_iff; left; exact Hc | right; exact Hc].
    - intros c0 [Hc|Hc]; right; rewrite map_app, map_fst_pair; apply in_app_iff; [right|left]; exact Hc.
  Qed.

  Lemma pres_subs :
    forall c lb, In (c, lb) (subs s') -> In c (pending s') \/ In c (map fst (taken s')).
  Proof.
    pose proof (li_subs _ _ HL) as Hold. cbn [sh thrs] in Hold.
    intros c lb Hin.
    assert (Hc : In (c, lb) (subs s) \/ (c = next_id s /\ pending s' = pending s ++ [next_id s])).
    { destruct HTS; cbn [subs pending sh_push sh_set_fip sh_wait sh_ack sh_steal sh_drain sh_write sh_complete sh_err sh_notify_all] in *; auto.
      apply in_app_iff in Hin. destruct Hin as [Hin|[Hin|[]]]; [left; exact Hin | right]. injection Hin as <- _. auto. }
    destruct Hc as [Hc|[-> Hp]].
    - apply pend_taken_mono. eapply Hold. exact Hc.
    - left. rewrite Hp. apply in_app_iff. right. left. reflexivity.
  Qed.

  Lemma att_mono : forall c, In c (att_ok s ++ att_fail s) -> In c (att_ok s' ++ att_fail s').
  Proof.
    destruct HTS; cbn [att_ok att_fail sh_push sh_set_fip sh_wait sh_ack sh_steal sh_drain sh_write sh_complete sh_err sh_notify_all]; auto.
    intros c0 Hc. destruct (write_ok (op_wfail cu) b); rewrite ?in_app_iff in *; tauto.
  Qed.

  Lemma pres_att :
    forall c u, In (c, u) (taken s') ->
      In c (att_ok s' ++ att_fail s') \/
      exists x, lget (lset l t th') u = Some x /\ pc x = S404 /\ In c (batch x).
  Proof.
    pose proof (li_att _ _ HL) as Hold. cbn [sh thrs] in Hold.
    intros c u Hin.
    assert (Hc : In (c, u) (taken s) \/ (u = t /\ pc th' = S404 /\ In c (batch th'))).
    { destruct HTS; cbn [taken sh_push sh_set_fip sh_wait sh_ack sh_steal sh_drain sh_write sh_complete sh_err sh_notify_all] in *; auto.
      apply in_app_iff in Hin. destruct Hin as [Hin|Hin]; [left; exact Hin | right].
      apply in_pair_map in Hin. destruct Hin as [Hin ->]. cbn. auto. }
    destruct Hc as [Hc|[-> [Hp Hb]]].
    - destruct (Hold c u Hc) as [Ha|[x [Hu [Hp Hb]]]]; [left; apply att_mono; exact Ha|].
      destruct (Nat.eq_dec t u) as [->|Hne].
      + (* the holder moves: it can only be the write *)
        assert (x = th) by congruence. subst x.
        destruct HTS; split_p0; cbn [pc] in Hp; try discriminate Hp. cbn [batch] in Hb. left.
        cbn [att_ok att_fail sh_write]. destruct (write_ok (op_wfail cu) b); rewrite ?in_app_iff; tauto.
      + right. exists x. split; [rewrite lget_lset_other by exact Hne; exact Hu | auto].
    - right. exists th'. split; [apply lget_lset_same | auto].
  Qed.

  Lemma LI_pres : LI fx (MkSt s' (lset l t th')).
  Proof.
    constructor; cbn [sh thrs].
    - apply pres_fip. - apply pres_wait. - apply pres_held. - apply pres_sub.
    - apply pres_owner. - apply pres_subs. - apply pres_att.
  Qed.
End Step.

Definition LInv (fx : bool) (s : St) : Prop := Inv s /\ LI fx s.

Lemma LInv_step fx t s s' : LInv fx s -> step fx t s = Some s' -> LInv fx s'.
Proof.
  intros [HI HL] Hst. split; [eapply Inv_step; eauto|].
  destruct (step_inv _ _ _ _ Hst) as [th0 [sh' [th' [Hl [Ht ->]]]]].
  destruct s as [sh0 l]. cbn [sh thrs] in *.
  eapply LI_pres; [exact Hl | apply tstep_TS; exact Ht | apply (proj1 HI) | exact HL].
Qed.

Lemma LInv_init fx progs : LInv fx (init progs).
Proof.
  split; [apply Inv_init|]. constructor; cbn [init sh thrs init_sh fip waiters taken pending subs].
  - discriminate.
  - intros H. exfalso. apply H. reflexivity.
  - intros c u [].
  - intros u th Hu. apply lget_number_from in Hu. apply in_map_iff in Hu. destruct Hu as [p [<- _]]. cbn. discriminate.
  - intros c [].
  - intros c lb [].
  - intros c u [].
Qed.

Theorem LInv_run fx progs sched : LInv fx (run (step fx) sched (init progs)).
Proof. apply invariant_rule; [apply LInv_init | intros t s s'; apply LInv_step]. Qed.


(* ------------------------------------------------------------------ no lost wake-up *)
(* a thread that is on its way to notify_all: it holds a drained batch, or it is about to call
   take_pending on a non-empty queue *)
Definition flusher (fx : bool) (s : shared) (th : thr) : Prop :=
  comm2 th = true \/ (potent fx th = true /\ pending s <> []).

(* number of its own steps after which such a thread has called notify_all (upper bound) *)
Definition dist (s : shared) (th : thr) : nat :=
  match pc th with
  | CNotify | FNotify => 1
  | S305 | FUnlock => 2
  | MarkC todo => 3 + length todo
  | MarkF1 todo => 3 + 2 * length todo
  | MarkF2 _ r => 4 + 2 * length r
  | S403 => 4 + 2 * length (batch th)
  | S404 => 5 + 2 * length (batch th)
  | S304 => 6 + 2 * length (pending s)
  | S402 => 7 + 2 * length (pending s)
  | _ => 0
  end%nat.

Lemma step_of_tstep fx u s th s' th' :
  lget (thrs s) u = Some th -> tstep fx u (sh s) th = Some (s', th') ->
  step fx u s = Some (MkSt s' (lset (thrs s) u th')).
Proof. intros Hl Ht. unfold step. rewrite Hl, Ht. reflexivity. Qed.

Lemma solo_notifies fx : forall n s u th,
  lget (thrs s) u = Some th -> flusher fx (sh s) th -> (dist (sh s) th <= n)%nat ->
  exists m, waiters (sh (run (step fx) (repeat u m) s)) = [].
Proof.
  induction n as [|n IH]; intros s u th Hl Hf Hd.
  - exfalso. destruct Hf as [Hf|[Hf _]]; unfold comm2, potent, dist in *; destruct (pc th); try discriminate; lia.
  - assert (Hgo : forall s' th', tstep fx u (sh s) th = Some (s', th') ->
                  waiters s' = [] \/ (flusher fx s' th' /\ (dist s' th' < dist (sh s) th)%nat) ->
                  exists m, waiters (sh (run (step fx) (repeat u m) s)) = []).
    { intros s' th' Ht [Hw|[Hf' Hlt]].
      - exists 1%nat. cbn [repeat run]. rewrite (step_of_tstep _ _ _ _ _ _ Hl Ht). exact Hw.
      - destruct (IH (MkSt s' (lset (thrs s) u th')) u th') as [m Hm].
        + cbn [thrs]. apply lget_lset_same.
        + exact Hf'.
        + cbn [sh]. lia.
        + exists (S m). cbn [repeat run]. rewrite (step_of_tstep _ _ _ _ _ _ Hl Ht). exact Hm. }
    destruct th as [pr cu p k id el b w]. unfold flusher, comm2, potent, dist in Hf, Hd, Hgo |- *.
    cbn [pc elected batch] in *.
    destruct p; try (destruct Hf as [Hf|[Hf _]]; discriminate Hf).
    + (* S402 *) destruct Hf as [Hf|[Hf Hp]]; [discriminate|].
      eapply Hgo; [unfold tstep; cbn [pc elected]|].
      * replace (fx && negb el) with false by (destruct fx, el; cbn in *; congruence). reflexivity.
      * right. cbn [pc elected batch set_pc set_batch set_written sh_drain pending sh]. split; [right; auto | lia].
    + (* S304 *) destruct Hf as [Hf|[Hf Hp]]; [discriminate|].
      eapply Hgo; [unfold tstep; cbn [pc elected myid]|].
      * replace (nonempty (pending (sh s))) with true by (symmetry; apply nonempty_true; exact Hp). reflexivity.
      * right. cbn [pc elected batch set_pc set_batch set_written sh_drain pending sh]. split; [left; reflexivity | lia].
    + (* S404 *) eapply Hgo; [unfold tstep; cbn [pc cur batch]; reflexivity|].
      right. cbn [pc elected batch set_pc set_batch set_written sh_drain pending sh]. split; [left; reflexivity | lia].
    + (* S403 *) eapply Hgo; [unfold tstep; cbn [pc wok batch]; reflexivity|].
      right. destruct w; cbn [pc elected batch set_pc set_batch set_written sh_drain pending sh]; (split; [left; reflexivity | lia]).
    + (* MarkC *) destruct todo as [|c r].
      * eapply Hgo; [unfold tstep; cbn [pc]; reflexivity|]. right. cbn [pc elected batch set_pc set_batch set_written sh_drain pending sh]. split; [left; reflexivity | cbn [length]; lia].
      * eapply Hgo; [unfold tstep; cbn [pc]; reflexivity|]. right. cbn [pc elected batch set_pc set_batch set_written sh_drain pending sh]. split; [left; reflexivity | cbn [length]; lia].
    + (* MarkF1 *) destruct todo as [|c r].
      * eapply Hgo; [unfold tstep; cbn [pc]; reflexivity|]. right. cbn [pc elected batch set_pc set_batch set_written sh_drain pending sh]. split; [left; reflexivity | cbn [length]; lia].
      * eapply Hgo; [unfold tstep; cbn [pc]; reflexivity|]. right. cbn [pc elected batch set_pc set_batch set_written sh_drain pending sh]. split; [left; reflexivity | cbn [length]; lia].
    + (* MarkF2 *) eapply Hgo; [unfold tstep; cbn [pc]; reflexivity|]. right. cbn [pc elected batch set_pc set_batch set_written sh_drain pending sh]. split; [left; reflexivity | lia].
    + (* S305 *) eapply Hgo; [unfold tstep; cbn [pc]; reflexivity|]. right. cbn [pc elected batch set_pc set_batch set_written sh_drain pending sh]. split; [left; reflexivity | lia].
    + (* CNotify *) eapply Hgo; [unfold tstep; cbn [pc]; reflexivity|]. left. reflexivity.
    + (* FUnlock *) eapply Hgo; [unfold tstep; cbn [pc]; reflexivity|]. right. cbn [pc elected batch set_pc set_batch set_written sh_drain pending sh]. split; [left; reflexivity | lia].
    + (* FNotify *) eapply Hgo; [unfold tstep; cbn [pc]; reflexivity|]. left. reflexivity.
Qed.

Lemma flusher_enabled fx s u th :
  lget (thrs s) u = Some th -> flusher fx (sh s) th -> step fx u s <> None.
Proof.
  intros Hl Hf. unfold step. rewrite Hl. destruct (tstep fx u (sh s) th) as [[s' th']|] eqn:E; [discriminate|].
  exfalso. destruct (tstep_enabled _ _ _ _ E) as [[Hp _]|[Hp _]];
    destruct Hf as [Hf|[Hf _]]; unfold comm2, potent in Hf; rewrite Hp in Hf; discriminate.
Qed.

(* In every reachable state in which some committer is blocked in flush_complete.wait, there is
   another thread that is not blocked, that is on its way to notify_all, and that reaches its
   notify_all (emptying the wait set) within finitely many of its own steps. *)
Lemma no_lost_wakeup_l :
  forall fx progs sched t,
    let s := run (step fx) sched (init progs) in
    blocked t s = true ->
    exists u th, u <> t /\ lget (thrs s) u = Some th /\ flusher fx (sh s) th /\
                 step fx u s <> None /\
                 exists m, waiters (sh (run (step fx) (repeat u m) s)) = [].
Proof.
  intros fx progs sched t s Hb.
  destruct (LInv_run fx progs sched) as [_ HL]. fold s in HL.
  unfold blocked in Hb. destruct (lget (thrs s) t) as [tht|] eqn:Et; [|discriminate].
  destruct (pc tht) eqn:Ep; try discriminate.
  assert (Hw : waiters (sh s) <> []).
  { intros E. rewrite E in Hb. discriminate. }
  assert (Hex : exists u th, lget (thrs s) u = Some th /\ flusher fx (sh s) th).
  { destruct (li_wait _ _ HL Hw) as [[u [th [Hu Hc]]]|[Hp [u [th [Hu Hc]]]]].
    - exists u, th. split; [exact Hu | left; exact Hc].
    - exists u, th. split; [exact Hu | right; auto]. }
  destruct Hex as [u [th [Hu Hf]]]. exists u, th.
  split.
  - intros ->. assert (th = tht) by congruence. subst th.
    destruct Hf as [Hf|[Hf _]]; unfold comm2, potent in Hf; rewrite Ep in Hf; discriminate.
  - split; [exact Hu|]. split; [exact Hf|]. split; [eapply flusher_enabled; eauto|].
    eapply solo_notifies; eauto.
Qed.

(* ------------------------------------------------------------------ quiescence *)
Lemma lget_In {L} (l : list (nat * L)) u x : lget l u = Some x -> In (u, x) l.
Proof.
  induction l as [|[k v] l IH]; cbn [lget]; [discriminate|].
  destruct (Nat.eqb k u) eqn:E; [apply Nat.eqb_eq in E; intros H; injection H as <-; subst; left; reflexivity | intros H; right; auto].
Qed.

Lemma all_finished_pc s u th : all_finished s = true -> lget (thrs s) u = Some th -> pc th = Idle.
Proof.
  intros Ha Hu. unfold all_finished in Ha. rewrite forallb_forall in Ha.
  specialize (Ha _ (lget_In _ _ _ Hu)). cbn [snd] in Ha. unfold finished in Ha.
  destruct (pc th); try discriminate. reflexivity.
Qed.

(* When every committer has returned: the flush flag is clear, nobody is in the wait set, the
   queue is empty, and every commit that was ever submitted has been handed to exactly one WAL
   write: it is in the log (successful batch) or it was a member of a failed batch. *)
Lemma quiescent_l :
  forall fx progs sched,
    let s := run (step fx) sched (init progs) in
    all_finished s = true ->
    fip (sh s) = false /\ waiters (sh s) = [] /\ pending (sh s) = [] /\
    forall c lb, In (c, lb) (subs (sh s)) ->
      (In c (log (sh s)) /\ ~ In c (att_fail (sh s))) \/ In c (att_fail (sh s)).
Proof.
  intros fx progs sched s Ha.
  destruct (LInv_run fx progs sched) as [[HS _] HL]. fold s in HS, HL.
  assert (Hno : forall P, (forall th, pc th = Idle -> P th = false) -> ~ Ex P (thrs s)).
  { intros P HP [u [th [Hu Hp]]]. rewrite (HP th (all_finished_pc _ _ _ Ha Hu)) in Hp. discriminate. }
  assert (Hp : pending (sh s) = []).
  { destruct (pending (sh s)) as [|c r] eqn:E; [reflexivity|]. exfalso.
    destruct (li_owner _ _ HL c) as [u [th [Hu [_ Ho]]]]; [rewrite E; left; reflexivity|].
    unfold owner in Ho. rewrite (all_finished_pc _ _ _ Ha Hu) in Ho. discriminate. }
  split; [|split; [|split; [exact Hp|]]].
  - destruct (fip (sh s)) eqn:E; [|reflexivity]. exfalso.
    destruct (li_fip _ _ HL E) as [A|[_ B]]; revert A || revert B; apply Hno; intros th Hpc; unfold comm1, potent; rewrite Hpc; reflexivity.
  - destruct (waiters (sh s)) as [|w r] eqn:E; [reflexivity|]. exfalso.
    destruct (li_wait _ _ HL) as [A|[_ B]]; [rewrite E; discriminate | |]; revert A || revert B; apply Hno; intros th Hpc; unfold comm2, potent; rewrite Hpc; reflexivity.
  - intros c lb Hc. destruct (li_subs _ _ HL c lb Hc) as [H|H]; [rewrite Hp in H; destruct H|].
    apply in_map_iff in H. destruct H as [[c' u] [Hc' Hin]]. cbn [fst] in Hc'. subst c'.
    destruct (li_att _ _ HL c u Hin) as [Hatt|[th [Hu [Hpc _]]]].
    + apply in_app_iff in Hatt. destruct Hatt as [Hok|Hf]; [left|right; exact Hf].
      split; [apply (si_ok_log _ HS); exact Hok | apply (NoDup_app_disj _ _ _ (si_att _ HS)); exact Hok].
    + rewrite (all_finished_pc _ _ _ Ha Hu) in Hpc. discriminate.
Qed.
