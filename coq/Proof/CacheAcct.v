(* C35 proofs, part 6: memory-budget accounting, for every interleaving.  As long as no init closure
   failed after the charge ([gleak]) and no residency change happened inside another thread's clear()
   window ([grace]), the Cache-pool counter equals
       c0 + PAGE_SIZE * (resident pages) + (what the threads inside an operation still owe / hold),
   hence exactly c0 + PAGE_SIZE * len() whenever no operation is in progress. *)
From Coq Require Import ZArith List Bool Arith Lia.
From TV Require Import Lib.Interleave Gen.CacheConsts Model.Cache Proof.CacheShard Proof.CacheInv.
Import ListNotations.
Open Scope Z_scope.

Definition PS : Z := PAGE_SIZE.
Lemma PS_pos : 0 < PS. Proof. reflexivity. Qed.

(* ------------------------------------------------------------------ shard lengths as a vector *)
Definition lens (ss : list shard) : list Z := map (fun sh => Z.of_nat (length (ents sh))) ss.
Definition zsum (l : list Z) : Z := fold_right Z.add 0 l.
Definition len_upto (L : list Z) (i : nat) : Z := zsum (firstn i L).
Definition len_from (L : list Z) (i : nat) : Z := zsum (skipn i L).

Lemma total_len_lens s : total_len s = zsum (lens (shs s)).
Proof. unfold total_len, lens, zsum. induction (shs s) as [|a l IH]; cbn [fold_right map]; [reflexivity|]. rewrite IH. reflexivity. Qed.

Lemma lens_length ss : length (lens ss) = length ss.
Proof. apply map_length. Qed.

Lemma lens_nth ss i sh : nth_error ss i = Some sh -> nth_error (lens ss) i = Some (Z.of_nat (length (ents sh))).
Proof. intros H. unfold lens. rewrite nth_error_map, H. reflexivity. Qed.

Lemma lens_set_nth ss i sh' : lens (set_nth ss i sh') = set_nth (lens ss) i (Z.of_nat (length (ents sh'))).
Proof. revert i; induction ss as [|a l IH]; intros [|i]; cbn [set_nth lens map]; try reflexivity. f_equal. apply IH. Qed.

Lemma set_nth_same {A} (l : list A) i x : nth_error l i = Some x -> set_nth l i x = l.
Proof. revert i; induction l as [|a l IH]; intros [|i] H; cbn [set_nth] in *; try discriminate; [inversion H; reflexivity | f_equal; apply IH; exact H]. Qed.

Lemma lens_same ss i sh sh' :
  nth_error ss i = Some sh -> length (ents sh') = length (ents sh) -> lens (set_nth ss i sh') = lens ss.
Proof. intros Hn Hl. rewrite lens_set_nth, Hl. apply set_nth_same. apply lens_nth. exact Hn. Qed.

Lemma zsum_nonneg L : (forall x, In x L -> 0 <= x) -> 0 <= zsum L.
Proof. induction L as [|a l IH]; intros H; cbn [zsum fold_right]; [lia|]. fold (zsum l). assert (0 <= a) by (apply H; left; reflexivity). assert (0 <= zsum l) by (apply IH; intros; apply H; right; assumption). lia. Qed.

Lemma lens_nonneg ss x : In x (lens ss) -> 0 <= x.
Proof. unfold lens. intros H. apply in_map_iff in H. destruct H as (sh & <- & _). lia. Qed.

Lemma zsum_set_nth L j x y : nth_error L j = Some x -> zsum (set_nth L j y) = zsum L - x + y.
Proof.
  revert j; induction L as [|a l IH]; intros [|j] H; cbn [set_nth nth_error] in *; try discriminate.
  - inversion H; subst. cbn [zsum fold_right]. lia.
  - cbn [zsum fold_right]. fold (zsum l). fold (zsum (set_nth l j y)). rewrite (IH j H). lia.
Qed.

Lemma firstn_set_nth_ge {A} (L : list A) i j y : (i <= j)%nat -> firstn i (set_nth L j y) = firstn i L.
Proof.
  revert i j; induction L as [|a l IH]; intros i j H; [destruct j; reflexivity|].
  destruct i; [reflexivity|]. destruct j; [lia|]. cbn [set_nth firstn]. f_equal. apply IH. lia.
Qed.

Lemma skipn_set_nth_lt {A} (L : list A) i j y : (j < i)%nat -> skipn i (set_nth L j y) = skipn i L.
Proof.
  revert i j; induction L as [|a l IH]; intros i j H; [destruct j; reflexivity|].
  destruct i; [lia|]. destruct j; cbn [set_nth skipn]; [reflexivity|]. apply IH. lia.
Qed.

Lemma firstn_S_sum L i x : nth_error L i = Some x -> zsum (firstn (S i) L) = zsum (firstn i L) + x.
Proof.
  revert i; induction L as [|a l IH]; intros [|i] H; cbn [nth_error] in H; try discriminate.
  - inversion H; subst. cbn. lia.
  - change (firstn (S (S i)) (a :: l)) with (a :: firstn (S i) l). change (firstn (S i) (a :: l)) with (a :: firstn i l).
    cbn [zsum fold_right]. fold (zsum (firstn (S i) l)). fold (zsum (firstn i l)). rewrite (IH i H). lia.
Qed.

Lemma skipn_S_sum L i x : nth_error L i = Some x -> zsum (skipn i L) = x + zsum (skipn (S i) L).
Proof.
  revert i; induction L as [|a l IH]; intros [|i] H; cbn [nth_error] in H; try discriminate.
  - inversion H; subst. reflexivity.
  - change (skipn (S i) (a :: l)) with (skipn i l). change (skipn (S (S i)) (a :: l)) with (skipn (S i) l). apply IH. exact H.
Qed.

(* ------------------------------------------------------------------ what a thread inside an operation holds or owes *)
Definition cont_charge (c : cont) : Z := match c with KInit _ => PS | _ => 0 end.
Definition contrib (L : list Z) (p : pcT) : Z :=
  match p with
  | PFull _ | PInit _ => PS
  | PRel0 n c | PRel1 n _ c => n + cont_charge c
  | PClSh i acc => PS * (acc - len_from L i)
  | _ => 0
  end.
Definition clear_ok (L : list Z) (p : pcT) : Prop :=
  match p with
  | PClLen i acc => acc = len_upto L i
  | PCl502 acc => acc = zsum L
  | PClSh i acc => len_from L i <= acc
  | PRel0 n _ | PRel1 n _ _ => 0 <= n
  | _ => True
  end.
Definition tsum (L : list Z) (ths : list (nat * thread)) : Z :=
  fold_right (fun p a => contrib L (pc (snd p)) + a) 0 ths.

Lemma contrib_nonneg L p : clear_ok L p -> 0 <= contrib L p.
Proof.
  assert (P := PS_pos). destruct p; cbn [contrib clear_ok]; intros H; try lia.
  - destruct c; cbn [cont_charge]; lia.
  - destruct c; cbn [cont_charge]; lia.
  - nia.
Qed.

Lemma tsum_lset L L' ths t th th' :
  NoDup (map fst ths) -> lget ths t = Some th ->
  (forall u thu, In (u, thu) ths -> u <> t -> contrib L' (pc thu) = contrib L (pc thu)) ->
  tsum L' (lset ths t th') = tsum L ths - contrib L (pc th) + contrib L' (pc th').
Proof.
  induction ths as [|[u w] r IH]; cbn [lget lset map fst]; [discriminate|].
  intros Hnd Hg Hfr. inversion Hnd as [|? ? Hnotin Hnd']; subst.
  destruct (Nat.eqb u t) eqn:E.
  - apply Nat.eqb_eq in E. subst u. inversion Hg; subst w. cbn [tsum fold_right snd].
    fold (tsum L r). fold (tsum L' r).
    assert (Q : tsum L' r = tsum L r).
    { clear -Hfr Hnotin. induction r as [|[v x] r IH]; [reflexivity|]. cbn [tsum fold_right snd]. fold (tsum L r). fold (tsum L' r).
      rewrite IH.
      - rewrite (Hfr v x); [reflexivity | right; left; reflexivity |]. intros ->. apply Hnotin. left. reflexivity.
      - intros Hin. apply Hnotin. right. exact Hin.
      - intros v' x' Hin Hne. apply (Hfr v' x'); [|assumption]. destruct Hin as [Hin|Hin]; [left; assumption | right; right; assumption]. }
    rewrite Q. lia.
  - apply Nat.eqb_neq in E. cbn [tsum fold_right snd]. fold (tsum L r). fold (tsum L' (lset r t th')).
    rewrite (IH Hnd' Hg); [|intros v x Hin Hne; apply (Hfr v x); [right; assumption | assumption]].
    rewrite (Hfr u w); [lia | left; reflexivity | assumption].
Qed.

Lemma tsum_ge L ths t th :
  (forall u thu, In (u, thu) ths -> 0 <= contrib L (pc thu)) -> lget ths t = Some th -> contrib L (pc th) <= tsum L ths.
Proof.
  induction ths as [|[u w] r IH]; cbn [lget]; [discriminate|]. intros Hnn Hg.
  cbn [tsum fold_right snd]. fold (tsum L r).
  assert (Hr : 0 <= tsum L r).
  { clear -Hnn. induction r as [|[v x] r IH]; cbn [tsum fold_right snd]; [lia|]. fold (tsum L r).
    assert (0 <= contrib L (pc x)) by (apply (Hnn v x); right; left; reflexivity).
    assert (0 <= tsum L r) by (apply IH; intros v' x' Hin; apply (Hnn v' x'); destruct Hin as [Hin|Hin]; [left; assumption | right; right; assumption]). lia. }
  destruct (Nat.eqb u t).
  - inversion Hg; subst w. lia.
  - assert (0 <= contrib L (pc w)) by (apply (Hnn u w); left; reflexivity).
    assert (contrib L (pc th) <= tsum L r) by (apply IH; [intros v x Hin; apply (Hnn v x); right; assumption | assumption]). lia.
Qed.

Lemma tsum_idle L ths : (forall u thu, In (u, thu) ths -> pc thu = PIdle) -> tsum L ths = 0.
Proof.
  induction ths as [|[u w] r IH]; intros H; cbn [tsum fold_right snd]; [reflexivity|]. fold (tsum L r).
  rewrite (H u w) by (left; reflexivity). rewrite IH by (intros v x Hin; apply (H v x); right; assumption). reflexivity.
Qed.

Lemma map_fst_lset {L} (l : list (nat * L)) t v v0 : lget l t = Some v0 -> map fst (lset l t v) = map fst l.
Proof.
  induction l as [|[k w] r IH]; cbn [lget lset map fst]; [discriminate|].
  destruct (Nat.eqb k t) eqn:E; intros H; cbn [map fst]; [reflexivity | f_equal; apply IH; exact H].
Qed.

Lemma In_lget {L} (l : list (nat * L)) t v : NoDup (map fst l) -> In (t, v) l -> lget l t = Some v.
Proof.
  induction l as [|[k w] r IH]; cbn [map fst lget]; intros Hnd Hin; [contradiction|].
  inversion Hnd as [|? ? Hnotin Hnd']; subst. destruct Hin as [Hin|Hin].
  - inversion Hin; subst. rewrite Nat.eqb_refl. reflexivity.
  - destruct (Nat.eqb k t) eqn:E; [|apply IH; assumption].
    apply Nat.eqb_eq in E. subst k. exfalso. apply Hnotin. apply in_map_iff. exists (t, v). split; [reflexivity | assumption].
Qed.

Lemma In_lset_strong {L} (l : list (nat * L)) t v v0 x :
  NoDup (map fst l) -> lget l t = Some v0 -> In x (lset l t v) -> x = (t, v) \/ (In x l /\ fst x <> t).
Proof.
  induction l as [|[k w] r IH]; cbn [lget lset map fst]; [discriminate|]. intros Hnd Hg Hin.
  inversion Hnd as [|? ? Hnotin Hnd']; subst. destruct (Nat.eqb k t) eqn:E.
  - apply Nat.eqb_eq in E. subst k. destruct Hin as [Hin|Hin]; [left; auto|].
    right. split; [right; assumption|]. intros Hx. apply Hnotin. apply in_map_iff. exists x. split; assumption.
  - apply Nat.eqb_neq in E. destruct Hin as [Hin|Hin].
    + right. subst x. split; [left; reflexivity | exact E].
    + destruct (IH Hnd' Hg Hin) as [Hx|(Hx & Hne)]; [left; assumption | right; split; [right; assumption | assumption]].
Qed.

(* threads other than t are outside the window at shard j *)
Lemma covered_false ths t j u thu :
  covered ths t j = false -> In (u, thu) ths -> u <> t -> in_window (pc thu) j = false.
Proof.
  unfold covered. intros H Hin Hne.
  destruct (in_window (pc thu) j) eqn:E; [|reflexivity].
  assert (Q : existsb (fun p : nat * thread => negb (Nat.eqb (fst p) t) && in_window (pc (snd p)) j) ths = true).
  { apply existsb_exists. exists (u, thu). split; [assumption|]. cbn [fst snd]. rewrite E.
    apply Nat.eqb_neq in Hne. rewrite Hne. reflexivity. }
  congruence.
Qed.

Lemma frame_out_of_window L j y p :
  in_window p j = false -> contrib (set_nth L j y) p = contrib L p /\ (clear_ok L p -> clear_ok (set_nth L j y) p).
Proof.
  destruct p; cbn [in_window contrib clear_ok]; intros H; try (split; [reflexivity | auto]); try discriminate.
  - apply Nat.ltb_ge in H. unfold len_upto. rewrite firstn_set_nth_ge by assumption. auto.
  - apply Nat.leb_gt in H. unfold len_from. rewrite skipn_set_nth_lt by assumption. auto.
Qed.

(* ------------------------------------------------------------------ the invariant *)
Definition acct_body (c0 : Z) (s : st) : Prop :=
  used s = c0 + PS * zsum (lens (shs s)) + tsum (lens (shs s)) (thr s) /\
  forall u thu, In (u, thu) (thr s) -> clear_ok (lens (shs s)) (pc thu).
Definition acct (c0 : Z) (s : st) : Prop := gleak s = false -> grace s = false -> acct_body c0 s.

(* a step of t that leaves all shard lengths alone *)
Lemma acct_same c0 s t th th' ss' used' :
  NoDup (map fst (thr s)) -> lget (thr s) t = Some th -> acct_body c0 s ->
  lens ss' = lens (shs s) ->
  used' - used s = contrib (lens (shs s)) (pc th') - contrib (lens (shs s)) (pc th) ->
  clear_ok (lens (shs s)) (pc th') ->
  used' = c0 + PS * zsum (lens ss') + tsum (lens ss') (lset (thr s) t th') /\
  forall u thu, In (u, thu) (lset (thr s) t th') -> clear_ok (lens ss') (pc thu).
Proof.
  intros Hnd Hth (HA & HB) HL Hu Hc. rewrite HL. split.
  - rewrite (tsum_lset _ _ _ _ _ th' Hnd Hth) by reflexivity. lia.
  - intros u thu Hin. apply In_lset in Hin. destruct Hin as [Hin|Hin]; [inversion Hin; subst; exact Hc | eapply HB; eauto].
Qed.

(* a step of t that changes the length of shard j from x to y, outside every other thread's window *)
Lemma acct_len c0 s t th th' ss' used' j x y :
  NoDup (map fst (thr s)) -> lget (thr s) t = Some th -> acct_body c0 s ->
  nth_error (lens (shs s)) j = Some x -> lens ss' = set_nth (lens (shs s)) j y ->
  covered (thr s) t j = false ->
  used' - used s = PS * (y - x) + contrib (lens ss') (pc th') - contrib (lens (shs s)) (pc th) ->
  clear_ok (lens ss') (pc th') ->
  used' = c0 + PS * zsum (lens ss') + tsum (lens ss') (lset (thr s) t th') /\
  forall u thu, In (u, thu) (lset (thr s) t th') -> clear_ok (lens ss') (pc thu).
Proof.
  intros Hnd Hth (HA & HB) Hx HL Hcov Hu Hc. split.
  - rewrite (tsum_lset (lens (shs s)) (lens ss') _ _ _ th' Hnd Hth).
    + rewrite HL at 1. rewrite (zsum_set_nth _ _ _ _ Hx). lia.
    + intros u thu Hin Hne. rewrite HL. apply frame_out_of_window. eapply covered_false; eauto.
  - intros u thu Hin. apply (In_lset_strong _ _ _ _ _ Hnd Hth) in Hin.
    destruct Hin as [Hin|(Hin & Hne)]; [inversion Hin; subst; exact Hc|]. cbn [fst] in Hne.
    rewrite HL. apply frame_out_of_window; [eapply covered_false; eauto | eapply HB; eauto].
Qed.

Ltac flags_false Hl Hr :=
  cbn [gleak grace upd upd_th upd_sh mark_race set_glast set_gleak set_alock] in Hl, Hr;
  try discriminate Hl;
  try (apply orb_false_elim in Hr; destruct Hr as (Hr & Hcov)).

Ltac zlia := unfold PS, PAGE_SIZE in *; lia.

Lemma acct_step c0 t s s' :
  inv1 s -> NoDup (map fst (thr s)) -> 0 <= c0 -> acct c0 s -> step t s = Some s' -> acct c0 s'.
Proof.
  intros Hinv Hnd Hc0 Hacct H. unfold step in H.
  destruct (lget (thr s) t) as [th|] eqn:Hth; [|discriminate].
  assert (Ht := proj2 Hinv t th Hth).
  assert (Hso := proj1 Hinv).
  destruct (pc th) eqn:Hpc.
  all: try (unfold start_op in H).
  all: brk H.
  all: try (inversion H; subst s'; clear H).
  all: try match goal with |- context [match ents ?x with _ => _ end] => destruct (ents x) eqn:? end.
  all: intros Hl' Hr'; flags_false Hl' Hr'.
  all: assert (Hb := Hacct Hl' Hr').
  all: unfold acct_body; cbn [used shs thr upd upd_th upd_sh mark_race set_glast set_gleak set_alock].
  (* nothing that matters to the accounting changes *)
  all: try (solve [eapply acct_same; [exact Hnd | exact Hth | exact Hb | reflexivity | rewrite Hpc; cbn [pc set_pc finish finish_hold contrib cont_charge]; lia | cbn [pc set_pc finish finish_hold clear_ok]; exact I]]).
  (* facts about the shard being touched *)
  all: try match goal with
       | Hn : nth_error (shs _) ?i = Some ?sh |- _ =>
           let Hwf := fresh "Hwf" in let Hkeys := fresh "Hkeys" in
           destruct (proj2 Hso i sh Hn) as (Hwf & Hkeys)
       end.
  all: try match goal with
       | Ht : tinv _ _ ?P, E : nth_error (shs _) ?i = Some ?sh |- _ =>
           let Hlk := fresh "Hlk" in let Htodo := fresh "Htodo" in
           destruct (tinv_ev _ _ P i _ sh Ht eq_refl E) as (Hlk & Htodo)
       end.
  all: try match goal with
       | Er : evict_remove ?x = ENotIndexed _ |- _ => exfalso; exact (proj1 (evict_remove_never x _ Hwf) Er)
       | Er : evict_remove ?x = EPanicked _ |- _ => exfalso; exact (proj2 (evict_remove_never x _ Hwf) Er)
       | Er : evict_remove ?x = ERemoved _ |- _ =>
           destruct (evict_removed_facts _ _ Hwf Er) as (Hwf' & Hw' & Hc' & Hlen' & Hk' & Hi')
       | Er : evict_remove ?x = ENothing _ |- _ =>
           destruct (evict_nothing_facts _ _ Hwf Er) as (Hwf' & Hw' & Hc' & Hlen' & Hk' & Hi')
       | Hp : probe_shard ?sh ?k = PrHit ?sh' |- _ =>
           let j := fresh "j" in let Hw := fresh "Hw" in let Hj := fresh "Hj" in let Hh := fresh "Hh" in
           destruct (probe_hit _ _ _ Hp) as (Hw & j & Hj & Hh);
           destruct (hit_entry_spec _ _ _ Hwf Hh) as (Hwf' & Hw' & Hi' & Hc' & Hlen' & Hk')
       | Hh : hit_entry _ _ = Some _ |- _ =>
           destruct (hit_entry_spec _ _ _ Hwf Hh) as (Hwf' & Hw' & Hi' & Hc' & Hlen' & Hk')
       end.
  (* the shard is replaced by one of the same length *)
  all: try (solve [eapply acct_same;
                   [exact Hnd | exact Hth | exact Hb
                   | eapply lens_same; [eassumption | first [reflexivity | exact Hlen' | cbn [set_ents ents]; apply set_nth_length]]
                   | rewrite Hpc; cbn [pc set_pc finish finish_hold contrib cont_charge]; lia
                   | cbn [pc set_pc finish finish_hold clear_ok]; first [exact I | unfold PS; cbv; discriminate]]]).
  all: assert (Hbt := proj2 Hb t th (lget_In _ _ _ Hth)); rewrite Hpc in Hbt; cbn [clear_ok] in Hbt.
  all: assert (HL : length (lens (shs s)) = NSH) by (rewrite lens_length; exact (proj1 Hso)).
  - (* clear() starts *)
    eapply acct_same; [exact Hnd | exact Hth | exact Hb | reflexivity | rewrite Hpc; cbn [pc set_pc contrib]; zlia | reflexivity].
  - (* the budget loop evicts a page *)
    match goal with Er : evict_remove ?sa = ERemoved ?sb |- _ =>
      eapply acct_len with (j := shard_of (gk g)) (x := Z.of_nat (length (ents sa))) (y := Z.of_nat (length (ents sb)));
      [exact Hnd | exact Hth | exact Hb | apply lens_nth; eassumption | apply lens_set_nth | exact Hcov
      | rewrite Hpc; cbn [pc set_pc contrib cont_charge]; zlia
      | cbn [pc set_pc clear_ok]; zlia] end.
  - (* allocate: the compare-exchange succeeds *)
    apply Z.eqb_eq in E.
    eapply acct_same; [exact Hnd | exact Hth | exact Hb | reflexivity | rewrite Hpc; cbn [pc set_pc contrib]; zlia | exact I].
  - (* the full shard evicts a page *)
    match goal with Er : evict_remove ?sa = ERemoved ?sb |- _ =>
      eapply acct_len with (j := shard_of (gk g)) (x := Z.of_nat (length (ents sa))) (y := Z.of_nat (length (ents sb)));
      [exact Hnd | exact Hth | exact Hb | apply lens_nth; eassumption | apply lens_set_nth | exact Hcov
      | rewrite Hpc; cbn [pc set_pc contrib cont_charge]; zlia
      | cbn [pc set_pc clear_ok]; zlia] end.
  - (* the full shard has nothing to evict: the charge is given back *)
    eapply acct_same; [exact Hnd | exact Hth | exact Hb | eapply lens_same; [eassumption | exact Hlen']
      | rewrite Hpc; cbn [pc set_pc contrib cont_charge]; zlia | cbn [pc set_pc clear_ok]; zlia].
  - (* insert *)
    match goal with En : nth_error (shs _) _ = Some ?sa |- _ =>
      eapply acct_len with (j := shard_of (gk g)) (x := Z.of_nat (length (ents sa))) (y := Z.of_nat (length (ents sa)) + 1);
      [exact Hnd | exact Hth | exact Hb | apply lens_nth; eassumption
      | rewrite lens_set_nth; cbn [set_wl insert ents]; rewrite app_length; cbn [length]; f_equal; zlia
      | exact Hcov
      | rewrite Hpc; cbn [pc finish_hold contrib]; zlia
      | exact I] end.
  - (* release: load *)
    eapply acct_same; [exact Hnd | exact Hth | exact Hb | reflexivity | rewrite Hpc; cbn [pc set_pc contrib]; zlia | exact Hbt].
  - (* release: the compare-exchange succeeds; nothing saturates *)
    apply Z.eqb_eq in E.
    assert (Hnn : forall u thu, In (u, thu) (thr s) -> 0 <= contrib (lens (shs s)) (pc thu))
      by (intros u thu Hin; apply contrib_nonneg; exact (proj2 Hb u thu Hin)).
    assert (Hge := tsum_ge _ _ _ _ Hnn Hth). rewrite Hpc in Hge. cbn [contrib] in Hge.
    assert (Hz : 0 <= zsum (lens (shs s))) by (apply zsum_nonneg; intros x Hx; eapply lens_nonneg; eauto).
    assert (HA := proj1 Hb). assert (P := PS_pos).
    assert (Hcc : 0 <= cont_charge c) by (destruct c; cbn [cont_charge]; zlia).
    assert (Hsat : sat_sub cur n = cur - n) by (unfold sat_sub; nia).
    rewrite Hsat.
    destruct c; cbn [resume];
      (eapply acct_same; [exact Hnd | exact Hth | exact Hb | reflexivity
                         | rewrite Hpc; cbn [pc set_pc finish contrib cont_charge]; zlia | exact I]).
  - (* release: the compare-exchange fails *)
    eapply acct_same; [exact Hnd | exact Hth | exact Hb | reflexivity | rewrite Hpc; cbn [pc set_pc contrib]; zlia | exact Hbt].
  - (* len() done *)
    apply Nat.leb_le in E.
    eapply acct_same; [exact Hnd | exact Hth | exact Hb | reflexivity | rewrite Hpc; cbn [pc set_pc contrib]; zlia |].
    cbn [pc set_pc clear_ok]. rewrite Hbt. unfold len_upto. rewrite firstn_all2 by lia. reflexivity.
  - (* len(): next shard *)
    eapply acct_same; [exact Hnd | exact Hth | exact Hb | reflexivity | rewrite Hpc; cbn [pc set_pc contrib]; zlia |].
    cbn [pc set_pc clear_ok]. unfold len_upto. rewrite (firstn_S_sum _ _ _ (lens_nth _ _ _ E0)). rewrite Hbt. reflexivity.
  - (* past site 502 *)
    eapply acct_same; [exact Hnd | exact Hth | exact Hb | reflexivity
      | rewrite Hpc; cbn [pc set_pc contrib]; unfold len_from; cbn [skipn]; rewrite Hbt; zlia
      | cbn [pc set_pc clear_ok]; unfold len_from; cbn [skipn]; zlia].
  - (* all shards cleared, nothing to release *)
    apply Nat.leb_le in E. apply Z.eqb_eq in E0.
    eapply acct_same; [exact Hnd | exact Hth | exact Hb | reflexivity | | exact I].
    rewrite Hpc; cbn [pc finish contrib]. unfold len_from. rewrite skipn_all2 by lia. cbn [zsum fold_right]. zlia.
  - (* all shards cleared, release what len() counted *)
    apply Nat.leb_le in E.
    assert (Q : len_from (lens (shs s)) i = 0) by (unfold len_from; rewrite skipn_all2 by lia; reflexivity).
    eapply acct_same; [exact Hnd | exact Hth | exact Hb | reflexivity
      | rewrite Hpc; cbn [pc set_pc contrib cont_charge]; rewrite Q; zlia
      | cbn [pc set_pc clear_ok]; rewrite Q in Hbt; assert (P := PS_pos); unfold PS in P; nia].
  - (* clear an empty shard *)
    match goal with En : nth_error (shs _) _ = Some ?x, Hem : ents ?x = [] |- _ =>
      assert (Hx := lens_nth _ _ _ En); rewrite Hem in Hx; cbn [length] in Hx;
      assert (Q := skipn_S_sum _ _ _ Hx);
      eapply acct_same; [exact Hnd | exact Hth | exact Hb | eapply lens_same; [eassumption | rewrite Hem; reflexivity]
        | rewrite Hpc; cbn [pc set_pc contrib]; unfold len_from; rewrite Q; change (Z.of_nat 0) with 0; zlia
        | cbn [pc set_pc clear_ok]; unfold len_from in *; rewrite Q in Hbt; change (Z.of_nat 0) with 0 in Hbt; zlia] end.
  - (* clear a non-empty shard *)
    match goal with En : nth_error (shs _) _ = Some ?sa |- _ =>
      assert (Hx := lens_nth _ _ _ En);
      assert (Q := skipn_S_sum _ _ _ Hx);
      assert (Q2 : len_from (set_nth (lens (shs s)) i 0) (S i) = len_from (lens (shs s)) (S i))
        by (unfold len_from; rewrite skipn_set_nth_lt by lia; reflexivity);
      eapply acct_len with (j := i) (x := Z.of_nat (length (ents sa))) (y := 0);
      [exact Hnd | exact Hth | exact Hb | exact Hx | rewrite lens_set_nth; reflexivity | exact Hcov
      | rewrite Hpc; cbn [pc set_pc contrib]; rewrite lens_set_nth; cbn [clear_shard ents length]; change (Z.of_nat 0) with 0;
        rewrite Q2; unfold len_from in *; rewrite Q; zlia
      | cbn [pc set_pc clear_ok]; rewrite lens_set_nth; cbn [clear_shard ents length]; change (Z.of_nat 0) with 0;
        rewrite Q2; unfold len_from in *; rewrite Q in Hbt; zlia] end.
  - (* evict_all_unpinned removes a page *)
    match goal with Er : remove ?sa ?n = Some ?sb |- _ =>
      destruct (remove_wf _ _ _ Hwf Er) as (_ & Hl1 & _);
      destruct (proj2 Htodo n (or_introl eq_refl)) as (e & He & _);
      assert (Hpos : (n < length (ents sa))%nat) by (apply nth_error_Some; congruence);
      eapply acct_len with (j := i) (x := Z.of_nat (length (ents sa))) (y := Z.of_nat (length (ents sb)));
      [exact Hnd | exact Hth | exact Hb | apply lens_nth; eassumption | apply lens_set_nth | exact Hcov
      | rewrite Hpc; cbn [pc set_pc contrib cont_charge]; zlia
      | cbn [pc set_pc clear_ok]; zlia] end.
Qed.

(* ------------------------------------------------------------------ all schedules *)
Lemma zsum_lens_init total : zsum (lens (init_shards total)) = 0.
Proof.
  unfold init_shards, lens. rewrite map_map. cbn [ents length].
  induction (seq 0 NSH) as [|a l IH]; cbn [map zsum fold_right]; [reflexivity|]. fold (zsum (map (fun _ : nat => Z.of_nat 0) l)). rewrite IH. reflexivity.
Qed.

Lemma init_thr_In' progs t th :
  In (t, th) (map (fun p : nat * list op => (fst p, init_thread (snd p))) progs) -> pc th = PIdle.
Proof. intros H. apply in_map_iff in H. destruct H as ([u p] & Heq & _). cbn in Heq. inversion Heq; subst. reflexivity. Qed.

Lemma acct_init total limit c0 o progs : acct c0 (init_st total limit c0 o progs).
Proof.
  intros _ _. unfold acct_body, init_st; cbn [used shs thr]. split.
  - rewrite zsum_lens_init. rewrite tsum_idle by (intros u thu Hin; eapply init_thr_In'; eauto). lia.
  - intros u thu Hin. rewrite (init_thr_In' _ _ _ Hin). exact I.
Qed.

Lemma thr_keys_step t s s' : step t s = Some s' -> map fst (thr s') = map fst (thr s).
Proof.
  intros H. unfold step in H.
  destruct (lget (thr s) t) as [th|] eqn:Hth; [|discriminate].
  destruct (pc th) eqn:Hpc.
  all: try (unfold start_op in H).
  all: brk H.
  all: try (inversion H; subst s'; clear H).
  all: try match goal with |- context [match ents ?x with _ => _ end] => destruct (ents x) eqn:? end.
  all: cbn [thr upd upd_th upd_sh mark_race set_glast set_gleak set_alock]; eapply map_fst_lset; eassumption.
Qed.

Theorem acct_run total limit c0 o progs sched :
  (NSH <= total)%nat -> NoDup (map fst progs) -> 0 <= c0 ->
  acct c0 (run step sched (init_st total limit c0 o progs)).
Proof.
  intros Htot Hnd Hc0.
  assert (H : (fun s => inv1 s /\ NoDup (map fst (thr s)) /\ acct c0 s) (run step sched (init_st total limit c0 o progs))).
  { apply invariant_rule.
    - split; [apply inv1_init; assumption|]. split; [|apply acct_init].
      cbn [init_st thr]. rewrite map_map. cbn [fst]. exact Hnd.
    - intros t s s' (A & B & C) Hst. split; [eapply inv1_step; eauto|]. split.
      + rewrite (thr_keys_step _ _ _ Hst). exact B.
      + eapply acct_step; eauto. }
  apply H.
Qed.

(* no operation in progress: the counter is exactly what is resident (plus what was there before) *)
Theorem budget_accounting_l total limit c0 o progs sched :
  (NSH <= total)%nat -> NoDup (map fst progs) -> 0 <= c0 ->
  let s := run step sched (init_st total limit c0 o progs) in
  gleak s = false -> grace s = false -> quiescent s -> used s = c0 + PAGE_SIZE * total_len s.
Proof.
  intros Htot Hnd Hc0 s Hl Hr Hq.
  destruct (acct_run total limit c0 o progs sched Htot Hnd Hc0 Hl Hr) as (HA & _).
  fold s in HA. rewrite HA, total_len_lens. rewrite tsum_idle by exact Hq. unfold PS. lia.
Qed.

Lemma idle_b_quiescent s : idle_b s = true -> quiescent s.
Proof.
  unfold idle_b, quiescent. intros H t th Hin. rewrite forallb_forall in H. specialize (H (t, th) Hin). cbn [snd] in H.
  destruct (pc th); try discriminate. reflexivity.
Qed.

(* the two ways in which the faithful model breaks the accounting *)
Definition sched_of (l : list (nat * nat)) : list nat := flat_map (fun p => repeat (fst p) (snd p)) l.

Theorem budget_refuted_init_failure_l :
  exists progs sched,
    let s := run step sched (init_st 64 4194304 0 0 progs) in
    idle_b s = true /\ gleak s = true /\ grace s = false /\ total_len s = 0 /\ used s = PAGE_SIZE.
Proof.
  exists [(0%nat, [OGetIns 0 false 11])], (sched_of [(0%nat, 12%nat)]). vm_compute. repeat split.
Qed.

Theorem budget_refuted_clear_race_l :
  exists progs sched,
    let s := run step sched (init_st 64 4194304 0 0 progs) in
    idle_b s = true /\ gleak s = false /\ grace s = true /\ total_len s = 0 /\ used s = PAGE_SIZE.
Proof.
  exists [(0%nat, [OGetIns 0 true 1; OUnpin 0; OClear]); (1%nat, [OGetIns 1 true 2])],
         (sched_of [(0%nat, 77%nat); (1%nat, 12%nat); (0%nat, 80%nat)]).
  vm_compute. repeat split.
Qed.
