(* C22 proofs, part 6: the recursion of next_token over consecutive comments.
   lexer_comment_depth_l: on n consecutive line comments the model's next_token nests exactly n calls of
   itself (the `Again` path = `self.next_token()` in scan_minus): one Rust stack frame per comment, with no
   bound other than the input length.  The stack overflow itself (finding F-C22-12) is observed on the
   compiled code; this lemma shows where the frames come from. *)
From Coq Require Import ZArith List Bool Arith Lia ZifyBool.
From TV Require Import Model.LexerKeywords Model.Lexer.
Import ListNotations.
Open Scope Z_scope.

(* n consecutive line comments "--\n" *)
Fixpoint comments (n : nat) : list Z :=
  match n with O => [] | S m => 45 :: 45 :: 10 :: comments m end.

Lemma comments_length : forall n, length (comments n) = (3 * n)%nat.
Proof. induction n; simpl; lia. Qed.

Lemma comments_nth : forall n k, (k < n)%nat ->
  nth_error (comments n) (3 * k) = Some 45 /\
  nth_error (comments n) (3 * k + 1) = Some 45 /\
  nth_error (comments n) (3 * k + 2) = Some 10.
Proof.
  induction n as [|m IH]; intros k Hk; [lia|].
  destruct k as [|j].
  - simpl. auto.
  - replace (3 * S j)%nat with (S (S (S (3 * j)))) by lia.
    cbn [comments Nat.add nth_error].
    destruct (IH j ltac:(lia)) as (H0 & H1 & H2). auto.
Qed.

Lemma comments_utf8 : forall n, utf8_valid (comments n) = true.
Proof. induction n; [reflexivity|]. cbn [comments utf8_valid]. exact IHn. Qed.

Section Rec.
Variable n : nat.
Let s := comments n.

Lemma len_s : len s = (3 * n)%nat.
Proof. unfold len, s. apply comments_length. Qed.

Lemma eof_at : forall p l c, is_eof s (mkLx p l c) = (3 * n <=? p)%nat.
Proof. intros. unfold is_eof. cbn [pos]. rewrite len_s. reflexivity. Qed.

Lemma cur_at : forall p l c b, nth_error s p = Some b -> current s (mkLx p l c) = Ok b.
Proof. intros p l c b H. unfold current. cbn [pos]. rewrite H. reflexivity. Qed.

Lemma adv_plain : forall p l c b, nth_error s p = Some b -> (b =? 10) = false -> c < u32_max ->
  advance s (mkLx p l c) = Ok (mkLx (S p) l (c + 1)).
Proof.
  intros p l c b H Hb Hc. unfold advance. rewrite eof_at.
  assert (p < 3 * n)%nat by (rewrite <- len_s; unfold len; apply nth_error_Some; congruence).
  replace (3 * n <=? p)%nat with false by (symmetry; apply Nat.leb_gt; lia).
  rewrite (cur_at _ _ _ _ H). cbn [bind pos line col]. rewrite Hb.
  replace (c <? u32_max) with true by lia. reflexivity.
Qed.

Lemma adv_newline : forall p l c, nth_error s p = Some 10 -> l < u32_max ->
  advance s (mkLx p l c) = Ok (mkLx (S p) (l + 1) 1).
Proof.
  intros p l c H Hl. unfold advance. rewrite eof_at.
  assert (p < 3 * n)%nat by (rewrite <- len_s; unfold len; apply nth_error_Some; congruence).
  replace (3 * n <=? p)%nat with false by (symmetry; apply Nat.leb_gt; lia).
  rewrite (cur_at _ _ _ _ H). cbn [bind pos line col].
  change (10 =? 10) with true. cbv iota.
  replace (l <? u32_max) with true by lia. reflexivity.
Qed.

(* one comment: from the first '-' of comment k to the first byte after its newline *)
Lemma one_comment : forall k f l, (k < n)%nat -> l < u32_max ->
  next_token s (S f) (mkLx (3 * k) l 1) =
  (do ' (t, ts, st3, d) <- next_token s f (mkLx (3 * k + 2) l 3); Ok (t, ts, st3, S d)).
Proof.
  intros k f l Hk Hl.
  destruct (comments_nth n k Hk) as (H0 & H1 & H2). fold s in H0, H1, H2.
  cbn [next_token]. unfold lfuel at 1. cbn [skip_while].
  rewrite eof_at. replace (3 * n <=? 3 * k)%nat with false by (symmetry; apply Nat.leb_gt; lia).
  rewrite (cur_at _ _ _ _ H0). cbn [bind]. change (is_ws 45) with false. cbv iota. cbn [bind].
  rewrite eof_at. replace (3 * n <=? 3 * k)%nat with false by (symmetry; apply Nat.leb_gt; lia).
  (* scan_token -> scan_minus *)
  unfold scan_token. rewrite (cur_at _ _ _ _ H0). cbn [bind].
  change (is_ident_start 45) with false. change (is_digit 45) with false. cbv iota.
  change (45 =? 39) with false. change (45 =? 34) with false. change (45 =? 96) with false.
  change (45 =? 36) with false. change (45 =? 58) with false. change (45 =? 64) with false.
  change (45 =? 63) with false. change (45 =? 45) with true. cbv iota.
  unfold scan_minus.
  rewrite (adv_plain _ _ _ _ H0 eq_refl) by (unfold u32_max; lia). cbn [bind].
  rewrite eof_at. replace (3 * n <=? S (3 * k))%nat with false by (symmetry; apply Nat.leb_gt; lia).
  replace (S (3 * k)) with (3 * k + 1)%nat by lia.
  rewrite (cur_at _ _ _ _ H1). cbn [bind]. change (45 =? 45) with true. cbv iota.
  (* skip to the newline *)
  unfold lfuel at 1. cbn [skip_while].
  rewrite eof_at. replace (3 * n <=? 3 * k + 1)%nat with false by (symmetry; apply Nat.leb_gt; lia).
  rewrite (cur_at _ _ _ _ H1). cbn [bind]. change (not_newline 45) with true. cbv iota.
  rewrite (adv_plain _ _ _ _ H1 eq_refl) by (unfold u32_max; lia). cbn [bind].
  replace (S (3 * k + 1)) with (3 * k + 2)%nat by lia.
  assert (Hlen : len s = S (len s - 1)) by (rewrite len_s; lia).
  rewrite Hlen. cbn [skip_while].
  rewrite eof_at. replace (3 * n <=? 3 * k + 2)%nat with false by (symmetry; apply Nat.leb_gt; lia).
  rewrite (cur_at _ _ _ _ H2). cbn [bind]. change (not_newline 10) with false. cbv iota.
  reflexivity.
Qed.

Lemma skip_ws_stop : forall p l c fuel, (1 <= fuel)%nat ->
  (3 * n <= p)%nat \/ nth_error s p = Some 45 ->
  skip_while s is_ws fuel (mkLx p l c) = Ok (mkLx p l c).
Proof.
  intros p l c fuel Hf H. destruct fuel as [|f]; [lia|]. cbn [skip_while]. rewrite eof_at.
  destruct H as [H|H].
  - replace (3 * n <=? p)%nat with true by (symmetry; apply Nat.leb_le; lia). reflexivity.
  - assert (p < 3 * n)%nat by (rewrite <- len_s; unfold len; apply nth_error_Some; congruence).
    replace (3 * n <=? p)%nat with false by (symmetry; apply Nat.leb_gt; lia).
    rewrite (cur_at _ _ _ _ H). cbn [bind]. reflexivity.
Qed.

Lemma next_start : forall k, (k <= n)%nat -> (3 * n <= 3 * k)%nat \/ nth_error s (3 * k) = Some 45.
Proof.
  intros k Hk. destruct (Nat.eq_dec k n) as [->|Hne]; [left; lia|right].
  destruct (comments_nth n k ltac:(lia)) as (H0 & _). exact H0.
Qed.

(* the newline that ends comment k is white space of the next call *)
Lemma after_newline : forall k f l, (k < n)%nat -> l < u32_max ->
  next_token s (S f) (mkLx (3 * k + 2) l 3) = next_token s (S f) (mkLx (3 * (k + 1)) (l + 1) 1).
Proof.
  intros k f l Hk Hl.
  destruct (comments_nth n k Hk) as (_ & _ & H2). fold s in H2.
  cbn [next_token]. unfold lfuel. cbn [skip_while].
  rewrite eof_at. replace (3 * n <=? 3 * k + 2)%nat with false by (symmetry; apply Nat.leb_gt; lia).
  rewrite (cur_at _ _ _ _ H2). cbn [bind]. change (is_ws 10) with true. cbv iota.
  rewrite (adv_newline _ _ _ H2 Hl). cbn [bind].
  replace (S (3 * k + 2)) with (3 * (k + 1))%nat by lia.
  rewrite skip_ws_stop; [| rewrite len_s; lia | apply next_start; lia].
  rewrite eof_at.
  destruct (3 * n <=? 3 * (k + 1))%nat eqn:E.
  - reflexivity.
  - destruct (next_start (k + 1) ltac:(lia)) as [H|H]; [apply Nat.leb_gt in E; lia|].
    rewrite (cur_at _ _ _ _ H). cbn [bind]. change (is_ws 45) with false. cbv iota. reflexivity.
Qed.

(* m consecutive comments from comment k on: m nested next_token calls *)
Lemma comments_depth : forall m k f l, (k + m = n)%nat -> (m < f)%nat -> l + Z.of_nat m <= u32_max ->
  next_token s f (mkLx (3 * k) l 1) =
  Ok (T k_eof, (3 * n)%nat, mkLx (3 * n) (l + Z.of_nat m) 1, m).
Proof.
  induction m as [|m IH]; intros k f l Hk Hf Hl.
  - assert (k = n) by lia. subst k. destruct f as [|f]; [lia|].
    cbn [next_token]. rewrite skip_ws_stop; [| unfold lfuel; lia | left; lia].
    cbn [bind]. rewrite eof_at. rewrite Nat.leb_refl. cbn [pos].
    replace (l + Z.of_nat 0) with l by lia. reflexivity.
  - destruct f as [|f]; [lia|].
    rewrite one_comment by lia.
    destruct f as [|f]; [lia|].
    rewrite after_newline by lia.
    rewrite (IH (k + 1)%nat (S f) (l + 1)) by lia.
    cbn [bind]. replace (l + 1 + Z.of_nat m) with (l + Z.of_nat (S m)) by lia. reflexivity.
Qed.
End Rec.

(* n consecutive comments cost n nested calls of next_token (one Rust stack frame each) *)
Lemma lexer_comment_depth_l : forall n, Z.of_nat n < u32_max ->
  lex (comments n) = Ok ([L (T k_eof) (3 * n) (3 * n)], mkLx (3 * n) (1 + Z.of_nat n) 1, n).
Proof.
  intros n Hn. unfold lex, init. unfold lfuel at 1. cbn [lex_all].
  replace 0%nat with (3 * 0)%nat by reflexivity.
  rewrite (comments_depth n n 0 (lfuel (comments n)) 1).
  - cbn [bind is_eof_tok]. change (k_eof =? k_eof) with true. cbv iota. cbn [pos]. reflexivity.
  - lia.
  - unfold lfuel. rewrite len_s. lia.
  - lia.
Qed.
