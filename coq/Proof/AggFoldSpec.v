(* C16: agg_fold_spec -- for every aggregate function and EVERY list of argument values, folding
   AggregateState::update_value over the values and finalizing yields exactly the reference aggregate
   (Model/SqlSpecAgg.v agg_vals): NULLs are skipped by COUNT(e), SUM / AVG / MIN / MAX of no value are
   NULL, MIN / MAX work on integers, doubles and text; where the reference demands an error (an integer
   SUM beyond i64) the fold ends in an error.  Sums of doubles are in Proof/AggFloat.v. *)
From Coq Require Import ZArith List Bool Lia ZifyBool.
From TV Require Import Model.SqlSpecAgg Model.AggImpl Model.AggClass Proof.AggFold.
Import ListNotations.
Open Scope Z_scope.

Definition kind_of_fn (f : aggfn) : akind :=
  match f with
  | FCountStar | FCount => KCount
  | FSum => KSum | FAvg => KAvg | FMin => KMin | FMax => KMax
  end.

Lemma zlen_map {A B} (g : A -> B) l : zlen (map g l) = zlen l.
Proof. unfold zlen; now rewrite map_length. Qed.

Lemma nonnull_all : forall vs, existsb is_null vs = false -> nonnull vs = vs.
Proof.
  induction vs as [|v t IH]; intros H; [reflexivity|].
  cbn [existsb] in H. apply orb_false_iff in H as [H1 H2].
  unfold nonnull in *; cbn [filter]. rewrite H1; cbn [negb]. now rewrite IH.
Qed.
Lemma nonnull_in : forall vs v, In v (nonnull vs) -> In v vs.
Proof. unfold nonnull; intros vs v H; apply filter_In in H; tauto. Qed.

Lemma fold_omin_some : forall zs c, exists m, fold_left omin zs (Some c) = Some m.
Proof. induction zs as [|z t IH]; intros c; cbn [fold_left]; [eauto|]. apply IH. Qed.
Lemma fold_omax_some : forall zs c, exists m, fold_left omax zs (Some c) = Some m.
Proof. induction zs as [|z t IH]; intros c; cbn [fold_left]; [eauto|]. apply IH. Qed.
Lemma fold_ofmin_some : forall fs c, exists m, fold_left ofmin fs (Some c) = Some m.
Proof. induction fs as [|z t IH]; intros c; cbn [fold_left]; [eauto|]. apply IH. Qed.
Lemma fold_ofmax_some : forall fs c, exists m, fold_left ofmax fs (Some c) = Some m.
Proof. induction fs as [|z t IH]; intros c; cbn [fold_left]; [eauto|]. apply IH. Qed.

Lemma in64_0 : in64 0. Proof. unfold in64; lia. Qed.

Lemma safe_in64 zs : int_sum_safe zs = true -> in64 (0 + pos_sum zs) /\ in64 (0 + neg_sum zs).
Proof.
  unfold int_sum_safe; intros H. apply andb_true_iff in H as [P N].
  apply i64_ok_iff in P. apply i64_ok_iff in N. unfold in64, pos_sum, neg_sum. lia.
Qed.

(* the values update_value sees: COUNT( * ) sees a non-NULL constant on every row *)
Definition fold_input (f : aggfn) (vs : list value) : list (option value) :=
  match f with
  | FCountStar => map (fun _ => Some (VInt 1)) vs
  | _ => map Some vs
  end.

Lemma one_kind_cases : forall vs, one_kind vs = true ->
  (exists zs, ints_of vs = Some zs) \/ (exists fs, floats_of vs = Some fs /\ forallb f_okn fs = true) \/
  (exists ts, texts_of vs = Some ts).
Proof.
  intros vs K. unfold one_kind in K.
  destruct (ints_of vs) as [zs|] eqn:I; [left; eauto|].
  destruct (floats_of vs) as [fs|] eqn:F; [right; left; exists fs; split; auto|].
  destruct (texts_of vs) as [ts|] eqn:X; [right; right; eauto|discriminate].
Qed.
Lemma fold_otmin_some : forall ts c, exists m, fold_left otmin ts (Some c) = Some m.
Proof. induction ts as [|z t IH]; intros c; cbn [fold_left]; [eauto|]. apply IH. Qed.
Lemma fold_otmax_some : forall ts c, exists m, fold_left otmax ts (Some c) = Some m.
Proof. induction ts as [|z t IH]; intros c; cbn [fold_left]; [eauto|]. apply IH. Qed.

Theorem agg_fold_spec : forall f vs v,
  int_sums f vs = true ->
  agg_vals f vs = AVal v ->
  exists s, fold_upd (kind_of_fn f) st0 (fold_input f vs) = SOk s /\ fin (kind_of_fn f) s = v.
Proof.
  intros f vs v I A. destruct f; cbn [kind_of_fn agg_vals int_sums fold_input] in *.
  - (* COUNT( * ) *)
    destruct (fold_count_star vs st0) as [s [E N]]. exists s; split; [exact E|].
    cbn [fin]. rewrite N. cbn [st0 st_count]. injection A as <-. f_equal; lia.
  - (* COUNT(e): NULLs are skipped *)
    destruct (fold_count vs st0) as [s [E K]]. exists s; split; [exact E|].
    cbn [fin]. rewrite K. cbn [st0 st_count]. injection A as <-. f_equal; lia.
  - (* SUM of integers *)
    destruct (ints_of (nonnull vs)) as [zs|] eqn:Z; [|discriminate].
    unfold sum_spec in A. destruct (nonnull vs) as [|v0 nn] eqn:NN.
    + injection A as <-. cbn in Z. injection Z as <-.
      assert (Z' : ints_of (nonnull vs) = Some []) by (rewrite NN; reflexivity).
      destruct (fold_sum_int vs [] st0 Z' in64_0) as [s [E [Su [Sf [Sc Sn]]]]]; [cbn; unfold in64; lia|cbn; unfold in64; lia|].
      exists s; split; [exact E|]. cbn [fin]. rewrite Sn. reflexivity.
    + rewrite Z in A. unfold int_sum_res in A. destruct (int_sum_safe zs) eqn:S; [|destruct (i64_ok (zsum zs)); discriminate].
      injection A as <-. destruct (safe_in64 zs S) as [P Ng].
      assert (Zne : zs <> []) by (intro Hz; subst zs; apply ints_of_map in Z; discriminate).
      rewrite <- NN in Z.
      destruct (fold_sum_int vs zs st0 Z in64_0 P Ng) as [s [E [Su [Sf [Sc Sn]]]]].
      exists s; split; [exact E|]. cbn [fin]. rewrite Su, Sf, Sn. cbn [st0 st_sum st_sumf st_seen orb].
      destruct zs as [|z0 zt]; [congruence|]. cbn [negb].
      destruct (0 + zsum (z0 :: zt) =? 0) eqn:Z0; cbn [negb].
      * replace (f_is_zero 0) with true by reflexivity. cbn [negb]. f_equal; lia.
      * f_equal; lia.
  - (* AVG of integers *)
    destruct (ints_of (nonnull vs)) as [zs|] eqn:Z; [|discriminate].
    pose proof (ints_of_map _ _ Z) as NNeq.
    unfold avg_spec in A. destruct (nonnull vs) as [|v0 nn] eqn:NN.
    + injection A as <-. cbn in Z. injection Z as <-.
      assert (Z' : ints_of (nonnull vs) = Some []) by (rewrite NN; reflexivity).
      destruct (fold_avg_int vs [] st0 Z' in64_0) as [s [E [Su [Sf Sc]]]]; [cbn; unfold in64; lia | cbn; unfold in64; lia|].
      exists s; split; [exact E|]. cbn [fin]. rewrite Sc. reflexivity.
    + unfold sum_double in A. rewrite Z in A.
      destruct (int_sum_safe zs && (Z.abs (zsum zs) <=? 2 ^ 53)) eqn:S; [|discriminate].
      apply andb_true_iff in S as [S _]. destruct (safe_in64 zs S) as [P Ng].
      rewrite <- NN in Z.
      destruct (fold_avg_int vs zs st0 Z in64_0 P Ng) as [s [E [Su [Sf Sc]]]].
      exists s; split; [exact E|]. cbn [fin]. rewrite Su, Sf, Sc. cbn [st0 st_sum st_sumf st_count].
      assert (L : zlen (v0 :: nn) = zlen zs) by (rewrite NNeq; apply zlen_map).
      assert (Lp : 0 < zlen zs) by (rewrite <- L, zlen_cons; pose proof (zlen_nonneg nn); lia).
      replace (0 + zlen zs =? 0) with false by lia.
      rewrite L in A. replace (0 + zlen zs) with (zlen zs) by lia.
      destruct (0 + zsum zs =? 0) eqn:Z0; cbn [negb].
      * replace (zsum zs) with 0 in A by lia. change (f_of_int 0) with 0 in A.
        destruct (f_div 0 (f_of_int (zlen zs))); [|discriminate]. injection A as <-. reflexivity.
      * replace (0 + zsum zs) with (zsum zs) by lia.
        destruct (f_div (f_of_int (zsum zs)) (f_of_int (zlen zs))); [|discriminate]. injection A as <-. reflexivity.
  - (* MIN *)
    unfold ext_spec in A. destruct (nonnull vs) as [|v0 nn] eqn:NN.
    + injection A as <-.
      assert (Z' : ints_of (nonnull vs) = Some []) by (rewrite NN; reflexivity).
      destruct (fold_min_int vs [] st0 Z') as [s [E [M [F T]]]]. exists s; split; [exact E|].
      cbn [fin]. rewrite M, F, T. reflexivity.
    + destruct (one_kind (v0 :: nn)) eqn:K; [|discriminate].
      destruct (one_kind_cases _ K) as [[zs Z]|[[fs [F Ok]]|[ts X]]].
      * pose proof (ints_of_map _ _ Z) as Eq. destruct zs as [|z0 zt]; [discriminate|].
        cbn [map] in Eq. injection Eq as -> ->.
        rewrite extremum_min_int in A. destruct (fold_omin_some zt z0) as [m Hm]. rewrite Hm in A.
        cbn [option_map] in A. injection A as <-.
        rewrite <- NN in Z. destruct (fold_min_int vs (z0 :: zt) st0 Z) as [s [E [M [Fl T]]]].
        exists s; split; [exact E|]. cbn [fin]. rewrite M. cbn [st0 st_min_i fold_left].
        change (omin None z0) with (Some z0). rewrite Hm. reflexivity.
      * pose proof (floats_of_map _ _ F) as Eq. destruct fs as [|b0 bt]; [discriminate|].
        cbn [map] in Eq. injection Eq as -> ->.
        cbn [forallb] in Ok. apply andb_true_iff in Ok as [Ok0 Okt].
        rewrite (extremum_min_float bt b0 Ok0 Okt) in A. destruct (fold_ofmin_some bt b0) as [m Hm]. rewrite Hm in A.
        cbn [option_map] in A. injection A as <-.
        rewrite <- NN in F.
        assert (Ok' : forallb f_okn (b0 :: bt) = true) by (cbn [forallb]; now rewrite Ok0, Okt).
        destruct (fold_min_float vs (b0 :: bt) st0 F Ok') as [s [E [M [Mi T]]]].
        exists s; split; [exact E|]. cbn [fin]. rewrite M, Mi. cbn [st0 st_min_i st_min_f fold_left].
        change (ofmin None b0) with (Some b0). rewrite Hm. reflexivity.
      * pose proof (texts_of_map _ _ X) as Eq. destruct ts as [|t0 tt]; [discriminate|].
        cbn [map] in Eq. injection Eq as -> ->.
        rewrite extremum_min_text in A. destruct (fold_otmin_some tt t0) as [m Hm]. rewrite Hm in A.
        cbn [option_map] in A. injection A as <-.
        rewrite <- NN in X. destruct (fold_min_text vs (t0 :: tt) st0 X) as [s [E [M [Mi Mf]]]].
        exists s; split; [exact E|]. cbn [fin]. rewrite M, Mi, Mf. cbn [st0 st_min_i st_min_f st_min_t fold_left].
        change (otmin None t0) with (Some t0). rewrite Hm. reflexivity.
  - (* MAX *)
    unfold ext_spec in A. destruct (nonnull vs) as [|v0 nn] eqn:NN.
    + injection A as <-.
      assert (Z' : ints_of (nonnull vs) = Some []) by (rewrite NN; reflexivity).
      destruct (fold_max_int vs [] st0 Z') as [s [E [M [F T]]]]. exists s; split; [exact E|].
      cbn [fin]. rewrite M, F, T. reflexivity.
    + destruct (one_kind (v0 :: nn)) eqn:K; [|discriminate].
      destruct (one_kind_cases _ K) as [[zs Z]|[[fs [F Ok]]|[ts X]]].
      * pose proof (ints_of_map _ _ Z) as Eq. destruct zs as [|z0 zt]; [discriminate|].
        cbn [map] in Eq. injection Eq as -> ->.
        rewrite extremum_max_int in A. destruct (fold_omax_some zt z0) as [m Hm]. rewrite Hm in A.
        cbn [option_map] in A. injection A as <-.
        rewrite <- NN in Z. destruct (fold_max_int vs (z0 :: zt) st0 Z) as [s [E [M [Fl T]]]].
        exists s; split; [exact E|]. cbn [fin]. rewrite M. cbn [st0 st_max_i fold_left].
        change (omax None z0) with (Some z0). rewrite Hm. reflexivity.
      * pose proof (floats_of_map _ _ F) as Eq. destruct fs as [|b0 bt]; [discriminate|].
        cbn [map] in Eq. injection Eq as -> ->.
        cbn [forallb] in Ok. apply andb_true_iff in Ok as [Ok0 Okt].
        rewrite (extremum_max_float bt b0 Ok0 Okt) in A. destruct (fold_ofmax_some bt b0) as [m Hm]. rewrite Hm in A.
        cbn [option_map] in A. injection A as <-.
        rewrite <- NN in F.
        assert (Ok' : forallb f_okn (b0 :: bt) = true) by (cbn [forallb]; now rewrite Ok0, Okt).
        destruct (fold_max_float vs (b0 :: bt) st0 F Ok') as [s [E [M [Mi T]]]].
        exists s; split; [exact E|]. cbn [fin]. rewrite M, Mi. cbn [st0 st_max_i st_max_f fold_left].
        change (ofmax None b0) with (Some b0). rewrite Hm. reflexivity.
      * pose proof (texts_of_map _ _ X) as Eq. destruct ts as [|t0 tt]; [discriminate|].
        cbn [map] in Eq. injection Eq as -> ->.
        rewrite extremum_max_text in A. destruct (fold_otmax_some tt t0) as [m Hm]. rewrite Hm in A.
        cbn [option_map] in A. injection A as <-.
        rewrite <- NN in X. destruct (fold_max_text vs (t0 :: tt) st0 X) as [s [E [M [Mi Mf]]]].
        exists s; split; [exact E|]. cbn [fin]. rewrite M, Mi, Mf. cbn [st0 st_max_i st_max_f st_max_t fold_left].
        change (otmax None t0) with (Some t0). rewrite Hm. reflexivity.
Qed.

(* where the reference demands an error -- the exact integer SUM does not fit in i64 -- the fold of
   update_value ends in an error (`integer overflow in SUM`), never in a value or a panic *)
Theorem agg_fold_error : forall vs,
  agg_vals FSum vs = AError -> fold_upd KSum st0 (map Some vs) = SErr.
Proof.
  intros vs A. cbn [agg_vals] in A. unfold sum_spec in A.
  destruct (nonnull vs) as [|v0 nn] eqn:NN; [discriminate|].
  destruct (ints_of (v0 :: nn)) as [zs|] eqn:Z; [|destruct (sum_double (v0 :: nn)); discriminate].
  unfold int_sum_res in A. destruct (int_sum_safe zs); [discriminate|].
  destruct (i64_ok (zsum zs)) eqn:Ok; [discriminate|].
  rewrite <- NN in Z. apply (fold_sum_int_err vs zs st0 Z in64_0).
  cbn [st0 st_sum]. intro H. assert (i64_ok (zsum zs) = true) by (apply i64_ok_iff; unfold in64 in H; lia). congruence.
Qed.
