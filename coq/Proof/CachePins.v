(* C35 proofs, part 5: for every interleaving,
   - pin counts equal the outstanding PageRefs (programs without clear()), hence a page for which a
     thread holds a PageRef is resident and no step removes it;
   - what data(k) returns is the value last written for k;
   - no operation indexes out of range, and (without clear()) unpin / data_mut never panic. *)
From Coq Require Import ZArith List Bool Arith Lia.
From TV Require Import Lib.Interleave Gen.CacheConsts Model.Cache Proof.CacheShard Proof.CacheInv Proof.CacheLookup Proof.CacheEffect.
Import ListNotations.
Open Scope Z_scope.

(* ------------------------------------------------------------------ counting PageRefs *)
Lemma count_key_cons k0 l k : count_key (k0 :: l) k = (if k =? k0 then 1 else 0) + count_key l k.
Proof. unfold count_key. cbn [filter]. destruct (k =? k0); cbn [length]; lia. Qed.

Lemma count_key_nonneg l k : 0 <= count_key l k.
Proof. unfold count_key. lia. Qed.

Lemma holds_count l k : holds l k = true -> 1 <= count_key l k.
Proof.
  unfold holds. induction l as [|a l IH]; cbn [existsb]; [discriminate|].
  rewrite count_key_cons. assert (H := count_key_nonneg l k). destruct (k =? a); cbn [orb]; [lia|]. intros Hh. apply IH in Hh. lia.
Qed.

Lemma count_key_remove_one l k0 k :
  count_key (remove_one l k0) k = count_key l k - (if (k =? k0) && holds l k0 then 1 else 0).
Proof.
  induction l as [|a l IH]; cbn [remove_one holds existsb].
  - rewrite andb_false_r. lia.
  - rewrite (Z.eqb_sym a k0). destruct (k0 =? a) eqn:E.
    + apply Z.eqb_eq in E. subst a. cbn [orb]. rewrite count_key_cons. rewrite andb_true_r. destruct (k =? k0); lia.
    + cbn [orb]. rewrite !count_key_cons. fold (holds l k0). rewrite IH. lia.
Qed.

Lemma total_held_lset ths t th th' k :
  lget ths t = Some th ->
  total_held (lset ths t th') k = total_held ths k - count_key (held th) k + count_key (held th') k.
Proof.
  induction ths as [|[u w] r IH]; cbn [lget lset]; [discriminate|].
  destruct (Nat.eqb u t) eqn:E; intros H.
  - inversion H; subst w. cbn [total_held fold_right snd]. fold (total_held r k). lia.
  - cbn [total_held fold_right snd]. fold (total_held r k). fold (total_held (lset r t th') k). rewrite IH by assumption. lia.
Qed.

Lemma total_held_nonneg ths k : 0 <= total_held ths k.
Proof. induction ths as [|[u w] r IH]; cbn [total_held fold_right snd]; [lia|]. fold (total_held r k). assert (H := count_key_nonneg (held w) k). lia. Qed.

Lemma total_held_ge ths t th k : lget ths t = Some th -> count_key (held th) k <= total_held ths k.
Proof.
  induction ths as [|[u w] r IH]; cbn [lget]; [discriminate|].
  cbn [total_held fold_right snd]. fold (total_held r k).
  destruct (Nat.eqb u t); intros H.
  - inversion H; subst w. assert (Q := total_held_nonneg r k). lia.
  - apply IH in H. assert (Q := count_key_nonneg (held w) k). lia.
Qed.

Lemma same_strip_pin a b :
  same_strip a b ->
  match a with Some e => epin e | None => 0 end = match b with Some e => epin e | None => 0 end.
Proof. unfold same_strip, strip. destruct a, b; cbn; intros H; inversion H; reflexivity. Qed.

Lemma same_strip_data a b : same_strip a b -> option_map edata a = option_map edata b.
Proof. unfold same_strip, strip. destruct a, b; cbn; intros H; inversion H; reflexivity. Qed.

(* under pins_ok nobody misuses a PageRef *)
Lemma no_misuse s t th : pins_ok s -> lget (thr s) t = Some th -> ~ misuse s th.
Proof.
  intros Hp Hth (k0 & Hh & Hz). apply holds_count in Hh. rewrite (Hp k0) in Hz.
  assert (Q := total_held_ge _ _ _ k0 Hth). lia.
Qed.

(* ------------------------------------------------------------------ programs without clear() stay so *)
Lemma no_clear_step t s s' : no_clear s -> step t s = Some s' -> no_clear s'.
Proof.
  intros Hnc H. unfold step in H.
  destruct (lget (thr s) t) as [th|] eqn:Hth; [|discriminate].
  destruct (Hnc t th (lget_In _ _ _ Hth)) as (Hprog & Hcpc).
  assert (Hgen : forall th', thr s' = lset (thr s) t th' ->
             (forall o, In o (prog th') -> In o (prog th)) -> is_clear_pc (pc th') = false -> no_clear s').
  { intros th' Hthr Hsub Hc u thu Hin. rewrite Hthr in Hin. apply In_lset in Hin. destruct Hin as [Hin|Hin].
    - inversion Hin; subst. split; [intros Q; apply Hprog; apply Hsub; exact Q | exact Hc].
    - apply (Hnc u thu). exact Hin. }
  destruct (pc th) eqn:Hpc; try discriminate Hcpc.
  all: try (unfold start_op in H).
  all: brk H.
  all: try (inversion H; subst s'; clear H).
  all: try match goal with |- context [match ents ?x with _ => _ end] => destruct (ents x) eqn:? end.
  all: try match goal with c : cont |- _ => destruct c; try discriminate Hcpc end.
  all: try (eapply Hgen; [reflexivity | cbn [prog finish finish_hold set_pc resume]; first [intros ? Q; exact Q | intros ? Q; right; exact Q] | reflexivity]).
  all: try (exfalso; apply Hprog; left; reflexivity).
Qed.

(* ------------------------------------------------------------------ pins *)
Lemma pins_step t s s' : inv1 s -> no_clear s -> pins_ok s -> step t s = Some s' -> pins_ok s'.
Proof.
  intros Hinv Hnc Hp Hst.
  destruct (step_effect _ _ _ Hinv Hst) as (th & th' & Hth & Hthr & Hef & _).
  intros k. unfold pin_at. fold (lk s' k). rewrite Hthr, (total_held_lset _ _ _ _ k Hth).
  assert (Hk := Hp k). unfold pin_at in Hk. fold (lk s k) in Hk.
  destruct Hef as [Hsame Hh Hg | k0 e Hl Hl' Hoth Hh Hg | k0 e Hhold Hl Hl' Hoth Hh Hg | k0 Hhold Hl Hall Hh Hg
                  | k0 e v Hl Hl' Hoth Hh Hg | k0 v Hl Hl' Hoth Hh Hg | k0 e Hl Hpin Hl' Hoth Hh Hg | i Hc Hall Hh Hg].
  - rewrite Hh. rewrite (same_strip_pin _ _ (Hsame k)). lia.
  - rewrite Hh, count_key_cons. destruct (Z.eq_dec k k0) as [->|Hne].
    + rewrite Hl', Z.eqb_refl. rewrite Hl in Hk. cbn [epin set_vis set_pin]. lia.
    + rewrite (Hoth k Hne). apply Z.eqb_neq in Hne. rewrite Hne. lia.
  - rewrite Hh, count_key_remove_one, Hhold. destruct (Z.eq_dec k k0) as [->|Hne].
    + rewrite Hl', Z.eqb_refl. rewrite Hl in Hk. cbn [epin set_pin andb].
      assert (Q := total_held_ge _ _ _ k0 Hth). apply holds_count in Hhold.
      destruct (epin e =? 0) eqn:E; [apply Z.eqb_eq in E; lia | lia].
    + rewrite (Hoth k Hne). apply Z.eqb_neq in Hne. rewrite Hne. cbn [andb]. lia.
  - exfalso. apply (no_misuse s t th Hp Hth). exists k0. split; [exact Hhold|]. unfold pin_at. fold (lk s k0). rewrite Hl. lia.
  - rewrite Hh. destruct (Z.eq_dec k k0) as [->|Hne].
    + rewrite Hl'. rewrite Hl in Hk. cbn [epin set_data]. lia.
    + rewrite (Hoth k Hne). lia.
  - rewrite Hh, count_key_cons. destruct (Z.eq_dec k k0) as [->|Hne].
    + rewrite Hl', Z.eqb_refl. rewrite Hl in Hk. cbn [epin]. lia.
    + rewrite (Hoth k Hne). apply Z.eqb_neq in Hne. rewrite Hne. lia.
  - rewrite Hh. destruct (Z.eq_dec k k0) as [->|Hne].
    + rewrite Hl'. rewrite Hl in Hk. assert (Q := total_held_nonneg (thr s) k0). lia.
    + rewrite (same_strip_pin _ _ (Hoth k Hne)). lia.
  - exfalso. destruct (Hnc t th (lget_In _ _ _ Hth)) as (_ & Hcp). congruence.
Qed.

Lemma init_thr_In progs t th :
  In (t, th) (map (fun p : nat * list op => (fst p, init_thread (snd p))) progs) -> exists p, In (t, p) progs /\ th = init_thread p.
Proof.
  intros H. apply in_map_iff in H. destruct H as ([u p] & Heq & Hin). cbn in Heq. inversion Heq; subst. eauto.
Qed.

Lemma total_held_init progs k : total_held (map (fun p : nat * list op => (fst p, init_thread (snd p))) progs) k = 0.
Proof. induction progs as [|[u p] r IH]; cbn [map total_held fold_right snd fst]; [reflexivity|]. fold (total_held (map (fun p : nat * list op => (fst p, init_thread (snd p))) r) k). rewrite IH. reflexivity. Qed.

Lemma slookup_init total k : slookup (init_shards total) k = None.
Proof.
  unfold slookup, init_shards. rewrite nth_error_map. destruct (nth_error (seq 0 NSH) (shard_of k)); reflexivity.
Qed.

Definition progs_no_clear (progs : list (nat * list op)) : Prop := forall t p, In (t, p) progs -> ~ In OClear p.

Lemma no_clear_init total limit c0 o progs : progs_no_clear progs -> no_clear (init_st total limit c0 o progs).
Proof.
  intros H t th Hin. cbn [init_st thr] in Hin. apply init_thr_In in Hin. destruct Hin as (p & Hp & ->).
  split; [exact (H t p Hp) | reflexivity].
Qed.

Theorem pins_run total limit c0 o progs sched :
  (NSH <= total)%nat -> progs_no_clear progs -> pins_ok (run step sched (init_st total limit c0 o progs)).
Proof.
  intros Htot Hnc.
  assert (H : (fun s => inv1 s /\ no_clear s /\ pins_ok s) (run step sched (init_st total limit c0 o progs))).
  { apply invariant_rule.
    - split; [apply inv1_init; assumption|]. split; [apply no_clear_init; assumption|].
      intros k. unfold pin_at. cbn [init_st shs thr]. rewrite slookup_init, total_held_init. reflexivity.
    - intros t s s' (A & B & C) Hst. split; [eapply inv1_step; eauto|]. split; [eapply no_clear_step; eauto | eapply pins_step; eauto]. }
  apply H.
Qed.

(* what the pin invariant means for a client: a PageRef keeps its page resident *)
Corollary pinned_resident s t th k :
  pins_ok s -> lget (thr s) t = Some th -> In k (held th) ->
  exists e, slookup (shs s) k = Some e /\ 1 <= epin e /\ cache_data s k = Some (edata e).
Proof.
  intros Hp Hth Hin.
  assert (Hh : holds (held th) k = true) by (unfold holds; apply existsb_exists; exists k; split; [assumption | apply Z.eqb_refl]).
  apply holds_count in Hh. assert (Q := total_held_ge _ _ _ k Hth). assert (Hk := Hp k). unfold pin_at in Hk.
  unfold cache_data. destruct (slookup (shs s) k) as [e|]; [|lia]. exists e. split; [reflexivity|]. split; [lia | reflexivity].
Qed.

(* ------------------------------------------------------------------ contents *)
Lemma glast_get_set m k v k' : glast_get (glast_set m k v) k' = if k =? k' then Some v else glast_get m k'.
Proof. unfold glast_get, glast_set. cbn [find fst snd]. destruct (k =? k'); reflexivity. Qed.

Lemma contents_step t s s' : inv1 s -> contents_ok s -> step t s = Some s' -> contents_ok s'.
Proof.
  intros Hinv Hc Hst.
  destruct (step_effect _ _ _ Hinv Hst) as (th & th' & Hth & Hthr & Hef & _).
  intros k v. unfold cache_data. fold (lk s' k). assert (Hk := Hc k). unfold cache_data in Hk. fold (lk s k) in Hk.
  destruct Hef as [Hsame Hh Hg | k0 e Hl Hl' Hoth Hh Hg | k0 e Hhold Hl Hl' Hoth Hh Hg | k0 Hhold Hl Hall Hh Hg
                  | k0 e w Hl Hl' Hoth Hh Hg | k0 w Hl Hl' Hoth Hh Hg | k0 e Hl Hpin Hl' Hoth Hh Hg | i Hcp Hall Hh Hg]; rewrite Hg.
  - rewrite (same_strip_data _ _ (Hsame k)). apply Hk.
  - destruct (Z.eq_dec k k0) as [->|Hne]; [rewrite Hl'; rewrite Hl in Hk; exact (Hk v) | rewrite (Hoth k Hne); apply Hk].
  - destruct (Z.eq_dec k k0) as [->|Hne]; [rewrite Hl'; rewrite Hl in Hk; exact (Hk v) | rewrite (Hoth k Hne); apply Hk].
  - rewrite Hall. apply Hk.
  - rewrite glast_get_set. destruct (Z.eq_dec k k0) as [->|Hne].
    + rewrite Hl', Z.eqb_refl. cbn. auto.
    + rewrite (Hoth k Hne). assert (Q : (k0 =? k) = false) by (apply Z.eqb_neq; congruence). rewrite Q. apply Hk.
  - rewrite glast_get_set. destruct (Z.eq_dec k k0) as [->|Hne].
    + rewrite Hl', Z.eqb_refl. cbn. auto.
    + rewrite (Hoth k Hne). assert (Q : (k0 =? k) = false) by (apply Z.eqb_neq; congruence). rewrite Q. apply Hk.
  - destruct (Z.eq_dec k k0) as [->|Hne]; [rewrite Hl'; discriminate | rewrite (same_strip_data _ _ (Hoth k Hne)); apply Hk].
  - rewrite Hall. destruct (Nat.eqb (shard_of k) i); [discriminate | apply Hk].
Qed.

Theorem contents_run total limit c0 o progs sched :
  (NSH <= total)%nat -> contents_ok (run step sched (init_st total limit c0 o progs)).
Proof.
  intros Htot.
  assert (H : (fun s => inv1 s /\ contents_ok s) (run step sched (init_st total limit c0 o progs))).
  { apply invariant_rule.
    - split; [apply inv1_init; assumption|]. intros k v. unfold cache_data. cbn [init_st shs]. rewrite slookup_init. discriminate.
    - intros t s s' (A & B) Hst. split; [eapply inv1_step; eauto | eapply contents_step; eauto]. }
  apply H.
Qed.

(* ------------------------------------------------------------------ results *)
Definition no_bad_results (s : st) : Prop :=
  forall t th, In (t, th) (thr s) -> ~ In RPanic (res th) /\ ~ In RUnpinPanic (res th) /\ ~ In RWritePanic (res th).

Lemma results_step t s s' :
  inv1 s -> pins_ok s -> no_bad_results s -> step t s = Some s' -> no_bad_results s'.
Proof.
  intros Hinv Hp Hn Hst.
  destruct (step_effect _ _ _ Hinv Hst) as (th & th' & Hth & Hthr & _ & Hres).
  intros u thu Hin. rewrite Hthr in Hin. apply In_lset in Hin. destruct Hin as [Hin|Hin]; [|exact (Hn u thu Hin)].
  inversion Hin; subst u thu. destruct (Hn t th (lget_In _ _ _ Hth)) as (A & B & C).
  assert (Hm := no_misuse s t th Hp Hth).
  repeat split; intros Q; destruct (Hres _ Q) as [Q'|(Q1 & Q2)]; try contradiction; try (apply Hm; apply Q2; auto).
Qed.

Theorem results_run total limit c0 o progs sched :
  (NSH <= total)%nat -> progs_no_clear progs -> no_bad_results (run step sched (init_st total limit c0 o progs)).
Proof.
  intros Htot Hnc.
  assert (H : (fun s => inv1 s /\ no_clear s /\ pins_ok s /\ no_bad_results s) (run step sched (init_st total limit c0 o progs))).
  { apply invariant_rule.
    - split; [apply inv1_init; assumption|]. split; [apply no_clear_init; assumption|]. split.
      + intros k. unfold pin_at. cbn [init_st shs thr]. rewrite slookup_init, total_held_init. reflexivity.
      + intros t th Hin. cbn [init_st thr] in Hin. apply init_thr_In in Hin. destruct Hin as (p & _ & ->). cbn. tauto.
    - intros t s s' (A & B & C & D) Hst. split; [eapply inv1_step; eauto|]. split; [eapply no_clear_step; eauto|].
      split; [eapply pins_step; eauto | eapply results_step; eauto]. }
  apply H.
Qed.

(* index-out-of-range outcomes never occur, whatever the programs *)
Definition no_panic (s : st) : Prop := forall t th, In (t, th) (thr s) -> ~ In RPanic (res th).

Lemma no_panic_step t s s' : inv1 s -> no_panic s -> step t s = Some s' -> no_panic s'.
Proof.
  intros Hinv Hn Hst.
  destruct (step_effect _ _ _ Hinv Hst) as (th & th' & Hth & Hthr & _ & Hres).
  intros u thu Hin. rewrite Hthr in Hin. apply In_lset in Hin. destruct Hin as [Hin|Hin]; [|exact (Hn u thu Hin)].
  inversion Hin; subst u thu. intros Q. destruct (Hres _ Q) as [Q'|(Q1 & _)]; [|congruence].
  exact (Hn t th (lget_In _ _ _ Hth) Q').
Qed.

Theorem no_panic_run total limit c0 o progs sched :
  (NSH <= total)%nat -> no_panic (run step sched (init_st total limit c0 o progs)).
Proof.
  intros Htot.
  assert (H : (fun s => inv1 s /\ no_panic s) (run step sched (init_st total limit c0 o progs))).
  { apply invariant_rule.
    - split; [apply inv1_init; assumption|]. intros t th Hin. cbn [init_st thr] in Hin. apply init_thr_In in Hin. destruct Hin as (p & _ & ->). cbn. tauto.
    - intros t s s' (A & B) Hst. split; [eapply inv1_step; eauto | eapply no_panic_step; eauto]. }
  apply H.
Qed.
