(* C15 proofs: END TO END on the implementation model -- for every table and every query of the
   fragment outside the recorded finding classes, the rows that [model_query] returns satisfy the
   property ([query_spec]): they are the LIMIT / OFFSET window of an arrangement of the selected
   (DISTINCT: de-duplicated) rows that is sorted by the ORDER BY keys. *)
From Coq Require Import ZArith List Bool Arith Lia Permutation Sorted.
From TV Require Import Model.KnnOrder Proof.KnnOrder Proof.TopK.
From TV Require Import Model.SqlSpec Model.SortSpec Model.SortQuery Model.SortImpl.
From TV Require Import Proof.SortOrder Proof.SortLimit Proof.SortWindow Proof.SortResult Proof.SortKeys.
Import ListNotations.
Open Scope nat_scope.

Section Paths.
  Variable dirs : list bool.
  Local Notation cmp := (elt_cmp dirs).
  Local Notation sorted := (sorted_by cmp).
  Let Hpre : cmp_total_preorder cmp := elt_cmp_preorder_l dirs.

  (* any sorted arrangement, cut by the window *)
  Lemma spec_of_sorted : forall (B X : list elt) o l, Permutation X B -> sorted X ->
    rows_spec cmp snd false B o l (map snd (window o l X)).
  Proof. intros B X o l Hp Hs. exists X. repeat split; assumption. Qed.

  Lemma dedupe_incl : forall (X : list elt) seen e, In e (dedupe snd row_eqb seen X) -> In e X.
  Proof.
    induction X as [|x X IH]; intros seen e H; cbn [dedupe] in H; [contradiction|].
    destruct (existsb (row_eqb (snd x)) seen); [right; eapply IH; eauto|].
    destruct H as [<-|H]; [left; reflexivity|right; eapply IH; eauto].
  Qed.
  Lemma sorted_dedupe : forall (X : list elt) seen, sorted X -> sorted (dedupe snd row_eqb seen X).
  Proof.
    induction X as [|x X IH]; intros seen Hs; cbn [dedupe]; [constructor|].
    inversion Hs as [|? ? Hs' Hall]; subst.
    destruct (existsb (row_eqb (snd x)) seen); [apply IH; exact Hs'|].
    constructor; [apply IH; exact Hs'|]. rewrite Forall_forall in *. intros y Hy. apply Hall.
    eapply dedupe_incl; eauto.
  Qed.
  (* the DISTINCT pass, seen through the normalisation of -0.0: first occurrences of the
     normalised rows *)
  Lemma dedupe_rows_n_map : forall (X : list elt) seen,
    map norm_row (dedupe_rows_n seen (map snd X)) = map snd (dedupe snd row_eqb seen (map norm_elt X)).
  Proof.
    induction X as [|x X IH]; intros seen; cbn [map dedupe_rows_n dedupe]; [reflexivity|].
    change (snd (norm_elt x)) with (norm_row (snd x)).
    destruct (existsb (row_eqb (norm_row (snd x))) seen); [apply IH|]. cbn [map]. f_equal. apply IH.
  Qed.

  (* DISTINCT applied to a sorted arrangement of all rows, then the window: first occurrences,
     still sorted *)
  Lemma spec_of_sorted_distinct : forall (B X : list elt) o l, Permutation X B -> sorted X ->
    rows_spec cmp snd true B o l (map snd (window o l (dedupe snd row_eqb [] X))).
  Proof.
    intros B X o l Hp Hs. exists (dedupe snd row_eqb [] X).
    destruct (dedupe_distinct_l snd row_eqb row_eqb_spec X) as (H1 & H2 & H3).
    split; [|split].
    - cbn [picks]. split; [exact H1|split].
      + intros e He. eapply Permutation_in; [exact Hp|]. apply H2. exact He.
      + intros e He. apply H3. eapply Permutation_in; [symmetry; exact Hp|exact He].
    - apply sorted_dedupe. exact Hs.
    - reflexivity.
  Qed.

  (* ORDER BY .. LIMIT l OFFSET o through the heap of l+o rows *)
  Lemma spec_of_topk : forall (B out : list elt) o l,
    topk cmp (l + o) B = TOk out ->
    rows_spec cmp snd false B o (Some l) (map snd (firstn l (skipn o out))).
  Proof.
    intros B out o l Ht.
    destruct (topk_ok cmp Hpre (l + o) B) as [out' [rest (Ht' & Hperm & Hlen & Hso & Hdom)]].
    rewrite Ht in Ht'. inversion Ht'; subst out'. clear Ht'.
    set (R := isort (c_less cmp) rest).
    exists (out ++ R). split; [|split].
    - cbn [picks]. rewrite <- Hperm. apply Permutation_app_head. apply isort_perm.
    - apply sorted_app_iff. split; [exact Hso|split].
      + apply (isort_sorted cmp Hpre).
      + intros x y Hx Hy. apply Hdom; [exact Hx|]. eapply Permutation_in; [apply isort_perm|exact Hy].
    - f_equal. unfold window. rewrite skipn_app, firstn_app.
      assert (HR : firstn (l - length (skipn o out)) (skipn (o - length out) R) = []).
      { pose proof (Permutation_length Hperm) as HL. rewrite app_length in HL.
        destruct (Nat.le_gt_cases (l + o) (length B)) as [Hle|Hgt].
        - rewrite Nat.min_l in Hlen by exact Hle. rewrite skipn_length, Hlen.
          replace (l - (l + o - o)) with 0 by lia. reflexivity.
        - rewrite Nat.min_r in Hlen by lia. assert (Hr0 : length rest = 0) by lia.
          destruct rest; [|cbn in Hr0; lia]. unfold R. cbn. rewrite skipn_nil, firstn_nil. reflexivity. }
      rewrite HR, app_nil_r. reflexivity.
  Qed.

  (* normalising -0.0 in the output rows does not disturb a result without DISTINCT *)
  Lemma sorted_map_norm : forall X, sorted X -> sorted (map norm_elt X).
  Proof.
    induction X as [|x X IH]; intros Hs; cbn [map]; [constructor|].
    inversion Hs as [|? ? Hs' Hall]; subst. constructor; [apply IH; exact Hs'|].
    rewrite Forall_forall in *. intros y Hy. apply in_map_iff in Hy. destruct Hy as [y0 [<- Hy0]].
    exact (Hall y0 Hy0).
  Qed.
  Lemma rows_spec_norm : forall (B : list elt) o l rows,
    rows_spec cmp snd false B o l rows ->
    rows_spec cmp snd false (map norm_elt B) o l (map norm_row rows).
  Proof.
    intros B o l rows [S (Hp & Hs & Hr)]. exists (map norm_elt S). split; [|split].
    - cbn [picks] in *. apply Permutation_map. exact Hp.
    - apply sorted_map_norm. exact Hs.
    - subst rows. rewrite <- (map_window norm_elt). rewrite !map_map. reflexivity.
  Qed.
End Paths.

Lemma sorted_no_keys : forall X : list elt, sorted_by (elt_cmp []) X.
Proof.
  induction X as [|x X IH]; constructor; [exact IH|].
  rewrite Forall_forall. intros y _. cbn. discriminate.
Qed.

(* what the model returns for a DISTINCT statement, given any sorted arrangement of the elements *)
Lemma distinct_result : forall dirs q (B X : list elt), Permutation X B -> sorted_by (elt_cmp dirs) X ->
  rows_spec (elt_cmp dirs) snd true (map norm_elt B) (q_off q) (q_lim q)
            (map norm_row (distinct_post q (map snd X))).
Proof.
  intros dirs q B X Hp Hs. unfold distinct_post.
  rewrite (map_window norm_row). rewrite dedupe_rows_n_map. rewrite <- (map_window snd).
  apply spec_of_sorted_distinct; [apply Permutation_map; exact Hp|apply sorted_map_norm; exact Hs].
Qed.

(* ------------------------------------------------------------------ the theorem *)
Lemma has_window_lim : forall q l, q_lim q = Some l -> has_window q = true.
Proof. intros q l H. unfold q_lim, has_window in *. destruct (q_limit q); [reflexivity|discriminate]. Qed.
Lemma no_window : forall q, has_window q = false -> q_lim q = None /\ q_off q = 0.
Proof.
  intros q H. unfold has_window, q_lim, q_off in *. destruct (q_limit q), (q_offset q); try discriminate. auto.
Qed.
Lemma no_order_dirs : forall q, has_order q = false -> q_dirs q = [].
Proof. intros q H. unfold has_order, q_dirs in *. destruct (q_keys q); [reflexivity|discriminate]. Qed.

(* a DISTINCT statement runs without its window *)
Lemma exec_distinct : forall q, q_distinct q = true ->
  q_lim (exec_q q) = None /\ q_off (exec_q q) = 0 /\ has_order (exec_q q) = has_order q.
Proof.
  intros q Hd. unfold exec_q. rewrite Hd. cbn [andb]. destruct (has_window q) eqn:Ew.
  - repeat split.
  - destruct (no_window q Ew). repeat split; assumption.
Qed.
Lemma exec_plain : forall q, q_distinct q = false -> exec_q q = q.
Proof. intros q Hd. unfold exec_q. rewrite Hd. reflexivity. Qed.
Lemma exec_where : forall q, q_where (exec_q q) = q_where q.
Proof. intros q. unfold exec_q. destruct (q_distinct q && has_window q); reflexivity. Qed.

Theorem model_meets_spec_l : forall ncols q t rows,
  known_class_q ncols q = 0%Z ->
  model_query ncols q t = MRows rows ->
  query_spec ncols q t rows.
Proof.
  intros ncols q t rows Hk Hm. unfold query_spec.
  destruct (spec_elts ncols q t) as [B|] eqn:Es; [|exact I]. intros Hdef.
  unfold known_class_q in Hk.
  unfold model_query in Hm. destruct (negb (well_formed ncols q)); [discriminate|].
  rewrite <- (exec_where q) in Hm.
  destruct (all_some (map (impl_elt (impl_srcs ncols (exec_q q)) ncols (exec_q q))
                          (filter (passes_where (q_where (exec_q q))) t))) as [E|] eqn:Ee; [|discriminate].
  assert (E = B).
  { eapply (elements_agree ncols (exec_q q)); eauto. rewrite spec_elts_exec. exact Es. }
  subst E.
  unfold result_defined in Hdef. apply andb_prop in Hdef. destruct Hdef as [Hh Hg].
  assert (Hag : forall x y, In x B -> In y B -> impl_elt_cmp (q_dirs q) x y = elt_cmp (q_dirs q) x y).
  { intros x y Hx Hy. eapply impl_elt_cmp_agrees_l; eauto. }
  assert (HPB : Forall (fun e => In e B) B) by (rewrite Forall_forall; auto).
  destruct (isort_ext_P (impl_elt_cmp (q_dirs q)) (elt_cmp (q_dirs q)) (fun e => In e B) Hag B HPB) as [Eis _].
  set (I := isort (c_less (elt_cmp (q_dirs q))) B) in *.
  assert (HpI : Permutation I B) by apply isort_perm.
  assert (HsI : sorted_by (elt_cmp (q_dirs q)) I) by apply (isort_sorted _ (elt_cmp_preorder_l (q_dirs q))).
  unfold result_spec.
  destruct (q_distinct q) eqn:Ed.
  - (* DISTINCT: the whole ordered result, de-duplicated, then the window *)
    destruct (exec_distinct q Ed) as (El & Eo & Eh). rewrite El, Eo, Eh in Hm.
    destruct (has_order q) eqn:Eord.
    + rewrite Eis, limit_machine_is_window_l in Hm. inversion Hm; subst rows.
      exact (distinct_result (q_dirs q) q B I HpI HsI).
    + rewrite limit_machine_is_window_l in Hm. inversion Hm; subst rows.
      rewrite (no_order_dirs q Eord).
      exact (distinct_result [] q B B (Permutation_refl B) (sorted_no_keys B)).
  - rewrite (exec_plain q Ed) in Hm.
    destruct (has_order q) eqn:Eord.
    + destruct (q_lim q) as [l|] eqn:El.
      * rewrite (topk_ext (impl_elt_cmp (q_dirs q)) (elt_cmp (q_dirs q)) (fun e => In e B) Hag _ _ HPB) in Hm.
        destruct (topk (elt_cmp (q_dirs q)) (l + q_off q) B) as [out| |] eqn:Et; try discriminate.
        inversion Hm; subst rows. apply rows_spec_norm. apply spec_of_topk. exact Et.
      * rewrite Eis, limit_machine_is_window_l in Hm. inversion Hm; subst rows.
        apply rows_spec_norm. exact (spec_of_sorted (q_dirs q) B I (q_off q) None HpI HsI).
    + rewrite limit_machine_is_window_l in Hm. inversion Hm; subst rows.
      rewrite (no_order_dirs q Eord).
      apply rows_spec_norm. apply spec_of_sorted; [reflexivity|apply sorted_no_keys].
Qed.
