(* C26 proofs, part 4: encode_json / decode_json -- order with arbitrary continuations and
   decode after encode, for every JSON document outside the recorded defect classes 2 and 3. *)
From Coq Require Import ZArith List Bool Lia ZifyBool.
From TV Require Import Lib.MachInt Lib.MachIntFacts Gen.KeyPrefix Model.KeySpec Model.Key Model.KeyKnown
  Proof.KeyBytes Proof.KeyScalar Proof.KeySeq.
Import ListNotations.
Open Scope Z_scope.

Ltac Zify.zify_post_hook ::= Z.to_euclidean_division_equations.

(* nested induction principle *)
Lemma json_ind2 (Q : json -> Prop) :
  Q JNull -> (forall b, Q (JBool b)) -> (forall b, Q (JNum b)) -> (forall s, Q (JStr s)) ->
  (forall l, Forall Q l -> Q (JArr l)) ->
  (forall l, Forall (fun e => Q (snd e)) l -> Q (JObj l)) ->
  forall j, Q j.
Proof.
  intros Hn Hb Hnum Hs Ha Ho.
  fix IH 1. intros [| b | b | s | l | l].
  - exact Hn.
  - apply Hb.
  - apply Hnum.
  - apply Hs.
  - apply Ha. revert l. fix IHl 1. intros [|x l]; constructor; [apply IH | apply IHl].
  - apply Ho. revert l. fix IHl 1. intros [|x l]; constructor; [apply IH | apply IHl].
Qed.

Definition jentry_cmp (p q : list Z * json) : comparison :=
  cthen (lex_cmp (fst p) (fst q)) (jcmp (snd p) (snd q)).
Definition jentry_enc (e : list Z * json) : list Z := esc (fst e) ++ jenc (snd e).

Lemma jcmp_arr x : forall y, jcmp (JArr x) (JArr y) = lex_by jcmp x y.
Proof. induction x as [|p x IH]; intros [|q y]; try reflexivity. cbn [lex_by]. rewrite <- IH. reflexivity. Qed.

Lemma jcmp_obj x : forall y, jcmp (JObj x) (JObj y) = lex_by jentry_cmp x y.
Proof.
  induction x as [|[k1 p] x IH]; intros [|[k2 q] y]; try reflexivity.
  cbn [lex_by]. rewrite <- IH. unfold jentry_cmp. cbn [fst snd]. rewrite cthen_assoc. reflexivity.
Qed.

(* free of defect class 3 *)
Definition jfree (j : json) : Prop := jany jnode_bad3 j = false.

Lemma jfree_arr l x : jfree (JArr l) -> In x l -> jfree x.
Proof.
  unfold jfree. cbn [jany jnode_bad3 orb]. intros H3 Hin.
  destruct (jany jnode_bad3 x) eqn:E; [|reflexivity].
  assert (existsb (jany jnode_bad3) l = true) by (apply existsb_exists; eauto). congruence.
Qed.

Lemma jfree_obj l e : jfree (JObj l) -> In e l -> jfree (snd e).
Proof.
  unfold jfree. cbn [jany]. intros H3 Hin.
  apply orb_false_iff in H3. destruct H3 as [_ H3].
  destruct (jany jnode_bad3 (snd e)) eqn:E; [|reflexivity].
  assert (existsb (fun e => jany jnode_bad3 (snd e)) l = true) by (apply existsb_exists; eauto). congruence.
Qed.

Lemma jfree_obj_head l e : jfree (JObj l) -> hd_error l = Some e -> key_starts_nul (fst e) = false.
Proof.
  unfold jfree. intros H3 Hh. destruct l as [|[k v] l]; [discriminate|]. inversion Hh; subst.
  cbn [jany jnode_bad3] in H3. apply orb_false_iff in H3. exact (proj1 H3).
Qed.

Lemma jwf_arr l x : jwf (JArr l) = true -> In x l -> jwf x = true.
Proof. cbn [jwf]. intros H Hin. rewrite forallb_forall in H. apply H. exact Hin. Qed.
Lemma jwf_obj l e : jwf (JObj l) = true -> In e l -> text_ok (fst e) = true /\ jwf (snd e) = true.
Proof.
  cbn [jwf]. intros H Hin. rewrite forallb_forall in H. specialize (H e Hin). apply andb_true_iff in H. exact H.
Qed.

Lemma jenc_pos_head j : pos_head jenc j.
Proof.
  destruct (jenc_head j) as [t E]. exists (P (21 + jkind j)), t. split; [exact E|].
  pose proof (jkind_range j). apply P_pos. lia.
Qed.

Lemma esc_pos_head k : bytes_ok k = true -> key_starts_nul k = false -> exists b t, esc k = b :: t /\ 0 < b.
Proof.
  intros Hb Hk. destruct k as [|b k]; [discriminate|]. cbn [key_starts_nul] in Hk.
  apply bytes_ok_cons in Hb. destruct Hb as [Hb _].
  cbn [esc]. rewrite Hk. destruct (b =? 255); eexists; eexists; (split; [reflexivity|lia]).
Qed.

Lemma text_ok_bytes s : text_ok s = true -> bytes_ok s = true.
Proof. unfold text_ok. intros H. apply andb_true_iff in H. exact (proj1 H). Qed.
Lemma text_ok_utf8 s : text_ok s = true -> utf8_valid s = true.
Proof. unfold text_ok. intros H. apply andb_true_iff in H. exact (proj2 H). Qed.

Lemma jkind_differ j1 j2 r1 r2 : jkind j1 <> jkind j2 ->
  lex_cmp (jenc j1 ++ r1) (jenc j2 ++ r2) = cthen (jkind j1 ?= jkind j2) (lex_cmp r1 r2).
Proof.
  intros N. destruct (jenc_head j1) as [t1 E1]. destruct (jenc_head j2) as [t2 E2].
  rewrite E1, E2. cbn [app].
  pose proof (jkind_range j1). pose proof (jkind_range j2).
  rewrite class_decides by lia.
  replace (21 + jkind j1 ?= 21 + jkind j2) with (jkind j1 ?= jkind j2) by (symmetry; apply Z.add_compare_mono_l).
  destruct (Z.compare_spec (jkind j1) (jkind j2)); try reflexivity. contradiction.
Qed.

(* ------------------------------------------------------------------ order *)
Definition jord (j1 : json) : Prop :=
  forall j2 r1 r2, jwf j1 = true -> jwf j2 = true -> jfree j1 -> jfree j2 ->
    lex_cmp (jenc j1 ++ r1) (jenc j2 ++ r2) = cthen (jcmp j1 j2) (lex_cmp r1 r2).

Ltac other_kind := apply jkind_differ; cbn [jkind]; lia.

Theorem jenc_order : forall j1, jord j1.
Proof.
  induction j1 as [| b1 | b1 | s1 | l1 IH | l1 IH] using json_ind2; intros j2 r1 r2 W1 W2 F1 F2.
  - destruct j2 as [| [] | | | |]; try other_kind. cbn [jenc app jcmp jkind]. rewrite pfx_same. reflexivity.
  - destruct b1; destruct j2 as [| [] | | | |]; try other_kind; cbn [jenc app jcmp jkind]; rewrite pfx_same; reflexivity.
  - destruct j2 as [| [] | b2 | | |]; try other_kind. cbn [jenc app jcmp]. rewrite pfx_same.
    cbn [jwf] in W1, W2. apply jnum_ord; assumption.
  - destruct j2 as [| [] | | s2 | |]; try other_kind. cbn [jenc app jcmp]. rewrite pfx_same.
    cbn [jwf] in W1, W2. apply esc_order; apply text_ok_bytes; assumption.
  - destruct j2 as [| [] | | | l2 |]; try other_kind. cbn [jenc app]. rewrite pfx_same, jcmp_arr.
    apply join_ord.
    + intros x y Hx Hy s1 s2. rewrite Forall_forall in IH.
      apply (IH x Hx y s1 s2); eauto using jwf_arr, jfree_arr.
    + intros x _. apply jenc_pos_head.
    + intros y _. apply jenc_pos_head.
  - destruct j2 as [| [] | | | | l2]; try other_kind. cbn [jenc app]. rewrite pfx_same, jcmp_obj.
    apply (join_ord jentry_enc jentry_cmp).
    + intros x y Hx Hy s1 s2. rewrite Forall_forall in IH.
      destruct (jwf_obj _ _ W1 Hx) as [Kx Vx]. destruct (jwf_obj _ _ W2 Hy) as [Ky Vy].
      unfold jentry_enc, jentry_cmp. rewrite <- !app_assoc.
      rewrite esc_order by (apply text_ok_bytes; assumption).
      rewrite (IH x Hx (snd y)) by eauto using jfree_obj.
      rewrite cthen_assoc. reflexivity.
    + intros x Hx. assert (Hin : In x l1) by (destruct l1; [discriminate|]; inversion Hx; left; reflexivity).
      destruct (jwf_obj _ _ W1 Hin) as [Kx _].
      destruct (esc_pos_head (fst x) (text_ok_bytes _ Kx) (jfree_obj_head _ _ F1 Hx)) as (b & t & E & Hb).
      exists b, (t ++ jenc (snd x)). unfold jentry_enc. rewrite E. split; [reflexivity|exact Hb].
    + intros x Hx. assert (Hin : In x l2) by (destruct l2; [discriminate|]; inversion Hx; left; reflexivity).
      destruct (jwf_obj _ _ W2 Hin) as [Kx _].
      destruct (esc_pos_head (fst x) (text_ok_bytes _ Kx) (jfree_obj_head _ _ F2 Hx)) as (b & t & E & Hb).
      exists b, (t ++ jenc (snd x)). unfold jentry_enc. rewrite E. split; [reflexivity|exact Hb].
Qed.

(* ------------------------------------------------------------------ decode after encode *)
Lemma jdec_null f t : jdec (S f) (KP_JSON_NULL :: t) = ROk JNull 1. Proof. reflexivity. Qed.
Lemma jdec_false f t : jdec (S f) (KP_JSON_FALSE :: t) = ROk (JBool false) 1. Proof. reflexivity. Qed.
Lemma jdec_true f t : jdec (S f) (KP_JSON_TRUE :: t) = ROk (JBool true) 1. Proof. reflexivity. Qed.
Lemma jdec_num f t : jdec (S f) (KP_JSON_NUMBER :: t) =
  if 9 <=? blen (KP_JSON_NUMBER :: t) then
    let e := from_be (sub (KP_JSON_NUMBER :: t) 1 8) in
    ROk (JNum (if SIGN64 <=? e then flip 64 e else bnot 64 e)) 9
  else RErr.
Proof. reflexivity. Qed.
Lemma jdec_str f t : jdec (S f) (KP_JSON_STRING :: t) =
  match unesc t with
  | Some (s, n) => if utf8_valid s then ROk (JStr s) (1 + n) else RErr
  | None => RErr
  end.
Proof. reflexivity. Qed.
Lemma jdec_arr f t : jdec (S f) (KP_JSON_ARRAY :: t) =
  rmap (fun l n => ROk (JArr l) (1 + n)) (elems f (jdec f) t true).
Proof. reflexivity. Qed.
Lemma jdec_obj f t : jdec (S f) (KP_JSON_OBJECT :: t) =
  rmap (fun l n => ROk (JObj l) (1 + n)) (jobj f (jdec f) t true).
Proof. reflexivity. Qed.

Lemma jnum_back b : in_u 64 b = true ->
  (if SIGN64 <=? jnenc b then flip 64 (jnenc b) else bnot 64 (jnenc b)) = b.
Proof.
  intros W. destruct (split64 b W) as [Hm Hb].
  unfold jnenc, bnot, flip in *. unfold SIGN64 in *. pows.
  destruct (neg64 b) eqn:Es.
  - destruct (9223372036854775808 <=? 18446744073709551616 - 1 - b) eqn:C; lia.
  - destruct (b <? 9223372036854775808) eqn:C; [|lia].
    destruct (9223372036854775808 <=? b + 9223372036854775808) eqn:C2; [|lia].
    destruct (b + 9223372036854775808 <? 9223372036854775808) eqn:C3; lia.
Qed.

Lemma jnenc_range b : in_u 64 b = true -> 0 <= jnenc b < 256 ^ Z.of_nat 8.
Proof. intros W. rewrite jnenc_tot by assumption. apply tot64_range. exact W. Qed.

(* the entry loop of decode_json_object on the tail of an object *)
Section Obj.
  Variable one : list Z -> res json.
  Definition ent_dec (e : list Z * json) : Prop :=
    forall r, one (jenc (snd e) ++ r) = ROk (snd e) (blen (jenc (snd e))).

  Lemma jobj_go (e : list Z * json) (R : list Z) :
    text_ok (fst e) = true -> ent_dec e ->
    unesc (jentry_enc e ++ R) = Some (fst e, blen (esc (fst e)))
    /\ one (drop (blen (esc (fst e))) (jentry_enc e ++ R)) = ROk (snd e) (blen (jenc (snd e)))
    /\ drop (blen (esc (fst e)) + blen (jenc (snd e))) (jentry_enc e ++ R) = R.
  Proof.
    intros Hk Hd. unfold jentry_enc. rewrite <- !app_assoc. repeat split.
    - apply unesc_esc. apply text_ok_bytes. exact Hk.
    - rewrite drop_app_len. apply Hd.
    - rewrite <- blen_app. rewrite app_assoc. apply drop_app_len.
  Qed.

  Lemma jobj_jtail l : forall fuel r, (length l < fuel)%nat ->
    (forall e, In e l -> text_ok (fst e) = true /\ ent_dec e) ->
    jobj fuel one (jtail (map jentry_enc l) ++ r) false = ROk l (blen (jtail (map jentry_enc l))).
  Proof.
    induction l as [|e l IH]; intros fuel r Hf H; (destruct fuel as [|fuel]; [cbn [length] in Hf; lia|]).
    - reflexivity.
    - destruct (H e (or_introl eq_refl)) as [Hk Hd].
      cbn [map jtail app jobj]. change (1 =? 0) with false. change (1 =? 1) with true. cbv iota.
      destruct (jobj_go e (jtail (map jentry_enc l) ++ r) Hk Hd) as (U & O & D).
      rewrite <- app_assoc. rewrite U. rewrite (text_ok_utf8 _ Hk). rewrite O. cbn [rmap]. rewrite D.
      rewrite IH by (try (intros; apply H; right; assumption); cbn [length] in Hf; lia).
      cbn [rmap]. destruct e as [k v]. cbn [fst snd]. f_equal.
      unfold jentry_enc. cbn [fst snd]. rewrite !blen_cons, !blen_app. lia.
  Qed.

  Lemma jobj_join l fuel r : (length l < fuel)%nat ->
    (forall e, In e l -> text_ok (fst e) = true /\ ent_dec e) ->
    (forall e, hd_error l = Some e -> key_starts_nul (fst e) = false) ->
    jobj fuel one (join (map jentry_enc l) ++ r) true = ROk l (blen (join (map jentry_enc l))).
  Proof.
    intros Hf H Hp. destruct fuel as [|fuel]; [lia|]. destruct l as [|e l].
    - reflexivity.
    - destruct (H e (or_introl eq_refl)) as [Hk Hd].
      destruct (esc_pos_head (fst e) (text_ok_bytes _ Hk) (Hp e eq_refl)) as (b & t & E & Hb).
      cbn [map join]. rewrite <- app_assoc.
      assert (Hx : exists t', jentry_enc e ++ jtail (map jentry_enc l) ++ r = b :: t').
      { unfold jentry_enc. rewrite E. eexists. reflexivity. }
      destruct Hx as (t' & Hx).
      cbn [jobj]. rewrite Hx. destruct (Z.eqb_spec b 0) as [->|_]; [lia|]. rewrite <- Hx.
      destruct (jobj_go e (jtail (map jentry_enc l) ++ r) Hk Hd) as (U & O & D).
      rewrite U. rewrite (text_ok_utf8 _ Hk). rewrite O. cbn [rmap]. rewrite D.
      rewrite jobj_jtail by (try (intros; apply H; right; assumption); cbn [length] in Hf; lia).
      cbn [rmap]. destruct e as [k v]. cbn [fst snd]. f_equal.
      unfold jentry_enc. cbn [fst snd]. rewrite !blen_app. lia.
  Qed.
End Obj.

Lemma jsize_arr_in l x : In x l -> (S (jsize x) < jsize (JArr l))%nat.
Proof.
  cbn [jsize]. induction l as [|y l IH]; intros Hin; [contradiction|].
  cbn [fold_right]. destruct Hin as [->|Hin]; [|specialize (IH Hin)]; lia.
Qed.
Lemma jsize_arr_len l : (S (length l) < jsize (JArr l))%nat.
Proof. cbn [jsize]. induction l as [|y l IH]; cbn [fold_right length]; lia. Qed.
Lemma jsize_obj_in l e : In e l -> (S (jsize (snd e)) < jsize (JObj l))%nat.
Proof.
  cbn [jsize]. induction l as [|y l IH]; intros Hin; [contradiction|].
  cbn [fold_right]. destruct Hin as [->|Hin]; [|specialize (IH Hin)]; lia.
Qed.
Lemma jsize_obj_len l : (S (length l) < jsize (JObj l))%nat.
Proof. cbn [jsize]. induction l as [|y l IH]; cbn [fold_right length]; lia. Qed.

Lemma map_id_in {A} (l : list A) : map (fun x => x) l = l.
Proof. apply map_id. Qed.

Theorem jdec_jenc : forall j fuel r, jwf j = true -> jfree j -> (jsize j <= fuel)%nat ->
  jdec fuel (jenc j ++ r) = ROk j (blen (jenc j)).
Proof.
  induction j as [| b | b | s | l IH | l IH] using json_ind2; intros fuel r W F Hf;
    (destruct fuel as [|fuel]; [cbn [jsize] in Hf; lia|]).
  - reflexivity.
  - destruct b; reflexivity.
  - cbn [jwf] in W.
    cbn [jenc app]. rewrite jdec_num.
    rewrite blen_cons, blen_app, blen_be_bytes.
    pose proof (blen_nonneg r). destruct (Z.leb_spec 9 (1 + (Z.of_nat 8 + blen r))); [|lia].
    change (KP_JSON_NUMBER :: be_bytes 8 (jnenc b) ++ r) with ([KP_JSON_NUMBER] ++ be_bytes 8 (jnenc b) ++ r).
    rewrite sub_mid by (try reflexivity; apply blen_be_bytes).
    cbv zeta. rewrite from_be_be_bytes by (apply jnenc_range; assumption).
    rewrite jnum_back by assumption. reflexivity.
  - cbn [jwf] in W. cbn [jenc app]. rewrite jdec_str.
    rewrite unesc_esc by (apply text_ok_bytes; exact W). rewrite (text_ok_utf8 _ W).
    rewrite blen_cons. reflexivity.
  - cbn [jenc app]. rewrite jdec_arr.
    rewrite Forall_forall in IH.
    rewrite (elems_join jenc (fun x => x) (jdec fuel)).
    + cbn [rmap]. rewrite map_id. rewrite blen_cons. reflexivity.
    + pose proof (jsize_arr_len l). lia.
    + intros x Hx s. apply IH; eauto using jwf_arr, jfree_arr.
      pose proof (jsize_arr_in l x Hx). lia.
    + intros x _. apply jenc_pos_head.
  - cbn [jenc app]. rewrite jdec_obj.
    rewrite Forall_forall in IH.
    change (map (fun e => esc (fst e) ++ jenc (snd e)) l) with (map jentry_enc l).
    rewrite jobj_join.
    + cbn [rmap]. rewrite blen_cons. reflexivity.
    + pose proof (jsize_obj_len l). lia.
    + intros e He. destruct (jwf_obj _ _ W He) as [Kx Vx]. split; [exact Kx|].
      intros s. apply IH; eauto using jfree_obj. pose proof (jsize_obj_in l e He). lia.
    + intros e He. eapply jfree_obj_head; eauto.
Qed.
