(* C24: the list of kernel calls that the correspondence evaluates with every loop run once
   ([kern_model_shared], Corr/C24.v) is, by unfolding, the list of the model's kernels
   ([kern_model]). *)
From Coq Require Import ZArith List Bool.
From TV Require Import Model.Kernels Model.KernelsF32 Corr.C24.
Import ListNotations.

Lemma kern_model_shared_eq_l : forall simd a b, kern_model_shared simd a b = kern_model simd a b.
Proof. intros simd a b. destruct simd; reflexivity. Qed.
