//! C40 catalog persistence: (a) catalogs built through the schema API, saved / loaded by the real
//! CatalogPersistence; (b) raw (malformed) byte strings through deserialize / load; (c) histories
//! of real DDL statements on a Database, then reload / reopen; (d) one more DDL statement, then
//! every crash state of the catalog rewrite (prefixes of the file when it is rewritten in place).
use std::collections::BTreeMap;
use std::panic::AssertUnwindSafe;
use std::path::{Path, PathBuf};
use tvh::*;
use turdb::records::types::DataType;
use turdb::schema::persistence::CatalogPersistence;
use turdb::schema::{
    Catalog, ColumnDef, Constraint, IndexColumnDef, IndexDef, IndexType, ReferentialAction, Schema, SortDirection, TableDef,
};
use turdb::Database;

const TYPES: [(u8, DataType); 32] = [
    (0, DataType::Bool), (1, DataType::Int2), (2, DataType::Int4), (3, DataType::Int8), (4, DataType::Float4),
    (5, DataType::Float8), (6, DataType::Date), (7, DataType::Time), (8, DataType::Timestamp), (9, DataType::TimestampTz),
    (10, DataType::Uuid), (11, DataType::MacAddr), (12, DataType::Inet4), (13, DataType::Inet6), (20, DataType::Text),
    (21, DataType::Blob), (22, DataType::Vector), (23, DataType::Jsonb), (24, DataType::Varchar), (25, DataType::Char),
    (30, DataType::Decimal), (31, DataType::Interval), (40, DataType::Int4Range), (41, DataType::Int8Range),
    (42, DataType::DateRange), (43, DataType::TimestampRange), (50, DataType::Enum), (60, DataType::Point),
    (61, DataType::Box), (62, DataType::Circle), (70, DataType::Composite), (71, DataType::Array),
];
fn dt_of(b: u8) -> DataType { TYPES.iter().find(|(x, _)| *x == b).map(|(_, d)| *d).unwrap_or(DataType::Int4) }

// ------------------------------------------------------------------ harness-side catalog description
#[derive(Clone, Debug)]
struct SIdxCol { expr: bool, text: String, desc: bool }
#[derive(Clone, Debug)]
struct SIndex { name: String, cols: Vec<SIdxCol>, unique: bool, hnsw: bool, where_: Option<String> }
#[derive(Clone, Debug)]
enum SConstr { NotNull, Pk, Unique, AutoInc, Fk(String, String, u8, u8), Check(String) }
#[derive(Clone, Debug)]
struct SColumn { name: String, ty: u8, constrs: Vec<SConstr>, dflt: Option<String>, maxlen: Option<u32> }
#[derive(Clone, Debug)]
struct STable { id: u64, name: String, cols: Vec<SColumn>, pk: Option<Vec<String>>, idx: Vec<SIndex>, toast: Option<u64> }
#[derive(Clone, Debug)]
struct SSchema { id: u32, name: String, tables: Vec<STable> }
/// schemas named "root" / "turdb_catalog" add their tables to the built-in ones (their id is ignored)
#[derive(Clone, Debug)]
struct SCat { drop_root: bool, schemas: Vec<SSchema> }

// --- one-line encoding of an SCat (replay lines): a plain tagged binary form, printed as hex
struct W(Vec<u8>);
impl W {
    fn u8(&mut self, v: u8) { self.0.push(v); }
    fn u32(&mut self, v: u32) { self.0.extend(v.to_le_bytes()); }
    fn u64(&mut self, v: u64) { self.0.extend(v.to_le_bytes()); }
    fn s(&mut self, s: &str) { self.u32(s.len() as u32); self.0.extend(s.as_bytes()); }
    fn os(&mut self, s: &Option<String>) { match s { Some(x) => { self.u8(1); self.s(x) } None => self.u8(0) } }
}
struct R<'a>(&'a [u8], usize);
impl<'a> R<'a> {
    fn u8(&mut self) -> u8 { let v = *self.0.get(self.1).unwrap_or(&0); self.1 += 1; v }
    fn u32(&mut self) -> u32 { let mut b = [0u8; 4]; for i in 0..4 { b[i] = self.u8(); } u32::from_le_bytes(b) }
    fn u64(&mut self) -> u64 { let mut b = [0u8; 8]; for i in 0..8 { b[i] = self.u8(); } u64::from_le_bytes(b) }
    fn s(&mut self) -> String {
        let n = self.u32() as usize;
        let e = (self.1 + n).min(self.0.len());
        let v = String::from_utf8_lossy(&self.0[self.1.min(e)..e]).into_owned();
        self.1 += n;
        v
    }
    fn os(&mut self) -> Option<String> { if self.u8() != 0 { Some(self.s()) } else { None } }
}
fn scat_enc(c: &SCat) -> String {
    let mut w = W(vec![]);
    w.u8(c.drop_root as u8);
    w.u32(c.schemas.len() as u32);
    for s in &c.schemas {
        w.u32(s.id); w.s(&s.name); w.u32(s.tables.len() as u32);
        for t in &s.tables {
            w.u64(t.id); w.s(&t.name); w.u32(t.cols.len() as u32);
            for c in &t.cols {
                w.s(&c.name); w.u8(c.ty); w.u32(c.constrs.len() as u32);
                for k in &c.constrs {
                    match k {
                        SConstr::NotNull => w.u8(0), SConstr::Pk => w.u8(1), SConstr::Unique => w.u8(2), SConstr::AutoInc => w.u8(5),
                        SConstr::Fk(t, c, d, u) => { w.u8(3); w.s(t); w.s(c); w.u8(*d); w.u8(*u); }
                        SConstr::Check(e) => { w.u8(4); w.s(e); }
                    }
                }
                w.os(&c.dflt);
                match c.maxlen { Some(m) => { w.u8(1); w.u32(m) } None => w.u8(0) }
            }
            match &t.pk { Some(p) => { w.u8(1); w.u32(p.len() as u32); for x in p { w.s(x); } } None => w.u8(0) }
            w.u32(t.idx.len() as u32);
            for i in &t.idx {
                w.s(&i.name); w.u32(i.cols.len() as u32);
                for c in &i.cols { w.u8(c.expr as u8); w.s(&c.text); w.u8(c.desc as u8); }
                w.u8(i.unique as u8); w.u8(i.hnsw as u8); w.os(&i.where_);
            }
            match t.toast { Some(x) => { w.u8(1); w.u64(x) } None => w.u8(0) }
        }
    }
    hex(&w.0)
}
fn scat_dec(h: &str) -> SCat {
    let b = unhex(h);
    let mut r = R(&b, 0);
    let drop_root = r.u8() != 0;
    let ns = r.u32().min(64);
    let mut schemas = vec![];
    for _ in 0..ns {
        let id = r.u32(); let name = r.s(); let nt = r.u32().min(4096);
        let mut tables = vec![];
        for _ in 0..nt {
            let tid = r.u64(); let tname = r.s(); let nc = r.u32().min(70000);
            let mut cols = vec![];
            for _ in 0..nc {
                let name = r.s(); let ty = r.u8(); let nk = r.u32().min(70000);
                let mut constrs = vec![];
                for _ in 0..nk {
                    constrs.push(match r.u8() {
                        0 => SConstr::NotNull, 1 => SConstr::Pk, 2 => SConstr::Unique, 5 => SConstr::AutoInc,
                        3 => { let t = r.s(); let c = r.s(); let d = r.u8(); let u = r.u8(); SConstr::Fk(t, c, d, u) }
                        _ => SConstr::Check(r.s()),
                    });
                }
                let dflt = r.os();
                let maxlen = if r.u8() != 0 { Some(r.u32()) } else { None };
                cols.push(SColumn { name, ty, constrs, dflt, maxlen });
            }
            let pk = if r.u8() != 0 { let n = r.u32().min(70000); Some((0..n).map(|_| r.s()).collect()) } else { None };
            let ni = r.u32().min(70000);
            let mut idx = vec![];
            for _ in 0..ni {
                let name = r.s(); let nc = r.u32().min(70000);
                let mut icols = vec![];
                for _ in 0..nc { let expr = r.u8() != 0; let text = r.s(); let desc = r.u8() != 0; icols.push(SIdxCol { expr, text, desc }); }
                let unique = r.u8() != 0; let hnsw = r.u8() != 0; let where_ = r.os();
                idx.push(SIndex { name, cols: icols, unique, hnsw, where_ });
            }
            let toast = if r.u8() != 0 { Some(r.u64()) } else { None };
            tables.push(STable { id: tid, name: tname, cols, pk, idx, toast });
        }
        schemas.push(SSchema { id, name, tables });
    }
    SCat { drop_root, schemas }
}

fn act_of(b: u8) -> Option<ReferentialAction> {
    match b { 1 => Some(ReferentialAction::Cascade), 2 => Some(ReferentialAction::Restrict), 3 => Some(ReferentialAction::NoAction),
              4 => Some(ReferentialAction::SetNull), 5 => Some(ReferentialAction::SetDefault), _ => None }
}
/// build the real Catalog through the public schema API
fn build(c: &SCat) -> Catalog {
    let mut cat = Catalog::new();
    if c.drop_root { cat.schemas_mut().remove("root"); }
    for s in &c.schemas {
        if cat.get_schema(&s.name).is_none() {
            cat.schemas_mut().insert(s.name.clone(), Schema::new(s.id, s.name.clone()));
        }
        let sch = cat.get_schema_mut(&s.name).unwrap();
        for t in &s.tables {
            let cols: Vec<ColumnDef> = t.cols.iter().map(|c| {
                let mut cd = ColumnDef::new(c.name.clone(), dt_of(c.ty));
                for k in &c.constrs {
                    cd = cd.with_constraint(match k {
                        SConstr::NotNull => Constraint::NotNull, SConstr::Pk => Constraint::PrimaryKey, SConstr::Unique => Constraint::Unique,
                        SConstr::AutoInc => Constraint::AutoIncrement,
                        SConstr::Fk(t, c, d, u) => Constraint::ForeignKey { table: t.clone(), column: c.clone(), on_delete: act_of(*d), on_update: act_of(*u) },
                        SConstr::Check(e) => Constraint::Check(e.clone()),
                    });
                }
                if let Some(d) = &c.dflt { cd = cd.with_default(d.clone()); }
                if let Some(m) = c.maxlen { cd = cd.with_max_length(m); }
                cd
            }).collect();
            let mut td = TableDef::new(t.id, t.name.clone(), cols);
            if let Some(p) = &t.pk { td = td.with_primary_key(p.clone()); }
            for i in &t.idx {
                let defs: Vec<IndexColumnDef> = i.cols.iter().map(|c| {
                    let b = if c.expr { IndexColumnDef::expression(c.text.clone()) } else { IndexColumnDef::column(c.text.clone()) };
                    b.with_direction(if c.desc { SortDirection::Desc } else { SortDirection::Asc })
                }).collect();
                let mut d = IndexDef::new_expression(i.name.clone(), defs, i.unique, if i.hnsw { IndexType::Hnsw } else { IndexType::BTree });
                if let Some(w) = &i.where_ { d = d.with_where_clause(w.clone()); }
                td = td.with_index(d);
            }
            if let Some(x) = t.toast { td = td.with_toast_id(x); }
            sch.add_table(td);
        }
    }
    cat
}
fn scat_tags(c: &SCat) -> String {
    let mut t: Vec<&str> = vec![];
    if c.drop_root { t.push("noroot"); }
    if c.schemas.iter().any(|s| s.name != "root" && s.name != "turdb_catalog") { t.push("userschema"); }
    if c.schemas.iter().any(|s| s.tables.iter().any(|t| t.idx.iter().any(|i| i.where_.is_some() || i.cols.iter().any(|c| c.expr)))) { t.push("expridx"); }
    if t.is_empty() { "plain".into() } else { t.join(",") }
}

// ------------------------------------------------------------------ real catalog -> Coq term
fn st(s: &str) -> String {
    let b = s.as_bytes();
    // a long run of one byte (the name-length boundary cases) is printed as (rep b n): Corr/C40.v
    if b.len() >= 48 && b.iter().all(|x| *x == b[0]) { return format!("(rep {} {})", b[0], b.len()); }
    cbytes(b)
}
fn ost(s: Option<&str>) -> String { match s { Some(x) => format!("(Some {})", st(x)), None => "None".into() } }
fn act_term(a: Option<ReferentialAction>) -> &'static str {
    match a { None => "None", Some(ReferentialAction::Cascade) => "(Some RCascade)", Some(ReferentialAction::Restrict) => "(Some RRestrict)",
              Some(ReferentialAction::NoAction) => "(Some RNoAction)", Some(ReferentialAction::SetNull) => "(Some RSetNull)",
              Some(ReferentialAction::SetDefault) => "(Some RSetDefault)" }
}
fn constr_term(c: &Constraint) -> String {
    match c {
        Constraint::NotNull => "CNotNull".into(), Constraint::PrimaryKey => "CPrimaryKey".into(), Constraint::Unique => "CUnique".into(),
        Constraint::AutoIncrement => "CAutoIncrement".into(),
        Constraint::ForeignKey { table, column, on_delete, on_update } =>
            format!("CForeignKey {} {} {} {}", st(table), st(column), act_term(*on_delete), act_term(*on_update)),
        Constraint::Check(e) => format!("CCheck {}", st(e)),
    }
}
fn column_term(c: &ColumnDef) -> String {
    format!("Column {} {} {} {} {}", st(c.name()), c.data_type() as u8,
        clist(&c.constraints().iter().map(constr_term).collect::<Vec<_>>()), ost(c.default_value()),
        match c.max_length() { Some(m) => format!("(Some {})", m), None => "None".into() })
}
fn index_term(i: &IndexDef) -> String {
    let cols: Vec<String> = i.column_defs().iter().map(|c| {
        let k = match (c.as_column(), c.as_expression()) { (Some(n), _) => format!("ICColumn {}", st(n)), (_, Some(e)) => format!("ICExpr {}", st(e)), _ => "ICColumn []".into() };
        format!("IdxCol ({}) {}", k, cbool(c.is_desc()))
    }).collect();
    format!("Index {} {} {} {} {}", st(i.name()), clist(&cols), cbool(i.is_unique()), cbool(i.index_type() == IndexType::Hnsw), ost(i.where_clause()))
}
fn table_term(t: &TableDef) -> String {
    format!("Table {} {} {} {} {} {}", t.id(), st(t.name()),
        clist(&t.columns().iter().map(column_term).collect::<Vec<_>>()),
        match t.primary_key() { Some(p) => format!("(Some {})", clist(&p.iter().map(|x| st(x)).collect::<Vec<_>>())), None => "None".into() },
        clist(&t.indexes().iter().map(index_term).collect::<Vec<_>>()),
        match t.toast_id() { Some(x) => format!("(Some {})", x), None => "None".into() })
}
/// schemas and tables in HashMap iteration order (the order serialize will use on this same object)
fn catalog_term(c: &Catalog) -> String {
    let ss: Vec<String> = c.schemas().values().map(|s| {
        format!("Schema {} {} {}", s.id(), st(s.name()), clist(&s.tables().values().map(table_term).collect::<Vec<_>>()))
    }).collect();
    clist(&ss)
}
fn catalog_term_sorted(c: &Catalog) -> String {
    let mut ss: Vec<&Schema> = c.schemas().values().collect();
    ss.sort_by(|a, b| a.name().cmp(b.name()));
    let v: Vec<String> = ss.iter().map(|s| {
        let mut ts: Vec<&TableDef> = s.tables().values().collect();
        ts.sort_by(|a, b| a.name().cmp(b.name()));
        format!("Schema {} {} {}", s.id(), st(s.name()), clist(&ts.iter().map(|t| table_term(t)).collect::<Vec<_>>()))
    }).collect();
    clist(&v)
}
fn fnv64(b: &[u8]) -> u64 {
    let mut h: u64 = 0xcbf29ce484222325;
    for x in b { h ^= *x as u64; h = h.wrapping_mul(0x100000001b3); }
    h
}
fn summary_term(c: &Catalog, skip: &dyn Fn(&str, &str) -> bool, skip_idx: &dyn Fn(&str) -> bool) -> String {
    let mut v = vec![];
    for s in c.schemas().values() { for t in s.tables().values() {
        if skip(s.name(), t.name()) { continue; }
        v.push(format!("({}, {}, {})", st(s.name()), st(t.name()),
            clist(&t.indexes().iter().filter(|i| !skip_idx(i.name())).map(|i| st(i.name())).collect::<Vec<_>>())));
    } }
    v.sort();   // HashMap order differs from load to load; a stable text lets equal observations share a run
    clist(&v)
}

// ------------------------------------------------------------------ running the real code
struct Tmp { dir: PathBuf, n: u64 }
impl Tmp {
    fn new(tag: &str) -> Tmp {
        let dir = PathBuf::from(format!("/verif/build/tmp/c40-{}-{}", tag, std::process::id()));
        let _ = std::fs::remove_dir_all(&dir);
        std::fs::create_dir_all(&dir).expect("tmp dir");
        Tmp { dir, n: 0 }
    }
    fn fresh(&mut self) -> PathBuf { self.n += 1; self.dir.join(format!("x{}", self.n)) }
}
impl Drop for Tmp { fn drop(&mut self) { let _ = std::fs::remove_dir_all(&self.dir); } }

enum Loaded { Ok(Catalog), Err, Panic }
fn load_term(l: &Loaded) -> String {
    match l { Loaded::Ok(c) => format!("(LOk {})", catalog_term(c)), Loaded::Err => "LErr".into(), Loaded::Panic => "LPanic".into() }
}
fn real_load(path: &Path) -> Loaded {
    let p = path.to_path_buf();
    match catch(AssertUnwindSafe(move || { let mut c = Catalog::new(); CatalogPersistence::load(&p, &mut c).map(|_| c).ok() })) {
        Caught::Done(Some(c)) => Loaded::Ok(c), Caught::Done(None) => Loaded::Err, Caught::Panicked(_) => Loaded::Panic,
    }
}
fn real_load_bytes(tmp: &mut Tmp, bytes: &[u8]) -> Loaded {
    let p = tmp.fresh();
    std::fs::write(&p, bytes).expect("write");
    let r = real_load(&p);
    let _ = std::fs::remove_file(&p);
    r
}
fn real_deserialize(bytes: &[u8]) -> Loaded {
    let b = bytes.to_vec();
    match catch(AssertUnwindSafe(move || { let mut c = Catalog::new(); CatalogPersistence::deserialize(&b, &mut c).map(|_| c).ok() })) {
        Caught::Done(Some(c)) => Loaded::Ok(c), Caught::Done(None) => Loaded::Err, Caught::Panicked(_) => Loaded::Panic,
    }
}

/// (sflag, serialize bytes, file bytes, load)
fn run_codec(tmp: &mut Tmp, cat: &Catalog) -> (i32, Vec<u8>, Vec<u8>, Loaded) {
    let ser = catch(AssertUnwindSafe(|| CatalogPersistence::serialize(cat).ok()));
    let (sflag, body) = match ser { Caught::Done(Some(b)) => (0, b), Caught::Done(None) => (1, vec![]), Caught::Panicked(_) => (2, vec![]) };
    if sflag != 0 { return (sflag, body, vec![], Loaded::Err); }
    let p = tmp.fresh();
    let saved = catch(AssertUnwindSafe(|| CatalogPersistence::save(cat, &p).is_ok()));
    if !matches!(saved, Caught::Done(true)) { return (2, body, vec![], Loaded::Err); }
    let file = std::fs::read(&p).unwrap_or_default();
    let l = real_load(&p);
    let _ = std::fs::remove_file(&p);
    // save must not leave its temporary file behind
    let mut tmp_name = p.as_os_str().to_os_string(); tmp_name.push(".tmp");
    let tmp_path = PathBuf::from(tmp_name);
    if tmp_path.exists() { let _ = std::fs::remove_file(&tmp_path); return (sflag, vec![], file, l); }
    (sflag, body, file, l)
}

fn codec_case(w: &mut CaseWriter, tmp: &mut Tmp, sc: &SCat, kind: &str) {
    let cat = build(sc);
    let term_cat = catalog_term(&cat);
    let (sflag, body, file, l) = run_codec(tmp, &cat);
    let same = sflag == 0 && file.len() >= 128 && file[128..] == body[..];
    // the loaded catalog in full only where it differs from the built one (both printed in name order)
    let lterm = match &l { Loaded::Ok(c2) if catalog_term_sorted(c2) == catalog_term_sorted(&cat) => "LSame".to_string(), x => load_term(x) };
    let term = format!("Codec {} {} {} {} {} {}", term_cat, sflag, cbool(same), file.len(), fnv64(&file), lterm);
    let ntab: usize = sc.schemas.iter().map(|s| s.tables.len()).sum();
    let rich = sc.schemas.iter().any(|s| s.tables.iter().any(|t| !t.cols.is_empty() && (!t.idx.is_empty() || t.cols.iter().any(|c| !c.constrs.is_empty()))));
    w.push(term, format!("codec tags={} cat={}", scat_tags(sc), scat_enc(sc)), ntab >= 1 && rich, kind);
}

// ------------------------------------------------------------------ catalog generators
const NAMES: [&str; 14] = ["id", "name", "a", "b", "user_id", "created_at", "Ünï", "列", "x y", "q\"uote", "T1", "emoji😀", "", "tab\tname"];
fn gen_name(rng: &mut Rng, pool: &str) -> String {
    match rng.below(10) {
        0..=5 => format!("{}{}", pool, rng.below(6)),
        6 | 7 => rng.pick(&NAMES).to_string(),
        8 => { let n = rng.below(12) as usize; (0..n).map(|_| *rng.pick(&['a', 'Z', '_', '9', 'é', '漢', '\u{10FFFF}', '\u{7ff}', '\u{800}', '\0', '\'', ' '])).collect() }
        _ => { let n = *rng.pick(&[0usize, 1, 127, 128, 255, 256, 300]); "n".repeat(n) }
    }
}
fn gen_text(rng: &mut Rng) -> String {
    match rng.below(6) { 0 => String::new(), 1 => "0".into(), 2 => "CURRENT_TIMESTAMP".into(), 3 => "(a > 0)".into(), 4 => "'it''s'".into(), _ => gen_name(rng, "v") }
}
fn gen_constr(rng: &mut Rng) -> SConstr {
    match rng.below(8) {
        0 => SConstr::NotNull, 1 => SConstr::Pk, 2 => SConstr::Unique, 3 => SConstr::AutoInc,
        4 | 5 => SConstr::Fk(gen_name(rng, "t"), gen_name(rng, "c"), rng.below(6) as u8, rng.below(6) as u8),
        _ => SConstr::Check(gen_text(rng)),
    }
}
fn gen_column(rng: &mut Rng) -> SColumn {
    let nk = *rng.pick(&[0usize, 0, 1, 1, 2, 3, 5]);
    SColumn { name: gen_name(rng, "c"), ty: rng.pick(&TYPES).0, constrs: (0..nk).map(|_| gen_constr(rng)).collect(),
        dflt: if rng.chance(1, 3) { Some(gen_text(rng)) } else { None },
        maxlen: if rng.chance(1, 3) { Some(*rng.pick(&[0u32, 1, 10, 255, 65535, 65536, u32::MAX])) } else { None } }
}
fn gen_index(rng: &mut Rng, fancy: bool) -> SIndex {
    let nc = *rng.pick(&[0usize, 1, 1, 1, 2, 3]);
    let cols = (0..nc).map(|_| {
        let expr = fancy && rng.chance(1, 2);
        SIdxCol { expr, text: if expr { format!("lower({})", gen_name(rng, "c")) } else { gen_name(rng, "c") }, desc: rng.chance(1, 3) }
    }).collect();
    SIndex { name: gen_name(rng, "ix"), cols, unique: rng.chance(1, 3), hnsw: rng.chance(1, 5),
        where_: if fancy && rng.chance(1, 2) { Some(gen_text(rng)) } else { None } }
}
fn gen_table(rng: &mut Rng, fancy: bool) -> STable {
    let nc = rng.below(5) as usize;
    let ni = *rng.pick(&[0usize, 0, 1, 1, 2, 3]);
    let id = match rng.below(8) { 0 => u64::MAX, 1 => 0, 2 => 1u64 << 32, _ => rng.below(1000) };
    STable { id, name: gen_name(rng, "t"), cols: (0..nc).map(|_| gen_column(rng)).collect(),
        pk: match rng.below(4) { 0 => Some((0..rng.below(3)).map(|_| gen_name(rng, "c")).collect()), _ => None },
        idx: (0..ni).map(|_| gen_index(rng, fancy)).collect(),
        toast: match rng.below(4) { 0 => Some(rng.below(1000)), 1 => Some(u64::MAX), _ => None } }
}
/// shape: 0 built-in schemas only, 1 user schemas as well, 2 expression / partial indexes, 3 dropped root
fn gen_scat(rng: &mut Rng, shape: u32) -> SCat {
    let mut schemas = vec![];
    let fancy = shape == 2;
    for nm in ["root", "turdb_catalog"] {
        let nt = if nm == "root" { *rng.pick(&[0usize, 1, 1, 2, 2, 3, 4]) } else { *rng.pick(&[0usize, 0, 1, 2]) };
        if nt > 0 || rng.chance(1, 2) { schemas.push(SSchema { id: 0, name: nm.into(), tables: (0..nt).map(|_| gen_table(rng, fancy)).collect() }); }
    }
    let mut drop_root = false;
    if shape == 3 { drop_root = true; schemas.retain(|s| s.name != "root"); }
    if shape == 1 || (shape == 3 && rng.chance(1, 3)) {
        {
            let ns = 1 + rng.below(2);
            for k in 0..ns {
                let nt = rng.below(3) as usize;
                schemas.push(SSchema { id: *rng.pick(&[2u32, 3, 7, u32::MAX]) , name: if k == 0 && rng.chance(1, 2) { "analytics".into() } else { gen_name(rng, "s") }, tables: (0..nt).map(|_| gen_table(rng, false)).collect() });
            }
        }
    }
    if fancy && !schemas.iter().any(|s| s.tables.iter().any(|t| t.idx.iter().any(|i| i.where_.is_some() || i.cols.iter().any(|c| c.expr)))) {
        // make sure the case is really in the class
        let t = STable { id: 9, name: "fx".into(), cols: vec![SColumn { name: "name".into(), ty: 20, constrs: vec![], dflt: None, maxlen: None }], pk: None,
            idx: vec![SIndex { name: "ixe".into(), cols: vec![SIdxCol { expr: true, text: "lower(name)".into(), desc: false }], unique: false, hnsw: false, where_: None }], toast: None };
        if let Some(s) = schemas.iter_mut().find(|s| s.name == "root") { s.tables.push(t); } else { schemas.push(SSchema { id: 0, name: "root".into(), tables: vec![t] }); }
    }
    SCat { drop_root, schemas }
}
fn col(name: &str, ty: u8) -> SColumn { SColumn { name: name.into(), ty, constrs: vec![], dflt: None, maxlen: None } }
fn tab(id: u64, name: &str, cols: Vec<SColumn>) -> STable { STable { id, name: name.into(), cols, pk: None, idx: vec![], toast: None } }
fn root_with(tables: Vec<STable>) -> SCat { SCat { drop_root: false, schemas: vec![SSchema { id: 0, name: "root".into(), tables }] } }
fn boundary_scats(thorough: bool) -> Vec<SCat> {
    let mut v = vec![];
    v.push(SCat { drop_root: false, schemas: vec![] });
    v.push(root_with(vec![tab(1, "t", vec![])]));
    // every data type, every constraint, every action pair on the diagonal
    v.push(root_with(vec![tab(2, "alltypes", TYPES.iter().map(|(b, _)| col(&format!("c{}", b), *b)).collect())]));
    let mut c = col("k", 3);
    c.constrs = vec![SConstr::NotNull, SConstr::Pk, SConstr::Unique, SConstr::AutoInc, SConstr::Check("k > 0".into()), SConstr::Check(String::new())];
    for d in 0..6u8 { c.constrs.push(SConstr::Fk("other".into(), "id".into(), d, (d + 1) % 6)); }
    c.constrs.push(SConstr::Fk(String::new(), String::new(), 0, 0));
    c.dflt = Some(String::new());
    c.maxlen = Some(u32::MAX);
    let mut c2 = col("v", 24); c2.dflt = Some("x".into()); c2.maxlen = Some(0);
    let mut t = tab(u64::MAX, "allconstr", vec![c, c2]);
    t.pk = Some(vec!["k".into(), "v".into()]);
    t.toast = Some(u64::MAX);
    t.idx = vec![
        SIndex { name: "i0".into(), cols: vec![], unique: false, hnsw: false, where_: None },
        SIndex { name: "i1".into(), cols: vec![SIdxCol { expr: false, text: "k".into(), desc: true }, SIdxCol { expr: false, text: "v".into(), desc: false }], unique: true, hnsw: false, where_: None },
        SIndex { name: "i2".into(), cols: vec![SIdxCol { expr: false, text: "v".into(), desc: false }], unique: false, hnsw: true, where_: None },
    ];
    v.push(root_with(vec![t.clone()]));
    let mut t2 = t.clone(); t2.pk = Some(vec![]); t2.toast = Some(0); t2.id = 0; t2.name = String::new();
    v.push(root_with(vec![t2]));
    // name lengths around one byte / the u16 field
    let mut lens = vec![0usize, 1, 127, 128, 255, 256, 257];
    if thorough { lens.push(65535); }
    for n in lens {
        let nm = "n".repeat(n);
        if n > 60000 {
            // the same boundary, one field at a time (keeps the case small enough to evaluate quickly)
            let mut c = col("c", 20); c.dflt = Some(nm.clone());
            v.push(root_with(vec![tab(5, &nm, vec![c])]));
            let mut t = tab(5, "t", vec![col(&nm, 20)]);
            t.idx = vec![SIndex { name: nm.clone(), cols: vec![], unique: false, hnsw: false, where_: None }];
            v.push(root_with(vec![t]));
            continue;
        }
        let mut c = col(&nm, 20); c.dflt = Some(nm.clone()); c.constrs = vec![SConstr::Check(nm.clone()), SConstr::Fk(nm.clone(), nm.clone(), 1, 2)];
        let mut t = tab(5, &nm, vec![c]);
        t.pk = Some(vec![nm.clone()]);
        t.idx = vec![SIndex { name: nm.clone(), cols: vec![SIdxCol { expr: false, text: nm.clone(), desc: false }], unique: false, hnsw: false, where_: None }];
        v.push(root_with(vec![t]));
    }
    if thorough {
        // names one past the u16 field: the four ensure!d ones make serialize fail, the others are cut by `as u16`
        let big = "n".repeat(65536);
        v.push(root_with(vec![tab(5, &big, vec![])]));
        v.push(root_with(vec![tab(5, "t", vec![col(&big, 2)])]));
        let mut c = col("c", 2); c.dflt = Some(big.clone());
        v.push(root_with(vec![tab(5, "t", vec![c])]));
    }
    // multi-byte names at every UTF-8 length boundary
    for nm in ["\u{7f}", "\u{80}", "\u{7ff}", "\u{800}", "\u{d7ff}", "\u{e000}", "\u{ffff}", "\u{10000}", "\u{10ffff}", "a\u{0}b"] {
        v.push(root_with(vec![tab(7, nm, vec![col(nm, 20)])]));
    }
    // system schema tables, both schemas
    v.push(SCat { drop_root: false, schemas: vec![
        SSchema { id: 0, name: "turdb_catalog".into(), tables: vec![tab(1, "memory_stats", vec![col("stat_name", 20)]), tab(2, "wal_stats", vec![])] },
        SSchema { id: 0, name: "root".into(), tables: vec![tab(3, "users", vec![col("id", 3)]), tab(4, "posts", vec![col("id", 3)])] } ] });
    // the known classes, minimal
    v.push(SCat { drop_root: false, schemas: vec![SSchema { id: 2, name: "analytics".into(), tables: vec![] }] });
    v.push(SCat { drop_root: false, schemas: vec![SSchema { id: 2, name: "analytics".into(), tables: vec![tab(3, "ev", vec![col("id", 2)])] }] });
    v.push(SCat { drop_root: true, schemas: vec![] });
    let mut te = tab(3, "t1", vec![col("name", 20)]);
    te.idx = vec![SIndex { name: "ixe".into(), cols: vec![SIdxCol { expr: true, text: "lower(name)".into(), desc: false }], unique: false, hnsw: false, where_: None }];
    v.push(root_with(vec![te]));
    let mut tp = tab(3, "t1", vec![col("name", 20)]);
    tp.idx = vec![SIndex { name: "ixp".into(), cols: vec![SIdxCol { expr: false, text: "name".into(), desc: false }], unique: false, hnsw: false, where_: Some("(id Gt 3)".into()) }];
    v.push(root_with(vec![tp]));
    v
}

// ------------------------------------------------------------------ malformed streams
const BAD_UTF8: [&[u8]; 14] = [&[0x80], &[0xC0, 0x80], &[0xC1, 0xBF], &[0xC2], &[0xE0, 0x9F, 0x80], &[0xED, 0xA0, 0x80], &[0xED, 0xBF, 0xBF],
    &[0xF0, 0x8F, 0xBF, 0xBF], &[0xF4, 0x90, 0x80, 0x80], &[0xF5, 0x80, 0x80, 0x80], &[0xE2, 0x82], &[0xFF], &[0xF0, 0x9F, 0x98], &[0xC2, 0x41]];
const GOOD_UTF8: [&[u8]; 8] = [&[0xC2, 0x80], &[0xDF, 0xBF], &[0xE0, 0xA0, 0x80], &[0xED, 0x9F, 0xBF], &[0xEE, 0x80, 0x80], &[0xF0, 0x90, 0x80, 0x80], &[0xF4, 0x8F, 0xBF, 0xBF], &[0xEF, 0xBF, 0xBF]];

fn valid_body(rng: &mut Rng, tmp: &mut Tmp) -> Vec<u8> {
    let sc = gen_scat(rng, 0);
    let cat = build(&sc);
    let _ = tmp;
    CatalogPersistence::serialize(&cat).unwrap_or_default()
}
fn mutate(rng: &mut Rng, b: &mut Vec<u8>) {
    if b.is_empty() { b.push(rng.next() as u8); return; }
    match rng.below(8) {
        0 => { let k = rng.below(b.len() as u64 + 1) as usize; b.truncate(k); }
        1 => { let k = rng.below(b.len() as u64) as usize; b[k] ^= 1 << rng.below(8); }
        2 => { let k = rng.below(b.len() as u64) as usize; b[k] = *rng.pick(&[0u8, 1, 2, 5, 6, 0x7f, 0x80, 0xff]); }
        3 => { let k = rng.below(b.len() as u64 + 1) as usize; b.insert(k, rng.next() as u8); }
        4 => { let k = rng.below(b.len() as u64) as usize; b.remove(k); }
        5 => { let n = rng.below(6) as usize; let t = rng.bytes(n); b.extend(t); }
        6 => { let k = rng.below(b.len() as u64) as usize; let s = *rng.pick(&BAD_UTF8); for (i, x) in s.iter().enumerate() { if k + i < b.len() { b[k + i] = *x; } } }
        _ => { let k = rng.below(b.len() as u64) as usize; let s = *rng.pick(&GOOD_UTF8); for (i, x) in s.iter().enumerate() { if k + i < b.len() { b[k + i] = *x; } } }
    }
}
/// a one-table stream for schema "root" whose table name is the given raw bytes
fn stream_with_name(name: &[u8]) -> Vec<u8> {
    let mut b = vec![];
    b.extend(0u32.to_le_bytes()); b.extend(4u16.to_le_bytes()); b.extend(b"root"); b.extend(1u32.to_le_bytes());
    b.extend(7u64.to_le_bytes()); b.extend((name.len() as u16).to_le_bytes()); b.extend(name);
    b.extend(0u32.to_le_bytes()); b.push(0); b.extend(0u32.to_le_bytes()); b.push(0);
    b
}
fn file_of(body: &[u8]) -> Vec<u8> {
    let mut h = vec![0u8; 128];
    h[0..16].copy_from_slice(b"TurDB Rust v1\0\0\0");
    h[16..20].copy_from_slice(&1u32.to_le_bytes());
    h[20..24].copy_from_slice(&16384u32.to_le_bytes());
    h[24..32].copy_from_slice(&2u64.to_le_bytes());
    h[64..72].copy_from_slice(&128u64.to_le_bytes());
    h[72..80].copy_from_slice(&(body.len() as u64).to_le_bytes());
    h.extend_from_slice(body);
    h
}

fn dec_case(w: &mut CaseWriter, bytes: &[u8], kind: &str) {
    let l = real_deserialize(bytes);
    let nontrivial = bytes.len() >= 24;
    w.push(format!("Dec {} {}", cbytes(bytes), load_term(&l)), format!("dec bytes={}", hex(bytes)), nontrivial, kind);
}
fn loadf_case(w: &mut CaseWriter, tmp: &mut Tmp, bytes: &[u8], kind: &str) {
    // catalog_length is not bounded by the code (vec![0u8; n]): keep the allocation harmless
    if bytes.len() >= 80 { let n = u64::from_le_bytes(bytes[72..80].try_into().unwrap()); if n > (1 << 24) { return; } }
    let l = real_load_bytes(tmp, bytes);
    w.push(format!("LoadF {} {}", cbytes(bytes), load_term(&l)), format!("loadf bytes={}", hex(bytes)), bytes.len() >= 128, kind);
}

// ------------------------------------------------------------------ DDL histories on a real Database
#[derive(Clone, Debug)]
enum Op {
    CreateTable { schema: String, table: String, variant: u32 },
    CreateIndex { table: String, name: String, variant: u32 },
    DropTable { schema: String, table: String },
    DropIndex { name: String },
    CreateSchema { name: String },
    DropSchema { name: String },
    AddColumn { table: String, col: String, variant: u32 },
    RenameTable { table: String, to: String },
    Insert { table: String },
}
fn op_enc(o: &Op) -> String {
    match o {
        Op::CreateTable { schema, table, variant } => format!("ct:{}:{}:{}", if schema.is_empty() { "-" } else { schema }, table, variant),
        Op::CreateIndex { table, name, variant } => format!("ci:{}:{}:{}", table, name, variant),
        Op::DropTable { schema, table } => format!("dt:{}:{}", if schema.is_empty() { "-" } else { schema }, table),
        Op::DropIndex { name } => format!("di:{}", name),
        Op::CreateSchema { name } => format!("cs:{}", name),
        Op::DropSchema { name } => format!("ds:{}", name),
        Op::AddColumn { table, col, variant } => format!("ac:{}:{}:{}", table, col, variant),
        Op::RenameTable { table, to } => format!("rt:{}:{}", table, to),
        Op::Insert { table } => format!("in:{}", table),
    }
}
fn op_dec(s: &str) -> Option<Op> {
    let p: Vec<&str> = s.split(':').collect();
    let sch = |x: &str| if x == "-" { String::new() } else { x.to_string() };
    Some(match (p.first().copied()?, p.len()) {
        ("ct", 4) => Op::CreateTable { schema: sch(p[1]), table: p[2].into(), variant: p[3].parse().ok()? },
        ("ci", 4) => Op::CreateIndex { table: p[1].into(), name: p[2].into(), variant: p[3].parse().ok()? },
        ("dt", 3) => Op::DropTable { schema: sch(p[1]), table: p[2].into() },
        ("di", 2) => Op::DropIndex { name: p[1].into() },
        ("cs", 2) => Op::CreateSchema { name: p[1].into() },
        ("ds", 2) => Op::DropSchema { name: p[1].into() },
        ("ac", 4) => Op::AddColumn { table: p[1].into(), col: p[2].into(), variant: p[3].parse().ok()? },
        ("rt", 3) => Op::RenameTable { table: p[1].into(), to: p[2].into() },
        ("in", 2) => Op::Insert { table: p[1].into() },
        _ => return None,
    })
}
fn ops_enc(ops: &[Op]) -> String { ops.iter().map(op_enc).collect::<Vec<_>>().join(" ") }
fn ops_dec(s: &str) -> Vec<Op> { s.split_whitespace().filter_map(op_dec).collect() }

const N_TABLE_VARIANTS: u32 = 8;
const N_INDEX_VARIANTS: u32 = 8;
fn qual(schema: &str, table: &str) -> String { if schema.is_empty() { table.to_string() } else { format!("{}.{}", schema, table) } }
/// every table variant has columns id, a (text), b (int)
fn op_sql(o: &Op) -> String {
    match o {
        Op::CreateTable { schema, table, variant } => {
            let body = match variant % N_TABLE_VARIANTS {
                0 => "id INT PRIMARY KEY, a TEXT, b INT".to_string(),
                1 => "id BIGINT PRIMARY KEY, a TEXT NOT NULL, b INT DEFAULT 7, c VARCHAR(20) UNIQUE".to_string(),
                2 => "id INT, a TEXT DEFAULT 'x', b INT CHECK (b > 0), d DOUBLE PRECISION, e BOOLEAN".to_string(),
                3 => "id SERIAL, a VARCHAR(100), b SMALLINT NOT NULL, ts TIMESTAMP, dt DATE, u UUID".to_string(),
                4 => "id INT PRIMARY KEY, a TEXT, b INT REFERENCES t0(id) ON DELETE CASCADE ON UPDATE SET NULL".to_string(),
                5 => "id INT, a CHAR(3), b INT, j JSONB, bl BLOB, PRIMARY KEY (id, b)".to_string(),
                6 => "id INT, a TEXT, b INT, UNIQUE (a, b)".to_string(),
                _ => "id BIGINT AUTO_INCREMENT PRIMARY KEY, a TEXT, b INT, f REAL DEFAULT 1.5".to_string(),
            };
            format!("CREATE TABLE {} ({})", qual(schema, table), body)
        }
        Op::CreateIndex { table, name, variant } => match variant % N_INDEX_VARIANTS {
            0 => format!("CREATE INDEX {} ON {} (b)", name, table),
            1 => format!("CREATE INDEX {} ON {} (a DESC)", name, table),
            2 => format!("CREATE UNIQUE INDEX {} ON {} (id)", name, table),
            3 => format!("CREATE INDEX {} ON {} (a, b DESC)", name, table),
            4 => format!("CREATE INDEX {} ON {} (lower(a))", name, table),
            5 => format!("CREATE INDEX {} ON {} (b) WHERE b > 3", name, table),
            6 => format!("CREATE INDEX {} ON {} (lower(a), b) WHERE id > 0", name, table),
            _ => format!("CREATE INDEX {} ON {} (id, a, b)", name, table),
        },
        Op::DropTable { schema, table } => format!("DROP TABLE {}", qual(schema, table)),
        Op::DropIndex { name } => format!("DROP INDEX {}", name),
        Op::CreateSchema { name } => format!("CREATE SCHEMA {}", name),
        Op::DropSchema { name } => format!("DROP SCHEMA {}", name),
        Op::AddColumn { table, col, variant } => format!("ALTER TABLE {} ADD COLUMN {} {}", table, col,
            ["INT", "TEXT DEFAULT 'n'", "VARCHAR(12) NOT NULL", "BIGINT CHECK (1 > 0)"][(*variant % 4) as usize]),
        Op::RenameTable { table, to } => format!("ALTER TABLE {} RENAME TO {}", table, to),
        Op::Insert { table } => format!("INSERT INTO {} (id, a, b) VALUES (1, 'r', 5)", table),
    }
}
/// what a history is expected to have left: (schema, table) -> [(index, has expression, partial)]
#[derive(Default, Clone)]
struct Expect { tables: BTreeMap<(String, String), Vec<(String, bool, bool)>>, schemas: Vec<String>, gone: Vec<String> }
impl Expect {
    fn apply(&mut self, o: &Op) {
        let sn = |s: &str| if s.is_empty() { "root".to_string() } else { s.to_string() };
        match o {
            Op::CreateTable { schema, table, .. } => { self.tables.entry((sn(schema), table.clone())).or_default(); }
            Op::CreateIndex { table, name, variant } => {
                let v = variant % N_INDEX_VARIANTS;
                if let Some(ix) = self.tables.get_mut(&("root".to_string(), table.clone())) { ix.push((name.clone(), v == 4 || v == 6, v == 5 || v == 6)); }
            }
            Op::DropTable { schema, table } => { self.tables.remove(&(sn(schema), table.clone())); }
            Op::DropIndex { name } => { for ix in self.tables.values_mut() { ix.retain(|i| &i.0 != name); } }
            Op::CreateSchema { name } => { if !self.schemas.contains(name) { self.schemas.push(name.clone()); } self.gone.retain(|g| g != name); }
            Op::DropSchema { name } => {
                self.schemas.retain(|g| g != name);
                if !self.gone.contains(name) { self.gone.push(name.clone()); }
                self.tables.retain(|k, _| &k.0 != name);
            }
            Op::AddColumn { .. } | Op::Insert { .. } => {}
            Op::RenameTable { table, to } => {
                if let Some(ix) = self.tables.remove(&("root".to_string(), table.clone())) { self.tables.insert(("root".to_string(), to.clone()), ix); }
            }
        }
    }
    fn term(&self) -> String {
        clist(&self.tables.iter().map(|((s, t), ix)| format!("({}, {}, {})", st(s), st(t),
            clist(&ix.iter().map(|(n, e, p)| format!("({}, {}, {})", st(n), cbool(*e), cbool(*p))).collect::<Vec<_>>()))).collect::<Vec<_>>())
    }
}
/// run the statements on the database; the expectation follows only the statements that succeeded
fn run_ops(db: &Database, ops: &[Op], ex: &mut Expect) -> usize {
    let mut ok = 0;
    for o in ops {
        let sql = op_sql(o);
        let r = catch(AssertUnwindSafe(|| db.execute(&sql).is_ok()));
        if matches!(r, Caught::Done(true)) { ex.apply(o); ok += 1; }
    }
    ok
}
enum Opened { Ok(usize), Err, Panic }
fn open_term(o: &Option<Opened>) -> String {
    match o { None => "OSkip".into(), Some(Opened::Ok(m)) => format!("(OOk {})", m), Some(Opened::Err) => "OErr".into(), Some(Opened::Panic) => "OPanic".into() }
}
/// Database::open, then query every expected table
fn real_open(dir: &Path, tables: &[(String, String)]) -> Opened {
    let d = dir.to_path_buf();
    let t = tables.to_vec();
    match catch(AssertUnwindSafe(move || {
        match Database::open(&d) {
            Ok(db) => {
                let mut missing = 0;
                for (s, n) in &t {
                    let q = if s == "root" { format!("SELECT * FROM {}", n) } else { format!("SELECT * FROM {}.{}", s, n) };
                    if db.query(&q).is_err() { missing += 1; }
                }
                Some(missing)
            }
            Err(_) => None,
        }
    })) { Caught::Done(Some(m)) => Opened::Ok(m), Caught::Done(None) => Opened::Err, Caught::Panicked(_) => Opened::Panic }
}
fn gen_history(rng: &mut Rng, shape: u32, len: usize) -> Vec<Op> {
    let mut ops = vec![Op::CreateTable { schema: String::new(), table: "t0".into(), variant: 0 }];
    let mut tables: Vec<String> = vec!["t0".into()];
    let mut indexes: Vec<String> = vec![];
    let mut nt = 1; let mut ni = 0;
    let mut schema_made = false;
    for _ in 0..len {
        let r = rng.below(100);
        if r < 30 || tables.is_empty() {
            let name = format!("t{}", nt); nt += 1;
            ops.push(Op::CreateTable { schema: String::new(), table: name.clone(), variant: rng.below(N_TABLE_VARIANTS as u64) as u32 });
            tables.push(name);
        } else if r < 60 {
            let name = format!("ix{}", ni); ni += 1;
            let v = if shape == 2 { *rng.pick(&[4u32, 5, 6, 0, 1]) } else { *rng.pick(&[0u32, 1, 2, 3, 7]) };
            ops.push(Op::CreateIndex { table: rng.pick(&tables).clone(), name: name.clone(), variant: v });
            indexes.push(name);
        } else if r < 68 && tables.len() > 1 {
            let k = 1 + rng.below(tables.len() as u64 - 1) as usize;
            ops.push(Op::DropTable { schema: String::new(), table: tables.remove(k) });
        } else if r < 74 && !indexes.is_empty() {
            let k = rng.below(indexes.len() as u64) as usize;
            ops.push(Op::DropIndex { name: indexes.remove(k) });
        } else if r < 84 {
            ops.push(Op::AddColumn { table: rng.pick(&tables).clone(), col: format!("x{}", rng.below(1000)), variant: rng.below(4) as u32 });
        } else if r < 90 && tables.len() > 1 {
            let k = 1 + rng.below(tables.len() as u64 - 1) as usize;
            let to = format!("r{}", nt); nt += 1;
            ops.push(Op::RenameTable { table: tables[k].clone(), to: to.clone() });
            tables[k] = to;
        } else if r < 96 {
            ops.push(Op::Insert { table: rng.pick(&tables).clone() });
        } else if shape == 1 && schema_made {
            let name = format!("u{}", nt); nt += 1;
            ops.push(Op::CreateTable { schema: "an".into(), table: name, variant: rng.below(N_TABLE_VARIANTS as u64) as u32 });
        }
        if shape == 1 && !schema_made && rng.chance(1, 3) { ops.push(Op::CreateSchema { name: "an".into() }); schema_made = true; }
    }
    if shape == 1 && !schema_made { ops.push(Op::CreateSchema { name: "an".into() }); }
    if shape == 1 {
        ops.push(Op::CreateTable { schema: "an".into(), table: format!("u{}", nt), variant: rng.below(N_TABLE_VARIANTS as u64) as u32 });
        // a second schema that is dropped again must stay dropped
        if rng.chance(1, 3) { ops.push(Op::CreateSchema { name: "tmpsch".into() }); ops.push(Op::DropSchema { name: "tmpsch".into() }); }
    }
    if shape == 3 {
        if rng.chance(1, 2) { ops.push(Op::CreateSchema { name: "an".into() }); }
        ops.push(Op::DropSchema { name: "root".into() });
    }
    if shape == 2 && !ops.iter().any(|o| matches!(o, Op::CreateIndex { variant, .. } if (4..=6).contains(variant))) {
        ops.push(Op::CreateIndex { table: tables[0].clone(), name: "ixz".into(), variant: 4 });
    }
    ops
}
fn ddl_case(w: &mut CaseWriter, tmp: &mut Tmp, ops: &[Op], kind: &str) {
    let dir = tmp.fresh();
    let mut ex = Expect::default();
    let ok = {
        let db = match Database::create(&dir) { Ok(d) => d, Err(_) => return };
        run_ops(&db, ops, &mut ex)
    };
    let cat_path = dir.join("turdb.catalog");
    let file = std::fs::read(&cat_path).unwrap_or_default();
    let l = real_load(&cat_path);
    let tabs: Vec<(String, String)> = ex.tables.keys().cloned().collect();
    let o = real_open(&dir, &tabs);
    let term = format!("Ddl {} {} {} {} {} {}", clist(&ex.schemas.iter().map(|s| st(s)).collect::<Vec<_>>()),
        clist(&ex.gone.iter().map(|s| st(s)).collect::<Vec<_>>()), ex.term(), cbytes(&file), load_term(&l), open_term(&Some(o)));
    w.push(term, format!("ddl ops={}", ops_enc(ops)), ok >= 2, kind);
    let _ = std::fs::remove_dir_all(&dir);
}

// ------------------------------------------------------------------ crash states of the catalog rewrite
fn ino(p: &Path) -> u64 { use std::os::unix::fs::MetadataExt; std::fs::metadata(p).map(|m| m.ino()).unwrap_or(0) }
struct CrashRun { dir: PathBuf, inplace: bool, evs: Vec<(u32, u32, u64, u64)>, oldfile: Vec<u8>, file: Vec<u8>, old_term: String, old_tabs: Vec<(String, String)> }
/// history `ops`, close; reopen, one more statement `last`, close.  None if `last` failed or left the catalog file unchanged.
fn crash_setup(tmp: &mut Tmp, ops: &[Op], last: &Op) -> Option<CrashRun> {
    let dir = tmp.fresh();
    let mut ex = Expect::default();
    {
        let db = Database::create(&dir).ok()?;
        run_ops(&db, ops, &mut ex);
    }
    let cat_path = dir.join("turdb.catalog");
    let oldfile = std::fs::read(&cat_path).ok()?;
    let old_cat = match real_load(&cat_path) { Loaded::Ok(c) => c, _ => return None };
    let i0 = ino(&cat_path);
    let mut i1 = i0;
    let evlog: std::sync::Arc<std::sync::Mutex<Vec<(u32, u32, u64, u64)>>> = Default::default();
    let ok = {
        let db = Database::open(&dir).ok()?;
        let sql = op_sql(last);
        // record what the statement does to the live catalog file (io_event hook of /repo)
        let log = evlog.clone();
        turdb::verif_hooks::set_io_hook(Some(std::sync::Arc::new(move |kind: u32, p: &Path, a: u64, b: u64| {
            match p.file_name().and_then(|n| n.to_str()) {
                Some("turdb.catalog") => log.lock().unwrap().push((0, kind, a, b)),
                Some("turdb.catalog.tmp") => log.lock().unwrap().push((1, kind, a, b)),
                _ => {}
            }
        })));
        let r = matches!(catch(AssertUnwindSafe(|| db.execute(&sql).is_ok())), Caught::Done(true));
        turdb::verif_hooks::set_io_hook(None);
        i1 = ino(&cat_path);   // before the handle is dropped (Drop saves the catalog once more)
        r
    };
    let evs = evlog.lock().unwrap().clone();
    if !ok { let _ = std::fs::remove_dir_all(&dir); return None; }
    let file = std::fs::read(&cat_path).ok()?;
    // what the statement itself removes or renames is not "lost"
    let (dt, di): (Option<(String, String)>, Option<String>) = match last {
        Op::DropTable { schema, table } => (Some((if schema.is_empty() { "root".into() } else { schema.clone() }, table.clone())), None),
        Op::RenameTable { table, .. } => (Some(("root".into(), table.clone())), None),
        Op::DropIndex { name } => (None, Some(name.clone())),
        _ => (None, None),
    };
    let skip = |s: &str, t: &str| dt.as_ref().map(|(a, b)| a == s && b == t).unwrap_or(false);
    let skip_idx = |n: &str| di.as_ref().map(|x| x == n).unwrap_or(false);
    let old_term = summary_term(&old_cat, &skip, &skip_idx);
    let mut old_tabs = vec![];
    for s in old_cat.schemas().values() { for t in s.tables().values() { if !skip(s.name(), t.name()) { old_tabs.push((s.name().to_string(), t.name().to_string())); } } }
    Some(CrashRun { dir, inplace: i0 == i1, evs, oldfile, file, old_term, old_tabs })
}
fn pout_term(l: &Loaded) -> String {
    match l { Loaded::Ok(c) => format!("(POk {})", summary_term(c, &|_, _| false, &|_| false)), Loaded::Err => "PErr".into(), Loaded::Panic => "PPanic".into() }
}
/// the observation for crash state n.
/// in place: -1 the old file, otherwise the first n bytes of the new one as the catalog.
/// temporary file + rename: -1 the old catalog and no temporary file; 0..=len the old catalog and a
/// temporary file holding the first n bytes of the new one; len+1 the new file renamed into place.
fn crash_obs(run: &CrashRun, n: i64, with_open: bool) -> (Loaded, Option<Opened>) {
    let cat_path = run.dir.join("turdb.catalog");
    let tmp_path = run.dir.join("turdb.catalog.tmp");
    let len = run.file.len() as i64;
    let put = || {
        if run.inplace {
            let content: &[u8] = if n < 0 { &run.oldfile } else { &run.file[..(n as usize).min(run.file.len())] };
            std::fs::write(&cat_path, content).expect("write crash state");
            let _ = std::fs::remove_file(&tmp_path);
        } else if n > len {
            std::fs::write(&cat_path, &run.file).expect("write crash state");
            let _ = std::fs::remove_file(&tmp_path);
        } else {
            std::fs::write(&cat_path, &run.oldfile).expect("write crash state");
            if n < 0 { let _ = std::fs::remove_file(&tmp_path); } else { std::fs::write(&tmp_path, &run.file[..n as usize]).expect("write crash state"); }
        }
    };
    put();
    let l = real_load(&cat_path);
    let o = if with_open {
        let r = real_open(&run.dir, &run.old_tabs);
        put();   // a successful open saves the catalog again when the handle is dropped
        Some(r)
    } else { None };
    (l, o)
}
fn crash_points(rng: &mut Rng, run: &CrashRun, thorough: bool) -> Vec<(i64, bool)> {
    let len = run.file.len() as i64;
    let last = if run.inplace { len } else { len + 1 };
    let mut opens: Vec<i64> = if thorough { vec![-1, 0, 1, 16, 127, 128, 129, len / 2, len - 1, len, last] } else { vec![-1, 0, 127, 128, len - 1, len, last] };
    let extra = if thorough { 30 } else { 3 };
    for _ in 0..extra { opens.push(rng.below(len as u64 + 1) as i64); }
    let mut v = vec![(-1, true)];
    for n in 0..=last { v.push((n, opens.contains(&n))); }
    v
}
fn crash_case(w: &mut CaseWriter, tmp: &mut Tmp, rng: &mut Rng, ops: &[Op], last: &Op, only_n: Option<i64>, thorough: bool, kind: &str) {
    let run = match crash_setup(tmp, ops, last) { Some(r) => r, None => { w.count("crash_setup_skipped", 1); return; } };
    let mut pts = crash_points(rng, &run, thorough);
    if let Some(n) = only_n { pts.retain(|p| p.0 == n); if pts.is_empty() { pts.push((n, true)); } else { pts[0].1 = true; } }
    // run-length: consecutive crash states with the same observation
    let mut runs: Vec<(i64, i64, String)> = vec![];
    for (n, with_open) in pts {
        let (l, o) = crash_obs(&run, n, with_open);
        let t = format!("{} {}", pout_term(&l), open_term(&o));
        match runs.last_mut() { Some(r) if r.2 == t && r.1 + 1 == n => r.1 = n, _ => runs.push((n, n, t)) }
    }
    let obs: Vec<String> = runs.iter().map(|(lo, hi, t)| format!("ORun {} {} {}", z(*lo as i128), z(*hi as i128), t)).collect();
    let evs = clist(&run.evs.iter().map(|(p, k, a, b)| format!("({}, {}, {}, {})", p, k, a, b)).collect::<Vec<_>>());
    let term = format!("Crash {} {} {} {} {} {}", cbool(run.inplace), evs, run.old_term, cbytes(&run.oldfile), cbytes(&run.file), clist(&obs));
    let mut line = format!("crash ops={} | last={}", ops_enc(ops), op_enc(last));
    if let Some(n) = only_n { line.push_str(&format!(" | n={}", n)); }
    w.push(term, line, !run.old_tabs.is_empty(), kind);
    let _ = std::fs::remove_dir_all(&run.dir);
}
fn gen_last(rng: &mut Rng, ops: &[Op]) -> Op {
    let mut ex = Expect::default();
    for o in ops { ex.apply(o); }
    let tables: Vec<String> = ex.tables.keys().filter(|k| k.0 == "root").map(|k| k.1.clone()).collect();
    let t = rng.pick(&tables).clone();
    match rng.below(10) {
        0..=3 => Op::CreateTable { schema: String::new(), table: format!("n{}", rng.below(100)), variant: rng.below(N_TABLE_VARIANTS as u64) as u32 },
        4..=6 => Op::CreateIndex { table: t, name: format!("nx{}", rng.below(100)), variant: *rng.pick(&[0u32, 1, 2, 3, 7]) },
        7 => Op::AddColumn { table: t, col: "zz".into(), variant: rng.below(4) as u32 },
        8 if tables.len() > 1 => Op::DropTable { schema: String::new(), table: tables[tables.len() - 1].clone() },
        _ => Op::RenameTable { table: t, to: format!("m{}", rng.below(100)) },
    }
}

// ------------------------------------------------------------------ main
fn main() {
    let a = Args::parse();
    match a.mode.as_str() {
        "gen" => gen(&a),
        "search" => search(&a),
        _ => { eprintln!("c40: unknown mode"); std::process::exit(2); }
    }
}

fn replay_line(w: &mut CaseWriter, tmp: &mut Tmp, rng: &mut Rng, l: &str, thorough: bool) {
    if let Some(r) = l.strip_prefix("codec ") {
        if let Some(h) = r.split("cat=").nth(1) { codec_case(w, tmp, &scat_dec(h.trim()), "replay"); }
    } else if let Some(r) = l.strip_prefix("dec bytes=") {
        dec_case(w, &unhex(r.trim()), "replay");
    } else if let Some(r) = l.strip_prefix("loadf bytes=") {
        loadf_case(w, tmp, &unhex(r.trim()), "replay");
    } else if let Some(r) = l.strip_prefix("ddl ") {
        if let Some(o) = r.split("ops=").nth(1) { ddl_case(w, tmp, &ops_dec(o), "replay"); }
    } else if let Some(r) = l.strip_prefix("crash ops=") {
        let parts: Vec<&str> = r.split('|').map(|x| x.trim()).collect();
        let ops = ops_dec(parts[0]);
        let last = parts.get(1).and_then(|x| x.strip_prefix("last=")).and_then(op_dec);
        let only_n = parts.iter().find_map(|x| x.strip_prefix("n=")).and_then(|x| x.split_whitespace().next()).and_then(|x| x.parse::<i64>().ok());
        if let Some(last) = last { crash_case(w, tmp, rng, &ops, &last, only_n, thorough, "replay"); }
    }
}

fn gen(a: &Args) {
    let mut rng = Rng::new(a.seed);
    let thorough = a.thorough();
    let mut tmp = Tmp::new("gen");
    let mut w = CaseWriter::new(&a.out, "C40", "Corr.C40", if thorough { 120 } else { 40 });
    if let Some(lines) = a.replay_lines() {
        for l in lines { replay_line(&mut w, &mut tmp, &mut rng, &l, thorough); }
        w.finish(&[]);
        return;
    }
    let t_0 = std::time::Instant::now();
    // ---- (a) codec: catalogs through the schema API
    for sc in boundary_scats(thorough) { codec_case(&mut w, &mut tmp, &sc, "codec_boundary"); }
    let n_codec = if thorough { 2500 } else { 160 };
    for i in 0..n_codec {
        let shape = match i % 20 { 12..=14 => 1, 15..=18 => 2, 19 => 3, _ => 0 };
        let sc = gen_scat(&mut rng, shape);
        codec_case(&mut w, &mut tmp, &sc, ["codec_builtin_schemas", "codec_user_schemas", "codec_expr_partial_index", "codec_dropped_root"][shape as usize]);
    }
    let t_a = std::time::Instant::now();
    // ---- (b) raw streams through deserialize / load
    let n_dec = if thorough { 3000 } else { 240 };
    for i in 0..n_dec {
        let mut b = valid_body(&mut rng, &mut tmp);
        let k = 1 + rng.below(3);
        for _ in 0..k { mutate(&mut rng, &mut b); }
        if b.len() > 700 { b.truncate(700); }
        if i % 4 == 0 { let f = file_of(&b); loadf_case(&mut w, &mut tmp, &f, "loadf_mutated_body"); } else { dec_case(&mut w, &b, "dec_mutated"); }
    }
    for s in BAD_UTF8.iter().chain(GOOD_UTF8.iter()) {
        dec_case(&mut w, &stream_with_name(s), "dec_utf8");
        let mut n = b"ab".to_vec(); n.extend_from_slice(s); n.push(b'c');
        dec_case(&mut w, &stream_with_name(&n), "dec_utf8");
    }
    let n_utf = if thorough { 2000 } else { 120 };
    for _ in 0..n_utf {
        // random short byte strings as a name, biased to lead/continuation bytes
        let n = 1 + rng.below(5) as usize;
        let s: Vec<u8> = (0..n).map(|_| *rng.pick(&[0x41u8, 0x7f, 0x80, 0x8f, 0x90, 0x9f, 0xa0, 0xbf, 0xc0, 0xc1, 0xc2, 0xdf, 0xe0, 0xe1, 0xec, 0xed, 0xee, 0xef, 0xf0, 0xf1, 0xf3, 0xf4, 0xf5, 0xff])).collect();
        dec_case(&mut w, &stream_with_name(&s), "dec_utf8_random");
    }
    // streams that end where the format has optional trailing fields (older writers)
    {
        let full = stream_with_name(b"t");
        for cut in 0..=full.len() { dec_case(&mut w, &full[..cut], "dec_every_prefix"); }
        let sc = root_with(vec![{ let mut c = col("c", 2); c.constrs = vec![SConstr::Fk("o".into(), "i".into(), 1, 2)]; c.dflt = Some("d".into()); c.maxlen = Some(9);
            let mut t = tab(3, "t", vec![c]); t.toast = Some(77); t.idx = vec![SIndex { name: "i".into(), cols: vec![SIdxCol { expr: false, text: "c".into(), desc: true }], unique: true, hnsw: false, where_: None }]; t }]);
        let body = CatalogPersistence::serialize(&build(&sc)).unwrap_or_default();
        // the built-in empty schema comes first or last: cut the stream at every length
        for cut in 0..=body.len() { dec_case(&mut w, &body[..cut], "dec_every_prefix"); }
    }
    let n_rand = if thorough { 1000 } else { 100 };
    for _ in 0..n_rand { let n = rng.below(60) as usize; let b = rng.bytes(n); dec_case(&mut w, &b, "dec_random"); }
    // headers
    {
        let body = valid_body(&mut rng, &mut tmp);
        let good = file_of(&body);
        loadf_case(&mut w, &mut tmp, &good, "loadf_header");
        for cut in [0usize, 1, 15, 16, 64, 127, 128, 129] { loadf_case(&mut w, &mut tmp, &good[..cut.min(good.len())], "loadf_header"); }
        let mut variants: Vec<Vec<u8>> = vec![];
        for (off, val) in [(0usize, b'X'), (15, 1), (16, 2), (17, 1), (19, 1), (20, 0), (24, 9), (32, 5), (40, 1), (64, 127), (64, 129), (65, 1), (71, 1), (80, 7), (127, 9)] {
            let mut f = good.clone(); f[off] = val; variants.push(f);
        }
        for delta in [-1i64, 1, 5, 1000, 1 << 20] {
            let mut f = good.clone();
            let n = (body.len() as i64 + delta).max(0) as u64;
            f[72..80].copy_from_slice(&n.to_le_bytes());
            variants.push(f);
        }
        let mut f = good.clone(); f.extend_from_slice(b"trailing garbage"); variants.push(f);
        let mut f = good.clone(); f[72..80].copy_from_slice(&0u64.to_le_bytes()); variants.push(f);
        for f in variants { loadf_case(&mut w, &mut tmp, &f, "loadf_header"); }
    }
    let t_b = std::time::Instant::now();
    // ---- (c) DDL histories
    let n_ddl = if thorough { 200 } else { 24 };
    for i in 0..n_ddl {
        let shape = match i % 12 { 5 | 6 => 1, 7 | 8 => 2, 11 => 3, _ => 0 };
        let len = 2 + rng.below(9) as usize;
        let ops = gen_history(&mut rng, shape, len);
        ddl_case(&mut w, &mut tmp, &ops, ["ddl_builtin_schemas", "ddl_user_schema", "ddl_expr_partial_index", "ddl_dropped_root"][shape as usize]);
    }
    let t_c = std::time::Instant::now();
    // ---- (d) crash states of one more DDL statement
    let n_crash = if thorough { 80 } else { 12 };
    for _ in 0..n_crash {
        let len = 1 + rng.below(5) as usize;
        let hshape = if rng.chance(1, 4) { 1 } else { 0 };
        let ops = gen_history(&mut rng, hshape, len);
        let last = gen_last(&mut rng, &ops);
        crash_case(&mut w, &mut tmp, &mut rng, &ops, &last, None, thorough, "crash_every_state");
    }
    let t_d = std::time::Instant::now();
    w.finish(&[("phase_ms".to_string(), format!("[{}, {}, {}, {}]", (t_a - t_0).as_millis(), (t_b - t_a).as_millis(), (t_c - t_b).as_millis(), (t_d - t_c).as_millis()))]);
}

/// Oracle only (no model).  Codec: every table of the built catalog comes back `==` after
/// save + load into Catalog::new(), and the schema sets agree.  DDL: the database reopens and every
/// table is there.  Crash: in every crash state of the catalog rewrite the old tables are still there.
fn search(a: &Args) {
    let mut rng = Rng::new(a.seed ^ 0xC40C40);
    let mut tmp = Tmp::new("search");
    let mut fails: Vec<String> = vec![];
    let mut tried: u64 = 0;
    let budget = a.budget.min(60_000);
    let codec_ok = |tmp: &mut Tmp, sc: &SCat| -> bool {
        let cat = build(sc);
        let (sflag, _, _, l) = run_codec(tmp, &cat);
        if sflag == 1 { return true; }      // a name beyond the u16 field: explicit error, outside the format
        match l {
            Loaded::Ok(c2) => {
                cat.schemas().len() == c2.schemas().len() && cat.schemas().values().all(|s| match c2.get_schema(s.name()) {
                    Some(s2) => s.id() == s2.id() && s.tables().len() == s2.tables().len() && s.tables().values().all(|t| s2.get_table(t.name()) == Some(t)),
                    None => false,
                })
            }
            _ => false,
        }
    };
    for sc in boundary_scats(false) {
        tried += 1;
        if !codec_ok(&mut tmp, &sc) && fails.len() < 40 { fails.push(format!("codec tags={} cat={}", scat_tags(&sc), scat_enc(&sc))); }
    }
    let n_codec = budget * 3 / 4;
    for i in 0..n_codec {
        let shape = match i % 20 { 17 => 3, 18 => 1, 19 => 2, _ => 0 };
        let sc = gen_scat(&mut rng, shape);
        tried += 1;
        if !codec_ok(&mut tmp, &sc) && fails.len() < 40 { fails.push(format!("codec tags={} cat={}", scat_tags(&sc), scat_enc(&sc))); }
    }
    let n_ddl = (budget / 200).max(20);
    for i in 0..n_ddl {
        let shape = match i % 20 { 17 => 3, 18 => 1, 19 => 2, _ => 0 };
        let len = 2 + rng.below(9) as usize;
        let ops = gen_history(&mut rng, shape, len);
        let dir = tmp.fresh();
        let mut ex = Expect::default();
        if let Ok(db) = Database::create(&dir) { run_ops(&db, &ops, &mut ex); } else { continue; }
        let tabs: Vec<(String, String)> = ex.tables.keys().cloned().collect();
        tried += 1;
        let idx_ok = match real_load(&dir.join("turdb.catalog")) {
            Loaded::Ok(c) => ex.tables.iter().all(|((s, t), ix)| match c.get_table(s, t) {
                Some(td) => ix.iter().all(|(n, e, p)| td.get_index(n).map(|i| i.has_expressions() == *e && i.is_partial() == *p).unwrap_or(false)),
                None => false }) && ex.schemas.iter().all(|s| c.schema_exists(s)) && ex.gone.iter().all(|s| !c.schema_exists(s)),
            _ => false,
        };
        let ok = idx_ok && matches!(real_open(&dir, &tabs), Opened::Ok(0));
        if !ok && fails.len() < 60 {
            let tag = if ex.gone.iter().any(|g| g == "root") { "noroot" } else if !ex.schemas.is_empty() { "userschema" } else if ex.tables.values().any(|ix| ix.iter().any(|i| i.1 || i.2)) { "expridx" } else { "plain" };
            fails.push(format!("ddl tags={} ops={}", tag, ops_enc(&ops)));
        }
        let _ = std::fs::remove_dir_all(&dir);
    }
    let n_crash = (budget / 2000).max(6);
    for _ in 0..n_crash {
        let len = 1 + rng.below(5) as usize;
        let ops = gen_history(&mut rng, 0, len);
        let last = gen_last(&mut rng, &ops);
        let run = match crash_setup(&mut tmp, &ops, &last) { Some(r) => r, None => continue };
        let mut reported = [false; 3];
        for (n, _) in crash_points(&mut rng, &run, false) {
            tried += 1;
            let (l, _) = crash_obs(&run, n, false);
            let ok = match &l { Loaded::Ok(c) => run.old_tabs.iter().all(|(s, t)| c.get_table(s, t).is_some()), _ => false };
            let ok = ok && (n % 37 != 0 || matches!(real_open(&run.dir, &run.old_tabs), Opened::Ok(0)));
            if !ok {
                let len = run.file.len() as i64;
                let (slot, pt) = if n < 0 { (0, "old") } else if n >= len + (if run.inplace { 0 } else { 1 }) { (1, "new") } else if run.inplace { (2, "inside") } else { (2, "tmp") };
                if !reported[slot] && fails.len() < 80 {
                    reported[slot] = true;
                    fails.push(format!("crash ops={} | last={} | n={} pt={}", ops_enc(&ops), op_enc(&last), n, pt));
                }
            }
        }
        let _ = std::fs::remove_dir_all(&run.dir);
    }
    let mut out = String::new();
    out.push_str(&format!("tried={}\n", tried));
    for f in &fails { out.push_str("FAIL "); out.push_str(f); out.push('\n'); }
    std::fs::write(&a.out, out).expect("write search output");
}
