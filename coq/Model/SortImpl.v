(* C15 IMPLEMENTATION model (hand-written, definitions only; faithful to /repo as it is).

   What is modelled, and where it lives in the code:
   * the comparators
       [compare_for_sort]     src/types/value.rs Value::compare_for_sort (+ Value::compare), used by
                              DynamicExecutor::Sort / TopK through sql/util.rs compare_values_for_sort
       [compare_owned]        src/database/query/helpers.rs compare_owned_values (join result sort)
       [sort_exec_compare]    src/sql/executor.rs SortExecutor::compare_values
   * [run_limit]              the two-counter state machine of DynamicExecutor::Limit
                              (src/sql/executor.rs, `skipped` / `returned`)
   * the sort itself          DynamicExecutor::Sort = Vec::sort_by (stable) = KnnOrder.isort;
                              DynamicExecutor::TopK = KnnOrder.topk with heap size limit+offset,
                              (the code computes limit.saturating_add(offset), commit 95facdb; the
                              exact sum used here gives the same rows on every input shorter than
                              2^64 - 1: Proof/SortLimit.v topk_size_irrelevant_l),
                              then drain(offset .. offset+limit)
   * [model_query]            how `Database::query` runs the fragment of Model/SortQuery.v on one
                              table: which operator the keys are resolved in (planner/convert.rs
                              LogicalOperator::Limit / Sort, builder.rs SortExec / TopKExec /
                              ProjectExec), how a key that does not resolve becomes the constant
                              NULL (eval_sort_expr_standalone), and the DISTINCT pass of
                              query_with_columns: as of commits d679a09 / 2ad4719 / 84a97fb a DISTINCT
                              statement is planned WITHOUT its LIMIT / OFFSET, duplicates are removed
                              from the whole ordered result (0.0 and -0.0 hashed alike) and the window
                              is applied once; a pushed-down column list is no longer projected twice.
   Not modelled (the model answers MUnmod): float arithmetic in key expressions, integer overflow
   in key expressions (a dev-profile panic that depends on which comparisons the sort performs),
   malformed queries. *)
From Coq Require Import ZArith List Bool.
From TV Require Import Model.KnnOrder.
From TV Require Import Model.SqlSpec Model.SortSpec Model.SortQuery.
Import ListNotations.
Open Scope Z_scope.

(* ------------------------------------------------------------------ comparators *)
(* `x as f64` for an i64: round to nearest, ties to even (the result is an integer) *)
Definition round53 (x : Z) : Z :=
  let a := Z.abs x in
  if a <=? 2 ^ 53 then x else
  let k := Z.log2 a - 52 in
  let q := a / 2 ^ k in
  let r := a mod 2 ^ k in
  let half := 2 ^ (k - 1) in
  let q' := if (half <? r) || ((r =? half) && Z.odd q) then q + 1 else q in
  Z.sgn x * (q' * 2 ^ k).
Definition f_nan (b : Z) : bool := negb (f_ok b) || f_is_nan b.
(* (x as f64).partial_cmp(&f) *)
Definition int_float_cmp (x b : Z) : option comparison :=
  if f_nan b then None else Some (ifcmp_exact (round53 x) b).

(* Value::compare restricted to Null / Int / Float / Text (the variants a BIGINT / DOUBLE /
   TEXT table produces).  The executor's Value has no Bool variant (booleans travel as Int 0 / 1):
   VBool never reaches a sort key of this fragment and is compared like its integer *)
Definition value_compare (a b : value) : option comparison :=
  match a, b with
  | VNull, _ | _, VNull => None
  | VInt x, VInt y => Some (Z.compare x y)
  | VFloat x, VFloat y => if f_nan x || f_nan y then None else Some (Z.compare (f_key x) (f_key y))
  | VInt x, VFloat y => int_float_cmp x y
  | VFloat x, VInt y => option_map CompOpp (int_float_cmp y x)
  | VText x, VText y => Some (bytes_cmp x y)
  | (VInt _ | VFloat _), VText _ => Some Lt
  | VText _, (VInt _ | VFloat _) => Some Gt
  | VBool x, VBool y => Some (Z.compare (Z.b2z x) (Z.b2z y))
  | _, _ => None
  end.
(* Value::compare_for_sort (as of commit 26fae1f) *)
Definition compare_for_sort (a b : value) : comparison :=
  match a, b with
  | VNull, VNull => Eq
  | VNull, _ => Lt
  | _, VNull => Gt
  | _, _ => match value_compare a b with Some c => c | None => Eq end
  end.
(* compare_owned_values: typed arms, `_ => Ordering::Equal` for everything else *)
Definition compare_owned (a b : value) : comparison :=
  match a, b with
  | VNull, VNull => Eq
  | VNull, _ => Lt
  | _, VNull => Gt
  | VInt x, VInt y => Z.compare x y
  | VFloat x, VFloat y => if f_nan x || f_nan y then Eq else Z.compare (f_key x) (f_key y)
  | VInt x, VFloat y => match int_float_cmp x y with Some c => c | None => Eq end
  | VFloat x, VInt y => match int_float_cmp y x with Some c => CompOpp c | None => Eq end
  | VText x, VText y => bytes_cmp x y
  | VBool x, VBool y => Z.compare (Z.b2z x) (Z.b2z y)
  | _, _ => Eq
  end.
(* SortExecutor::compare_values: no Int/Float arm at all *)
Definition sort_exec_compare (a b : value) : comparison :=
  match a, b with
  | VNull, VNull => Eq
  | VNull, _ => Lt
  | _, VNull => Gt
  | VInt x, VInt y => Z.compare x y
  | VFloat x, VFloat y => if f_nan x || f_nan y then Eq else Z.compare (f_key x) (f_key y)
  | VText x, VText y => bytes_cmp x y
  | _, _ => Eq
  end.

(* the closure passed to sort_by: first key that does not compare Equal decides,
   `if key.ascending { cmp } else { cmp.reverse() }` *)
Fixpoint impl_lex (vcmp : value -> value -> comparison) (dirs : list bool) (a b : list value) : comparison :=
  match dirs with
  | [] => Eq
  | asc :: ds =>
      match vcmp (hd VNull a) (hd VNull b) with
      | Eq => impl_lex vcmp ds (tl a) (tl b)
      | c => if asc then c else CompOpp c
      end
  end.
Definition impl_elt_cmp (dirs : list bool) (a b : elt) : comparison :=
  impl_lex compare_for_sort dirs (fst a) (fst b).

(* ------------------------------------------------------------------ LIMIT / OFFSET state machine *)
Section Limit.
  Context {A : Type}.
  (* one call of next() per element of the child's stream, until it returns None *)
  Fixpoint run_limit (lim : option nat) (off : nat) (skipped returned : nat) (xs : list A) : list A :=
    match xs with
    | [] => []
    | x :: xs' =>
        if (skipped <? off)%nat then run_limit lim off (S skipped) returned xs'
        else
          match lim with
          | Some l => if (l <=? returned)%nat then [] else x :: run_limit lim off skipped (S returned) xs'
          | None => x :: run_limit lim off skipped (S returned) xs'
          end
    end.
  Definition limit_exec (lim : option nat) (off : nat) (xs : list A) : list A := run_limit lim off 0 0 xs.
End Limit.

(* ------------------------------------------------------------------ where a key is read from *)
Inductive ksrc :=
| SrcCol (c : nat)                          (* table column c of the row *)
| SrcNull                                   (* the key did not resolve: constant NULL *)
| SrcExpr (e : kexpr) (vis : list nat)      (* eval_sort_expr_standalone; columns outside vis read NULL *)
| SrcBad.                                   (* malformed query: not modelled *)

Definition mem (c : nat) (l : list nat) : bool := existsb (Nat.eqb c) l.

Fixpoint kexpr_cols (e : kexpr) : list nat :=
  match e with
  | XCol c => [c]
  | XInt _ => []
  | XBin _ a b => kexpr_cols a ++ kexpr_cols b
  | XNeg a => kexpr_cols a
  | XAbs a => kexpr_cols a
  end.
Definition key_cols (k : key) : list nat :=
  match k with KCol c _ => [c] | KAlias _ => [] | KExpr e => kexpr_cols e end.

(* None = not modelled (overflow, float arithmetic, literal outside i64) *)
Fixpoint eval_kexpr (vis : list nat) (r : row) (e : kexpr) : option value :=
  match e with
  | XCol c => Some (if mem c vis then nth c r VNull else VNull)
  | XInt z => if i64_ok z then Some (VInt z) else None
  | XBin op a b =>
      match eval_kexpr vis r a, eval_kexpr vis r b with
      | Some (VInt x), Some (VInt y) => let z := arith_z op x y in if i64_ok z then Some (VInt z) else None
      | Some (VFloat _), Some (VInt _ | VFloat _) | Some (VInt _), Some (VFloat _) => None
      | Some _, Some _ => Some VNull
      | _, _ => None
      end
  | XNeg a =>                                 (* eval_unary_op_standalone (commit 64df99f): checked_neg *)
      match eval_kexpr vis r a with
      | Some (VInt x) => Some (if i64_ok (- x) then VInt (- x) else VNull)
      | Some (VFloat _) => None                (* float negation: not modelled, like all float arithmetic *)
      | Some _ => Some VNull
      | None => None
      end
  | XAbs _ => Some VNull                      (* Expr::Function falls into `_ => Value::Null` *)
  end.
Definition eval_src (r : row) (s : ksrc) : option value :=
  match s with
  | SrcCol c => Some (nth c r VNull)
  | SrcNull => Some VNull
  | SrcExpr e vis => eval_kexpr vis r e
  | SrcBad => None
  end.

(* the select list seen as the column map of ProjectExec's output: an item is found under its
   column name only if it has no alias (compute_input_column_map), under `x<i>` if it has one *)
Definition items_of (s : select) : list sel_item := match s with SelStar => [] | SelList l => l end.
Definition has_plain (items : list sel_item) (c : nat) : bool :=
  existsb (fun it => Nat.eqb (item_col it) c && negb (item_al it)) items.
Definition has_col (items : list sel_item) (c : nat) : bool :=
  existsb (fun it => Nat.eqb (item_col it) c) items.
Definition plain_cols (items : list sel_item) : list nat :=
  map item_col (filter (fun it => negb (item_al it)) items).
Definition alias_col (items : list sel_item) (i : nat) : option nat :=
  match nth_error items i with Some (SI c true) => Some c | _ => None end.

(* keys resolved in an operator ABOVE ProjectExec (builder.rs: resolve_column_index on the
   projection's names, then find_matching_projection_index, then SortKey::expression) *)
Definition src_above (items : list sel_item) (k : key) : ksrc :=
  match k with
  | KCol c q =>
      if has_plain items c then SrcCol c
      else if negb q && has_col items c then SrcCol c         (* the key expression equals a projected expression *)
      else SrcNull
  | KAlias i => match alias_col items i with Some c => SrcCol c | None => SrcBad end
  | KExpr (XCol c) => SrcBad                                   (* printed as a bare column: use KCol *)
  | KExpr e => SrcExpr e (plain_cols items)
  end.
(* keys resolved BELOW ProjectExec, on the table's own column map *)
Definition src_below (ncols : nat) (k : key) : ksrc :=
  match k with
  | KCol c _ => if (c <? ncols)%nat then SrcCol c else SrcBad
  | KAlias _ => SrcNull
  | KExpr (XCol c) => SrcBad
  | KExpr e => SrcExpr e (seq 0 ncols)
  end.

Definition is_expr_key (k : key) : bool := match k with KExpr _ => true | _ => false end.
(* planner/convert.rs order_by_uses_only_projected_columns *)
Definition key_projected (items : list sel_item) (k : key) : bool :=
  match k with
  | KCol c _ => has_col items c
  | KAlias i => match alias_col items i with Some _ => true | None => false end
  | KExpr e => forallb (has_col items) (kexpr_cols e)
  end.

Inductive plan_mode := Above | Below.
Definition sort_mode (q : query) : plan_mode :=
  let items := items_of (q_sel q) in
  let ks := map fst (q_keys q) in
  match q_limit q with
  | Some _ => if forallb (key_projected items) ks then Above else Below          (* TopKExec *)
  | None => if existsb is_expr_key ks then Below else Above                       (* SortExec *)
  end.
Definition impl_srcs (ncols : nat) (q : query) : list ksrc :=
  match sort_mode q with
  | Above => map (fun kb => src_above (items_of (q_sel q)) (fst kb)) (q_keys q)
  | Below => map (fun kb => src_below ncols (fst kb)) (q_keys q)
  end.

(* ------------------------------------------------------------------ the output row *)
Definition proj (cols : list nat) (r : row) : row := map (fun c => nth c r VNull) cols.
Inductive pay_mode := PayNormal | PayEmpty.
Definition has_order (q : query) : bool := match q_keys q with [] => false | _ => true end.
Definition has_window (q : query) : bool :=
  match q_limit q, q_offset q with None, None => false | _, _ => true end.
(* the statement the executor runs: a DISTINCT statement is planned without LIMIT / OFFSET *)
Definition strip_window (q : query) : query :=
  mkQ (q_distinct q) (q_sel q) (q_where q) (q_keys q) None None.
Definition exec_q (q : query) : query := if q_distinct q && has_window q then strip_window q else q.
Definition pay_mode_of (q : query) : pay_mode :=
  match q_sel q with
  | SelStar =>
      (* SortExec with a non-column key sorts below the projection and rebuilds the projection
         from the select items that are columns: `*` leaves none *)
      if has_order q && (match q_limit q with None => existsb is_expr_key (map fst (q_keys q)) | Some _ => false end)
      then PayEmpty else PayNormal
  | SelList _ => PayNormal
  end.
Definition impl_pay (ncols : nat) (q : query) (r : row) : row :=
  match pay_mode_of q with
  | PayNormal => proj (out_cols ncols (q_sel q)) r
  | PayEmpty => []
  end.

(* ------------------------------------------------------------------ the query *)
Inductive mres := MRows (rows : list row) | MPanic | MUnmod.

Definition impl_elt (srcs : list ksrc) (ncols : nat) (q : query) (r : row) : option elt :=
  match all_some (map (eval_src r) srcs) with
  | Some ks => Some (ks, impl_pay ncols q r)
  | None => None
  end.

(* DISTINCT in query_with_columns: first occurrence by the Debug rendering of every value, zeros
   rendered alike (hashed with DefaultHasher; 64-bit collisions are not modelled), i.e. bit-for-bit
   equality of the rows after normalising -0.0; the row kept is the first one as it is *)
Fixpoint dedupe_rows_n (seen : list row) (rows : list row) : list row :=
  match rows with
  | [] => []
  | r :: rows' =>
      if existsb (row_eqb (norm_row r)) seen then dedupe_rows_n seen rows'
      else r :: dedupe_rows_n (norm_row r :: seen) rows'
  end.
(* ... followed by `skip(offset).take(limit)` / `skip(offset)`, the statement's own window *)
Definition distinct_post (q : query) (rows : list row) : list row :=
  window (q_off q) (q_lim q) (dedupe_rows_n [] rows).

Definition well_formed (ncols : nat) (q : query) : bool :=
  nonneg (q_limit q) && nonneg (q_offset q) &&
  forallb (fun c => (c <? ncols)%nat) (out_cols ncols (q_sel q)) &&
  forallb (fun kb => forallb (fun c => (c <? ncols)%nat) (key_cols (fst kb))) (q_keys q) &&
  (match q_sel q with SelList [] => false | _ => true end).

Definition model_query (ncols : nat) (q : query) (t : table) : mres :=
  if negb (well_formed ncols q) then MUnmod else
  let qe := exec_q q in
  let rows0 := filter (passes_where (q_where q)) t in
  let srcs := impl_srcs ncols qe in
  match all_some (map (impl_elt srcs ncols qe) rows0) with
  | None => MUnmod
  | Some elts =>
      let cmp := impl_elt_cmp (q_dirs q) in
      let ordered : option (list elt) :=
        if has_order qe then
          match q_lim qe with
          | Some l =>                                                (* TopKExec *)
              match topk cmp (l + q_off qe) elts with
              | TOk out => Some (firstn l (skipn (q_off qe) out))
              | _ => None
              end
          | None => Some (limit_exec None (q_off qe) (isort (c_less cmp) elts))   (* SortExec [+ LimitExec] *)
          end
        else Some (limit_exec (q_lim qe) (q_off qe) elts) in
      match ordered with
      | None => MUnmod
      | Some out =>
          let rows := map snd out in
          MRows (if q_distinct q then distinct_post q rows else rows)
      end
  end.

(* ------------------------------------------------------------------ recorded finding classes *)
(* does the implementation read key k from where the reference says? *)
Definition key_class (ncols : nat) (s : select) (k : key) (src : ksrc) : Z :=
  match key_den ncols s k, src with
  | None, _ => 0                                   (* invalid key: the reference does not say *)
  | Some (DCol c), SrcCol c' => if Nat.eqb c c' then 0 else 1
  | Some (DCol _), SrcExpr (XInt _) _ => 2         (* ordinal read as a constant *)
  | Some (DCol _), _ => 1                          (* column name / alias not resolved: constant NULL *)
  | Some (DExpr _), SrcExpr e vis =>
      if negb (forallb (fun c => mem c vis) (kexpr_cols e)) then 1   (* a column of the expression is not visible: NULL *)
      else if kexpr_has_fn e then 3                (* a function call evaluates to NULL *)
      else 0
  | Some (DExpr _), _ => 1
  end.
Fixpoint first_nonzero (l : list Z) : Z :=
  match l with [] => 0 | x :: l' => if x =? 0 then first_nonzero l' else x end.

(* 0 = no recorded finding applies.
   1  a column / alias (as a key or inside a key expression) that does not resolve in the sort
      operator's input reads NULL
   2  an ordinal key (ORDER BY 2) is read as the constant 2
   3  a function call in a key (ORDER BY ABS(c)) evaluates to NULL
   6  SELECT * ... ORDER BY <expression> without LIMIT returns rows without columns
   (4, 5, 7 and the unary-minus part of 3 were repaired in /repo: commits d679a09, 84a97fb, 2ad4719,
    64df99f; their witnesses stay in the corpus and must now satisfy the property.)
   The classes are those of the statement the executor runs ([exec_q]). *)
Definition class_of (ncols : nat) (q : query) : Z :=
  match pay_mode_of q with
  | PayEmpty => 6
  | PayNormal =>
      first_nonzero (map (fun ks => key_class ncols (q_sel q) (fst (fst ks)) (snd ks))
                         (combine (q_keys q) (impl_srcs ncols q)))
  end.
Definition known_class_q (ncols : nat) (q : query) : Z := class_of ncols (exec_q q).
