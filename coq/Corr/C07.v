(* C07 correspondence: ROLLBACK / ROLLBACK TO SAVEPOINT / dropping a handle restore the earlier
   state.  Definitions only; evaluated by vm_compute on the cases written by harness/src/bin/c07.rs.

   A `Seg` case is ONE history run TWICE on two fresh databases of the real implementation:
     run A:  p ++ t            run B:  p ++ m ++ t
   where m is a segment that the property says must be invisible afterwards:
     BEGIN; body; ROLLBACK     BEGIN; body; <drop the handle>     SAVEPOINT n; body; ROLLBACK TO n
   After every statement the harness records the statement's result, SELECT star and COUNT star; in
   the tail t it also records the equality lookups  WHERE c0 = v  (v in d0) and  WHERE c1 = v
   (v in d1) -- index lookups where the table has the index -- and t contains later INSERTs whose
   outcome shows what the uniqueness checks see.
     spec_ok      = the PROPERTY: every observation of the tail t is the same in run A and run B
                    (row sets compared as bags); independent of the model;
     model_agrees = Model/UndoLog.v reproduces every observation of both runs.
   A `Big` case: n0 wide rows, then BEGIN; k inserts; ROLLBACK (the inserts may split the root). *)
From Coq Require Import ZArith List Bool.
From TV Require Export Model.SqlSpec Model.UndoLog.
Import ListNotations.
Open Scope Z_scope.

Inductive sobs := SO (r : res) (rows : list trow) (cnt : Z) (lk : option (list (list trow) * list (list trow))).

Inductive case :=
| Seg (sch : schema) (d0 d1 : list value) (p m t : list op) (ra rb : list sobs)
| Big (n0 k rootr lenA cntA lenB cntB : Z).

(* ------------------------------------------------------------------ comparisons *)
Definition res_eqb (a b : res) : bool :=
  match a, b with
  | RAff x, RAff y => x =? y
  | ROk, ROk | RErr, RErr | RPanic, RPanic | RBad, RBad => true
  | _, _ => false
  end.
Fixpoint rows_eqb (a b : list trow) : bool :=
  match a, b with
  | [], [] => true
  | x :: a', y :: b' => trow_eqb x y && rows_eqb a' b'
  | _, _ => false
  end.
Fixpoint remove1 (x : trow) (l : list trow) : option (list trow) :=
  match l with
  | [] => None
  | y :: l' => if trow_eqb x y then Some l' else match remove1 x l' with Some r => Some (y :: r) | None => None end
  end.
Fixpoint bag_eqb (a b : list trow) : bool :=
  match a with
  | [] => match b with [] => true | _ => false end
  | x :: a' => match remove1 x b with Some b' => bag_eqb a' b' | None => false end
  end.
Fixpoint bags_eqb (a b : list (list trow)) : bool :=
  match a, b with
  | [], [] => true
  | x :: a', y :: b' => bag_eqb x y && bags_eqb a' b'
  | _, _ => false
  end.

(* ------------------------------------------------------------------ the model against one run *)
Fixpoint agree (sch : schema) (d0 d1 : list value) (ops : list op) (obs : list sobs) (s : tstate * option txn) : bool :=
  match ops, obs with
  | [], [] => true
  | o :: ops', SO r rows cnt lk :: obs' =>
      let (r', s') := exec sch o s in
      res_eqb r r' && rows_eqb rows (scan (fst s')) && (cnt =? count_star (fst s'))
      && match lk with
         | None => true
         | Some (l0, l1) => bags_eqb l0 (map (lookup0 sch (fst s')) d0) && bags_eqb l1 (map (lookup1 sch (fst s')) d1)
         end
      && agree sch d0 d1 ops' obs' s'
  | _, _ => false
  end.

Definition big_model_agrees (n0 k rootr lenA cntA lenB cntB : Z) : bool :=
  (lenA =? n0) && (cntA =? n0) &&
  (if rootr =? 1 then (lenB =? n0) && (cntB =? n0)
   else (* undo_write_entry opens the B-tree at page 1, which is a leaf of a deeper tree now: entries
           filed in other leaves are not found, their rows stay *)
        (n0 <? lenB) && (lenB <=? n0 + k)).

Definition model_agrees (c : case) : bool :=
  match c with
  | Seg sch d0 d1 p m t ra rb =>
      agree sch d0 d1 (p ++ t) ra (t_empty, None) && agree sch d0 d1 (p ++ m ++ t) rb (t_empty, None)
  | Big n0 k rootr lenA cntA lenB cntB => big_model_agrees n0 k rootr lenA cntA lenB cntB
  end.

(* ------------------------------------------------------------------ the property *)
Definition sobs_same (a b : sobs) : bool :=
  match a, b with
  | SO r1 rows1 c1 l1, SO r2 rows2 c2 l2 =>
      res_eqb r1 r2 && bag_eqb rows1 rows2 && (c1 =? c2)
      && match l1, l2 with
         | None, None => true
         | Some (x0, x1), Some (y0, y1) => bags_eqb x0 y0 && bags_eqb x1 y1
         | _, _ => false
         end
  end.
Fixpoint all_same (a b : list sobs) : bool :=
  match a, b with
  | [], [] => true
  | x :: a', y :: b' => sobs_same x y && all_same a' b'
  | _, _ => false
  end.
Definition lastn {A} (n : nat) (l : list A) : list A := skipn (length l - n) l.

(* which handle state the prefix leaves: None = no transaction, Some names = open transaction with
   these savepoints (the transaction-control statements can only fail in the wrong state) *)
Fixpoint zmem (n : Z) (l : list Z) : bool := match l with [] => false | x :: l' => (x =? n) || zmem n l' end.
Fixpoint zpos (n : Z) (l : list Z) : nat := match l with [] => O | x :: l' => if x =? n then O else S (zpos n l') end.
Definition zdrop_at (i : nat) (l : list Z) : list Z := firstn i l ++ skipn (S i) l.
Definition track1 (o : op) (st : option (list Z)) : option (list Z) :=
  match o, st with
  | OBegin, None => Some []
  | (OCommit | ORollback | ODrop), Some _ => None
  | OSave n, Some l => Some (l ++ [n])
  | ORollTo n, Some l => if zmem n l then Some (firstn (S (zpos n l)) l) else Some l
  | ORelease n, Some l => if zmem n l then Some (zdrop_at (zpos n l) l) else Some l
  | _, s => s
  end.
Definition track (ops : list op) : option (list Z) := fold_left (fun s o => track1 o s) ops None.

(* the body of a segment never ends the transaction and only rolls back to / releases savepoints it
   created itself (names distinct from every outer savepoint) *)
Fixpoint body_ok (outer inner : list Z) (body : list op) : bool :=
  match body with
  | [] => true
  | o :: b' =>
      match o with
      | OCommit | ORollback | ODrop => false
      | OSave n => negb (zmem n outer) && body_ok outer (inner ++ [n]) b'
      | ORollTo n => zmem n inner && body_ok outer (firstn (S (zpos n inner)) inner) b'
      | ORelease n => zmem n inner && body_ok outer (zdrop_at (zpos n inner) inner) b'
      | _ => body_ok outer inner b'
      end
  end.
Definition op_is_end (o : op) : bool := match o with ORollback | ODrop => true | _ => false end.
Definition seg_wf (p m : list op) : bool :=
  match m with
  | OBegin :: rest =>
      match track p with
      | None => match rev rest with e :: rb => op_is_end e && body_ok [] [] (rev rb) | [] => false end
      | Some _ => false
      end
  | OSave n :: rest =>
      match track p with
      | Some outer =>
          negb (zmem n outer) &&
          match rev rest with
          | ORollTo n' :: rb => (n' =? n) && body_ok (outer ++ [n]) [] (rev rb)
          | _ => false
          end
      | None => false
      end
  | _ => false
  end.

Definition spec_ok (c : case) : bool :=
  match c with
  | Seg sch d0 d1 p m t ra rb =>
      if seg_wf p m then all_same (lastn (length t) ra) (lastn (length t) rb) else true
  | Big n0 k rootr lenA cntA lenB cntB => (lenB =? lenA) && (cntB =? cntA)
  end.

(* ------------------------------------------------------------------ recorded finding classes *)
Definition is_del (o : op) : bool := match o with ODel _ => true | _ => false end.
Definition is_kupd (o : op) : bool := match o with OUpd C0 _ _ => true | _ => false end.
Definition is_upd1 (o : op) : bool := match o with OUpd C1 _ _ => true | _ => false end.
Definition is_upd (o : op) : bool := match o with OUpd _ _ _ => true | _ => false end.
Definition is_ins (o : op) : bool := match o with OIns _ => true | _ => false end.
Definition is_undo (o : op) : bool := match o with ORollback | ORollTo _ | ODrop => true | _ => false end.
Definition is_write (o : op) : bool := is_ins o || is_upd o || is_del o.
(* a multi-row INSERT of the segment that failed in run B *)
Fixpoint partial_ins (ops : list op) (obs : list sobs) : bool :=
  match ops, obs with
  | OIns (_ :: _ :: _) :: ops', SO RErr _ _ _ :: obs' => true
  | _ :: ops', _ :: obs' => partial_ins ops' obs'
  | _, _ => false
  end.

Definition known_class (c : case) : Z :=
  match c with
  | Big n0 k rootr _ _ _ _ => if rootr =? 1 then 0 else 6
  | Seg sch d0 d1 p m t ra rb =>
      if existsb is_del m then
        (if negb (keyed sch) then 1 else if int_pk sch then 8 else 9)
      else if keyed sch && existsb is_kupd m then
        (if int_pk sch then 2 else 10)
      else if s_sec sch && (existsb is_upd1 m || (int_pk sch && existsb is_write m)) then 3
      else if partial_ins m (skipn (length p) rb) then 5
      else if int_pk sch && existsb is_ins m
              && (existsb is_kupd (p ++ t) || existsb is_undo (p ++ t)) then 7
      else 0
  end.

Fixpoint failures_from (i : Z) (cs : list case) : list (Z * bool * bool * Z) :=
  match cs with
  | [] => []
  | c :: t =>
      let m := model_agrees c in
      let s := spec_ok c in
      if m && s then failures_from (i + 1) t else (i, m, s, known_class c) :: failures_from (i + 1) t
  end.
Definition failures := failures_from 0.
