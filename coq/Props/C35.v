(* C35 - The page cache never evicts pinned pages or mixes contents.  Property theorems only.
   Model/Cache.v is a hand-written transcription of src/storage/cache.rs and of the Cache-pool part
   of src/memory/budget.rs (constants regenerated from src/config/constants.rs into Gen/CacheConsts.v).
   [run step sched s0] ranges over every schedule, hence every number of threads and every
   interleaving of the model's atomic steps (Lib/Interleave.v).
   The model is the code as repaired by /repo 1cb9a1e (init failure releases the charge) and b391e62
   (clear() counts under the shard locks); no known class remains.  The two HISTORICAL lemmas at the
   end evaluate the model of the code before the repairs (Model/CacheV0.v). *)
From Coq Require Import ZArith List Bool Arith.
From TV Require Import Lib.Interleave Gen.CacheConsts Model.Cache
  Proof.CacheShard Proof.CacheInv Proof.CacheLookup Proof.CacheEffect Proof.CachePins Proof.CacheAcct.
From TV Require Model.CacheV0 Proof.CacheV0.
Import ListNotations.
Open Scope Z_scope.

(* ---------- sequential shard theory ---------- *)

(* SIEVE evict on a well-formed shard: terminates within the model's fuel, never indexes out of
   range, changes nothing but visited flags and the hand, and a victim is indexed and NOT pinned *)
Theorem evict_never_pinned :
  forall sh r sh', shard_wf sh -> evict sh = (r, sh') ->
  shard_wf sh' /\ map strip (ents sh') = map strip (ents sh) /\ cap sh' = cap sh /\ wl sh' = wl sh /\
  r <> EvPanic /\ r <> EvFuel /\
  (forall k, r = EvSome k -> exists j e, idx_get (idx sh') k = Some j /\ nth_error (ents sh') j = Some e /\ ekey e = k /\ is_pinned e = false).
Proof. exact evict_spec. Qed.

(* remove = swap_remove + index and hand fix-up keeps index <-> entries a bijection (the moved
   entry's index is repaired), drops exactly the removed key and shortens the shard by one *)
Theorem index_entries_bijection_remove :
  forall sh i sh', shard_wf sh -> remove sh i = Some sh' ->
  shard_wf sh' /\ length (ents sh') = (length (ents sh) - 1)%nat /\ cap sh' = cap sh /\ wl sh' = wl sh /\
  (forall e, nth_error (ents sh) i = Some e ->
     idx_get (idx sh') (ekey e) = None /\
     forall k, k <> ekey e -> idx_get (idx sh') k <> None <-> idx_get (idx sh) k <> None).
Proof. exact remove_wf. Qed.

(* ---------- every interleaving ---------- *)

(* all 64 shards stay well-formed (index <-> entries bijection, valid hand, len <= cap) and every
   entry lives in the shard of its key *)
Theorem shards_wf_all_schedules :
  forall total limit c0 o progs sched, (NSH <= total)%nat ->
  shards_ok (run step sched (init_st total limit c0 o progs)).
Proof. intros. exact (proj1 (inv1_run total limit c0 o progs sched H)). Qed.

(* a shard never holds more entries than its share of the configured capacity *)
Theorem shard_capacity_inv :
  forall total limit c0 o progs sched i sh, (NSH <= total)%nat ->
  nth_error (shs (run step sched (init_st total limit c0 o progs))) i = Some sh ->
  (length (ents sh) <= Nat.div total NSH + (if Nat.ltb i (Nat.modulo total NSH) then 1 else 0))%nat.
Proof. exact capacity_run. Qed.

(* programs without clear(): pin counts are exactly the outstanding PageRefs ... *)
Theorem pins_all_schedules :
  forall total limit c0 o progs sched, (NSH <= total)%nat -> progs_no_clear progs ->
  pins_ok (run step sched (init_st total limit c0 o progs)).
Proof. exact pins_run. Qed.

(* ... so a page for which any thread holds a PageRef is resident (never evicted), with its data *)
Theorem pinned_never_evicted :
  forall total limit c0 o progs sched t th k, (NSH <= total)%nat -> progs_no_clear progs ->
  let s := run step sched (init_st total limit c0 o progs) in
  lget (thr s) t = Some th -> In k (held th) ->
  exists e, slookup (shs s) k = Some e /\ 1 <= epin e /\ cache_data s k = Some (edata e).
Proof. intros. eapply pinned_resident; eauto. apply pins_run; assumption. Qed.

(* ... and no operation observes a missing or unpinned page behind a PageRef, nor an index out of range *)
Theorem no_bad_results_all_schedules :
  forall total limit c0 o progs sched, (NSH <= total)%nat -> progs_no_clear progs ->
  no_bad_results (run step sched (init_st total limit c0 o progs)).
Proof. exact results_run. Qed.

(* any programs (clear() included): no operation indexes out of range *)
Theorem no_panic_all_schedules :
  forall total limit c0 o progs sched, (NSH <= total)%nat ->
  no_panic (run step sched (init_st total limit c0 o progs)).
Proof. exact no_panic_run. Qed.

(* any programs: what data(k) returns is the value last written (or initialised) for key k *)
Theorem contents_last_write :
  forall total limit c0 o progs sched, (NSH <= total)%nat ->
  contents_ok (run step sched (init_st total limit c0 o progs)).
Proof. exact contents_run. Qed.

(* budget accounting, for every schedule and all programs: with no operation in progress the Cache
   pool holds exactly PAGE_SIZE per resident page on top of what it held before ... *)
Theorem budget_accounting :
  forall total limit c0 o progs sched,
  (NSH <= total)%nat -> 0 <= c0 ->
  let s := run step sched (init_st total limit c0 o progs) in
  quiescent s -> used s = c0 + PAGE_SIZE * total_len s.
Proof. exact budget_accounting_l. Qed.

(* ... in particular it is back at its initial value when the cache is emptied *)
Theorem budget_zero_when_emptied :
  forall total limit c0 o progs sched,
  (NSH <= total)%nat -> 0 <= c0 ->
  let s := run step sched (init_st total limit c0 o progs) in
  quiescent s -> total_len s = 0 -> used s = c0.
Proof. exact budget_zero_when_emptied_l. Qed.

(* HISTORICAL (Model/CacheV0.v = the code before 1cb9a1e): F-C35-1, an init closure that failed left
   one page charged for ever *)
Theorem historical_init_failure_leaked :
  exists progs sched,
    let s := run CacheV0.step sched (CacheV0.init_st 64 4194304 0 0 progs) in
    CacheV0.idle_b s = true /\ CacheV0.gleak s = true /\ CacheV0.grace s = false /\
    CacheV0.total_len s = 0 /\ CacheV0.used s = PAGE_SIZE.
Proof. exact Proof.CacheV0.v0_init_failure_leaked. Qed.

(* HISTORICAL (Model/CacheV0.v = the code before b391e62): F-C35-2, an insert between len() and the
   shard clears of another thread's clear() left one page charged *)
Theorem historical_clear_race_leaked :
  exists progs sched,
    let s := run CacheV0.step sched (CacheV0.init_st 64 4194304 0 0 progs) in
    CacheV0.idle_b s = true /\ CacheV0.gleak s = false /\ CacheV0.grace s = true /\
    CacheV0.total_len s = 0 /\ CacheV0.used s = PAGE_SIZE.
Proof. exact Proof.CacheV0.v0_clear_race_leaked. Qed.

(* ---------- non-vacuity ---------- *)
(* the hypotheses are satisfiable and the interesting regime is reached: two threads, capacity one
   per shard, colliding keys: T1's insert finds the shard full with T0's page pinned (RErrFull), T0's
   data survives, and after the unpin the page can be evicted *)
Example c35_witness :
  let progs := [(0%nat, [OGetIns 0 true 11; OWrite 0 12; OUnpin 0]); (1%nat, [OGetIns 64 true 21; OGetIns 64 true 22; ORead 0])] in
  let s := run step (sched_of [(0%nat, 12%nat); (1%nat, 13%nat); (0%nat, 2%nat); (1%nat, 40%nat)]) (init_st 64 4194304 0 0 progs) in
  (NSH <= 64)%nat /\ progs_no_clear progs /\ NoDup (map fst progs) /\
  idle_b s = true /\
  option_map res (lget (thr s) 1%nat) = Some [RData None; RIns; RErrFull] /\
  option_map res (lget (thr s) 0%nat) = Some [RUnpinned; RWrote; RIns] /\
  cache_data s 64 = Some 22 /\ total_len s = 1 /\ used s = PAGE_SIZE.
Proof.
  cbv zeta. split; [vm_compute; apply le_n|]. split.
  - intros t p [H|[H|[]]]; inversion H; subst; intros Q; cbn in Q; intuition discriminate.
  - split; [repeat constructor; cbn; intuition discriminate|]. vm_compute. repeat split.
Qed.

Check evict_never_pinned :
  forall sh r sh', shard_wf sh -> evict sh = (r, sh') ->
  shard_wf sh' /\ map strip (ents sh') = map strip (ents sh) /\ cap sh' = cap sh /\ wl sh' = wl sh /\
  r <> EvPanic /\ r <> EvFuel /\
  (forall k, r = EvSome k -> exists j e, idx_get (idx sh') k = Some j /\ nth_error (ents sh') j = Some e /\ ekey e = k /\ is_pinned e = false).
Check index_entries_bijection_remove :
  forall sh i sh', shard_wf sh -> remove sh i = Some sh' ->
  shard_wf sh' /\ length (ents sh') = (length (ents sh) - 1)%nat /\ cap sh' = cap sh /\ wl sh' = wl sh /\
  (forall e, nth_error (ents sh) i = Some e ->
     idx_get (idx sh') (ekey e) = None /\
     forall k, k <> ekey e -> idx_get (idx sh') k <> None <-> idx_get (idx sh) k <> None).
Check shards_wf_all_schedules :
  forall total limit c0 o progs sched, (NSH <= total)%nat ->
  shards_ok (run step sched (init_st total limit c0 o progs)).
Check shard_capacity_inv :
  forall total limit c0 o progs sched i sh, (NSH <= total)%nat ->
  nth_error (shs (run step sched (init_st total limit c0 o progs))) i = Some sh ->
  (length (ents sh) <= Nat.div total NSH + (if Nat.ltb i (Nat.modulo total NSH) then 1 else 0))%nat.
Check pins_all_schedules :
  forall total limit c0 o progs sched, (NSH <= total)%nat -> progs_no_clear progs ->
  pins_ok (run step sched (init_st total limit c0 o progs)).
Check pinned_never_evicted :
  forall total limit c0 o progs sched t th k, (NSH <= total)%nat -> progs_no_clear progs ->
  let s := run step sched (init_st total limit c0 o progs) in
  lget (thr s) t = Some th -> In k (held th) ->
  exists e, slookup (shs s) k = Some e /\ 1 <= epin e /\ cache_data s k = Some (edata e).
Check no_bad_results_all_schedules :
  forall total limit c0 o progs sched, (NSH <= total)%nat -> progs_no_clear progs ->
  no_bad_results (run step sched (init_st total limit c0 o progs)).
Check no_panic_all_schedules :
  forall total limit c0 o progs sched, (NSH <= total)%nat ->
  no_panic (run step sched (init_st total limit c0 o progs)).
Check contents_last_write :
  forall total limit c0 o progs sched, (NSH <= total)%nat ->
  contents_ok (run step sched (init_st total limit c0 o progs)).
Check budget_accounting :
  forall total limit c0 o progs sched,
  (NSH <= total)%nat -> 0 <= c0 ->
  let s := run step sched (init_st total limit c0 o progs) in
  quiescent s -> used s = c0 + PAGE_SIZE * total_len s.
Check budget_zero_when_emptied :
  forall total limit c0 o progs sched,
  (NSH <= total)%nat -> 0 <= c0 ->
  let s := run step sched (init_st total limit c0 o progs) in
  quiescent s -> total_len s = 0 -> used s = c0.
Check historical_init_failure_leaked :
  exists progs sched,
    let s := run CacheV0.step sched (CacheV0.init_st 64 4194304 0 0 progs) in
    CacheV0.idle_b s = true /\ CacheV0.gleak s = true /\ CacheV0.grace s = false /\
    CacheV0.total_len s = 0 /\ CacheV0.used s = PAGE_SIZE.
Check historical_clear_race_leaked :
  exists progs sched,
    let s := run CacheV0.step sched (CacheV0.init_st 64 4194304 0 0 progs) in
    CacheV0.idle_b s = true /\ CacheV0.gleak s = false /\ CacheV0.grace s = true /\
    CacheV0.total_len s = 0 /\ CacheV0.used s = PAGE_SIZE.

Print Assumptions evict_never_pinned.
Print Assumptions index_entries_bijection_remove.
Print Assumptions shards_wf_all_schedules.
Print Assumptions shard_capacity_inv.
Print Assumptions pins_all_schedules.
Print Assumptions pinned_never_evicted.
Print Assumptions no_bad_results_all_schedules.
Print Assumptions no_panic_all_schedules.
Print Assumptions contents_last_write.
Print Assumptions budget_accounting.
Print Assumptions budget_zero_when_emptied.
Print Assumptions historical_init_failure_leaked.
Print Assumptions historical_clear_race_leaked.
