(* C31 - Row records round-trip through the record format.
   Property theorems only.  The model is Model/Record.v (hand-written from
   src/records/{schema,builder,view}.rs and the record glue of src/types/owned_value.rs, tied
   to /repo by the correspondence run); the proofs are in Proof/Record*.v. *)
From Coq Require Import ZArith List Bool.
From TV Require Import Lib.MachInt Model.Record
  Proof.RecordBase Proof.RecordBuild Proof.RecordReset Proof.RecordRefute Proof.RecordView Proof.RecordRoundtrip.
Import ListNotations.
Open Scope Z_scope.

(* every schema (any number of columns whose header fits the u16 header length), every row of
   values that fits it (fits_row: each value is of the column's type and width - for a Float4
   column the Float must be an exact zero/infinite/normal f32 value - and variable bytes total
   below 2^16), outside the one recorded defect class (a 17-byte 0xFE-led Blob in a Blob
   column): a new builder builds a
   record - no step panics or errs - and extract_row_from_record returns exactly the row,
   NULLs included *)
Theorem record_roundtrip :
  forall s row, schema_ok s = true -> fits_row s row = true -> known_class s row = 0 ->
    exists bytes, build_fresh s row = Ok bytes /\ extract s bytes = Ok row.
Proof. exact record_roundtrip_l. Qed.

(* the property's schemas, 1..64 columns of any types, are all covered *)
Theorem schema_ok_upto_64 : forall s, (length s <= 64)%nat -> schema_ok s = true.
Proof. exact schema_ok_upto_64_l. Qed.

(* the all-NULL row of every schema round-trips (the defect class does not apply) *)
Theorem record_null_roundtrip :
  forall s, schema_ok s = true ->
    exists bytes, build_fresh s (repeat VNull (length s)) = Ok bytes /\
                  extract s bytes = Ok (repeat VNull (length s)).
Proof. exact record_null_roundtrip_l. Qed.

(* building after a reset = building with a new builder: for EVERY row (fitting or not) and
   every builder state a caller can hold (new, or left by earlier build_record_into_buffer
   calls that returned Ok or Err), the result - bytes, Err or Panic - is the same *)
Theorem reuse_equals_fresh :
  forall s st row, reachable s st -> snd (build_record_into_buffer s st row) = build_fresh s row.
Proof. exact reuse_equals_fresh_l. Qed.

(* ... because reset restores every observable field of the builder *)
Theorem reset_idempotent :
  forall s st, reachable s st -> reset s st = fresh s.
Proof. exact reset_idempotent_l. Qed.

(* record size = 2 + null bitmap + 2 per variable column + fixed area + variable bytes *)
Theorem record_size_formula :
  forall s row bytes, schema_ok s = true -> fits_row s row = true ->
    build_fresh s row = Ok bytes ->
    blen bytes = 2 + bitmap_size (ncols s) + 2 * nvar s + total_fixed s + total_var s row.
Proof. exact record_size_formula_l. Qed.

(* the recorded defect class really breaks the round trip (witness evaluated on the model; the
   same row is run on the real code on every check) *)
Theorem record_roundtrip_refuted :
  exists s row, schema_ok s = true /\ fits_row s row = true /\ known_class s row = 3 /\ ~ roundtrip_ok s row.
Proof. exact roundtrip_refuted_l. Qed.

(* historical: the witnesses of the two repaired defects (F-C31-1 empty strings read as NULL,
   F-C31-2 Float4 written as 8 bytes) fit, are in no class, and round-trip *)
Example c31_fixed_witnesses :
  (fits_row [TText] [VText []] = true /\ known_class [TText] [VText []] = 0 /\
   build_fresh [TText] [VText []] = Ok [5; 0; 0; 0; 0] /\ extract [TText] [5; 0; 0; 0; 0] = Ok [VText []]) /\
  (fits_row [TFloat4; TInt8] [VFloat 4609434218613702656; VInt 3] = true /\
   build_fresh [TFloat4; TInt8] [VFloat 4609434218613702656; VInt 3]
     = Ok [3; 0; 0; 0; 0; 192; 63; 3; 0; 0; 0; 0; 0; 0; 0] /\
   extract [TFloat4; TInt8] [3; 0; 0; 0; 0; 192; 63; 3; 0; 0; 0; 0; 0; 0; 0]
     = Ok [VFloat 4609434218613702656; VInt 3]).
Proof. vm_compute. repeat split. Qed.

(* non-vacuity: a mixed schema and row meeting every hypothesis, the record it produces, and a
   reused builder (which first built a row that does not fit) producing the same bytes *)
Definition ex_s : schema := [TInt4; TText; TBool; TFloat8; TBlob; TInt2; TFloat4].
Definition ex_row : list value :=
  [VInt (-7); VText [104; 105]; VNull; VFloat 4609434218613702656; VBlob [1; 2; 3]; VNull;
   VFloat 13832806255468478464 (* -1.5 *)].
Definition ex_bytes : list Z :=
  [7; 0; 36; 2; 0; 5; 0; 249; 255; 255; 255; 0; 0; 0; 0; 0; 0; 0; 248; 63; 0; 0; 0; 0; 192; 191;
   104; 105; 1; 2; 3].
Example c31_witness :
  schema_ok ex_s = true /\ fits_row ex_s ex_row = true /\ known_class ex_s ex_row = 0 /\
  build_fresh ex_s ex_row = Ok ex_bytes /\ extract ex_s ex_bytes = Ok ex_row /\
  blen ex_bytes = 2 + 1 + 2 * 2 + 19 + 5.
Proof. vm_compute. repeat split. Qed.
Example c31_witness_reuse :
  exists st0 st1 r, fresh ex_s = Ok st0 /\
    build_record_into_buffer ex_s st0 [VInt 1; VInt 5] = (Some st1, r) /\
    reachable ex_s st1 /\ snd (build_record_into_buffer ex_s st1 ex_row) = Ok ex_bytes.
Proof.
  destruct (fresh ex_s) as [st0| |] eqn:F; try (vm_compute in F; discriminate F).
  destruct (build_record_into_buffer ex_s st0 [VInt 1; VInt 5]) as [[st1|] r] eqn:B.
  - exists st0, st1, r. split; [reflexivity|]. split; [exact B|].
    assert (R : reachable ex_s st1) by (eapply R_step; [apply R_fresh; exact F | exact B]).
    split; [exact R|]. rewrite (reuse_equals_fresh_l _ _ _ R). vm_compute. reflexivity.
  - exfalso. vm_compute in F. inversion F; subst st0. vm_compute in B. discriminate B.
Qed.

Check record_roundtrip :
  forall s row, schema_ok s = true -> fits_row s row = true -> known_class s row = 0 ->
    exists bytes, build_fresh s row = Ok bytes /\ extract s bytes = Ok row.
Check schema_ok_upto_64 : forall s, (length s <= 64)%nat -> schema_ok s = true.
Check record_null_roundtrip :
  forall s, schema_ok s = true ->
    exists bytes, build_fresh s (repeat VNull (length s)) = Ok bytes /\
                  extract s bytes = Ok (repeat VNull (length s)).
Check reuse_equals_fresh :
  forall s st row, reachable s st -> snd (build_record_into_buffer s st row) = build_fresh s row.
Check reset_idempotent :
  forall s st, reachable s st -> reset s st = fresh s.
Check record_size_formula :
  forall s row bytes, schema_ok s = true -> fits_row s row = true ->
    build_fresh s row = Ok bytes ->
    blen bytes = 2 + bitmap_size (ncols s) + 2 * nvar s + total_fixed s + total_var s row.
Check record_roundtrip_refuted :
  exists s row, schema_ok s = true /\ fits_row s row = true /\ known_class s row = 3 /\ ~ roundtrip_ok s row.

Print Assumptions record_roundtrip.
Print Assumptions schema_ok_upto_64.
Print Assumptions record_null_roundtrip.
Print Assumptions reuse_equals_fresh.
Print Assumptions reset_idempotent.
Print Assumptions record_size_formula.
Print Assumptions record_roundtrip_refuted.
