(* C32 proofs, text side, part 2: parse_json on every rendering of a JSON document (without
   surrogate-pair escapes) returns the value the document denotes. *)
From Coq Require Import ZArith List Bool Lia ZifyBool.
From TV Require Import Lib.MachInt Lib.MachIntFacts Model.Jsonb Model.JsonText Model.JsonGrammar Proof.JsonTextStr.
Import ListNotations.
Open Scope Z_scope.

Section DjInd.
  Variable P : dj -> Prop.
  Hypothesis HNull : P DNull.
  Hypothesis HBool : forall b, P (DBool b).
  Hypothesis HNum : forall t x, P (DNum t x).
  Hypothesis HStr : forall s, P (DStr s).
  Hypothesis HWs : forall pre v post, P v -> P (DWs pre v post).
  Hypothesis HArr : forall w els, Forall P els -> P (DArr w els).
  Hypothesis HObj : forall w ms, Forall (fun m => P (snd m)) ms -> P (DObj w ms).
  Fixpoint dj_ind2 (d : dj) : P d :=
    match d with
    | DNull => HNull
    | DBool b => HBool b
    | DNum t x => HNum t x
    | DStr s => HStr s
    | DWs pre v post => HWs pre v post (dj_ind2 v)
    | DArr w els => HArr w els ((fix go (l : list dj) : Forall P l :=
                                   match l with [] => Forall_nil _ | x :: t => Forall_cons x (dj_ind2 x) (go t) end) els)
    | DObj w ms => HObj w ms ((fix go (l : list (list Z * list dchar * list Z * dj)) : Forall (fun m => P (snd m)) l :=
                                 match l with [] => Forall_nil _ | m :: t => Forall_cons m (dj_ind2 (snd m)) (go t) end) ms)
    end.
End DjInd.

Section Parse.
  Variable num_of : list Z -> res Z.
  Notation ok := (dj_ok num_of).
  Notation pv := (parse_value num_of).
  Notation pa := (parse_array num_of).
  Notation po := (parse_object num_of).
  Notation nt := (next_token num_of).

  Lemma trail_ws d : ok d = true -> all_ws (trail d) = true.
  Proof.
    induction d as [| | | |pre v post IHd|w els IH|w ms IH] using dj_ind2; intros Hok; try reflexivity.
    cbn [dj_ok] in Hok. apply andb_true_iff in Hok. destruct Hok as [Hok Hpost]. apply andb_true_iff in Hok. destruct Hok as [Hpre Hv].
    cbn [trail]. unfold all_ws in *. rewrite forallb_app, (IHd Hv), Hpost. reflexivity.
  Qed.


  (* one unfolding of each of the three mutually recursive functions *)
  Lemma pv_S f l : pv (S f) l =
    bind (nt l) (fun t =>
      match t with
      | Some (TNull, r) => Ok (JNull, r)
      | Some (TBool b, r) => Ok (JBool b, r)
      | Some (TNum x, r) => Ok (JNum x, r)
      | Some (TStr s, r) => Ok (JStr s, r)
      | Some (TArrS, r) => rmap (fun p => (JArr (fst p), snd p)) (pa f r)
      | Some (TObjS, r) => rmap (fun p => (JObj (fst p), snd p)) (po f r)
      | Some (_, _) => Err
      | None => Err
      end).
  Proof. reflexivity. Qed.

  Lemma pa_S f l : pa (S f) l =
    bind (nt l) (fun t =>
      let push (v : json) (r : list Z) := rmap (fun p => (v :: fst p, snd p)) (pa f r) in
      match t with
      | Some (TArrE, r) => Ok ([], r)
      | Some (TComma, r) => pa f r
      | Some (TNull, r) => push JNull r
      | Some (TBool b, r) => push (JBool b) r
      | Some (TNum x, r) => push (JNum x) r
      | Some (TStr s, r) => push (JStr s) r
      | Some (TArrS, r) => bind (pa f r) (fun p => push (JArr (fst p)) (snd p))
      | Some (TObjS, r) => bind (po f r) (fun p => push (JObj (fst p)) (snd p))
      | Some (_, _) => Err
      | None => Err
      end).
  Proof. reflexivity. Qed.

  Lemma po_S f l : po (S f) l =
    bind (nt l) (fun t =>
      match t with
      | Some (TObjE, r) => Ok ([], r)
      | Some (TComma, r) => po f r
      | Some (TStr k, r) =>
          bind (nt r) (fun t2 =>
          match t2 with
          | Some (TColon, r2) =>
              bind (pv f r2) (fun p => rmap (fun q => ((k, fst p) :: fst q, snd q)) (po f (snd p)))
          | _ => Err
          end)
      | Some (_, _) => Err
      | None => Err
      end).
  Proof. reflexivity. Qed.


  Lemma render_pos d : ok d = true -> (1 <= length (render d))%nat.
  Proof.
    induction d as [| b | t x | s |pre v post IHd|w els IH|w ms IH] using dj_ind2; intros Hok; cbn [render].
    - cbn; lia.
    - destruct b; cbn; lia.
    - cbn [dj_ok] in Hok. destruct t; [discriminate|]. cbn [length]. lia.
    - unfold render_str. cbn [length]. lia.
    - cbn [dj_ok] in Hok. apply andb_true_iff in Hok. destruct Hok as [Hok _]. apply andb_true_iff in Hok.
      destruct Hok as [_ Hv]. specialize (IHd Hv). rewrite !app_length. lia.
    - cbn [length]. lia.
    - cbn [length]. lia.
  Qed.

  Lemma pv_ws f pre l : all_ws pre = true -> pv f (pre ++ l) = pv f l.
  Proof. intros H. destruct f; [reflexivity|]. rewrite !pv_S. rewrite next_token_ws by exact H. reflexivity. Qed.
  Lemma pa_ws f pre l : all_ws pre = true -> pa f (pre ++ l) = pa f l.
  Proof. intros H. destruct f; [reflexivity|]. rewrite !pa_S. rewrite next_token_ws by exact H. reflexivity. Qed.
  Lemma po_ws f pre l : all_ws pre = true -> po f (pre ++ l) = po f l.
  Proof. intros H. destruct f; [reflexivity|]. rewrite !po_S. rewrite next_token_ws by exact H. reflexivity. Qed.

  (* parse_array treats the first token of an element exactly as parse_value does *)
  Lemma array_step f l v r :
    pv (S f) l = Ok (v, r) -> pa (S f) l = rmap (fun p => (v :: fst p, snd p)) (pa f r).
  Proof.
    rewrite pv_S, pa_S. destruct (nt l) as [[[t r0]|]| | |]; cbn [bind]; try discriminate.
    destruct t; try discriminate; intros H.
    - unfold rmap in H. destruct (po f r0) as [[ms r1]| | |]; cbn [bind fst snd] in *; try discriminate.
      inversion H; subst. reflexivity.
    - unfold rmap in H. destruct (pa f r0) as [[es r1]| | |]; cbn [bind fst snd] in *; try discriminate.
      inversion H; subst. reflexivity.
    - inversion H; subst. reflexivity.
    - inversion H; subst. reflexivity.
    - inversion H; subst. reflexivity.
    - inversion H; subst. reflexivity.
  Qed.

  Definition PV (d : dj) : Prop := forall f rest,
    ok d = true -> stop rest = true -> lt (length (render d ++ rest)) f ->
    pv f (render d ++ rest) = Ok (erase d, trail d ++ rest).

  Lemma nt_close_arr t rest : all_ws t = true -> nt (t ++ 93 :: rest) = Ok (Some (TArrE, rest)).
  Proof. intros H. rewrite next_token_ws by exact H. reflexivity. Qed.
  Lemma nt_close_obj t rest : all_ws t = true -> nt (t ++ 125 :: rest) = Ok (Some (TObjE, rest)).
  Proof. intros H. rewrite next_token_ws by exact H. reflexivity. Qed.
  Lemma nt_comma t rest : all_ws t = true -> nt (t ++ 44 :: rest) = Ok (Some (TComma, rest)).
  Proof. intros H. rewrite next_token_ws by exact H. reflexivity. Qed.
  Lemma nt_colon t rest : all_ws t = true -> nt (t ++ 58 :: rest) = Ok (Some (TColon, rest)).
  Proof. intros H. rewrite next_token_ws by exact H. reflexivity. Qed.

  (* the elements of a non-empty array, up to and including the closing bracket *)
  Lemma elements_ok : forall els, Forall PV els -> els <> [] -> forall f rest,
    forallb ok els = true -> lt (length (join 44 (map render els) ++ 93 :: rest)) f ->
    pa f (join 44 (map render els) ++ 93 :: rest) = Ok (map erase els, rest).
  Proof.
    induction els as [|e t IH]; intros Hall Hne f rest Hok Hf; [congruence|].
    inversion Hall as [|? ? He Ht]; subst. cbn [forallb] in Hok. apply andb_true_iff in Hok. destruct Hok as [Hoe Hot].
    destruct f as [|f]; [lia|].
    destruct t as [|e2 t'].
    - (* last element *)
      cbn [map join] in *.
      rewrite (array_step f _ (erase e) (trail e ++ 93 :: rest)).
      + destruct f as [|f]; [rewrite app_length in Hf; cbn [length] in Hf; lia|].
        rewrite pa_S. rewrite nt_close_arr by (apply trail_ws; exact Hoe). reflexivity.
      + apply He; [exact Hoe|reflexivity|exact Hf].
    - (* an element followed by a comma *)
      change (join 44 (map render (e :: e2 :: t'))) with (render e ++ 44 :: join 44 (map render (e2 :: t'))) in *.
      rewrite <- app_assoc in *. cbn [app] in *.
      rewrite (array_step f _ (erase e) (trail e ++ 44 :: join 44 (map render (e2 :: t')) ++ 93 :: rest)).
      + rewrite !app_length in Hf. cbn [length] in Hf.
        destruct f as [|f]; [lia|].
        rewrite pa_S. rewrite nt_comma by (apply trail_ws; exact Hoe). cbn [bind].
        pose proof (render_pos e Hoe).
        rewrite IH; [reflexivity|exact Ht|congruence|exact Hot|]. lia.
      + apply He; [exact Hoe|reflexivity|]. rewrite !app_length in *. cbn [length] in *. lia.
  Qed.

  Definition rm (m : list Z * list dchar * list Z * dj) : list Z :=
    match m with (w1, k, w2, v) => w1 ++ render_str k ++ w2 ++ 58 :: render v end.
  Definition em (m : list Z * list dchar * list Z * dj) : list Z * json :=
    match m with (_, k, _, v) => (str_value k, erase v) end.
  Definition mok (m : list Z * list dchar * list Z * dj) : bool :=
    match m with (w1, k, w2, v) => all_ws w1 && str_ok k && all_ws w2 && ok v end.

  Lemma members_ok : forall ms, Forall (fun m => PV (snd m)) ms -> ms <> [] -> forall f rest,
    forallb mok ms = true -> lt (length (join 44 (map rm ms) ++ 125 :: rest)) f ->
    po f (join 44 (map rm ms) ++ 125 :: rest) = Ok (map em ms, rest).
  Proof.
    induction ms as [|m t IH]; intros Hall Hne f rest Hok Hf; [congruence|].
    inversion Hall as [|? ? Hm Ht]; subst. cbn [forallb] in Hok. apply andb_true_iff in Hok. destruct Hok as [Hom Hot].
    destruct m as [[[w1 k] w2] v]. cbn [snd] in Hm. cbn [mok] in Hom.
    apply andb_true_iff in Hom. destruct Hom as [Hom Hov]. apply andb_true_iff in Hom. destruct Hom as [Hom Hw2].
    apply andb_true_iff in Hom. destruct Hom as [Hw1 Hk].
    pose proof (render_pos v Hov) as Hrp.
    (* shape of the input: w1 "k" w2 : v more *)
    assert (Hshape : forall more, (rm (w1, k, w2, v)) ++ more = w1 ++ render_str k ++ w2 ++ 58 :: render v ++ more).
    { intros more. cbn [rm]. repeat (rewrite <- app_assoc; cbn [app]). reflexivity. }
    assert (Hstep : forall g more, stop more = true -> lt (length (render v ++ more)) g ->
              po (S g) (w1 ++ render_str k ++ w2 ++ 58 :: render v ++ more) =
              bind (po g (trail v ++ more)) (fun q => Ok ((str_value k, erase v) :: fst q, snd q))).
    { intros g more Hs Hg. rewrite po_ws by exact Hw1. rewrite po_S.
      rewrite next_token_str by exact Hk. cbn [bind].
      rewrite nt_colon by exact Hw2. cbn [bind].
      rewrite (Hm g more Hov Hs Hg). cbn [bind fst snd]. reflexivity. }
    destruct f as [|f]; [lia|].
    destruct t as [|m2 t'].
    - cbn [map join] in *. rewrite Hshape in *.
      rewrite (Hstep f (125 :: rest) eq_refl) by (rewrite !app_length in Hf; cbn [length] in Hf; rewrite !app_length in *; cbn [length] in *; lia).
      destruct f as [|f]; [rewrite !app_length in Hf; cbn [length] in Hf; rewrite !app_length in Hf; cbn [length] in Hf; lia|].
      rewrite po_S. rewrite nt_close_obj by (apply trail_ws; exact Hov). reflexivity.
    - change (join 44 (map rm ((w1, k, w2, v) :: m2 :: t'))) with (rm (w1, k, w2, v) ++ 44 :: join 44 (map rm (m2 :: t'))) in *.
      rewrite <- app_assoc in *. rewrite Hshape in *. cbn [app] in *.
      set (tl := join 44 (map rm (m2 :: t')) ++ 125 :: rest) in *.
      assert (HL : (length (render v) + S (length tl) < f)%nat).
      { rewrite !app_length in Hf. cbn [length] in Hf. rewrite !app_length in Hf. cbn [length] in Hf.
        rewrite ?app_length in Hf. cbn [length] in Hf. lia. }
      rewrite (Hstep f (44 :: tl) eq_refl) by (rewrite app_length; cbn [length]; lia).
      destruct f as [|f]; [lia|].
      rewrite po_S. rewrite nt_comma by (apply trail_ws; exact Hov). cbn [bind].
      subst tl. rewrite IH; [reflexivity|exact Ht|congruence|exact Hot|]. lia.
  Qed.

  Lemma join_nonempty_ne {A} (x : A) l : x :: l <> [].
  Proof. congruence. Qed.

  Theorem parse_value_ok : forall d, PV d.
  Proof.
    induction d as [| b | t x | s |pre v post IHd|w els IH|w ms IH] using dj_ind2; intros f rest Hok Hs Hf;
      (destruct f as [|f]; [inversion Hf|]).
    - cbn [render erase trail app]. rewrite pv_S. reflexivity.
    - cbn [render erase trail]. rewrite pv_S. destruct b; reflexivity.
    - cbn [render erase trail dj_ok] in *. rewrite pv_S. rewrite (next_token_num num_of t x rest Hok Hs). reflexivity.
    - cbn [render erase trail dj_ok] in *. rewrite pv_S. rewrite next_token_str by exact Hok. reflexivity.
    - cbn [render erase trail dj_ok] in *.
      apply andb_true_iff in Hok. destruct Hok as [Hok Hpost]. apply andb_true_iff in Hok. destruct Hok as [Hpre Hv].
      rewrite <- !app_assoc in *. rewrite pv_ws by exact Hpre.
      rewrite (IHd (S f) (post ++ rest) Hv (stop_ws num_of post rest Hpost Hs)).
      + reflexivity.
      + rewrite !app_length in *. lia.
    - cbn [render erase trail dj_ok] in *. apply andb_true_iff in Hok. destruct Hok as [Hw Hels].
      set (body := match els with [] => w | _ :: _ => join 44 (map render els) end) in *.
      replace ((91 :: body ++ [93]) ++ rest) with (91 :: body ++ 93 :: rest) in *
        by (cbn [app]; rewrite <- app_assoc; reflexivity).
      rewrite pv_S.
      replace (nt (91 :: body ++ 93 :: rest)) with (@Ok (option (token * list Z)) (Some (TArrS, body ++ 93 :: rest))) by reflexivity.
      cbn [bind app]. cbn [length] in Hf. subst body.
      destruct els as [|e t].
      + destruct f as [|f]; [rewrite app_length in Hf; cbn [length] in Hf; lia|].
        rewrite pa_S. rewrite nt_close_arr by exact Hw. reflexivity.
      + rewrite (elements_ok (e :: t) IH (join_nonempty_ne e t) f rest Hels) by lia. reflexivity.
    - cbn [render erase trail dj_ok] in *. apply andb_true_iff in Hok. destruct Hok as [Hw Hms].
      change (map (fun m0 : list Z * list dchar * list Z * dj => let '(w1, k, w2, v) := m0 in w1 ++ render_str k ++ w2 ++ 58 :: render v) ms)
        with (map rm ms) in *.
      change (map (fun m0 : list Z * list dchar * list Z * dj => let '(_, k, _, v) := m0 in (str_value k, erase v)) ms) with (map em ms).
      set (body := match ms with [] => w | _ :: _ => join 44 (map rm ms) end) in *.
      replace ((123 :: body ++ [125]) ++ rest) with (123 :: body ++ 125 :: rest) in *
        by (cbn [app]; rewrite <- app_assoc; reflexivity).
      rewrite pv_S.
      replace (nt (123 :: body ++ 125 :: rest)) with (@Ok (option (token * list Z)) (Some (TObjS, body ++ 125 :: rest))) by reflexivity.
      cbn [bind app]. cbn [length] in Hf. subst body.
      destruct ms as [|m t].
      + destruct f as [|f]; [rewrite app_length in Hf; cbn [length] in Hf; lia|].
        rewrite po_S. rewrite nt_close_obj by exact Hw. reflexivity.
      + rewrite (members_ok (m :: t) IH (join_nonempty_ne m t) f rest Hms) by lia. reflexivity.
  Qed.
End Parse.

Theorem parse_json_ok_l : forall (num_of : list Z -> res Z) d,
  dj_ok num_of d = true ->
  parse_json num_of (render d) = Ok (erase d, blen (render d) - blen (trail d)) /\ all_ws (trail d) = true.
Proof.
  intros num_of d Hok. split; [|apply (trail_ws num_of); exact Hok].
  unfold parse_json.
  pose proof (parse_value_ok num_of d (S (length (render d))) [] Hok eq_refl) as H.
  rewrite !app_nil_r in H. rewrite H by lia. reflexivity.
Qed.

(* an escaped surrogate pair is read as the one character it stands for (was F-C32-2, fixed in 456f370);
   an unpaired surrogate escape is rejected *)
Lemma parse_json_pair_l : forall (num_of : list Z -> res Z),
  let d := DStr [CPair 100 56 51 100 100 101 48 48] in
  dj_ok num_of d = true /\ render d = [34; 92; 117; 100; 56; 51; 100; 92; 117; 100; 101; 48; 48; 34] /\
  parse_json num_of (render d) = Ok (JStr [240; 159; 152; 128], 14) /\
  parse_json num_of [34; 92; 117; 100; 56; 48; 48; 34] = Err /\
  parse_json num_of [34; 92; 117; 100; 56; 48; 48; 92; 117; 48; 48; 52; 49; 34] = Err /\
  parse_json num_of [34; 92; 117; 100; 99; 48; 48; 34] = Err.
Proof. intros num_of. repeat split; reflexivity. Qed.
