(* C18 reference semantics: subqueries (IN / NOT IN / EXISTS / NOT EXISTS / scalar, correlated or
   not, in WHERE, in the select list and in FROM) and the set operations UNION / INTERSECT /
   EXCEPT [ALL].  Definitions only (laws in Proof/SetOpsBag.v, Proof/SubqLaws.v).  Extends the
   shared Model/SqlSpec.v; independent of TurDB's code (the implementation models are
   Model/SetOpsImpl.v and Model/SubqImpl.v).

   * A database is a list of tables (positional); a query level sees the row of its own FROM
     source and, by correlation, the rows of the enclosing levels: the environment `env` is the
     stack of those rows, innermost first.  `XCol lvl i` is column i of the row `lvl` levels up.
     The flag `qual` of a column reference only says how the reference is WRITTEN in the SQL text
     (alias-qualified or bare); it has no meaning for the reference semantics.
   * `res`: ROk v = the value SQL defines; RUndef = the reference does not say (type mismatch,
     overflow, column outside the row, rows of different width under a set operation ...: no
     demand); RErr = SQL demands an error (a scalar subquery with more than one row).  RUndef
     dominates RErr; FALSE AND <error> / TRUE OR <error> are RUndef (SQL leaves it to the
     implementation whether the second operand is evaluated).
   * x IN (Q): TRUE if some row of Q equals x, else UNKNOWN if x is NULL and Q is not empty or
     some row of Q is NULL, else FALSE  (= the Kleene OR of x = y over the rows y of Q).
   * EXISTS (Q): TRUE iff Q has a row; never UNKNOWN.
   * scalar (Q): NULL for no row, the value for one row, an error for more.
   * set operations are defined by MULTIPLICITIES (spec_mult): UNION ALL adds, INTERSECT ALL takes
     the minimum, EXCEPT ALL the truncated difference, and the plain forms cap the result at one.
     Two rows are the same row iff they are equal position by position, NULL being the same as
     NULL (SQL's IS NOT DISTINCT FROM); spec_op builds one table with those multiplicities.  A
     chain  q1 op q2 op q3 ...  without parentheses associates to the LEFT, INTERSECT binding
     tighter than UNION / EXCEPT (parse_std). *)
From Coq Require Import ZArith List Bool Arith.
From TV Require Import Model.SqlSpec.
Import ListNotations.
Open Scope Z_scope.

(* ------------------------------------------------------------------ outcomes *)
Inductive res (A : Type) := ROk (a : A) | RUndef | RErr.
Arguments ROk {A} a.
Arguments RUndef {A}.
Arguments RErr {A}.

Definition rbind {A B} (x : res A) (f : A -> res B) : res B :=
  match x with ROk a => f a | RUndef => RUndef | RErr => RErr end.
(* both operands are evaluated; no demand dominates an error *)
Definition rmap2 {A B C} (f : A -> B -> res C) (x : res A) (y : res B) : res C :=
  match x, y with
  | RUndef, _ | _, RUndef => RUndef
  | RErr, _ | _, RErr => RErr
  | ROk a, ROk b => f a b
  end.
Definition of_opt {A} (o : option A) : res A := match o with Some a => ROk a | None => RUndef end.

(* ------------------------------------------------------------------ syntax *)
Inductive setk := KUnion | KIntersect | KExcept.

Inductive sx :=
| XCol (lvl i : nat) (qual : bool)
| XLit (v : value)
| XArith (op : arith) (a b : sx)
| XCmp (op : cmpop) (a b : sx)
| XAnd (a b : sx)
| XOr (a b : sx)
| XNot (a : sx)
| XIsNull (neg : bool) (a : sx)
| XIn (neg : bool) (a : sx) (q : qry)          (* a [NOT] IN (q); q has one output column *)
| XExists (neg : bool) (q : qry)               (* [NOT] EXISTS (q) *)
| XScalar (q : qry)                            (* (q) used as a value *)
with qry :=
| QSel (items : list sx) (s : src) (w : option sx)   (* SELECT items FROM s [WHERE w] *)
| QSet (k : setk) (all : bool) (l r : qry)
with src :=
| SBase (k : nat)                              (* the k-th table of the database *)
| SSub (q : qry).                              (* (q) AS alias *)

(* ------------------------------------------------------------------ rows as bags *)
Fixpoint srow_eqb (a b : row) : bool :=
  match a, b with
  | [], [] => true
  | x :: a', y :: b' => value_eqb x y && srow_eqb a' b'
  | _, _ => false
  end.
Fixpoint mult (r : row) (t : table) : nat :=
  match t with
  | [] => O
  | x :: t' => ((if srow_eqb r x then 1 else 0) + mult r t')%nat
  end.
Definition mem_row (r : row) (t : table) : bool := existsb (srow_eqb r) t.
(* first occurrences *)
Fixpoint dedup_from (seen : table) (t : table) : table :=
  match t with
  | [] => []
  | r :: t' => if mem_row r seen then dedup_from seen t' else r :: dedup_from (r :: seen) t'
  end.
Definition dedup (t : table) : table := dedup_from [] t.

(* multiplicity of a row in `l op r` from its multiplicities a in l and b in r *)
Definition spec_mult (k : setk) (all : bool) (a b : nat) : nat :=
  match k, all with
  | KUnion, true => (a + b)%nat
  | KUnion, false => Nat.min 1 (a + b)
  | KIntersect, true => Nat.min a b
  | KIntersect, false => Nat.min 1 (Nat.min a b)
  | KExcept, true => (a - b)%nat
  | KExcept, false => if (b =? 0)%nat then Nat.min 1 a else O
  end.
(* a table with exactly those multiplicities *)
Definition spec_op (k : setk) (all : bool) (l r : table) : table :=
  flat_map (fun x => repeat x (spec_mult k all (mult x l) (mult x r))) (dedup (l ++ r)).
(* equality of bags, decided on the rows that occur *)
Definition bag_eqb (a b : table) : bool :=
  forallb (fun r => (mult r a =? mult r b)%nat) (a ++ b).

(* the operands of a set operation must have rows of one width, and per column one kind of
   non-NULL value (all integers / all text / all doubles); doubles must not be zeros or NaN
   (-0.0 and 0.0 are the same SQL value but different bit patterns).  Outside: no demand. *)
Definition vkind (v : value) : Z :=
  match v with VNull => 0 | VInt _ => 1 | VFloat _ => 2 | VText _ => 3 | VBool _ => 4 end.
Definition val_plain (v : value) : bool :=
  match v with
  | VFloat b => f_finite b && negb (b mod 2 ^ 63 =? 0)
  | VBool _ => false
  | _ => true
  end.
Definition kinds_ok (k1 k2 : Z) : bool := (k1 =? 0) || (k2 =? 0) || (k1 =? k2).
Fixpoint row_kinds_ok (a b : row) : bool :=
  match a, b with
  | [], [] => true
  | x :: a', y :: b' => kinds_ok (vkind x) (vkind y) && row_kinds_ok a' b'
  | _, _ => false
  end.
Definition all_pairs_ok (t : table) : bool :=
  forallb (fun a => forallb (row_kinds_ok a) t) t.
Definition setop_defined (l r : table) : bool :=
  forallb (forallb val_plain) (l ++ r) && all_pairs_ok (l ++ r).

(* ------------------------------------------------------------------ three-valued helpers *)
Definition rtv (x : res value) : res tv :=
  rbind x (fun v => of_opt (tv_of_value v)).
Definition rval (t : res tv) : res value := rbind t (fun x => ROk (value_of_tv x)).
(* AND / OR with the rule for an error under a deciding operand *)
Definition and_res (a b : res tv) : res tv :=
  match a, b with
  | RUndef, _ | _, RUndef => RUndef
  | ROk FF, RErr | RErr, ROk FF => RUndef
  | RErr, _ | _, RErr => RErr
  | ROk x, ROk y => ROk (tv_and x y)
  end.
Definition or_res (a b : res tv) : res tv :=
  match a, b with
  | RUndef, _ | _, RUndef => RUndef
  | ROk TT, RErr | RErr, ROk TT => RUndef
  | RErr, _ | _, RErr => RErr
  | ROk x, ROk y => ROk (tv_or x y)
  end.

(* x IN (the values ys): Kleene OR of x = y *)
Fixpoint in_vals (x : value) (ys : list value) : option tv :=
  match ys with
  | [] => Some FF
  | y :: ys' => opt_tv_or (cmp3 CEq x y) (in_vals x ys')
  end.
(* first column of every row; a row without columns is outside the reference *)
Fixpoint first_col (t : table) : option (list value) :=
  match t with
  | [] => Some []
  | [] :: _ => None
  | (v :: _) :: t' => option_map (cons v) (first_col t')
  end.
Definition in_rows (neg : bool) (x : value) (t : table) : res value :=
  match first_col t with
  | None => RUndef
  | Some ys => of_opt (ret_tv (opt_tv_neg neg (in_vals x ys)))
  end.
Definition scalar_rows (t : table) : res value :=
  match t with
  | [] => ROk VNull
  | [v :: _] => ROk v
  | [[]] => RUndef
  | _ :: _ :: _ => RErr
  end.
Definition is_nil {X} (l : list X) : bool := match l with [] => true | _ => false end.

(* does the row pass the filter: the predicate must be TRUE *)
Definition pass_res (t : res tv) : res bool := rbind t (fun x => ROk (tv_is_true x)).

(* ------------------------------------------------------------------ the evaluator *)
Section Eval.
  Variable db : list table.

  Fixpoint xeval (env : list row) (e : sx) {struct e} : res value :=
    match e with
    | XCol l i _ =>
        match nth_error env l with
        | Some r => of_opt (nth_error r i)
        | None => RUndef
        end
    | XLit v => ROk v
    | XArith op a b => rmap2 (fun x y => of_opt (arith_values op x y)) (xeval env a) (xeval env b)
    | XCmp op a b => rmap2 (fun x y => of_opt (ret_tv (cmp3 op x y))) (xeval env a) (xeval env b)
    | XAnd a b => rval (and_res (rtv (xeval env a)) (rtv (xeval env b)))
    | XOr a b => rval (or_res (rtv (xeval env a)) (rtv (xeval env b)))
    | XNot a => rval (rbind (rtv (xeval env a)) (fun x => ROk (tv_not x)))
    | XIsNull neg a =>
        rbind (xeval env a) (fun v => match v with VNull => ROk (VBool (negb neg)) | _ => ROk (VBool neg) end)
    | XIn neg a q => rmap2 (in_rows neg) (xeval env a) (qeval env q)
    | XExists neg q => rbind (qeval env q) (fun t => ROk (VBool (xorb neg (negb (is_nil t)))))
    | XScalar q => rbind (qeval env q) scalar_rows
    end
  with qeval (env : list row) (q : qry) {struct q} : res table :=
    match q with
    | QSel items s w =>
        rbind (seval env s) (fun rows =>
          (fix go (rows : table) : res table :=
             match rows with
             | [] => ROk []
             | r :: rest =>
                 let keep := match w with
                             | None => ROk true
                             | Some p => pass_res (rtv (xeval (r :: env) p))
                             end in
                 let out := (fix sel (l : list sx) : res row :=
                               match l with
                               | [] => ROk []
                               | it :: l' => rmap2 (fun v vs => ROk (v :: vs)) (xeval (r :: env) it) (sel l')
                               end) items in
                 rmap2 (fun k tl => if k : bool then rbind out (fun o => ROk (o :: tl)) else ROk tl)
                       keep (go rest)
             end) rows)
    | QSet k all l r =>
        rmap2 (fun a b => if setop_defined a b then ROk (spec_op k all a b) else RUndef)
              (qeval env l) (qeval env r)
    end
  with seval (env : list row) (s : src) {struct s} : res table :=
    match s with
    | SBase k => of_opt (nth_error db k)
    | SSub q => qeval env q
    end.
End Eval.

(* ------------------------------------------------------------------ eager evaluation of uncorrelated scalar subqueries *)
(* SQL raises the cardinality error when a scalar subquery is EVALUATED.  An engine may evaluate
   an uncorrelated scalar subquery of the WHERE clause once, before the first row, and so raise
   the error even when no row would have needed the value (empty outer table, a deciding AND /
   OR operand): where the row-by-row semantics above defines rows, such an error is accepted as
   well (Corr/C18.v spec_ok).  `eager_error` = some scalar subquery at the own level of the
   statement's WHERE has, evaluated on its own, more than one row. *)
Fixpoint own_scalars (e : sx) : list qry :=
  match e with
  | XCol _ _ _ | XLit _ => []
  | XArith _ a b | XCmp _ a b | XAnd a b | XOr a b => own_scalars a ++ own_scalars b
  | XNot a | XIsNull _ a => own_scalars a
  | XIn _ a _ => own_scalars a
  | XExists _ _ => []
  | XScalar q => [q]
  end.
Definition eager_error (db : list table) (q : qry) : bool :=
  match q with
  | QSel _ _ (Some p) =>
      existsb (fun sq => match qeval db [] sq with ROk (_ :: _ :: _) => true | _ => false end) (own_scalars p)
  | _ => false
  end.

(* ------------------------------------------------------------------ chains of set operations *)
(* q0 op1 q1 op2 q2 ... as written, without parentheses; generic in the kind of leaf so that the
   two readings of a chain can be compared on leaf NUMBERS (Model/SubqClass.v) *)
Definition gchain (A : Type) := (A * list (setk * bool * A))%type.
Definition chain := gchain qry.
Inductive stree (A : Type) := TLeaf (a : A) | TNode (k : setk) (all : bool) (l r : stree A).
Arguments TLeaf {A} a.
Arguments TNode {A} k all l r.

Fixpoint qry_of_tree (t : stree qry) : qry :=
  match t with
  | TLeaf q => q
  | TNode k all l r => QSet k all (qry_of_tree l) (qry_of_tree r)
  end.

Section Parse.
  Variable A : Type.
  (* the standard reading: INTERSECT first, then UNION / EXCEPT from the left *)
  Fixpoint take_intersects (acc : stree A) (l : list (setk * bool * A)) : stree A * list (setk * bool * A) :=
    match l with
    | (KIntersect, all, q) :: l' => take_intersects (TNode KIntersect all acc (TLeaf q)) l'
    | _ => (acc, l)
    end.
  (* fuel = length of the list; every step consumes at least one element *)
  Fixpoint parse_std_from (fuel : nat) (acc : stree A) (l : list (setk * bool * A)) : stree A :=
    match fuel with
    | O => acc
    | S f =>
        match l with
        | [] => acc
        | (KIntersect, all, q) :: l' => parse_std_from f (TNode KIntersect all acc (TLeaf q)) l'
        | (k, all, q) :: l' =>
            let '(rhs, rest) := take_intersects (TLeaf q) l' in
            parse_std_from f (TNode k all acc rhs) rest
        end
    end.
  Definition parse_std (c : gchain A) : stree A :=
    let '(q0, l) := c in
    let '(lhs, rest) := take_intersects (TLeaf q0) l in
    parse_std_from (length rest) lhs rest.
End Parse.
Arguments take_intersects {A}.
Arguments parse_std_from {A}.
Arguments parse_std {A}.

(* the query a chain denotes *)
Definition chain_qry (c : chain) : qry := qry_of_tree (parse_std c).
