(* C13 - Bound parameters behave like the equivalent literals.
   Property theorems only (proofs: Proof/ParamSubstLex.v, ParamSubstLit.v, ParamSubstLocal.v, ParamSubstStable.v), about the
   hand-written model Model/ParamSubst.v of the lexer, substitute_parameters,
   value_to_sql_literal and the parser's string unescape. *)
From Coq Require Import ZArith List Bool.
From TV Require Import Model.ParamSubst Proof.ParamSubstLex Proof.ParamSubstLit Proof.ParamSubstLocal Proof.ParamSubstStable.
Import ListNotations.
Open Scope Z_scope.

(* the token loop never runs out of fuel and the items are exactly the input, in order *)
Theorem lex_total :
  forall sql, exists items, lex sql = Some items /\ concat (map snd items) = sql.
Proof. exact lex_total_l. Qed.

(* ---- bound text is data *)
(* the string scanner stops exactly at the closing quote value_to_sql_literal wrote, and the
   parser's unescape gives the bound text back: for ALL texts *)
Theorem quote_unquote :
  forall s rest, starts_with 39 rest = false ->
    qsplit 39 (escape s ++ 39 :: rest) = Some (escape s, rest) /\ unescape (escape s) = s.
Proof. exact quote_unquote_l. Qed.

(* injection freedom: the lexer standing at a substituted text literal reads exactly that literal
   as ONE string token, whatever the text contains, and goes on with what followed the placeholder *)
Theorem bound_text_is_one_token :
  forall s rest f, starts_with 39 rest = false ->
    lex_loop (S f) (render (VText s) ++ rest) =
    option_map (cons (KStr, render (VText s))) (lex_loop f rest).
Proof. exact text_one_token_l. Qed.

Theorem text_literal_roundtrip : forall s, read_literal (render (VText s)) = LText s.
Proof. exact text_literal_l. Qed.

(* ---- only parameter tokens are substituted *)
(* a closed '...', "..." or `...` is one non-parameter item whatever it contains *)
Theorem quoted_is_opaque :
  forall q k l body rest f, quote_kind q k -> qsplit q l = Some (body, rest) ->
    lex_loop (S f) (q :: l) = option_map (cons (k, q :: body ++ [q])) (lex_loop f rest).
Proof. exact quoted_one_item_l. Qed.

(* an unterminated one swallows the rest of the statement (no placeholder after it is seen) *)
Theorem quoted_unterminated_is_opaque :
  forall q k l f, quote_kind q k -> qsplit q l = None ->
    lex_loop (S f) (q :: l) = Some [(KErr, q :: l)].
Proof. exact quoted_unterminated_l. Qed.

(* a `--` comment is one item up to (not including) the newline *)
Theorem line_comment_is_opaque :
  forall l f,
    let c := count_while not_newline l in
    lex_loop (S f) (45 :: 45 :: l) =
    option_map (cons (KCom, 45 :: 45 :: firstn c l)) (lex_loop f (skipn c l)).
Proof. exact line_comment_one_item_l. Qed.

(* a (nested) block comment is one item; an unterminated one swallows the rest *)
Theorem block_comment_is_opaque :
  forall l f,
    match blk O l with
    | Some n => lex_loop (S f) (47 :: 42 :: l) =
                option_map (cons (KCom, 47 :: 42 :: firstn n l)) (lex_loop f (skipn n l))
    | None => lex_loop (S f) (47 :: 42 :: l) = Some [(KErr, 47 :: 42 :: l)]
    end.
Proof. exact block_comment_opaque_l. Qed.

(* a parameter token can only start at  ?  $  :  @  *)
Theorem param_start :
  forall b r k n, scan b r = (k, n) -> is_param k = true -> b = 63 \/ b = 36 \/ b = 58 \/ b = 64.
Proof. exact param_start_l. Qed.

(* substitute_parameters copies every item that is not a parameter token verbatim *)
Theorem subst_only_params :
  forall k txt t ps i, is_param k = false ->
    subst_items ((k, txt) :: t) ps i = option_map (app txt) (subst_items t ps i).
Proof. exact subst_copies_nonparam_l. Qed.

(* ---- indexing *)
(* the k-th anonymous placeholder receives the k-th bound value *)
Theorem subst_anon_index :
  forall pre txt post ps out,
    subst_items (pre ++ (KAnon, txt) :: post) ps O = Some out ->
    exists o1 v o2,
      subst_items pre ps O = Some o1 /\
      nth_error ps (count_anon pre) = Some v /\
      subst_items post ps (S (count_anon pre)) = Some o2 /\
      out = o1 ++ emit v ++ o2.
Proof. exact anon_index_l. Qed.

(* $n receives the n-th bound value wherever it stands, and does not advance the anonymous counter *)
Theorem subst_positional_index :
  forall pre n txt post ps out,
    subst_items (pre ++ (KPos n, txt) :: post) ps O = Some out ->
    exists o1 v o2,
      subst_items pre ps O = Some o1 /\
      nth_error ps (Z.to_nat (n - 1)) = Some v /\
      subst_items post ps (count_anon pre) = Some o2 /\
      out = o1 ++ emit v ++ o2.
Proof. exact pos_index_l. Qed.

(* ---- the other literals *)
(* every i64 except i64::MIN is read back as itself ... *)
Theorem int_literal_roundtrip :
  forall z, i64_min < z <= i64_max -> read_literal (render (VInt z)) = LInt z.
Proof. exact int_literal_l. Qed.

(* ... and its literal is one Integer token (after one Minus token when negative) in any context
   that does not continue a number *)
Theorem int_literal_tokens :
  forall z rest f, i64_min <= z <= i64_max -> num_follow_ok rest = true ->
    lex_loop (S (S f)) (render (VInt z) ++ rest) =
    option_map (fun t => if z <? 0 then (KMinus, [45]) :: (KInt, show_nat (- z)) :: t
                         else (KInt, show_nat z) :: t)
               (lex_loop (if z <? 0 then f else S f) rest).
Proof. exact int_tokens_l. Qed.

(* a blob literal is one token whatever follows, and is read back as the blob *)
Theorem blob_is_one_token :
  forall b rest f, forallb byte_ok b = true ->
    lex_loop (S f) (render (VBlob b) ++ rest) =
    option_map (cons (KHex, render (VBlob b))) (lex_loop f rest).
Proof. exact blob_one_token_l. Qed.

(* every NULL / boolean / integer / text / blob value outside the recorded class (i64::MIN, which
   eval_literal cannot read) is read back from its literal as exactly the bound value *)
Theorem literal_roundtrip :
  forall v, val_ok v = true -> is_float v = false -> val_class v = 0 ->
    read_literal (render v) = lit_of v.
Proof. exact literal_roundtrip_l. Qed.

(* ---- substitution keeps the token structure of the whole statement *)
(* locality of the lexer: a token b :: T followed by the byte c is found again when the text behind c
   changes, provided c is a separator or the first byte behind c stays the same *)
Theorem scan_local :
  forall b T c X Y k, scan b (T ++ c :: X) = (k, length T) -> look2 c X Y ->
    scan b (T ++ c :: Y) = (k, length T).
Proof. exact scan_local_l. Qed.

(* If every placeholder stands as a token of its own (before it: start, whitespace, `(` or `,`;
   after it: end, whitespace, `)`, `,` or `;`), then for ALL statements -- whatever strings, comments,
   quoted identifiers, numbers and operators they contain -- and ALL NULL / boolean / integer / text /
   blob values, the lexer reads the substituted statement as the original token sequence with each
   placeholder replaced by the token(s) of its literal, and nothing else changed. *)
Theorem subst_keeps_tokens :
  forall sql ps items out,
    lex sql = Some items -> isolated true items = true -> forallb simple_val ps = true ->
    subst_items items ps O = Some out ->
    exists want, expand_items items ps O = Some want /\ lex out = Some want.
Proof. exact subst_keeps_tokens_l. Qed.

(* ... where the tokens of a literal are what the lexer makes of the written text alone (`emit v`:
   the literal, after one space when it starts with a minus sign) *)
Theorem literal_tokens :
  forall v, simple_val v = true -> lex (emit v) = Some (lit_items v).
Proof. exact lex_render. Qed.

(* so for such statements the model's own stability check (Corr: class 7, now without a recorded
   finding) can never fail *)
Theorem subst_stable_when_isolated :
  forall sql ps items out,
    lex sql = Some items -> isolated true items = true -> forallb simple_val ps = true ->
    subst_items items ps O = Some out -> subst_stable sql ps = true.
Proof. exact subst_stable_l. Qed.

(* ---- what the faithful model refutes (re-run on the real code on every check) *)
Theorem literal_roundtrip_refuted :
  exists v, val_ok v = true /\ is_float v = false /\ val_class v = 6 /\ read_literal (render v) <> lit_of v.
Proof. exact literal_roundtrip_refuted_l. Qed.

Theorem int_min_refuted : read_literal (render (VInt i64_min)) = LIntOverflow.
Proof. exact int_min_refuted_l. Qed.

(* since e081981 a negative number bound directly after a minus sign is kept apart from it
   (it used to fuse into a `--` comment: finding F-C13-7, fixed) *)
Theorem minus_kept_apart :
  subst [97; 45; 63] [VInt (-5)] = SOk [97; 45; 32; 45; 53] /\
  subst_stable [97; 45; 63] [VInt (-5)] = true /\
  lex [97; 45; 32; 45; 53] = Some [(KId, [97]); (KMinus, [45]); (KWs, [32]); (KMinus, [45]); (KInt, [53])].
Proof. exact minus_kept_apart_l. Qed.

(* non-vacuity: hostile text goes through; placeholders inside a string, a comment and a quoted
   identifier stay, the two real ones are replaced; the hypotheses of the theorems are met *)
Example c13_witness :
  (* SELECT '?', "?" /* ? */ ?, $1 -- ?      with  ["a';--"]  *)
  subst [83;69;76;69;67;84;32;39;63;39;44;32;34;63;34;32;47;42;32;63;32;42;47;32;63;44;32;36;49;32;45;45;32;63]
        [VText [97;39;59;45;45]]
  = SOk [83;69;76;69;67;84;32;39;63;39;44;32;34;63;34;32;47;42;32;63;32;42;47;32;
         39;97;39;39;59;45;45;39;44;32;39;97;39;39;59;45;45;39;32;45;45;32;63]
  /\ read_literal (render (VText [97;39;59;45;45])) = LText [97;39;59;45;45]
  /\ starts_with 39 [44; 32] = false /\ num_follow_ok [41] = true
  /\ quote_kind 39 KStr /\ qsplit 39 [63; 39; 32] = Some ([63], [32])
  /\ val_class (VInt (-9223372036854775807)) = 0
  /\ read_literal (render (VInt (-9223372036854775807))) = LInt (-9223372036854775807)
  /\ subst_stable [97; 45; 32; 63] [VInt (-5)] = true
  (* SELECT id, '?' FROM t /* ? */ WHERE s = ? AND a IN (?, ?) -- ?   is `isolated`;   a-?   is not *)
  /\ option_map (isolated true)
       (lex [83;69;76;69;67;84;32;105;100;44;32;39;63;39;32;70;82;79;77;32;116;32;47;42;32;63;32;42;47;32;
             87;72;69;82;69;32;115;32;61;32;63;32;65;78;68;32;97;32;73;78;32;40;63;44;32;63;41;32;45;45;32;63]) = Some true
  /\ option_map (isolated true) (lex [97; 45; 63]) = Some false
  /\ forallb simple_val [VText [39; 59; 45; 45]; VInt (-5); VNull; VBlob [0; 255]; VBool true] = true.
Proof. vm_compute. repeat split; try reflexivity. left. split; reflexivity. Qed.

Check lex_total : forall sql, exists items, lex sql = Some items /\ concat (map snd items) = sql.
Check quote_unquote : forall s rest, starts_with 39 rest = false ->
    qsplit 39 (escape s ++ 39 :: rest) = Some (escape s, rest) /\ unescape (escape s) = s.
Check bound_text_is_one_token : forall s rest f, starts_with 39 rest = false ->
    lex_loop (S f) (render (VText s) ++ rest) = option_map (cons (KStr, render (VText s))) (lex_loop f rest).
Check text_literal_roundtrip : forall s, read_literal (render (VText s)) = LText s.
Check quoted_is_opaque : forall q k l body rest f, quote_kind q k -> qsplit q l = Some (body, rest) ->
    lex_loop (S f) (q :: l) = option_map (cons (k, q :: body ++ [q])) (lex_loop f rest).
Check quoted_unterminated_is_opaque : forall q k l f, quote_kind q k -> qsplit q l = None ->
    lex_loop (S f) (q :: l) = Some [(KErr, q :: l)].
Check line_comment_is_opaque : forall l f, let c := count_while not_newline l in
    lex_loop (S f) (45 :: 45 :: l) = option_map (cons (KCom, 45 :: 45 :: firstn c l)) (lex_loop f (skipn c l)).
Check block_comment_is_opaque : forall l f,
    match blk O l with
    | Some n => lex_loop (S f) (47 :: 42 :: l) =
                option_map (cons (KCom, 47 :: 42 :: firstn n l)) (lex_loop f (skipn n l))
    | None => lex_loop (S f) (47 :: 42 :: l) = Some [(KErr, 47 :: 42 :: l)]
    end.
Check param_start : forall b r k n, scan b r = (k, n) -> is_param k = true -> b = 63 \/ b = 36 \/ b = 58 \/ b = 64.
Check subst_only_params : forall k txt t ps i, is_param k = false ->
    subst_items ((k, txt) :: t) ps i = option_map (app txt) (subst_items t ps i).
Check subst_anon_index : forall pre txt post ps out,
    subst_items (pre ++ (KAnon, txt) :: post) ps O = Some out ->
    exists o1 v o2, subst_items pre ps O = Some o1 /\ nth_error ps (count_anon pre) = Some v /\
      subst_items post ps (S (count_anon pre)) = Some o2 /\ out = o1 ++ emit v ++ o2.
Check subst_positional_index : forall pre n txt post ps out,
    subst_items (pre ++ (KPos n, txt) :: post) ps O = Some out ->
    exists o1 v o2, subst_items pre ps O = Some o1 /\ nth_error ps (Z.to_nat (n - 1)) = Some v /\
      subst_items post ps (count_anon pre) = Some o2 /\ out = o1 ++ emit v ++ o2.
Check int_literal_roundtrip : forall z, i64_min < z <= i64_max -> read_literal (render (VInt z)) = LInt z.
Check int_literal_tokens : forall z rest f, i64_min <= z <= i64_max -> num_follow_ok rest = true ->
    lex_loop (S (S f)) (render (VInt z) ++ rest) =
    option_map (fun t => if z <? 0 then (KMinus, [45]) :: (KInt, show_nat (- z)) :: t else (KInt, show_nat z) :: t)
               (lex_loop (if z <? 0 then f else S f) rest).
Check blob_is_one_token : forall b rest f, forallb byte_ok b = true ->
    lex_loop (S f) (render (VBlob b) ++ rest) = option_map (cons (KHex, render (VBlob b))) (lex_loop f rest).
Check literal_roundtrip : forall v, val_ok v = true -> is_float v = false -> val_class v = 0 ->
    read_literal (render v) = lit_of v.
Check scan_local : forall b T c X Y k, scan b (T ++ c :: X) = (k, length T) -> look2 c X Y ->
    scan b (T ++ c :: Y) = (k, length T).
Check subst_keeps_tokens : forall sql ps items out,
    lex sql = Some items -> isolated true items = true -> forallb simple_val ps = true ->
    subst_items items ps O = Some out ->
    exists want, expand_items items ps O = Some want /\ lex out = Some want.
Check literal_tokens : forall v, simple_val v = true -> lex (emit v) = Some (lit_items v).
Check subst_stable_when_isolated : forall sql ps items out,
    lex sql = Some items -> isolated true items = true -> forallb simple_val ps = true ->
    subst_items items ps O = Some out -> subst_stable sql ps = true.
Check literal_roundtrip_refuted :
  exists v, val_ok v = true /\ is_float v = false /\ val_class v = 6 /\ read_literal (render v) <> lit_of v.
Check int_min_refuted : read_literal (render (VInt i64_min)) = LIntOverflow.
Check minus_kept_apart :
  subst [97; 45; 63] [VInt (-5)] = SOk [97; 45; 32; 45; 53] /\
  subst_stable [97; 45; 63] [VInt (-5)] = true /\
  lex [97; 45; 32; 45; 53] = Some [(KId, [97]); (KMinus, [45]); (KWs, [32]); (KMinus, [45]); (KInt, [53])].

Print Assumptions lex_total.
Print Assumptions quote_unquote.
Print Assumptions bound_text_is_one_token.
Print Assumptions text_literal_roundtrip.
Print Assumptions quoted_is_opaque.
Print Assumptions quoted_unterminated_is_opaque.
Print Assumptions line_comment_is_opaque.
Print Assumptions block_comment_is_opaque.
Print Assumptions param_start.
Print Assumptions subst_only_params.
Print Assumptions subst_anon_index.
Print Assumptions subst_positional_index.
Print Assumptions int_literal_roundtrip.
Print Assumptions int_literal_tokens.
Print Assumptions blob_is_one_token.
Print Assumptions literal_roundtrip.
Print Assumptions scan_local.
Print Assumptions subst_keeps_tokens.
Print Assumptions literal_tokens.
Print Assumptions subst_stable_when_isolated.
Print Assumptions literal_roundtrip_refuted.
Print Assumptions int_min_refuted.
Print Assumptions minus_kept_apart.
