(* C15 proofs: ORDER BY / LIMIT / OFFSET over GROUP BY (Model/SortGroup.v) -- the rows the model
   returns are the window of a sorted arrangement of the groups. *)
From Coq Require Import ZArith List Bool Arith Lia Permutation Sorted.
From TV Require Import Model.KnnOrder Proof.KnnOrder Proof.TopK.
From TV Require Import Model.SqlSpec Model.SortSpec Model.SortQuery Model.SortImpl Model.SortGroup.
From TV Require Import Proof.SortOrder Proof.SortLimit Proof.SortWindow Proof.SortResult Proof.SortModel.
Import ListNotations.
Open Scope nat_scope.

Theorem group_model_meets_spec_l : forall ncols gq t rows,
  model_group ncols gq t = MRows rows ->
  result_defined (g_dirs gq) false (g_elts gq t) = true ->
  result_spec (g_dirs gq) false (g_elts gq t) (g_off gq) (g_lim gq) rows.
Proof.
  intros ncols gq t rows Hm Hdef. unfold model_group in Hm.
  destruct (negb (g_well_formed ncols gq)); [discriminate|].
  set (B := g_elts gq t) in *.
  unfold result_defined in Hdef. apply andb_prop in Hdef. destruct Hdef as [Hh _].
  assert (Hag : forall x y, In x B -> In y B -> impl_elt_cmp (g_dirs gq) x y = elt_cmp (g_dirs gq) x y).
  { intros x y Hx Hy. eapply impl_elt_cmp_agrees_l; eauto. }
  assert (HPB : Forall (fun e => In e B) B) by (rewrite Forall_forall; auto).
  unfold result_spec. destruct (g_lim gq) as [l|] eqn:El.
  - rewrite (topk_ext (impl_elt_cmp (g_dirs gq)) (elt_cmp (g_dirs gq)) (fun e => In e B) Hag _ _ HPB) in Hm.
    destruct (topk (elt_cmp (g_dirs gq)) (l + g_off gq) B) as [out| |] eqn:Et; try discriminate.
    inversion Hm; subst rows. apply rows_spec_norm. apply spec_of_topk. exact Et.
  - destruct (isort_ext_P (impl_elt_cmp (g_dirs gq)) (elt_cmp (g_dirs gq)) (fun e => In e B) Hag B HPB) as [Eis _].
    rewrite Eis, limit_machine_is_window_l in Hm. inversion Hm; subst rows.
    apply rows_spec_norm.
    exact (spec_of_sorted (g_dirs gq) B (isort (c_less (elt_cmp (g_dirs gq))) B) (g_off gq) None
             (isort_perm _ B) (isort_sorted _ (elt_cmp_preorder_l (g_dirs gq)) B)).
Qed.
