(* C22 proofs, part 1: the vocabulary used for the lexer proofs.
   - `wp pan r Q`: r is not OutOfFuel; it is Panic only if panics are tolerated (pan = true);
     if it is `Ok a` then `Q a`.  One development therefore gives both theorems:
       pan = true   (any byte string)                       -> fuel suffices  (lexer_total)
       pan = false  (valid UTF-8, shorter than 2^31 bytes)  -> no panic       (lexer_no_panic)
   - facts about UTF-8 char boundaries;
   - the state invariant, `advance`, `skip_while`, `advance_n`, `slice`. *)
From Coq Require Import ZArith List Bool Arith Lia ZifyBool.
From TV Require Import Model.LexerKeywords Model.Lexer.
Import ListNotations.
Open Scope Z_scope.

Ltac Zify.zify_post_hook ::= Z.to_euclidean_division_equations.

(* ---------------------------------------------------------------- wp *)
Definition wp {A} (pan : bool) (r : res A) (Q : A -> Prop) : Prop :=
  match r with Ok a => Q a | Panic => pan = true | OutOfFuel => False end.

Lemma wp_bind {A B} pan (m : res A) (f : A -> res B) (P : A -> Prop) (Q : B -> Prop) :
  wp pan m P -> (forall a, P a -> wp pan (f a) Q) -> wp pan (bind m f) Q.
Proof. destruct m; simpl; auto. Qed.

Lemma wp_weaken {A} pan (r : res A) (P Q : A -> Prop) :
  wp pan r P -> (forall a, P a -> Q a) -> wp pan r Q.
Proof. destruct r; simpl; auto. Qed.

Lemma wp_ok {A} pan (a : A) (Q : A -> Prop) : Q a -> wp pan (Ok a) Q.
Proof. auto. Qed.

Lemma wp_not_fuel {A} pan (r : res A) Q : wp pan r Q -> r <> OutOfFuel.
Proof. destruct r; simpl; congruence. Qed.

Lemma wp_not_panic {A} (r : res A) Q : wp false r Q -> r <> Panic.
Proof. destruct r; simpl; congruence. Qed.

Lemma wp_false_ok {A} (r : res A) Q : wp false r Q -> exists a, r = Ok a /\ Q a.
Proof. destruct r; simpl; intros H; [eauto | discriminate | contradiction]. Qed.

(* ---------------------------------------------------------------- byte classes are ASCII *)
Ltac cls :=
  intros; unfold is_ident_start, is_ident_char, is_hexdigit, is_alnum, is_alpha, is_upper, is_lower, is_digit,
         is_bindigit, is_octdigit, is_ws, is_exp, is_sign, not_newline, is_ascii, is_cont in *; lia.

Lemma ascii_ident_char b : is_ident_char b = true -> is_ascii b = true. Proof. cls. Qed.
Lemma ascii_ident_start b : is_ident_start b = true -> is_ascii b = true. Proof. cls. Qed.
Lemma ascii_digit b : is_digit b = true -> is_ascii b = true. Proof. cls. Qed.
Lemma ascii_hexdigit b : is_hexdigit b = true -> is_ascii b = true. Proof. cls. Qed.
Lemma ascii_bindigit b : is_bindigit b = true -> is_ascii b = true. Proof. cls. Qed.
Lemma ascii_octdigit b : is_octdigit b = true -> is_ascii b = true. Proof. cls. Qed.
Lemma ascii_exp b : is_exp b = true -> is_ascii b = true. Proof. cls. Qed.
Lemma ascii_sign b : is_sign b = true -> is_ascii b = true. Proof. cls. Qed.
Lemma ident_start_char b : is_ident_start b = true -> is_ident_char b = true. Proof. cls. Qed.

(* ---------------------------------------------------------------- UTF-8 and char boundaries *)
Ltac split_andb :=
  repeat match goal with
         | H : _ && _ = true |- _ => apply andb_prop in H; destruct H
         end.

Lemma utf8_head : forall c r, utf8_valid (c :: r) = true -> c < 128 \/ 192 <= c.
Proof.
  intros c r H. cbn [utf8_valid] in H.
  destruct (c <? 128) eqn:E1; [lia|].
  destruct ((194 <=? c) && (c <=? 223)) eqn:E2; [lia|].
  destruct ((224 <=? c) && (c <=? 239)) eqn:E3; [lia|].
  destruct ((240 <=? c) && (c <=? 244)) eqn:E4; [lia|].
  discriminate.
Qed.

Lemma utf8_ascii_next_aux : forall n l, (length l <= n)%nat -> utf8_valid l = true ->
  forall i b, nth_error l i = Some b -> b < 128 ->
  match nth_error l (S i) with Some c => c < 128 \/ 192 <= c | None => True end.
Proof.
  induction n; intros l Hn Hv i b Hi Hb.
  - destruct l; [destruct i; discriminate | simpl in Hn; lia].
  - destruct l as [|x r]; [destruct i; discriminate|].
    cbn [utf8_valid] in Hv.
    destruct (x <? 128) eqn:E1.
    { split_andb.
      destruct i as [|j].
      - cbn [nth_error]. destruct r as [|c r']; [exact I|]. cbn [nth_error]. eapply utf8_head; eauto.
      - cbn [nth_error] in *. eapply IHn; eauto. simpl in Hn; lia. }
    destruct ((194 <=? x) && (x <=? 223)) eqn:E2.
    { destruct r as [|c1 r1]; [discriminate|]. split_andb.
      destruct i as [|[|j]].
      - cbn in Hi. inversion Hi; subst. lia.
      - cbn in Hi. inversion Hi; subst. unfold is_cont in *. lia.
      - cbn [nth_error] in *. eapply IHn; eauto. simpl in Hn; lia. }
    destruct ((224 <=? x) && (x <=? 239)) eqn:E3.
    { destruct r as [|c1 [|c2 r2]]; try discriminate. split_andb.
      destruct i as [|[|[|j]]].
      - cbn in Hi. inversion Hi; subst. lia.
      - cbn in Hi. inversion Hi; subst. unfold is_cont in *. lia.
      - cbn in Hi. inversion Hi; subst. unfold is_cont in *. lia.
      - cbn [nth_error] in *. eapply IHn; eauto. simpl in Hn; lia. }
    destruct ((240 <=? x) && (x <=? 244)) eqn:E4.
    { destruct r as [|c1 [|c2 [|c3 r3]]]; try discriminate. split_andb.
      destruct i as [|[|[|[|j]]]].
      - cbn in Hi. inversion Hi; subst. lia.
      - cbn in Hi. inversion Hi; subst. unfold is_cont in *. lia.
      - cbn in Hi. inversion Hi; subst. unfold is_cont in *. lia.
      - cbn in Hi. inversion Hi; subst. unfold is_cont in *. lia.
      - cbn [nth_error] in *. eapply IHn; eauto. simpl in Hn; lia. }
    discriminate.
Qed.

(* in a valid UTF-8 string the position after an ASCII byte is a char boundary *)
Lemma boundary_after_ascii : forall s i b,
  utf8_valid s = true -> nth_error s i = Some b -> b < 128 -> is_char_boundary s (S i) = true.
Proof.
  intros s i b Hv Hi Hb. unfold is_char_boundary. change (S i =? 0)%nat with false. cbv iota.
  pose proof (utf8_ascii_next_aux (length s) s (le_n _) Hv i b Hi Hb) as H.
  destruct (nth_error s (S i)) as [c|] eqn:E.
  - lia.
  - apply Nat.eqb_eq. apply nth_error_None in E.
    assert (i < length s)%nat by (apply nth_error_Some; congruence). unfold len. lia.
Qed.

(* a position holding an ASCII (or a leading) byte is a char boundary *)
Lemma boundary_at_byte : forall s i b,
  nth_error s i = Some b -> b < 128 \/ 192 <= b -> is_char_boundary s i = true.
Proof.
  intros s i b Hi Hb. unfold is_char_boundary. destruct (i =? 0)%nat; [reflexivity|].
  rewrite Hi. lia.
Qed.

Lemma boundary_len : forall s, is_char_boundary s (len s) = true.
Proof.
  intros s. unfold is_char_boundary. destruct (len s =? 0)%nat eqn:E; [reflexivity|].
  assert (nth_error s (len s) = None) as -> by (apply nth_error_None; unfold len; lia).
  apply Nat.eqb_refl.
Qed.

(* ---------------------------------------------------------------- state invariant *)
Section Base.
Variable s : list Z.
Variable pan : bool.
(* the only facts about the input ever used, and only in the no-panic reading *)
Hypothesis Hgood : pan = false -> utf8_valid s = true /\ Z.of_nat (len s) < 2 ^ 31.

Definition inv (st : lx) : Prop :=
  (pos st <= len s)%nat /\
  (pan = false -> 1 <= line st <= 1 + 2 * Z.of_nat (pos st) /\ 1 <= col st <= 1 + 2 * Z.of_nat (pos st)).

(* "position i is a char boundary" (only claimed in the no-panic reading) *)
Definition bd (i : nat) : Prop := pan = false -> is_char_boundary s i = true.

Lemma inv_init : inv init.
Proof. unfold inv, init; simpl. split; [lia|]. intros _. lia. Qed.

Lemma bd_len : bd (len s).
Proof. intros _. apply boundary_len. Qed.

Lemma bd_at : forall i b, nth_error s i = Some b -> is_ascii b = true -> bd i.
Proof. intros i b Hi Hb _. eapply boundary_at_byte; eauto. cls. Qed.

Lemma bd_after : forall i b, nth_error s i = Some b -> is_ascii b = true -> bd (S i).
Proof.
  intros i b Hi Hb Hp. destruct (Hgood Hp) as [Hv _].
  eapply boundary_after_ascii; eauto. cls.
Qed.

Lemma eof_false : forall st, is_eof s st = false <-> (pos st < len s)%nat.
Proof. intros st. unfold is_eof. rewrite Nat.leb_gt. tauto. Qed.
Lemma eof_true : forall st, is_eof s st = true <-> (len s <= pos st)%nat.
Proof. intros st. unfold is_eof. rewrite Nat.leb_le. tauto. Qed.

Lemma current_some : forall st, (pos st < len s)%nat -> exists b, nth_error s (pos st) = Some b.
Proof.
  intros st H. destruct (nth_error s (pos st)) eqn:E; [eauto|].
  apply nth_error_None in E. unfold len in H. lia.
Qed.

Lemma wp_current : forall st, (pos st < len s)%nat ->
  wp pan (current s st) (fun b => nth_error s (pos st) = Some b).
Proof.
  intros st H. destruct (current_some st H) as [b Hb]. unfold current. rewrite Hb. simpl. reflexivity.
Qed.

(* what one call of advance does *)
Definition adv_post (st st' : lx) : Prop :=
  inv st' /\
  ((pos st < len s)%nat -> pos st' = S (pos st)) /\
  ((len s <= pos st)%nat -> st' = st) /\
  (pan = false -> col st' <= col st + 1 /\ line st' <= line st + 1) /\
  (forall b, nth_error s (pos st) = Some b -> is_ascii b = true -> bd (pos st')) /\
  (pos st <= pos st' <= S (pos st))%nat.

Lemma wp_advance : forall st, inv st -> wp pan (advance s st) (adv_post st).
Proof.
  intros st [Hp Hc]. unfold advance.
  destruct (is_eof s st) eqn:E.
  - apply eof_true in E. simpl. unfold adv_post.
    split; [split; [exact Hp | exact Hc]|].
    split; [intros; lia|]. split; [reflexivity|]. split; [intros; lia|].
    split; [|lia].
    intros b Hb. rewrite (proj2 (nth_error_None s (pos st))) in Hb by (unfold len in *; lia). discriminate.
  - apply eof_false in E.
    destruct (current_some st E) as [b Hb]. unfold current. rewrite Hb. cbn [bind].
    assert (Hbd : forall b0, nth_error s (pos st) = Some b0 -> is_ascii b0 = true -> bd (S (pos st))).
    { intros b0 Hb0 Ha. eapply bd_after; eauto. }
    destruct pan eqn:Epan.
    + (* panics tolerated: only the position matters *)
      destruct (b =? 10); [destruct (line st <? u32_max) | destruct (col st <? u32_max)]; simpl; auto;
        unfold adv_post, inv; cbn [pos line col]; repeat split; auto; try lia; try discriminate; try congruence.
    + destruct (Hgood eq_refl) as [_ Hl]. destruct (Hc eq_refl) as [Hli Hco].
      change (2 ^ 31) with 2147483648 in Hl. unfold u32_max.
      destruct (b =? 10).
      * replace (line st <? 4294967295) with true by lia. simpl.
        unfold adv_post, inv; cbn [pos line col]. repeat split; auto; try lia.
      * replace (col st <? 4294967295) with true by lia. simpl.
        unfold adv_post, inv; cbn [pos line col]. repeat split; auto; try lia.
Qed.

(* `!self.is_eof() && p(self.current())` *)
Lemma wp_at_byte : forall p st,
  wp pan (at_byte s p st)
     (fun g => if g then exists b, nth_error s (pos st) = Some b /\ p b = true /\ (pos st < len s)%nat
               else forall b, nth_error s (pos st) = Some b -> p b = false).
Proof.
  intros p st. unfold at_byte. destruct (is_eof s st) eqn:E.
  - apply eof_true in E. simpl. intros b Hb.
    rewrite (proj2 (nth_error_None s (pos st))) in Hb by (unfold len in *; lia). discriminate.
  - apply eof_false in E. destruct (current_some st E) as [b Hb]. unfold current. rewrite Hb. simpl.
    destruct (p b) eqn:Ep.
    + exists b. auto.
    + intros b0 Hb0. congruence.
Qed.

(* `while !self.is_eof() && p(self.current()) { self.advance(); }` *)
Definition skip_post (p : Z -> bool) (st st1 : lx) : Prop :=
  inv st1 /\ (pos st <= pos st1)%nat /\
  (forall b, nth_error s (pos st1) = Some b -> p b = false) /\
  ((forall b, p b = true -> is_ascii b = true) -> bd (pos st) -> bd (pos st1)) /\
  ((exists b, nth_error s (pos st) = Some b /\ p b = true) -> (pos st < pos st1)%nat).

Lemma nth_past_end : forall i b, (len s <= i)%nat -> nth_error s i = Some b -> False.
Proof.
  intros i b Hi Hb. rewrite (proj2 (nth_error_None s i)) in Hb by (unfold len in *; lia). discriminate.
Qed.

Lemma wp_skip_while : forall p fuel st, inv st -> (len s - pos st < fuel)%nat ->
  wp pan (skip_while s p fuel st) (skip_post p st).
Proof.
  intros p fuel. induction fuel as [|f IH]; intros st Hinv Hf; [lia|].
  cbn [skip_while].
  destruct (is_eof s st) eqn:E.
  - apply eof_true in E. simpl. unfold skip_post.
    split; [exact Hinv|]. split; [lia|].
    split; [intros b Hb; exfalso; eapply nth_past_end; eauto|].
    split; [auto|].
    intros [b [Hb _]]. exfalso; eapply nth_past_end; eauto.
  - apply eof_false in E. destruct (current_some st E) as [b Hb]. unfold current. rewrite Hb. cbn [bind].
    destruct (p b) eqn:Ep.
    + eapply wp_bind; [apply wp_advance; exact Hinv|].
      intros st1 (Hi1 & Hp1 & _ & _ & Hb1 & _). specialize (Hp1 E).
      eapply wp_weaken; [apply IH; [exact Hi1 | lia]|].
      intros st2 (Hi2 & Hle & Hstop & Hbd & _). unfold skip_post.
      split; [exact Hi2|]. split; [lia|]. split; [exact Hstop|].
      split; [|intros _; lia].
      intros Hasc Hb0. apply Hbd; auto. rewrite Hp1. eapply bd_after; eauto.
    + simpl. unfold skip_post.
      split; [exact Hinv|]. split; [lia|].
      split; [intros b0 Hb0; congruence|].
      split; [auto|].
      intros [b0 [Hb0 Hp0]]. congruence.
Qed.

(* `for _ in 0..n { self.advance(); }` *)
Lemma wp_advance_n : forall n st, inv st ->
  wp pan (advance_n s n st) (fun st' => inv st' /\ (pos st <= pos st')%nat).
Proof.
  induction n as [|n IH]; intros st Hinv; cbn [advance_n].
  - simpl. split; [exact Hinv | lia].
  - eapply wp_bind; [apply wp_advance; exact Hinv|].
    intros st1 (Hi1 & Hp1 & Hq1 & _ & _ & _).
    eapply wp_weaken; [apply IH; exact Hi1|].
    intros st2 [Hi2 Hle]. split; [exact Hi2|].
    destruct (Nat.lt_ge_cases (pos st) (len s)) as [H|H].
    + rewrite (Hp1 H) in Hle. lia.
    + rewrite (Hq1 H) in Hle. exact Hle.
Qed.

(* &self.input[a..b] *)
Lemma wp_slice : forall a b, (a <= b)%nat -> bd a -> bd b -> wp pan (slice s a b) (fun _ => True).
Proof.
  intros a b Hab Ha Hb. unfold slice.
  destruct pan eqn:Epan.
  - destruct ((a <=? b)%nat && is_char_boundary s a && is_char_boundary s b); simpl; auto.
  - rewrite (Ha Epan), (Hb Epan). rewrite (proj2 (Nat.leb_le a b) Hab). simpl. exact I.
Qed.

End Base.
