(* C09 proofs, part 3: the invariant that ties the implementation model (Model/ConstrImpl.v) to the
   reference (Model/ConstrSpec.v), and the table-local facts both INSERT and UPDATE rest on:
   row validation = NOT NULL + CHECK of the reference (via check_eval_agrees), probes of exact
   unique indexes = "a live row holds the value". *)
From Coq Require Import ZArith List Bool Lia ZifyBool Arith.
From TV Require Import Model.SqlSpec Model.CheckStr Model.ConstrSpec Model.ConstrImpl Model.ConstrClass
                       Proof.CheckStrMain.
Import ListNotations.
Open Scope Z_scope.

(* ---------------------------------------------------------------- well-formed schemas *)
Definition checks_frag_from (ds : list cdecl) (i : nat) : Prop :=
  forall j d e, nth_error ds j = Some d -> c_chk d = Some e -> chk_frag (i + j) e = true.
Fixpoint pk_count (ds : list cdecl) : nat :=
  match ds with [] => O | d :: ds' => (if c_key d =? 1 then 1 else 0) + pk_count ds' end.
Definition fk_count (ds : list cdecl) : nat := length (fk_cols_from ds 0).
(* every FOREIGN KEY references a declared PRIMARY KEY / UNIQUE column of p *)
Definition fk_decl (sch : schema) : Prop :=
  forall d f, In d (s_c sch) -> c_fk d = Some f ->
    exists pd, nth_error (s_p sch) (fk_col f) = Some pd /\ is_key pd = true.
Record wf_schema (sch : schema) : Prop := {
  wf_np : (length (s_p sch) <= 10)%nat;
  wf_nc : (length (s_c sch) <= 10)%nat;
  wf_chk_p : checks_frag_from (s_p sch) 0;
  wf_chk_c : checks_frag_from (s_c sch) 0;
  wf_pk_p : (pk_count (s_p sch) <= 1)%nat;
  wf_pk_c : (pk_count (s_c sch) <= 1)%nat;
  wf_fk1 : (fk_count (s_c sch) <= 1)%nat;
  wf_fk_p : forall d, In d (s_p sch) -> c_fk d = None;
  wf_fk_decl : fk_decl sch
}.

(* ---------------------------------------------------------------- the invariant *)
Definition idx_exact (ds : list cdecl) (ts : tstate) : Prop :=
  forall i d, nth_error ds i = Some d -> is_key d = true ->
    forall v, is_null v = false -> idx_mem v (get_idx ts i) = live_has ts i v.
Definition idx_nonull (ts : tstate) : Prop :=
  forall ix v k, In ix (idxs ts) -> In (v, k) ix -> is_null v = false.
Definition ids_ok (ts : tstate) (next : Z) : Prop :=
  NoDup (map e_id (ents ts)) /\ forall e, In e (ents ts) -> 0 < e_id e < next.
Definition rows_ok (n : nat) (ts : tstate) : Prop :=
  (forall e, In e (ents ts) -> row_fits n (e_row e) = true) /\ length (idxs ts) = n.
Record tinv (ds : list cdecl) (ts : tstate) (next : Z) : Prop := {
  ti_exact : idx_exact ds ts;
  ti_nonull : idx_nonull ts;
  ti_ids : ids_ok ts next;
  ti_rows : rows_ok (length ds) ts
}.
Record Inv (sch : schema) (st : dstate) : Prop := {
  inv_valid : valid_db sch (abs_db st) = true;
  inv_p : tinv (s_p sch) (d_p st) (d_next st);
  inv_c : tinv (s_c sch) (d_c st) (d_next st);
  inv_next : 0 < d_next st
}.

(* ---------------------------------------------------------------- small list facts *)
Lemma value_eqb_refl v : value_eqb v v = true.
Proof.
  destruct v; cbn [value_eqb]; try apply Z.eqb_refl; try reflexivity.
  - induction s as [|x s IH]; [reflexivity|]. cbn [zlist_eqb']. rewrite Z.eqb_refl. exact IH.
  - destruct b; reflexivity.
Qed.
Lemma zlist_eqb'_eq a : forall b, zlist_eqb' a b = true -> a = b.
Proof.
  induction a as [|x a IH]; intros [|y b] H; try discriminate; [reflexivity|].
  cbn [zlist_eqb'] in H. apply andb_true_iff in H. destruct H as [H1 H2].
  apply Z.eqb_eq in H1. subst. f_equal. exact (IH b H2).
Qed.
Lemma value_eqb_eq a b : value_eqb a b = true -> a = b.
Proof.
  destruct a, b; cbn [value_eqb]; intros H; try discriminate; try reflexivity.
  - apply Z.eqb_eq in H. subst. reflexivity.
  - apply Z.eqb_eq in H. subst. reflexivity.
  - apply zlist_eqb'_eq in H. subst. reflexivity.
  - destruct b0, b; try discriminate; reflexivity.
Qed.
Lemma value_eqb_sym a b : value_eqb a b = value_eqb b a.
Proof.
  destruct (value_eqb a b) eqn:E.
  - apply value_eqb_eq in E. subst. symmetry. apply value_eqb_refl.
  - destruct (value_eqb b a) eqn:E2; [|reflexivity].
    apply value_eqb_eq in E2. subst. rewrite value_eqb_refl in E. discriminate.
Qed.

Lemma vmem_app v l1 l2 : vmem v (l1 ++ l2) = vmem v l1 || vmem v l2.
Proof. unfold vmem. apply existsb_app. Qed.

Lemma nodupv_snoc l v : nodupv (l ++ [v]) = nodupv l && (is_null v || negb (vmem v l)).
Proof.
  induction l as [|x l IH].
  - cbn [app nodupv vmem existsb negb orb andb]. destruct (is_null v); reflexivity.
  - cbn [app nodupv]. rewrite IH, vmem_app. unfold vmem. cbn [existsb]. rewrite orb_false_r.
    rewrite (value_eqb_sym v x).
    destruct (value_eqb x v) eqn:E.
    + apply value_eqb_eq in E. subst x.
      destruct (is_null v); destruct (existsb (value_eqb v) l); destruct (nodupv l); reflexivity.
    + destruct (is_null x); destruct (is_null v); destruct (existsb (value_eqb x) l);
        destruct (existsb (value_eqb v) l); destruct (nodupv l); reflexivity.
Qed.

Lemma colvals_app i (a b : table) : colvals i (a ++ b) = colvals i a ++ colvals i b.
Proof. apply map_app. Qed.

Lemma live_has_vmem ts i v : live_has ts i v = vmem v (colvals i (visible ts)).
Proof.
  unfold live_has, vmem, colvals, visible.
  induction (ents ts) as [|e es IH]; [reflexivity|].
  cbn [existsb filter]. destruct (live e) eqn:L; cbn [andb map existsb].
  - rewrite IH. rewrite (value_eqb_sym v). reflexivity.
  - exact IH.
Qed.

(* ---------------------------------------------------------------- NOT NULL + CHECK *)
Fixpoint chk_part (ds : list cdecl) (vs : list value) (r : row) : bool :=
  match ds, vs with
  | d :: ds', _ :: vs' => match c_chk d with Some e => chk_b e r | None => true end && chk_part ds' vs' r
  | _, _ => true
  end.
Lemma row_ok_split ds : forall vs r, row_ok_from ds vs r = nn_from ds vs && chk_part ds vs r.
Proof.
  induction ds as [|d ds IH]; intros vs r; [reflexivity|]. destruct vs as [|v vs]; [reflexivity|].
  cbn [row_ok_from nn_from chk_part]. rewrite IH.
  destruct (negb (must_nn d) || negb (is_null v)); destruct (match c_chk d with Some e => chk_b e r | None => true end);
    destruct (nn_from ds vs); destruct (chk_part ds vs r); reflexivity.
Qed.

Lemma fits_nth n r i v :
  row_fits n r = true -> nth_error r i = Some v ->
  (exists z, nth_error r i = Some (VInt z)) \/ nth_error r i = Some VNull.
Proof.
  unfold row_fits. intros H Hv. apply andb_true_iff in H. destruct H as [_ H].
  rewrite forallb_forall in H. specialize (H v (nth_error_In _ _ Hv)).
  destruct v; try discriminate; [right|left; eexists]; exact Hv.
Qed.

Lemma skipn_cons_nth {A} (r : list A) : forall i v vs, skipn i r = v :: vs -> nth_error r i = Some v /\ skipn (S i) r = vs.
Proof.
  induction r as [|x r IH]; intros i v vs H.
  - destruct i; discriminate.
  - destruct i as [|i]; cbn [skipn] in H.
    + injection H as -> ->. split; reflexivity.
    + cbn [nth_error]. change (skipn (S (S i)) (x :: r)) with (skipn (S i) r). exact (IH i v vs H).
Qed.

Lemma chk_from_agree n r :
  (n <= 10)%nat -> row_fits n r = true ->
  forall ds vs i, (i + length ds = n)%nat -> vs = skipn i r ->
    checks_frag_from ds i ->
    chk_from (cnames n) ds i vs = Some (chk_part ds vs r).
Proof.
  intros Hn Hfit. induction ds as [|d ds IH]; intros vs i Hlen Hvs Hfrag; [reflexivity|].
  assert (Hlr : length r = n).
  { unfold row_fits in Hfit. apply andb_true_iff in Hfit. destruct Hfit as [Hl _]. apply Nat.eqb_eq in Hl. exact Hl. }
  destruct vs as [|v vs].
  { exfalso. assert (length (skipn i r) = 0%nat) by (rewrite <- Hvs; reflexivity).
    rewrite skipn_length in H. cbn [length] in Hlen. lia. }
  symmetry in Hvs. destruct (skipn_cons_nth r i v vs Hvs) as [Hnth Hrest].
  cbn [chk_from chk_part].
  assert (IHr : chk_from (cnames n) ds (S i) vs = Some (chk_part ds vs r)).
  { apply IH; [cbn [length] in Hlen; lia|symmetry; exact Hrest|].
    intros j d' e Hj He. replace (S i + j)%nat with (i + S j)%nat by lia. apply (Hfrag (S j) d' e Hj He). }
  destruct (c_chk d) as [e|] eqn:Ec.
  - assert (Hf : chk_frag i e = true).
    { replace i with (i + 0)%nat by lia. apply (Hfrag 0%nat d e); [reflexivity|exact Ec]. }
    pose proof (check_eval_agrees_l n i e r ltac:(cbn [length] in Hlen; lia) Hn Hf (fits_nth n r i v Hfit Hnth)) as HC.
    assert (Hcv : col_val i r = v) by (unfold col_val; apply nth_error_nth; exact Hnth).
    rewrite Hcv in HC. rewrite HC. destruct (chk_b e r); [exact IHr|reflexivity].
  - exact IHr.
Qed.

Lemma validate_new_agree ds r :
  (length ds <= 10)%nat -> checks_frag_from ds 0 -> row_fits (length ds) r = true ->
  validate_new ds r = Some (row_ok ds r).
Proof.
  intros Hn Hfrag Hfit. unfold validate_new, row_ok, chk_row. rewrite row_ok_split.
  rewrite (chk_from_agree (length ds) r Hn Hfit ds r 0%nat eq_refl eq_refl Hfrag).
  destruct (nn_from ds r); reflexivity.
Qed.

(* ---------------------------------------------------------------- unique probes *)
Fixpoint fresh_from (ds : list cdecl) (i : nat) (vs : list value) (t : table) : bool :=
  match ds, vs with
  | d :: ds', v :: vs' => (negb (is_key d) || is_null v || negb (vmem v (colvals i t))) && fresh_from ds' (S i) vs' t
  | _, _ => true
  end.

Lemma uq_from_agree all ts :
  idx_exact all ts ->
  forall ds vs i, (forall j d, nth_error ds j = Some d -> nth_error all (i + j) = Some d) ->
    uq_from ts ds i vs = fresh_from ds i vs (visible ts).
Proof.
  intros Hex. induction ds as [|d ds IH]; intros vs i Hsub; [reflexivity|].
  destruct vs as [|v vs]; [reflexivity|]. cbn [uq_from fresh_from].
  rewrite IH by (intros j d' Hj; replace (S i + j)%nat with (i + S j)%nat by lia; apply Hsub; exact Hj).
  f_equal. destruct (is_key d) eqn:K; [|reflexivity]. destruct (is_null v) eqn:N; [reflexivity|].
  cbn [negb orb]. rewrite (Hex i d) by (try assumption; replace i with (i + 0)%nat by lia; apply Hsub; reflexivity).
  rewrite live_has_vmem. reflexivity.
Qed.

Lemma uniq_from_snoc ds : forall i (t : table) (r : row) vs,
  length vs = length ds -> (forall j, (j < length ds)%nat -> nth j vs VNull = col_val (i + j) r) ->
  uniq_from ds i (t ++ [r]) = uniq_from ds i t && fresh_from ds i vs t.
Proof.
  induction ds as [|d ds IH]; intros i t r vs Hl Hv; [reflexivity|].
  destruct vs as [|v vs]; [discriminate|]. cbn [uniq_from fresh_from].
  rewrite (IH (S i) t r vs).
  - assert (Hvi : col_val i r = v).
    { specialize (Hv 0%nat ltac:(cbn [length]; lia)). cbn [nth] in Hv. rewrite Nat.add_0_r in Hv. symmetry. exact Hv. }
    rewrite colvals_app. cbn [colvals map]. rewrite Hvi, nodupv_snoc.
    destruct (is_key d); cbn [negb orb]; [|reflexivity].
    destruct (nodupv (colvals i t)); destruct (uniq_from ds (S i) t); destruct (is_null v);
      destruct (vmem v (colvals i t)); destruct (fresh_from ds (S i) vs t); reflexivity.
  - cbn [length] in Hl. lia.
  - intros j Hj. specialize (Hv (S j) ltac:(cbn [length]; lia)). cbn [nth] in Hv.
    replace (S i + j)%nat with (i + S j)%nat by lia. exact Hv.
Qed.

Lemma uniq_ok_snoc ds (t : table) (r : row) :
  length r = length ds -> uniq_ok ds (t ++ [r]) = uniq_ok ds t && fresh_from ds 0 r t.
Proof.
  intros Hl. unfold uniq_ok. apply uniq_from_snoc; [exact Hl|]. intros j _. reflexivity.
Qed.

(* ---------------------------------------------------------------- the reference, literally *)
Lemma spec_accepts_iff_valid_l :
  forall sch d s,
    (fst (exec_write sch d s) = true <-> valid_db sch (apply_stmt sch d s) = true) /\
    snd (exec_write sch d s) = (if fst (exec_write sch d s) then apply_stmt sch d s else d).
Proof.
  intros sch d s. unfold exec_write. destruct (valid_db sch (apply_stmt sch d s)); cbn [fst snd]; split; try reflexivity; tauto.
Qed.

(* the empty database satisfies the invariant *)
Lemma nth_repeat_nil {A} n i : nth i (repeat (@nil A) n) [] = [].
Proof. revert i. induction n as [|n IH]; intros [|i]; cbn [repeat nth]; try reflexivity. apply IH. Qed.
Lemma tinv_empty ds next : tinv ds (t_empty (length ds)) next.
Proof.
  constructor.
  - intros i d _ _ v _. unfold get_idx, t_empty. cbn [idxs ents].
    pose proof (@nth_repeat_nil (value * Z) (length ds) i) as E. unfold index. rewrite E. reflexivity.
  - intros ix v k Hin Hp. unfold t_empty in Hin. cbn [idxs] in Hin. apply repeat_spec in Hin. subst ix. destruct Hp.
  - split; [constructor|intros e []].
  - split; [intros e []|]. unfold t_empty. cbn [idxs]. apply repeat_length.
Qed.
Lemma inv_empty sch : Inv sch (d_empty sch).
Proof.
  constructor; unfold d_empty; cbn [d_p d_c d_next]; try apply tinv_empty; [|lia].
  unfold valid_db, abs_db, visible, t_empty. cbn [d_p d_c ents filter map fst snd forallb fk_ok].
  unfold uniq_ok.
  assert (U : forall ds i, uniq_from ds i [] = true).
  { induction ds as [|d ds IH]; intros i; [reflexivity|]. cbn [uniq_from colvals map nodupv]. rewrite IH, orb_true_r. reflexivity. }
  rewrite !U. reflexivity.
Qed.
