(* C05 -- histories: the DML mechanism model refines the relational reference model.
   repaired_refines   the mechanism with the proposed INSERT repair, ALL histories;
   tomb_refines_bag   the code as it is, all histories outside the open finding class 4;
   count_star_exact, never_reappear (all histories), the refutation for class 4 and
   former_classes_repaired for the six findings repaired upstream. *)
From Coq Require Import ZArith List Bool Lia.
From TV Require Import Model.SqlSpec Model.DmlSpec Model.Tombstone Proof.SqlSpecLaws Proof.TombBase
  Proof.TombIns Proof.TombDel Proof.TombUpd Proof.TombSame.
Import ListNotations.
Open Scope Z_scope.

Lemma truncate_refines : forall sch st r t', Inv sch st ->
  spec_step sch (visible st) STruncate = Some (r, t') ->
  exists st', step true sch st STruncate = (r, st') /\ visible st' = t' /\ Inv sch st'.
Proof.
  intros sch st r t' [HI Hc] H. cbn [spec_step step] in *. unfold do_truncate. inversion H; subst; clear H.
  exists (mkT [] 0 [] (nextid st)). split; [|split; [reflexivity|]].
  - cbn [cand]. unfold visible. rewrite zlen_map. reflexivity.
  - split; [|reflexivity]. destruct (inv_ids _ _ HI) as [_ Hlt]. constructor; cbn [ents kidx nextid].
    + split; [constructor|intros e []].
    + destruct (keyed sch); reflexivity.
    + intros _ a b [].
    + intros _ e [].
Qed.

Lemma step_refines : forall sch st s r t', wf_schema sch -> Inv sch st ->
  fst (step true sch st s) <> RUnmod ->
  spec_step sch (visible st) s = Some (r, t') ->
  exists st', step true sch st s = (r, st') /\ visible st' = t' /\ Inv sch st'.
Proof.
  intros sch st s r t' Hwf HI Hm H. destruct s as [rows ret|w ret|sets w ret| |].
  - eapply insert_refines; eassumption.
  - eapply delete_refines; eassumption.
  - eapply update_refines; eassumption.
  - eapply truncate_refines; eassumption.
  - cbn [spec_step step] in *. inversion H; subst. exists st. split; [reflexivity|]. split; [reflexivity|exact HI].
Qed.

Definition modelled_trace (tr : list obs) : Prop := Forall (fun o => o_res o <> RUnmod) tr.

(* the repaired mechanism: every history, every schema, from every consistent state *)
Theorem repaired_refines_from : forall sch h st tr, wf_schema sch -> Inv sch st ->
  spec_trace sch (visible st) h = Some tr ->
  modelled_trace (trace true sch st h) ->
  trace true sch st h = tr.
Proof.
  intros sch h. induction h as [|s h IH]; intros st tr Hwf HI H Hm; cbn [spec_trace trace] in *.
  - inversion H; reflexivity.
  - destruct (spec_step sch (visible st) s) as [[r t']|] eqn:S; [|discriminate].
    destruct (spec_trace sch t' h) as [tr'|] eqn:T; [|discriminate]. inversion H; subst; clear H.
    destruct (step true sch st s) as [r0 st'] eqn:E.
    inversion Hm as [|? ? Hr Hm']; subst. cbn [obs_of o_res] in Hr.
    destruct (step_refines sch st s r t' Hwf HI) as [st2 [E2 [Hv HI2]]]; [rewrite E; exact Hr|exact S|].
    rewrite E in E2. inversion E2; subst r0 st2; clear E2.
    unfold obs_of, count_star. rewrite Hv. rewrite (proj2 HI2), Hv. f_equal.
    apply IH; [exact Hwf|exact HI2|rewrite Hv; exact T|exact Hm'].
Qed.

(* the code as it is: every history outside the finding classes *)
Theorem tomb_refines_from : forall sch h st tr, wf_schema sch -> Inv sch st ->
  hist_class sch st h = 0 ->
  spec_trace sch (visible st) h = Some tr ->
  trace false sch st h = tr.
Proof.
  intros sch h. induction h as [|s h IH]; intros st tr Hwf HI Hc H; cbn [spec_trace trace hist_class] in *.
  - inversion H; reflexivity.
  - destruct (stmt_class sch st s =? 0) eqn:K; [|rewrite Hc in K; discriminate].
    apply Z.eqb_eq in K.
    destruct (spec_step sch (visible st) s) as [[r t']|] eqn:S; [|discriminate].
    destruct (spec_trace sch t' h) as [tr'|] eqn:T; [|discriminate]. inversion H; subst; clear H.
    pose proof (class0_modelled _ _ _ K) as Hm. rewrite (step_same _ _ _ K) in Hm, Hc |- *.
    destruct (step_refines sch st s r t' Hwf HI Hm S) as [st2 [E2 [Hv HI2]]].
    rewrite E2 in *. cbn [snd] in Hc.
    unfold obs_of, count_star. rewrite Hv. rewrite (proj2 HI2), Hv. f_equal.
    apply IH; [exact Hwf|exact HI2|exact Hc|rewrite Hv; exact T].
Qed.

Theorem repaired_refines : forall sch h tr, wf_schema sch ->
  spec_trace sch [] h = Some tr -> modelled_trace (trace true sch t_empty h) ->
  trace true sch t_empty h = tr.
Proof. intros sch h tr Hwf H Hm. apply repaired_refines_from; [exact Hwf|apply inv_empty|exact H|exact Hm]. Qed.

Theorem tomb_refines_bag : forall sch h tr, wf_schema sch ->
  hist_class sch t_empty h = 0 -> spec_trace sch [] h = Some tr ->
  trace false sch t_empty h = tr.
Proof. intros sch h tr Hwf Hc H. apply tomb_refines_from; [exact Hwf|apply inv_empty|exact Hc|exact H]. Qed.

(* COUNT star (the header field) is the number of visible rows after every statement *)
Lemma spec_trace_count : forall sch h t tr, spec_trace sch t h = Some tr ->
  Forall (fun o => o_cnt o = zlen (o_rows o)) tr.
Proof.
  intros sch h. induction h as [|s h IH]; intros t tr H; cbn [spec_trace] in H.
  - inversion H; constructor.
  - destruct (spec_step sch t s) as [[r t']|]; [|discriminate].
    destruct (spec_trace sch t' h) as [tr'|] eqn:T; [|discriminate]. inversion H; subst.
    constructor; [reflexivity|]. eapply IH. exact T.
Qed.
Theorem count_star_exact : forall sch h tr, wf_schema sch ->
  hist_class sch t_empty h = 0 -> spec_trace sch [] h = Some tr ->
  Forall (fun o => o_cnt o = zlen (o_rows o)) (trace false sch t_empty h).
Proof.
  intros sch h tr Hwf Hc H. rewrite (tomb_refines_bag sch h tr Hwf Hc H). eapply spec_trace_count. exact H.
Qed.

(* ------------------------------------------------------------------ deleted rows never reappear *)
Definition live_id (st : tstate) (id : Z) : bool := existsb (fun e => (e_id e =? id) && live e) (ents st).

Lemma select_true_sub : forall sch w st s, In s (select true sch w st) -> In s (ents st) /\ live s = true.
Proof.
  intros sch w st s H. unfold select in H. destruct (pk_target true sch w st) as [e|] eqn:T.
  - destruct H as [<-|[]]. unfold pk_target in T.
    destruct (s_key sch); try discriminate. destruct (pk_literal w); try discriminate.
    destruct (idx_find v (kidx st)); try discriminate.
    destruct (find_ent z (ents st)) as [e0|] eqn:F; try discriminate.
    destruct (value_eqb (e_key e0) v && cand true e0) eqn:C; try discriminate. inversion T; subst.
    apply andb_true_iff in C. destruct C as [_ C]. apply find_ent_some in F. split; [apply F|exact C].
  - unfold scan in H. apply filter_In in H. destruct H as [Hin C]. apply andb_true_iff in C. split; [exact Hin|apply C].
Qed.

Lemma assoc_new_some : forall id sel news r, assoc_new id sel news = Some r -> exists s, In s sel /\ e_id s = id.
Proof.
  intros id. induction sel as [|s sel IH]; intros news r H; destruct news as [|x news]; cbn [assoc_new] in H; try discriminate.
  destruct (e_id s =? id) eqn:E.
  - apply Z.eqb_eq in E. exists s. split; [left; reflexivity|exact E].
  - destruct (IH _ _ H) as [s0 [Hin Hid]]. exists s0. split; [right; exact Hin|exact Hid].
Qed.

Lemma ins_loop_ids : forall sch rows st n b st' m id, ins_loop sch st rows n = (b, st', m) ->
  id < nextid st -> nextid st <= nextid st' /\ live_id st' id = live_id st id.
Proof.
  intros sch. induction rows as [|r rs IH]; intros st n b st' m id H Hid; cbn [ins_loop] in H.
  - inversion H; subst. split; [lia|reflexivity].
  - destruct (ins_row_ok sch st r).
    + apply (IH _ _ _ _ _ id) in H; [|unfold ins_write; cbn [nextid]; lia].
      destruct H as [H1 H2]. unfold ins_write in H1, H2. cbn [nextid] in H1. split; [lia|].
      rewrite H2. unfold live_id. cbn [ents]. rewrite existsb_app. cbn [existsb e_id].
      assert (nextid st =? id = false) as -> by (apply Z.eqb_neq; lia). cbn [andb orb]. rewrite orb_false_r. reflexivity.
    + inversion H; subst. split; [lia|reflexivity].
Qed.

Lemma step_dead : forall fx sch st s id, id < nextid st -> live_id st id = false ->
  nextid st <= nextid (snd (step fx sch st s)) /\ live_id (snd (step fx sch st s)) id = false.
Proof.
  intros fx sch st s id Hid Hd. destruct s as [rows ret|w ret|sets w ret| |]; cbn [step].
  - unfold do_insert. destruct (forallb (row_known (s_tys sch)) rows); [|cbn [snd]; split; [lia|exact Hd]].
    destruct (ins_loop sch st rows 0) as [[b s1] n] eqn:E. destruct (ins_loop_ids _ _ _ _ _ _ _ id E Hid) as [H1 H2].
    destruct b; cbn [snd].
    + unfold add_count, live_id. cbn [nextid ents]. split; [exact H1|]. unfold live_id in H2. rewrite H2. exact Hd.
    + destruct fx; [split; [lia|exact Hd]|]. split; [exact H1|]. rewrite H2. exact Hd.
  - unfold do_delete. destruct (where_modelled w st); cbn [snd nextid]; [|split; [lia|exact Hd]].
    split; [lia|]. unfold live_id in *. cbn [ents]. unfold mark_del.
    destruct (existsb (fun e => (e_id e =? id) && live e) (map _ (ents st))) eqn:X; [|reflexivity].
    apply existsb_exists in X. destruct X as [e [Hin C]]. apply in_map_iff in Hin. destruct Hin as [e0 [E0 Hin]].
    apply andb_true_iff in C. destruct C as [C1 C2].
    destruct (in_sel (select true sch w st) e0); subst e; [unfold live in C2; cbn in C2; discriminate|].
    assert (Y : existsb (fun e => (e_id e =? id) && live e) (ents st) = true); [|congruence].
    apply existsb_exists. exists e0. split; [exact Hin|]. rewrite C1, C2. reflexivity.
  - unfold do_update. destruct (where_modelled w st && sets_modelled sch sets); [|cbn [snd]; split; [lia|exact Hd]].
    destruct (new_rows true sch sets (select true sch w st)) as [news| | |]; cbn [snd nextid]; try (split; [lia|exact Hd]).
    split; [lia|]. unfold live_id in *. cbn [ents]. unfold write_upd.
    destruct (existsb (fun e => (e_id e =? id) && live e) (map _ (ents st))) eqn:X; [|reflexivity].
    apply existsb_exists in X. destruct X as [e [Hin C]]. apply in_map_iff in Hin. destruct Hin as [e0 [E0 Hin]].
    apply andb_true_iff in C. destruct C as [C1 C2].
    assert (Y : existsb (fun e => (e_id e =? id) && live e) (ents st) = true); [|congruence].
    destruct (assoc_new (e_id e0) (select true sch w st) news) as [r|] eqn:A.
    + subst e. cbn [e_id] in C1. apply assoc_new_some in A. destruct A as [s [Hs Hsid]].
      apply select_true_sub in Hs. destruct Hs as [Hs Ls].
      apply existsb_exists. exists s. split; [exact Hs|]. rewrite Hsid, C1, Ls. reflexivity.
    + subst e. apply existsb_exists. exists e0. split; [exact Hin|]. rewrite C1, C2. reflexivity.
  - unfold do_truncate. cbn [snd nextid]. split; [lia|reflexivity].
  - cbn [snd]. split; [lia|exact Hd].
Qed.

(* a row id that has been handed out and is not visible (deleted, truncated away) is never
   visible again, whatever statements follow -- the code as it is and the repaired mechanism,
   ALL histories, from every state *)
Theorem never_reappear : forall fx sch h st id, id < nextid st -> live_id st id = false ->
  live_id (run fx sch st h) id = false.
Proof.
  intros fx sch h. induction h as [|s h IH]; intros st id Hid Hd; cbn [run]; [exact Hd|].
  destruct (step_dead fx sch st s id Hid Hd) as [H1 H2]. apply IH; [lia|exact H2].
Qed.

(* ------------------------------------------------------------------ the open finding class, and the repaired ones *)
Definition s2 : schema := mkSchema KNone [TInt; TInt] [false; false].
Definition s3 : schema := mkSchema KNone [TInt; TInt; TInt] [false; false; false].
Definition p2 : schema := mkSchema KPk [TInt; TInt] [false; false].
Definition id_is (z : Z) : option expr := Some (ECmp CEq (ECol 0) (ELit (VInt z))).
Definition ins1 (a b : Z) : stmt := SInsert [[VInt a; VInt b]] false.

Definition refuted (k : Z) (sch : schema) (h : list stmt) : Prop :=
  hist_class sch t_empty h = k /\
  exists tr, spec_trace sch [] h = Some tr /\ trace false sch t_empty h <> tr.

(* 4: failing multi-row INSERT keeps its first rows (still open) *)
Definition h_partial := [ins1 1 10; SInsert [[VInt 2; VInt 20]; [VInt 1; VInt 30]] false].
Theorem class4_refuted : refuted 4 p2 h_partial.
Proof. split; [vm_compute; reflexivity|eexists; split; [vm_compute; reflexivity|vm_compute; discriminate]]. Qed.
Theorem count_star_refuted :
  let st := run false p2 t_empty h_partial in count_star st = 1 /\ zlen (visible st) = 2.
Proof. vm_compute. split; reflexivity. Qed.

(* the witnesses of the repaired findings F-C05-1, 2, 3, 5, 6, 7 *)
(* 1: DELETE of an already deleted row reported it again and decremented COUNT star twice *)
Definition h_redelete := [ins1 1 10; ins1 2 20; SDelete (id_is 1) false; SDelete (id_is 1) true].
(* 2: UPDATE of a deleted row brought it back *)
Definition h_resurrect := [ins1 1 10; SDelete (id_is 1) false; SUpdate [(1%nat, ELit (VInt 5))] (id_is 1) false].
(* 3: TRUNCATE counted tombstones *)
Definition h_truncate := [ins1 1 10; ins1 2 20; SDelete (id_is 1) false; STruncate].
(* 5: UPDATE .. WHERE pk = literal RETURNING star returned no rows *)
Definition h_onepass := [ins1 1 10; SUpdate [(1%nat, ELit (VInt 5))] (id_is 1) true].
(* 6: SET c1 = 5, c2 = c1 read the new c1 *)
Definition h_mix := [SInsert [[VInt 1; VInt 10; VInt 100]] false;
                     SUpdate [(1%nat, ELit (VInt 5)); (2%nat, ECol 1)] None false].
(* 7: SET c1 = c1 + 1 failed on a NULL c1 *)
Definition h_nullarith := [SInsert [[VInt 1; VNull]] false;
                           SUpdate [(1%nat, EArith AAdd (ECol 1) (ELit (VInt 1)))] None false].

(* on each of them the code before the repairs (trace_old) differed from the reference and the
   code as it is (trace false) gives the reference's answers; none is in a class any more *)
Definition repaired_on (sch : schema) (h : list stmt) : Prop :=
  hist_class sch t_empty h = 0 /\
  exists tr, spec_trace sch [] h = Some tr /\ trace false sch t_empty h = tr /\ trace_old sch t_empty h <> tr.
Ltac repaired := split; [vm_compute; reflexivity|eexists; split; [vm_compute; reflexivity|split; [vm_compute; reflexivity|vm_compute; discriminate]]].
Theorem former_classes_repaired :
  repaired_on s2 h_redelete /\ repaired_on s2 h_resurrect /\ repaired_on s2 h_truncate /\
  repaired_on p2 h_onepass /\ repaired_on s3 h_mix /\ repaired_on s2 h_nullarith.
Proof. repeat split; try (vm_compute; reflexivity); try (eexists; split; [vm_compute; reflexivity|split; [vm_compute; reflexivity|vm_compute; discriminate]]). Qed.

(* the open witness on the mechanism with the proposed repair *)
Theorem repaired_witness :
  exists tr, spec_trace p2 [] h_partial = Some tr /\ trace true p2 t_empty h_partial = tr.
Proof. eexists; split; vm_compute; reflexivity. Qed.
