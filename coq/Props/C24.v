(* C24 - Vector distance ordering is exact.
   Property theorems only.  Kernels: Model/Kernels.v (lane algebra of src/hnsw/distance.rs);
   ordering: Model/KnnOrder.v (ORDER BY <-> / <=> [LIMIT k] of src/sql/executor.rs). *)
From Coq Require Import ZArith List Bool Permutation Sorted Ring_theory Floats.SpecFloat.
From TV Require Import Model.Kernels Model.KernelsF32 Model.KnnOrder Corr.C24
                       Proof.Kernels Proof.KernelsCorr Proof.KnnOrder Proof.TopK.
Import ListNotations.

(* ---- every vectorized kernel returns the scalar definition's value, for every length,
        in every commutative ring (what is computed before floating-point rounding) ---- *)

Theorem l2sq_kernels_exact :
  forall (R : Type) (o : kops R) (one : R), ring_kops o one ->
  forall a b : list R, length a = length b ->
    l2sq_avx2 o a b = KVal (l2sq_spec o a b) /\ l2sq_scalar o a b = l2sq_spec o a b.
Proof. exact l2sq_kernels_exact_l. Qed.

Theorem dot_kernels_exact :
  forall (R : Type) (o : kops R) (one : R), ring_kops o one ->
  forall a b : list R, length a = length b ->
    dot_avx2 o a b = KVal (dot_spec o a b) /\ dot_scalar o a b = dot_spec o a b /\
    inner_avx2 o a b = KVal (kopp o (dot_spec o a b)) /\ inner_scalar o a b = kopp o (dot_spec o a b).
Proof. exact dot_kernels_exact_l. Qed.

(* cosine: both kernels feed the same three sums (a.b, a.a, b.b) into the same finishing step,
   whatever sqrt / division / zero test that step uses *)
Theorem cosine_kernels_exact :
  forall (R : Type) (o : kops R) (one : R), ring_kops o one ->
  forall (fin : kfin R) (a b : list R), length a = length b ->
    cosine_avx2 o fin a b = KVal (cos_finish o fin (dot_spec o a b, dot_spec o a a, dot_spec o b b)) /\
    cosine_scalar o fin a b = cos_finish o fin (dot_spec o a b, dot_spec o a a, dot_spec o b b).
Proof. exact cosine_kernels_exact_l. Qed.

(* select_distance_fn / euclidean_squared: whichever kernel the CPU detection picks *)
Theorem dispatch_exact :
  forall (R : Type) (o : kops R) (one : R), ring_kops o one ->
  forall (fin : kfin R) (simd : bool) (a b : list R), length a = length b ->
    l2sq_dispatch o simd a b = KVal (l2sq_spec o a b) /\
    euclid_dispatch o fin simd a b = KVal (ksqrt fin (l2sq_spec o a b)) /\
    cosine_dispatch o fin simd a b =
      KVal (cos_finish o fin (dot_spec o a b, dot_spec o a a, dot_spec o b b)) /\
    inner_dispatch o simd a b = KVal (kopp o (dot_spec o a b)).
Proof. exact dispatch_exact_l. Qed.

(* the AVX2 kernels neither panic nor read out of bounds exactly when b is at least as long as a *)
Theorem avx2_value_iff :
  forall (R : Type) (o : kops R) (one : R), ring_kops o one ->
  forall a b : list R,
    ((length a <= length b)%nat -> l2sq_avx2 o a b = KVal (l2sq_spec o a b) /\ dot_avx2 o a b = KVal (dot_spec o a b)) /\
    ((length b < length a)%nat ->
       (l2sq_avx2 o a b = KPanic \/ l2sq_avx2 o a b = KUB) /\ (dot_avx2 o a b = KPanic \/ dot_avx2 o a b = KUB)).
Proof. exact avx2_value_iff_l. Qed.

(* the list of calls evaluated in the correspondence is the model's list *)
Theorem kern_model_shared_eq :
  forall simd a b, kern_model_shared simd a b = kern_model simd a b.
Proof. exact kern_model_shared_eq_l. Qed.

(* ---- ordering ---- *)

(* ORDER BY key LIMIT k as "sort (the insertion sort that models sort_by), keep k": for every
   comparison that is a total preorder, every k and every table: the rows returned and the rows
   left out partition the table, min(k, n) rows are returned, in non-decreasing order, and no
   row left out is smaller than a row returned *)
Theorem order_by_limit_k_smallest :
  forall (A : Type) (cmp : A -> A -> comparison), cmp_total_preorder cmp ->
  forall (k : nat) (rows : list A),
    let out := order_by_limit cmp k rows in
    let rest := skipn k (isort (c_less cmp) rows) in
    Permutation (out ++ rest) rows /\
    length out = Nat.min k (length rows) /\
    StronglySorted (cle cmp) out /\
    (forall x y, In x out -> In y rest -> cle cmp x y).
Proof. exact (@order_by_limit_ok). Qed.

(* the executor's ORDER BY vec <-> q / vec <=> q (no LIMIT): when no key is NaN (NULL keys -- a
   zero vector under <=> -- are allowed and are the least), the ids returned are the whole table
   in non-decreasing order of the key *)
Theorem sql_sort_sorted :
  forall metric q rows ids,
  (forall r, In r (keyed metric q rows) -> key_comparable (snd r) = true) ->
  sql_order metric q rows None = ROk ids ->
  exists out, ids = map fst out /\ Permutation out (keyed metric q rows) /\
              StronglySorted (cle row_cmp_rank) out.
Proof. exact sql_sort_sorted_l. Qed.

(* the executor's LIMIT k itself (TopK: array max-heap filled with the first k rows, sorted
   descending, root replaced + sift-down for every later smaller row, final ascending sort):
   for every total preorder, every k (k = 0: no row, no panic) and every input it returns
   min(k, n) rows in non-decreasing order, and no row left out is smaller than a row returned *)
Theorem topk_heap_k_smallest :
  forall (A : Type) (cmp : A -> A -> comparison), cmp_total_preorder cmp ->
  forall (k : nat) (rows : list A),
    exists out rest, topk cmp k rows = TOk out /\
      Permutation (out ++ rest) rows /\
      length out = Nat.min k (length rows) /\
      StronglySorted (cle cmp) out /\
      (forall x y, In x out -> In y rest -> cle cmp x y).
Proof. exact (@topk_ok). Qed.

(* ... instantiated: ORDER BY vec <-> q / vec <=> q LIMIT k in the executor model, every k, when
   no key is NaN (NULL keys allowed) *)
Theorem sql_topk_smallest :
  forall metric q rows k ids,
  (forall r, In r (keyed metric q rows) -> key_comparable (snd r) = true) ->
  sql_order metric q rows (Some k) = ROk ids ->
  exists out rest, ids = map fst out /\ Permutation (out ++ rest) (keyed metric q rows) /\
     length out = Nat.min (Z.to_nat k) (length rows) /\
     StronglySorted (cle row_cmp_rank) out /\
     (forall x y, In x out -> In y rest -> cle row_cmp_rank x y).
Proof. exact sql_topk_smallest_l. Qed.

(* ---- historical: the two defects found by this check, repaired in /repo ----
   F-C24-2 (before 1f0a068 `topk cmp 0 (x :: rows) = TPanic`): LIMIT 0 now returns no row *)
Theorem topk_limit0_empty :
  forall (A : Type) (cmp : A -> A -> comparison) rows, topk cmp 0 rows = TOk [].
Proof. exact topk_limit0_empty_l. Qed.

(* F-C24-1 (before 26fae1f this table came back as [1; 2; 3], distance 2 before distance 0):
   the NULL-distance row sorts first, the others follow in distance order *)
Theorem cosine_zero_vector_fixed :
  let rows := [(1, [-2; 0]); (2, [0; 0]); (3, [1; 0])]%Z in
  let q := [1; 0]%Z in
  sql_order 1 q rows None = ROk [2; 3; 1]%Z /\
  cos_key [0; 0]%Z q = SNull /\
  key_cmp (cos_key [1; 0]%Z q) (cos_key [-2; 0]%Z q) = Lt.
Proof. exact cosine_zero_vector_fixed_l. Qed.

(* ---- non-vacuity ---- *)
(* Z satisfies the ring hypothesis; the kernels on a length-11 vector (one chunk + tail of 3) *)
Example c24_ring_instance : ring_kops zops 1%Z.
Proof. exact zops_ring_l. Qed.
Example c24_witness :
  l2sq_avx2 zops [1;2;3;4;5;6;7;8;9;10;11]%Z [0;0;0;0;0;0;0;0;0;0;1]%Z = KVal 485%Z /\
  l2sq_scalar zops [1;2;3;4;5;6;7;8;9;10;11]%Z [0;0;0;0;0;0;0;0;0;0;1]%Z = 485%Z /\
  dot_avx2 zops [1;2;3]%Z [4;5]%Z = KPanic /\
  dot_avx2 zops [1;2;3;4;5;6;7;8]%Z [1;2;3]%Z = KUB /\
  sql_order 0 [1;0;0]%Z [(1,[3;0;0]);(2,[0;0;0]);(3,[1;1;0]);(4,[-2;0;0]);(5,[1;0;0])]%Z (Some 3%Z) = ROk [5;2;3]%Z /\
  cmp_total_preorder row_cmp_rank.
Proof. do 5 (split; [vm_compute; reflexivity|]). apply row_cmp_rank_preorder. Qed.

Check l2sq_kernels_exact :
  forall (R : Type) (o : kops R) (one : R), ring_kops o one ->
  forall a b : list R, length a = length b ->
    l2sq_avx2 o a b = KVal (l2sq_spec o a b) /\ l2sq_scalar o a b = l2sq_spec o a b.
Check dot_kernels_exact :
  forall (R : Type) (o : kops R) (one : R), ring_kops o one ->
  forall a b : list R, length a = length b ->
    dot_avx2 o a b = KVal (dot_spec o a b) /\ dot_scalar o a b = dot_spec o a b /\
    inner_avx2 o a b = KVal (kopp o (dot_spec o a b)) /\ inner_scalar o a b = kopp o (dot_spec o a b).
Check cosine_kernels_exact :
  forall (R : Type) (o : kops R) (one : R), ring_kops o one ->
  forall (fin : kfin R) (a b : list R), length a = length b ->
    cosine_avx2 o fin a b = KVal (cos_finish o fin (dot_spec o a b, dot_spec o a a, dot_spec o b b)) /\
    cosine_scalar o fin a b = cos_finish o fin (dot_spec o a b, dot_spec o a a, dot_spec o b b).
Check dispatch_exact :
  forall (R : Type) (o : kops R) (one : R), ring_kops o one ->
  forall (fin : kfin R) (simd : bool) (a b : list R), length a = length b ->
    l2sq_dispatch o simd a b = KVal (l2sq_spec o a b) /\
    euclid_dispatch o fin simd a b = KVal (ksqrt fin (l2sq_spec o a b)) /\
    cosine_dispatch o fin simd a b =
      KVal (cos_finish o fin (dot_spec o a b, dot_spec o a a, dot_spec o b b)) /\
    inner_dispatch o simd a b = KVal (kopp o (dot_spec o a b)).
Check avx2_value_iff :
  forall (R : Type) (o : kops R) (one : R), ring_kops o one ->
  forall a b : list R,
    ((length a <= length b)%nat -> l2sq_avx2 o a b = KVal (l2sq_spec o a b) /\ dot_avx2 o a b = KVal (dot_spec o a b)) /\
    ((length b < length a)%nat ->
       (l2sq_avx2 o a b = KPanic \/ l2sq_avx2 o a b = KUB) /\ (dot_avx2 o a b = KPanic \/ dot_avx2 o a b = KUB)).
Check kern_model_shared_eq :
  forall simd a b, kern_model_shared simd a b = kern_model simd a b.
Check order_by_limit_k_smallest :
  forall (A : Type) (cmp : A -> A -> comparison), cmp_total_preorder cmp ->
  forall (k : nat) (rows : list A),
    let out := order_by_limit cmp k rows in
    let rest := skipn k (isort (c_less cmp) rows) in
    Permutation (out ++ rest) rows /\
    length out = Nat.min k (length rows) /\
    StronglySorted (cle cmp) out /\
    (forall x y, In x out -> In y rest -> cle cmp x y).
Check sql_sort_sorted :
  forall metric q rows ids,
  (forall r, In r (keyed metric q rows) -> key_comparable (snd r) = true) ->
  sql_order metric q rows None = ROk ids ->
  exists out, ids = map fst out /\ Permutation out (keyed metric q rows) /\
              StronglySorted (cle row_cmp_rank) out.
Check topk_heap_k_smallest :
  forall (A : Type) (cmp : A -> A -> comparison), cmp_total_preorder cmp ->
  forall (k : nat) (rows : list A),
    exists out rest, topk cmp k rows = TOk out /\
      Permutation (out ++ rest) rows /\
      length out = Nat.min k (length rows) /\
      StronglySorted (cle cmp) out /\
      (forall x y, In x out -> In y rest -> cle cmp x y).
Check sql_topk_smallest :
  forall metric q rows k ids,
  (forall r, In r (keyed metric q rows) -> key_comparable (snd r) = true) ->
  sql_order metric q rows (Some k) = ROk ids ->
  exists out rest, ids = map fst out /\ Permutation (out ++ rest) (keyed metric q rows) /\
     length out = Nat.min (Z.to_nat k) (length rows) /\
     StronglySorted (cle row_cmp_rank) out /\
     (forall x y, In x out -> In y rest -> cle row_cmp_rank x y).
Check topk_limit0_empty :
  forall (A : Type) (cmp : A -> A -> comparison) rows, topk cmp 0 rows = TOk [].
Check cosine_zero_vector_fixed :
  let rows := [(1, [-2; 0]); (2, [0; 0]); (3, [1; 0])]%Z in
  let q := [1; 0]%Z in
  sql_order 1 q rows None = ROk [2; 3; 1]%Z /\
  cos_key [0; 0]%Z q = SNull /\
  key_cmp (cos_key [1; 0]%Z q) (cos_key [-2; 0]%Z q) = Lt.

Print Assumptions l2sq_kernels_exact.
Print Assumptions dot_kernels_exact.
Print Assumptions cosine_kernels_exact.
Print Assumptions dispatch_exact.
Print Assumptions avx2_value_iff.
Print Assumptions kern_model_shared_eq.
Print Assumptions order_by_limit_k_smallest.
Print Assumptions sql_sort_sorted.
Print Assumptions topk_heap_k_smallest.
Print Assumptions sql_topk_smallest.
Print Assumptions topk_limit0_empty.
Print Assumptions cosine_zero_vector_fixed.
