(* C26 specification side: the values an index key can hold, which of them are the same value
   (canon), the documented order on them (vcmp) and the bytewise order on keys (lex_cmp).
   Nothing here mentions how the code encodes anything.  Definitions only.

   Conventions: bytes are Z in [0,256); floats travel as their IEEE-754 bit patterns
   (f64: Z in [0,2^64), f32: Z in [0,2^32)); text is its UTF-8 byte string. *)
From Coq Require Import ZArith List Bool.
From TV Require Import Lib.MachInt.
Import ListNotations.
Open Scope Z_scope.

(* ------------------------------------------------------------------ values *)
Inductive json :=
| JNull
| JBool (b : bool)
| JNum (bits : Z)                       (* f64 bit pattern *)
| JStr (s : list Z)
| JArr (l : list json)
| JObj (l : list (list Z * json)).      (* entries in the given order *)

(* scalar (non-nesting) key values.  SNegInf / SPosInf / SNan only ever come OUT of the
   decoder (DecodedKey::NegInfinity / PosInfinity / Nan); they are not inputs (wf = false). *)
Inductive sval :=
| SNull
| SBool (b : bool)
| SInt (n : Z)                          (* i64 *)
| SFloat (bits : Z)                     (* f64 bit pattern *)
| SNegInf | SPosInf | SNan
| SText (s : list Z)
| SBlob (s : list Z)
| SDate (d : Z)                         (* i32 days *)
| STime (t : Z)                         (* i64 micros *)
| STimestamp (t : Z)
| STimestampTz (t tz : Z)               (* i64 micros, i16 offset minutes *)
| SInterval (months days micros : Z)    (* i32, i32, i64 *)
| SUuid (u : list Z)                    (* 16 bytes *)
| SInet (v6 : bool) (addr : list Z) (plen : Z)
| SMac (m : list Z)                     (* 6 bytes *)
| SEnum (tid ord : Z)                   (* u32, u32 *)
| SVector (l : list Z)                  (* f32 bit patterns *)
| SJson (j : json).

Inductive kval :=
| KS (s : sval)
| KArray (l : list kval)
| KTuple (l : list kval)
| KRange (lo hi : option kval) (li ui : bool)
| KComposite (tid : Z) (l : list kval)
| KDomain (tid : Z) (v : kval).

(* ------------------------------------------------------------------ float bit patterns *)
Definition INF64 : Z := 9218868437227405312.        (* 0x7FF0_0000_0000_0000 *)
Definition SIGN64 : Z := 9223372036854775808.       (* 2^63 *)
Definition INF32 : Z := 2139095040.                 (* 0x7F80_0000 *)
Definition SIGN32 : Z := 2147483648.                (* 2^31 *)

Definition mag64 (b : Z) : Z := b mod SIGN64.
Definition neg64 (b : Z) : bool := SIGN64 <=? b.
Definition is_nan64 (b : Z) : bool := INF64 <? mag64 b.
(* the real number order on non-NaN patterns: sign-magnitude, -0.0 = +0.0 *)
Definition sm64 (b : Z) : Z := if neg64 b then - mag64 b else mag64 b.
(* IEEE-754 totalOrder on all patterns: -NaN < -inf < ... < -0.0 < +0.0 < ... < +inf < +NaN *)
Definition tot64 (b : Z) : Z := if neg64 b then - mag64 b - 1 else mag64 b.

Definition mag32 (b : Z) : Z := b mod SIGN32.
Definition neg32 (b : Z) : bool := SIGN32 <=? b.
Definition is_nan32 (b : Z) : bool := INF32 <? mag32 b.
Definition sm32 (b : Z) : Z := if neg32 b then - mag32 b else mag32 b.
Definition tot32 (b : Z) : Z := if neg32 b then - mag32 b - 1 else mag32 b.

(* ------------------------------------------------------------------ well-formed inputs *)
Definition cont (b : Z) : bool := (128 <=? b) && (b <=? 191).
(* well-formed UTF-8 (Unicode table 3-7), what Rust's String::from_utf8 accepts *)
Fixpoint utf8_valid (s : list Z) : bool :=
  match s with
  | [] => true
  | b :: t =>
    if b <=? 127 then utf8_valid t
    else if (194 <=? b) && (b <=? 223) then
      match t with c1 :: t' => cont c1 && utf8_valid t' | _ => false end
    else if b =? 224 then
      match t with c1 :: c2 :: t' => (160 <=? c1) && (c1 <=? 191) && cont c2 && utf8_valid t' | _ => false end
    else if ((225 <=? b) && (b <=? 236)) || (b =? 238) || (b =? 239) then
      match t with c1 :: c2 :: t' => cont c1 && cont c2 && utf8_valid t' | _ => false end
    else if b =? 237 then
      match t with c1 :: c2 :: t' => (128 <=? c1) && (c1 <=? 159) && cont c2 && utf8_valid t' | _ => false end
    else if b =? 240 then
      match t with c1 :: c2 :: c3 :: t' => (144 <=? c1) && (c1 <=? 191) && cont c2 && cont c3 && utf8_valid t' | _ => false end
    else if (241 <=? b) && (b <=? 243) then
      match t with c1 :: c2 :: c3 :: t' => cont c1 && cont c2 && cont c3 && utf8_valid t' | _ => false end
    else if b =? 244 then
      match t with c1 :: c2 :: c3 :: t' => (128 <=? c1) && (c1 <=? 143) && cont c2 && cont c3 && utf8_valid t' | _ => false end
    else false
  end.

Definition text_ok (s : list Z) : bool := bytes_ok s && utf8_valid s.
Definition len_is (s : list Z) (n : Z) : bool := blen s =? n.

Fixpoint jwf (j : json) : bool :=
  match j with
  | JNull | JBool _ => true
  | JNum b => in_u 64 b
  | JStr s => text_ok s
  | JArr l => forallb jwf l
  | JObj l => forallb (fun e => text_ok (fst e) && jwf (snd e)) l
  end.

Definition swf (v : sval) : bool :=
  match v with
  | SNull | SBool _ => true
  | SInt n => in_s 64 n
  | SFloat b => in_u 64 b
  | SNegInf | SPosInf | SNan => false
  | SText s => text_ok s
  | SBlob s => bytes_ok s
  | SDate d => in_s 32 d
  | STime t | STimestamp t => in_s 64 t
  | STimestampTz t tz => in_s 64 t && in_s 16 tz
  | SInterval mo d us => in_s 32 mo && in_s 32 d && in_s 64 us
  | SUuid u => bytes_ok u && len_is u 16
  | SInet v6 a p => bytes_ok a && len_is a (if v6 then 16 else 4) && in_u 8 p
  | SMac m => bytes_ok m && len_is m 6
  | SEnum t o => in_u 32 t && in_u 32 o
  | SVector l => forallb (in_u 32) l && (blen l <? 2 ^ 32)
  | SJson j => jwf j
  end.

Definition owf (f : kval -> bool) (o : option kval) : bool :=
  match o with Some v => f v | None => true end.

Fixpoint kwf (v : kval) : bool :=
  match v with
  | KS s => swf s
  | KArray l | KTuple l => forallb kwf l
  | KRange lo hi _ _ => owf kwf lo && owf kwf hi
  | KComposite t l => in_u 32 t && forallb kwf l
  | KDomain t v => in_u 32 t && kwf v
  end.

(* ------------------------------------------------------------------ which values are the same value
   canon v is what the documentation promises a decode of v's key returns:
   integer 0, +0.0 and -0.0 are one value (returned as Int 0, "type information lost");
   every NaN pattern is the one value NaN; the infinities get their own constructors.
   Everything else is itself. *)
Definition scanon (v : sval) : sval :=
  match v with
  | SFloat b =>
      if is_nan64 b then SNan
      else if b =? SIGN64 + INF64 then SNegInf
      else if b =? INF64 then SPosInf
      else if mag64 b =? 0 then SInt 0
      else SFloat b
  | _ => v
  end.

Fixpoint canon (v : kval) : kval :=
  match v with
  | KS s => KS (scanon s)
  | KArray l => KArray (map canon l)
  | KTuple l => KTuple (map canon l)
  | KRange lo hi li ui => KRange (option_map canon lo) (option_map canon hi) li ui
  | KComposite t l => KComposite t (map canon l)
  | KDomain t v => KDomain t (canon v)
  end.

(* ------------------------------------------------------------------ orders *)
Definition cthen (c : comparison) (d : comparison) : comparison :=
  match c with Eq => d | _ => c end.

Fixpoint lex_cmp (a b : list Z) : comparison :=
  match a, b with
  | [], [] => Eq
  | [], _ :: _ => Lt
  | _ :: _, [] => Gt
  | x :: a', y :: b' => cthen (x ?= y) (lex_cmp a' b')
  end.

(* lexicographic order of two sequences under an element order; shorter-is-smaller *)
Fixpoint lex_by {A} (cmp : A -> A -> comparison) (a b : list A) : comparison :=
  match a, b with
  | [], [] => Eq
  | [], _ :: _ => Lt
  | _ :: _, [] => Gt
  | x :: a', y :: b' => cthen (cmp x y) (lex_by cmp a' b')
  end.

Definition bool_cmp (a b : bool) : comparison :=
  match a, b with false, true => Lt | true, false => Gt | _, _ => Eq end.

(* JSON: kinds null < false < true < number < string < array < object; numbers by IEEE
   totalOrder on patterns, strings bytewise, arrays and objects lexicographic. *)
Definition jkind (j : json) : Z :=
  match j with
  | JNull => 0 | JBool false => 1 | JBool true => 2 | JNum _ => 3 | JStr _ => 4 | JArr _ => 5 | JObj _ => 6
  end.

Fixpoint jcmp (a b : json) : comparison :=
  match a, b with
  | JNum x, JNum y => tot64 x ?= tot64 y
  | JStr x, JStr y => lex_cmp x y
  | JArr x, JArr y =>
      (fix go (x y : list json) : comparison :=
         match x, y with
         | [], [] => Eq | [], _ :: _ => Lt | _ :: _, [] => Gt
         | p :: x', q :: y' => cthen (jcmp p q) (go x' y')
         end) x y
  | JObj x, JObj y =>
      (fix go (x y : list (list Z * json)) : comparison :=
         match x, y with
         | [], [] => Eq | [], _ :: _ => Lt | _ :: _, [] => Gt
         | (k1, p) :: x', (k2, q) :: y' => cthen (lex_cmp k1 k2) (cthen (jcmp p q) (go x' y'))
         end) x y
  | _, _ => jkind a ?= jkind b
  end.

(* the documented class order (module doc of src/encoding/key.rs):
   NULL < FALSE < TRUE < -inf < negative ints < negative floats < zero < positive floats <
   positive ints < +inf < NaN < TEXT < BLOB < DATE < TIME < TIMESTAMP < TIMESTAMPTZ <
   INTERVAL < UUID < INET < MACADDR < JSON (null..object) < ARRAY < TUPLE < RANGE < ENUM <
   COMPOSITE < DOMAIN < VECTOR *)
Definition fclass (b : Z) : Z :=
  if is_nan64 b then 10
  else if mag64 b =? 0 then 6
  else if neg64 b then (if mag64 b =? INF64 then 3 else 5)
  else (if mag64 b =? INF64 then 9 else 7).

Definition sclass (v : sval) : Z :=
  match v with
  | SNull => 0
  | SBool false => 1 | SBool true => 2
  | SNegInf => 3
  | SInt n => if n <? 0 then 4 else if n =? 0 then 6 else 8
  | SFloat b => fclass b
  | SPosInf => 9 | SNan => 10
  | SText _ => 11 | SBlob _ => 12 | SDate _ => 13 | STime _ => 14 | STimestamp _ => 15
  | STimestampTz _ _ => 16 | SInterval _ _ _ => 17 | SUuid _ => 18 | SInet _ _ _ => 19 | SMac _ => 20
  | SJson j => 21 + jkind j
  | SEnum _ _ => 31
  | SVector _ => 34
  end.

Definition kclass (v : kval) : Z :=
  match v with
  | KS s => sclass s
  | KArray _ => 28 | KTuple _ => 29 | KRange _ _ _ _ => 30 | KComposite _ _ => 32 | KDomain _ _ => 33
  end.

(* order inside one class *)
Definition swithin (a b : sval) : comparison :=
  match a, b with
  | SInt x, SInt y => x ?= y
  | SFloat x, SFloat y => if is_nan64 x then Eq else sm64 x ?= sm64 y
  | SText x, SText y | SBlob x, SBlob y | SUuid x, SUuid y | SMac x, SMac y => lex_cmp x y
  | SDate x, SDate y | STime x, STime y | STimestamp x, STimestamp y => x ?= y
  | STimestampTz x1 x2, STimestampTz y1 y2 => cthen (x1 ?= y1) (x2 ?= y2)
  | SInterval x1 x2 x3, SInterval y1 y2 y3 => cthen (x1 ?= y1) (cthen (x2 ?= y2) (x3 ?= y3))
  | SInet f1 a1 p1, SInet f2 a2 p2 => cthen (bool_cmp f1 f2) (cthen (p1 ?= p2) (lex_cmp a1 a2))
  | SEnum t1 o1, SEnum t2 o2 => cthen (t1 ?= t2) (o1 ?= o2)
  | SVector x, SVector y =>
      cthen (blen x ?= blen y) (lex_by (fun p q => tot32 p ?= tot32 q) x y)
  | SJson x, SJson y => jcmp x y
  | _, _ => Eq       (* same class, different constructor: the zeros, infinities, NaNs *)
  end.

Definition scmp (a b : sval) : comparison := cthen (sclass a ?= sclass b) (swithin a b).

Definition ocmp (cmp : kval -> kval -> comparison) (a b : option kval) : comparison :=
  match a, b with
  | None, None => Eq | None, Some _ => Lt | Some _, None => Gt | Some x, Some y => cmp x y
  end.

(* the value order on nested values: class first, then element-wise; a RANGE has no
   documented order (vcmp gives Eq for two ranges; ranges are excluded from every order claim) *)
Fixpoint vcmp (a b : kval) : comparison :=
  match a, b with
  | KS x, KS y => scmp x y
  | KArray x, KArray y | KTuple x, KTuple y =>
      (fix go (x y : list kval) : comparison :=
         match x, y with
         | [], [] => Eq | [], _ :: _ => Lt | _ :: _, [] => Gt
         | p :: x', q :: y' => cthen (vcmp p q) (go x' y')
         end) x y
  | KComposite t1 x, KComposite t2 y =>
      cthen (t1 ?= t2)
      ((fix go (x y : list kval) : comparison :=
         match x, y with
         | [], [] => Eq | [], _ :: _ => Lt | _ :: _, [] => Gt
         | p :: x', q :: y' => cthen (vcmp p q) (go x' y')
         end) x y)
  | KDomain t1 x, KDomain t2 y => cthen (t1 ?= t2) (vcmp x y)
  | _, _ => kclass a ?= kclass b
  end.

(* composite (multi-column) keys: column by column *)
Definition tcmp (xs ys : list kval) : comparison := lex_by vcmp xs ys.

(* values whose mutual order the property speaks about: no RANGE anywhere *)
Fixpoint orderable (v : kval) : bool :=
  match v with
  | KS _ => true
  | KArray l | KTuple l | KComposite _ l => forallb orderable l
  | KRange _ _ _ _ => false
  | KDomain _ v => orderable v
  end.
