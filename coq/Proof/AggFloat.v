(* C16: SUM / AVG over doubles.  round_q (Model/SqlSpecAgg.v: the meaning given to f64 `+`) is exact on
   dyadic values that fit in 53 bits, so over "safe" doubles (multiples of 2^-10 below 2^33, fewer
   than 1024 of them) every `self.sum_float += f` of AggregateState::update is exact and the fold ends
   with the exact sum -- the reference SUM; AVG divides it by the count with the same f_div. *)
From Coq Require Import ZArith List Bool Lia ZifyBool.
From TV Require Import Model.SqlSpecAgg Model.AggImpl Model.AggClass Proof.AggFold Proof.AggFoldSpec.
Import ListNotations.
Open Scope Z_scope.

(* ------------------------------------------------------------------ the double with value k * 2^-10 *)
Definition enc_dy (k : Z) : Z :=
  if k =? 0 then 0 else
  let n0 := Z.abs k in
  let l := Z.log2 n0 in
  (if k <? 0 then 2 ^ 63 else 0) + ((l + 1012) * 2 ^ 52 + n0 * 2 ^ (52 - l)).

Lemma pow_split a b : 0 <= a -> 0 <= b -> 2 ^ (a + b) = 2 ^ a * 2 ^ b.
Proof. intros; apply Z.pow_add_r; lia. Qed.

Lemma round_q_dy : forall k, Z.abs k < 2 ^ 53 -> round_q (k * 2 ^ 1064) (2 ^ 1074) = enc_dy k.
Proof.
  intros k Hk. unfold round_q, enc_dy.
  destruct (k =? 0) eqn:K0.
  - apply Z.eqb_eq in K0. subst. reflexivity.
  - apply Z.eqb_neq in K0.
    assert (P1064 : 0 < 2 ^ 1064) by (apply Z.pow_pos_nonneg; lia).
    replace (k * 2 ^ 1064 =? 0) with false by (symmetry; apply Z.eqb_neq; nia).
    set (n0 := Z.abs k). assert (Hn0 : 0 < n0) by (unfold n0; lia).
    set (l := Z.log2 n0).
    assert (Hl : 0 <= l) by apply Z.log2_nonneg.
    destruct (Z.log2_spec n0 Hn0) as [L1 L2]. fold l in L1, L2.
    assert (Hl52 : l <= 52).
    { destruct (Z_le_gt_dec l 52); [assumption|]. exfalso.
      assert (2 ^ 53 <= 2 ^ l) by (apply Z.pow_le_mono_r; lia). unfold n0 in *. lia. }
    replace (Z.abs (k * 2 ^ 1064)) with (n0 * 2 ^ 1064) by (unfold n0; rewrite Z.abs_mul; f_equal; lia).
    rewrite (Z.log2_mul_pow2 n0 1064 Hn0) by lia. fold l.
    rewrite (Z.log2_pow2 1074) by lia.
    replace (1064 + l - 1074 - 52) with (l - 62) by lia.
    set (P := 2 ^ (52 - l)). assert (HP : 0 < P) by (apply Z.pow_pos_nonneg; lia).
    assert (F1 : 2 ^ 1064 * 2 ^ (- (l - 62)) = P * 2 ^ 1074).
    { unfold P. rewrite <- !pow_split by lia. f_equal. lia. }
    assert (F3 : 2 ^ l * P = 2 ^ 52) by (unfold P; rewrite <- pow_split by lia; f_equal; lia).
    assert (F4 : 2 ^ (Z.succ l) * P = 2 ^ 53) by (unfold P; rewrite <- pow_split by lia; f_equal; lia).
    assert (Q1 : 2 ^ 52 <= n0 * P) by nia.
    assert (Q2 : n0 * P < 2 ^ 53) by nia.
    assert (P1074 : 0 < 2 ^ 1074) by (apply Z.pow_pos_nonneg; lia).
    replace (0 <=? l - 62) with false by lia.
    assert (E1 : n0 * 2 ^ 1064 * 2 ^ (- (l - 62)) = n0 * P * 2 ^ 1074) by (rewrite <- (Z.mul_assoc n0 (2 ^ 1064)), F1; ring).
    rewrite !E1. rewrite !Z.div_mul by lia.
    replace (n0 * P <? 2 ^ 52) with false by lia.
    replace (Z.max (l - 62) (-1074)) with (l - 62) by lia.
    replace (0 <=? l - 62) with false by lia.
    rewrite !E1. rewrite !Z.div_mul by lia. rewrite !Z.mod_mul by lia.
    replace (2 ^ 1074 <? 2 * 0) with false by lia.
    replace (2 * 0 =? 2 ^ 1074) with false by lia. cbn [orb andb].
    replace (l - 62 + 1074) with (l + 1012) by lia.
    assert (B : (l + 1012) * 2 ^ 52 + n0 * P < 2047 * 2 ^ 52) by (change (2 ^ 52) with 4503599627370496 in *; change (2 ^ 53) with 9007199254740992 in *; lia).
    replace (2047 * 2 ^ 52 <=? (l + 1012) * 2 ^ 52 + n0 * P) with false by lia.
    replace (k * 2 ^ 1064 <? 0) with (k <? 0) by (destruct (k <? 0) eqn:E; symmetry; [apply Z.ltb_lt; nia|apply Z.ltb_ge; nia]).
    reflexivity.
Qed.

Ltac Zify.zify_post_hook ::= Z.to_euclidean_division_equations.

Lemma enc_dy_fields : forall k, k <> 0 -> Z.abs k < 2 ^ 53 ->
  let l := Z.log2 (Z.abs k) in
  f_ok (enc_dy k) = true /\
  f_sign (enc_dy k) = (if k <? 0 then 1 else 0) /\
  f_exp (enc_dy k) = l + 1013 /\
  f_frac (enc_dy k) = Z.abs k * 2 ^ (52 - l) - 2 ^ 52.
Proof.
  intros k K0 Hk l. unfold enc_dy. replace (k =? 0) with false by lia. fold l.
  set (n0 := Z.abs k) in *. assert (Hn0 : 0 < n0) by (unfold n0; lia).
  assert (Hl : 0 <= l) by apply Z.log2_nonneg.
  destruct (Z.log2_spec n0 Hn0) as [L1 L2]. fold l in L1, L2.
  assert (Hl52 : l <= 52).
  { destruct (Z_le_gt_dec l 52); [assumption|]. exfalso.
    assert (2 ^ 53 <= 2 ^ l) by (apply Z.pow_le_mono_r; lia). lia. }
  set (P := 2 ^ (52 - l)). assert (HP : 0 < P) by (apply Z.pow_pos_nonneg; lia).
  assert (F3 : 2 ^ l * P = 2 ^ 52) by (unfold P; rewrite <- pow_split by lia; f_equal; lia).
  assert (F4 : 2 ^ (Z.succ l) * P = 2 ^ 53) by (unfold P; rewrite <- pow_split by lia; f_equal; lia).
  assert (Q1 : 2 ^ 52 <= n0 * P) by nia.
  assert (Q2 : n0 * P < 2 ^ 53) by nia.
  set (M := n0 * P) in *. clearbody M. clear F3 F4 L1 L2 HP. clearbody P. clearbody l.
  unfold f_ok, f_sign, f_exp, f_frac.
  change (2 ^ 64) with 18446744073709551616. change (2 ^ 63) with 9223372036854775808.
  change (2 ^ 52) with 4503599627370496 in *. change (2 ^ 53) with 9007199254740992 in *. change (2 ^ 11) with 2048.
  destruct (k <? 0); repeat split; lia.
Qed.


Lemma enc_dy_scaled : forall k, Z.abs k < 2 ^ 53 ->
  f_scaled (enc_dy k) = k * 2 ^ 1064 /\ f_finite (enc_dy k) = true /\ (f_is_zero (enc_dy k) = (k =? 0)).
Proof.
  intros k Hk. destruct (Z.eq_dec k 0) as [->|K0]; [repeat split; reflexivity|].
  destruct (enc_dy_fields k K0 Hk) as [Ok [Sg [Ex Fr]]]. cbv zeta in *.
  set (l := Z.log2 (Z.abs k)) in *.
  assert (Hl : 0 <= l) by apply Z.log2_nonneg.
  assert (Hn0 : 0 < Z.abs k) by lia.
  destruct (Z.log2_spec (Z.abs k) Hn0) as [L1 L2]. fold l in L1, L2.
  assert (Hl52 : l <= 52).
  { destruct (Z_le_gt_dec l 52); [assumption|]. exfalso.
    assert (2 ^ 53 <= 2 ^ l) by (apply Z.pow_le_mono_r; lia). lia. }
  split; [|split].
  - unfold f_scaled. rewrite Sg, Ex, Fr.
    replace (l + 1013 =? 0) with false by lia.
    replace (2 ^ 52 + (Z.abs k * 2 ^ (52 - l) - 2 ^ 52)) with (Z.abs k * 2 ^ (52 - l)) by lia.
    replace (l + 1013 - 1) with (l + 1012) by lia.
    assert (E : 2 ^ (52 - l) * 2 ^ (l + 1012) = 2 ^ 1064) by (rewrite <- pow_split by lia; f_equal; lia).
    destruct (k <? 0) eqn:Kn.
    + replace ((1 =? 0)) with false by reflexivity. cbn iota.
      replace (-1 * (Z.abs k * 2 ^ (52 - l)) * 2 ^ (l + 1012)) with (- Z.abs k * (2 ^ (52 - l) * 2 ^ (l + 1012))) by ring.
      rewrite E. f_equal. lia.
    + replace ((0 =? 0)) with true by reflexivity. cbn iota.
      replace (1 * (Z.abs k * 2 ^ (52 - l)) * 2 ^ (l + 1012)) with (Z.abs k * (2 ^ (52 - l) * 2 ^ (l + 1012))) by ring.
      rewrite E. f_equal. lia.
  - unfold f_finite. rewrite Ok, Ex. replace (l + 1013 =? 2047) with false by lia. reflexivity.
  - replace (k =? 0) with false by lia.
    unfold f_is_zero, enc_dy. replace (k =? 0) with false by lia. fold l.
    assert (0 < 2 ^ (52 - l)) by (apply Z.pow_pos_nonneg; lia).
    assert (F3 : 2 ^ l * 2 ^ (52 - l) = 2 ^ 52) by (rewrite <- pow_split by lia; f_equal; lia).
    assert (F4 : 2 ^ (Z.succ l) * 2 ^ (52 - l) = 2 ^ 53) by (rewrite <- pow_split by lia; f_equal; lia).
    assert (Q1 : 2 ^ 52 <= Z.abs k * 2 ^ (52 - l)) by nia.
    assert (Q2 : Z.abs k * 2 ^ (52 - l) < 2 ^ 53) by nia.
    set (M := Z.abs k * 2 ^ (52 - l)) in *. clearbody M.
    change (2 ^ 63) with 9223372036854775808. change (2 ^ 52) with 4503599627370496 in *. change (2 ^ 53) with 9007199254740992 in *.
    apply Z.eqb_neq. destruct (k <? 0); intro E; apply Z.mod_divide in E; try lia; destruct E as [c Ec]; lia.
Qed.

(* a safe double is k * 2^-10 with |k| < 2^43 *)
Definition kof (b : Z) : Z := f_scaled b / 2 ^ 1064.
Lemma f_safe_k : forall b, f_safe b = true ->
  f_scaled b = kof b * 2 ^ 1064 /\ Z.abs (kof b) < 2 ^ 43 /\ f_finite b = true.
Proof.
  intros b H. unfold f_safe in H. apply andb_true_iff in H as [H H3]. apply andb_true_iff in H as [H1 H2].
  apply Z.eqb_eq in H2. apply Z.ltb_lt in H3.
  assert (P : 0 < 2 ^ 1064) by (apply Z.pow_pos_nonneg; lia).
  assert (E : f_scaled b = kof b * 2 ^ 1064).
  { unfold kof. rewrite (Z.div_mod (f_scaled b) (2 ^ 1064)) at 1 by lia. rewrite H2. lia. }
  split; [exact E|]. split; [|exact H1].
  assert (S : 2 ^ 1107 = 2 ^ 43 * 2 ^ 1064) by (rewrite <- pow_split by lia; reflexivity).
  rewrite E, S in H3. rewrite Z.abs_mul in H3. rewrite (Z.abs_eq (2 ^ 1064)) in H3 by lia.
  apply Z.mul_lt_mono_pos_r in H3; assumption.
Qed.

Definition ksum (fs : list Z) : Z := zsum (map kof fs).
Lemma ksum_scaled : forall fs, forallb f_safe fs = true -> zsum (map f_scaled fs) = ksum fs * 2 ^ 1064.
Proof.
  induction fs as [|b t IH]; intros H; [reflexivity|]. cbn [forallb] in H. apply andb_true_iff in H as [H1 H2].
  unfold ksum in *. cbn [map]. rewrite !zsum_cons, (IH H2). destruct (f_safe_k b H1) as [E _]. rewrite E. ring.
Qed.
Lemma ksum_bound : forall fs, forallb f_safe fs = true -> Z.abs (ksum fs) <= 2 ^ 43 * zlen fs.
Proof.
  induction fs as [|b t IH]; intros H; [unfold ksum, zlen; cbn; lia|]. cbn [forallb] in H. apply andb_true_iff in H as [H1 H2].
  unfold ksum in *. cbn [map]. rewrite zsum_cons, zlen_cons. destruct (f_safe_k b H1) as [_ [B _]]. specialize (IH H2). lia.
Qed.

Lemma f_add_enc : forall K x, Z.abs K < 2 ^ 53 -> f_safe x = true -> Z.abs (K + kof x) < 2 ^ 53 ->
  f_add (enc_dy K) x = Some (enc_dy (K + kof x)).
Proof.
  intros K x HK Hx Hs. destruct (enc_dy_scaled K HK) as [S [F _]]. destruct (f_safe_k x Hx) as [Sx [_ Fx]].
  unfold f_add. rewrite F, Fx. cbn [andb]. f_equal. rewrite S, Sx.
  replace (K * 2 ^ 1064 + kof x * 2 ^ 1064) with ((K + kof x) * 2 ^ 1064) by ring.
  now apply round_q_dy.
Qed.

(* SUM / AVG over safe doubles: every `+=` is exact *)
Lemma fold_sum_float : forall (avg : bool) vs fs s K,
  floats_of (nonnull vs) = Some fs -> forallb f_safe fs = true ->
  st_sumf s = enc_dy K -> Z.abs K + 2 ^ 43 * zlen fs < 2 ^ 53 ->
  exists s', fold_upd (if avg then KAvg else KSum) s (map Some vs) = SOk s' /\
             st_sumf s' = enc_dy (K + ksum fs) /\ st_sum s' = st_sum s /\
             st_count s' = st_count s + (if avg then zlen fs else 0) /\
             st_seen s' = (if avg then st_seen s else st_seen s || match fs with [] => false | _ => true end).
Proof.
  intros avg. induction vs as [|v t IH]; intros fs s K H Sf E B.
  - cbn in H; injection H as <-. exists s. unfold ksum, zlen. cbn [map fold_upd zsum fold_right length].
    split; [reflexivity|]. split; [rewrite E; f_equal; lia|]. split; [reflexivity|]. split; [destruct avg; lia|destruct avg; [reflexivity|now rewrite orb_false_r]].
  - destruct (floats_of_nonnull_cons _ _ _ H) as [[-> H']|[b [fs' [-> [-> H']]]]].
    + cbn [map fold_upd]. replace (upd (if avg then KAvg else KSum) s (Some VNull)) with (SOk s) by (destruct avg; reflexivity).
      cbn [sbind]. now apply IH.
    + cbn [forallb] in Sf. apply andb_true_iff in Sf as [Sb Sf']. rewrite zlen_cons in B.
      destruct (f_safe_k b Sb) as [_ [Bb _]]. pose proof (zlen_nonneg fs').
      assert (HK : Z.abs K < 2 ^ 53) by lia.
      assert (HK' : Z.abs (K + kof b) < 2 ^ 53) by lia.
      pose proof (f_add_enc K b HK Sb HK') as FA.
      destruct (enc_dy_scaled (K + kof b) HK') as [_ [Fin _]].
      set (s1 := with_sumf s (enc_dy (K + kof b))).
      set (s2 := if avg then with_count s1 (st_count s1 + 1) else with_seen s1 true).
      assert (U : upd (if avg then KAvg else KSum) s (Some (VFloat b)) = SOk s2).
      { unfold s2, s1. destruct avg; cbn [upd]; unfold add_float; rewrite E, FA, Fin; reflexivity. }
      cbn [map fold_upd]. rewrite U. cbn [sbind].
      destruct (IH fs' s2 (K + kof b) H' Sf') as [s' [F [A1 [A2 [A3 A4]]]]].
      * unfold s2, s1. destruct avg; reflexivity.
      * lia.
      * exists s'. split; [exact F|]. unfold ksum in *. cbn [map]. rewrite zsum_cons.
        split; [rewrite A1; f_equal; lia|]. split; [rewrite A2; unfold s2, s1; destruct avg; reflexivity|].
        split; [rewrite A3; unfold s2, s1; destruct avg; cbn [with_count with_sumf with_seen st_count]; rewrite ?zlen_cons; lia|].
        rewrite A4. unfold s2, s1. destruct avg; cbn [with_count with_sumf with_seen st_seen]; [reflexivity|]. now rewrite orb_true_r.
Qed.

(* the result of the fold matches the reference: equal, or equal as SQL values (a zero sum of doubles
   is returned as the integer 0) *)
Definition val_match (a b : value) : Prop := a = b \/ val_equiv a b = true.

Theorem agg_fold_float_sum : forall f vs fs v,
  (f = FSum \/ f = FAvg) -> floats_of (nonnull vs) = Some fs -> fs <> [] ->
  agg_vals f vs = AVal v ->
  exists s, fold_upd (kind_of_fn f) st0 (map Some vs) = SOk s /\ val_match (fin (kind_of_fn f) s) v.
Proof.
  intros f vs fs v Hf F Ne A.
  assert (NN : nonnull vs = map VFloat fs) by now apply floats_of_map.
  destruct fs as [|b0 ft]; [congruence|].
  assert (I : ints_of (nonnull vs) = None) by (rewrite NN; reflexivity).
  assert (Hsd : forall a, sum_double (nonnull vs) = Some a -> forallb f_safe (b0 :: ft) = true /\ zlen (b0 :: ft) < 1024 /\ a = enc_dy (ksum (b0 :: ft)) /\ Z.abs (ksum (b0 :: ft)) < 2 ^ 53).
  { intros a Sd. unfold sum_double in Sd. rewrite I, F in Sd. unfold float_sum_exact in Sd.
    destruct (forallb f_safe (b0 :: ft)) eqn:Sf; [|discriminate]. destruct (zlen (b0 :: ft) <? 1024) eqn:L; [|discriminate].
    assert (Ea : a = round_q (zsum (map f_scaled (b0 :: ft))) (2 ^ 1074)).
    { change (Some (round_q (zsum (map f_scaled (b0 :: ft))) (2 ^ 1074)) = Some a) in Sd. congruence. }
    clear Sd. subst a. apply Z.ltb_lt in L.
    pose proof (ksum_bound _ Sf) as B.
    assert (HB : Z.abs (ksum (b0 :: ft)) < 2 ^ 53) by (change (2 ^ 53) with (2 ^ 43 * 1024); change (2 ^ 43) with 8796093022208 in *; lia).
    repeat split; auto. rewrite (ksum_scaled _ Sf). now apply round_q_dy. }
  destruct Hf as [-> | ->]; cbn [kind_of_fn agg_vals] in *.
  - unfold sum_spec in A. destruct (nonnull vs) as [|x nn] eqn:Nn; [rewrite NN in Nn; discriminate|].
    rewrite I in A. destruct (sum_double (x :: nn)) as [a|] eqn:Sd; [|discriminate]. injection A as <-. rewrite <- Nn in F.
    destruct (Hsd a eq_refl) as [Sf [L [-> HB]]].
    destruct (fold_sum_float false vs (b0 :: ft) st0 0 F Sf eq_refl) as [s [E [A1 [A2 [A3 A4]]]]].
    { pose proof (ksum_bound _ Sf). change (2 ^ 53) with (2 ^ 43 * 1024). change (2 ^ 43) with 8796093022208 in *. lia. }
    exists s. split; [exact E|]. cbn [fin]. rewrite A4. cbn [st0 st_seen orb negb]. rewrite A2, A1. cbn [st0 st_sum]. replace (0 =? 0) with true by reflexivity. cbn [negb].
    replace (0 + ksum (b0 :: ft)) with (ksum (b0 :: ft)) by lia.
    destruct (enc_dy_scaled _ HB) as [_ [_ Z0]]. rewrite Z0.
    destruct (ksum (b0 :: ft) =? 0) eqn:K0; cbn [negb].
    + right. apply Z.eqb_eq in K0. rewrite K0. reflexivity.
    + left. reflexivity.
  - unfold avg_spec in A. destruct (nonnull vs) as [|x nn] eqn:Nn; [rewrite NN in Nn; discriminate|].
    destruct (sum_double (x :: nn)) as [a|] eqn:Sd; [|discriminate].
    assert (A' : match f_div a (f_of_int (zlen (x :: nn))) with Some r => AVal (VFloat r) | None => ANoDemand end = AVal v)
      by exact A.
    rewrite <- Nn in F.
    destruct (Hsd a eq_refl) as [Sf [L [-> HB]]].
    destruct (fold_sum_float true vs (b0 :: ft) st0 0 F Sf eq_refl) as [s [E [A1 [A2 [A3 A4]]]]].
    { pose proof (ksum_bound _ Sf). change (2 ^ 53) with (2 ^ 43 * 1024). change (2 ^ 43) with 8796093022208 in *. lia. }
    exists s. split; [exact E|]. cbn [fin]. rewrite A2, A1, A3. cbn [st0 st_sum st_count]. replace (0 =? 0) with true by reflexivity. cbn [negb].
    replace (0 + ksum (b0 :: ft)) with (ksum (b0 :: ft)) by lia.
    assert (Lz : zlen (x :: nn) = zlen (b0 :: ft)) by (rewrite NN; apply zlen_map).
    rewrite Lz in A'. pose proof (zlen_nonneg ft). rewrite zlen_cons in *.
    replace (0 + (zlen ft + 1) =? 0) with false by lia. replace (0 + (zlen ft + 1)) with (zlen ft + 1) by lia.
    destruct (f_div (enc_dy (ksum (b0 :: ft))) (f_of_int (zlen ft + 1))); [|discriminate]. injection A' as <-. left. reflexivity.
Qed.

