(* C07 -- savepoint markers: list/index facts used by the transaction-level proofs. *)
From Coq Require Import ZArith List Bool Lia Sorted.
From TV Require Import Model.SqlSpec Model.UndoLog Model.UndoLogSpec Proof.UndoLogBase.
Import ListNotations.
Open Scope Z_scope.

Lemma zin_app : forall n a b, zin n (a ++ b) = zin n a || zin n b.
Proof. intros n a b. induction a as [|x a IH]; cbn [app zin]; [reflexivity|]. rewrite IH. apply orb_assoc. Qed.

Lemma sp_find_nth : forall n l i, sp_find n l = Some i -> exists idx, nth_error l i = Some (n, idx).
Proof.
  intros n l. induction l as [|[m k] l IH]; intros i H; cbn [sp_find] in H; [discriminate|].
  destruct (m =? n) eqn:E.
  - injection H as <-. apply Z.eqb_eq in E. subst m. exists k. reflexivity.
  - destruct (sp_find n l) as [j|]; [|discriminate]. injection H as <-.
    destruct (IH j eq_refl) as (idx & Hn). exists idx. exact Hn.
Qed.

Lemma sp_find_app_r : forall n a b, zin n (names_of a) = false ->
  sp_find n (a ++ b) = match sp_find n b with Some i => Some (length a + i)%nat | None => None end.
Proof.
  intros n a b. induction a as [|[m k] a IH]; intro H; cbn [app sp_find length names_of map zin fst] in *.
  - destruct (sp_find n b); reflexivity.
  - apply orb_false_iff in H. destruct H as [H1 H2]. rewrite H1.
    fold (names_of a) in H2. rewrite (IH H2). destruct (sp_find n b); reflexivity.
Qed.

Lemma sp_find_app_l : forall n a b i, sp_find n a = Some i -> sp_find n (a ++ b) = Some i.
Proof.
  intros n a b. induction a as [|[m k] a IH]; intros i H; cbn [app sp_find] in *; [discriminate|].
  destruct (m =? n); [exact H|]. destruct (sp_find n a) as [j|]; [|discriminate].
  rewrite (IH j eq_refl). exact H.
Qed.

Lemma sp_find_none_notin : forall n l, sp_find n l = None -> zin n (names_of l) = false.
Proof.
  intros n l. induction l as [|[m k] l IH]; intro H; cbn [sp_find names_of map zin fst] in *; [reflexivity|].
  destruct (m =? n); [discriminate|]. destruct (sp_find n l); [discriminate|]. cbn [orb]. apply IH. reflexivity.
Qed.

Lemma sp_find_fresh_end : forall n l k, zin n (names_of l) = false -> sp_find n (l ++ [(n, k)]) = Some (length l).
Proof.
  intros n l k H. rewrite (sp_find_app_r _ _ _ H). cbn [sp_find]. rewrite Z.eqb_refl.
  f_equal. lia.
Qed.

(* list surgery *)
Lemma nth_error_app_len : forall {A} (a b : list A) i, nth_error (a ++ b) (length a + i) = nth_error b i.
Proof. intros. rewrite nth_error_app2 by lia. f_equal. lia. Qed.

Lemma firstn_app_len : forall {A} (a b : list A) i, firstn (length a + i) (a ++ b) = a ++ firstn i b.
Proof. intros. apply firstn_app_2. Qed.

Lemma skipn_app_len : forall {A} (a b : list A) i, skipn (length a + i) (a ++ b) = skipn i b.
Proof.
  intros A a b i. rewrite skipn_app. rewrite skipn_all2 by lia. cbn [app]. f_equal. lia.
Qed.

Lemma sp_remove_app_len : forall (a b : list (Z * nat)) i, sp_remove (length a + i) (a ++ b) = a ++ sp_remove i b.
Proof.
  intros a b i. unfold sp_remove. rewrite firstn_app_len.
  replace (S (length a + i)) with (length a + S i)%nat by lia. rewrite skipn_app_len. apply app_assoc_reverse.
Qed.

Lemma skipn_firstn_app : forall {A} (l : list A) a b, (a <= b)%nat -> (b <= length l)%nat ->
  skipn a (firstn b l) ++ skipn b l = skipn a l.
Proof.
  intros A l a b Hab Hbl. rewrite <- (firstn_skipn b l) at 3. rewrite skipn_app.
  rewrite firstn_length_le by exact Hbl. replace (a - b)%nat with O by lia. reflexivity.
Qed.

Lemma skipn_app_le : forall {A} (l m : list A) a, (a <= length l)%nat -> skipn a (l ++ m) = skipn a l ++ m.
Proof. intros A l m a H. rewrite skipn_app. replace (a - length l)%nat with O by lia. reflexivity. Qed.

Lemma In_firstn : forall {A} (l : list A) n x, In x (firstn n l) -> In x l.
Proof. intros A l n x H. rewrite <- (firstn_skipn n l). apply in_or_app. left. exact H. Qed.
Lemma In_skipn : forall {A} (l : list A) n x, In x (skipn n l) -> In x l.
Proof. intros A l n x H. rewrite <- (firstn_skipn n l). apply in_or_app. right. exact H. Qed.

Lemma sorted_le_app_last : forall l (x : nat),
  StronglySorted le l -> (forall y, In y l -> (y <= x)%nat) -> StronglySorted le (l ++ [x]).
Proof.
  induction l as [|a l IH]; intros x Hs Hlt; cbn [app].
  - constructor; [constructor|constructor].
  - inversion Hs as [|? ? Hs' Hall]; subst. constructor.
    + apply IH; [exact Hs'|]. intros y Hy. apply Hlt. right. exact Hy.
    + rewrite Forall_forall in *. intros y Hy. apply in_app_or in Hy. destruct Hy as [Hy|[Hy|[]]].
      * apply Hall. exact Hy.
      * subst y. apply Hlt. left. reflexivity.
Qed.

Lemma sorted_le_firstn : forall l n, StronglySorted le l -> StronglySorted le (firstn n l).
Proof.
  induction l as [|a l IH]; intros n Hs; destruct n; cbn [firstn]; try constructor.
  - inversion Hs; subst. apply IH. assumption.
  - inversion Hs as [|? ? _ Hall]; subst. rewrite Forall_forall in *. intros y Hy. apply Hall. eapply In_firstn. exact Hy.
Qed.

Lemma sorted_le_skipn : forall l n, StronglySorted le l -> StronglySorted le (skipn n l).
Proof.
  induction l as [|a l IH]; intros n Hs; destruct n; cbn [skipn]; try assumption.
  inversion Hs; subst. apply IH. assumption.
Qed.

Lemma sorted_le_remove : forall l i, StronglySorted le l -> StronglySorted le (firstn i l ++ skipn (S i) l).
Proof.
  induction l as [|a l IH]; intros i Hs.
  - destruct i; cbn; constructor.
  - destruct i.
    + cbn [firstn skipn app]. inversion Hs; subst. assumption.
    + cbn [firstn app]. change (skipn (S (S i)) (a :: l)) with (skipn (S i) l).
      inversion Hs as [|? ? Hs' Hall]; subst. constructor; [apply IH; exact Hs'|].
      rewrite Forall_forall in *. intros y Hy. apply Hall. apply in_app_or in Hy. destruct Hy as [Hy|Hy].
      * eapply In_firstn. exact Hy.
      * eapply In_skipn. exact Hy.
Qed.

(* an element at position <= i of a sorted list is <= the element at position i *)
Lemma sorted_le_nth : forall l i (x y : nat), StronglySorted le l ->
  nth_error l i = Some x -> In y (firstn (S i) l) -> (y <= x)%nat.
Proof.
  induction l as [|a l IH]; intros i x y Hs Hn Hy; [destruct i; discriminate|].
  inversion Hs as [|? ? Hs' Hall]; subst. rewrite Forall_forall in Hall.
  destruct i.
  - cbn in Hn. injection Hn as <-. cbn in Hy. destruct Hy as [<-|[]]. lia.
  - cbn [nth_error] in Hn. cbn [firstn] in Hy. destruct Hy as [<-|Hy].
    + apply Hall. eapply nth_error_In. exact Hn.
    + eapply IH; eassumption.
Qed.
