(* Reference semantics of QUERIES for property C19 (equivalent formulations return the same bag
   of rows), on top of the shared expression semantics Model/SqlSpec.v, and the REWRITES whose
   soundness is proved in Proof/QueryLaws*.v.  Definitions only.

   A query is  SELECT items | *  FROM <join tree>  [WHERE p].
   * FROM tree: tables of the database by position, joined by CROSS (comma) / INNER / LEFT /
     RIGHT / FULL joins with an ON predicate over the concatenated row of that join.
   * results are bags: lists whose order is not meaningful (laws are stated up to Permutation).
   * cells of an output row are `option value`: None = the reference semantics does not say
     (type mismatch, overflow ...; see SqlSpec.v).  A filter keeps a row iff the predicate is
     TRUE; `q_defined` says whether every predicate had a truth value and every item a value,
     and checks built on this file make no demand where it is false. *)
From Coq Require Import ZArith List Bool.
From TV Require Import Model.SqlSpec.
Import ListNotations.
Open Scope Z_scope.

Inductive jkind := JCross | JInner | JLeft | JRight | JFull.
Inductive from :=
| FTab (i : nat)                                  (* i-th table of the database *)
| FJoin (k : jkind) (l r : from) (on : expr).      (* on is ignored (and not printed) for JCross *)

Record query := mkQuery { q_from : from; q_where : option expr; q_star : bool; q_items : list expr }.

(* a database: per table its declared width and its rows *)
Definition db := list (nat * table).
Definition db_wf (d : db) : Prop := forall w t, In (w, t) d -> forall r, In r t -> length r = w.
Definition db_wfb (d : db) : bool := forallb (fun wt => forallb (fun r => Nat.eqb (length r) (fst wt)) (snd wt)) d.

(* ------------------------------------------------------------------ FROM *)
Definition nulls (n : nat) : row := repeat VNull n.
Definition cross (L R : table) : table := flat_map (fun l => map (fun r => l ++ r) R) L.
Definition inner (on : expr) (L R : table) : table := filter (passes on) (cross L R).
Definition unmatched_left (on : expr) (wr : nat) (L R : table) : table :=
  flat_map (fun l => if existsb (fun r => passes on (l ++ r)) R then [] else [l ++ nulls wr]) L.
Definition unmatched_right (on : expr) (wl : nat) (L R : table) : table :=
  flat_map (fun r => if existsb (fun l => passes on (l ++ r)) L then [] else [nulls wl ++ r]) R.

Definition join_spec (k : jkind) (on : expr) (wl wr : nat) (L R : table) : table :=
  match k with
  | JCross => cross L R
  | JInner => inner on L R
  | JLeft => inner on L R ++ unmatched_left on wr L R
  | JRight => inner on L R ++ unmatched_right on wl L R
  | JFull => inner on L R ++ unmatched_left on wr L R ++ unmatched_right on wl L R
  end.

Fixpoint from_width (d : db) (f : from) : nat :=
  match f with
  | FTab i => match nth_error d i with Some (w, _) => w | None => 0%nat end
  | FJoin _ l r _ => (from_width d l + from_width d r)%nat
  end.

Fixpoint eval_from (d : db) (f : from) : table :=
  match f with
  | FTab i => match nth_error d i with Some (_, t) => t | None => [] end
  | FJoin k l r on => join_spec k on (from_width d l) (from_width d r) (eval_from d l) (eval_from d r)
  end.

(* ------------------------------------------------------------------ WHERE and the select list *)
Definition where_rows (p : option expr) (t : table) : table :=
  match p with None => t | Some e => filter (passes e) t end.
Definition q_rows (d : db) (q : query) : table := where_rows (q_where q) (eval_from d (q_from q)).

Definition orow := list (option value).
Definition out_row (q : query) (r : row) : orow :=
  if q_star q then map Some r else map (fun e => eval e r) (q_items q).
Definition q_out (d : db) (q : query) : list orow := map (out_row q) (q_rows d q).

(* is the reference semantics defined everywhere it is consulted? *)
Fixpoint from_defined (d : db) (f : from) : bool :=
  match f with
  | FTab i => match nth_error d i with Some _ => true | None => false end
  | FJoin k l r on =>
      from_defined d l && from_defined d r &&
      match k with JCross => true | _ => defined_on on (cross (eval_from d l) (eval_from d r)) end
  end.
Definition is_some {A} (o : option A) : bool := match o with Some _ => true | None => false end.
Definition q_defined (d : db) (q : query) : bool :=
  from_defined d (q_from q) &&
  match q_where q with None => true | Some p => defined_on p (eval_from d (q_from q)) end &&
  forallb (fun r => forallb is_some (out_row q r)) (q_rows d q).

(* the defined result as a table *)
Fixpoint strip_row (o : orow) : option row :=
  match o with
  | [] => Some []
  | Some v :: o' => match strip_row o' with Some r => Some (v :: r) | None => None end
  | None :: _ => None
  end.
Fixpoint strip_rows (l : list orow) : option table :=
  match l with
  | [] => Some []
  | o :: l' => match strip_row o, strip_rows l' with Some r, Some t => Some (r :: t) | _, _ => None end
  end.
Definition run_query (d : db) (q : query) : option table :=
  if q_defined d q then strip_rows (q_out d q) else None.

(* ------------------------------------------------------------------ rewrites of predicates *)
(* operands of every AND / OR exchanged (through NOT and the operand of IS [NOT] NULL) *)
Fixpoint mirror (e : expr) : expr :=
  match e with
  | EAnd a b => EAnd (mirror b) (mirror a)
  | EOr a b => EOr (mirror b) (mirror a)
  | ENot a => ENot (mirror a)
  | EIsNull n a => EIsNull n (mirror a)
  | _ => e
  end.
Definition comm_top (e : expr) : expr :=
  match e with EAnd a b => EAnd b a | EOr a b => EOr b a | _ => e end.
Definition assoc_r (e : expr) : expr :=
  match e with
  | EAnd (EAnd a b) c => EAnd a (EAnd b c)
  | EOr (EOr a b) c => EOr a (EOr b c)
  | _ => e
  end.
Definition assoc_l (e : expr) : expr :=
  match e with
  | EAnd a (EAnd b c) => EAnd (EAnd a b) c
  | EOr a (EOr b c) => EOr (EOr a b) c
  | _ => e
  end.
Definition de_morgan (e : expr) : expr :=
  match e with
  | EAnd a b => ENot (EOr (ENot a) (ENot b))
  | EOr a b => ENot (EAnd (ENot a) (ENot b))
  | ENot (EAnd a b) => EOr (ENot a) (ENot b)
  | ENot (EOr a b) => EAnd (ENot a) (ENot b)
  | _ => e
  end.
(* a IN (x1, .., xn) as (a = x1) OR (.. OR (a = xn)) *)
Fixpoint or_chain (a : expr) (x : expr) (l : list expr) : expr :=
  match l with
  | [] => ECmp CEq a x
  | y :: l' => EOr (ECmp CEq a x) (or_chain a y l')
  end.
Fixpoint expand (e : expr) : expr :=
  match e with
  | EAnd a b => EAnd (expand a) (expand b)
  | EOr a b => EOr (expand a) (expand b)
  | ENot a => ENot (expand a)
  | EIn neg a (x :: l) => if neg then ENot (or_chain a x l) else or_chain a x l
  | EBetween neg a lo hi =>
      let c := EAnd (ECmp CGe a lo) (ECmp CLe a hi) in if neg then ENot c else c
  | _ => e
  end.
(* a = b as a <= b AND a >= b (through AND / OR / NOT) *)
Fixpoint eq_range (e : expr) : expr :=
  match e with
  | EAnd a b => EAnd (eq_range a) (eq_range b)
  | EOr a b => EOr (eq_range a) (eq_range b)
  | ENot a => ENot (eq_range a)
  | ECmp CEq a b => EAnd (ECmp CLe a b) (ECmp CGe a b)
  | _ => e
  end.
(* columns renumbered *)
Fixpoint remap (f : nat -> nat) (e : expr) : expr :=
  match e with
  | ECol i => ECol (f i)
  | ELit v => ELit v
  | EArith op a b => EArith op (remap f a) (remap f b)
  | ECmp op a b => ECmp op (remap f a) (remap f b)
  | EAnd a b => EAnd (remap f a) (remap f b)
  | EOr a b => EOr (remap f a) (remap f b)
  | ENot a => ENot (remap f a)
  | EIn neg a l => EIn neg (remap f a) (map (remap f) l)
  | EBetween neg a lo hi => EBetween neg (remap f a) (remap f lo) (remap f hi)
  | ELike neg a p => ELike neg (remap f a) (remap f p)
  | EIsNull neg a => EIsNull neg (remap f a)
  end.

(* always-true conjuncts the generators use: a syntactic class of tautologies over rows of
   width w (proved in Proof/QueryLaws.v: is_taut w t = true -> sem3 t r = Some TT) *)
Definition is_taut (w : nat) (t : expr) : bool :=
  match t with
  | ELit (VBool true) => true
  | ENot (ELit (VBool false)) => true
  | ECmp CEq (ELit (VInt x)) (ELit (VInt y)) => x =? y
  | ECmp CLt (ELit (VInt x)) (ELit (VInt y)) => x <? y
  | ECmp CEq (ELit (VText x)) (ELit (VText y)) => zlist_eqb' x y
  | EOr (EIsNull false (ECol i)) (EIsNull true (ECol j)) => Nat.eqb i j && Nat.ltb i w
  | _ => false
  end.

(* ------------------------------------------------------------------ rewrites of queries *)
Inductive rewrite :=
| RwStyle                                (* the same query in another surface syntax *)
| RwMirror                               (* WHERE and every ON mirrored *)
| RwEqRange                              (* every a = b of WHERE and of every ON as a <= b AND a >= b *)
| RwCommTop | RwAssocR | RwAssocL | RwDeMorgan | RwNotNot | RwExpand      (* on WHERE *)
| RwTrueConj (lft : bool) (t : expr)    (* WHERE p -> p AND t / t AND p; no WHERE -> WHERE t *)
| RwItems (p : list nat)                 (* new item j = old item p[j] *)
| RwFromSwap                             (* inputs of the root join exchanged, LEFT <-> RIGHT *)
| RwOnToWhere                            (* root INNER join: ON c WHERE p -> cross join WHERE c AND p *)
| RwWhereToOn.                           (* root cross join WHERE p -> INNER JOIN ON p *)

Fixpoint mirror_from (f : from) : from :=
  match f with
  | FTab i => FTab i
  | FJoin k l r on => FJoin k (mirror_from l) (mirror_from r) (mirror on)
  end.
Fixpoint eq_range_from (f : from) : from :=
  match f with
  | FTab i => FTab i
  | FJoin k l r on => FJoin k (eq_range_from l) (eq_range_from r) (eq_range on)
  end.
Definition mirror_kind (k : jkind) : jkind :=
  match k with JLeft => JRight | JRight => JLeft | k => k end.
Definition swap_col (wl wr : nat) (i : nat) : nat :=
  if Nat.ltb i wl then (i + wr)%nat else if Nat.ltb i (wl + wr) then (i - wl)%nat else i.

Definition on_where (f : expr -> expr) (q : query) : option (query * list nat) :=
  match q_where q with
  | Some w => Some (mkQuery (q_from q) (Some (f w)) (q_star q) (q_items q), [])
  | None => None
  end.
Definition nat_ltb_all (n : nat) (p : list nat) : bool := forallb (fun i => Nat.ltb i n) p.
Definition is_perm (n : nat) (p : list nat) : bool :=
  Nat.eqb (length p) n && nat_ltb_all n p && forallb (fun i => existsb (Nat.eqb i) p) (seq 0 n).

(* the rewritten query and the column permutation of its output:
   new_row[j] = old_row[perm[j]]; [] = identity.  None = the rewrite does not apply. *)
Definition apply_rw (d : db) (rw : rewrite) (q : query) : option (query * list nat) :=
  match rw with
  | RwStyle => Some (q, [])
  | RwMirror => Some (mkQuery (mirror_from (q_from q)) (option_map mirror (q_where q)) (q_star q) (q_items q), [])
  | RwEqRange => Some (mkQuery (eq_range_from (q_from q)) (option_map eq_range (q_where q)) (q_star q) (q_items q), [])
  | RwCommTop => on_where comm_top q
  | RwAssocR => on_where assoc_r q
  | RwAssocL => on_where assoc_l q
  | RwDeMorgan => on_where de_morgan q
  | RwNotNot => on_where (fun e => ENot (ENot e)) q
  | RwExpand => on_where expand q
  | RwTrueConj lft t =>
      if is_taut (from_width d (q_from q)) t then
        let w := match q_where q with None => t | Some p => if lft then EAnd t p else EAnd p t end in
        Some (mkQuery (q_from q) (Some w) (q_star q) (q_items q), [])
      else None
  | RwItems p =>
      if negb (q_star q) && is_perm (length (q_items q)) p
      then Some (mkQuery (q_from q) (q_where q) false (map (fun i => nth i (q_items q) (ELit VNull)) p), p)
      else None
  | RwFromSwap =>
      match q_from q with
      | FJoin k l r on =>
          let wl := from_width d l in
          let wr := from_width d r in
          let f := swap_col wl wr in
          Some (mkQuery (FJoin (mirror_kind k) r l (remap f on)) (option_map (remap f) (q_where q)) (q_star q)
                        (map (remap f) (q_items q)),
                if q_star q then map (fun j => if Nat.ltb j wr then (wl + j)%nat else (j - wr)%nat) (seq 0 (wl + wr)) else [])
      | FTab _ => None
      end
  | RwOnToWhere =>
      match q_from q with
      | FJoin JInner l r on =>
          Some (mkQuery (FJoin JCross l r (ELit (VBool true)))
                        (Some (match q_where q with None => on | Some p => EAnd on p end)) (q_star q) (q_items q), [])
      | _ => None
      end
  | RwWhereToOn =>
      match q_from q, q_where q with
      | FJoin JCross l r _, Some p => Some (mkQuery (FJoin JInner l r p) None (q_star q) (q_items q), [])
      | _, _ => None
      end
  end.

(* how an output row of the original query looks in the column order of the rewritten one *)
Definition select_cols {A} (perm : list nat) (r : list A) : list (option A) := map (fun i => nth_error r i) perm.
Definition permute_orow (perm : list nat) (o : orow) : orow :=
  match perm with
  | [] => o
  | _ => map (fun i => nth i o None) perm
  end.

(* the ternary-logic partition of a query with a WHERE clause *)
Definition tlp_not (q : query) : query :=
  mkQuery (q_from q) (option_map ENot (q_where q)) (q_star q) (q_items q).
Definition tlp_null (q : query) : query :=
  mkQuery (q_from q) (option_map (EIsNull false) (q_where q)) (q_star q) (q_items q).
Definition tlp_all (q : query) : query := mkQuery (q_from q) None (q_star q) (q_items q).
