(* Proof/HnswHeap.v -- the model of std::collections::BinaryHeap in Model/Hnsw.v is a correct priority
   queue for every total preorder `le`:
     push / pop permute the contents, preserve the heap invariant, pop returns a maximum,
     drain lists the contents in non-increasing order. *)
From Coq Require Import ZArith List Bool Lia Permutation Sorted Arith.
From TV Require Import Model.Hnsw.
Import ListNotations.

Local Open Scope nat_scope.

Section UpdFacts.
  Context {A : Type}.

  Lemma upd_length : forall (h : list A) i x, length (upd h i x) = length h.
  Proof. induction h as [|y t IH]; intros [|i] x; cbn [upd length]; auto. Qed.

  Lemma upd_nth_eq : forall (h : list A) i x, i < length h -> nth_error (upd h i x) i = Some x.
  Proof.
    induction h as [|y t IH]; intros [|i] x Hi; cbn [upd length nth_error] in *; try lia; auto.
    apply IH; lia.
  Qed.

  Lemma upd_nth_neq : forall (h : list A) i j x, i <> j -> nth_error (upd h i x) j = nth_error h j.
  Proof.
    induction h as [|y t IH]; intros [|i] [|j] x Hij; cbn [upd nth_error]; auto; try lia.
  Qed.

  Lemma upd_nth : forall (h : list A) i j x, i < length h ->
    nth_error (upd h i x) j = if Nat.eqb j i then Some x else nth_error h j.
  Proof.
    intros h i j x Hi. destruct (Nat.eqb_spec j i) as [->|Hn].
    - apply upd_nth_eq; auto.
    - apply upd_nth_neq; auto.
  Qed.

  Lemma swap_length : forall (h : list A) i j, length (swap h i j) = length h.
  Proof.
    intros h i j. unfold swap.
    destruct (nth_error h i); auto. destruct (nth_error h j); auto.
    rewrite !upd_length; auto.
  Qed.

  Lemma swap_nth : forall (h : list A) i j k, i < length h -> j < length h ->
    nth_error (swap h i j) k =
      if Nat.eqb k j then nth_error h i else if Nat.eqb k i then nth_error h j else nth_error h k.
  Proof.
    intros h i j k Hi Hj. unfold swap.
    destruct (nth_error h i) as [x|] eqn:Ex; [|apply nth_error_None in Ex; lia].
    destruct (nth_error h j) as [y|] eqn:Ey; [|apply nth_error_None in Ey; lia].
    rewrite upd_nth by (rewrite upd_length; auto).
    destruct (Nat.eqb_spec k j) as [->|Hkj]; auto.
    rewrite upd_nth by auto.
    destruct (Nat.eqb_spec k i) as [->|Hki]; auto.
  Qed.

  Lemma swap_perm : forall (h : list A) i j, i < length h -> j < length h -> Permutation h (swap h i j).
  Proof.
    intros h i j Hi Hj.
    apply Permutation_nth_error. split; [symmetry; apply swap_length|].
    exists (fun k => if Nat.eqb k j then i else if Nat.eqb k i then j else k). split.
    - intros a b.
      destruct (Nat.eqb_spec a j), (Nat.eqb_spec a i), (Nat.eqb_spec b j), (Nat.eqb_spec b i); subst; intros; try lia; auto.
    - intros k. rewrite swap_nth by auto.
      destruct (Nat.eqb_spec k j); auto. destruct (Nat.eqb_spec k i); auto.
  Qed.
End UpdFacts.

Section HeapFacts.
  Context {A : Type}.
  Variable le : A -> A -> bool.
  Hypothesis le_total : forall a b, le a b = true \/ le b a = true.
  Hypothesis le_trans : forall a b c, le a b = true -> le b c = true -> le a c = true.

  Lemma le_refl : forall a, le a a = true.
  Proof. intros a. destruct (le_total a a); auto. Qed.

  Definition child (p c : nat) : Prop := c = 2 * p + 1 \/ c = 2 * p + 2.

  Lemma child_parent : forall p', child (Nat.div p' 2) (S p').
  Proof.
    intros p'. unfold child.
    pose proof (Nat.div_mod p' 2 ltac:(lia)) as E.
    pose proof (Nat.mod_upper_bound p' 2 ltac:(lia)) as B.
    lia.
  Qed.

  Definition heap_ok (h : list A) : Prop :=
    forall p c x y, child p c -> nth_error h c = Some x -> nth_error h p = Some y -> le x y = true.

  (* every parent/child pair not touching pos is in order, and the children of pos are below its parent *)
  Definition hole_ok (h : list A) (pos : nat) : Prop :=
    (forall p c x y, child p c -> c <> pos -> p <> pos ->
       nth_error h c = Some x -> nth_error h p = Some y -> le x y = true) /\
    (forall g c x y, child g pos -> child pos c ->
       nth_error h c = Some x -> nth_error h g = Some y -> le x y = true).

  Lemma heap_hole : forall h pos, heap_ok h -> hole_ok h pos.
  Proof.
    intros h pos H. split.
    - intros p c x y Hc _ _ Hx Hy. eapply H; eauto.
    - intros g c x y Hg Hc Hx Hy.
      destruct (nth_error h pos) as [z|] eqn:Ez.
      + eapply le_trans; [eapply (H pos c); eauto | eapply (H g pos); eauto].
      + apply nth_error_None in Ez. assert (c < length h) by (apply nth_error_Some; congruence).
        unfold child in *; lia.
  Qed.

  (* ---------------------------------------------------------------- sift_up *)
  Lemma sift_up_length : forall fuel h pos, length (sift_up le fuel h pos) = length h.
  Proof.
    induction fuel as [|f IH]; intros h pos; cbn [sift_up]; auto.
    destruct pos as [|p']; auto.
    destruct (nth_error h (S p')); auto. destruct (nth_error h (Nat.div p' 2)); auto.
    destruct (le a a0); auto. rewrite IH, swap_length; auto.
  Qed.

  Lemma sift_up_perm : forall fuel h pos, pos < length h -> Permutation h (sift_up le fuel h pos).
  Proof.
    induction fuel as [|f IH]; intros h pos Hp; cbn [sift_up]; auto.
    destruct pos as [|p']; auto.
    destruct (nth_error h (S p')) eqn:E1; auto. destruct (nth_error h (Nat.div p' 2)) eqn:E2; auto.
    destruct (le a a0); auto.
    assert (Nat.div p' 2 < length h) by (apply nth_error_Some; congruence).
    etransitivity; [apply (swap_perm h (S p') (Nat.div p' 2)); auto|].
    apply IH. rewrite swap_length; auto.
  Qed.

  Lemma sift_up_ok : forall fuel h pos,
    pos < fuel -> pos < length h -> hole_ok h pos ->
    (forall c x y, child pos c -> nth_error h c = Some x -> nth_error h pos = Some y -> le x y = true) ->
    heap_ok (sift_up le fuel h pos).
  Proof.
    induction fuel as [|f IH]; intros h pos Hf Hl [H1 H2] H3; [lia|].
    cbn [sift_up]. destruct pos as [|p'].
    - (* at the root *)
      intros p c x y Hc Hx Hy.
      destruct (Nat.eq_dec p 0) as [->|Hp0]; [eapply H3; eauto|].
      eapply H1; eauto; unfold child in Hc; lia.
    - pose proof (child_parent p') as Hcp. set (par := Nat.div p' 2) in *.
      assert (Hparlt : par < S p') by (unfold child in Hcp; lia).
      destruct (nth_error h (S p')) as [x|] eqn:Ex; [|apply nth_error_None in Ex; lia].
      destruct (nth_error h par) as [pv|] eqn:Ep; [|apply nth_error_None in Ep; lia].
      destruct (le x pv) eqn:Hle.
      + (* in place: every edge is fine *)
        intros p c a b Hc Ha Hb.
        destruct (Nat.eq_dec c (S p')) as [->|Hcn].
        * assert (p = par) by (unfold child in *; lia). subst p. congruence.
        * destruct (Nat.eq_dec p (S p')) as [->|Hpn]; [rewrite Ex in Hb; eapply H3; eauto|].
          eapply H1; eauto.
      + (* swap with the parent and continue from there *)
        assert (Hpx : le pv x = true) by (destruct (le_total x pv); congruence).
        apply IH; try lia.
        * rewrite swap_length; lia.
        * split.
          -- intros p c a b Hc Hcn Hpn Ha Hb.
             rewrite swap_nth in Ha, Hb by lia.
             destruct (Nat.eqb_spec c par) as [->|Hc1]; [lia|].
             destruct (Nat.eqb_spec p par) as [->|Hp1]; [lia|].
             destruct (Nat.eqb_spec p (S p')) as [->|Hp2].
             ++ (* children of the old position now sit under the old parent value *)
                destruct (Nat.eqb_spec c (S p')); [unfold child in Hc; lia|].
                eapply (H2 par c); eauto; congruence.
             ++ destruct (Nat.eqb_spec c (S p')) as [->|Hc2].
                ** assert (p = par) by (unfold child in *; lia). lia.
                ** eapply H1; eauto.
          -- intros g c a b Hg Hc Ha Hb.
             rewrite swap_nth in Ha, Hb by lia.
             assert (Hgn : g <> par) by (unfold child in Hg; lia).
             assert (Hgn2 : g <> S p') by (unfold child in Hg, Hcp; lia).
             destruct (Nat.eqb_spec g par); [lia|]. destruct (Nat.eqb_spec g (S p')); [lia|].
             destruct (Nat.eqb_spec c par); [unfold child in Hc; lia|].
             destruct (Nat.eqb_spec c (S p')) as [->|Hc2].
             ++ (* old parent value vs its own parent *)
                eapply (H1 g par); eauto; lia.
             ++ (* sibling: below old parent, which is below the grandparent *)
                eapply le_trans; [eapply (H1 par c); eauto; lia | eapply (H1 g par); eauto; lia].
        * intros c a b Hc Ha Hb.
          rewrite swap_nth in Ha, Hb by lia.
          rewrite Nat.eqb_refl in Hb.
          destruct (Nat.eqb_spec c par); [unfold child in Hc; lia|].
          assert (b = x) by congruence. subst b.
          destruct (Nat.eqb_spec c (S p')) as [->|Hc2].
          -- assert (a = pv) by congruence. subst a. exact Hpx.
          -- eapply le_trans; [eapply (H1 par c); eauto; lia | exact Hpx].
  Qed.

  (* ---------------------------------------------------------------- sift_down (to the bottom) *)
  Lemma sift_down_step : forall h pos c,
    hole_ok h pos -> child pos c -> c < length h ->
    (forall c' x y, child pos c' -> c' <> c -> nth_error h c' = Some x -> nth_error h c = Some y -> le x y = true) ->
    hole_ok (swap h pos c) c.
  Proof.
    intros h pos c [H1 H2] Hc Hl Hsib.
    assert (Hpl : pos < length h) by (unfold child in Hc; lia).
    assert (Hpc : pos <> c) by (unfold child in Hc; lia).
    split.
    - intros p c' a b Hch Hcn Hpn Ha Hb.
      rewrite swap_nth in Ha, Hb by lia.
      destruct (Nat.eqb_spec c' c); [lia|]. destruct (Nat.eqb_spec p c); [lia|].
      destruct (Nat.eqb_spec c' pos) as [->|Hc1].
      + destruct (Nat.eqb_spec p pos); [unfold child in Hch; lia|].
        eapply (H2 p c); eauto.
      + destruct (Nat.eqb_spec p pos) as [->|Hp1].
        * eapply Hsib; eauto.
        * eapply H1; eauto.
    - intros g cc a b Hg Hcc Ha Hb.
      assert (g = pos) by (unfold child in *; lia). subst g.
      rewrite swap_nth in Ha, Hb by lia.
      destruct (Nat.eqb_spec pos c); [lia|]. rewrite Nat.eqb_refl in Hb.
      destruct (Nat.eqb_spec cc c); [unfold child in Hcc; lia|].
      destruct (Nat.eqb_spec cc pos); [unfold child in *; lia|].
      eapply (H1 c cc); eauto; unfold child in *; lia.
  Qed.

  Lemma sift_down_ok : forall fuel h pos,
    length h <= fuel + pos -> pos < length h -> hole_ok h pos ->
    let r := sift_down le fuel h pos in
    length (fst r) = length h /\ snd r < length h /\ hole_ok (fst r) (snd r) /\
    (forall c, child (snd r) c -> length h <= c) /\ Permutation h (fst r).
  Proof.
    induction fuel as [|f IH]; intros h pos Hf Hl Hh; cbn [sift_down].
    - exfalso; lia.
    - destruct (Nat.ltb_spec (2 * pos + 1 + 1) (length h)) as [Hlt|Hge].
      + destruct (nth_error h (2 * pos + 1)) as [a|] eqn:Ea; [|apply nth_error_None in Ea; lia].
        destruct (nth_error h (2 * pos + 1 + 1)) as [b|] eqn:Eb; [|apply nth_error_None in Eb; lia].
        set (c := if le a b then 2 * pos + 1 + 1 else 2 * pos + 1).
        assert (Hcc : child pos c) by (unfold child, c; destruct (le a b); lia).
        assert (Hcl : c < length h) by (unfold c; destruct (le a b); lia).
        assert (Hstep : hole_ok (swap h pos c) c).
        { apply sift_down_step; auto.
          intros c' x y Hc' Hn Hx Hy. unfold c in *.
          destruct (le a b) eqn:Hab.
          - assert (c' = 2 * pos + 1) by (unfold child in Hc'; lia). subst c'. congruence.
          - assert (c' = 2 * pos + 1 + 1) by (unfold child in Hc'; lia). subst c'.
            assert (x = b) by congruence. assert (y = a) by congruence. subst.
            destruct (le_total a b); congruence. }
        specialize (IH (swap h pos c) c).
        rewrite swap_length in IH.
        destruct IH as (I1 & I2 & I3 & I4 & I5); auto.
        { unfold child in Hcc; lia. }
        split; [exact I1|]. split; [exact I2|]. split; [exact I3|]. split; [exact I4|].
        etransitivity; [apply (swap_perm h pos c); lia | exact I5].
      + destruct (Nat.eqb_spec (2 * pos + 1 + 1) (length h)) as [Heq|Hne]; cbn [fst snd].
        * rewrite swap_length. split; [reflexivity|]. split; [lia|]. split; [|split].
          -- apply sift_down_step; auto; [unfold child; lia | lia |].
             intros c' x y Hc' Hn Hx Hy.
             assert (c' < length h) by (apply nth_error_Some; congruence).
             unfold child in Hc'; lia.
          -- intros c Hc. unfold child in Hc; lia.
          -- apply swap_perm; lia.
        * split; [reflexivity|]. split; [lia|]. split; [exact Hh|]. split; [|reflexivity].
          intros c Hc. unfold child in Hc; lia.
  Qed.

  Lemma sift_down_perm : forall fuel h pos h2 p,
    pos < length h -> sift_down le fuel h pos = (h2, p) ->
    Permutation h h2 /\ p < length h /\ length h2 = length h.
  Proof.
    induction fuel as [|f IHf]; intros h pos h2 p Hpos Hs; cbn [sift_down] in Hs.
    - inversion Hs; subst. split; [reflexivity|]. split; [exact Hpos | reflexivity].
    - destruct (Nat.ltb_spec (2 * pos + 1 + 1) (length h)).
      + destruct (nth_error h (2 * pos + 1)) as [a|] eqn:Ea;
          [|inversion Hs; subst; split; [reflexivity|]; split; [exact Hpos | reflexivity]].
        destruct (nth_error h (2 * pos + 1 + 1)) as [b|] eqn:Eb;
          [|inversion Hs; subst; split; [reflexivity|]; split; [exact Hpos | reflexivity]].
        apply IHf in Hs; [|rewrite swap_length; destruct (le a b); lia].
        rewrite swap_length in Hs. destruct Hs as (Q1 & Q2 & Q3).
        split; [|split; assumption].
        eapply perm_trans; [|exact Q1]. apply swap_perm; destruct (le a b); lia.
      + destruct (Nat.eqb_spec (2 * pos + 1 + 1) (length h)); inversion Hs; subst.
        * rewrite swap_length. split; [apply swap_perm; lia|]. split; [lia | reflexivity].
        * split; [reflexivity|]. split; [exact Hpos | reflexivity].
  Qed.

  (* ---------------------------------------------------------------- push / pop *)
  Lemma push_perm : forall x h, Permutation (x :: h) (push le x h).
  Proof.
    intros x h. unfold push.
    etransitivity; [apply Permutation_cons_append|].
    apply sift_up_perm. rewrite app_length; cbn; lia.
  Qed.

  Lemma push_length : forall x h, length (push le x h) = S (length h).
  Proof. intros. unfold push. rewrite sift_up_length, app_length; cbn; lia. Qed.

  Lemma push_ok : forall x h, heap_ok h -> heap_ok (push le x h).
  Proof.
    intros x h H. unfold push.
    apply sift_up_ok; try (rewrite ?app_length; cbn; lia).
    - split.
      + intros p c a b Hc Hcn Hpn Ha Hb.
        assert (c < length (h ++ [x])) by (apply nth_error_Some; congruence).
        assert (p < length (h ++ [x])) by (apply nth_error_Some; congruence).
        rewrite app_length in *; cbn [length] in *.
        rewrite nth_error_app1 in Ha, Hb by lia. eapply H; eauto.
      + intros g c a b Hg Hc Ha Hb.
        assert (c < length (h ++ [x])) by (apply nth_error_Some; congruence).
        rewrite app_length in *; cbn [length] in *. unfold child in Hc; lia.
    - intros c a b Hc Ha Hb.
      assert (c < length (h ++ [x])) by (apply nth_error_Some; congruence).
      rewrite app_length in *; cbn [length] in *. unfold child in Hc; lia.
  Qed.

  Lemma pop_none : forall h, pop le h = None <-> h = [].
  Proof.
    intros h. unfold pop. split.
    - destruct (rev h) as [|l rf] eqn:E.
      + intros _. apply (f_equal (@rev A)) in E. rewrite rev_involutive in E. auto.
      + destruct (rev rf); [discriminate|].
        destruct (sift_down le (length (l :: l0)) (l :: l0) 0); discriminate.
    - intros ->. reflexivity.
  Qed.

  Lemma root_max : forall h, heap_ok h -> forall i x y, nth_error h i = Some x -> nth_error h 0 = Some y -> le x y = true.
  Proof.
    intros h H i. induction i as [i IH] using lt_wf_ind. intros x y Hx Hy.
    destruct i as [|p'].
    - assert (x = y) by congruence. subst. apply le_refl.
    - pose proof (child_parent p') as Hc.
      assert (Hlt : Nat.div p' 2 < S p') by (unfold child in Hc; lia).
      destruct (nth_error h (Nat.div p' 2)) as [z|] eqn:Ez.
      + eapply le_trans; [eapply H; eauto | eapply IH; eauto].
      + apply nth_error_None in Ez. assert (S p' < length h) by (apply nth_error_Some; congruence). lia.
  Qed.

  Lemma pop_spec : forall h x h', pop le h = Some (x, h') ->
    Permutation h (x :: h') /\ length h = S (length h') /\
    (heap_ok h -> heap_ok h' /\ forall y, In y h' -> le y x = true).
  Proof.
    intros h x h' Hp. unfold pop in Hp.
    destruct (rev h) as [|l rf] eqn:E; [discriminate|].
    assert (Eh : h = rev rf ++ [l]).
    { apply (f_equal (@rev A)) in E. rewrite rev_involutive in E. exact E. }
    destruct (rev rf) as [|top rest] eqn:E2.
    - inversion Hp; subst. cbn. split; [auto|]. split; [auto|]. intros _. split.
      + intros p c a b Hc Ha; destruct c; discriminate.
      + intros y [].
    - remember (l :: rest) as h1.
      pose proof (sift_down_ok (length h1) h1 0) as SD.
      destruct (sift_down le (length h1) h1 0) as [h2 p] eqn:Esd. cbn [fst snd] in SD.
      inversion Hp; subst x h'. clear Hp.
      assert (Hperm1 : Permutation h (top :: h1)).
      { subst h h1. cbn [app]. apply perm_skip. symmetry. apply Permutation_cons_append. }
      assert (Hl1 : 0 < length h1) by (subst h1; cbn; lia).
      split; [|split].
      + etransitivity; [exact Hperm1|]. apply perm_skip.
        destruct (sift_down_perm _ _ _ _ _ Hl1 Esd) as (P2 & P3 & P4).
        etransitivity; [exact P2|]. apply sift_up_perm. lia.
      + rewrite sift_up_length.
        destruct (sift_down_perm _ _ _ _ _ Hl1 Esd) as (P2 & P3 & P4).
        rewrite P4. apply Permutation_length in Hperm1. cbn [length] in Hperm1. lia.
      + intros Hok.
        assert (Hh1 : hole_ok h1 0).
        { split.
          - intros q c a b Hc Hcn Hqn Ha Hb. subst h h1.
            destruct c as [|c]; [lia|]. destruct q as [|q]; [lia|]. cbn [nth_error] in Ha, Hb.
            assert (S c < length (top :: rest)).
            { cbn [length]. assert (c < length rest) by (apply nth_error_Some; congruence). lia. }
            eapply (Hok (S q) (S c)); eauto.
            + cbn [app nth_error]. rewrite nth_error_app1; auto.
              apply nth_error_Some; congruence.
            + cbn [app nth_error]. rewrite nth_error_app1; auto.
              apply nth_error_Some; congruence.
          - intros g c a b Hg. unfold child in Hg; lia. }
        destruct SD as (S1 & S2 & S3 & S4 & S5); auto; try lia.
        split.
        * apply sift_up_ok; try lia; auto.
          intros c a b Hc Ha Hb. apply S4 in Hc.
          assert (c < length h2) by (apply nth_error_Some; congruence). lia.
        * intros y Hy.
          assert (Hy1 : In y h1).
          { eapply Permutation_in; [|exact Hy]. symmetry. eapply perm_trans; [exact S5|]. apply sift_up_perm. lia. }
          assert (Hy2 : In y h).
          { eapply Permutation_in; [symmetry; exact Hperm1 | right; exact Hy1]. }
          apply In_nth_error in Hy2. destruct Hy2 as [i Hi].
          eapply root_max; eauto. subst h. reflexivity.
  Qed.

  (* ---------------------------------------------------------------- drain *)
  Lemma drain_perm : forall fuel h, length h <= fuel -> Permutation h (drain le fuel h).
  Proof.
    induction fuel as [|f IH]; intros h Hl; cbn [drain].
    - destruct h; [constructor | cbn in Hl; lia].
    - destruct (pop le h) as [[x h']|] eqn:Ep.
      + apply pop_spec in Ep. destruct Ep as (P & L & _).
        etransitivity; [exact P|]. apply perm_skip. apply IH. lia.
      + apply pop_none in Ep. subst. constructor.
  Qed.

  Lemma drain_sorted : forall fuel h, length h <= fuel -> heap_ok h ->
    StronglySorted (fun a b => le b a = true) (drain le fuel h).
  Proof.
    induction fuel as [|f IH]; intros h Hl Hok; cbn [drain]; [constructor|].
    destruct (pop le h) as [[x h']|] eqn:Ep; [|constructor].
    apply pop_spec in Ep. destruct Ep as (P & L & Hh). destruct (Hh Hok) as [Hok' Hmax].
    constructor.
    - apply IH; auto; lia.
    - apply Forall_forall. intros y Hy. apply Hmax.
      eapply Permutation_in; [|exact Hy]. symmetry. apply drain_perm. lia.
  Qed.

  Lemma heap_ok_nil : heap_ok [].
  Proof. intros p c x y _ H. destruct c; discriminate. Qed.

  Lemma peek_max : forall h y, heap_ok h -> hd_error h = Some y -> forall x, In x h -> le x y = true.
  Proof.
    intros h y Hok Hy x Hx. apply In_nth_error in Hx. destruct Hx as [i Hi].
    eapply root_max; eauto; destruct h; cbn in *; congruence.
  Qed.
End HeapFacts.
