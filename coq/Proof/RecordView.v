(* C31 proofs, part 4: reading a built record back (RecordView getters through
   OwnedValue::from_record_column / extract_row_from_record) and the round-trip theorem. *)
From Coq Require Import ZArith List Bool Lia ZifyBool.
From TV Require Import Lib.MachInt Lib.MachIntFacts Model.Record
  Proof.RecordBase Proof.RecordBuild Proof.RecordReset Proof.RecordRefute.
Import ListNotations.
Open Scope Z_scope.

Ltac Zify.zify_post_hook ::= Z.to_euclidean_division_equations.

(* ------------------------------------------------------------------ reading slices *)
Lemma rd_at pre seg post lo hi :
  lo = blen pre -> hi = lo + blen seg -> rd (pre ++ seg ++ post) lo hi = Ok seg.
Proof.
  intros Hl Hh. subst hi. destruct (bslice_mid pre seg post lo (lo + blen seg) Hl) as [A B]; [lia|].
  unfold rd. rewrite B, A. reflexivity.
Qed.

Lemma header_len_ok hl rest : 0 <= hl < 65536 -> header_len (le_bytes 2 hl ++ rest) = Ok hl.
Proof.
  intros H. unfold header_len, bidx_ok. rewrite blen_app, blen_le_bytes.
  pose proof (blen_nonneg rest).
  replace ((0 <=? 1) && (1 <? Z.of_nat 2 + blen rest)) with true by lia.
  cbn [le_bytes app]. rewrite bidx_cons0, bidx_cons1. f_equal. lia.
Qed.

Lemma rcc_all cols : forall consumed avail count,
  consumed + total_fixed cols <= avail ->
  rcc_loop cols consumed avail count = count + Z.of_nat (length cols).
Proof.
  induction cols as [|t cols IH]; intros consumed avail count H; cbn [rcc_loop length total_fixed] in *; [lia|].
  pose proof (total_fixed_nonneg cols). unfold fsz in H.
  destruct (fixed_size t) as [sz|].
  - replace (consumed + sz >? avail) with false by lia. rewrite IH by lia. lia.
  - rewrite IH by lia. lia.
Qed.

(* ------------------------------------------------------------------ the end-offset table *)
Lemma cums_app a : forall acc b, cums acc (a ++ b) = cums acc a ++ cums (acc + blen (concat a)) b.
Proof.
  induction a as [|v a IH]; intros acc b; cbn [cums app concat].
  - rewrite blen_nil. f_equal. lia.
  - rewrite IH, blen_app. do 3 f_equal. lia.
Qed.

Lemma cums_length vs : forall acc, length (cums acc vs) = length vs.
Proof. induction vs as [|v vs IH]; intros acc; cbn [cums length]; [reflexivity | rewrite IH; reflexivity]. Qed.

Lemma cums_bound vs : forall acc x, In x (cums acc vs) -> acc <= x <= acc + blen (concat vs).
Proof.
  induction vs as [|v vs IH]; intros acc x H; cbn [cums concat] in *; [contradiction|].
  rewrite blen_app. pose proof (blen_nonneg v). pose proof (blen_nonneg (concat vs)).
  destruct H as [<-|H]; [lia|]. apply IH in H. lia.
Qed.

Lemma cums_last a : forall acc, a <> [] -> nth (length a - 1) (cums acc a) 0 = acc + blen (concat a).
Proof.
  induction a as [|v a IH]; intros acc H; [congruence|].
  destruct a as [|w a].
  - cbn [cums length nth concat Nat.sub]. rewrite app_nil_r. reflexivity.
  - replace (length (v :: w :: a) - 1)%nat with (S (length (w :: a) - 1)) by (cbn [length]; lia).
    change (cums acc (v :: w :: a)) with ((acc + blen v) :: cums (acc + blen v) (w :: a)).
    cbn [nth]. rewrite IH by discriminate. cbn [concat]. rewrite !blen_app. lia.
Qed.

Lemma u16_at_shift p t i : 0 <= i -> u16_at (p ++ t) (blen p + i) = u16_at t i.
Proof.
  intros Hi. unfold u16_at, bidx_ok. rewrite blen_app. pose proof (blen_nonneg p).
  rewrite !bidx_app_r by lia.
  replace (blen p + i - blen p) with i by lia. replace (blen p + i + 1 - blen p) with (i + 1) by lia.
  replace ((0 <=? blen p + i) && (blen p + i <? blen p + blen t)) with ((0 <=? i) && (i <? blen t)) by lia.
  replace ((0 <=? blen p + i + 1) && (blen p + i + 1 <? blen p + blen t)) with ((0 <=? i + 1) && (i + 1 <? blen t)) by lia.
  reflexivity.
Qed.

Lemma u16_at_flat l : forall k, (k < length l)%nat ->
  (forall x, In x l -> 0 <= x < 65536) ->
  u16_at (flat_map (le_bytes 2) l) (Z.of_nat k * 2) = Ok (nth k l 0).
Proof.
  induction l as [|x l IH]; intros k Hk Hr; cbn [length] in Hk; [lia|].
  cbn [flat_map]. destruct k as [|k].
  - change (Z.of_nat 0 * 2) with 0. cbn [nth].
    set (T := flat_map (le_bytes 2) l).
    change (le_bytes 2 x) with [x mod 256; (x / 256) mod 256]. cbn [app].
    unfold u16_at, bidx_ok. rewrite !blen_cons. pose proof (blen_nonneg T).
    replace ((0 <=? 0) && (0 <? 1 + (1 + blen T))) with true by lia.
    replace ((0 <=? 0 + 1) && (0 + 1 <? 1 + (1 + blen T))) with true by lia.
    cbn [andb]. change (0 + 1) with 1. rewrite bidx_cons0, bidx_cons1.
    specialize (Hr x (or_introl eq_refl)). f_equal. lia.
  - cbn [nth]. replace (Z.of_nat (S k) * 2) with (blen (le_bytes 2 x) + Z.of_nat k * 2) by (rewrite blen_le_bytes; lia).
    rewrite u16_at_shift by lia. apply IH; [lia|]. intros y Hy. apply Hr. right. exact Hy.
Qed.

Lemma blen_flat_le2 l : blen (flat_map (le_bytes 2) l) = 2 * Z.of_nat (length l).
Proof.
  induction l as [|x l IH]; [reflexivity|]. cbn [flat_map length]. rewrite blen_app, blen_le_bytes, IH. lia.
Qed.

(* ------------------------------------------------------------------ per-type decoding *)
Lemma bslice2_l a b n : n = blen a -> bslice (a ++ b) 0 n = a.
Proof. apply bslice_prefix. Qed.
Lemma bslice2_r a b lo hi : lo = blen a -> hi = blen a + blen b -> bslice (a ++ b) lo hi = b.
Proof. apply bslice_suffix. Qed.
Lemma bslice3_m a b c lo hi : lo = blen a -> hi = blen a + blen b -> bslice (a ++ b ++ c) lo hi = b.
Proof. intros Hl Hh. apply (bslice_mid a b c lo hi Hl Hh). Qed.

Ltac splitb :=
  repeat match goal with H : (_ && _) = true |- _ => apply andb_true_iff in H; destruct H end.
Ltac lens := rewrite ?blen_app, ?blen_le; try reflexivity; try lia.

Lemma utf8_not_toast b : utf8_ok b = true -> is_toast b = false.
Proof.
  intros H. unfold is_toast. destruct b as [|x r]; [reflexivity|]. rewrite bidx_cons0.
  destruct (Z.eqb_spec x 254) as [->|]; [|apply andb_false_r].
  exfalso. unfold utf8_ok in H. cbn [length] in H. vm_compute in H. discriminate H.
Qed.

(* ------------------------------------------------------------------ f64 -> f32 -> f64 *)
Ltac pows :=
  change (29 - 1) with 28 in *;
  repeat match goal with
         | |- context [Z.pow 2 (Zpos ?p)] =>
             let v := eval vm_compute in (Z.pow 2 (Zpos p)) in change (Z.pow 2 (Zpos p)) with v
         | H : context [Z.pow 2 (Zpos ?p)] |- _ =>
             let v := eval vm_compute in (Z.pow 2 (Zpos p)) in change (Z.pow 2 (Zpos p)) with v in H
         end.

Lemma f32_widen_fields sg e32 m32 :
  0 <= sg <= 1 -> 0 <= e32 < 256 -> 0 <= m32 < 2 ^ 23 ->
  let y := sg * 2 ^ 31 + e32 * 2 ^ 23 + m32 in
  y / 2 ^ 31 = sg /\ (y / 2 ^ 23) mod 256 = e32 /\ y mod 2 ^ 23 = m32 /\ 0 <= y < 2 ^ 32.
Proof. intros Hs He Hm y. unfold y. pows. lia. Qed.

(* the exact f32 values (zero, infinity, normal) survive `as f32` then `as f64` *)
Lemma f32_roundtrip x :
  f32_representable x = true ->
  in_u 32 (f64_to_f32 x) = true /\ f32_to_f64 (f64_to_f32 x) = x.
Proof.
  unfold f32_representable. intros H. apply andb_true_iff in H. destruct H as [Hu H].
  apply in_u_true in Hu.
  set (sg := x / 2 ^ 63). set (e := (x / 2 ^ 52) mod 2048) in *. set (m := x mod 2 ^ 52) in *.
  assert (Hx : x = sg * 2 ^ 63 + e * 2 ^ 52 + m) by (unfold sg, e, m; pows; lia).
  assert (Hsg : 0 <= sg <= 1) by (unfold sg; pows; lia).
  assert (He : 0 <= e < 2048) by (unfold e; lia).
  assert (Hm : 0 <= m < 2 ^ 52) by (unfold m; pows; lia).
  assert (Y : exists e32 m32, 0 <= e32 < 256 /\ 0 <= m32 < 2 ^ 23 /\
            f64_to_f32 x = sg * 2 ^ 31 + e32 * 2 ^ 23 + m32 /\
            ((e32 = 0 /\ m32 = 0 /\ e = 0 /\ m = 0) \/
             (e32 = 255 /\ m32 = 0 /\ e = 2047 /\ m = 0) \/
             (0 < e32 < 255 /\ e = e32 + 896 /\ m = m32 * 2 ^ 29))).
  { unfold f64_to_f32. cbv zeta. fold sg. fold e. fold m.
    apply orb_true_iff in H. destruct H as [H|H]; [apply orb_true_iff in H; destruct H as [H|H]|].
    - (* zero *) exists 0, 0. assert (e = 0 /\ m = 0) as [E0 M0] by lia.
      rewrite E0. cbn [Z.eqb]. change (0 =? 2047) with false. change (0 =? 0) with true. cbv iota.
      pows. repeat split; try lia.
    - (* infinity *) exists 255, 0. assert (e = 2047 /\ m = 0) as [E0 M0] by lia.
      rewrite E0, M0. change (2047 =? 2047) with true. change (0 =? 0) with true. cbv iota.
      pows. repeat split; try lia.
    - (* normal *) exists (e - 896), (m / 2 ^ 29).
      assert (897 <= e <= 1150 /\ m mod 2 ^ 29 = 0) as [E0 M0] by lia.
      replace (e =? 2047) with false by lia. replace (e =? 0) with false by lia.
      replace (e - 1023 >=? -126) with true by lia.
      unfold round_shift. pows.
      replace ((4503599627370496 + m) mod 536870912) with 0 by lia.
      replace ((4503599627370496 + m) / 536870912) with (8388608 + m / 536870912) by lia.
      change (0 >? 268435456) with false. change (0 =? 268435456) with false. cbn [orb andb].
      replace ((e - 1023 + 126) * 8388608 + (8388608 + m / 536870912) >=? 255 * 8388608) with false by lia.
      repeat split; try lia. }
  destruct Y as [e32 [m32 [He32 [Hm32 [Y Hcase]]]]].
  destruct (f32_widen_fields sg e32 m32 Hsg He32 Hm32) as [F1 [F2 [F3 F4]]].
  rewrite Y. split; [apply in_u_true; change (2 ^ 32) with (2 ^ 32); exact F4|].
  unfold f32_to_f64. cbv zeta. rewrite F1, F2, F3.
  destruct Hcase as [[A [B [C D]]]|[[A [B [C D]]]|[A [C D]]]].
  - subst e32 m32. change (0 =? 0) with true. cbv iota. rewrite Hx, C, D. lia.
  - subst e32 m32. change (255 =? 0) with false. change (255 =? 255) with true. change (0 =? 0) with true.
    cbv iota. rewrite Hx, C, D. pows. lia.
  - replace (e32 =? 0) with false by lia. replace (e32 =? 255) with false by lia.
    rewrite Hx, C, D. pows. lia.
Qed.

Definition ntb (t : dtype) (v : value) : bool :=
  match t, v with TBlob, VBlob b => is_toast b | _, _ => false end.

Lemma fixed_roundtrip t v :
  fits t v = true -> is_vnull v = false -> is_var t = false ->
  exists dec, fixed_getter t = Some (fsz t, dec) /\ dec (payload t v) = v.
Proof.
  intros Hf Hn Hv.
  destruct v; try discriminate Hn; destruct t; try discriminate Hf; try discriminate Hv;
    cbn [fits] in Hf; splitb;
    eexists; (split; [reflexivity|]); cbn [payload].
  - (* bool *) destruct b; reflexivity.
  - (* int2 *) f_equal. apply (sle_le 2); [lia | assumption].
  - (* int4 *) f_equal. apply (sle_le 4); [lia | assumption].
  - (* int8 *) f_equal. apply (sle_le 8); [lia | assumption].
  - (* float4 *) destruct (f32_roundtrip bits Hf) as [A B].
    f_equal. rewrite (from_le_le_u 4) by exact A. exact B.
  - (* float8 *) f_equal. apply (from_le_le_u 8). assumption.
  - (* date *) f_equal. apply (sle_le 4); [lia | assumption].
  - (* time *) f_equal. apply (sle_le 8); [lia | assumption].
  - (* timestamp *) f_equal. apply (sle_le 8); [lia | assumption].
  - (* timestamptz *)
    rewrite bslice2_l by lens. rewrite bslice2_r by lens.
    f_equal; [apply (sle_le 8) | apply (sle_le 4)]; try lia; assumption.
  - (* uuid *) reflexivity.
  - (* macaddr *) reflexivity.
  - (* inet4 *) reflexivity.
  - (* inet6 *) reflexivity.
  - (* interval *)
    rewrite bslice2_l by lens. rewrite bslice3_m by lens.
    rewrite (app_assoc (le 8 micros)). rewrite bslice2_r by lens.
    f_equal; [apply (sle_le 8) | apply (sle_le 4) | apply (sle_le 4)]; try lia; assumption.
  - (* point *)
    rewrite bslice2_l by lens. rewrite bslice2_r by lens.
    f_equal; apply (from_le_le_u 8); assumption.
  - (* box *)
    rewrite bslice2_l by lens. rewrite bslice3_m by lens.
    rewrite (app_assoc (le 8 lx)). rewrite bslice3_m by lens.
    rewrite (app_assoc (le 8 lx ++ le 8 ly)). rewrite bslice2_r by lens.
    f_equal; apply (from_le_le_u 8); assumption.
  - (* circle *)
    rewrite bslice2_l by lens. rewrite bslice3_m by lens.
    rewrite (app_assoc (le 8 cx)). rewrite bslice2_r by lens.
    f_equal; apply (from_le_le_u 8); assumption.
  - (* enum *)
    rewrite bslice2_l by lens. rewrite bslice2_r by lens.
    f_equal; apply (from_le_le_u 2); assumption.
Qed.

Lemma firstn_exact {A} (a b : list A) n : n = length a -> firstn n (a ++ b) = a.
Proof. intros ->. rewrite firstn_app, firstn_all, Nat.sub_diag. cbn [firstn]. apply app_nil_r. Qed.
Lemma skipn_exact {A} (a b : list A) n : n = length a -> skipn n (a ++ b) = b.
Proof. intros ->. rewrite skipn_app, skipn_all, Nat.sub_diag. reflexivity. Qed.

Lemma chunks4_flat fs : forallb (in_u 32) fs = true -> chunks4 (length fs) (flat_map (le 4) fs) = fs.
Proof.
  induction fs as [|x fs IH]; intros H; [reflexivity|].
  cbn [forallb] in H. apply andb_true_iff in H. destruct H as [Hx Hr].
  cbn [length chunks4 flat_map].
  assert (L : 4%nat = length (le 4 x)) by (symmetry; apply le_bytes_length).
  rewrite firstn_exact, skipn_exact by exact L.
  rewrite IH by exact Hr. f_equal. apply (from_le_le_u 4). exact Hx.
Qed.

Lemma var_roundtrip t v :
  fits t v = true -> is_vnull v = false -> is_var t = true -> ntb t v = false -> var_len v < 65536 ->
  fixed_getter t = None /\ var_decode t (payload t v) = Ok v.
Proof.
  intros Hf Hn Hv Hb Hl.
  destruct v; try discriminate Hn; destruct t; try discriminate Hf; try discriminate Hv;
    cbn [fits] in Hf; splitb;
    (split; [reflexivity|]); cbn [payload var_decode ntb] in *;
    try (rewrite utf8_not_toast by assumption; reflexivity);
    try (rewrite Hb; reflexivity);
    try (match goal with H : is_toast _ = true |- _ => rewrite H end; reflexivity); try reflexivity.
  - (* vector *)
    cbn [var_len] in Hl. pose proof (blen_nonneg f32s) as Hnn.
    unfold vector_bytes. rewrite blen_app, blen_le.
    assert (E : forall l, blen (flat_map (le 4) l) = 4 * blen l).
    { induction l as [|x l IH]; [reflexivity|]. cbn [flat_map]. rewrite blen_app, blen_le, IH, blen_cons. lia. }
    rewrite E.
    replace (Z.of_nat 4 + 4 * blen f32s <? 4) with false by lia.
    rewrite bslice2_l by lens.
    rewrite (from_le_le_u 4) by (apply in_u_true; change (2 ^ (8 * Z.of_nat 4)) with 4294967296; lia).
    replace (Z.of_nat 4 + 4 * blen f32s =? 4 + blen f32s * 4) with true by lia.
    rewrite skipn_exact by (symmetry; apply le_bytes_length).
    rewrite to_nat_blen, chunks4_flat by assumption. reflexivity.
  - (* jsonb *)
    replace (blen b <? 4) with false by lia. reflexivity.
  - (* decimal *)
    unfold decimal_bytes.
    assert (L : blen ((if digits <? 0 then 128 else 0) :: le 2 scale ++ le 16 digits) = 19)
      by (rewrite blen_cons, blen_app, !blen_le; reflexivity).
    rewrite L. change (19 <? 19) with false. change (19 <? 3) with false. cbn iota.
    change ((if digits <? 0 then 128 else 0) :: le 2 scale ++ le 16 digits)
      with ([if digits <? 0 then 128 else 0] ++ le 2 scale ++ le 16 digits).
    set (sg := if digits <? 0 then 128 else 0).
    rewrite (bslice3_m [sg] (le 2 scale) (le 16 digits) 1 3) by lens.
    rewrite (app_assoc [sg] (le 2 scale)).
    rewrite (bslice2_r ([sg] ++ le 2 scale) (le 16 digits) 3 19) by lens.
    f_equal. f_equal; [apply (sle_le 16) | apply (sle_le 2)]; try lia; assumption.
Qed.
