(* C04 proofs, part 4: the state reached by a history.  Outside the recorded classes an
   interruption leaves every table exactly as it was: leaf rows (with their row ids), header
   row_count, header auto_increment counter and PRIMARY KEY index. *)
From Coq Require Import ZArith List Bool Lia.
From TV Require Import Model.Persist Proof.Persist Proof.PersistRel Proof.PersistSim.
Import ListNotations.
Open Scope Z_scope.

(* the state after a run (same skipping rule as `run`) *)
Fixpoint exec (ints : bool) (s : st) (h : list op) : st :=
  match h with
  | [] => s
  | o :: t => if is_int o && negb ints then exec ints s t else exec ints (fst (step s o)) t
  end.

Lemma exec_true_cons : forall s o t, exec true s (o :: t) = exec true (fst (step s o)) t.
Proof. intros. cbn [exec negb]. now rewrite andb_false_r. Qed.
Lemma exec_false_int : forall s o t, is_int o = true -> exec false s (o :: t) = exec false s t.
Proof. intros s o t H. cbn [exec negb]. now rewrite H. Qed.
Lemma exec_false_stmt : forall s o t, is_int o = false -> exec false s (o :: t) = exec false (fst (step s o)) t.
Proof. intros s o t H. cbn [exec negb]. now rewrite H. Qed.

(* the invariants of the simulation hold at the end of every history outside the class *)
Lemma reach : forall h b sA sB,
  forallb op_in_lang h = true -> Lrel sA sB -> Fresh b sA ->
  kclass (kscan b h (run true sA h)) = 0 ->
  Lrel (exec true sA h) (exec false sB h) /\ Fresh (kscan b h (run true sA h)) (exec true sA h).
Proof.
  induction h as [|o h IH]; intros b sA sB HL L F HK; [cbn; auto|].
  cbn [forallb] in HL. apply andb_true_iff in HL. destruct HL as [HO HL].
  rewrite run_true_cons in *. cbn [kscan] in *. rewrite exec_true_cons.
  pose proof (final_zero_now _ _ _ HK) as C2.
  destruct (is_int o) eqn:HI.
  - rewrite (exec_false_int sB o h HI).
    destruct (int_step o b sA sB HI HO L F C2) as (EO & L' & F').
    apply IH; assumption.
  - rewrite (exec_false_stmt sB o h HI).
    destruct (stmt_L o sA sB HI L) as (EO & L').
    pose proof (stmt_F o b sA HI HO F) as F'.
    apply IH; assumption.
Qed.

Lemma kscan_app : forall h1 h2 oa1 oa2 b,
  length oa1 = length h1 -> kscan b (h1 ++ h2) (oa1 ++ oa2) = kscan (kscan b h1 oa1) h2 oa2.
Proof.
  induction h1 as [|o h1 IH]; intros h2 oa1 oa2 b HLn.
  - destruct oa1; [reflexivity | discriminate].
  - destruct oa1 as [|x oa1]; [discriminate|]. cbn [app kscan]. apply IH. cbn in HLn. lia.
Qed.

Lemma run_app : forall h1 h2 s, run true s (h1 ++ h2) = run true s h1 ++ run true (exec true s h1) h2.
Proof.
  induction h1 as [|o h1 IH]; intros h2 s; [reflexivity|].
  cbn [app]. rewrite !run_true_cons, exec_true_cons. cbn [app]. now rewrite IH.
Qed.
Lemma run_true_length : forall h s, length (run true s h) = length h.
Proof. induction h as [|o h IH]; intros s; [reflexivity|]. rewrite run_true_cons. cbn. now rewrite IH. Qed.
Lemma exec_app : forall ints h1 h2 s, exec ints s (h1 ++ h2) = exec ints (exec ints s h1) h2.
Proof.
  induction h1 as [|o h1 IH]; intros h2 s; [reflexivity|].
  cbn [app exec]. destruct (is_int o && negb ints); apply IH.
Qed.

(* any interruption, at the end of any history outside the class, changes no table *)
Lemma interruption_preserves_tables_l : forall wal h o,
  is_int o = true -> in_lang (h ++ [o]) = true ->
  known_class_of wal (h ++ [o]) (run true (init wal) (h ++ [o])) = 0 ->
  forall t, s_tab (exec true (init wal) (h ++ [o])) t = s_tab (exec true (init wal) h) t.
Proof.
  intros wal h o HI HL HK t. unfold in_lang in HL. rewrite forallb_app in HL.
  apply andb_true_iff in HL. destruct HL as [HL1 HL2]. cbn [forallb] in HL2. rewrite andb_true_r in HL2.
  unfold known_class_of in HK. rewrite run_app in HK.
  rewrite (kscan_app h [o] _ _ _ (run_true_length h (init wal))) in HK.
  set (b := kscan (k2_init wal) h (run true (init wal) h)) in *.
  rewrite run_true_cons in HK. cbn [kscan run] in HK. apply kclass_zero in HK.
  assert (kclass b = 0) as HK1.
  { apply kclass_zero_intro. destruct (k_c2 b) eqn:E; [|reflexivity].
    rewrite (k2_step_c2_mono b o _ E) in HK. discriminate. }
  destruct (reach h (k2_init wal) (init wal) (init wal) HL1 (init_Lrel wal) (init_Fresh wal) HK1) as [_ F].
  fold b in F. rewrite exec_app. cbn [exec negb]. rewrite andb_false_r.
  apply (int_tabs o b _ HI HL2 F HK).
Qed.
