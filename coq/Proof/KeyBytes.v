(* C26 proofs, part 1: bytewise comparison, fixed-width big-endian fields, the top-bit
   transforms and the escape scheme of encode_escaped_bytes / decode_escaped_bytes. *)
From Coq Require Import ZArith List Bool Lia ZifyBool.
From TV Require Import Lib.MachInt Lib.MachIntFacts Gen.KeyPrefix Model.KeySpec Model.Key.
Import ListNotations.
Open Scope Z_scope.

Ltac Zify.zify_post_hook ::= Z.to_euclidean_division_equations.

(* ------------------------------------------------------------------ comparison algebra *)
Lemma cthen_Eq_r c : cthen c Eq = c.
Proof. destruct c; reflexivity. Qed.
Lemma cthen_assoc a b c : cthen (cthen a b) c = cthen a (cthen b c).
Proof. destruct a; reflexivity. Qed.

Lemma lex_cmp_refl a : lex_cmp a a = Eq.
Proof. induction a as [|x a IH]; cbn [lex_cmp]; [reflexivity|]. rewrite Z.compare_refl. exact IH. Qed.

Lemma lex_cmp_eq a : forall b, lex_cmp a b = Eq -> a = b.
Proof.
  induction a as [|x a IH]; intros [|y b]; cbn [lex_cmp]; try discriminate; [reflexivity|].
  destruct (x ?= y) eqn:E; cbn [cthen]; try discriminate.
  intros H. apply Z.compare_eq in E. subst. f_equal. apply IH. exact H.
Qed.

Lemma lex_cmp_cons x y a b : lex_cmp (x :: a) (y :: b) = cthen (x ?= y) (lex_cmp a b).
Proof. reflexivity. Qed.

(* equal-length heads decide first *)
Lemma lex_cmp_app u1 : forall u2 r1 r2, length u1 = length u2 ->
  lex_cmp (u1 ++ r1) (u2 ++ r2) = cthen (lex_cmp u1 u2) (lex_cmp r1 r2).
Proof.
  induction u1 as [|x u1 IH]; intros [|y u2] r1 r2 HL; cbn [length] in HL; try discriminate.
  - reflexivity.
  - cbn [app lex_cmp]. rewrite IH by lia. rewrite cthen_assoc. reflexivity.
Qed.

Lemma lex_cmp_app_same u r1 r2 : lex_cmp (u ++ r1) (u ++ r2) = lex_cmp r1 r2.
Proof. rewrite lex_cmp_app by reflexivity. rewrite lex_cmp_refl. reflexivity. Qed.

Lemma lex_cmp_head x y a b : x <> y -> lex_cmp (x :: a) (y :: b) = (x ?= y).
Proof. intros H. cbn [lex_cmp]. destruct (Z.compare_spec x y); try reflexivity. contradiction. Qed.

(* ------------------------------------------------------------------ big-endian fields *)
Lemma be_bytes_length n v : length (be_bytes n v) = n.
Proof. induction n as [|n IH]; cbn [be_bytes length]; [reflexivity|]. rewrite IH. reflexivity. Qed.

Lemma blen_be_bytes n v : blen (be_bytes n v) = Z.of_nat n.
Proof. unfold blen. rewrite be_bytes_length. reflexivity. Qed.

Lemma be_bytes_ok n v : bytes_ok (be_bytes n v) = true.
Proof.
  induction n as [|n IH]; [reflexivity|].
  cbn [be_bytes]. apply bytes_ok_cons. split; [|exact IH].
  apply Z.mod_pos_bound. lia.
Qed.

Lemma pow256_S n : 256 ^ Z.of_nat (S n) = 256 * 256 ^ Z.of_nat n.
Proof. rewrite Nat2Z.inj_succ, Z.pow_succ_r by lia. reflexivity. Qed.

Lemma pow256_pos n : 0 < 256 ^ Z.of_nat n.
Proof. apply Z.pow_pos_nonneg; lia. Qed.

Lemma mod_split v p : 0 < p -> v mod (256 * p) = v mod p + p * ((v / p) mod 256).
Proof. intros Hp. rewrite (Z.mul_comm 256 p). apply Z.rem_mul_r; lia. Qed.

Lemma be_bytes_cmp_mod n : forall x y,
  lex_cmp (be_bytes n x) (be_bytes n y) = (x mod 256 ^ Z.of_nat n ?= y mod 256 ^ Z.of_nat n).
Proof.
  induction n as [|n IH]; intros x y.
  - cbn. rewrite !Z.mod_1_r. reflexivity.
  - rewrite pow256_S. pose proof (pow256_pos n) as Hp.
    cbn [be_bytes lex_cmp]. rewrite IH.
    set (p := 256 ^ Z.of_nat n) in *.
    rewrite (mod_split x p Hp), (mod_split y p Hp).
    pose proof (Z.mod_pos_bound x p Hp) as Mx. pose proof (Z.mod_pos_bound y p Hp) as My.
    pose proof (Z.mod_pos_bound (x / p) 256 ltac:(lia)) as Qx.
    pose proof (Z.mod_pos_bound (y / p) 256 ltac:(lia)) as Qy.
    set (a := (x / p) mod 256) in *. set (b := (y / p) mod 256) in *.
    set (c := x mod p) in *. set (d := y mod p) in *. clearbody a b c d p.
    destruct (Z.compare_spec a b) as [E|L|G]; cbn [cthen].
    + subst b. destruct (Z.compare_spec c d); symmetry;
        [apply Z.compare_eq_iff | apply Z.compare_lt_iff | apply Z.compare_gt_iff]; nia.
    + symmetry. apply Z.compare_lt_iff. nia.
    + symmetry. apply Z.compare_gt_iff. nia.
Qed.

Lemma be_bytes_cmp n x y : 0 <= x < 256 ^ Z.of_nat n -> 0 <= y < 256 ^ Z.of_nat n ->
  lex_cmp (be_bytes n x) (be_bytes n y) = (x ?= y).
Proof. intros Hx Hy. rewrite be_bytes_cmp_mod, !Z.mod_small by assumption. reflexivity. Qed.

Lemma from_be_be_bytes_mod n : forall v, from_be (be_bytes n v) = v mod 256 ^ Z.of_nat n.
Proof.
  induction n as [|n IH]; intros v.
  - cbn. rewrite Z.mod_1_r. reflexivity.
  - rewrite pow256_S. pose proof (pow256_pos n) as Hp.
    cbn [be_bytes from_be]. rewrite be_bytes_length, IH.
    rewrite (mod_split v _ Hp). lia.
Qed.

Lemma from_be_be_bytes n v : 0 <= v < 256 ^ Z.of_nat n -> from_be (be_bytes n v) = v.
Proof. intros Hv. rewrite from_be_be_bytes_mod, Z.mod_small by assumption. reflexivity. Qed.

(* ------------------------------------------------------------------ take / drop on appended fields *)
Lemma drop_app_len (u r : list Z) : drop (blen u) (u ++ r) = r.
Proof.
  unfold drop, blen. rewrite Nat2Z.id. induction u as [|x u IH]; [reflexivity|]. exact IH.
Qed.

Lemma take_app_len (u r : list Z) : take (blen u) (u ++ r) = u.
Proof.
  unfold take, blen. rewrite Nat2Z.id. induction u as [|x u IH]; [reflexivity|].
  cbn [length app firstn]. rewrite IH. reflexivity.
Qed.

Lemma drop_0 (d : list Z) : drop 0 d = d.
Proof. reflexivity. Qed.

Lemma drop_cons n x (d : list Z) : 0 <= n -> drop (1 + n) (x :: d) = drop n d.
Proof.
  intros H. unfold drop. replace (Z.to_nat (1 + n)) with (S (Z.to_nat n)) by lia. reflexivity.
Qed.

Lemma skipn_add {A} (n m : nat) : forall l : list A, skipn m (skipn n l) = skipn (n + m) l.
Proof.
  induction n as [|n IH]; intros l; [reflexivity|].
  destruct l as [|x l]; [rewrite !skipn_nil; reflexivity|]. cbn [skipn Nat.add]. apply IH.
Qed.

Lemma drop_drop a b (d : list Z) : 0 <= a -> 0 <= b -> drop b (drop a d) = drop (a + b) d.
Proof.
  intros Ha Hb. unfold drop. rewrite skipn_add. f_equal. lia.
Qed.

(* data[lo..lo+n] of  pre ++ field ++ rest  where |pre| = lo and |field| = n *)
Lemma sub_mid (pre u r : list Z) lo n : blen pre = lo -> blen u = n -> sub (pre ++ u ++ r) lo n = u.
Proof.
  intros <- <-. unfold sub. rewrite drop_app_len. apply take_app_len.
Qed.

(* ------------------------------------------------------------------ top-bit transforms *)
Lemma flip_invol bits x : 0 < bits -> 0 <= x < 2 ^ bits -> flip bits (flip bits x) = x.
Proof.
  intros Hb Hx. unfold flip.
  assert (2 ^ bits = 2 * 2 ^ (bits - 1)).
  { replace bits with (1 + (bits - 1)) at 1 by lia. rewrite Z.pow_add_r by lia. reflexivity. }
  destruct (x <? 2 ^ (bits - 1)) eqn:E.
  - destruct (x + 2 ^ (bits - 1) <? 2 ^ (bits - 1)) eqn:E2; lia.
  - destruct (x - 2 ^ (bits - 1) <? 2 ^ (bits - 1)) eqn:E2; lia.
Qed.

Lemma flip_range bits x : 0 < bits -> 0 <= x < 2 ^ bits -> 0 <= flip bits x < 2 ^ bits.
Proof.
  intros Hb Hx. unfold flip.
  assert (2 ^ bits = 2 * 2 ^ (bits - 1)).
  { replace bits with (1 + (bits - 1)) at 1 by lia. rewrite Z.pow_add_r by lia. reflexivity. }
  destruct (x <? 2 ^ (bits - 1)) eqn:E; lia.
Qed.

(* (v as uN) ^ top = v + 2^(N-1) for a signed N-bit v *)
Lemma bias_signed bits v : 0 < bits -> - 2 ^ (bits - 1) <= v < 2 ^ (bits - 1) ->
  bias bits v = v + 2 ^ (bits - 1).
Proof.
  intros Hb Hv. unfold bias, flip, wrap_u.
  assert (H2 : 2 ^ bits = 2 * 2 ^ (bits - 1)).
  { replace bits with (1 + (bits - 1)) at 1 by lia. rewrite Z.pow_add_r by lia. reflexivity. }
  assert (Hp : 0 < 2 ^ (bits - 1)) by (apply Z.pow_pos_nonneg; lia).
  destruct (Z.ltb_spec v 0) as [Hn|Hn].
  - assert (E : v mod 2 ^ bits = v + 2 ^ bits).
    { symmetry. apply Z.mod_unique with (q := -1); lia. }
    rewrite E. destruct (v + 2 ^ bits <? 2 ^ (bits - 1)) eqn:C; lia.
  - rewrite Z.mod_small by lia. destruct (v <? 2 ^ (bits - 1)) eqn:C; lia.
Qed.

Lemma unbias_bias bits v : 0 < bits -> - 2 ^ (bits - 1) <= v < 2 ^ (bits - 1) ->
  unbias bits (bias bits v) = v.
Proof.
  intros Hb Hv. unfold unbias. rewrite bias_signed by assumption.
  assert (H2 : 2 ^ bits = 2 * 2 ^ (bits - 1)).
  { replace bits with (1 + (bits - 1)) at 1 by lia. rewrite Z.pow_add_r by lia. reflexivity. }
  assert (Hp : 0 < 2 ^ (bits - 1)) by (apply Z.pow_pos_nonneg; lia).
  unfold flip, wrap_s.
  destruct (v + 2 ^ (bits - 1) <? 2 ^ (bits - 1)) eqn:C.
  - replace (v + 2 ^ (bits - 1) + 2 ^ (bits - 1) + 2 ^ (bits - 1)) with (v + 2 ^ (bits - 1) + 1 * 2 ^ bits) by lia.
    rewrite Z.mod_add by lia. rewrite Z.mod_small by lia. lia.
  - replace (v + 2 ^ (bits - 1) - 2 ^ (bits - 1) + 2 ^ (bits - 1)) with (v + 2 ^ (bits - 1)) by lia.
    rewrite Z.mod_small by lia. lia.
Qed.

Ltac cmp_known :=
  repeat match goal with
  | |- context [?x ?= ?y] =>
      first [ replace (x ?= y) with Lt by (symmetry; apply Z.compare_lt_iff; lia)
            | replace (x ?= y) with Gt by (symmetry; apply Z.compare_gt_iff; lia)
            | replace (x ?= y) with Eq by (symmetry; apply Z.compare_eq_iff; lia) ]
  end.

(* ------------------------------------------------------------------ the escape scheme *)
Lemma esc_ok s : bytes_ok s = true -> bytes_ok (esc s) = true.
Proof.
  induction s as [|b t IH]; intros H; [reflexivity|].
  apply bytes_ok_cons in H. destruct H as [Hb Ht]. specialize (IH Ht).
  cbn [esc]. destruct (b =? 0); [|destruct (b =? 255)];
    repeat (apply bytes_ok_cons; split; [lia|]); exact IH.
Qed.

Lemma esc_nonempty s : exists b t, esc s = b :: t.
Proof. destruct s as [|b t]; cbn [esc]; [eauto|]. destruct (b =? 0); [|destruct (b =? 255)]; eauto. Qed.

(* order of escaped strings followed by anything = order of the strings, then of what follows *)
Lemma esc_order s1 : forall s2 r1 r2, bytes_ok s1 = true -> bytes_ok s2 = true ->
  lex_cmp (esc s1 ++ r1) (esc s2 ++ r2) = cthen (lex_cmp s1 s2) (lex_cmp r1 r2).
Proof.
  induction s1 as [|a s1 IH]; intros [|b s2] r1 r2 H1 H2.
  - reflexivity.
  - apply bytes_ok_cons in H2. destruct H2 as [Hb _].
    cbn [esc lex_cmp cthen app]. destruct (Z.eqb_spec b 0) as [->|Nb0]; [reflexivity|].
    destruct (Z.eqb_spec b 255) as [->|Nb255]; [reflexivity|].
    cbn [app lex_cmp]. replace (0 ?= b) with Lt by (symmetry; apply Z.compare_lt_iff; lia). reflexivity.
  - apply bytes_ok_cons in H1. destruct H1 as [Ha _].
    cbn [esc lex_cmp cthen app]. destruct (Z.eqb_spec a 0) as [->|Na0]; [reflexivity|].
    destruct (Z.eqb_spec a 255) as [->|Na255]; [reflexivity|].
    cbn [app lex_cmp]. replace (a ?= 0) with Gt by (symmetry; apply Z.compare_gt_iff; lia). reflexivity.
  - apply bytes_ok_cons in H1. destruct H1 as [Ha H1]. apply bytes_ok_cons in H2. destruct H2 as [Hb H2].
    specialize (IH s2 r1 r2 H1 H2).
    cbn [esc]. change (lex_cmp (a :: s1) (b :: s2)) with (cthen (a ?= b) (lex_cmp s1 s2)).
    rewrite cthen_assoc. rewrite <- IH. clear IH.
    destruct (Z.eqb_spec a 0) as [->|Na0]; [|destruct (Z.eqb_spec a 255) as [->|Na255]];
    (destruct (Z.eqb_spec b 0) as [->|Nb0]; [|destruct (Z.eqb_spec b 255) as [->|Nb255]]);
    cbn [app]; rewrite !lex_cmp_cons; try reflexivity; cmp_known; reflexivity.
Qed.

Lemma blen_esc_pos s : 2 <= blen (esc s).
Proof.
  induction s as [|b t IH]; [cbn; lia|].
  cbn [esc]. destruct (b =? 0); [|destruct (b =? 255)]; rewrite ?blen_cons; lia.
Qed.

(* decode_escaped_bytes inverts encode_escaped_bytes, whatever follows *)
Lemma unesc_esc s : forall r, bytes_ok s = true -> unesc (esc s ++ r) = Some (s, blen (esc s)).
Proof.
  induction s as [|b t IH]; intros r H.
  - reflexivity.
  - apply bytes_ok_cons in H. destruct H as [Hb Ht]. specialize (IH r Ht).
    cbn [esc]. destruct (Z.eqb_spec b 0) as [->|N0]; [|destruct (Z.eqb_spec b 255) as [->|N255]].
    + cbn [app unesc]. change (0 =? 0) with true. change (255 =? 0) with false. change (255 =? 255) with true.
      cbv iota. rewrite IH. rewrite !blen_cons. do 2 f_equal. lia.
    + cbn [app unesc]. change (255 =? 0) with false. change (255 =? 255) with true. change (0 =? 0) with true.
      cbv iota. rewrite IH. rewrite !blen_cons. do 2 f_equal. lia.
    + cbn [app unesc]. destruct (Z.eqb_spec b 0); [contradiction|]. destruct (Z.eqb_spec b 255); [contradiction|].
      rewrite IH. rewrite blen_cons. do 2 f_equal. lia.
Qed.
