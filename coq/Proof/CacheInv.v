(* C35 proofs, part 2: the structural invariant of the concurrent model, for every interleaving:
   all shards well-formed (index <-> entries, hand, capacity), entries live in the shard of their
   key, and what each thread knows while it holds a shard's write lock stays true. *)
From Coq Require Import ZArith List Bool Arith Lia.
From TV Require Import Lib.Interleave Gen.CacheConsts Model.Cache Proof.CacheShard.
Import ListNotations.
Open Scope Z_scope.

(* ------------------------------------------------------------------ small facts *)
Lemma shard_of_lt k : (shard_of k < NSH)%nat.
Proof.
  unfold shard_of, NSH. apply Z2Nat.inj_lt; [apply Z.mod_pos_bound; reflexivity | discriminate |].
  apply Z.mod_pos_bound. reflexivity.
Qed.

Lemma In_set_nth {A} (l : list A) j y x : In x (set_nth l j y) -> x = y \/ In x l.
Proof.
  revert j; induction l as [|a l IH]; intros j H; [destruct j; contradiction|].
  destruct j; cbn [set_nth] in H; destruct H as [H|H]; subst; cbn; auto.
  apply IH in H. tauto.
Qed.

Lemma lget_In {L} (l : list (nat * L)) t v : lget l t = Some v -> In (t, v) l.
Proof.
  induction l as [|[k w] r IH]; cbn [lget]; [discriminate|].
  destruct (Nat.eqb k t) eqn:E; intros H.
  - apply Nat.eqb_eq in E. inversion H; subst. left; reflexivity.
  - right; auto.
Qed.

Lemma In_lset {L} (l : list (nat * L)) t v x : In x (lset l t v) -> x = (t, v) \/ In x l.
Proof.
  induction l as [|[k w] r IH]; cbn [lset]; intros H.
  - destruct H as [H|[]]; auto.
  - destruct (Nat.eqb k t) eqn:E.
    + apply Nat.eqb_eq in E. subst k. destruct H as [H|H]; [left; auto | right; right; auto].
    + destruct H as [H|H]; [right; left; auto|]. apply IH in H. destruct H; [left|right; right]; auto.
Qed.

(* ------------------------------------------------------------------ what a thread knows under a write lock *)
Definition pc_gi (p : pcT) : option (gi * bool) :=
  match p with
  | PCan1 g | PCan2 g _ | PAl99 g | PAl0 g | PAl1 g _ | PAl2 g _ _ | PAl3 g _ | PFull g | PFailFull g | PInitFail g => Some (g, false)
  | PInit g => Some (g, true)
  | PRel0 _ (KCan g) | PRel1 _ _ (KCan g) | PRel0 _ (KFailFull g) | PRel1 _ _ (KFailFull g)
  | PRel0 _ (KInitFail g) | PRel1 _ _ (KInitFail g) => Some (g, false)
  | PRel0 _ (KInit g) | PRel1 _ _ (KInit g) => Some (g, true)
  | _ => None
  end.
Definition pc_ev (p : pcT) : option (nat * list nat) :=
  match p with
  | PEvRem i todo _ | PRel0 _ (KEvRem i todo _) | PRel1 _ _ (KEvRem i todo _) => Some (i, todo)
  | _ => None
  end.

Fixpoint desc (l : list nat) : Prop :=
  match l with [] => True | j :: r => (forall x, In x r -> (x < j)%nat) /\ desc r end.
Definition todo_ok (sh : shard) (todo : list nat) : Prop :=
  desc todo /\ forall j, In j todo -> exists e, nth_error (ents sh) j = Some e /\ is_pinned e = false.

Definition tinv (ss : list shard) (t : nat) (p : pcT) : Prop :=
  (forall g b, pc_gi p = Some (g, b) ->
     exists sh, nth_error ss (shard_of (gk g)) = Some sh /\ wl sh = Some t /\ idx_get (idx sh) (gk g) = None /\
                (b = true -> (length (ents sh) < cap sh)%nat)) /\
  (forall i todo, pc_ev p = Some (i, todo) ->
     exists sh, nth_error ss i = Some sh /\ wl sh = Some t /\ todo_ok sh todo).

Definition shards_ok' (ss : list shard) : Prop :=
  length ss = NSH /\
  forall i sh, nth_error ss i = Some sh -> shard_wf sh /\ forall e, In e (ents sh) -> shard_of (ekey e) = i.

Definition inv1' (ss : list shard) (ths : list (nat * thread)) : Prop :=
  shards_ok' ss /\ forall t th, lget ths t = Some th -> tinv ss t (pc th).
Definition inv1 (s : st) : Prop := inv1' (shs s) (thr s).

Lemma tinv_trivial ss t p : pc_gi p = None -> pc_ev p = None -> tinv ss t p.
Proof. intros A B. split; intros; congruence. Qed.

(* a step that leaves the shards alone *)
Lemma inv1_same ss ths t th' :
  inv1' ss ths -> tinv ss t (pc th') -> inv1' ss (lset ths t th').
Proof.
  intros (Hs & Ht) Hn. split; [assumption|]. intros u thu Hu.
  destruct (Nat.eq_dec t u) as [->|Hne].
  - rewrite lget_lset_same in Hu. inversion Hu; subst. assumption.
  - rewrite lget_lset_other in Hu by assumption. eauto.
Qed.

(* a step that replaces shard i, which nobody else has write-locked *)
Lemma inv1_shard ss ths t th' i sh sh' :
  inv1' ss ths -> nth_error ss i = Some sh -> (wl sh = None \/ wl sh = Some t) ->
  shard_wf sh' -> (forall e, In e (ents sh') -> shard_of (ekey e) = i) ->
  tinv (set_nth ss i sh') t (pc th') ->
  inv1' (set_nth ss i sh') (lset ths t th').
Proof.
  intros ((Hlen & Hs) & Ht) Hi Hw Hwf Hk Hn.
  assert (Hil : (i < length ss)%nat) by (apply nth_error_Some; congruence).
  split.
  - split; [rewrite set_nth_length; assumption|]. intros j shj Hj. rewrite nth_error_set_nth in Hj.
    destruct (Nat.eqb i j) eqn:E.
    + apply Nat.eqb_eq in E. subst j. apply Nat.ltb_lt in Hil. rewrite Hil in Hj. inversion Hj; subst. auto.
    + auto.
  - intros u thu Hu. destruct (Nat.eq_dec t u) as [->|Hne].
    + rewrite lget_lset_same in Hu. inversion Hu; subst. assumption.
    + rewrite lget_lset_other in Hu by assumption. destruct (Ht u thu Hu) as (A & B). split.
      * intros g b Hg. destruct (A g b Hg) as (x & Hx & Hxw & Hrest).
        exists x. split; [|auto]. rewrite nth_error_set_nth_other; [assumption|].
        intros ->. rewrite Hi in Hx. inversion Hx; subst x. destruct Hw as [Hw|Hw]; rewrite Hw in Hxw; congruence.
      * intros j todo Hg. destruct (B j todo Hg) as (x & Hx & Hxw & Hrest).
        exists x. split; [|auto]. rewrite nth_error_set_nth_other; [assumption|].
        intros ->. rewrite Hi in Hx. inversion Hx; subst x. destruct Hw as [Hw|Hw]; rewrite Hw in Hxw; congruence.
Qed.

Lemma nth_set_same ss i (sh sh' : shard) : nth_error ss i = Some sh -> nth_error (set_nth ss i sh') i = Some sh'.
Proof. intros H. apply nth_error_set_nth_same. apply nth_error_Some. congruence. Qed.

(* ------------------------------------------------------------------ per-operation shard lemmas *)
Lemma hit_entry_spec sh j sh' :
  shard_wf sh -> hit_entry sh j = Some sh' ->
  shard_wf sh' /\ wl sh' = wl sh /\ idx sh' = idx sh /\ cap sh' = cap sh /\ length (ents sh') = length (ents sh) /\
  (forall x, In x (ents sh') -> exists y, In y (ents sh) /\ ekey x = ekey y).
Proof.
  intros Hwf H. unfold hit_entry in H. destruct (nth_error (ents sh) j) as [e|] eqn:He; [|discriminate].
  inversion H; subst sh'; clear H. split; [eapply wf_set_entry; eauto|].
  unfold set_ents; cbn [wl idx cap ents]. rewrite set_nth_length. repeat split; auto.
  intros x Hx. apply In_set_nth in Hx. destruct Hx as [->|Hx]; [|eauto].
  exists e. split; [eapply nth_error_In; eauto | reflexivity].
Qed.

Lemma set_entry_keys sh j e e' x :
  nth_error (ents sh) j = Some e -> ekey e' = ekey e -> In x (set_nth (ents sh) j e') -> exists y, In y (ents sh) /\ ekey x = ekey y.
Proof.
  intros He Hk Hx. apply In_set_nth in Hx. destruct Hx as [->|Hx]; [|eauto].
  exists e. split; [eapply nth_error_In; eauto | assumption].
Qed.

(* to_remove: descending positions of unpinned entries *)
Lemma unpinned_from_spec es : forall i j, In j (unpinned_from i es) <-> exists e, (i <= j)%nat /\ nth_error es (j - i) = Some e /\ is_pinned e = false.
Proof.
  induction es as [|a es IH]; intros i j; cbn [unpinned_from].
  - split; [contradiction|]. intros (e & _ & H & _). destruct (j - i)%nat; discriminate.
  - destruct (is_pinned a) eqn:Ha.
    + rewrite IH. split.
      * intros (e & Hle & Hn & Hp). exists e. split; [lia|]. split; [|assumption].
        replace (j - i)%nat with (S (j - S i)) by lia. exact Hn.
      * intros (e & Hle & Hn & Hp). destruct (j - i)%nat as [|d] eqn:D.
        { cbn in Hn. inversion Hn; subst. congruence. }
        exists e. split; [lia|]. split; [|assumption]. replace (j - S i)%nat with d by lia. exact Hn.
    + cbn [In]. rewrite IH. split.
      * intros [<-|(e & Hle & Hn & Hp)].
        { exists a. split; [lia|]. rewrite Nat.sub_diag. auto. }
        { exists e. split; [lia|]. split; [|assumption]. replace (j - i)%nat with (S (j - S i)) by lia. exact Hn. }
      * intros (e & Hle & Hn & Hp). destruct (j - i)%nat as [|d] eqn:D.
        { left. lia. }
        right. exists e. split; [lia|]. split; [|assumption]. replace (j - S i)%nat with d by lia. exact Hn.
Qed.

Lemma unpinned_from_asc es : forall i, (forall j, In j (unpinned_from i es) -> (i <= j)%nat) /\
  forall l1 x l2, unpinned_from i es = l1 ++ x :: l2 -> forall y, In y l2 -> (x < y)%nat.
Proof.
  induction es as [|a es IH]; intros i; cbn [unpinned_from].
  - split; [contradiction|]. intros l1 x l2 H. destruct l1; discriminate.
  - destruct (IH (S i)) as (A & B). destruct (is_pinned a).
    + split; [intros j Hj; apply A in Hj; lia | exact B].
    + split.
      * intros j [<-|Hj]; [lia | apply A in Hj; lia].
      * intros l1 x l2 H y Hy. destruct l1 as [|z l1]; cbn in H; inversion H; subst.
        { apply A in Hy. lia. }
        { eapply B; eauto. }
Qed.

Lemma desc_rev_asc l : (forall l1 x l2, l = l1 ++ x :: l2 -> forall y, In y l2 -> (x < y)%nat) -> desc (rev l).
Proof.
  induction l as [|a l IH] using rev_ind; intros H; [exact I|].
  rewrite rev_app_distr. cbn [rev app desc]. split.
  - intros x Hx. apply in_rev in Hx. apply in_split in Hx. destruct Hx as (l1 & l2 & ->).
    apply (H l1 x (l2 ++ [a])); [rewrite <- app_assoc; reflexivity | apply in_or_app; right; left; reflexivity].
  - apply IH. intros l1 x l2 Hl y Hy. apply (H l1 x (l2 ++ [a])); [rewrite Hl, <- app_assoc; reflexivity | apply in_or_app; left; assumption].
Qed.

Lemma to_remove_ok sh : todo_ok sh (to_remove (ents sh)).
Proof.
  unfold todo_ok, to_remove. split.
  - apply desc_rev_asc. apply (unpinned_from_asc (ents sh) O).
  - intros j Hj. apply in_rev in Hj. apply unpinned_from_spec in Hj. destruct Hj as (e & _ & Hn & Hp).
    rewrite Nat.sub_0_r in Hn. eauto.
Qed.

(* removing the first (largest) position of a todo list keeps the rest valid *)
Lemma todo_ok_remove sh j rest sh' :
  shard_wf sh -> todo_ok sh (j :: rest) -> remove sh j = Some sh' -> todo_ok sh' rest.
Proof.
  intros Hwf ((Hlt & Hd) & Hall) Hr. split; [assumption|].
  intros x Hx. destruct (Hall x (or_intror Hx)) as (e & He & Hp). specialize (Hlt x Hx).
  unfold remove in Hr. destruct (swap_remove (ents sh) j) as [[e0 es]|] eqn:Hs; [|discriminate].
  inversion Hr; subst sh'; clear Hr. cbn [ents].
  destruct (swap_remove_spec _ _ _ _ Hs) as (He0 & Hlen & Hnth).
  assert (Hjl : (j < length (ents sh))%nat) by (apply nth_error_Some; congruence).
  exists e. split; [|assumption]. rewrite Hnth.
  assert (A : Nat.ltb x (length (ents sh) - 1) = true) by (apply Nat.ltb_lt; lia). rewrite A.
  assert (B : Nat.eqb x j = false) by (apply Nat.eqb_neq; lia). rewrite B. assumption.
Qed.

(* ------------------------------------------------------------------ case analysis of a step *)
Ltac brk H :=
  repeat (cbv beta iota in H;
          match type of H with
          | Some _ = Some _ => fail 1
          | None = Some _ => discriminate H
          | (match ?x with _ => _ end) = Some _ => let E := fresh "E" in destruct x eqn:E
          | (if ?x then _ else _) = Some _ => let E := fresh "E" in destruct x eqn:E
          end).

Lemma tinv_transfer ss t p p' :
  tinv ss t p ->
  (forall g b, pc_gi p' = Some (g, b) -> exists b0, pc_gi p = Some (g, b0) /\ (b = true -> b0 = true)) ->
  (forall i todo, pc_ev p' = Some (i, todo) -> pc_ev p = Some (i, todo)) ->
  tinv ss t p'.
Proof.
  intros (A & B) H1 H2. split.
  - intros g b Hg. destruct (H1 g b Hg) as (b0 & Hb0 & Himp). destruct (A g b0 Hb0) as (sh & X & Y & Z & W).
    exists sh. repeat split; auto.
  - intros i todo Hg. apply B. auto.
Qed.

Lemma tinv_gi ss t p g b sh :
  tinv ss t p -> pc_gi p = Some (g, b) -> nth_error ss (shard_of (gk g)) = Some sh ->
  wl sh = Some t /\ idx_get (idx sh) (gk g) = None /\ (b = true -> (length (ents sh) < cap sh)%nat).
Proof. intros (A & _) Hg Hn. destruct (A g b Hg) as (x & Hx & R). rewrite Hn in Hx. inversion Hx; subst. exact R. Qed.

Lemma tinv_ev ss t p i todo sh :
  tinv ss t p -> pc_ev p = Some (i, todo) -> nth_error ss i = Some sh -> wl sh = Some t /\ todo_ok sh todo.
Proof. intros (_ & B) Hg Hn. destruct (B i todo Hg) as (x & Hx & R). rewrite Hn in Hx. inversion Hx; subst. exact R. Qed.

Lemma tinv_mk_gi ss t p g b sh :
  pc_gi p = Some (g, b) -> pc_ev p = None -> nth_error ss (shard_of (gk g)) = Some sh -> wl sh = Some t ->
  idx_get (idx sh) (gk g) = None -> (b = true -> (length (ents sh) < cap sh)%nat) -> tinv ss t p.
Proof.
  intros Hg He Hn Hw Hi Hb. split.
  - intros g' b' Hg'. rewrite Hg in Hg'. inversion Hg'; subst. exists sh. auto.
  - intros i todo Hq. congruence.
Qed.

Lemma tinv_mk_ev ss t p i todo sh :
  pc_gi p = None -> pc_ev p = Some (i, todo) -> nth_error ss i = Some sh -> wl sh = Some t -> todo_ok sh todo -> tinv ss t p.
Proof.
  intros Hg He Hn Hw Ht. split.
  - intros g' b' Hg'. congruence.
  - intros i' todo' Hq. rewrite He in Hq. inversion Hq; subst. exists sh. auto.
Qed.

Lemma probe_hit sh k sh' : probe_shard sh k = PrHit sh' -> wl sh = None /\ exists j, idx_get (idx sh) k = Some j /\ hit_entry sh j = Some sh'.
Proof.
  unfold probe_shard. destruct (wl sh); [discriminate|]. destruct (idx_get (idx sh) k) as [j|]; [|discriminate].
  destruct (hit_entry sh j) eqn:E; [|discriminate]. intros H; inversion H; subst. eauto.
Qed.
Lemma probe_miss sh k : probe_shard sh k = PrMiss -> wl sh = None /\ idx_get (idx sh) k = None.
Proof.
  unfold probe_shard. destruct (wl sh); [discriminate|]. destruct (idx_get (idx sh) k) as [j|]; [|auto].
  destruct (hit_entry sh j); discriminate.
Qed.
Lemma probe_panic sh k : shard_wf sh -> probe_shard sh k <> PrPanic.
Proof.
  intros Hwf. unfold probe_shard. destruct (wl sh); [discriminate|]. destruct (idx_get (idx sh) k) as [j|] eqn:E; [|discriminate].
  apply (proj1 Hwf) in E. destruct E as (e & He & _). unfold hit_entry. rewrite He. discriminate.
Qed.

Ltac simp_st := unfold inv1; cbn [shs thr upd upd_th upd_sh set_glast set_alock].
Ltac pc_triv := apply tinv_trivial; reflexivity.
Ltac pc_xfer Ht :=
  solve [ eapply tinv_transfer; [exact Ht | |];
          [ cbn [pc_gi pc set_pc finish finish_hold]; intros ? ? Q;
            first [discriminate Q | inversion Q; subst; eexists; split; [reflexivity | auto; try discriminate]]
          | cbn [pc_ev pc set_pc finish finish_hold]; intros ? ? Q; try discriminate Q; try exact Q ] ].

Lemma evict_idx sh r sh' : evict sh = (r, sh') -> idx sh' = idx sh.
Proof.
  unfold evict. destruct (ents sh); [intros H; inversion H; reflexivity|].
  destruct (evict_loop _ _ _ _ _) as [[? ?] ?]. intros H; inversion H. reflexivity.
Qed.

Lemma strip_key x y : strip y = strip x -> ekey x = ekey y.
Proof. unfold strip. intros H. inversion H. reflexivity. Qed.

(* the facts about evict_remove that the invariants use *)
Lemma evict_removed_facts sh sh' :
  shard_wf sh -> evict_remove sh = ERemoved sh' ->
  shard_wf sh' /\ wl sh' = wl sh /\ cap sh' = cap sh /\ S (length (ents sh')) = length (ents sh) /\
  (forall x, In x (ents sh') -> exists y, In y (ents sh) /\ ekey x = ekey y) /\
  (forall k, idx_get (idx sh) k = None -> idx_get (idx sh') k = None).
Proof.
  intros Hwf He. generalize (evict_remove_spec sh Hwf). rewrite He.
  intros (Hwf' & Hlen & Hpos & Hc & Hw & v & Hv & Hvp & Hvn & Hoth & Hsub & Hsup).
  split; [assumption|]. split; [assumption|]. split; [assumption|]. split; [lia|]. split.
  - intros x Hx. destruct (Hsub x Hx) as (_ & y & Hy & Hs). exists y. split; [assumption|]. apply strip_key. assumption.
  - intros k Hk. destruct (Z.eq_dec k (ekey v)) as [->|Hne]; [assumption|].
    destruct (idx_get (idx sh') k) eqn:Q; [|reflexivity].
    assert (A : idx_get (idx sh') k <> None) by congruence. apply (Hoth k Hne) in A. contradiction.
Qed.

Lemma evict_nothing_facts sh sh' :
  shard_wf sh -> evict_remove sh = ENothing sh' ->
  shard_wf sh' /\ wl sh' = wl sh /\ cap sh' = cap sh /\ length (ents sh') = length (ents sh) /\
  (forall x, In x (ents sh') -> exists y, In y (ents sh) /\ ekey x = ekey y) /\ idx sh' = idx sh.
Proof.
  intros Hwf He. generalize (evict_remove_spec sh Hwf). rewrite He. intros (Hwf' & Hm & Hc & Hw).
  split; [assumption|]. split; [assumption|]. split; [assumption|]. split; [apply strip_length; assumption|]. split.
  - intros x Hx. apply In_nth_error in Hx. destruct Hx as (j & Hj). destruct (strip_nth _ _ _ _ Hm Hj) as (y & Hy & Hk & _).
    exists y. split; [eapply nth_error_In; eauto | congruence].
  - unfold evict_remove in He. destruct (evict sh) as [r sh1] eqn:Hev. assert (Q := evict_idx _ _ _ Hev).
    destruct r; try discriminate.
    + destruct (idx_get (idx sh1) k); [destruct (remove sh1 n)|]; discriminate.
    + inversion He; subst. assumption.
Qed.

Lemma evict_remove_never sh sh' : shard_wf sh -> evict_remove sh <> ENotIndexed sh' /\ evict_remove sh <> EPanicked sh'.
Proof. intros Hwf. generalize (evict_remove_spec sh Hwf). destruct (evict_remove sh); intros H; split; try discriminate; contradiction. Qed.

Lemma inv1_step t s s' : inv1 s -> step t s = Some s' -> inv1 s'.
Proof.
  intros Hinv H. unfold step in H.
  destruct (lget (thr s) t) as [th|] eqn:Hth; [|discriminate].
  assert (Ht := proj2 Hinv t th Hth).
  assert (Hso := proj1 Hinv).
  destruct (pc th) eqn:Hpc.
  all: try (unfold start_op in H).
  all: brk H.
  all: try (inversion H; subst s'; clear H).
  (* shards untouched *)
  all: try (simp_st; apply inv1_same; [exact Hinv|]; cbn [pc set_pc finish finish_hold]; first [pc_triv | pc_xfer Ht]).
  (* facts about the shard being touched *)
  all: try match goal with
       | Hn : nth_error (shs _) ?i = Some ?sh |- _ =>
           let Hwf := fresh "Hwf" in let Hkeys := fresh "Hkeys" in
           destruct (proj2 Hso i sh Hn) as (Hwf & Hkeys)
       end.
  all: try match goal with
       | Hp : probe_shard _ _ = PrPanic |- _ => exfalso; eapply probe_panic; eauto
       end.
  all: try match goal with
       | Hp : probe_shard ?sh ?k = PrHit ?sh' |- _ =>
           let j := fresh "j" in let Hw := fresh "Hw" in let Hj := fresh "Hj" in let Hh := fresh "Hh" in
           destruct (probe_hit _ _ _ Hp) as (Hw & j & Hj & Hh);
           destruct (hit_entry_spec _ _ _ Hwf Hh) as (Hwf' & Hw' & Hi' & Hc' & Hl' & Hk');
           simp_st; eapply inv1_shard; [exact Hinv | eassumption | left; assumption | exact Hwf'
             | intros x Hx; destruct (Hk' x Hx) as (y & Hy & ->); auto | cbn [pc finish_hold]; pc_triv]
       end.
  all: try match goal with |- inv1 (match ents ?x with _ => _ end) => destruct (ents x) eqn:? end.
  all: simp_st.
  (* one entry changed in place *)
  all: try (eapply inv1_shard;
            [exact Hinv | eassumption | left; assumption
            | eapply wf_set_entry; [exact Hwf | eassumption | reflexivity]
            | intros x Hx; edestruct set_entry_keys as (y & Hy & Hyk); [eassumption | | exact Hx |]; [reflexivity | rewrite Hyk; auto]
            | cbn [pc finish]; pc_triv]).
  (* the write-locked probe hits *)
  all: try match goal with
       | Hh : hit_entry _ _ = Some _ |- _ =>
           destruct (hit_entry_spec _ _ _ Hwf Hh) as (Hwf' & Hw' & Hi' & Hc' & Hl' & Hk');
           eapply inv1_shard; [exact Hinv | eassumption | left; assumption | exact Hwf'
             | intros x Hx; destruct (Hk' x Hx) as (y & Hy & ->); auto | cbn [pc finish_hold]; pc_triv]
       end.
  (* what the thread knows about the shard it has locked *)
  all: try match goal with
       | Ht : tinv _ _ ?P, E : nth_error (shs _) (shard_of (gk ?g)) = Some ?sh |- _ =>
           let Hlk := fresh "Hlk" in let Habs := fresh "Habs" in let Hroom := fresh "Hroom" in
           destruct (tinv_gi _ _ P g _ sh Ht eq_refl E) as (Hlk & Habs & Hroom)
       end.
  all: try match goal with
       | Ht : tinv _ _ ?P, E : nth_error (shs _) ?i = Some ?sh |- _ =>
           let Hlk := fresh "Hlk" in let Htodo := fresh "Htodo" in
           destruct (tinv_ev _ _ P i _ sh Ht eq_refl E) as (Hlk & Htodo)
       end.
  all: try match goal with
       | Er : evict_remove ?x = ENotIndexed _ |- _ => exfalso; exact (proj1 (evict_remove_never x _ Hwf) Er)
       | Er : evict_remove ?x = EPanicked _ |- _ => exfalso; exact (proj2 (evict_remove_never x _ Hwf) Er)
       | Er : evict_remove ?x = ERemoved _ |- _ =>
           destruct (evict_removed_facts _ _ Hwf Er) as (Hwf' & Hw' & Hc' & Hl' & Hk' & Hi')
       | Er : evict_remove ?x = ENothing _ |- _ =>
           destruct (evict_nothing_facts _ _ Hwf Er) as (Hwf' & Hw' & Hc' & Hl' & Hk' & Hi')
       end.
  (* unlock and return *)
  all: try (eapply inv1_shard;
            [exact Hinv | eassumption | right; assumption
            | first [exact Hwf | exact Hwf']
            | first [exact Hkeys | intros x Hx; destruct (Hk' x Hx) as (y & Hy & ->); auto]
            | cbn [pc finish set_pc]; pc_triv]).
  (* release loop: the continuation decides *)
  all: try match goal with
       | c : cont |- _ =>
           destruct c; cbn [resume set_pc finish pc]; (apply inv1_same; [exact Hinv|]); cbn [pc set_pc finish]; first [pc_triv | pc_xfer Ht]
       end.
  (* taking the write lock *)
  all: try match goal with
       | |- inv1' (set_nth _ _ (set_wl ?x (Some _))) (lset _ _ (set_pc _ (PCan1 _))) =>
           eapply inv1_shard; [exact Hinv | eassumption | left; assumption | exact Hwf | exact Hkeys |];
           eapply tinv_mk_gi with (sh := set_wl x (Some t));
           [reflexivity | reflexivity | eapply nth_set_same; eassumption | reflexivity | assumption | discriminate]
       | |- inv1' (set_nth _ _ (set_wl ?x (Some _))) (lset _ _ (set_pc _ (PEvRem _ _ _))) =>
           eapply inv1_shard; [exact Hinv | eassumption | left; assumption | exact Hwf | exact Hkeys |];
           eapply tinv_mk_ev with (sh := set_wl x (Some t));
           [reflexivity | reflexivity | eapply nth_set_same; eassumption | reflexivity | apply (to_remove_ok x)]
       end.
  (* after evict + remove inside get_or_insert *)
  all: try match goal with
       | Hk' : forall x, In x (ents ?sh) -> exists y, _ |- inv1' (set_nth _ _ ?sh) _ =>
           eapply inv1_shard; [exact Hinv | eassumption | right; assumption | exact Hwf'
             | intros x Hx; destruct (Hk' x Hx) as (y & Hy & ->); auto |];
           eapply tinv_mk_gi with (sh := sh);
           [reflexivity | reflexivity | eapply nth_set_same; eassumption | congruence
           | first [apply Hi'; assumption | rewrite Hi'; assumption]
           | first [discriminate | intros _; destruct Hwf as (_ & _ & Hcap); unfold cap_ok in Hcap; lia]]
       end.
  (* not full: straight to init *)
  all: try match goal with
       | Hf : is_full ?x = false |- _ =>
           apply inv1_same; [exact Hinv|]; eapply tinv_mk_gi with (sh := x);
           [reflexivity | reflexivity | eassumption | assumption | assumption
           | intros _; unfold is_full in Hf; apply Nat.leb_gt in Hf; exact Hf]
       end.
  (* insert *)
  all: try match goal with
       | |- inv1' (set_nth _ _ (set_wl (insert _ _) None)) _ =>
           eapply inv1_shard; [exact Hinv | eassumption | right; assumption
             | apply wf_set_wl; apply wf_insert; [exact Hwf | exact Habs | apply Hroom; reflexivity]
             | intros x Hx; cbn [set_wl insert ents] in Hx; apply in_app_or in Hx; destruct Hx as [Hx | [<- | []]]; [auto | reflexivity]
             | cbn [pc finish_hold]; pc_triv]
       end.
  (* clear one shard *)
  all: try match goal with
       | |- inv1' (set_nth _ _ (clear_shard _)) _ =>
           eapply inv1_shard; [exact Hinv | eassumption | left; assumption | apply wf_clear | intros x [] | cbn [pc set_pc]; pc_triv]
       end.
  (* evict_all_unpinned removes the next position *)
  destruct (remove_wf _ _ _ Hwf E1) as (Hwf1 & Hl1 & Hc1 & Hw1 & _).
  destruct (proj2 Htodo n (or_introl eq_refl)) as (e & He & Hep).
  eapply inv1_shard; [exact Hinv | eassumption | right; assumption | exact Hwf1
    | intros x Hx; apply (remove_entries _ _ _ _ (proj1 Hwf) E1 He) in Hx; apply Hkeys; tauto |].
  eapply tinv_mk_ev with (sh := s1);
    [reflexivity | reflexivity | eapply nth_set_same; eassumption | congruence | eapply (todo_ok_remove s0 n l s1); eassumption].
Qed.

(* the initial state *)
Lemma init_shards_length total : length (init_shards total) = NSH.
Proof. unfold init_shards. rewrite map_length. apply seq_length. Qed.

Lemma inv1_init total limit c0 o progs : (NSH <= total)%nat -> inv1 (init_st total limit c0 o progs).
Proof.
  intros Htot. unfold inv1, init_st; cbn [shs thr]. split.
  - split; [apply init_shards_length|]. intros i sh Hi. unfold init_shards in Hi.
    rewrite nth_error_map in Hi. destruct (nth_error (seq 0 NSH) i) as [j|] eqn:Hj; [|discriminate].
    cbn in Hi. inversion Hi; subst sh; clear Hi. split.
    + split; [|split].
      * intros k x. cbn. split; [discriminate|]. intros (e & H & _). destruct x; discriminate.
      * unfold hand_ok; cbn. lia.
      * unfold cap_ok; cbn. lia.
    + intros e [].
  - intros t th Ht. apply tinv_trivial.
    + clear -Ht. induction progs as [|[u p] r IH]; cbn [map lget fst snd] in Ht; [discriminate|].
      destruct (Nat.eqb u t); [inversion Ht; reflexivity | auto].
    + clear -Ht. induction progs as [|[u p] r IH]; cbn [map lget fst snd] in Ht; [discriminate|].
      destruct (Nat.eqb u t); [inversion Ht; reflexivity | auto].
Qed.

Theorem inv1_run total limit c0 o progs sched :
  (NSH <= total)%nat -> inv1 (run step sched (init_st total limit c0 o progs)).
Proof.
  intros Htot. apply invariant_rule; [apply inv1_init; assumption|].
  intros t s s' Hs Hst. eapply inv1_step; eauto.
Qed.

(* ------------------------------------------------------------------ capacities never change *)
Lemma map_cap_set_nth ss i sh sh' : nth_error ss i = Some sh -> cap sh' = cap sh -> map cap (set_nth ss i sh') = map cap ss.
Proof.
  revert i; induction ss as [|a l IH]; intros [|i] H Hc; cbn [nth_error set_nth map] in *; try discriminate.
  - inversion H; subst. rewrite Hc. reflexivity.
  - f_equal. eapply IH; eauto.
Qed.

Lemma caps_step t s s' : inv1 s -> step t s = Some s' -> map cap (shs s') = map cap (shs s).
Proof.
  intros Hinv H. unfold step in H.
  destruct (lget (thr s) t) as [th|] eqn:Hth; [|discriminate].
  assert (Hso := proj1 Hinv).
  destruct (pc th) eqn:Hpc.
  all: try (unfold start_op in H).
  all: brk H.
  all: try (inversion H; subst s'; clear H).
  all: try match goal with |- context [match ents ?x with _ => _ end] => destruct (ents x) eqn:? end.
  all: cbn [shs upd upd_th upd_sh set_glast set_alock]; try reflexivity.
  all: try match goal with
       | Hn : nth_error (shs _) ?i = Some ?sh |- _ =>
           let Hwf := fresh "Hwf" in let Hkeys := fresh "Hkeys" in
           destruct (proj2 Hso i sh Hn) as (Hwf & Hkeys)
       end.
  all: try match goal with
       | Er : evict_remove ?x = ENotIndexed _ |- _ => exfalso; exact (proj1 (evict_remove_never x _ Hwf) Er)
       | Er : evict_remove ?x = EPanicked _ |- _ => exfalso; exact (proj2 (evict_remove_never x _ Hwf) Er)
       | Er : evict_remove ?x = ERemoved _ |- _ =>
           destruct (evict_removed_facts _ _ Hwf Er) as (Hwf' & Hw' & Hc' & Hlen' & Hk' & Hi')
       | Er : evict_remove ?x = ENothing _ |- _ =>
           destruct (evict_nothing_facts _ _ Hwf Er) as (Hwf' & Hw' & Hc' & Hlen' & Hk' & Hi')
       | Hp : probe_shard ?sh ?k = PrHit ?sh' |- _ =>
           let j := fresh "j" in let Hw := fresh "Hw" in let Hj := fresh "Hj" in let Hh := fresh "Hh" in
           destruct (probe_hit _ _ _ Hp) as (Hw & j & Hj & Hh);
           destruct (hit_entry_spec _ _ _ Hwf Hh) as (Hwf' & Hw' & Hi' & Hc' & Hlen' & Hk')
       | Hh : hit_entry _ _ = Some _ |- _ =>
           destruct (hit_entry_spec _ _ _ Hwf Hh) as (Hwf' & Hw' & Hi' & Hc' & Hlen' & Hk')
       | Hr : remove ?x ?n = Some ?y |- _ =>
           destruct (remove_wf _ _ _ Hwf Hr) as (_ & _ & Hc' & _)
       end.
  all: eapply map_cap_set_nth; [eassumption | first [reflexivity | exact Hc']].
Qed.

Lemma init_caps total : map cap (init_shards total) =
  map (fun i => (Nat.div total NSH + (if Nat.ltb i (Nat.modulo total NSH) then 1 else 0))%nat) (seq O NSH).
Proof. unfold init_shards. rewrite map_map. reflexivity. Qed.

Theorem caps_run total limit c0 o progs sched :
  (NSH <= total)%nat ->
  map cap (shs (run step sched (init_st total limit c0 o progs))) = map cap (init_shards total).
Proof.
  intros Htot.
  assert (H : (fun s => inv1 s /\ map cap (shs s) = map cap (init_shards total)) (run step sched (init_st total limit c0 o progs))).
  { apply invariant_rule.
    - split; [apply inv1_init; assumption | reflexivity].
    - intros t s s' (A & B) Hst. split; [eapply inv1_step; eauto|]. rewrite (caps_step _ _ _ A Hst). exact B. }
  apply H.
Qed.

(* capacity, as a number: shard i never holds more than its configured share of the total *)
Corollary capacity_run total limit c0 o progs sched i sh :
  (NSH <= total)%nat ->
  nth_error (shs (run step sched (init_st total limit c0 o progs))) i = Some sh ->
  (length (ents sh) <= Nat.div total NSH + (if Nat.ltb i (Nat.modulo total NSH) then 1 else 0))%nat.
Proof.
  intros Htot Hn.
  destruct (proj2 (proj1 (inv1_run total limit c0 o progs sched Htot)) i sh Hn) as ((_ & _ & Hcap) & _).
  assert (Hc := caps_run total limit c0 o progs sched Htot). rewrite init_caps in Hc.
  assert (Q : nth_error (map cap (shs (run step sched (init_st total limit c0 o progs)))) i = Some (cap sh)) by (apply map_nth_error; exact Hn).
  rewrite Hc in Q. rewrite nth_error_map in Q.
  destruct (nth_error (seq 0 NSH) i) as [j|] eqn:Hj; [|discriminate]. cbn [option_map] in Q.
  assert (Q' := f_equal (fun o => match o with Some x => x | None => O end) Q). cbv beta iota in Q'.
  assert (j = i). { assert (Hlt : (i < length (seq 0 NSH))%nat) by (apply nth_error_Some; congruence).
    rewrite seq_length in Hlt. rewrite (nth_error_nth' _ O) in Hj by (rewrite seq_length; exact Hlt). rewrite seq_nth in Hj by exact Hlt. inversion Hj. lia. }
  subst j. unfold cap_ok in Hcap. rewrite Q'. exact Hcap.
Qed.
