(* C27 proofs about the regenerated varint codec (Gen/Varint.v). *)
From Coq Require Import ZArith List Bool Lia ZifyBool.
From TV Require Import Lib.MachInt Lib.MachIntFacts Gen.Varint Model.Varint.
Import ListNotations.
Open Scope Z_scope.

Ltac Zify.zify_post_hook ::= Z.to_euclidean_division_equations.

Arguments Z.div : simpl never.
Arguments Z.modulo : simpl never.
Arguments Z.mul : simpl never.
Arguments Z.add : simpl never.
Arguments Z.sub : simpl never.
Arguments Z.pow : simpl never.
Arguments Z.leb : simpl never.
Arguments Z.geb : simpl never.
Arguments Z.eqb : simpl never.
Arguments wrap_u : simpl never.
Arguments in_u : simpl never.
Arguments be_bytes : simpl never.

Ltac list_norm :=
  cbv [enc dec enc_n bupd upd_nat repeat firstn Z.to_nat Pos.to_nat Pos.iter_op Nat.add snd fst
       bupd_slice bupd_slice_nat be_bytes bidx nth app Z.of_nat Pos.of_succ_nat Pos.succ
       bslice skipn from_be length Z.sub Z.opp Z.pos_sub Z.add Pos.pred_double Pos.add Pos.succ Z.succ_double Z.pred_double Z.double].

Ltac resolve_ifs :=
  repeat match goal with
         | |- context [if ?c then _ else _] =>
             first [ replace c with true by lia | replace c with false by lia ]
         end.


Ltac consts :=
  change (2 ^ 8) with 256 in *; change (2 ^ 64) with 18446744073709551616 in *;
  change (256 ^ 7) with 72057594037927936 in *; change (256 ^ 6) with 281474976710656 in *;
  change (256 ^ 5) with 1099511627776 in *; change (256 ^ 4) with 4294967296 in *;
  change (256 ^ 3) with 16777216 in *; change (256 ^ 2) with 65536 in *;
  change (256 ^ 1) with 256 in *; change (256 ^ 0) with 1 in *.

Ltac enc_norm :=
  cbv [bupd upd_nat repeat firstn Z.to_nat Pos.to_nat Pos.iter_op Nat.add app
       bupd_slice bupd_slice_nat be_bytes Z.of_nat Pos.of_succ_nat Pos.succ].

Ltac dec_norm :=
  unfold decode_varint; rewrite !blen_cons;
  unfold bslice; change (9 - 1) with 8;
  cbv [bidx nth Z.to_nat Pos.to_nat Pos.iter_op Nat.add bslice skipn firstn from_be length
       Z.of_nat Pos.of_succ_nat Pos.succ];
  unfold wrap_u; consts.

Theorem varint_decode_prefix_l :
  forall v rest, 0 <= v < 2 ^ 64 -> decode_varint (enc v ++ rest) = Some (v, varint_len v).
Proof.
  intros v rest Hv. pose proof (blen_nonneg rest) as Hr. consts.
  unfold enc, encode_varint, varint_len.
  destruct (Z.leb_spec v 240) as [H1|H1];
  [|destruct (Z.leb_spec v 2287) as [H2|H2];
  [|destruct (Z.leb_spec v 67823) as [H3|H3];
  [|destruct (Z.leb_spec v 16777215) as [H4|H4];
  [|destruct (Z.leb_spec v 4294967295) as [H5|H5]]]]];
  enc_norm; dec_norm.
  all: resolve_ifs.
  all: f_equal; f_equal.
  all: lia.
Qed.

Lemma varint_roundtrip_l : forall v, 0 <= v < 2 ^ 64 -> dec (enc v) = Some (v, varint_len v).
Proof. intros v Hv. unfold dec. rewrite <- (app_nil_r (enc v)). apply varint_decode_prefix_l. exact Hv. Qed.

Lemma varint_len_matches_l :
  forall v, 0 <= v < 2 ^ 64 -> blen (enc v) = varint_len v /\ enc_n v = varint_len v.
Proof.
  intros v Hv. unfold enc, enc_n, encode_varint, varint_len.
  destruct (Z.leb_spec v 240) as [H1|H1];
  [|destruct (Z.leb_spec v 2287) as [H2|H2];
  [|destruct (Z.leb_spec v 67823) as [H3|H3];
  [|destruct (Z.leb_spec v 16777215) as [H4|H4];
  [|destruct (Z.leb_spec v 4294967295) as [H5|H5]]]]];
  enc_norm; split; reflexivity.
Qed.

Lemma varint_len_range_l : forall v, 1 <= varint_len v <= 9.
Proof. intros v. unfold varint_len. repeat (destruct (_ <=? _)); lia. Qed.

(* encode never panics when the buffer is as long as varint_len says *)
Lemma varint_encode_no_panic_l :
  forall v buf, 0 <= v < 2 ^ 64 -> varint_len v <= blen buf -> encode_varint_safe v buf = true.
Proof.
  intros v buf Hv Hl. consts. revert Hl. unfold encode_varint_safe, varint_len.
  destruct (Z.leb_spec v 240) as [H1|H1];
  [|destruct (Z.leb_spec v 2287) as [H2|H2];
  [|destruct (Z.leb_spec v 67823) as [H3|H3];
  [|destruct (Z.leb_spec v 16777215) as [H4|H4];
  [|destruct (Z.leb_spec v 4294967295) as [H5|H5]]]]];
  intros Hl; cbv zeta beta iota;
  rewrite ?bidx_ok_bupd; unfold bidx_ok, bslice_ok, in_u; rewrite ?blen_bupd;
  change (blen (be_bytes 8 v)) with 8; consts; lia.
Qed.

(* decoding arbitrary bytes never panics (no out-of-bounds read, no overflow) *)
Lemma varint_decode_no_panic_l :
  forall buf, bytes_ok buf = true -> decode_varint_safe buf = true.
Proof.
  intros buf Hb. unfold decode_varint_safe.
  pose proof (blen_nonneg buf) as Hn.
  assert (Hbyte : forall i, 0 <= i < blen buf -> 0 <= bidx buf i < 256)
    by (intros i Hi; apply bytes_ok_bidx; assumption).
  destruct (Z.eqb_spec (blen buf) 0) as [E0|E0]; cbn [negb]; [reflexivity|].
  cbv zeta.
  assert (H0 := Hbyte 0). assert (H1 := Hbyte 1). assert (H2 := Hbyte 2).
  assert (H3 := Hbyte 3). assert (H4 := Hbyte 4).
  assert (Hs : 9 <= blen buf -> blen (bslice buf 1 9) = 8)
    by (intros H9; rewrite blen_bslice; [lia | unfold bslice_ok; lia]).
  unfold bidx_ok, bslice_ok, in_u, wrap_u. consts.
  set (n := blen buf) in *. set (b0 := bidx buf 0) in *. set (b1 := bidx buf 1) in *.
  set (b2 := bidx buf 2) in *. set (b3 := bidx buf 3) in *. set (b4 := bidx buf 4) in *.
  set (s := blen (bslice buf 1 9)) in *.
  clearbody n b0 b1 b2 b3 b4 s. clear Hbyte Hb.
  destruct (b0 <=? 240) eqn:C0; [lia|].
  destruct (b0 <=? 248) eqn:C1; [destruct (n >=? 2) eqn:L; lia|].
  destruct (b0 =? 249) eqn:C2; [destruct (n >=? 3) eqn:L; lia|].
  destruct (b0 =? 250) eqn:C3; [destruct (n >=? 4) eqn:L; lia|].
  destruct (b0 =? 251) eqn:C4; [destruct (n >=? 5) eqn:L; lia|].
  destruct (b0 =? 255) eqn:C5; [destruct (n >=? 9) eqn:L; lia|].
  lia.
Qed.

Lemma from_be_bound : forall bs, bytes_ok bs = true -> 0 <= from_be bs < 256 ^ blen bs.
Proof.
  induction bs as [|b t IH]; intros Hb.
  - cbn. lia.
  - apply bytes_ok_cons in Hb. destruct Hb as [Hb Ht]. specialize (IH Ht).
    cbn [from_be]. rewrite blen_cons. fold (blen t).
    rewrite Z.pow_add_r by (pose proof (blen_nonneg t); lia).
    change (256 ^ 1) with 256. nia.
Qed.

Lemma In_firstn {A} n (l : list A) x : In x (firstn n l) -> In x l.
Proof.
  revert l. induction n as [|n IH]; intros [|h t]; cbn [firstn In]; try tauto.
  intros [->|H]; [left; reflexivity | right; apply IH; exact H].
Qed.
Lemma In_skipn {A} n (l : list A) x : In x (skipn n l) -> In x l.
Proof.
  revert l. induction n as [|n IH]; intros [|h t]; cbn [skipn In]; try tauto.
  intros H. right. apply IH. exact H.
Qed.

Lemma bytes_ok_bslice b lo hi : bytes_ok b = true -> bytes_ok (bslice b lo hi) = true.
Proof.
  unfold bytes_ok, bslice. rewrite !forallb_forall. intros H x Hx.
  apply H. apply In_firstn in Hx. apply In_skipn in Hx. exact Hx.
Qed.

(* decoding never consumes more than the input holds, and yields a u64 *)
Lemma varint_decode_bounds_l :
  forall buf v n, bytes_ok buf = true -> decode_varint buf = Some (v, n) ->
    1 <= n <= blen buf /\ 0 <= v < 2 ^ 64.
Proof.
  intros buf v n Hb. unfold decode_varint.
  assert (Hbyte : forall i, 0 <= i < blen buf -> 0 <= bidx buf i < 256)
    by (intros i Hi; apply bytes_ok_bidx; assumption).
  pose proof (blen_nonneg buf) as Hn.
  destruct (Z.eqb_spec (blen buf) 0) as [E0|E0]; cbn [negb]; [discriminate|].
  cbv zeta.
  assert (H0 := Hbyte 0). assert (H1 := Hbyte 1). assert (H2 := Hbyte 2).
  assert (H3 := Hbyte 3). assert (H4 := Hbyte 4).
  assert (Hs : 9 <= blen buf -> 0 <= from_be (bslice buf 1 9) < 2 ^ 64).
  { intros H9. pose proof (from_be_bound (bslice buf 1 9) (bytes_ok_bslice _ _ _ Hb)) as Hf.
    rewrite blen_bslice in Hf by (unfold bslice_ok; lia). exact Hf. }
  unfold wrap_u. consts.
  set (m := blen buf) in *. set (b0 := bidx buf 0) in *. set (b1 := bidx buf 1) in *.
  set (b2 := bidx buf 2) in *. set (b3 := bidx buf 3) in *. set (b4 := bidx buf 4) in *.
  set (s := from_be (bslice buf 1 9)) in *.
  clearbody m b0 b1 b2 b3 b4 s. clear Hbyte Hb.
  destruct (b0 <=? 240) eqn:C0; [intros E; inversion E; subst; lia|].
  destruct (b0 <=? 248) eqn:C1; [destruct (m >=? 2) eqn:L; intros E; inversion E; subst; lia|].
  destruct (b0 =? 249) eqn:C2; [destruct (m >=? 3) eqn:L; intros E; inversion E; subst; lia|].
  destruct (b0 =? 250) eqn:C3; [destruct (m >=? 4) eqn:L; intros E; inversion E; subst; lia|].
  destruct (b0 =? 251) eqn:C4; [destruct (m >=? 5) eqn:L; intros E; inversion E; subst; lia|].
  destruct (b0 =? 255) eqn:C5; [destruct (m >=? 9) eqn:L; intros E; inversion E; subst; lia|].
  discriminate.
Qed.

(* --- unambiguous framing: corollaries of the prefix theorem ------------------------------- *)
Lemma varint_enc_injective_l :
  forall a b, 0 <= a < 2 ^ 64 -> 0 <= b < 2 ^ 64 -> enc a = enc b -> a = b.
Proof.
  intros a b Ha Hb E.
  pose proof (varint_roundtrip_l a Ha) as Ra. pose proof (varint_roundtrip_l b Hb) as Rb.
  rewrite E in Ra. rewrite Ra in Rb. inversion Rb. reflexivity.
Qed.

Lemma varint_prefix_free_l :
  forall a b r1 r2, 0 <= a < 2 ^ 64 -> 0 <= b < 2 ^ 64 ->
    enc a ++ r1 = enc b ++ r2 -> a = b /\ r1 = r2.
Proof.
  intros a b r1 r2 Ha Hb E.
  pose proof (varint_decode_prefix_l a r1 Ha) as Ra.
  pose proof (varint_decode_prefix_l b r2 Hb) as Rb.
  rewrite E in Ra. rewrite Ra in Rb. injection Rb as Hab _. subst b.
  split; [reflexivity|]. eapply app_inv_head. exact E.
Qed.
