(* C22 model, part 2: the SQL lexer of src/sql/lexer.rs (struct Lexer, fn next_token and every
   scan_* helper), hand-transcribed function by function.  DEFINITIONS ONLY, no proofs.

   Conventions
   * the input is the UTF-8 byte string of the `&str` given to Lexer::new (bytes are Z);
   * `pos` is a nat index; `line` / `column` are the u32 fields (Z) and every `+= 1` on them is a
     checked addition (dev profile): Panic on overflow;
   * `self.bytes[self.pos]` (fn current) is an unchecked index: Panic when out of range;
   * `&self.input[a..b]` is a str slice: Panic unless a <= b and both are char boundaries
     (core::str::is_char_boundary);
   * `depth` of skip_block_comment is an i32 with checked `+= 1`; `self.pos -= 1` is a checked usize
     subtraction;
   * every `while` / `loop` is a Fixpoint on fuel with an explicit OutOfFuel outcome; callers pass
     `S (length input)`; Proof/LexerTotal.v shows that OutOfFuel never happens with that fuel;
   * next_token is a Rust `loop` that skips comments (since /repo d86c1b1; before, scan_minus and
     scan_block_comment tail-called self.next_token(), one stack frame per comment): `Again` is the
     `continue` of that loop, the Gallina recursion of next_token is the next ITERATION, not a call;
   * keyword lookup (phf map) is membership of the upper-cased identifier in Model/LexerKeywords.v;
   * `num_str.parse::<u32>()` on a non-empty all-digit string is "value <= u32::MAX".  *)
From Coq Require Import ZArith List Bool Arith.
From TV Require Import Model.LexerKeywords.
Import ListNotations.
Open Scope Z_scope.

Inductive res (A : Type) : Type := Ok (a : A) | Panic | OutOfFuel.
Arguments Ok {A} a.
Arguments Panic {A}.
Arguments OutOfFuel {A}.

Definition bind {A B} (m : res A) (f : A -> res B) : res B :=
  match m with Ok a => f a | Panic => Panic | OutOfFuel => OutOfFuel end.
Notation "'do' x <- m ; k" := (bind m (fun x => k))
  (at level 200, x name, m at level 100, k at level 200, right associativity).
Notation "'do' ' p <- m ; k" := (bind m (fun x => match x with p => k end))
  (at level 200, p pattern, m at level 100, k at level 200, right associativity).

(* ---------------------------------------------------------------- byte classes (the u8::is_ascii_xxx tests) *)
Definition is_upper (b : Z) : bool := (65 <=? b) && (b <=? 90).
Definition is_lower (b : Z) : bool := (97 <=? b) && (b <=? 122).
Definition is_alpha (b : Z) : bool := is_upper b || is_lower b.
Definition is_digit (b : Z) : bool := (48 <=? b) && (b <=? 57).
Definition is_alnum (b : Z) : bool := is_alpha b || is_digit b.
Definition is_hexdigit (b : Z) : bool := is_digit b || ((65 <=? b) && (b <=? 70)) || ((97 <=? b) && (b <=? 102)).
Definition is_bindigit (b : Z) : bool := (b =? 48) || (b =? 49).
Definition is_octdigit (b : Z) : bool := (48 <=? b) && (b <=? 55).
Definition is_ident_start (b : Z) : bool := is_alpha b || (b =? 95).
Definition is_ident_char (b : Z) : bool := is_alnum b || (b =? 95).
Definition is_ws (b : Z) : bool := (b =? 32) || (b =? 9) || (b =? 13) || (b =? 10).
Definition is_exp (b : Z) : bool := (b =? 101) || (b =? 69).
Definition is_sign (b : Z) : bool := (b =? 43) || (b =? 45).
Definition not_newline (b : Z) : bool := negb (b =? 10).
Definition to_upper (b : Z) : Z := if is_lower b then b - 32 else b.
Definition is_ascii (b : Z) : bool := (0 <=? b) && (b <? 128).

Definition opt_is (o : option Z) (b : Z) : bool := match o with Some c => c =? b | None => false end.

Fixpoint zl_eqb (a b : list Z) : bool :=
  match a, b with
  | [], [] => true
  | x :: a', y :: b' => (x =? y) && zl_eqb a' b'
  | _, _ => false
  end.
Definition is_keyword (w : list Z) : bool := existsb (zl_eqb w) keywords.

(* decimal value of an all-digit byte string *)
Definition digits_value (l : list Z) : Z := fold_left (fun acc b => acc * 10 + (b - 48)) l 0.

Definition u32_max : Z := 4294967295.
Definition i32_max : Z := 2147483647.

(* ---------------------------------------------------------------- tokens *)
(* kind codes: the variants of enum Token (src/sql/token.rs) *)
Definition k_eof := 0.   Definition k_keyword := 1.  Definition k_ident := 2.   Definition k_qident := 3.
Definition k_string := 4. Definition k_integer := 5. Definition k_float := 6.   Definition k_hex := 7.
Definition k_bin := 8.   Definition k_oct := 9.      Definition k_named := 10.  Definition k_anon := 11.
Definition k_plus := 20. Definition k_minus := 21.   Definition k_star := 22.   Definition k_slash := 23.
Definition k_percent := 24. Definition k_caret := 25. Definition k_amp := 26.   Definition k_pipe := 27.
Definition k_dpipe := 28. Definition k_tilde := 29.  Definition k_lshift := 30. Definition k_rshift := 31.
Definition k_hash := 32. Definition k_eq := 33.      Definition k_noteq := 34.  Definition k_lt := 35.
Definition k_lteq := 36. Definition k_gt := 37.      Definition k_gteq := 38.   Definition k_spaceship := 39.
Definition k_ltminusgt := 40. Definition k_lthashgt := 41. Definition k_arrow := 42. Definition k_darrow := 43.
Definition k_hasharrow := 44. Definition k_hashdarrow := 45. Definition k_atgt := 46. Definition k_ltat := 47.
Definition k_damp := 48. Definition k_qpipe := 50.   Definition k_qamp := 51.
Definition k_lparen := 52. Definition k_rparen := 53. Definition k_lbracket := 54. Definition k_rbracket := 55.
Definition k_lbrace := 56. Definition k_rbrace := 57. Definition k_comma := 58. Definition k_semicolon := 59.
Definition k_colon := 60. Definition k_dcolon := 61. Definition k_dot := 62.    Definition k_ddot := 63.
Definition k_assign := 64. Definition k_fatarrow := 65.

(* error codes: the message of Token::Error *)
Definition e_unexpected_char := 1.   Definition e_hexstr_char := 2.     Definition e_hexstr_unterminated := 3.
Definition e_hex_number := 4.        Definition e_bin_number := 5.      Definition e_oct_number := 6.
Definition e_string := 7.            Definition e_qident := 8.          Definition e_backtick := 9.
Definition e_dollar_end := 10.       Definition e_positional := 11.     Definition e_dollar_tag := 12.
Definition e_dollar_token := 13.     Definition e_dollar_string := 14.  Definition e_at_end := 15.
Definition e_at_param := 16.         Definition e_block_comment := 17.  Definition e_bang := 18.

Inductive tok :=
| T (k : Z)                      (* a token without payload *)
| TS (k : Z) (a b : nat)         (* a token carrying the slice &input[a..b] *)
| TPos (n : Z)                   (* Token::Parameter(Parameter::Positional(n)) *)
| TErr (e : Z).                  (* Token::Error(message e) *)

Record lx := mkLx { pos : nat; line : Z; col : Z }.

(* what one iteration of next_token's loop yields: a token, or `continue` after a comment *)
Inductive sres := Done (t : tok) (st : lx) | Again (st : lx).

Section Lexer.
Variable s : list Z.                      (* the input bytes *)

Definition len : nat := length s.
Definition lfuel : nat := S len.          (* fuel handed to every inner loop *)

Definition is_eof (st : lx) : bool := (len <=? pos st)%nat.
(* fn current: self.bytes[self.pos] *)
Definition current (st : lx) : res Z :=
  match nth_error s (pos st) with Some b => Ok b | None => Panic end.
(* fn peek_char: self.bytes.get(self.pos + 1).copied() *)
Definition peek_char (st : lx) : option Z := nth_error s (S (pos st)).

(* fn advance *)
Definition advance (st : lx) : res lx :=
  if is_eof st then Ok st else
  do b <- current st;
  if b =? 10 then
    (if line st <? u32_max then Ok (mkLx (S (pos st)) (line st + 1) 1) else Panic)
  else
    (if col st <? u32_max then Ok (mkLx (S (pos st)) (line st) (col st + 1)) else Panic).

(* `!self.is_eof() && p(self.current())` *)
Definition at_byte (p : Z -> bool) (st : lx) : res bool :=
  if is_eof st then Ok false else do b <- current st; Ok (p b).

(* `while !self.is_eof() && p(self.current()) { self.advance(); }` *)
Fixpoint skip_while (p : Z -> bool) (fuel : nat) (st : lx) : res lx :=
  match fuel with
  | O => OutOfFuel
  | S f =>
      if is_eof st then Ok st else
      do b <- current st;
      if p b then (do st1 <- advance st; skip_while p f st1) else Ok st
  end.

(* `for _ in 0..n { self.advance(); }` *)
Fixpoint advance_n (n : nat) (st : lx) : res lx :=
  match n with O => Ok st | S m => do st1 <- advance st; advance_n m st1 end.

(* core::str::is_char_boundary *)
Definition is_char_boundary (i : nat) : bool :=
  if (i =? 0)%nat then true else
  match nth_error s i with
  | None => (i =? len)%nat
  | Some b => (b <? 128) || (192 <=? b)
  end.
(* &self.input[a..b] : the slice is represented by its offsets *)
Definition slice (a b : nat) : res unit :=
  if (a <=? b)%nat && is_char_boundary a && is_char_boundary b then Ok tt else Panic.
Definition sub (a b : nat) : list Z := firstn (b - a) (skipn a s).
(* remaining.starts_with(tag) with remaining = &input[p..] *)
Fixpoint prefix_of (t l : list Z) : bool :=
  match t, l with
  | [], _ => true
  | x :: t', y :: l' => (x =? y) && prefix_of t' l'
  | _ :: _, [] => false
  end.
Definition starts_with_at (p : nat) (tag : list Z) : bool := prefix_of tag (skipn p s).

(* ---------------------------------------------------------------- identifiers, hex strings *)
(* loop of scan_hex_string_literal; true = left through `return Token::Error(invalid hex character)` *)
Fixpoint hex_lit_loop (fuel : nat) (st : lx) : res (lx * bool) :=
  match fuel with
  | O => OutOfFuel
  | S f =>
      if is_eof st then Ok (st, false) else
      do b <- current st;
      if b =? 39 then Ok (st, false)
      else if negb (is_hexdigit b) then Ok (st, true)
      else do st1 <- advance st; hex_lit_loop f st1
  end.

Definition scan_hex_string_literal (st : lx) : res sres :=
  do st1 <- advance st;
  do st2 <- advance st1;
  let start := pos st2 in
  do ' (st3, bad) <- hex_lit_loop lfuel st2;
  if bad then Ok (Done (TErr e_hexstr_char) st3)
  else if is_eof st3 then Ok (Done (TErr e_hexstr_unterminated) st3)
  else
    do _ <- slice start (pos st3);
    do st4 <- advance st3;
    Ok (Done (TS k_hex start (pos st3)) st4).

Definition scan_identifier_or_keyword (st : lx) : res sres :=
  let start := pos st in
  do c <- current st;
  if ((c =? 120) || (c =? 88)) && opt_is (peek_char st) 39 then scan_hex_string_literal st
  else
    do st1 <- skip_while is_ident_char lfuel st;
    do _ <- slice start (pos st1);
    if is_keyword (map to_upper (sub start (pos st1))) then Ok (Done (T k_keyword) st1)
    else Ok (Done (TS k_ident start (pos st1)) st1).

(* ---------------------------------------------------------------- numbers *)
(* scan_hex_number / scan_binary_number / scan_octal_number: same shape, different digit class *)
Definition scan_radix_number (p : Z -> bool) (k e : Z) (st : lx) : res sres :=
  do st1 <- advance st;
  do st2 <- advance st1;
  let start := pos st2 in
  do st3 <- skip_while p lfuel st2;
  if (pos st3 =? start)%nat then Ok (Done (TErr e) st3)
  else do _ <- slice start (pos st3); Ok (Done (TS k start (pos st3)) st3).

(* the optional exponent part shared by scan_number and scan_dot *)
Definition scan_exponent (st : lx) : res (lx * bool) :=
  do e <- at_byte is_exp st;
  if e then
    do a <- advance st;
    do sg <- at_byte is_sign a;
    do b <- (if sg then advance a else Ok a);
    do c <- skip_while is_digit lfuel b;
    Ok (c, true)
  else Ok (st, false).

Definition scan_number (st : lx) : res sres :=
  let start := pos st in
  do c <- current st;
  let radix :=
    if c =? 48 then
      match peek_char st with
      | Some n => if (n =? 120) || (n =? 88) then 1
                  else if (n =? 98) || (n =? 66) then 2
                  else if (n =? 111) || (n =? 79) then 3 else 0
      | None => 0
      end
    else 0 in
  if radix =? 1 then scan_radix_number is_hexdigit k_hex e_hex_number st
  else if radix =? 2 then scan_radix_number is_bindigit k_bin e_bin_number st
  else if radix =? 3 then scan_radix_number is_octdigit k_oct e_oct_number st
  else
    do st1 <- skip_while is_digit lfuel st;
    do dot <- at_byte (Z.eqb 46) st1;
    do ' (st2, fl) <-
      (if dot then
         match peek_char st1 with
         | Some n =>
             if is_digit n then
               (do a <- advance st1; do b <- skip_while is_digit lfuel a; Ok (b, true))
             else if n =? 46 then Ok (st1, false)
             else (do a <- advance st1; Ok (a, true))
         | None => Ok (st1, false)
         end
       else Ok (st1, false));
    do ' (st3, ex) <- scan_exponent st2;
    do _ <- slice start (pos st3);
    Ok (Done (TS (if fl || ex then k_float else k_integer) start (pos st3)) st3).

(* ---------------------------------------------------------------- quoted things *)
(* the `loop` of scan_string / scan_quoted_identifier / scan_backtick_identifier (quote byte q);
   true = stopped on the closing quote (state still AT the quote), false = end of input *)
Fixpoint quoted_loop (q : Z) (fuel : nat) (st : lx) : res (lx * bool) :=
  match fuel with
  | O => OutOfFuel
  | S f =>
      if is_eof st then Ok (st, false) else
      do b <- current st;
      if b =? q then
        (if opt_is (peek_char st) q then
           (do a <- advance st; do a2 <- advance a; quoted_loop q f a2)
         else Ok (st, true))
      else (do a <- advance st; quoted_loop q f a)
  end.

Definition scan_quoted (q k e : Z) (st : lx) : res sres :=
  do st1 <- advance st;
  let start := pos st1 in
  do ' (st2, closed) <- quoted_loop q lfuel st1;
  if closed then
    let e_ := pos st2 in
    do st3 <- advance st2;
    do _ <- slice start e_;
    Ok (Done (TS k start e_) st3)
  else Ok (Done (TErr e) st2).

(* ---------------------------------------------------------------- $ : parameters, dollar quotes *)
Fixpoint dollar_loop (end_tag : list Z) (fuel : nat) (st : lx) : res (lx * bool) :=
  match fuel with
  | O => OutOfFuel
  | S f =>
      if is_eof st then Ok (st, false) else
      do b <- current st;
      if b =? 36 then
        (do _ <- slice (pos st) len;                       (* &self.input[self.pos..] *)
         if starts_with_at (pos st) end_tag then Ok (st, true)
         else (do a <- advance st; dollar_loop end_tag f a))
      else (do a <- advance st; dollar_loop end_tag f a)
  end.

Definition scan_dollar_string (tag : option (list Z)) (st : lx) : res sres :=
  do st1 <- advance st;
  let start := pos st1 in
  let end_tag := match tag with Some t => 36 :: t ++ [36] | None => [36; 36] end in
  do ' (st2, found) <- dollar_loop end_tag lfuel st1;
  if found then
    let e_ := pos st2 in
    do st3 <- advance_n (length end_tag) st2;
    do _ <- slice start e_;
    Ok (Done (TS k_string start e_) st3)
  else Ok (Done (TErr e_dollar_string) st2).

Definition scan_dollar_or_param (st : lx) : res sres :=
  do st1 <- advance st;
  if is_eof st1 then Ok (Done (TErr e_dollar_end) st1) else
  do c <- current st1;
  if is_digit c then
    let start := pos st1 in
    do st2 <- skip_while is_digit lfuel st1;
    do _ <- slice start (pos st2);
    let n := digits_value (sub start (pos st2)) in
    if n <=? u32_max then Ok (Done (TPos n) st2) else Ok (Done (TErr e_positional) st2)
  else if c =? 36 then scan_dollar_string None st1
  else if is_ident_start c then
    let tag_start := pos st1 in
    do st2 <- skip_while is_ident_char lfuel st1;
    do d <- at_byte (Z.eqb 36) st2;
    if d then
      do _ <- slice tag_start (pos st2);
      scan_dollar_string (Some (sub tag_start (pos st2))) st2
    else Ok (Done (TErr e_dollar_tag) st2)
  else Ok (Done (TErr e_dollar_token) st1).

(* ---------------------------------------------------------------- : @ ? *)
Definition scan_named (st1 : lx) : res sres :=
  let start := pos st1 in
  do st2 <- skip_while is_ident_char lfuel st1;
  do _ <- slice start (pos st2);
  Ok (Done (TS k_named start (pos st2)) st2).

Definition scan_colon_or_param (st : lx) : res sres :=
  do st1 <- advance st;
  if is_eof st1 then Ok (Done (T k_colon) st1) else
  do c <- current st1;
  if c =? 58 then (do a <- advance st1; Ok (Done (T k_dcolon) a))
  else if c =? 61 then (do a <- advance st1; Ok (Done (T k_assign) a))
  else if is_ident_start c then scan_named st1
  else Ok (Done (T k_colon) st1).

Definition scan_at_param (st : lx) : res sres :=
  do st1 <- advance st;
  if is_eof st1 then Ok (Done (TErr e_at_end) st1) else
  do c <- current st1;
  if c =? 62 then (do a <- advance st1; Ok (Done (T k_atgt) a))
  else if is_ident_start c then scan_named st1
  else Ok (Done (TErr e_at_param) st1).

Definition scan_question (st : lx) : res sres :=
  do st1 <- advance st;
  if is_eof st1 then Ok (Done (T k_anon) st1) else
  do c <- current st1;
  if c =? 124 then (do a <- advance st1; Ok (Done (T k_qpipe) a))
  else if c =? 38 then (do a <- advance st1; Ok (Done (T k_qamp) a))
  else Ok (Done (T k_anon) st1).

(* ---------------------------------------------------------------- - / comments *)
Definition scan_minus (st : lx) : res sres :=
  do st1 <- advance st;
  if is_eof st1 then Ok (Done (T k_minus) st1) else
  do c <- current st1;
  if c =? 62 then
    (do a <- advance st1;
     do g <- at_byte (Z.eqb 62) a;
     if g then (do b <- advance a; Ok (Done (T k_darrow) b)) else Ok (Done (T k_arrow) a))
  else Ok (Done (T k_minus) st1).

(* the `while !self.is_eof() && depth > 0` loop of skip_block_comment; depth : i32 *)
Fixpoint block_loop (fuel : nat) (depth : Z) (st : lx) : res (lx * Z) :=
  match fuel with
  | O => OutOfFuel
  | S f =>
      if is_eof st || (depth <=? 0) then Ok (st, depth) else
      do c <- current st;
      if (c =? 47) && opt_is (peek_char st) 42 then
        (do a <- advance st; do b <- advance a;
         if depth <? i32_max then block_loop f (depth + 1) b else Panic)
      else if (c =? 42) && opt_is (peek_char st) 47 then
        (do a <- advance st; do b <- advance a; block_loop f (depth - 1) b)
      else (do a <- advance st; block_loop f depth a)
  end.

(* fn skip_block_comment: the opening `/*` has been consumed; true = terminated (depth == 0) *)
Definition skip_block_comment (st : lx) : res (lx * bool) :=
  do ' (st1, depth) <- block_loop lfuel 1 st;
  Ok (st1, depth =? 0).

(* ---------------------------------------------------------------- operators *)
(* advance; if !eof && current == c2 { advance; two } else { one } *)
Definition scan_pair (c2 : Z) (two one : tok) (st : lx) : res sres :=
  do st1 <- advance st;
  do g <- at_byte (Z.eqb c2) st1;
  if g then (do a <- advance st1; Ok (Done two a)) else Ok (Done one st1).

Definition scan_ampersand := scan_pair 38 (T k_damp) (T k_amp).
Definition scan_pipe := scan_pair 124 (T k_dpipe) (T k_pipe).
Definition scan_equals := scan_pair 62 (T k_fatarrow) (T k_eq).
Definition scan_exclamation := scan_pair 61 (T k_noteq) (TErr e_bang).

Definition scan_hash (st : lx) : res sres :=
  do st1 <- advance st;
  if is_eof st1 then Ok (Done (T k_hash) st1) else
  do c <- current st1;
  if c =? 62 then
    (do a <- advance st1;
     do g <- at_byte (Z.eqb 62) a;
     if g then (do b <- advance a; Ok (Done (T k_hashdarrow) b)) else Ok (Done (T k_hasharrow) a))
  else Ok (Done (T k_hash) st1).

(* `self.pos -= 1;` (line / column are NOT restored) *)
Definition back_one (st : lx) : res lx :=
  if (pos st =? 0)%nat then Panic else Ok (mkLx (pos st - 1) (line st) (col st)).

Definition scan_less_than (st : lx) : res sres :=
  do st1 <- advance st;
  if is_eof st1 then Ok (Done (T k_lt) st1) else
  do c <- current st1;
  if c =? 61 then
    (do a <- advance st1;
     do g <- at_byte (Z.eqb 62) a;
     if g then (do b <- advance a; Ok (Done (T k_spaceship) b)) else Ok (Done (T k_lteq) a))
  else if c =? 62 then (do a <- advance st1; Ok (Done (T k_noteq) a))
  else if c =? 60 then (do a <- advance st1; Ok (Done (T k_lshift) a))
  else if c =? 64 then (do a <- advance st1; Ok (Done (T k_ltat) a))
  else if c =? 45 then
    (do a <- advance st1;
     do g <- at_byte (Z.eqb 62) a;
     if g then (do b <- advance a; Ok (Done (T k_ltminusgt) b))
     else (do b <- back_one a; Ok (Done (T k_lt) b)))
  else if c =? 35 then
    (do a <- advance st1;
     do g <- at_byte (Z.eqb 62) a;
     if g then (do b <- advance a; Ok (Done (T k_lthashgt) b))
     else (do b <- back_one a; Ok (Done (T k_lt) b)))
  else Ok (Done (T k_lt) st1).

Definition scan_greater_than (st : lx) : res sres :=
  do st1 <- advance st;
  if is_eof st1 then Ok (Done (T k_gt) st1) else
  do c <- current st1;
  if c =? 61 then (do a <- advance st1; Ok (Done (T k_gteq) a))
  else if c =? 62 then (do a <- advance st1; Ok (Done (T k_rshift) a))
  else Ok (Done (T k_gt) st1).

Definition scan_dot (st : lx) : res sres :=
  do st1 <- advance st;
  do d <- at_byte (Z.eqb 46) st1;
  if d then (do a <- advance st1; Ok (Done (T k_ddot) a))
  else
    do g <- at_byte is_digit st1;
    if g then
      (do start <- (if (pos st1 =? 0)%nat then Panic else Ok (pos st1 - 1)%nat);   (* self.pos - 1 *)
       do st2 <- skip_while is_digit lfuel st1;
       do ' (st3, _) <- scan_exponent st2;
       do _ <- slice start (pos st3);
       Ok (Done (TS k_float start (pos st3)) st3))
    else Ok (Done (T k_dot) st1).

(* `{ self.advance(); Token::X }` *)
Definition scan_single (t : tok) (st : lx) : res sres :=
  do st1 <- advance st; Ok (Done t st1).

(* the dispatch of next_token on the first byte of the token *)
Definition scan_token (st : lx) : res sres :=
  do ch <- current st;
  if is_ident_start ch then scan_identifier_or_keyword st
  else if is_digit ch then scan_number st
  else if ch =? 39 then scan_quoted 39 k_string e_string st
  else if ch =? 34 then scan_quoted 34 k_qident e_qident st
  else if ch =? 96 then scan_quoted 96 k_qident e_backtick st
  else if ch =? 36 then scan_dollar_or_param st
  else if ch =? 58 then scan_colon_or_param st
  else if ch =? 64 then scan_at_param st
  else if ch =? 63 then scan_question st
  else if ch =? 45 then scan_minus st
  else if ch =? 47 then scan_single (T k_slash) st            (* fn scan_slash *)
  else if ch =? 43 then scan_single (T k_plus) st
  else if ch =? 42 then scan_single (T k_star) st
  else if ch =? 37 then scan_single (T k_percent) st
  else if ch =? 94 then scan_single (T k_caret) st
  else if ch =? 38 then scan_ampersand st
  else if ch =? 124 then scan_pipe st
  else if ch =? 126 then scan_single (T k_tilde) st
  else if ch =? 35 then scan_hash st
  else if ch =? 61 then scan_equals st
  else if ch =? 60 then scan_less_than st
  else if ch =? 62 then scan_greater_than st
  else if ch =? 33 then scan_exclamation st
  else if ch =? 40 then scan_single (T k_lparen) st
  else if ch =? 41 then scan_single (T k_rparen) st
  else if ch =? 91 then scan_single (T k_lbracket) st
  else if ch =? 93 then scan_single (T k_rbracket) st
  else if ch =? 123 then scan_single (T k_lbrace) st
  else if ch =? 125 then scan_single (T k_rbrace) st
  else if ch =? 44 then scan_single (T k_comma) st
  else if ch =? 59 then scan_single (T k_semicolon) st
  else if ch =? 46 then scan_dot st
  else scan_single (TErr e_unexpected_char) st.

(* one iteration of the `loop` of next_token after skip_whitespace / token_start / the Eof test:
   a line comment or a block comment ends with `continue` (Again), anything else is a token *)
Definition comment_or_token (st1 : lx) : res sres :=
  do c <- current st1;
  if (c =? 45) && opt_is (peek_char st1) 45 then
    (do st2 <- skip_while not_newline lfuel st1; Ok (Again st2))
  else if (c =? 47) && opt_is (peek_char st1) 42 then
    (do a <- advance st1;
     do b <- advance a;
     do ' (st2, closed) <- skip_block_comment b;
     if closed then Ok (Again st2) else Ok (Done (TErr e_block_comment) st2))
  else scan_token st1.

(* fn next_token.  Result: the token, self.token_start, the lexer afterwards, and the number of
   comments skipped by the loop of this ONE call (iterations that ended with `continue`). *)
Fixpoint next_token (fuel : nat) (st : lx) : res (tok * nat * lx * nat) :=
  match fuel with
  | O => OutOfFuel
  | S f =>
      do st1 <- skip_while is_ws lfuel st;
      if is_eof st1 then Ok (T k_eof, pos st1, st1, O) else
      do r <- comment_or_token st1;
      match r with
      | Done t st2 => Ok (t, pos st1, st2, O)
      | Again st2 => do ' (t, ts, st3, d) <- next_token f st2; Ok (t, ts, st3, S d)
      end
  end.

(* one produced token with its span: (token, token_start, position after it) *)
Inductive ltok := L (t : tok) (ts te : nat).

Definition is_eof_tok (t : tok) : bool := match t with T k => k =? k_eof | _ => false end.

(* the caller's loop (Parser, count_parameters, the harness):
   loop { let t = lexer.next_token(); ...; if t == Eof { break } } *)
Fixpoint lex_all (fuel : nat) (st : lx) : res (list ltok * lx * nat) :=
  match fuel with
  | O => OutOfFuel
  | S f =>
      do ' (t, ts, st1, d) <- next_token lfuel st;
      if is_eof_tok t then Ok ([L t ts (pos st1)], st1, d)
      else do ' (rest, st2, d2) <- lex_all f st1; Ok (L t ts (pos st1) :: rest, st2, Nat.max d d2)
  end.

Definition init : lx := mkLx O 1 1.          (* Lexer::new *)
Definition lex : res (list ltok * lx * nat) := lex_all lfuel init.

End Lexer.

(* ---------------------------------------------------------------- the &str type invariant *)
(* well-formed UTF-8 (Unicode 15 table 3-7), i.e. what core::str::from_utf8 accepts *)
Definition is_cont (b : Z) : bool := (128 <=? b) && (b <=? 191).
Fixpoint utf8_valid (l : list Z) : bool :=
  match l with
  | [] => true
  | b :: r =>
      if b <? 128 then (0 <=? b) && utf8_valid r
      else if (194 <=? b) && (b <=? 223) then
        match r with c1 :: r1 => is_cont c1 && utf8_valid r1 | _ => false end
      else if (224 <=? b) && (b <=? 239) then
        match r with
        | c1 :: c2 :: r2 =>
            is_cont c1 && is_cont c2 &&
            (if b =? 224 then 160 <=? c1 else if b =? 237 then c1 <=? 159 else true) && utf8_valid r2
        | _ => false
        end
      else if (240 <=? b) && (b <=? 244) then
        match r with
        | c1 :: c2 :: c3 :: r3 =>
            is_cont c1 && is_cont c2 && is_cont c3 &&
            (if b =? 240 then 144 <=? c1 else if b =? 244 then c1 <=? 143 else true) && utf8_valid r3
        | _ => false
        end
      else false
  end.
