(* C11 proofs, part 5: every well-formed history reads back what it wrote (history_readback_l, no finding class
   is left to exclude), the witnesses of the four repaired classes now satisfy the oracle on the model, and
   the lemmas packaged for Props/C11.v. *)
From Coq Require Import ZArith List Bool Lia ZifyBool.
From TV Require Import Lib.MachInt Lib.MachIntFacts Gen.Toast Model.Toast Model.Utf8 Model.ToastSql
  Proof.ToastCodec Proof.ToastStore Proof.ToastSqlBase Proof.ToastSqlStep.
Import ListNotations.
Open Scope Z_scope.

Arguments Z.div : simpl never.
Arguments Z.modulo : simpl never.
Arguments Z.mul : simpl never.
Arguments Z.add : simpl never.
Arguments Z.sub : simpl never.
Arguments Z.pow : simpl never.
Arguments Z.leb : simpl never.
Arguments Z.ltb : simpl never.
Arguments Z.eqb : simpl never.
Arguments Z.of_nat : simpl never.
Arguments Z.to_nat : simpl never.
Arguments wrap_u : simpl never.

Section Main.
Variable ty : colty.
Variable pk : bool.

(* ---------------------------------------------------------------- bookkeeping about run_from *)
Lemma run_from_cons st o t :
  run_from ty pk st (o :: t) =
  (fst (run_from ty pk (fst (step ty pk st o)) t), snd (step ty pk st o) :: snd (run_from ty pk (fst (step ty pk st o)) t)).
Proof.
  cbn [run_from]. destruct (step ty pk st o) as [st1 ob]. cbn [fst snd].
  destruct (run_from ty pk st1 t) as [st2 obs]. reflexivity.
Qed.

Lemma run_from_length : forall ops st, length (snd (run_from ty pk st ops)) = length ops.
Proof. induction ops as [|o t IH]; intros st; [reflexivity|]. rewrite run_from_cons. cbn [snd length]. now rewrite IH. Qed.

(* ---------------------------------------------------------------- well-formed histories *)
Lemma existsb_false_forall {A} (f : A -> bool) l : existsb f l = false -> forall x, In x l -> f x = false.
Proof.
  induction l as [|h t IH]; intros H x Hin; [destruct Hin|]. cbn [existsb] in H. apply orb_false_iff in H as [H1 H2].
  destruct Hin as [<-|Hin]; auto.
Qed.

Lemma nodup_z_NoDup l : nodup_z l = true -> NoDup l.
Proof.
  induction l as [|x t IH]; intros H; [constructor|]. cbn [nodup_z] in H. apply andb_true_iff in H as [H1 H2].
  constructor; [|auto]. intros Hin. apply negb_true_iff in H1.
  pose proof (existsb_false_forall (Z.eqb x) t H1 x Hin) as E. now rewrite Z.eqb_refl in E.
Qed.

(* ---------------------------------------------------------------- the row counter after Database::open *)
Lemma fold_max_ge : forall l a x, In x l \/ x <= a -> x <= fold_left Z.max l a.
Proof.
  induction l as [|h t IH]; intros a x H; cbn [fold_left].
  - destruct H as [ [] | H ]. exact H.
  - apply IH. destruct H as [ [<- | H] | H ]; [right; lia | left; exact H | right; lia].
Qed.
Lemma fold_max_lt : forall l a b, a < b -> (forall x, In x l -> x < b) -> fold_left Z.max l a < b.
Proof.
  induction l as [|h t IH]; intros a b Ha H; cbn [fold_left]; [exact Ha|].
  apply IH; [pose proof (H h (or_introl eq_refl)); lia | intros x Hx; apply H; now right].
Qed.
Lemma max_rid_ge st x : In x (map r_rid (rows st) ++ gone st) -> x <= max_rid st.
Proof. intros H. unfold max_rid. apply fold_max_ge. now left. Qed.
Lemma max_rid_lt st e : Inv ty st e -> 0 <= max_rid st < next_rid st.
Proof.
  intros Hi. pose proof (inv_rid ty st e Hi). split.
  - unfold max_rid. apply fold_max_ge. right. lia.
  - unfold max_rid. apply fold_max_lt; [lia|]. intros x Hx. apply in_app_or in Hx as [Hx|Hx].
    + apply in_map_iff in Hx as (r & <- & Hr). apply (inv_rids ty st e Hi r Hr).
    + apply (inv_gone ty st e Hi x Hx).
Qed.

(* ---------------------------------------------------------------- the induction *)
Lemma run_ok : forall ops st e,
  Inv ty st e -> dead st = false -> forallb (op_ok ty) ops = true -> NoDup (ins_keys ops) ->
  (forall k, In k (ins_keys ops) -> ~ In k (map r_k (rows st))) ->
  next_rid st + Z.of_nat (length ops) <= 2 ^ 48 ->
  spec_from e (combine ops (snd (run_from ty pk st ops))) = true.
Proof.
  induction ops as [|o t IH]; intros st e Hi Hd Hc Hn Hfresh Hrid; [reflexivity|].
  rewrite run_from_cons. cbn [fst snd]. cbn [combine].
  rewrite spec_from_step.
  cbn [forallb] in Hc. apply andb_true_iff in Hc as [Hco Hct].
  cbn [length] in Hrid. rewrite Nat2Z.inj_succ in Hrid. pose proof (inv_rid ty st e Hi) as Hr1.
  destruct (step ty pk st o) as [st1 ob] eqn:Es. cbn [fst snd] in *.
  unfold step in Es. rewrite Hd in Es.
  destruct o as [p k v|p k v|k| |s|]; cbn [op_ok] in Hco.
  - (* INSERT *)
    cbn [ins_keys] in Hn, Hfresh. inversion Hn as [|? ? Hk Hnt]; subst.
    destruct (step_ins_ok ty st e p k v st1 ob Hi Hco (Hfresh k (or_introl eq_refl)) ltac:(lia) Es)
      as (e' & Hs & Hi' & Hd' & Hr' & Hkeys).
    rewrite Hs. apply IH; auto; [congruence | | lia].
    intros k' Hk' Hin. destruct (Hkeys k' Hin) as [->|Hold]; [contradiction|].
    eapply Hfresh; [right; exact Hk' | exact Hold].
  - (* UPDATE *)
    cbn [ins_keys] in Hn, Hfresh.
    destruct (step_upd_ok ty pk st e p k v st1 ob Hi Hco ltac:(lia) Es) as (e' & Hs & Hi' & Hd' & Hr' & Hkeys).
    rewrite Hs. apply IH; auto; [congruence | rewrite Hkeys; exact Hfresh | lia].
  - (* DELETE *)
    cbn [ins_keys] in Hn, Hfresh.
    destruct (step_del_ok ty st e k st1 ob Hi ltac:(lia) Es) as (e' & Hs & Hi' & Hd' & Hr' & Hkeys).
    rewrite Hs. apply IH; auto; [congruence | | lia].
    intros k' Hk' Hin. eapply Hfresh; eauto.
  - (* reopen *)
    cbn [ins_keys] in Hn, Hfresh. unfold step_reopen in Es. injection Es as <- <-. cbn [spec_step].
    pose proof (max_rid_lt st e Hi) as Hmax. pose proof (max_rid_ge st) as Hge.
    apply IH; auto; cbn [next_rid rows]; [| lia].
    destruct Hi as [A B C D E F G]. constructor; cbn [rows toast next_rid gone]; auto; [lia | |].
    + intros r Hin. specialize (Hge (r_rid r) (in_or_app _ _ _ (or_introl (in_map r_rid _ _ Hin)))).
      pose proof (E r Hin). lia.
    + intros x Hin. specialize (Hge x (in_or_app _ _ _ (or_intror Hin))). pose proof (F x Hin). lia.
  - (* SELECT *)
    cbn [ins_keys] in Hn, Hfresh.
    destruct (step_query_ok ty st e st1 ob Hi ltac:(lia) Es) as [Hs ->]. cbn [spec_step] in Hs |- *. rewrite Hs.
    apply IH; auto. lia.
  - (* skipped *)
    cbn [ins_keys] in Hn, Hfresh. injection Es as <- <-. cbn [spec_step]. apply IH; auto. lia.
Qed.

Lemma history_readback_pre : forall ops,
  wf_hist ty ops = true -> spec_hist ops (run ty pk ops) = true.
Proof.
  intros ops Hwf. unfold wf_hist in Hwf. apply andb_true_iff in Hwf as [Hwf Hlen]. apply andb_true_iff in Hwf as [Hok Hnd].
  unfold spec_hist, run. rewrite run_from_length, Nat.eqb_refl. cbn [andb].
  apply run_ok.
  - constructor; cbn; [constructor | constructor | constructor | lia | intros ? [] | intros ? [] | intros ? ? H; discriminate H].
  - reflexivity.
  - exact Hok.
  - now apply nodup_z_NoDup.
  - intros k _ [].
  - cbn [next_rid st0]. change (2 ^ 47) with 140737488355328 in Hlen. change (2 ^ 48) with 281474976710656. lia.
Qed.
End Main.

(* ================================================================ packaged for Props/C11.v *)
Lemma history_readback_l : forall ty pk ops,
  wf_hist ty ops = true -> spec_hist ops (run ty pk ops) = true.
Proof. exact history_readback_pre. Qed.

Lemma chunks_concat_shape_l : forall d,
  concat (chunks CHUNK d) = d /\ Z.of_nat (length (chunks CHUNK d)) = chunk_count (blen d) /\
  Forall (fun c => 1 <= blen c <= 4000) (chunks CHUNK d).
Proof. intros d. split; [apply chunks_concat_l | split; [apply chunks_count | apply chunks_sizes]]. Qed.

Lemma toast_frame_l : forall m cid d m' ok cid' d',
  toast_write m cid d = (m', ok) -> stored_at m cid' d' -> stored_at m' cid' d'.
Proof. exact toast_write_keeps. Qed.

Lemma toast_delete_frame_l : forall m total cid cid' d,
  0 <= total < 2 ^ 64 -> 0 <= cid < 2 ^ 64 -> cid' <> cid ->
  stored_at m cid' d -> stored_at (del_pointer m (ptr_encode total cid)) cid' d.
Proof. exact del_pointer_keeps. Qed.

Lemma toast_collision_l : forall m cid d d0,
  stored_at m cid d0 -> d0 <> [] -> d <> [] -> toast_write m cid d = (m, false).
Proof. exact toast_write_blocked. Qed.

(* one stored value: what SELECT shows for a pointer written for row id rid of column c (16c5acb: typed by the column) *)
Lemma readback_value_l : forall ty m rid b,
  0 <= rid < 2 ^ 48 -> blen b < ALLOC_OK -> stored_at m (chunk_id_of rid COL_C) b ->
  read_value ty m (SBytes (ptr_encode (blen b) (chunk_id_of rid COL_C))) =
  match ty with TText => if valid_utf8 b then ROk (VText b) else RErr | _ => ROk (VBlob b) end.
Proof. exact read_toasted. Qed.

Lemma readback_inline_l : forall ty m b,
  is_toast_pointer b = false ->
  read_value ty m (SBytes b) = ROk (match ty with TBlob => VBlob b | _ => VText b end).
Proof. intros ty m b H. cbn [read_value]. rewrite H. destruct ty; reflexivity. Qed.

(* ---- the four repaired classes (16c5acb, 170f3f6, 1b44555, cc39952): their witnesses now satisfy the oracle on
   the model of the repaired tree *)
Definition ops_utf8_blob : list op := [OIns PL 1 (VBlob (repeat 97 1001)); OQuery 0].
Definition ops_fake_pointer : list op := [OIns PL 1 (VBlob (254 :: repeat 0 16)); OQuery 0].
Definition ops_lost_update : list op :=
  [OIns PL 1 (VText [97]); OIns PL 2 (VText (repeat 98 1001)); OUpd PL 1 (VText (repeat 99 1001));
   OQuery 0; OUpd PL 2 (VText (repeat 100 1001)); OQuery 0].
Definition ops_cached_pointer : list op :=
  [OIns PS 1 (VBlob [0]); OIns PS 2 (VBlob (254 :: repeat 0 16)); OIns PS 3 (VBlob (repeat 255 1001)); OQuery 0].

Lemma former_classes_repaired_l :
  (* 1: a BLOB above the threshold that is valid UTF-8 came back as TEXT *)
  (run TBlob false ops_utf8_blob = [SWrote true; SRows [(1, VBlob (repeat 97 1001))]] /\
   spec_hist ops_utf8_blob (run TBlob false ops_utf8_blob) = true) /\
  (* 2: a 17-byte blob led by 0xFE was detoasted on SELECT *)
  (run TBlob false ops_fake_pointer = [SWrote true; SRows [(1, VBlob (254 :: repeat 0 16))]] /\
   spec_hist ops_fake_pointer (run TBlob false ops_fake_pointer) = true) /\
  (* 3: the UPDATE of row 2 was rejected after deleting its old chunks *)
  (run TText false ops_lost_update =
     [SWrote true; SWrote true; SWrote true; SRows [(1, VText (repeat 99 1001)); (2, VText (repeat 98 1001))];
      SWrote true; SRows [(1, VText (repeat 99 1001)); (2, VText (repeat 100 1001))]] /\
   spec_hist ops_lost_update (run TText false ops_lost_update) = true) /\
  (* 4: a re-executed prepared INSERT stored pointer-like bytes inline (and refused large values) *)
  (run TBlob false ops_cached_pointer =
     [SWrote true; SWrote true; SWrote true;
      SRows [(1, VBlob [0]); (2, VBlob (254 :: repeat 0 16)); (3, VBlob (repeat 255 1001))]] /\
   spec_hist ops_cached_pointer (run TBlob false ops_cached_pointer) = true).
Proof. vm_compute. repeat split; reflexivity. Qed.

(* non-vacuity: a history with values on both sides of the threshold, pointer-like blobs on every path, a BLOB
   that is valid UTF-8, UPDATEs that used to collide, a DELETE, a reopen and INSERTs after it is well-formed *)
Definition ops_example : list op :=
  [OIns PL 1 (VBlob (repeat 97 (Z.to_nat 5000))); OIns PS 2 (VBlob (254 :: repeat 1 16)); OIns PS 3 (VBlob (repeat 98 1001));
   OUpd PL 1 (VBlob (repeat 99 (Z.to_nat 9000))); OUpd PP 2 (VBlob (repeat 100 1001)); ODel 3; OReopen;
   OIns PS 4 (VBlob [7]); OIns PS 5 (VBlob (254 :: repeat 2 16)); OQuery 0].
Lemma history_example_l :
  wf_hist TBlob ops_example = true /\
  run TBlob false ops_example =
    [SWrote true; SWrote true; SWrote true; SWrote true; SWrote true; SWrote true; SReopened true; SWrote true; SWrote true;
     SRows [(1, VBlob (repeat 99 (Z.to_nat 9000))); (2, VBlob (repeat 100 1001)); (4, VBlob [7]); (5, VBlob (254 :: repeat 2 16))]].
Proof. vm_compute. repeat split; reflexivity. Qed.
