(* C07 -- the statements as pinned in Props/C07.v: observation-level corollaries of the
   transaction-level lemmas, and the savepoint marker bookkeeping (a stack). *)
From Coq Require Import ZArith List Bool Lia Sorted.
From TV Require Import Model.SqlSpec Model.UndoLog Model.UndoLogSpec
  Proof.UndoLogBase Proof.UndoLogStep Proof.UndoLogSp Proof.UndoLogTxn.
Import ListNotations.
Open Scope Z_scope.

Lemma rollback_restores_obs_l : forall sch st body,
  inv sch st -> clean_run sch [] body (st, Some (mkTxn [] [])) = true ->
  let s' := run sch (OBegin :: body ++ [ORollback]) (st, None) in
  obs_eq sch (fst s') st /\ snd s' = None.
Proof.
  intros sch st body Hi Hc s'.
  destruct (rollback_restores_l sch st body ORollback Hi Hc (or_introl eq_refl)) as [H1 H2].
  split; [apply core3_obs_eq; exact H1 | exact H2].
Qed.

Lemma drop_restores_obs_l : forall sch st body,
  inv sch st -> clean_run sch [] body (st, Some (mkTxn [] [])) = true ->
  let s' := run sch (OBegin :: body ++ [ODrop]) (st, None) in
  obs_eq sch (fst s') st /\ snd s' = None.
Proof.
  intros sch st body Hi Hc s'.
  destruct (rollback_restores_l sch st body ODrop Hi Hc (or_intror eq_refl)) as [H1 H2].
  split; [apply core3_obs_eq; exact H1 | exact H2].
Qed.

Lemma savepoint_restores_obs_l : forall sch st t n body,
  inv sch st -> zin n (names_of (sps t)) = false ->
  clean_run sch (names_of (sps t) ++ [n]) body
            (st, Some (mkTxn (wlog t) (sps t ++ [(n, length (wlog t))]))) = true ->
  let s' := run sch (OSave n :: body ++ [ORollTo n]) (st, Some t) in
  obs_eq sch (fst s') st /\
  snd s' = Some (mkTxn (wlog t) (sps t ++ [(n, length (wlog t))])).
Proof.
  intros sch st t n body Hi Hf Hc s'.
  destruct (savepoint_restores_l sch st t n body Hi Hf Hc) as [H1 H2].
  split; [apply core3_obs_eq; exact H1 | exact H2].
Qed.

(* ------------------------------------------------------------------ the marker stack *)
Lemma sp_remove_last : forall (l : list (Z * nat)) x, sp_remove (length l) (l ++ [x]) = l.
Proof.
  intros l x. unfold sp_remove. replace (length l) with (length l + 0)%nat at 1 by lia.
  rewrite firstn_app_len. cbn [firstn]. replace (S (length l)) with (length l + 1)%nat by lia.
  rewrite skipn_app_len. cbn [skipn]. rewrite !app_nil_r. reflexivity.
Qed.

Lemma savepoint_stack_lifo_l : forall sch st t n m,
  zin n (names_of (sps t)) = false -> zin m (names_of (sps t)) = false -> (m =? n) = false ->
  (* SAVEPOINT n; RELEASE n leaves the marker stack as it was *)
  run sch [OSave n; ORelease n] (st, Some t) = (st, Some (mkTxn (wlog t) (sps t))) /\
  (* ROLLBACK TO n discards the marker m pushed after n and keeps n *)
  run sch [OSave n; OSave m; ORollTo n] (st, Some t)
    = (st, Some (mkTxn (wlog t) (sps t ++ [(n, length (wlog t))]))) /\
  fst (exec sch (ORollTo m) (run sch [OSave n; OSave m; ORollTo n] (st, Some t))) = RErr /\
  (* ... while n can be rolled back to again *)
  fst (exec sch (ORollTo n) (run sch [OSave n; OSave m; ORollTo n] (st, Some t))) = ROk.
Proof.
  intros sch st t n m Hn Hm Hmn.
  assert (R2 : run sch [OSave n; OSave m; ORollTo n] (st, Some t)
               = (st, Some (mkTxn (wlog t) (sps t ++ [(n, length (wlog t))])))).
  { cbn [run exec snd wlog sps].
    rewrite (sp_find_app_l n (sps t ++ [(n, length (wlog t))]) [(m, length (wlog t))] (length (sps t)))
      by (apply sp_find_fresh_end; exact Hn).
    rewrite <- app_assoc. replace (length (sps t)) with (length (sps t) + 0)%nat at 1 by lia.
    rewrite nth_error_app_len. cbn [nth_error app].
    rewrite skipn_all, firstn_all, undo_list_nil. f_equal. f_equal. f_equal.
    replace (S (length (sps t))) with (length (sps t) + 1)%nat by lia. rewrite firstn_app_len. reflexivity. }
  split; [|split; [exact R2|split]].
  - cbn [run exec snd wlog sps]. rewrite (sp_find_fresh_end n (sps t) _ Hn). rewrite sp_remove_last. reflexivity.
  - rewrite R2. cbn [exec wlog sps].
    assert (Hz : zin m (names_of (sps t ++ [(n, length (wlog t))])) = false).
    { rewrite names_of_app, zin_app, Hm. cbn [names_of map fst zin orb]. rewrite Z.eqb_sym. rewrite Hmn. reflexivity. }
    replace (sps t ++ [(n, length (wlog t))]) with ((sps t ++ [(n, length (wlog t))]) ++ []) by apply app_nil_r.
    rewrite (sp_find_app_r _ _ _ Hz). reflexivity.
  - rewrite R2. cbn [exec wlog sps]. rewrite (sp_find_fresh_end n (sps t) _ Hn).
    replace (length (sps t)) with (length (sps t) + 0)%nat at 1 by lia. rewrite nth_error_app_len. reflexivity.
Qed.
