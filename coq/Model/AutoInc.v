(* C12 model: the AUTO_INCREMENT counter of a table, as src/database/dml/insert.rs
   (execute_insert_internal) handles it after the repairs a94d684, 66de927, 6d846b9, 94b952d.
   Hand-written (the code is ~60 lines inside a 1000-line function over Vec<OwnedValue>, outside
   the tools/rs2v.py subset); tied to the compiled code by the correspondence run only.
   Definitions only, no proofs.

   The mechanism (insert.rs):
     cur := header.auto_increment(); max := cur; persisted := cur      (header = page 0 of the table file)
     limit := i16::MAX / i32::MAX / i64::MAX by the id column's type (Int2 / Int4 / anything else)
     for each row:
       id NULL/absent -> cur := cur.checked_add(1).filter(<= limit)?  (else Err "auto_increment overflow")
                         id := cur as i64 ; if cur > max { max := cur }
       id = Int(v)    -> v < 0 ? bail ; v > limit ? bail ;
                         if v > max { max := v } ; if v > cur { cur := v }
       if max > persisted { header := max(header, max) ; persisted := max }     (written at once)
       the row is validated, checked against the unique indexes and written; any error returns
       from the function at once (rows written before stay in the table)
     after the loop: if max > 0 && max > header { header := max }               (now a no-op)
   With a single connection `persisted` equals the header value throughout, so one variable [hdr]
   stands for both.  DELETE, BEGIN/COMMIT/ROLLBACK (transaction.rs undo_write_entry deletes the
   rows, nothing else) and close + Database::open never write the counter; open reads it back
   from page 0.

   Other insert paths:
     PreparedStatement   tables with an AUTO_INCREMENT column no longer get a cached plan
                         (database.rs execute_with_cached_plan): every execution is an ordinary
                         single-row INSERT through execute_insert_internal
     insert_batch        (src/database/batch.rs) writes the ids as given - NULL stays NULL, no range
                         check - and, after the rows, raises the header counter to the largest
                         positive id of the call ([Bulk] below; successful calls only) *)
From Coq Require Import ZArith List Bool.
From TV Require Import Lib.MachInt.
Import ListNotations.
Open Scope Z_scope.

(* width of the id column's integer type: 16 = SMALLINT (Int2), 32 = INTEGER (Int4), anything else
   is treated as the code treats it: 64 bits *)
Definition col_bits (w : Z) : Z := if w =? 16 then 16 else if w =? 32 then 32 else 64.
Definition limit (w : Z) : Z := 2 ^ (col_bits w - 1) - 1.
(* RecordBuilder::set_int_auto: `value as i16` / `value as i32` / the i64 itself *)
Definition stored (w id : Z) : Z := wrap_s (col_bits w) id.

(* the id column of one row of an INSERT statement *)
Inductive row := RNull | RInt (v : Z).        (* NULL / column absent,  or an explicit i64 *)

Inductive assigned :=
| AGen (cur' max' id : Z)    (* id generated: new cur, new max, the i64 written into the row *)
| AExp (cur' max' id : Z)    (* explicit id in range kept; it raises max and cur *)
| AErr.                      (* overflow past the column type's maximum / negative or out-of-range
                                explicit id: the statement returns Err, no id is produced *)

Definition assign (lim cur max : Z) (r : row) : assigned :=
  match r with
  | RNull =>
      let c := cur + 1 in
      if in_u 64 c && (c <=? lim)                    (* u64::checked_add, .filter(<= limit) *)
      then AGen c (if c >? max then c else max) (wrap_s 64 c)    (* `cur as i64` *)
      else AErr
  | RInt v =>
      if v <? 0 then AErr
      else if v >? lim then AErr
      else AExp (if v >? cur then v else cur) (if v >? max then v else max) v
  end.

Inductive stmt_end := Done (max : Z) | Failed.

(* The row loop.  [ext] = Some k: the k-th remaining row fails for a reason outside this model
   (constraint on another column, unique index hit, B-tree error ...) after its id was assigned
   and the header written, before the row itself is written; None: no such failure.
   Result: the rows written, in order, as (id, generated?), how the loop ended, the header counter. *)
Fixpoint stmt_loop (lim : Z) (rows : list row) (ext : option nat) (cur max hdr : Z)
  : list (Z * bool) * stmt_end * Z :=
  match rows with
  | [] => ([], Done max, hdr)
  | r :: t =>
      match assign lim cur max r with
      | AErr => ([], Failed, hdr)
      | AGen c m id =>
          let hdr' := if m >? hdr then m else hdr in
          match ext with
          | Some O => ([], Failed, hdr')
          | _ => let '(w, e, h) := stmt_loop lim t (option_map Nat.pred ext) c m hdr' in ((id, true) :: w, e, h)
          end
      | AExp c m id =>
          let hdr' := if m >? hdr then m else hdr in
          match ext with
          | Some O => ([], Failed, hdr')
          | _ => let '(w, e, h) := stmt_loop lim t (option_map Nat.pred ext) c m hdr' in ((id, false) :: w, e, h)
          end
      end
  end.

(* one INSERT statement on a table (id column width w) whose header counter is ai:
   (new header counter, rows written, statement returned Ok?) *)
Definition insert_stmt (w ai : Z) (rows : list row) (ext : option nat) : Z * list (Z * bool) * bool :=
  let '(wr, e, h) := stmt_loop (limit w) rows ext ai ai ai in
  match e with
  | Done m => (if (m >? 0) && (m >? h) then m else h, wr, true)
  | Failed => (h, wr, false)
  end.

(* insert_batch (a call that returns Ok): the integer ids written, as given, and the largest
   positive one *)
Fixpoint bulk_written (rows : list row) : list (Z * bool) :=
  match rows with
  | [] => []
  | RNull :: t => bulk_written t
  | RInt v :: t => (v, false) :: bulk_written t
  end.
Fixpoint bulk_max (rows : list row) : Z :=
  match rows with
  | [] => 0
  | RNull :: t => bulk_max t
  | RInt v :: t => Z.max v (bulk_max t)
  end.

(* histories *)
Inductive op :=
| Insert (rows : list row) (ext : option nat)
| Bulk (rows : list row)
| Delete | TxBegin | TxCommit | TxRollback | Reopen.

Definition step (w ai : Z) (o : op) : Z * list (Z * bool) :=
  match o with
  | Insert rows ext => let '(ai', wr, _) := insert_stmt w ai rows ext in (ai', wr)
  | Bulk rows => (let m := bulk_max rows in if m >? ai then m else ai, bulk_written rows)
  | _ => (ai, [])
  end.

(* final counter and the trace = every (id, generated?) written to the column, in time order
   (ids as INSERT / RETURNING sees them; [trace_w] below is what the column stores) *)
Fixpoint run (w ai : Z) (h : list op) : Z * list (Z * bool) :=
  match h with
  | [] => (ai, [])
  | o :: t => let '(ai', wr) := step w ai o in let '(aif, tr) := run w ai' t in (aif, wr ++ tr)
  end.

Definition counter (w : Z) (h : list op) : Z := fst (run w 0 h).     (* a new table has counter 0 *)
Definition trace (w : Z) (h : list op) : list (Z * bool) := snd (run w 0 h).
Definition trace_w (w : Z) (h : list op) : list (Z * bool) :=
  map (fun x => (stored w (fst x), snd x)) (trace w h).

(* every explicit id loaded through insert_batch fits the id column's type (insert_batch itself
   does not check; what it stores otherwise is the truncated value) *)
Definition bulk_fits (w : Z) (o : op) : bool :=
  match o with
  | Bulk rows => forallb (fun x => in_s (col_bits w) (fst x)) (bulk_written rows)
  | _ => true
  end.

(* ------------------------------------------------------------------ the property (C12)
   every generated value differs from every value the column held before (explicit or generated,
   whether or not the row was deleted / rolled back since) and exceeds every earlier generated one *)
Definition fresh_increasing (tr : list (Z * bool)) : Prop :=
  forall pre g post, tr = pre ++ (g, true) :: post ->
    ~ In g (map fst pre) /\ (forall g', In (g', true) pre -> g' < g).

(* the same, as a checker (used on the values the implementation showed) *)
Fixpoint fi_chk (pre tr : list (Z * bool)) : bool :=
  match tr with
  | [] => true
  | (g, b) :: t =>
      (negb b || (negb (existsb (fun x => fst x =? g) pre) &&
                  forallb (fun x => negb (snd x) || (fst x <? g)) pre))
      && fi_chk (pre ++ [(g, b)]) t
  end.
Definition fresh_increasing_chk (tr : list (Z * bool)) : bool := fi_chk [] tr.

(* ------------------------------------------------------------------ history of the defect classes
   Before the repairs the code had five regimes in which the property failed (known findings
   F-C12-1..5, all fixed; their witnesses are re-run on every check):
     1  id generated after an explicit id above the running counter in the same statement
        (fixed by a94d684: explicit ids raise cur)
     2  statement failing after it wrote ids above the header counter (66de927: header written
        as soon as ids are handed out)
     3  generation past i64::MAX wrapped to i64::MIN           (6d846b9: Err at the type's maximum)
     4  explicit ids written by insert_cached / insert_batch not folded into the counter
        (94b952d: no cached plan for AUTO_INCREMENT tables, insert_batch raises the counter)
     5  ids beyond the range of a SMALLINT / INTEGER id column stored truncated   (6d846b9)
   No class is left. *)

Definition is_insert (o : op) : bool := match o with Insert _ _ | Bulk _ => true | _ => false end.
