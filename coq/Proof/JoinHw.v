(* C17 proofs, part 4: the hand-written two-table join path of Database::query (Model/JoinHw.v)
   returns exactly the rows SQL defines, for every pair of tables, join type, ON condition, WHERE
   clause and select list OUTSIDE the finding classes 3 (residual ON conjuncts), 4 (outer join +
   WHERE) and 8 (0.0 / -0.0 keys), provided the predicate evaluator agrees with the reference on the
   rows it is applied to (that is property C14: Props/C14.v filter_correct). *)
From Coq Require Import ZArith List Bool Lia.
From TV Require Import Model.SqlSpec Model.PredImpl Model.JoinSpec Model.JoinExec Model.JoinHw
                       Proof.SqlSpecLaws Proof.JoinBag Proof.JoinKeys.
Import ListNotations.
Open Scope Z_scope.

(* ------------------------------------------------------------------ conjunctions *)
Lemma conj_defined e r : sem3 e r <> None -> Forall (fun c => sem3 c r <> None) (conjuncts e).
Proof.
  induction e; intros D; cbn [conjuncts]; try (constructor; [exact D|constructor]).
  rewrite sem3_and in D. apply Forall_app. split.
  - apply IHe1. destruct (sem3 e1 r), (sem3 e2 r); cbn in D; congruence.
  - apply IHe2. destruct (sem3 e1 r), (sem3 e2 r); cbn in D; congruence.
Qed.

Lemma conj_passes e r : sem3 e r <> None -> passes e r = forallb (fun c => passes c r) (conjuncts e).
Proof.
  induction e; intros D; cbn [conjuncts forallb]; try (rewrite andb_true_r; reflexivity).
  assert (sem3 e1 r <> None /\ sem3 e2 r <> None) as [D1 D2].
  { rewrite sem3_and in D. destruct (sem3 e1 r), (sem3 e2 r); cbn in D; split; congruence. }
  rewrite (passes_and e1 e2 r D1 D2), forallb_app, IHe1, IHe2; auto.
Qed.

(* ------------------------------------------------------------------ equal_coerce is sound for SQL equality *)
Lemma fcmp_eq_sym a b : fcmp a b = Some Eq -> fcmp b a = Some Eq.
Proof.
  unfold fcmp. destruct (f_ok a) eqn:A, (f_ok b) eqn:B, (f_is_nan a) eqn:NA, (f_is_nan b) eqn:NB; cbn; try discriminate.
  intros H. inversion H as [H1]. apply Z.compare_eq in H1. rewrite H1, Z.compare_refl. reflexivity.
Qed.

Lemma equal_coerce_sql a b : equal_coerce a b = true ->
  (cmp3 CEq a b <> None -> cmp3 CEq a b = Some TT) /\ (cmp3 CEq b a <> None -> cmp3 CEq b a = Some TT).
Proof.
  unfold cmp3.
  destruct a as [|x|x|x|x], b as [|y|y|y|y]; cbn [equal_coerce cmp_values]; intros H; try discriminate.
  - apply Z.eqb_eq in H. subst. rewrite Z.compare_refl. split; reflexivity.
  - unfold if_partial_cmp, ifcmp in *.
    destruct (int_float_safe x) eqn:S; cbn [andb option_map]; [|split; intros D; exfalso; apply D; reflexivity].
    rewrite (round53_small x S) in H.
    destruct (f_ok y && negb (f_is_nan y)); cbn [option_map]; [|discriminate].
    destruct (ifcmp_exact x y); try discriminate. split; reflexivity.
  - unfold if_partial_cmp, ifcmp in *.
    destruct (int_float_safe y) eqn:S; cbn [andb option_map]; [|split; intros D; exfalso; apply D; reflexivity].
    rewrite (round53_small y S) in H.
    destruct (f_ok x && negb (f_is_nan x)); cbn [option_map]; [|discriminate].
    destruct (ifcmp_exact y x); try discriminate. split; reflexivity.
  - unfold f_partial_cmp in H. destruct (fcmp x y) as [[]|] eqn:E; try discriminate.
    rewrite (fcmp_eq_sym x y E). split; reflexivity.
  - apply zlist_eqb'_eq in H. subst. assert (bytes_cmp y y = Eq) as E by (apply bytes_cmp_eq; reflexivity).
    rewrite E. split; reflexivity.
  - apply eqb_prop in H. subst. rewrite Z.compare_refl. split; reflexivity.
Qed.

(* ------------------------------------------------------------------ a key conjunct on a pair of rows *)
Lemma sem3_cross lw (l r : row) i j li ri : length l = lw ->
  cross_key lw (i, j) = [(li, ri)] ->
  exists a b, nth_error l li = a /\ nth_error r ri = b /\
    (sem3 (ECmp CEq (ECol i) (ECol j)) (l ++ r) = match a, b with Some x, Some y => cmp3 CEq x y | _, _ => None end \/
     sem3 (ECmp CEq (ECol i) (ECol j)) (l ++ r) = match a, b with Some x, Some y => cmp3 CEq y x | _, _ => None end).
Proof.
  intros Hl Hk. unfold cross_key in Hk. unfold sem3. cbn [eval]. revert Hk.
  destruct (Nat.ltb_spec i lw) as [Hi|Hi]; destruct (Nat.ltb_spec j lw) as [Hj|Hj]; cbn [andb negb]; intros Hk; try discriminate;
    inversion Hk; subst li ri; eexists; eexists; (split; [reflexivity|split; [reflexivity|]]).
  - left. rewrite (nth_error_app1 l r) by lia. rewrite (nth_error_app2 l r) by lia. rewrite Hl.
    destruct (nth_error l i); [|reflexivity]. destruct (nth_error r (j - lw)); [|reflexivity]. apply bind_ret_tv.
  - right. rewrite (nth_error_app2 l r) by lia. rewrite (nth_error_app1 l r) by lia. rewrite Hl.
    destruct (nth_error r (i - lw)); [|destruct (nth_error l j); reflexivity].
    destruct (nth_error l j); [|reflexivity]. apply bind_ret_tv.
Qed.

(* the hash path never accepts a pair whose ON condition is not TRUE *)
Lemma hw_keys_sound lw e (l r : row) :
  length l = lw ->
  forallb (is_cross_key lw) (conjuncts e) = true ->
  sem3 e (l ++ r) <> None ->
  hw_key_match (cross_keys lw (equi_keys e)) l r = true ->
  passes e (l ++ r) = true.
Proof.
  intros Hl Hall D Hm. rewrite (conj_passes e _ D). apply forallb_forall. intros c Hc.
  pose proof (conj_defined e _ D) as DF. rewrite Forall_forall in DF. specialize (DF c Hc).
  rewrite forallb_forall in Hall. specialize (Hall c Hc).
  unfold is_cross_key in Hall. destruct (key_of c) as [[i j]|] eqn:K; [|discriminate].
  destruct c; try discriminate. destruct op; try discriminate. destruct c1; try discriminate. destruct c2; try discriminate.
  cbn [key_of] in K. inversion K; subst i0 i1. clear K.
  destruct (cross_key lw (i, j)) as [|[li ri] [|? ?]] eqn:CK; try discriminate.
  2:{ unfold cross_key in CK. destruct ((i <? lw)%nat && negb (j <? lw)%nat); [discriminate|]. destruct ((j <? lw)%nat && negb (i <? lw)%nat); discriminate. }
  (* (li, ri) is one of the keys the hash path checks *)
  assert (In (li, ri) (cross_keys lw (equi_keys e))) as Hin.
  { unfold cross_keys. apply in_flat_map. exists (i, j). split; [|rewrite CK; left; reflexivity].
    unfold equi_keys. apply in_flat_map. exists (ECmp CEq (ECol i) (ECol j)). split; [exact Hc|left; reflexivity]. }
  unfold hw_key_match in Hm. apply andb_true_iff in Hm. destruct Hm as [_ Hm].
  rewrite forallb_forall in Hm. specialize (Hm _ Hin). cbn [fst snd] in Hm.
  destruct (sem3_cross lw l r i j li ri Hl CK) as [a [b [Ha [Hb Hs]]]]. rewrite Ha, Hb in Hm.
  destruct a as [x|]; [|discriminate]. destruct b as [y|]; [|discriminate].
  apply andb_true_iff in Hm. destruct Hm as [_ Hm].
  destruct (equal_coerce_sql x y Hm) as [E1 E2]. unfold passes.
  destruct Hs as [Hs|Hs]; rewrite Hs in *; [rewrite (E1 DF)|rewrite (E2 DF)]; reflexivity.
Qed.

(* ------------------------------------------------------------------ the pair test of the implementation = the ON condition *)
Definition pred_ok (e : expr) (rows : table) : Prop := forall r, In r rows -> eval_expr e r = PredImpl.Ok (passes e r).

Lemma ev_ok e rows r : pred_ok e rows -> In r rows -> ev e r = passes e r.
Proof. intros H Hin. unfold ev. rewrite (H r Hin). reflexivity. Qed.

Lemma in_pairs L R (l r : row) : In l L -> In r R -> In (l ++ r) (pairs_of L R).
Proof. intros Hl Hr. unfold pairs_of. apply in_flat_map. exists l. split; [exact Hl|]. apply in_map. exact Hr. Qed.

Lemma hw_cond_is_on lw on (L R : table) (l r : row) :
  Forall (fun l => length l = lw) L ->
  residual_on lw on = false -> hash_miss lw on L R = false ->
  (forall e, on = Some e -> pred_ok e (pairs_of L R)) ->
  pair_defined on L R = true ->
  In l L -> In r R ->
  hw_cond lw on l r = pair_tt on l r.
Proof.
  intros HW Hres Hmiss Hev Hdef Hl Hr. destruct on as [e|]; [|reflexivity].
  cbn [hw_cond pair_tt]. unfold on_tt.
  assert (sem3 e (l ++ r) <> None) as D.
  { cbn [pair_defined] in Hdef. unfold on_defined in Hdef. rewrite forallb_forall in Hdef. specialize (Hdef l Hl).
    rewrite forallb_forall in Hdef. specialize (Hdef r Hr). unfold on3 in Hdef. destruct (sem3 e (l ++ r)); [discriminate|discriminate Hdef]. }
  destruct (is_nil (equi_keys e)) eqn:EK.
  - apply ev_ok with (rows := pairs_of L R); [apply Hev; reflexivity|apply in_pairs; assumption].
  - cbn [residual_on] in Hres. rewrite EK in Hres. cbn [negb andb] in Hres. apply negb_false_iff in Hres.
    (* all conjuncts are left-right keys, so the key list is not empty *)
    destruct (is_nil (cross_keys lw (equi_keys e))) eqn:CK.
    { exfalso. destruct (conjuncts e) as [|c cs] eqn:Ec.
      - unfold equi_keys in EK. rewrite Ec in EK. discriminate.
      - cbn [forallb] in Hres. apply andb_true_iff in Hres. destruct Hres as [Hc _].
        unfold is_cross_key in Hc. destruct (key_of c) as [k|] eqn:K; [|discriminate].
        unfold equi_keys in CK. rewrite Ec in CK. cbn [flat_map] in CK. rewrite K in CK. cbn [app flat_map cross_keys] in CK.
        unfold cross_keys in CK. cbn [flat_map] in CK. destruct (cross_key lw k); [discriminate|discriminate CK]. }
    destruct (hw_key_match (cross_keys lw (equi_keys e)) l r) eqn:M.
    + symmetry. apply (hw_keys_sound lw e l r); auto. rewrite Forall_forall in HW. apply HW. exact Hl.
    + (* no hash miss: ON TRUE would have been matched *)
      destruct (passes e (l ++ r)) eqn:P; [|reflexivity]. exfalso.
      unfold hash_miss, hw_uses_hash in Hmiss. rewrite CK in Hmiss. cbn [negb andb] in Hmiss.
      assert (existsb (fun l0 => existsb (fun r0 => on_tt e l0 r0 && negb (hw_cond lw (Some e) l0 r0)) R) L = true) as X.
      { apply existsb_exists. exists l. split; [exact Hl|]. apply existsb_exists. exists r. split; [exact Hr|].
        unfold on_tt. rewrite P. cbn [hw_cond]. rewrite EK, CK, M. reflexivity. }
      rewrite X in Hmiss. discriminate.
Qed.

(* ------------------------------------------------------------------ join_rows depends on the condition only on L x R *)
Lemma join_rows_ext_in jt lw rw (on on' : row -> row -> bool) (L R : table) :
  (forall l r, In l L -> In r R -> on l r = on' l r) ->
  join_rows jt lw rw on L R = join_rows jt lw rw on' L R.
Proof.
  intros E. unfold join_rows, join_g, inner_part, left_part, right_part.
  f_equal; [|f_equal].
  - apply flat_map_ext_in. intros l Hl. f_equal. apply filter_ext_in. intros r Hr. apply E; assumption.
  - destruct (left_outer jt); [|reflexivity]. f_equal. apply filter_ext_in. intros l Hl. f_equal.
    apply existsb_ext_in. intros r Hr. apply E; assumption.
  - destruct (right_outer jt); [|reflexivity]. f_equal. apply filter_ext_in. intros r Hr. f_equal.
    apply existsb_ext_in. intros l Hl. apply E; assumption.
Qed.

Lemma filter_map_comm {X Y} (p : Y -> bool) (f : X -> Y) l : filter p (map f l) = map f (filter (fun x => p (f x)) l).
Proof. induction l as [|x l IH]; cbn [map filter]; [reflexivity|]. destruct (p (f x)); cbn [map]; rewrite IH; reflexivity. Qed.

(* an inner join filtered by WHERE = the inner join under (ON and WHERE) *)
Lemma inner_where (on : row -> row -> bool) (wv : row -> bool) lw rw jt (L R : table) :
  left_outer jt = false -> right_outer jt = false ->
  filter wv (join_rows jt lw rw on L R) = join_rows jt lw rw (fun l r => on l r && wv (l ++ r)) L R.
Proof.
  intros H1 H2. unfold join_rows, join_g. rewrite H1, H2, !app_nil_r. unfold inner_part.
  rewrite filter_flat_map. apply flat_map_ext. intros l.
  rewrite filter_map_comm, filter_filter. reflexivity.
Qed.

Lemma in_join_inner (on : row -> row -> bool) lw rw jt (L R : table) x :
  left_outer jt = false -> right_outer jt = false ->
  In x (join_rows jt lw rw on L R) -> exists l r, In l L /\ In r R /\ x = l ++ r.
Proof.
  intros H1 H2. unfold join_rows, join_g. rewrite H1, H2, !app_nil_r. unfold inner_part.
  intros H. apply in_flat_map in H. destruct H as [l [Hl H]]. apply in_map_iff in H. destruct H as [r [E H]].
  apply filter_In in H. destruct H as [Hr _]. exists l, r. auto.
Qed.

(* ------------------------------------------------------------------ the theorem *)
Theorem hw2_correct_l : forall jt lw rw on w sel (L R : table) t s,
  let q := mkq [(lw, L); (rw, R)] [(jt, on)] w (Some sel) in
  cls_sql q false = 0 ->
  Forall (fun l => length l = lw) L ->
  (forall e, opt_on jt on = Some e -> pred_ok e (pairs_of L R)) ->
  (forall e, w = Some e -> pred_ok e (pairs_of L R)) ->
  hw_model q false = HRows t ->
  query_spec q = Some s ->
  t = s.
Proof.
  intros jt lw rw on w sel L R t s q Hc HW Hon Hw Hm Hs.
  unfold hw_model, q in Hm. cbn [q_tabs q_joins q_sel q_where andb] in Hm.
  unfold cls_sql, q in Hc. cbn [q_tabs q_joins q_sel q_where] in Hc.
  set (on' := opt_on jt on) in *.
  destruct (residual_on lw on') eqn:Hres; [discriminate|].
  destruct ((left_outer jt || right_outer jt) && is_some w) eqn:H4; [discriminate|].
  cbn [andb] in Hc.
  destruct (hash_miss lw on' L R) eqn:Hmiss; [discriminate|]. clear Hc.
  unfold query_spec, q in Hs. cbn [q_tabs q_joins q_sel q_where from_spec] in Hs. fold on' in Hs.
  destruct (pair_defined on' L R) eqn:Hdef; [|discriminate].
  unfold hw2 in Hm. fold on' in Hm. destruct (hw_status lw on' w L R) as [|p|p]; [|destruct p; discriminate|discriminate].
  assert (forall l r, In l L -> In r R -> hw_cond lw on' l r = pair_tt on' l r) as Hcond.
  { intros l r Hl Hr. apply (hw_cond_is_on lw on' L R l r); auto. }
  destruct w as [e|].
  - (* WHERE: the join is inner *)
    cbn [is_some] in H4. rewrite andb_true_r in H4. apply orb_false_iff in H4. destruct H4 as [Hlo Hro].
    destruct (defined_on e (join_rows jt lw rw (pair_tt on') L R)) eqn:Hde; [|discriminate].
    rewrite (inner_where (pair_tt on') (passes e) lw rw jt L R Hlo Hro) in Hs.
    rewrite (join_rows_ext_in jt lw rw (fun l r => hw_cond lw on' l r && ev e (l ++ r)) (fun l r => pair_tt on' l r && passes e (l ++ r)) L R) in Hm.
    + rewrite Hs in Hm. inversion Hm. reflexivity.
    + intros l r Hl Hr. rewrite (Hcond l r Hl Hr). f_equal.
      apply ev_ok with (rows := pairs_of L R); [apply Hw; reflexivity|apply in_pairs; assumption].
  - rewrite (join_rows_ext_in jt lw rw (fun l r => hw_cond lw on' l r && true) (pair_tt on') L R) in Hm.
    + rewrite Hs in Hm. inversion Hm. reflexivity.
    + intros l r Hl Hr. rewrite andb_true_r. apply Hcond; assumption.
Qed.
