(* C24 model, IEEE-754 binary32 instance of the kernels of Model/Kernels.v.
   Definitions only.  The arithmetic is Coq's own executable specification of IEEE-754
   (Coq.Floats.SpecFloat: round-to-nearest-even add, sub, mul, div, sqrt on sign /
   mantissa / exponent triples, parameterised by prec = 24, emax = 128), which is what the
   x86 SSE/AVX instructions implement under the default MXCSR (no flush-to-zero).
   SpecFloat has no fused multiply-add; [f32_fma] below builds it from SpecFloat's exact
   alignment and its rounding function: the product is formed exactly, added exactly,
   and rounded once (vfmadd231ps).  NaN payloads are not modelled (one NaN). *)
From Coq Require Import ZArith List Bool Floats.SpecFloat.
From TV Require Import Model.Kernels.
Import ListNotations.
Open Scope Z_scope.

Definition f32 := spec_float.
Definition fprec : Z := 24.
Definition femax : Z := 128.

Definition f32_add : f32 -> f32 -> f32 := SFadd fprec femax.
Definition f32_sub : f32 -> f32 -> f32 := SFsub fprec femax.
Definition f32_mul : f32 -> f32 -> f32 := SFmul fprec femax.
Definition f32_div : f32 -> f32 -> f32 := SFdiv fprec femax.
Definition f32_sqrt : f32 -> f32 := SFsqrt fprec femax.
Definition f32_opp : f32 -> f32 := SFopp.

(* fused x*y+z, one rounding *)
Definition f32_fma (x y z : f32) : f32 :=
  match x, y with
  | S754_nan, _ | _, S754_nan => S754_nan
  | S754_infinity _, S754_zero _ | S754_zero _, S754_infinity _ => S754_nan
  | S754_infinity sx, S754_infinity sy
  | S754_infinity sx, S754_finite sy _ _
  | S754_finite sx _ _, S754_infinity sy =>
      f32_add (S754_infinity (xorb sx sy)) z
  | S754_zero sx, S754_zero sy
  | S754_zero sx, S754_finite sy _ _
  | S754_finite sx _ _, S754_zero sy =>
      f32_add (S754_zero (xorb sx sy)) z
  | S754_finite sx mx ex, S754_finite sy my ey =>
      let sp := xorb sx sy in
      let mp := (mx * my)%positive in
      let ep := ex + ey in
      match z with
      | S754_nan => S754_nan
      | S754_infinity _ => z
      | S754_zero _ => binary_round_aux fprec femax sp (Zpos mp) ep loc_Exact
      | S754_finite sz mz ez =>
          let e := Z.min ep ez in
          binary_normalize fprec femax
            (cond_Zopp sp (Zpos (fst (shl_align mp ep e))) + cond_Zopp sz (Zpos (fst (shl_align mz ez e))))
            e false
      end
  end.

Definition f32_is0 (x : f32) : bool := match x with S754_zero _ => true | _ => false end.
Definition f32_one : f32 := S754_finite false 8388608 (-23).

Definition f32ops : kops f32 :=
  {| k0 := S754_zero false; kadd := f32_add; ksub := f32_sub; kmul := f32_mul;
     kopp := f32_opp; kfma := f32_fma |}.
Definition f32fin : kfin f32 :=
  {| k1 := f32_one; kdiv := f32_div; ksqrt := f32_sqrt; kis0 := f32_is0 |}.

(* ---------------------------------------------------------------- bit patterns *)
Definition f32_of_bits (w : Z) : f32 :=
  let s := Z.odd (w / 2 ^ 31) in
  let e := (w / 2 ^ 23) mod 256 in
  let m := w mod 2 ^ 23 in
  if e =? 0 then
    match m with Zpos p => S754_finite s p (-149) | _ => S754_zero s end
  else if e =? 255 then
    (if m =? 0 then S754_infinity s else S754_nan)
  else
    match m + 2 ^ 23 with Zpos p => S754_finite s p (e - 150) | _ => S754_nan end.

Definition sign_bit (s : bool) : Z := if s then 2 ^ 31 else 0.

(* canonical quiet NaN for every NaN (payloads are not compared) *)
Definition f32_nan_bits : Z := 2143289344.       (* 0x7FC00000 *)

Definition bits_of_f32 (x : f32) : Z :=
  match x with
  | S754_zero s => sign_bit s
  | S754_infinity s => sign_bit s + 255 * 2 ^ 23
  | S754_nan => f32_nan_bits
  | S754_finite s m e =>
      if Zpos m <? 2 ^ 23 then sign_bit s + Zpos m                       (* subnormal, e = -149 *)
      else sign_bit s + (e + 150) * 2 ^ 23 + (Zpos m - 2 ^ 23)
  end.

Definition bits_is_nan (w : Z) : bool :=
  ((w / 2 ^ 23) mod 256 =? 255) && negb (w mod 2 ^ 23 =? 0).

(* a result pattern as observed, with every NaN mapped to the canonical one *)
Definition canon_bits (w : Z) : Z := if bits_is_nan w then f32_nan_bits else w.

(* `i as f32` for a small integer (exact below 2^24) *)
Definition f32_of_int (i : Z) : f32 :=
  match i with
  | Z0 => S754_zero false
  | Zpos p => binary_round fprec femax false p 0
  | Zneg p => binary_round fprec femax true p 0
  end.

(* the exact value of a finite pattern as (numerator, k) meaning numerator / 2^k ; k = 149 always *)
Definition f32_scaled (x : f32) : option Z :=
  match x with
  | S754_zero _ => Some 0
  | S754_finite s m e => Some (cond_Zopp s (Zpos m * 2 ^ (e + 149)))
  | _ => None
  end.
