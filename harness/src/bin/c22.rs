//! C22 "no input makes the library panic, abort or hang".
//!
//! Three kinds of cases (one replay line each):
//!   lex <hex of the UTF-8 text>            real `Lexer` token stream, spans, final line/column
//!                                          -> compared with Model/Lexer.v inside Coq
//!   lit <fn> <hex of the UTF-8 text>       the literal parsers of src/parsing/literal.rs
//!                                          -> compared with Model/Literal.v inside Coq
//!   api <op> ~ <op> ~ ...                  a sequence of public-API calls on a freshly created, seeded database,
//!                                          run in a CHILD process (`c22 worker`) so that aborts
//!                                          (stack overflow) and hangs (5 s watchdog, re-checked
//!                                          alone with 20 s) are observed; exploration only, no model
//! Modes: gen (with --lines), search (oracle only: any panic / abort / timeout), worker (internal).
use std::io::{BufRead, BufReader, Write};
use std::process::{Child, Command, Stdio};
use std::sync::mpsc;
use std::time::{Duration, Instant};
use tvh::*;
use turdb::parsing::{parse_binary_blob, parse_date, parse_hex_blob, parse_interval, parse_time, parse_timestamp,
                     parse_uuid, parse_vector, LiteralParser, ParsedLiteral};
use turdb::sql::lexer::Lexer;
use turdb::sql::token::{Parameter, Token};
use turdb::{Database, OwnedValue};

// ====================================================================== lexer cases
fn off(base: &str, sl: &str) -> (usize, usize) {
    let a = sl.as_ptr() as usize - base.as_ptr() as usize;
    (a, a + sl.len())
}
fn err_code(m: &str) -> u32 {
    match m {
        "unexpected character" => 1,
        "invalid hex character in hex string literal" => 2,
        "unterminated hex string literal" => 3,
        "invalid hex number" => 4,
        "invalid binary number" => 5,
        "invalid octal number" => 6,
        "unterminated string" => 7,
        "unterminated quoted identifier" => 8,
        "unterminated backtick identifier" => 9,
        "unexpected end after $" => 10,
        "invalid positional parameter" => 11,
        "invalid dollar-quoted string tag" => 12,
        "invalid token after $" => 13,
        "unterminated dollar-quoted string" => 14,
        "unexpected end after @" => 15,
        "invalid @ parameter" => 16,
        "unterminated block comment" => 17,
        "expected '=' after '!'" => 18,
        _ => 99,
    }
}
/// Coq term of one token (constructor of Model/Lexer.v `tok`) and whether it is "interesting"
fn tok_term(s: &str, t: &Token) -> (String, bool) {
    let sl = |k: u32, x: &str| { let (a, b) = off(s, x); format!("TS {} {} {}", k, a, b) };
    let plain = |k: u32| format!("T {}", k);
    match t {
        Token::Keyword(_) => (plain(1), false),
        Token::Ident(x) => (sl(2, x), false),
        Token::QuotedIdent(x) => (sl(3, x), true),
        Token::String(x) => (sl(4, x), true),
        Token::Integer(x) => (sl(5, x), false),
        Token::Float(x) => (sl(6, x), true),
        Token::HexNumber(x) => (sl(7, x), true),
        Token::BinaryNumber(x) => (sl(8, x), true),
        Token::OctalNumber(x) => (sl(9, x), true),
        Token::Parameter(Parameter::Positional(n)) => (format!("TPos {}", n), true),
        Token::Parameter(Parameter::Named(x)) => (sl(10, x), true),
        Token::Parameter(Parameter::Anonymous) => (plain(11), true),
        Token::Plus => (plain(20), false), Token::Minus => (plain(21), false), Token::Star => (plain(22), false),
        Token::Slash => (plain(23), false), Token::Percent => (plain(24), false), Token::Caret => (plain(25), false),
        Token::Ampersand => (plain(26), false), Token::Pipe => (plain(27), false), Token::DoublePipe => (plain(28), false),
        Token::Tilde => (plain(29), false), Token::LeftShift => (plain(30), false), Token::RightShift => (plain(31), false),
        Token::Hash => (plain(32), false), Token::Eq => (plain(33), false), Token::NotEq => (plain(34), false),
        Token::Lt => (plain(35), false), Token::LtEq => (plain(36), false), Token::Gt => (plain(37), false),
        Token::GtEq => (plain(38), false), Token::Spaceship => (plain(39), true), Token::LtMinusGt => (plain(40), true),
        Token::LtHashGt => (plain(41), true), Token::Arrow => (plain(42), false), Token::DoubleArrow => (plain(43), false),
        Token::HashArrow => (plain(44), false), Token::HashDoubleArrow => (plain(45), false), Token::AtGt => (plain(46), false),
        Token::LtAt => (plain(47), false), Token::DoubleAmpersand => (plain(48), false), Token::Question => (plain(49), false),
        Token::QuestionPipe => (plain(50), false), Token::QuestionAmpersand => (plain(51), false),
        Token::LParen => (plain(52), false), Token::RParen => (plain(53), false), Token::LBracket => (plain(54), false),
        Token::RBracket => (plain(55), false), Token::LBrace => (plain(56), false), Token::RBrace => (plain(57), false),
        Token::Comma => (plain(58), false), Token::Semicolon => (plain(59), false), Token::Colon => (plain(60), false),
        Token::DoubleColon => (plain(61), false), Token::Dot => (plain(62), false), Token::DoubleDot => (plain(63), false),
        Token::Assign => (plain(64), false), Token::FatArrow => (plain(65), false),
        Token::Eof => (plain(0), false),
        Token::Error(m) => (format!("TErr {}", err_code(m)), true),
    }
}

enum LexOut { Ok(Vec<String>, u32, u32, bool), Panic(String), Hang }

/// the caller's loop: next_token until Eof; more than len+2 calls = no progress = hang
fn run_lex(text: &str) -> LexOut {
    let t2 = text.to_string();
    let r = catch(move || {
        let s = t2.as_str();
        let mut lx = Lexer::new(s);
        let mut toks = vec![];
        let mut interesting = false;
        let limit = s.len() + 2;
        for _ in 0..limit {
            let t = lx.next_token();
            let sp = lx.span();
            let (term, i) = tok_term(s, &t);
            interesting |= i;
            toks.push(format!("L ({}) {} {}", term, sp.start(), lx.position()));
            if matches!(t, Token::Eof) { return Some((toks, lx.line(), lx.column(), interesting)); }
        }
        None
    });
    match r {
        Caught::Done(Some((t, l, c, i))) => LexOut::Ok(t, l, c, i),
        Caught::Done(None) => LexOut::Hang,
        Caught::Panicked(m) => LexOut::Panic(m),
    }
}
fn lex_case(w: &mut CaseWriter, text: &str, kind: &str) -> bool {
    let out = run_lex(text);
    let has_comment = text.contains("--") || text.contains("/*");
    let (term, nontrivial, ok) = match out {
        LexOut::Ok(t, l, c, i) => (format!("LexOk {} {} {}", clist(&t), l, c), (i || has_comment || !text.is_ascii()) && t.len() >= 3, true),
        LexOut::Panic(_) => ("LexPanic".to_string(), true, false),
        LexOut::Hang => ("LexHang".to_string(), true, false),
    };
    w.push(format!("Lex {} ({})", cbytes(text.as_bytes()), term), format!("lex {}", hex(text.as_bytes())), nontrivial, kind);
    ok
}

// ====================================================================== literal cases
const LIT_FNS: [&str; 10] = ["hex", "bin", "time", "lp", "lpt", "uuid", "vector", "date", "timestamp", "interval"];
fn lit_code(f: &str) -> u32 { LIT_FNS.iter().position(|x| *x == f).map(|i| i as u32 + 1).unwrap_or(0) }

fn class_of(v: &OwnedValue) -> String {
    match v {
        OwnedValue::Text(s) => format!("LitClass (CText {})", cbytes(s.as_bytes())),
        OwnedValue::Vector(v) if v.is_empty() => "LitClass CEmptyVec".into(),
        _ => "LitClass COther".into(),
    }
}
/// returns (Coq term of the outcome, panicked?)
fn run_lit(f: &str, text: &str) -> (String, Option<String>) {
    let t2 = text.to_string();
    let f2 = f.to_string();
    let r = catch(move || {
        let s = t2.as_str();
        match f2.as_str() {
            "hex" => parse_hex_blob(s).map(|v| match v { OwnedValue::Blob(b) => format!("LitBytes {}", cbytes(&b)), _ => "LitOther".into() }),
            "bin" => parse_binary_blob(s).map(|v| match v { OwnedValue::Blob(b) => format!("LitBytes {}", cbytes(&b)), _ => "LitOther".into() }),
            "uuid" => parse_uuid(s).map(|v| match v { OwnedValue::Uuid(b) => format!("LitBytes {}", cbytes(&b)), _ => "LitOther".into() }),
            "time" => parse_time(s).map(|v| match v { OwnedValue::Time(t) => format!("LitNum {}", z(t)), _ => "LitOther".into() }),
            "vector" => parse_vector(s).map(|v| class_of(&v)),
            "lp" => LiteralParser::new().parse(s).map(|v| match v {
                ParsedLiteral::Null => "LitClass CNull".into(),
                ParsedLiteral::Bool(b) => format!("LitClass (CBool {})", cbool(b)),
                ParsedLiteral::Text(t) if t.len() + 2 == s.trim().len() => format!("LitClass (CText {})", cbytes(t.as_bytes())),
                _ => "LitClass COther".into(),
            }),
            "lpt" => LiteralParser::new().parse_typed(s, "text").map(|v| class_of(&v)),
            "date" => parse_date(s).map(|_| "LitOther".into()),
            "timestamp" => parse_timestamp(s).map(|_| "LitOther".into()),
            "interval" => parse_interval(s).map(|_| "LitOther".into()),
            _ => Ok("LitOther".to_string()),
        }.unwrap_or_else(|_| "LitErr".to_string())
    });
    match r {
        Caught::Done(t) => (t, None),
        Caught::Panicked(m) => ("LitPanic".into(), Some(m)),
    }
}
fn lit_case(w: &mut CaseWriter, f: &str, text: &str, kind: &str) -> bool {
    let (term, p) = run_lit(f, text);
    w.push(format!("Lit {} {} ({})", lit_code(f), cbytes(text.as_bytes()), term),
           format!("lit {} {}", f, hex(text.as_bytes())), !text.is_ascii() || text.len() >= 2, kind);
    p.is_none()
}

// ====================================================================== api ops: text form
fn esc(s: &str) -> String {
    let mut o = String::new();
    for c in s.chars() {
        match c { '\\' => o.push_str("\\\\"), '\n' => o.push_str("\\n"), '\r' => o.push_str("\\r"), '~' => o.push_str("\\t"), c => o.push(c) }
    }
    o
}
fn unesc(s: &str) -> String {
    let mut o = String::new();
    let mut it = s.chars();
    while let Some(c) = it.next() {
        if c == '\\' {
            match it.next() { Some('n') => o.push('\n'), Some('r') => o.push('\r'), Some('t') => o.push('~'), Some('\\') => o.push('\\'), Some(x) => { o.push('\\'); o.push(x); } None => o.push('\\') }
        } else { o.push(c); }
    }
    o
}
/// parameter list syntax: comma separated, one letter tag + payload (see `param_text`)
fn parse_param(p: &str) -> OwnedValue {
    let (tag, rest) = p.split_at(1.min(p.len()));
    let nums: Vec<&str> = rest.split(':').collect();
    let i = |k: usize| -> i128 { nums.get(k).and_then(|x| x.parse::<i128>().ok()).unwrap_or(0) };
    let f = |k: usize| -> f64 { f64::from_bits(nums.get(k).and_then(|x| u64::from_str_radix(x, 16).ok()).unwrap_or(0)) };
    match tag {
        "N" => OwnedValue::Null,
        "O" => OwnedValue::Bool(rest == "1"),
        "I" => OwnedValue::Int(i(0) as i64),
        "F" => OwnedValue::Float(f(0)),
        "T" => OwnedValue::Text(String::from_utf8_lossy(&unhex(rest)).into_owned()),
        "B" => OwnedValue::Blob(unhex(rest)),
        "V" => OwnedValue::Vector(nums.iter().filter(|x| !x.is_empty()).map(|x| f32::from_bits(u32::from_str_radix(x, 16).unwrap_or(0))).collect()),
        "D" => OwnedValue::Date(i(0) as i32),
        "M" => OwnedValue::Time(i(0) as i64),
        "S" => OwnedValue::Timestamp(i(0) as i64),
        "Z" => OwnedValue::TimestampTz(i(0) as i64, i(1) as i32),
        "U" => { let mut u = [0u8; 16]; for (k, b) in unhex(rest).iter().take(16).enumerate() { u[k] = *b; } OwnedValue::Uuid(u) }
        "L" => OwnedValue::Interval(i(0) as i64, i(1) as i32, i(2) as i32),
        "P" => OwnedValue::Point(f(0), f(1)),
        "J" => OwnedValue::Jsonb(unhex(rest)),
        "C" => OwnedValue::Decimal(i(0), i(1) as i16),
        "E" => OwnedValue::Enum(i(0) as u16, i(1) as u16),
        "X" => OwnedValue::ToastPointer(unhex(rest)),
        "A" => { let mut u = [0u8; 6]; for (k, b) in unhex(rest).iter().take(6).enumerate() { u[k] = *b; } OwnedValue::MacAddr(u) }
        _ => OwnedValue::Null,
    }
}
fn parse_params(s: &str) -> Vec<OwnedValue> {
    s.split(',').map(|x| x.trim()).filter(|x| !x.is_empty()).map(parse_param).collect()
}

// ====================================================================== worker (child process)
static PANIC_AT: std::sync::Mutex<Option<String>> = std::sync::Mutex::new(None);

const SETUP: [&str; 9] = [
    "CREATE TABLE t1 (id INT PRIMARY KEY, a INT, b TEXT, c FLOAT, d BLOB, tm TIME, dt DATE, ts TIMESTAMP, u UUID, bo BOOLEAN, iv INTERVAL, j JSONB)",
    "CREATE TABLE t2 (id INT PRIMARY KEY, x INT, y TEXT)",
    "CREATE TABLE t3 (k TEXT PRIMARY KEY, v VECTOR(3), n BIGINT)",
    "CREATE INDEX i1a ON t1 (a)",
    "INSERT INTO t1 (id, a, b, c, bo) VALUES (1, 10, 'one', 1.5, TRUE), (2, 20, 'two', -2.25, FALSE), (3, NULL, NULL, NULL, NULL), (4, -5, 'héllo wörld', 0.0, TRUE)",
    "INSERT INTO t1 (id, tm, dt, ts) VALUES (5, '12:34:56', '2024-02-29', '2024-02-29 12:34:56')",
    "INSERT INTO t2 (id, x, y) VALUES (1, 10, 'a'), (2, 20, 'b'), (3, 30, NULL)",
    "INSERT INTO t3 (k, v, n) VALUES ('p', '[1.0, 2.0, 3.0]', 4000000000), ('q', '[0.0, 0.0, 0.0]', -4000000000)",
    "INSERT INTO t1 (id, j) VALUES (6, '{\"a\": [1, 2, {\"b\": null}], \"c\": \"x\"}')",
];

/// compact form of the structured big inputs: `DQ <shape> <n>` stands for `Q <text of that shape and size>`
fn deep_text(shape: &str, n: usize) -> String {
    match shape {
        "parens" => format!("SELECT {}1{}", "(".repeat(n), ")".repeat(n)),
        "not" => format!("SELECT {}TRUE", "NOT ".repeat(n)),
        "neg" => format!("SELECT {}1", "- ".repeat(n)),
        "plus" => format!("SELECT 1{}", " + 1".repeat(n)),
        "concat" => format!("SELECT 'a'{}", " || 'a'".repeat(n)),
        "comments" => format!("SELECT {}1", "--c\n".repeat(n)),
        "bcomments" => format!("{}SELECT 1", "/**/".repeat(n)),
        "or" => format!("SELECT * FROM t2 WHERE {}", (0..n).map(|i| format!("x = {}", i)).collect::<Vec<_>>().join(" OR ")),
        "and" => format!("SELECT * FROM t2 WHERE {}", (0..n).map(|i| format!("x <> {}", i)).collect::<Vec<_>>().join(" AND ")),
        "case" => format!("SELECT {}1{}", "CASE WHEN TRUE THEN ".repeat(n), " END".repeat(n)),
        "subq" => format!("SELECT * FROM {}t2{}", "(SELECT * FROM ".repeat(n), ") AS s".repeat(n)),
        "scalarsubq" => format!("SELECT {}1{}", "(SELECT ".repeat(n), ")".repeat(n)),
        "inlist" => format!("SELECT * FROM t2 WHERE x IN ({})", (0..n).map(|i| i.to_string()).collect::<Vec<_>>().join(", ")),
        "cols" => format!("SELECT {} FROM t2", (0..n).map(|_| "x").collect::<Vec<_>>().join(", ")),
        "values" => format!("INSERT INTO t2 (id, x, y) VALUES {}", (0..n).map(|i| format!("({}, 1, 'v')", 1000 + i)).collect::<Vec<_>>().join(", ")),
        "func" => format!("SELECT {}1{}", "ABS(".repeat(n), ")".repeat(n)),
        "brackets" => format!("SELECT {}1{}", "[".repeat(n), "]".repeat(n)),
        "union" => format!("SELECT 1{}", " UNION ALL SELECT 1".repeat(n)),
        "joins" => format!("SELECT * FROM t2{}", (0..n).map(|i| format!(" JOIN t2 AS j{} ON j{}.id = t2.id", i, i)).collect::<String>()),
        "longstr" => format!("SELECT '{}'", "é".repeat(n)),
        "longident" => format!("SELECT {} FROM t2", "x".repeat(n)),
        "digits" => format!("SELECT {}", "9".repeat(n)),
        "jsonobj" => format!("INSERT INTO t1 (id, j) VALUES (300, '{}1{}')", "{\"a\":".repeat(n), "}".repeat(n)),
        "jsonarr" => format!("INSERT INTO t1 (id, j) VALUES (300, '{}1{}')", "[".repeat(n), "]".repeat(n)),
        _ => "SELECT 1".to_string(),
    }
}
const DEEP_SHAPES: [&str; 25] = ["parens", "not", "neg", "plus", "concat", "comments", "bcomments", "or", "and", "case", "subq", "scalarsubq", "inlist", "cols",
    "values", "func", "brackets", "union", "joins", "longstr", "longident", "digits", "jsonobj", "jsonarr", "other"];
fn expand_op(op: &str) -> String {
    if let Some(r) = op.strip_prefix("DQ ") {
        let mut it = r.split(' ');
        let shape = it.next().unwrap_or("");
        let n: usize = it.next().and_then(|x| x.parse().ok()).unwrap_or(1);
        let text = deep_text(shape, n.min(2_000_000));
        return format!("{} {}", if text.starts_with("INSERT") { "E" } else { "Q" }, text);
    }
    op.to_string()
}

/// run one api case (already unescaped ops) on a freshly created and seeded database.
/// Returns (calls that returned Ok, calls that returned Err).
fn run_api_ops(dir: &std::path::Path, ops: &[String]) -> (u32, u32) {
    let mut ok = 0u32;
    let mut er = 0u32;
    let mut db: Option<Database> = Database::create(dir).ok();
    if let Some(d) = &db { for s in SETUP { d.execute(s).unwrap_or_else(|e| panic!("setup statement failed: {} : {}", s, e)); } }
    let mut tally = |r: bool| { if r { ok += 1 } else { er += 1 } };
    for op in ops {
        let op = &expand_op(op);
        let (code, rest) = match op.find(' ') { Some(i) => (&op[..i], &op[i + 1..]), None => (op.as_str(), "") };
        if code == "R" {
            db = None;
            db = Database::open(dir).ok();
            tally(db.is_some());
            continue;
        }
        let d = match &db { Some(d) => d, None => { tally(false); continue; } };
        match code {
            "E" => tally(d.execute(rest).is_ok()),
            "Q" => tally(d.query(rest).is_ok()),
            "QC" => tally(d.query_with_columns(rest).is_ok()),
            "P" => tally(d.prepare(rest).map(|p| { let _ = p.param_count(); }).is_ok()),
            "X" | "PB" | "PQ" => {
                let (ps, sql) = match rest.find(" | ") { Some(i) => (&rest[..i], &rest[i + 3..]), None => ("", rest) };
                let params = parse_params(ps);
                match code {
                    "X" => tally(d.execute_with_params(sql, &params).is_ok()),
                    _ => match d.prepare(sql) {
                        Ok(p) => {
                            if params.is_empty() {
                                tally(d.execute_with_params(p.sql(), &[]).is_ok());
                            } else {
                                let mut it = params.into_iter();
                                let mut b = p.bind(it.next().unwrap());
                                for v in it { b = b.bind(v); }
                                if code == "PB" { tally(b.execute(d).is_ok()) } else { tally(b.query(d).is_ok()) }
                            }
                        }
                        Err(_) => tally(false),
                    },
                }
            }
            "K" => tally(d.checkpoint().is_ok()),
            "C" => tally(d.close().is_ok()),
            _ => tally(false),
        }
    }
    drop(db);
    (ok, er)
}

fn worker_main(a: &Args) {
    std::panic::set_hook(Box::new(|info| {
        let loc = info.location().map(|l| format!("{}:{}:{}", l.file(), l.line(), l.column())).unwrap_or_else(|| "?".into());
        let p = info.payload();
        let msg = if let Some(s) = p.downcast_ref::<&str>() { s.to_string() } else if let Some(s) = p.downcast_ref::<String>() { s.clone() } else { "panic".into() };
        let mut g = PANIC_AT.lock().unwrap_or_else(|e| e.into_inner());
        if g.is_none() { *g = Some(format!("{} | {}", loc, msg.replace('\n', " "))); }
    }));
    let base = a.out.clone();
    let stdin = std::io::stdin();
    let stdout = std::io::stdout();
    println!("READY");
    let _ = stdout.lock().flush();
    let mut n = 0u64;
    for line in stdin.lock().lines() {
        let line = match line { Ok(l) => l, Err(_) => break };
        let ops: Vec<String> = line.split(" ~ ").map(unesc).collect();
        n += 1;
        let dir = base.join(format!("db{}", n));
        let _ = std::fs::remove_dir_all(&dir);
        let d2 = dir.clone();
        let r = std::panic::catch_unwind(std::panic::AssertUnwindSafe(|| run_api_ops(&d2, &ops)));
        let _ = std::fs::remove_dir_all(&dir);
        match r {
            Ok((ok, er)) => { println!("R ok {} {}", ok, er); let _ = stdout.lock().flush(); }
            Err(_) => {
                let at = PANIC_AT.lock().unwrap_or_else(|e| e.into_inner()).take().unwrap_or_else(|| "? | panic".into());
                println!("R panic {}", at);
                let _ = stdout.lock().flush();
                return; // state after a panic is not trusted: the parent starts a new worker
            }
        }
    }
}

// ====================================================================== parent side of the worker
#[derive(Clone, Debug, PartialEq)]
enum ApiOut { Ok(u32, u32), Panic(String), Timeout, Abort }

struct Worker { child: Child, rx: mpsc::Receiver<String>, dir: std::path::PathBuf }

fn tmp_base() -> std::path::PathBuf {
    let shm = std::path::Path::new("/dev/shm");
    if shm.is_dir() { shm.to_path_buf() } else { std::path::PathBuf::from("/verif/build/tmp") }
}
impl Worker {
    fn spawn(tag: &str) -> Worker {
        let dir = tmp_base().join(format!("c22-{}-{}", std::process::id(), tag));
        let _ = std::fs::remove_dir_all(&dir);
        std::fs::create_dir_all(&dir).expect("worker dir");
        let exe = std::env::current_exe().expect("exe");
        // the child gets an address-space limit: a runaway allocation must end as an abort of the child,
        // not as memory pressure on the machine
        let mut child = Command::new("sh").arg("-c").arg("ulimit -v 3000000; exec \"$0\" worker --out \"$1\"").arg(exe).arg(&dir)
            .stdin(Stdio::piped()).stdout(Stdio::piped()).stderr(Stdio::null()).spawn().expect("spawn worker");
        let out = child.stdout.take().unwrap();
        let (tx, rx) = mpsc::channel();
        std::thread::spawn(move || { for l in BufReader::new(out).lines() { match l { Ok(l) => { if tx.send(l).is_err() { break; } } Err(_) => break } } });
        let w = Worker { child, rx, dir };
        match w.rx.recv_timeout(Duration::from_secs(120)) { Ok(l) if l == "READY" => {}, other => panic!("worker did not start: {:?}", other) }
        w
    }
    fn run(&mut self, line: &str, timeout: Duration) -> ApiOut {
        let sin = self.child.stdin.as_mut().unwrap();
        if writeln!(sin, "{}", line).and_then(|_| sin.flush()).is_err() { return ApiOut::Abort; }
        match self.rx.recv_timeout(timeout) {
            Ok(l) => {
                if let Some(r) = l.strip_prefix("R ok ") {
                    let mut it = r.split(' ');
                    ApiOut::Ok(it.next().and_then(|x| x.parse().ok()).unwrap_or(0), it.next().and_then(|x| x.parse().ok()).unwrap_or(0))
                } else if let Some(r) = l.strip_prefix("R panic ") { ApiOut::Panic(r.to_string()) } else { ApiOut::Abort }
            }
            Err(mpsc::RecvTimeoutError::Timeout) => ApiOut::Timeout,
            Err(mpsc::RecvTimeoutError::Disconnected) => ApiOut::Abort,
        }
    }
    fn kill(mut self) {
        let _ = self.child.kill();
        let _ = self.child.wait();
        let _ = std::fs::remove_dir_all(&self.dir);
    }
}

/// run api lines on `nw` parallel workers; results in input order
fn run_api_lines(lines: &[String], nw: usize) -> Vec<ApiOut> {
    let n = lines.len();
    let mut results: Vec<Option<ApiOut>> = vec![None; n];
    let chunks: Vec<Vec<usize>> = (0..nw).map(|k| (0..n).filter(|i| i % nw == k).collect()).collect();
    let outs: Vec<Vec<(usize, ApiOut)>> = std::thread::scope(|sc| {
        let hs: Vec<_> = chunks.iter().enumerate().map(|(k, idxs)| {
            let lines = &lines;
            sc.spawn(move || {
                let mut res = vec![];
                if idxs.is_empty() { return res; }
                let mut gen = 0;
                let mut w = Worker::spawn(&format!("{}-{}", k, gen));
                for &i in idxs {
                    let mut o = w.run(&lines[i], Duration::from_secs(5));
                    if o == ApiOut::Timeout {
                        // re-check alone, generous limit: machine load must not look like a hang
                        w.kill(); gen += 1; w = Worker::spawn(&format!("{}-{}", k, gen));
                        o = w.run(&lines[i], Duration::from_secs(20));
                    }
                    if !matches!(o, ApiOut::Ok(..)) { w.kill(); gen += 1; w = Worker::spawn(&format!("{}-{}", k, gen)); }
                    res.push((i, o));
                }
                w.kill();
                res
            })
        }).collect();
        hs.into_iter().map(|h| h.join().expect("worker thread")).collect()
    });
    for v in outs { for (i, o) in v { results[i] = Some(o); } }
    results.into_iter().map(|o| o.unwrap_or(ApiOut::Abort)).collect()
}

// ---------------------------------------------------------------- classification of an api case
/// source file of a panic location -> small code (0 = other / outside src)
fn file_code(loc: &str) -> u32 {
    let f = loc.split(':').next().unwrap_or("");
    let f = f.trim_start_matches("/repo/");
    const FILES: [&str; 24] = [
        "src/parsing/literal.rs", "src/sql/lexer.rs", "src/sql/parser.rs", "src/sql/executor.rs", "src/sql/predicate.rs",
        "src/database/database.rs", "src/parsing/json.rs", "src/sql/planner/mod.rs", "src/sql/functions/string.rs",
        "src/sql/functions/numeric.rs", "src/sql/functions/datetime.rs", "src/sql/functions/system.rs", "src/database/prepared.rs",
        "src/database/convert.rs", "src/database/pragma.rs", "src/database/ddl.rs", "src/types/owned_value.rs",
        "src/sql/builder.rs", "src/sql/expr.rs", "src/sql/util.rs", "src/sql/state.rs", "src/database/transaction.rs",
        "src/database/lifecycle.rs", "src/sql/row_serde.rs",
    ];
    if let Some(i) = FILES.iter().position(|x| *x == f) { return i as u32 + 1; }
    if f.starts_with("src/database/dml") { return 40; }
    if f.starts_with("src/database/query") { return 41; }
    if f.starts_with("src/sql/planner") { return 42; }
    if f.starts_with("src/sql/optimizer") { return 43; }
    if f.starts_with("src/sql/subquery") { return 44; }
    if f.starts_with("src/records") { return 45; }
    if f.starts_with("src/encoding") { return 46; }
    if f.starts_with("src/btree") { return 47; }
    if f.starts_with("src/storage") { return 48; }
    if f.starts_with("src/schema") { return 49; }
    if f.starts_with("src/constraints") { return 50; }
    if f.starts_with("src/types") { return 51; }
    if f.starts_with("src/") { return 60; }
    0
}
/// panic message -> class: 1 char boundary, 2 slice begin > end / out of range of str, 3 arithmetic overflow,
/// 4 index out of bounds, 5 unwrap on None / Err, 6 division by zero, 7 capacity / allocation, 8 RefCell / lock, 9 explicit, 0 other
fn msg_class(m: &str) -> u32 {
    if m.contains("is not a char boundary") { 1 }
    else if m.contains("when slicing") || (m.contains("out of bounds of") && m.contains("byte index")) || m.contains("out of range for string") { 2 }
    else if m.contains("with overflow") { 3 }
    else if m.contains("index out of bounds") || m.contains("out of range for slice") || m.contains("slice index starts at") { 4 }
    else if m.contains("called `Option::unwrap()`") || m.contains("called `Result::unwrap()`") || m.contains("unwrap_err") { 5 }
    else if m.contains("divide by zero") || m.contains("remainder with a divisor of zero") { 6 }
    else if m.contains("capacity overflow") || m.contains("allocation") { 7 }
    else if m.contains("already borrowed") || m.contains("already mutably borrowed") { 8 }
    else if m.contains("unreachable") || m.contains("not implemented") || m.contains("not yet implemented") || m.contains("explicit panic") { 9 }
    else { 0 }
}
/// features of a case (see Corr/C22.v `Api`): [f0 max bracket / prefix-keyword nesting, f1 longest run of consecutive
/// comments, f2 non-ASCII inside a quoted string or text parameter, f3 chain length (binary-operator characters and
/// AND/OR/UNION/JOIN keywords outside strings), f4 Decimal parameter with scale >= 39 or < 0, f5 INSERT / UPDATE present,
/// f6 function mask (1 LPAD/RPAD/REPEAT/SPACE, 2 DATE_FORMAT/TIME_FORMAT/STRFTIME, 4 FORMAT), f7 a string literal that is exactly '"',
/// f8 a LIMIT / OFFSET literal >= 2^63]
fn features(ops: &[String]) -> Vec<u64> {
    let (mut nest, mut run, mut nonascii, mut chain, mut dec, mut wr, mut fmask, mut jq, mut biglim) = (0u64, 0u64, 0u64, 0u64, 0u64, 0u64, 0u64, 0u64, 0u64);
    for op in ops {
        let op = &expand_op(op);
        let code = op.split(' ').next().unwrap_or("");
        let mut sql: &str = op.get(code.len()..).unwrap_or("");
        if code == "X" || code == "PB" || code == "PQ" {
            if let Some(i) = sql.find(" | ") {
                for p in sql[..i].split(',').map(|x| x.trim()) {
                    if let Some(r) = p.strip_prefix('C') { let sc = r.split(':').nth(1).and_then(|x| x.parse::<i64>().ok()).unwrap_or(0); if sc >= 39 || sc < 0 { dec = 1; } }
                    if let Some(r) = p.strip_prefix('T') { if unhex(r).iter().any(|b| *b >= 128) { nonascii = 1; } }
                }
                sql = &sql[i + 3..];
            }
        }
        let b = sql.as_bytes();
        let (mut d, mut i, mut r, mut opsn) = (0u64, 0usize, 0u64, 0u64);
        while i < b.len() {
            let c = b[i];
            if c == b'\'' { // string literal
                let st = i + 1;
                i += 1;
                let mut jd = 0u64;
                while i < b.len() { if b[i] == b'\'' { if i + 1 < b.len() && b[i + 1] == b'\'' { i += 1; } else { break; } } else if b[i] >= 128 { nonascii = 1; }
                    else if b[i] == b'{' || b[i] == b'[' { jd += 1; nest = nest.max(jd); } else if b[i] == b'}' || b[i] == b']' { jd = jd.saturating_sub(1); }
                    i += 1; }
                if i == st + 1 && b.get(st) == Some(&b'"') { jq = 1; }
                r = 0;
            } else if c == b'-' && i + 1 < b.len() && b[i + 1] == b'-' {
                while i < b.len() && b[i] != b'\n' { i += 1; }
                r += 1; run = run.max(r); continue;
            } else if c == b'/' && i + 1 < b.len() && b[i + 1] == b'*' {
                let mut dd = 1; i += 2;
                while i < b.len() && dd > 0 { if b[i] == b'/' && i + 1 < b.len() && b[i + 1] == b'*' { dd += 1; i += 1; } else if b[i] == b'*' && i + 1 < b.len() && b[i + 1] == b'/' { dd -= 1; i += 1; } i += 1; }
                r += 1; run = run.max(r); continue;
            } else if c == b'(' || c == b'[' { d += 1; nest = nest.max(d); r = 0; }
            else if c == b')' || c == b']' { d = d.saturating_sub(1); r = 0; }
            else if !(c == b' ' || c == b'\n' || c == b'\t' || c == b'\r') {
                r = 0;
                if b"+-*/%|&<>=".contains(&c) { opsn += 1; }
            }
            i += 1;
        }
        let up = sql.to_ascii_uppercase();
        let kw = up.matches("NOT ").count().max(up.matches("CASE ").count()).max(up.matches("SELECT ").count()) as u64;
        nest = nest.max(kw);
        opsn += (up.matches(" AND ").count() + up.matches(" OR ").count() + up.matches(" UNION ").count() + up.matches(" JOIN ").count()) as u64;
        chain = chain.max(opsn);
        if up.contains("INSERT") || up.contains("UPDATE") { wr = 1; }
        if up.contains("LPAD") || up.contains("RPAD") || up.contains("REPEAT") || up.contains("SPACE") { fmask |= 1; }
        if up.contains("DATE_FORMAT") || up.contains("TIME_FORMAT") || up.contains("STRFTIME") { fmask |= 2; }
        if up.contains("FORMAT(") && !up.contains("_FORMAT(") || up.contains(" FORMAT(") { fmask |= 4; }
        for kw in ["LIMIT ", "OFFSET "] { for (i, _) in up.match_indices(kw) { let d: String = up[i + kw.len()..].chars().take_while(|c| c.is_ascii_digit()).collect(); if d.len() >= 19 && d.parse::<u128>().map(|v| v >= (1u128 << 63)).unwrap_or(true) { biglim = 1; } } }
    }
    vec![nest, run, nonascii, chain, dec, wr, fmask, jq, biglim]
}
fn api_term(kind_code: u32, ops: &[String], o: &ApiOut) -> String {
    let f: Vec<String> = features(ops).iter().map(|x| x.to_string()).collect();
    let ot = match o {
        ApiOut::Ok(a, b) => format!("AOk {} {}", a, b),
        ApiOut::Panic(m) => { let mut it = m.splitn(2, " | "); let loc = it.next().unwrap_or(""); let msg = it.next().unwrap_or(""); format!("APanic {} {}", file_code(loc), msg_class(msg)) }
        ApiOut::Timeout => "ATimeout".into(),
        ApiOut::Abort => "AAbort".into(),
    };
    format!("Api {} {} ({})", kind_code, clist(&f), ot)
}
fn kind_code(kind: &str) -> u32 {
    match kind { "api_bytes" => 1, "api_valid" => 2, "api_nearvalid" => 3, "api_params" => 4, "api_pragma" => 5, "api_sequence" => 6, "api_deep" => 7, "api_literal" => 8, "api_function" => 9, _ => 0 }
}

// ====================================================================== generators
const WORDS: [&str; 64] = ["SELECT", "FROM", "WHERE", "INSERT", "INTO", "VALUES", "UPDATE", "SET", "DELETE", "CREATE", "TABLE", "INDEX",
    "DROP", "ALTER", "ADD", "COLUMN", "AND", "OR", "NOT", "NULL", "IS", "IN", "LIKE", "BETWEEN", "CASE", "WHEN", "THEN", "ELSE", "END",
    "GROUP", "BY", "ORDER", "HAVING", "LIMIT", "OFFSET", "JOIN", "LEFT", "ON", "AS", "DISTINCT", "UNION", "ALL", "EXISTS", "PRAGMA",
    "BEGIN", "COMMIT", "ROLLBACK", "SAVEPOINT", "t1", "t2", "t3", "id", "a", "b", "c", "x", "y", "select", "Xy_9", "_u", "x", "X", "e1", "nUlL"];
const LEXEMES: [&str; 96] = ["'abc'", "'it''s'", "''", "'", "'unterminated", "'é€𝄞'", "\"q\"", "\"a\"\"b\"", "\"", "`bt`", "``", "`",
    "x'0aFF'", "X'zz'", "x'ab", "x''", "0", "7", "123", "00123", "1.5", "1.", ".5", "1..2", "1e10", "1E+5", "2e-3", "1e", "1e+", ".5e3", "1.e2",
    "0x1F", "0X", "0xg", "0b101", "0b2", "0B", "0o17", "0o8", "0O", "4294967295", "99999999999999999999",
    "$1", "$0", "$4294967295", "$4294967296", "$99999999999999999999", "$$body$$", "$$", "$$unterminated", "$tag$x$tag$", "$tag$x$tagg$", "$tag", "$t$a$$t$", "$", "$é",
    ":name", ":_n1", ":", "::", ":=", ":9", "@p", "@>", "@", "@1", "?", "?|", "?&", "??",
    "--c\n", "-- c", "--", "-", "->", "->>", "/*c*/", "/* a /* b */ c */", "/*", "/* /* */", "/**/", "/",
    "<", "<=", "<=>", "<>", "<<", "<@", "<->", "<-", "<#>", "<#", ">=", ">>", "!=", "!"];
const PUNCT: [&str; 24] = ["+", "*", "%", "^", "&", "&&", "|", "||", "~", "#", "#>", "#>>", "=", "=>", "(", ")", "[", "]", "{", "}", ",", ";", ".", ".."];
const ODD_CHARS: [&str; 16] = ["é", "€", "𝄞", "\u{85}", "\u{a0}", "\u{2028}", "\u{3000}", "\u{feff}", "\0", "\u{7f}", "\\", "\t", "\r\n", "\n", " ", "ß"];

fn pk<'b>(rng: &mut Rng, xs: &[&'b str]) -> &'b str { xs[rng.below(xs.len() as u64) as usize] }

fn gen_soup(rng: &mut Rng) -> String {
    let n = 1 + rng.below(10) as usize;
    let mut s = String::new();
    for _ in 0..n {
        match rng.below(10) {
            0..=2 => s.push_str(pk(rng, &WORDS)),
            3..=6 => s.push_str(pk(rng, &LEXEMES)),
            7 => s.push_str(pk(rng, &PUNCT)),
            8 => s.push_str(pk(rng, &ODD_CHARS)),
            _ => { let v = rng.below(1000); s.push_str(&v.to_string()); }
        }
        match rng.below(6) { 0 | 1 | 2 => s.push(' '), 3 => s.push('\n'), 4 => {}, _ => s.push_str(pk(rng, &["  ", "\t", "\r\n", ""])) }
    }
    s
}
fn gen_chars(rng: &mut Rng) -> String {
    const AL: [&str; 40] = ["'", "\"", "`", "$", ":", "@", "?", "-", "/", "*", "<", ">", "=", "!", "#", ".", "0", "1", "9", "x", "X", "e", "E", "+", "b", "o", "_", "a", "Z",
        "\n", " ", "é", "€", "𝄞", "(", ")", ",", ";", "|", "&"];
    let n = rng.below(14) as usize;
    (0..n).map(|_| *rng.pick(&AL)).collect()
}
fn gen_random_text(rng: &mut Rng) -> String {
    let n = rng.below(24) as usize;
    let b = rng.bytes(n);
    if rng.chance(1, 2) { String::from_utf8_lossy(&b).into_owned() } else { b.iter().map(|x| (x % 128) as char).collect() }
}
/// delete / duplicate / swap / replace one character (near-valid text)
fn mutate_text(rng: &mut Rng, s: &str) -> String {
    let mut cs: Vec<char> = s.chars().collect();
    if cs.is_empty() { return rng.pick(&LEXEMES).to_string(); }
    let i = rng.below(cs.len() as u64) as usize;
    match rng.below(5) {
        0 => { cs.remove(i); }
        1 => { let c = cs[i]; cs.insert(i, c); }
        2 => { let j = rng.below(cs.len() as u64) as usize; cs.swap(i, j); }
        3 => { let r: Vec<char> = rng.pick(&ODD_CHARS).chars().collect(); cs[i] = r[0]; }
        _ => { cs.truncate(i); }
    }
    cs.into_iter().collect()
}

// ---- SQL grammar
struct Sql<'a> { rng: &'a mut Rng }
const FUNCS: [&str; 86] = ["ABS", "ACOS", "ASCII", "ASIN", "ATAN", "ATAN2", "BIN", "CEIL", "CHAR_LENGTH", "COALESCE", "CONCAT", "CONCAT_WS", "CONV", "COS", "COT",
    "DATE", "DATEDIFF", "DATE_ADD", "DATE_FORMAT", "DAY", "DAYNAME", "DAYOFWEEK", "DAYOFYEAR", "DEGREES", "EXP", "FIELD", "FIND_IN_SET", "FLOOR", "FORMAT",
    "FROM_DAYS", "GREATEST", "HOUR", "IF", "IFNULL", "INSERT", "INSTR", "LAST_DAY", "LCASE", "LEAST", "LEFT", "LENGTH", "LN", "LOCATE", "LOG", "LOG10", "LOG2",
    "LOWER", "LPAD", "LTRIM", "MAKEDATE", "MAKETIME", "MID", "MINUTE", "MOD", "MONTH", "MONTHNAME", "NULLIF", "OCTET_LENGTH", "PERIOD_ADD", "PERIOD_DIFF",
    "POSITION", "POW", "QUARTER", "RADIANS", "REPEAT", "REPLACE", "REVERSE", "RIGHT", "ROUND", "RPAD", "RTRIM", "SECOND", "SEC_TO_TIME", "SIGN", "SIN",
    "SPACE", "SQRT", "STRCMP", "SUBSTR", "SUBSTRING_INDEX", "TIME_TO_SEC", "TO_DAYS", "TRIM", "TRUNCATE", "UPPER", "WEEK"];
const AGGS: [&str; 6] = ["COUNT", "SUM", "AVG", "MIN", "MAX", "TOTAL"];
const STRS: [&str; 20] = ["'abc'", "''", "'héllo'", "'€'", "'a,b,c'", "'2024-02-29'", "'12:34:56'", "'2024-02-29 12:34:56'", "'%a_'", "'0'", "'-1'", "' x '",
    "'𝄞𝄞'", "'1e5'", "'it''s'", "'12:00:00.5'", "'550e8400-e29b-41d4-a716-446655440000'", "'[1,2,3]'", "'{\"a\":1}'", "'1 day'"];
// moderate integers only: overflow of SQL integer arithmetic is C20's subject, not explored here
const INTS: [&str; 14] = ["0", "1", "-1", "2", "3", "7", "10", "100", "255", "256", "1000", "-7", "12", "31"];
impl<'a> Sql<'a> {
    fn col(&mut self) -> String { self.rng.pick(&["id", "a", "b", "c", "x", "y", "t1.a", "t2.x", "bo", "tm", "dt", "n", "k", "nosuch"]).to_string() }
    fn lit(&mut self) -> String {
        match self.rng.below(10) {
            0..=3 => self.rng.pick(&INTS).to_string(),
            4..=6 => self.rng.pick(&STRS).to_string(),
            7 => self.rng.pick(&["1.5", "-0.0", "1e10", ".5", "3.14159", "1e-7"]).to_string(),
            8 => self.rng.pick(&["NULL", "TRUE", "FALSE"]).to_string(),
            _ => self.rng.pick(&["x'00ff'", "0x10", "0b11", "?", "$1", ":p"]).to_string(),
        }
    }
    fn expr(&mut self, d: u32) -> String {
        if d == 0 { return if self.rng.chance(1, 2) { self.col() } else { self.lit() }; }
        match self.rng.below(16) {
            0 | 1 => self.col(),
            2 | 3 => self.lit(),
            4 | 5 => { let op = self.rng.pick(&["+", "-", "*", "/", "%", "||", "=", "<>", "<", "<=", ">", ">=", "AND", "OR", "&", "|"]).to_string(); format!("{} {} {}", self.expr(d - 1), op, self.expr(d - 1)) }
            6 => format!("({})", self.expr(d - 1)),
            7 => { let f = self.rng.pick(&FUNCS).to_string(); let n = self.rng.below(4); let args: Vec<String> = (0..n).map(|_| self.expr(d - 1)).collect(); format!("{}({})", f, args.join(", ")) }
            8 => format!("{} {}", self.rng.pick(&["NOT", "-", "+", "~"]).to_string(), self.expr(d - 1)),
            9 => format!("{} IS {}NULL", self.expr(d - 1), if self.rng.chance(1, 2) { "NOT " } else { "" }),
            10 => format!("{} {}IN ({}, {})", self.expr(d - 1), if self.rng.chance(1, 3) { "NOT " } else { "" }, self.lit(), self.lit()),
            11 => format!("{} BETWEEN {} AND {}", self.expr(d - 1), self.lit(), self.lit()),
            12 => format!("{} LIKE {}", self.expr(d - 1), self.rng.pick(&STRS).to_string()),
            13 => format!("CASE WHEN {} THEN {} ELSE {} END", self.expr(d - 1), self.expr(d - 1), self.expr(d - 1)),
            14 => format!("CAST({} AS {})", self.expr(d - 1), self.rng.pick(&["INT", "TEXT", "FLOAT", "BOOLEAN", "DATE", "BLOB", "BIGINT"]).to_string()),
            _ => format!("(SELECT {} FROM {} LIMIT 1)", self.rng.pick(&["x", "y", "MAX(x)", "COUNT(*)", "id"]).to_string(), self.rng.pick(&["t2", "t1"]).to_string()),
        }
    }
    fn select(&mut self, d: u32) -> String {
        let mut s = String::from("SELECT ");
        if self.rng.chance(1, 6) { s.push_str("DISTINCT "); }
        let n = 1 + self.rng.below(3);
        let items: Vec<String> = (0..n).map(|_| match self.rng.below(6) {
            0 => "*".to_string(),
            1 => { let a = self.rng.pick(&AGGS).to_string(); format!("{}({})", a, if self.rng.chance(1, 3) { "*".to_string() } else { self.col() }) }
            _ => { let e = self.expr(d); if self.rng.chance(1, 4) { format!("{} AS al", e) } else { e } }
        }).collect();
        s.push_str(&items.join(", "));
        if self.rng.chance(9, 10) {
            s.push_str(" FROM ");
            s.push_str(pk(self.rng, &["t1", "t2", "t3", "t1, t2", "t1 JOIN t2 ON t1.id = t2.id", "t1 LEFT JOIN t2 ON t1.a = t2.x", "t1 AS p CROSS JOIN t2 AS q", "(SELECT * FROM t2) AS s", "nosuch"]));
            if self.rng.chance(2, 3) { s.push_str(" WHERE "); s.push_str(&self.expr(d)); }
            if self.rng.chance(1, 5) { s.push_str(" GROUP BY "); s.push_str(&self.col()); if self.rng.chance(1, 2) { s.push_str(" HAVING "); s.push_str(&self.expr(1)); } }
            if self.rng.chance(1, 3) { s.push_str(" ORDER BY "); s.push_str(&self.expr(1)); s.push_str(pk(self.rng, &["", " ASC", " DESC", " DESC NULLS FIRST"])); }
            if self.rng.chance(1, 3) { s.push_str(" LIMIT "); s.push_str(pk(self.rng, &["0", "1", "2", "100", "-1", "9223372036854775807", "18446744073709551616", "?", "1.5"])); if self.rng.chance(1, 2) { s.push_str(" OFFSET "); s.push_str(pk(self.rng, &["0", "1", "5", "-1", "9223372036854775807"])); } }
        }
        if d > 0 && self.rng.chance(1, 12) { let op = self.rng.pick(&["UNION", "UNION ALL", "INTERSECT", "EXCEPT"]).to_string(); s = format!("{} {} {}", s, op, self.select(0)); }
        s
    }
    fn stmt(&mut self) -> String {
        match self.rng.below(24) {
            0..=8 => self.select(2),
            9 | 10 => { let id = 100 + self.rng.below(50); format!("INSERT INTO t1 (id, a, b, c) VALUES ({}, {}, {}, {})", id, self.expr(1), self.expr(1), self.expr(1)) }
            11 => format!("INSERT INTO t2 VALUES ({}, {}, {})", self.lit(), self.lit(), self.lit()),
            12 | 13 => format!("UPDATE {} SET {} = {} WHERE {}", self.rng.pick(&["t1", "t2"]).to_string(), self.rng.pick(&["a", "b", "x", "y", "c", "id"]).to_string(), self.expr(2), self.expr(2)),
            14 => format!("DELETE FROM {} WHERE {}", self.rng.pick(&["t1", "t2", "t3"]).to_string(), self.expr(2)),
            15 => format!("CREATE TABLE n{} (id INT PRIMARY KEY, v {} {})", self.rng.below(3), self.rng.pick(&["INT", "TEXT", "VARCHAR(10)", "FLOAT", "DECIMAL(10,2)", "VECTOR(4)", "BLOB", "UUID", "JSONB", "TIMESTAMP", "BOOLEAN", "INTERVAL", "CHAR(0)", "VARCHAR(4294967296)"]).to_string(), self.rng.pick(&["", "NOT NULL", "DEFAULT 0", "DEFAULT 'x'", "UNIQUE", "CHECK (v > 0)", "DEFAULT CURRENT_TIMESTAMP", "REFERENCES t2(id)"]).to_string()),
            16 => format!("CREATE {}INDEX ix{} ON {} ({})", if self.rng.chance(1, 3) { "UNIQUE " } else { "" }, self.rng.below(3), self.rng.pick(&["t1", "t2", "t3"]).to_string(), self.rng.pick(&["a", "b", "x", "a, b", "nosuch", "y", "v"]).to_string()),
            // (ALTER TABLE .. ADD COLUMN on a populated table followed by DELETE panics in the record decoder, records/view.rs:203:
            //  a decoder / schema-change defect, subject of C23 / C21, kept out of this generator)
            17 => self.rng.pick(&["DROP TABLE t2", "DROP TABLE IF EXISTS nosuch", "DROP INDEX i1a", "DROP TABLE t1", "TRUNCATE TABLE t2", "ALTER TABLE t9 ADD COLUMN z INT", "ALTER TABLE t2 DROP COLUMN y", "ALTER TABLE t2 RENAME TO t9", "ALTER TABLE t2 RENAME COLUMN x TO xx"]).to_string(),
            18 => self.rng.pick(&["BEGIN", "COMMIT", "ROLLBACK", "SAVEPOINT s1", "ROLLBACK TO SAVEPOINT s1", "RELEASE SAVEPOINT s1", "ROLLBACK TO s1", "BEGIN TRANSACTION"]).to_string(),
            19 => format!("EXPLAIN {}", self.select(1)),
            20 => format!("WITH w AS ({}) SELECT * FROM w", self.select(1)),
            21 => format!("SELECT {} FROM t1 WHERE EXISTS ({})", self.col(), self.select(1)),
            22 => format!("INSERT INTO t1 (id, {}) VALUES ({}, {})", self.rng.pick(&["tm", "dt", "ts", "u", "iv", "j", "d", "bo"]).to_string(), 200 + self.rng.below(50), self.rng.pick(&STRS).to_string()),
            _ => gen_pragma(self.rng),
        }
    }
}
const PRAGMAS: [&str; 16] = ["WAL", "WAL_AUTOFLUSH", "SYNCHRONOUS", "JOIN_MEMORY_BUDGET", "MEMORY_BUDGET", "MEMORY_STATS", "PERSISTED_MEMORY_STATS", "WAL_CHECKPOINT",
    "WAL_CHECKPOINT_STATS", "WAL_CHECKPOINT_THRESHOLD", "WAL_FRAME_COUNT", "WAL_SIZE", "DATABASE_MODE", "RECOVER_WAL", "nosuch", "wal"];
fn gen_pragma(rng: &mut Rng) -> String {
    let n = rng.pick(&PRAGMAS).to_string();
    let v = rng.pick(&["ON", "OFF", "0", "1", "2", "TRUE", "FULL", "NORMAL", "-1", "18446744073709551615", "18446744073709551616", "99999999999999999999999", "x", "1024", "4096", "65536", "'s'", "1.5", "NULL"]).to_string();
    match rng.below(5) { 0 => format!("PRAGMA {}", n), 1 => format!("PRAGMA {} = {}", n, v), 2 => format!("PRAGMA {}({})", n, v), 3 => format!("PRAGMA {} {}", n, v), _ => format!("PRAGMA {} = ", n) }
}
fn tokens_of(s: &str) -> Vec<String> {
    // split a statement into lexemes using the real lexer's spans (for token-level mutation)
    let mut lx = Lexer::new(s);
    let mut v = vec![];
    for _ in 0..(s.len() + 2) {
        let t = lx.next_token();
        if matches!(t, Token::Eof) { break; }
        let sp = lx.span();
        let (a, b) = (sp.start().min(s.len()), lx.position().min(s.len()));
        if a <= b && s.is_char_boundary(a) && s.is_char_boundary(b) { v.push(s[a..b].to_string()); }
    }
    v
}
/// token deletion / duplication / swap / replacement
fn mutate_tokens(rng: &mut Rng, s: &str) -> String {
    let mut t = tokens_of(s);
    if t.is_empty() { return s.to_string(); }
    let k = 1 + rng.below(2);
    for _ in 0..k {
        if t.is_empty() { break; }
        let i = rng.below(t.len() as u64) as usize;
        match rng.below(5) {
            0 => { t.remove(i); }
            1 => { let x = t[i].clone(); t.insert(i, x); }
            2 => { let j = rng.below(t.len() as u64) as usize; t.swap(i, j); }
            3 => { t[i] = match rng.below(3) { 0 => rng.pick(&WORDS).to_string(), 1 => rng.pick(&LEXEMES).to_string(), _ => rng.pick(&PUNCT).to_string() }; }
            _ => { t.truncate(i); }
        }
    }
    t.join(" ")
}
fn hexs(b: &[u8]) -> String { hex(b) }
/// `mild`: no extreme integers (used when the parameter can land inside SQL integer arithmetic: C20's regime)
fn gen_param(rng: &mut Rng, mild: bool) -> String {
    let ints: [i64; 12] = if mild { [0, 1, -1, 2, 10, 255, 7, -7, 1000, -1000, 31, 12] } else { [0, 1, -1, 2, 10, 255, i64::MAX, i64::MIN, i32::MAX as i64, i32::MIN as i64, 1 << 40, -(1 << 40)] };
    let floats: [f64; 10] = [0.0, -0.0, 1.5, -2.25, f64::NAN, f64::INFINITY, f64::NEG_INFINITY, f64::MAX, f64::MIN_POSITIVE, 1e300];
    match rng.below(20) {
        0 => "N".into(),
        1 => format!("O{}", rng.below(2)),
        2 | 3 | 4 => format!("I{}", rng.pick(&ints)),
        5 | 6 => format!("F{:x}", rng.pick(&floats).to_bits()),
        7 | 8 => { let t = rng.pick(&["", "abc", "it's", "héllo", "a\\b", "'; DROP TABLE t1; --", "\0", "$1", "?", "é'é", "12:00:00.12345é", "2024-02-29", "𝄞", "\n"]).to_string(); format!("T{}", hexs(t.as_bytes())) }
        9 => { let n = rng.below(6) as usize; format!("B{}", hexs(&rng.bytes(n))) }
        10 => { let n = rng.below(5); let v: Vec<String> = (0..n).map(|_| format!("{:x}", (*rng.pick(&[0.0f32, 1.0, -1.5, f32::NAN, f32::INFINITY, f32::MAX])).to_bits())).collect(); format!("V{}", v.join(":")) }
        11 => format!("D{}", rng.pick(&[0i64, 1, -1, 19782, i32::MAX as i64, i32::MIN as i64, 2932896, -719528])),
        12 => format!("M{}", rng.pick(&ints)),
        13 => format!("S{}", rng.pick(&ints)),
        14 => format!("Z{}:{}", rng.pick(&ints), rng.pick(&[0i64, 3600, -3600, i32::MAX as i64, i32::MIN as i64])),
        15 => format!("U{}", hexs(&rng.bytes(16))),
        16 => format!("L{}:{}:{}", rng.pick(&ints), rng.pick(&[0i64, 1, -1, i32::MAX as i64, i32::MIN as i64]), rng.pick(&[0i64, 1, -1, i32::MAX as i64, i32::MIN as i64])),
        17 => format!("C{}:{}", rng.pick(&[0i128, 1, -1, 12345, i128::MAX, i128::MIN, 10i128.pow(30)]), rng.pick(&[0i64, 1, 2, -1, 10, 38, 39, 100, 32767, -32768])),
        18 => { let n = rng.below(8) as usize; format!("J{}", hexs(&rng.bytes(n))) }
        _ => match rng.below(4) { 0 => format!("E{}:{}", rng.below(65536), rng.below(65536)), 1 => { let n = rng.below(20) as usize; format!("X{}", hexs(&rng.bytes(n))) } 2 => format!("A{}", hexs(&rng.bytes(6))), _ => format!("P{:x}:{:x}", rng.pick(&floats).to_bits(), rng.pick(&floats).to_bits()) },
    }
}
const PARAM_SQL: [&str; 16] = ["SELECT ?", "SELECT * FROM t1 WHERE a = ?", "SELECT * FROM t1 WHERE a = $1 AND b = $2", "INSERT INTO t2 (id, x, y) VALUES (?, ?, ?)",
    "INSERT INTO t1 (id, a, b) VALUES ($1, $2, $3)", "UPDATE t1 SET b = ? WHERE id = ?", "DELETE FROM t2 WHERE id = ?", "SELECT ? || ?", "SELECT * FROM t2 WHERE y LIKE ?",
    "SELECT * FROM t1 WHERE id = :id", "SELECT $2", "SELECT $0", "SELECT $4294967295", "INSERT INTO t1 (id, tm, dt, u, d) VALUES (?, ?, ?, ?, ?)", "SELECT '?' , ? -- ?", "SELECT * FROM t1 LIMIT ? OFFSET ?"];

/// one api case = list of ops (escaped, joined with " ~ ")
fn join_ops(ops: &[String]) -> String { ops.iter().map(|o| esc(o)).collect::<Vec<_>>().join(" ~ ") }

fn gen_api_cases(rng: &mut Rng, n: usize) -> Vec<(String, &'static str)> {
    let mut v: Vec<(String, &'static str)> = vec![];
    for _ in 0..n {
        let bucket = rng.below(100);
        let (ops, kind): (Vec<String>, &'static str) = if bucket < 8 {
            let t = if rng.chance(1, 2) { gen_random_text(rng) } else { gen_chars(rng) };
            (vec![format!("{} {}", rng.pick(&["E", "Q", "P"]), t)], "api_bytes")
        } else if bucket < 14 {
            (vec![format!("{} {}", rng.pick(&["E", "Q", "P"]), gen_soup(rng))], "api_bytes")
        } else if bucket < 40 {
            let s = Sql { rng }.stmt();
            (vec![format!("{} {}", rng.pick(&["E", "E", "Q", "QC", "P"]), s)], "api_valid")
        } else if bucket < 60 {
            let s = Sql { rng }.stmt();
            let m = if rng.chance(2, 3) { mutate_tokens(rng, &s) } else { mutate_text(rng, &s) };
            (vec![format!("{} {}", rng.pick(&["E", "E", "Q", "P"]), m)], "api_nearvalid")
        } else if bucket < 72 {
            let tmpl = rng.chance(4, 5);
            let sql = if tmpl { rng.pick(&PARAM_SQL).to_string() } else { Sql { rng }.stmt() };
            let np = rng.below(6);
            let ps: Vec<String> = (0..np).map(|_| gen_param(rng, !tmpl)).collect();
            (vec![format!("{} {} | {}", rng.pick(&["X", "X", "PB", "PQ"]), ps.join(","), sql)], "api_params")
        } else if bucket < 78 {
            (vec![format!("{} {}", rng.pick(&["E", "Q"]), gen_pragma(rng))], "api_pragma")
        } else if bucket < 84 {
            // typed literals into typed columns
            let col = rng.pick(&["tm", "dt", "ts", "u", "iv", "j", "d", "bo", "c", "a"]).to_string();
            let txt = match rng.below(4) { 0 => rng.pick(&STRS).to_string(), 1 => format!("'{}'", gen_chars(rng).replace('\'', "")), 2 => { let b0 = pk(rng, &["12:34:56.123456", "2024-02-29", "2024-02-29T12:34:56.5", "550e8400-e29b-41d4-a716-446655440000", "1 year 2 months", "P1Y2M3DT4H5M6S", "{\"a\": [1, 2]}", "[1.0, 2.0]"]); format!("'{}'", mutate_text(rng, b0)).replace("''", "'") } _ => rng.pick(&["x'00ff'", "0x1f", "0b101", "0b1", "x''", "NULL", "1", "-1", "1.5"]).to_string() };
            let txt = if txt.matches('\'').count() % 2 == 1 { txt.replace('\'', "") } else { txt };
            (vec![format!("E INSERT INTO t1 (id, {}) VALUES (300, {})", col, txt), "Q SELECT * FROM t1 WHERE id = 300".to_string()], "api_literal")
        } else if bucket < 90 {
            let f = rng.pick(&FUNCS).to_string();
            let n = rng.below(4);
            let args: Vec<String> = (0..n).map(|_| match rng.below(4) { 0 => rng.pick(&INTS).to_string(), 1 => rng.pick(&STRS).to_string(), 2 => rng.pick(&["NULL", "1.5", "-0.5", "b", "a", "c"]).to_string(), _ => rng.pick(&["'é'", "'€€€'", "''", "-1", "0", "3", "99"]).to_string() }).collect();
            (vec![format!("Q SELECT {}({}){}", f, args.join(", "), if rng.chance(1, 2) { " FROM t1" } else { "" })], "api_function")
        } else {
            let k = 2 + rng.below(7);
            let ops: Vec<String> = (0..k).map(|_| match rng.below(14) {
                0 => "K".to_string(), 1 => "C".to_string(), 2 => "R".to_string(),
                3 => format!("E {}", rng.pick(&["BEGIN", "COMMIT", "ROLLBACK", "SAVEPOINT s1", "ROLLBACK TO SAVEPOINT s1", "RELEASE SAVEPOINT s1"])),
                4 => format!("E {}", gen_pragma(rng)),
                5 => { let np = rng.below(4); let ps: Vec<String> = (0..np).map(|_| gen_param(rng, false)).collect(); format!("{} {} | {}", rng.pick(&["X", "PB", "PQ"]), ps.join(","), rng.pick(&PARAM_SQL)) }
                6 => format!("P {}", Sql { rng }.stmt()),
                _ => format!("{} {}", rng.pick(&["E", "E", "Q"]), Sql { rng }.stmt()),
            }).collect();
            (ops, "api_sequence")
        };
        v.push((join_ops(&ops), kind));
    }
    v
}
/// structured big inputs (depth / size regimes), in the compact `DQ shape n` form
fn deep_cases(thorough: bool) -> Vec<(String, &'static str)> {
    let mut v = vec![];
    let ns: &[usize] = if thorough { &[1, 10, 50, 100, 200, 400] } else { &[10, 100, 200] };
    for shape in DEEP_SHAPES.iter().take(24) {
        for &n in ns { v.push((format!("DQ {} {}", shape, n), "api_deep")); }
    }
    // the regime of the recorded stack-overflow finding F-C22-11 (kept few: each abort costs a worker restart) and of the
    // repaired lexer finding F-C22-12 (200000 consecutive comments: must return now)
    v.push(("DQ parens 5000".to_string(), "api_deep"));
    v.push(("DQ comments 200000".to_string(), "api_deep"));
    if thorough { for s in ["not", "neg", "case", "scalarsubq", "func", "bcomments"] { v.push((format!("DQ {} 100000", s), "api_deep")); } }
    // (deep JSON text, `DQ jsonobj 20000`, also overflows the stack but only after a quadratic scan: too slow for a watchdog-timed run)
    v
}

fn parse_api_line(l: &str) -> Vec<String> { l.split(" ~ ").map(unesc).collect() }

// ====================================================================== gen / search
fn literal_inputs(rng: &mut Rng, n: usize) -> Vec<(String, String, &'static str)> {
    let mut v: Vec<(String, String, &'static str)> = vec![];
    let seeds: [(&str, &[&str]); 7] = [
        ("hex", &["", "00", "0aFF", "abc", "zz", "+f", "-1", "+", "é", "éé", "aéa", "aé", "0€0", "00é", "é00", " 00", "0𝄞"]),
        ("bin", &["", "0", "1", "01001000", "010010001", "+1111111", "2", "0000000é", "é", "00000000é", "000000€0", "1111111111111111", "0000000𝄞1"]),
        ("time", &["12:34:56", "12:34:56.5", "00:00:00.000001", "23:59:59.999999", "24:00:00", "12:60:00", "12:00:60", "1:2:3", "+1:+2:+3", "12:34", "12:34:56:78", "12:00:00.", "12:00:00.1234567", "12:00:00.-1",
                   "12:00:00.12345é", "12:00:00.é", "12:00:00.ééééé€", "12:00:00.1234é", "12:00:00.€", " 12:00:00.5 ", "\u{3000}12:00:00\u{a0}", "é:00:00", "12:00:00.abc", ".", "::", "", "12:00:00.+5", "99999999999:0:0", "12:00:00.12345𝄞"]),
        ("lp", &["null", "NULL", "True", "false", "'abc'", "\"abc\"", "'", "\"", "''", "\"\"", " ' ", "'é'", "'a", "a'", "42", "-7", "3.14", "1e400", "abc", "", "  ", "'é", "é'", "\u{a0}'\u{a0}", "nul", "'\"", "''''"]),
        ("lpt", &["'abc'", "\"abc\"", "'", "\"", "''", "abc", "", " ' ", "'é'", "é", "\u{2028}\"\u{2028}", "'x\"", "a'b"]),
        ("uuid", &["550e8400-e29b-41d4-a716-446655440000", "550e8400e29b41d4a716446655440000", "550e8400-e29b-41d4-a716-44665544000", "zz0e8400-e29b-41d4-a716-446655440000", "", "--------------------------------",
                   "ééééééééééééééééé", "éééééééééééééééé", "+50e8400-e29b-41d4-a716-446655440000", " 550e8400-e29b-41d4-a716-446655440000\n", "550e8400-e29b-41d4-a716-4466554400é", "a€550e8400-e29b-41d4-a716-4466554400"]),
        ("vector", &["[1.0, 2.0, 3.0]", "[]", "", "[", "]", "][", "[ ]", "1,2", "[é]", "[1,,2]", "  [ 1 ]  ", "[\u{3000}]", "é", "[nan, inf, -inf]", "[1e40]", "[[1]]", "\u{a0}[\u{a0}]\u{a0}"]),
    ];
    for (f, xs) in seeds { for x in xs { v.push((f.to_string(), x.to_string(), "lit_boundary")); } }
    for (f, xs) in [("date", &["2024-02-29", "2023-02-29", "0001-01-01", "9999-12-31", "2024-13-01", "é", "", "--", "2024-2-3", "-2024-01-01", "2024-02-é"][..]),
                    ("timestamp", &["2024-02-29 12:34:56", "2024-02-29T12:34:56.5", "2024-02-29", "T", " ", "2024-02-29Té", "éT1", "2024-02-29 12:00:00.12345"][..]),
                    ("interval", &["1 day", "1 year 2 months", "P1Y2M3DT4H5M6S", "P", "p", "PT", "Pé", "1.5 hours", "é", "", "1", "1 fortnight", "PT1.5S", "P1W", "P1X"][..])] {
        for x in xs { v.push((f.to_string(), x.to_string(), "lit_unmodelled")); }
    }
    let fns = ["hex", "bin", "time", "lp", "lpt", "uuid", "vector"];
    for _ in 0..n {
        let f = rng.pick(&fns).to_string();
        let base: String = match f.as_str() {
            "hex" => { let k = rng.below(5) as usize * 2; let na = rng.chance(1, 6); (0..k).map(|_| if na { *rng.pick(&['0', 'a', 'F', 'é', '€', ' ']) } else { *rng.pick(&['0', '1', '9', 'a', 'F', 'f', 'A', 'g', '+', '-', ' ', 'x']) }).collect() }
            "bin" => { let k = rng.below(20) as usize; let na = rng.chance(1, 6); (0..k).map(|_| if na { *rng.pick(&['0', '1', '0', '1', 'é', '€']) } else { *rng.pick(&['0', '1', '0', '1', '0', '1', '2', '+', '-', ' ']) }).collect() }
            "time" => { let fr: String = { let k = rng.below(9) as usize; let na = rng.chance(1, 6); (0..k).map(|_| if na { *rng.pick(&['0', '1', '5', 'é', '€', '𝄞']) } else { *rng.pick(&['0', '1', '5', '9', '0', '3', '-', '+', 'x', ' ']) }).collect() };
                        format!("{}{}:{}:{}{}{}", rng.pick(&["", " ", "\u{a0}"]), rng.pick(&["0", "12", "23", "24", "+7", "x", ""]), rng.pick(&["00", "59", "60", "7"]), rng.pick(&["00", "59", "60", "3"]), if rng.chance(4, 5) { "." } else { "" }, fr) }
            "uuid" => { let mut s = String::from("550e8400-e29b-41d4-a716-446655440000"); if rng.chance(2, 3) { s = mutate_text(rng, &s); } s }
            "vector" => { let k = rng.below(4); let xs: Vec<String> = (0..k).map(|_| rng.pick(&["1", "2.5", "-0", "nan", "é", "", " 3 "]).to_string()).collect(); format!("{}{}{}", rng.pick(&["[", "", " [", "\u{a0}["]), xs.join(","), rng.pick(&["]", "", "] ", "]\u{3000}"])) }
            _ => { let q = *rng.pick(&["'", "\"", ""]); let q2 = *rng.pick(&["'", "\"", ""]); let k = if rng.chance(1, 8) { 0 } else { 1 + rng.below(4) as usize }; let mid: String = (0..k).map(|_| *rng.pick(&['a', 'é', 'b', 'n', ' ', '1', '€', 'T', '.'])).collect(); format!("{}{}{}{}{}", rng.pick(&["", " ", "\u{2028}"]), q, mid, q2, rng.pick(&["", " ", "\n"])) }
        };
        v.push((f, base, "lit_random"));
    }
    v
}

fn lex_inputs(rng: &mut Rng, n: usize) -> Vec<(String, &'static str)> {
    let mut v: Vec<(String, &'static str)> = vec![];
    for l in LEXEMES { v.push((l.to_string(), "lex_lexeme")); v.push((format!("{} x", l), "lex_lexeme")); v.push((format!("a{}", l), "lex_lexeme")); }
    for l in PUNCT { v.push((l.to_string(), "lex_lexeme")); }
    for l in ODD_CHARS { v.push((l.to_string(), "lex_lexeme")); v.push((format!("a{}b", l), "lex_lexeme")); v.push((format!("'{}", l), "lex_lexeme")); v.push((format!("1{}", l), "lex_lexeme")); v.push((format!(":n{}", l), "lex_lexeme")); v.push((format!("$t${}$t$", l), "lex_lexeme")); }
    v.push((String::new(), "lex_lexeme"));
    for k in [1usize, 2, 3, 10, 40] { v.push(("--c\n".repeat(k), "lex_comments")); v.push(("/**/".repeat(k), "lex_comments")); v.push((format!("{}{}", "/*".repeat(k), "*/".repeat(k)), "lex_comments")); v.push(("<-".repeat(k), "lex_comments")); v.push(("\n".repeat(k), "lex_comments")); }
    for _ in 0..n {
        match rng.below(10) {
            0..=2 => v.push((Sql { rng }.stmt(), "lex_grammar")),
            3 => { let s = Sql { rng }.stmt(); v.push((mutate_text(rng, &s), "lex_grammar_mutated")); }
            4..=6 => v.push((gen_soup(rng), "lex_soup")),
            7 => { let s = gen_soup(rng); v.push((mutate_text(rng, &s), "lex_soup_mutated")); }
            8 => v.push((gen_chars(rng), "lex_chars")),
            _ => v.push((gen_random_text(rng), "lex_random")),
        }
    }
    v
}

fn gen(a: &Args) {
    let mut rng = Rng::new(a.seed);
    let mut w = CaseWriter::new(&a.out, "C22", "Corr.C22", if a.thorough() { 400 } else { 120 });
    let mut lexes: Vec<(String, &'static str)> = vec![];
    let mut lits: Vec<(String, String, &'static str)> = vec![];
    let mut apis: Vec<(String, &'static str)> = vec![];
    if let Some(lines) = a.replay_lines() {
        for l in lines {
            if let Some(r) = l.strip_prefix("lex ") { lexes.push((String::from_utf8_lossy(&unhex(r.trim())).into_owned(), "replay")); }
            else if l == "lex" { lexes.push((String::new(), "replay")); }
            else if let Some(r) = l.strip_prefix("lit ") { let mut it = r.splitn(2, ' '); let f = it.next().unwrap_or("").to_string(); let h = it.next().unwrap_or(""); lits.push((f, String::from_utf8_lossy(&unhex(h.trim())).into_owned(), "replay")); }
            else if let Some(r) = l.strip_prefix("api ") { apis.push((r.to_string(), "replay")); }
        }
    } else {
        let (nl, nt, na) = if a.thorough() { (30_000, 8_000, 20_000) } else { (330, 150, 330) };
        lexes = lex_inputs(&mut rng, nl);
        lits = literal_inputs(&mut rng, nt);
        apis = deep_cases(a.thorough());
        apis.extend(gen_api_cases(&mut rng, na));
    }
    let mut lex_panics = 0u64;
    for (t, k) in &lexes { if !lex_case(&mut w, t, k) { lex_panics += 1; } }
    let mut lit_panics = 0u64;
    for (f, t, k) in &lits { if !lit_case(&mut w, f, t, k) { lit_panics += 1; } }
    let lines: Vec<String> = apis.iter().map(|x| x.0.clone()).collect();
    let outs = if lines.is_empty() { vec![] } else { run_api_lines(&lines, if a.lines.is_some() { 1 } else { 6 }) };
    let mut calls = 0u64; let mut api_bad = 0u64;
    let mut sites: std::collections::BTreeMap<String, u64> = std::collections::BTreeMap::new();
    for ((line, kind), o) in apis.iter().zip(outs.iter()) {
        let ops = parse_api_line(line);
        calls += ops.len() as u64;
        match o { ApiOut::Ok(..) => {}, ApiOut::Panic(m) => { api_bad += 1; *sites.entry(m.split(" | ").next().unwrap_or("?").to_string()).or_insert(0) += 1; }, ApiOut::Timeout => { api_bad += 1; *sites.entry("timeout".into()).or_insert(0) += 1; }, ApiOut::Abort => { api_bad += 1; *sites.entry("abort".into()).or_insert(0) += 1; } }
        let kc = if *kind == "replay" { 0 } else { kind_code(kind) };
        w.push(api_term(kc, &ops, o), format!("api {}", line), ops.iter().any(|o| o.len() > 8), kind);
    }
    let site_json = format!("{{{}}}", sites.iter().map(|(k, v)| format!("{}: {}", jstr(k), v)).collect::<Vec<_>>().join(", "));
    w.finish(&[("api_calls".into(), calls.to_string()), ("lexer_panics".into(), lex_panics.to_string()), ("literal_panics".into(), lit_panics.to_string()),
               ("api_failing_cases".into(), api_bad.to_string()), ("api_failure_sites".into(), site_json)]);
}

/// oracle only: any panic / abort / timeout of the real code is a failing input
fn search(a: &Args) {
    let mut rng = Rng::new(a.seed ^ 0xC22C22);
    let mut fails: Vec<String> = vec![];
    let mut tried = 0u64;
    let budget = a.budget.min(400_000);
    let nl = (budget / 2) as usize;
    for (t, _) in lex_inputs(&mut rng, nl) {
        tried += 1;
        if !matches!(run_lex(&t), LexOut::Ok(..)) && fails.len() < 40 { fails.push(format!("lex {}", hex(t.as_bytes()))); }
    }
    for (f, t, _) in literal_inputs(&mut rng, (budget / 4) as usize) {
        tried += 1;
        if run_lit(&f, &t).1.is_some() && fails.len() < 80 { fails.push(format!("lit {} {}", f, hex(t.as_bytes()))); }
    }
    let mut apis = deep_cases(true);
    apis.extend(gen_api_cases(&mut rng, (budget / 40) as usize));
    let lines: Vec<String> = apis.iter().map(|x| x.0.clone()).collect();
    let outs = run_api_lines(&lines, 6);
    for (l, o) in lines.iter().zip(outs.iter()) {
        tried += 1;
        if !matches!(o, ApiOut::Ok(..)) && fails.len() < 160 { fails.push(format!("api {}", l)); }
    }
    let mut out = format!("tried={}\n", tried);
    for f in &fails { out.push_str("FAIL "); out.push_str(f); out.push('\n'); }
    std::fs::write(&a.out, out).expect("write search output");
}

fn main() {
    let a = Args::parse();
    match a.mode.as_str() {
        "gen" => gen(&a),
        "search" => search(&a),
        "worker" => worker_main(&a),
        "show" => { // debugging aid: print what the real code does on the replay lines given after `show`
            for l in &a.rest {
                if let Some(r) = l.strip_prefix("api ") { println!("{:?}", run_api_lines(&[r.to_string()], 1)); }
            }
        }
        "sql" => { // debugging aid: run statements in-process on a fresh seeded database and print the results
            let dir = tmp_base().join(format!("c22-sql-{}", std::process::id()));
            let _ = std::fs::remove_dir_all(&dir);
            let db = Database::create(&dir).expect("db");
            for s in SETUP { db.execute(s).expect("setup"); }
            let db = if a.tier == "reopen" { let _ = db.checkpoint(); let _ = db.close(); drop(db); Database::open(&dir).expect("reopen") } else { db };
            for s in &a.rest { let mut r = format!("{:?}", db.execute(s).map_err(|e| e.to_string())); r.truncate(400); println!("{}", r); }
            drop(db);
            let _ = std::fs::remove_dir_all(&dir);
        }
        _ => { eprintln!("c22: unknown mode"); std::process::exit(2); }
    }
}
