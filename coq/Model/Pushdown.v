(* Model of PredicatePushdownRule for a Filter over a Join (src/sql/optimizer/rules/
   predicate_pushdown.rs: try_push_filter, collect_expr_tables), transcribed by hand, and the
   reference-level plans before / after the push.  Definitions only; Proof/Pushdown.v proves when
   the push preserves the result, the `Push` cases of the correspondence run apply the REAL rule.

   The rule classifies a predicate by the tables of the columns it FINDS: collect_expr_tables
   descends through BinaryOp and UnaryOp nodes only, so columns inside IN lists, BETWEEN, LIKE,
   IS NULL ... are not seen (vis_sides); all_sides is what the predicate really mentions.
   Columns are positions of the concatenated row: the left input owns positions < wl. *)
From Coq Require Import ZArith List Bool.
From TV Require Import Model.SqlSpec Model.QuerySpec.
Import ListNotations.
Open Scope Z_scope.

Definition or2 (a b : bool * bool) : bool * bool := (fst a || fst b, snd a || snd b).

Fixpoint vis_sides (wl : nat) (e : expr) : bool * bool :=
  match e with
  | ECol i => if Nat.ltb i wl then (true, false) else (false, true)
  | EArith _ a b | ECmp _ a b | EAnd a b | EOr a b => or2 (vis_sides wl a) (vis_sides wl b)
  | ENot a => vis_sides wl a
  | _ => (false, false)
  end.

Fixpoint all_sides (wl : nat) (e : expr) : bool * bool :=
  match e with
  | ECol i => if Nat.ltb i wl then (true, false) else (false, true)
  | ELit _ => (false, false)
  | EArith _ a b | ECmp _ a b | EAnd a b | EOr a b | ELike _ a b => or2 (all_sides wl a) (all_sides wl b)
  | ENot a | EIsNull _ a => all_sides wl a
  | EIn _ a l => fold_right (fun x acc => or2 (all_sides wl x) acc) (all_sides wl a) l
  | EBetween _ a lo hi => or2 (all_sides wl a) (or2 (all_sides wl lo) (all_sides wl hi))
  end.

Inductive push_out := PStay | PLeft | PRight | POther.

(* try_push_filter, Join arm: the join type is not consulted *)
Definition push_decision (wl : nat) (p : expr) : push_out :=
  match vis_sides wl p with
  | (true, false) => PLeft
  | (false, true) => PRight
  | _ => PStay
  end.

(* ------------------------------------------------------------------ reference-level plans *)
(* Filter(p) over Join: p is over the concatenated row *)
Definition plan_before (k : jkind) (on : expr) (wl wr : nat) (L R : table) (p : expr) : table :=
  filter (passes p) (join_spec k on wl wr L R).
(* the filter moved onto the left input: evaluated on left rows alone *)
Definition plan_left (k : jkind) (on : expr) (wl wr : nat) (L R : table) (p : expr) : table :=
  join_spec k on wl wr (filter (passes p) L) R.
(* ... onto the right input: the right rows' columns are positions wl .. of the concatenated row *)
Definition shift_down (wl : nat) (i : nat) : nat := (i - wl)%nat.
Definition plan_right (k : jkind) (on : expr) (wl wr : nat) (L R : table) (p : expr) : table :=
  join_spec k on wl wr L (filter (passes (remap (shift_down wl) p)) R).

(* when is the push a sound plan rewrite (Proof/Pushdown.v)? *)
Definition left_push_ok (k : jkind) : bool := match k with JCross | JInner | JLeft => true | _ => false end.
Definition right_push_ok (k : jkind) : bool := match k with JCross | JInner | JRight => true | _ => false end.
Definition only_left (wl : nat) (p : expr) : bool := negb (snd (all_sides wl p)).
Definition only_right (wl : nat) (p : expr) : bool := negb (fst (all_sides wl p)).
