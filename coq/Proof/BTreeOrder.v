(* C28 proofs, part 1: the byte-string order is a strict total order; facts about maps kept as
   key-sorted entry lists (the specification side), in particular: a strictly sorted list is
   determined by its multiset of entries. *)
From Coq Require Import ZArith List Bool Lia Sorting.Permutation Sorting.Sorted.
From TV Require Import Lib.MachInt Gen.Varint Model.BTree Model.BTreeSpec.
Import ListNotations.
Open Scope Z_scope.

Definition klt (a b : key) : Prop := kcmp a b = Lt.

Lemma kcmp_refl a : kcmp a a = Eq.
Proof. induction a as [|x a IH]; cbn; [reflexivity|]. rewrite Z.compare_refl. exact IH. Qed.

Lemma kcmp_eq a : forall b, kcmp a b = Eq -> a = b.
Proof.
  induction a as [|x a IH]; intros [|y b] H; cbn in H; try discriminate; [reflexivity|].
  destruct (x ?= y) eqn:E; try discriminate. apply Z.compare_eq in E. subst. f_equal. apply IH. exact H.
Qed.

Lemma kcmp_antisym a : forall b, kcmp b a = CompOpp (kcmp a b).
Proof.
  induction a as [|x a IH]; intros [|y b]; cbn; try reflexivity.
  rewrite (Z.compare_antisym x y). destruct (x ?= y); cbn; auto.
Qed.

Lemma klt_trans a : forall b c, klt a b -> klt b c -> klt a c.
Proof.
  unfold klt. induction a as [|x a IH]; intros [|y b] [|z c] H1 H2; cbn in *; try discriminate; try reflexivity.
  destruct (x ?= y) eqn:E1; try discriminate.
  - apply Z.compare_eq in E1. subst y. destruct (x ?= z) eqn:E2; try discriminate; try reflexivity.
    eapply IH; eassumption.
  - destruct (y ?= z) eqn:E2; try discriminate.
    + apply Z.compare_eq in E2. subst z. rewrite E1. reflexivity.
    + assert (Hxy : x < y) by exact E1. assert (Hyz : y < z) by exact E2.
      assert (Hxz : x < z) by lia. unfold Z.lt in Hxz. rewrite Hxz. reflexivity.
Qed.

Lemma klt_irrefl a : ~ klt a a.
Proof. unfold klt. rewrite kcmp_refl. discriminate. Qed.

Lemma klt_asym a b : klt a b -> klt b a -> False.
Proof. intros H1 H2. exact (klt_irrefl a (klt_trans _ _ _ H1 H2)). Qed.

Lemma kcmp_gt_lt a b : kcmp a b = Gt <-> klt b a.
Proof. unfold klt. rewrite (kcmp_antisym a b). destruct (kcmp a b); cbn; split; congruence. Qed.

Lemma kltb_true a b : kltb a b = true <-> klt a b.
Proof. unfold kltb, klt. destruct (kcmp a b); split; congruence. Qed.
Lemma kltb_false a b : kltb a b = false <-> ~ klt a b.
Proof. unfold kltb, klt. destruct (kcmp a b); split; congruence. Qed.
Lemma keqb_true a b : keqb a b = true <-> a = b.
Proof.
  unfold keqb. split.
  - destruct (kcmp a b) eqn:E; try discriminate. intros _. apply kcmp_eq. exact E.
  - intros ->. rewrite kcmp_refl. reflexivity.
Qed.
Lemma keqb_false a b : keqb a b = false <-> a <> b.
Proof.
  split.
  - intros H E. apply keqb_true in E. congruence.
  - intros H. destruct (keqb a b) eqn:E; [|reflexivity]. apply keqb_true in E. contradiction.
Qed.
Lemma kleb_true a b : kleb a b = true <-> ~ klt b a.
Proof. unfold kleb. rewrite <- kcmp_gt_lt. destruct (kcmp a b); split; congruence. Qed.

Lemma k_trichotomy a b : klt a b \/ a = b \/ klt b a.
Proof.
  destruct (kcmp a b) eqn:E.
  - right; left. apply kcmp_eq. exact E.
  - left. exact E.
  - right; right. apply kcmp_gt_lt. exact E.
Qed.

Lemma nlt_le_trans a b c : ~ klt b a -> klt b c -> klt a c.
Proof.
  intros H1 H2. destruct (k_trichotomy a b) as [H | [-> | H]]; [eapply klt_trans; eassumption | exact H2 | contradiction].
Qed.
Lemma lt_nlt_trans a b c : klt a b -> ~ klt c b -> klt a c.
Proof.
  intros H1 H2. destruct (k_trichotomy b c) as [H | [<- | H]]; [eapply klt_trans; eassumption | exact H1 | contradiction].
Qed.
Lemma nlt_trans a b c : ~ klt b a -> ~ klt c b -> ~ klt c a.
Proof.
  intros H1 H2 H3. destruct (k_trichotomy a b) as [H | [-> | H]]; [| contradiction | contradiction].
  apply H2. eapply klt_trans; eassumption.
Qed.

(* ---------------------------------------------------------------- sorted entry lists *)
Section OM.
Variable V : Type.
Notation entry := (entry V).

Definition elt (a b : entry) : Prop := klt (fst a) (fst b).
Definition ssorted (l : list entry) : Prop := StronglySorted elt l.
Definition keys (l : list entry) : list key := map fst l.

Lemma ssorted_nil : ssorted [].
Proof. constructor. Qed.

Lemma ssorted_cons_inv x l : ssorted (x :: l) -> ssorted l /\ Forall (elt x) l.
Proof. intros H. inversion H; subst. split; assumption. Qed.

Lemma ssorted_app (a b : list entry) :
  ssorted (a ++ b) <-> ssorted a /\ ssorted b /\ (forall x y, In x a -> In y b -> elt x y).
Proof.
  induction a as [|x a IH]; cbn.
  - split; [intros H; repeat split; [constructor | exact H | intros ? ? []] | intros (_ & H & _); exact H].
  - split.
    + intros H. apply ssorted_cons_inv in H as [Hs Hf]. apply IH in Hs as (Ha & Hb & Hab).
      rewrite Forall_app in Hf. destruct Hf as [Hfa Hfb]. repeat split.
      * constructor; assumption.
      * exact Hb.
      * intros u y [<- | Hu] Hy; [rewrite Forall_forall in Hfb; apply Hfb; exact Hy | apply Hab; assumption].
    + intros (Ha & Hb & Hab). apply ssorted_cons_inv in Ha as [Ha Hfa]. constructor.
      * apply IH. repeat split; try assumption. intros u y Hu Hy. apply Hab; [right|]; assumption.
      * rewrite Forall_app. split; [exact Hfa|]. rewrite Forall_forall. intros y Hy. apply Hab; [left; reflexivity | exact Hy].
Qed.

Lemma ssorted_in_key_unique l : ssorted l -> forall a b, In a l -> In b l -> fst a = fst b -> a = b.
Proof.
  induction l as [|x l IH]; intros Hs a b Ha Hb E; [destruct Ha|].
  apply ssorted_cons_inv in Hs as [Hs Hf]. rewrite Forall_forall in Hf.
  destruct Ha as [<- | Ha], Hb as [<- | Hb].
  - reflexivity.
  - exfalso. specialize (Hf _ Hb). unfold elt in Hf. rewrite E in Hf. exact (klt_irrefl _ Hf).
  - exfalso. specialize (Hf _ Ha). unfold elt in Hf. rewrite E in Hf. exact (klt_irrefl _ Hf).
  - apply IH; assumption.
Qed.

(* a strictly sorted list is determined by its elements *)
Lemma ssorted_perm_eq : forall l1 l2 : list entry, ssorted l1 -> ssorted l2 -> Permutation l1 l2 -> l1 = l2.
Proof.
  induction l1 as [|x l1 IH]; intros l2 H1 H2 P.
  - apply Permutation_nil in P. subst. reflexivity.
  - destruct l2 as [|y l2]; [apply Permutation_sym, Permutation_nil in P; discriminate|].
    apply ssorted_cons_inv in H1 as [H1 F1]. apply ssorted_cons_inv in H2 as [H2 F2].
    rewrite Forall_forall in F1, F2.
    assert (Hx : In x (y :: l2)) by (eapply Permutation_in; [exact P | left; reflexivity]).
    assert (Hy : In y (x :: l1)) by (eapply Permutation_in; [apply Permutation_sym; exact P | left; reflexivity]).
    assert (E : x = y).
    { destruct Hx as [E | Hx]; [symmetry; exact E|]. destruct Hy as [E | Hy]; [exact E|].
      exfalso. exact (klt_asym _ _ (F1 _ Hy) (F2 _ Hx)). }
    subst y. f_equal. apply IH; try assumption. eapply Permutation_cons_inv. exact P.
Qed.

Lemma ssorted_NoDup_keys l : ssorted l -> NoDup (keys l).
Proof.
  induction l as [|x l IH]; intros H; cbn; [constructor|].
  apply ssorted_cons_inv in H as [Hs Hf]. constructor; [|apply IH; exact Hs].
  intros Hin. apply in_map_iff in Hin as (y & E & Hy). rewrite Forall_forall in Hf. specialize (Hf _ Hy).
  unfold elt in Hf. rewrite E in Hf. exact (klt_irrefl _ Hf).
Qed.

(* ---- om_get *)
Lemma om_get_in (m : list entry) k v : ssorted m -> (om_get V k m = Some v <-> In (k, v) m).
Proof.
  induction m as [|c m IH]; intros Hs; cbn; [split; [discriminate | intros []]|].
  apply ssorted_cons_inv in Hs as [Hs Hf]. destruct (keqb (fst c) k) eqn:E.
  - apply keqb_true in E. split.
    + intros [= <-]. left. destruct c; cbn in *; subst; reflexivity.
    + intros [-> | Hin]; [reflexivity|]. exfalso. rewrite Forall_forall in Hf. specialize (Hf _ Hin).
      unfold elt in Hf. cbn in Hf. rewrite E in Hf. exact (klt_irrefl _ Hf).
  - apply keqb_false in E. rewrite IH by exact Hs. split; [intros H; right; exact H|].
    intros [-> | H]; [exfalso; apply E; reflexivity | exact H].
Qed.

Lemma om_get_none (m : list entry) k : om_get V k m = None <-> ~ In k (keys m).
Proof.
  induction m as [|c m IH]; cbn; [split; [intros _ [] | reflexivity]|].
  destruct (keqb (fst c) k) eqn:E.
  - apply keqb_true in E. split; [discriminate | intros H; exfalso; apply H; left; exact E].
  - apply keqb_false in E. rewrite IH. split; [intros H [H1 | H1]; [contradiction | apply H; exact H1] | intros H H1; apply H; right; exact H1].
Qed.

Lemma om_get_some_key (m : list entry) k v : om_get V k m = Some v -> In k (keys m).
Proof.
  intros H. destruct (in_dec (list_eq_dec Z.eq_dec) k (keys m)) as [Hi | Hn]; [exact Hi|].
  apply om_get_none in Hn. congruence.
Qed.

(* ---- om_ins *)
Lemma om_ins_perm e (m : list entry) : Permutation (e :: m) (om_ins V e m).
Proof.
  induction m as [|c m IH]; cbn; [apply Permutation_refl|].
  destruct (kltb (fst e) (fst c)); [apply Permutation_refl|].
  eapply Permutation_trans; [apply perm_swap|]. apply perm_skip. exact IH.
Qed.

Lemma om_ins_sorted e (m : list entry) : ssorted m -> ~ In (fst e) (keys m) -> ssorted (om_ins V e m).
Proof.
  induction m as [|c m IH]; intros Hs Hn; cbn; [repeat constructor|].
  destruct (kltb (fst e) (fst c)) eqn:E.
  - apply kltb_true in E. constructor; [exact Hs|]. constructor; [exact E|].
    apply ssorted_cons_inv in Hs as [_ Hf]. eapply Forall_impl; [|exact Hf]. intros a Ha. eapply klt_trans; [exact E | exact Ha].
  - apply kltb_false in E. pose proof Hs as Hs0. apply ssorted_cons_inv in Hs as [Hs Hf].
    assert (Hce : klt (fst c) (fst e)).
    { destruct (k_trichotomy (fst c) (fst e)) as [H | [H | H]]; [exact H | | contradiction].
      exfalso. apply Hn. left. exact H. }
    constructor; [apply IH; [exact Hs | intros H; apply Hn; right; exact H]|].
    rewrite Forall_forall. intros a Ha. apply (Permutation_in _ (Permutation_sym (om_ins_perm e m))) in Ha.
    destruct Ha as [<- | Ha]; [exact Hce | rewrite Forall_forall in Hf; apply Hf; exact Ha].
Qed.

(* the workhorse: a sorted list that holds e plus the entries of a sorted m is om_ins e m *)
Lemma om_ins_unique e (m m' : list entry) :
  ssorted m -> ssorted m' -> Permutation m' (e :: m) -> m' = om_ins V e m /\ ~ In (fst e) (keys m).
Proof.
  intros Hm Hm' P.
  assert (Hn : ~ In (fst e) (keys m)).
  { pose proof (ssorted_NoDup_keys _ Hm') as N.
    assert (P2 : Permutation (keys m') (fst e :: keys m)) by (unfold keys; change (fst e :: map fst m) with (map fst (e :: m)); apply Permutation_map; exact P).
    apply (Permutation_NoDup P2) in N. inversion N; assumption. }
  split; [|exact Hn]. apply ssorted_perm_eq; [exact Hm' | apply om_ins_sorted; assumption |].
  eapply Permutation_trans; [exact P | apply om_ins_perm].
Qed.

(* ---- om_del *)
Lemma om_del_perm (m : list entry) k v : ssorted m -> In (k, v) m -> Permutation m ((k, v) :: om_del V k m).
Proof.
  induction m as [|c m IH]; intros Hs Hin; [destruct Hin|]. cbn.
  apply ssorted_cons_inv in Hs as [Hs Hf]. destruct (keqb (fst c) k) eqn:E.
  - apply keqb_true in E. destruct Hin as [-> | Hin]; [apply Permutation_refl|].
    exfalso. rewrite Forall_forall in Hf. specialize (Hf _ Hin). unfold elt in Hf. cbn in Hf. rewrite E in Hf. exact (klt_irrefl _ Hf).
  - apply keqb_false in E. destruct Hin as [-> | Hin]; [exfalso; apply E; reflexivity|].
    eapply Permutation_trans; [apply perm_skip; apply IH; assumption | apply perm_swap].
Qed.

Lemma om_del_incl (m : list entry) k x : In x (om_del V k m) -> In x m.
Proof.
  induction m as [|c m IH]; cbn; [intros []|]. destruct (keqb (fst c) k); [intros H; right; exact H|].
  intros [<- | H]; [left; reflexivity | right; apply IH; exact H].
Qed.

Lemma om_del_sorted (m : list entry) k : ssorted m -> ssorted (om_del V k m).
Proof.
  induction m as [|c m IH]; intros Hs; cbn; [constructor|].
  apply ssorted_cons_inv in Hs as [Hs Hf]. destruct (keqb (fst c) k); [exact Hs|].
  constructor; [apply IH; exact Hs|]. rewrite Forall_forall in *. intros a Ha. apply Hf. eapply om_del_incl; exact Ha.
Qed.

Lemma om_del_unique (m m' : list entry) k v :
  ssorted m -> ssorted m' -> Permutation m ((k, v) :: m') -> m' = om_del V k m /\ om_get V k m = Some v.
Proof.
  intros Hm Hm' P.
  assert (Hin : In (k, v) m) by (eapply Permutation_in; [apply Permutation_sym; exact P | left; reflexivity]).
  split; [|apply om_get_in; assumption].
  apply ssorted_perm_eq; [exact Hm' | apply om_del_sorted; exact Hm |].
  eapply Permutation_cons_inv. eapply Permutation_trans; [apply Permutation_sym; exact P | apply om_del_perm; assumption].
Qed.

(* ---- om_upd *)
Lemma om_upd_perm (m : list entry) k v old : ssorted m -> In (k, old) m ->
  Permutation (om_upd V k v m) ((k, v) :: om_del V k m).
Proof.
  induction m as [|c m IH]; intros Hs Hin; [destruct Hin|]. cbn.
  apply ssorted_cons_inv in Hs as [Hs Hf]. destruct (keqb (fst c) k) eqn:E.
  - apply keqb_true in E. rewrite E. apply Permutation_refl.
  - apply keqb_false in E. destruct Hin as [-> | Hin]; [exfalso; apply E; reflexivity|].
    eapply Permutation_trans; [apply perm_skip; apply IH; assumption | apply perm_swap].
Qed.

Lemma om_upd_keys (m : list entry) k v : keys (om_upd V k v m) = keys m.
Proof.
  induction m as [|c m IH]; cbn; [reflexivity|]. destruct (keqb (fst c) k); cbn; [reflexivity | f_equal; exact IH].
Qed.

Lemma ssorted_keys_ext (a b : list entry) : keys a = keys b -> ssorted a -> ssorted b.
Proof.
  revert b. induction a as [|x a IH]; intros [|y b] E Hs; cbn in E; try discriminate; [constructor|].
  injection E as E1 E2. apply ssorted_cons_inv in Hs as [Hs Hf]. constructor; [apply IH; assumption|].
  rewrite Forall_forall in *. intros z Hz. unfold elt. rewrite <- E1.
  assert (Hk : In (fst z) (map fst a)) by (rewrite E2; apply in_map; exact Hz).
  apply in_map_iff in Hk as (w & Ew & Hw). rewrite <- Ew. apply Hf. exact Hw.
Qed.

Lemma om_upd_unique (m m' rest : list entry) k v old :
  ssorted m -> ssorted m' -> Permutation m ((k, old) :: rest) -> Permutation m' ((k, v) :: rest) ->
  m' = om_upd V k v m /\ om_get V k m = Some old.
Proof.
  intros Hm Hm' P P'.
  assert (Hin : In (k, old) m) by (eapply Permutation_in; [apply Permutation_sym; exact P | left; reflexivity]).
  split; [|apply om_get_in; assumption].
  apply ssorted_perm_eq; [exact Hm' | eapply ssorted_keys_ext; [symmetry; apply om_upd_keys | exact Hm] |].
  eapply Permutation_trans; [exact P'|]. eapply Permutation_trans; [|apply Permutation_sym; eapply om_upd_perm; eassumption].
  apply perm_skip. eapply Permutation_cons_inv. eapply Permutation_trans; [apply Permutation_sym; exact P | apply om_del_perm; assumption].
Qed.

(* ---- om_seek on a sorted list split at the probe *)
Lemma om_seek_app (a b : list entry) k :
  (forall x, In x a -> klt (fst x) k) -> om_seek V k (a ++ b) = om_seek V k b.
Proof.
  induction a as [|x a IH]; intros H; cbn; [reflexivity|].
  assert (Hx : kltb (fst x) k = true) by (apply kltb_true; apply H; left; reflexivity).
  rewrite Hx. apply IH. intros y Hy. apply H. right. exact Hy.
Qed.
Lemma om_seek_ge (b : list entry) k : (forall x, In x b -> ~ klt (fst x) k) -> om_seek V k b = b.
Proof.
  destruct b as [|x b]; intros H; cbn; [reflexivity|].
  assert (Hx : kltb (fst x) k = false) by (apply kltb_false; apply H; left; reflexivity).
  rewrite Hx. reflexivity.
Qed.

Lemma om_all_lt_spec (m : list entry) k : om_all_lt V k m = true <-> (forall x, In x m -> klt (fst x) k).
Proof.
  unfold om_all_lt. rewrite forallb_forall. split; intros H x Hx; [apply kltb_true | apply kltb_true]; apply H; exact Hx.
Qed.

End OM.
