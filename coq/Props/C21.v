(* C21 - Schema changes behave as declared and persist.  Property theorems only.
   Model/DdlSpec.v is the relational model (what each statement should do), Model/AlterImpl.v the
   model of what src/database/ddl.rs and the DML paths do to stored rows (as the code is), tied
   to the real database by the correspondence run (harness/src/bin/c21.rs, Corr/C21.v). *)
From Coq Require Import ZArith List Bool.
From TV Require Import Model.DdlSpec Model.AlterImpl Proof.AlterSim Proof.AlterRefute.
Import ListNotations.
Open Scope Z_scope.

(* Every history of DDL and DML statements (any length, any interleaving, reopen anywhere)
   outside the recorded defect classes: after every statement the implementation model reports
   the status and shows, for every table, exactly the column names and rows the relational
   model predicts. *)
Theorem ddl_histories_correct :
  forall h, hist_class i_empty h = 0 -> i_run i_empty h = s_run s_empty h.
Proof. exact hist_correct_l. Qed.

(* ... from any reachable-looking state, not only the empty database *)
Theorem ddl_histories_simulate :
  forall h s, clean s = true -> hist_class s h = 0 -> i_run s h = s_run (abs s) h.
Proof. exact hist_sim. Qed.

(* ADD COLUMN: for every table content, existing rows read the DEFAULT exactly when there is no
   DEFAULT (NULL) or the table shows no row ... *)
Theorem add_column_reads_default :
  forall s t tb c, clean s = true -> get t (itabs s) = Some tb -> fits (cty c) (cdef c) = true ->
    (cdef c = VN \/ live (irows tb) = []) ->
    i_obs1 (fst (i_step s (AddCol t c))) t
    = TRows (map cname (icols tb) ++ [cname c]) (map (fun r => r ++ [cdef c]) (live (irows tb))).
Proof. exact add_column_reads_default_l. Qed.
(* ... and as the code is they read NULL whatever the DEFAULT says *)
Theorem add_column_reads_null :
  forall s t tb c, clean s = true -> get t (itabs s) = Some tb -> fits (cty c) (cdef c) = true ->
    i_obs1 (fst (i_step s (AddCol t c))) t
    = TRows (map cname (icols tb) ++ [cname c]) (map (fun r => r ++ [VN]) (live (irows tb))).
Proof. exact add_column_reads_null_l. Qed.
Theorem add_default_refuted : hist_class i_empty w1 = 1 /\ i_run i_empty w1 <> s_run s_empty w1.
Proof. exact add_default_refuted_l. Qed.

(* DROP COLUMN keeps every other column's values of every row - when no deleted row is stored *)
Theorem drop_column_preserves_others :
  forall s t tb c i, clean s = true -> get t (itabs s) = Some tb -> find_col c (icols tb) = Some i ->
    has_tomb (irows tb) = false ->
    i_obs1 (fst (i_step s (DropCol t c true))) t
    = TRows (map cname (remove_nth i (icols tb))) (map (remove_nth i) (live (irows tb))).
Proof. exact drop_column_preserves_others_l. Qed.
(* as the code is: every stored row, deleted or not, is shown afterwards *)
Theorem drop_column_shows_all_stored :
  forall s t tb c i, clean s = true -> get t (itabs s) = Some tb -> find_col c (icols tb) = Some i ->
    i_obs1 (fst (i_step s (DropCol t c true))) t
    = TRows (map cname (remove_nth i (icols tb))) (map (fun p => remove_nth i (snd p)) (irows tb)).
Proof. exact drop_column_shows_all_stored_l. Qed.
Theorem drop_resurrects_refuted : hist_class i_empty w2 = 2 /\ i_run i_empty w2 <> s_run s_empty w2.
Proof. exact drop_resurrects_refuted_l. Qed.
Theorem drop_other_case_refuted : hist_class i_empty w3 = 3 /\ i_run i_empty w3 <> s_run s_empty w3.
Proof. exact drop_other_case_refuted_l. Qed.
Theorem drop_only_column_refuted : hist_class i_empty w9 = 9 /\ i_run i_empty w9 <> s_run s_empty w9.
Proof. exact drop_only_column_refuted_l. Qed.

(* RENAME COLUMN keeps all values *)
Theorem rename_preserves_values :
  forall s t tb c n i, clean s = true -> get t (itabs s) = Some tb -> find_col c (icols tb) = Some i ->
    i_obs1 (fst (i_step s (RenameCol t c n))) t = TRows (map cname (rename_at i n (icols tb))) (live (irows tb)).
Proof. exact rename_preserves_values_l. Qed.
Theorem rename_indexed_refuted : hist_class i_empty w6 = 6 /\ i_run i_empty w6 <> s_run s_empty w6.
Proof. exact rename_indexed_refuted_l. Qed.
Theorem rename_duplicate_refuted : hist_class i_empty w7 = 7 /\ i_run i_empty w7 <> s_run s_empty w7.
Proof. exact rename_duplicate_refuted_l. Qed.
Theorem add_duplicate_refuted : hist_class i_empty w4 = 4 /\ i_run i_empty w4 <> s_run s_empty w4.
Proof. exact add_duplicate_refuted_l. Qed.

(* TRUNCATE empties the table, and a row inserted afterwards is the one row shown *)
Theorem truncate_then_insert_visible :
  forall s t tb b r, clean s = true -> get t (itabs s) = Some tb -> fits_row (icols tb) r = true ->
    i_obs1 (fst (i_step s (Truncate t b))) t = TRows (map cname (icols tb)) [] /\
    i_obs1 (fst (i_step (fst (i_step s (Truncate t b))) (Insert t r))) t = TRows (map cname (icols tb)) [r].
Proof. exact truncate_then_insert_visible_l. Qed.

Theorem index_missing_column_refuted : hist_class i_empty w8 = 8 /\ i_run i_empty w8 <> s_run s_empty w8.
Proof. exact index_missing_column_refuted_l. Qed.
Theorem drop_column_index_file_refuted : hist_class i_empty w12 = 12 /\ i_run i_empty w12 <> s_run s_empty w12.
Proof. exact drop_column_index_file_refuted_l. Qed.
Theorem update_resurrects_refuted : hist_class i_empty w5 = 5 /\ i_run i_empty w5 <> s_run s_empty w5.
Proof. exact update_resurrects_refuted_l. Qed.

(* non-vacuity: a 16-statement history over a populated table through every kind of statement,
   outside all classes, with the rows shown after its DROP COLUMN *)
Example c21_witness :
  hist_class i_empty good = 0 /\
  nth_error (i_run i_empty good) 7 = Some (true, [TRows [4; 2] [[VT 1; VN]; [VT 3; VN]; [VT 0; VI 9]]; TNone; TNone]).
Proof. exact good_in_scope_l. Qed.

Check ddl_histories_correct : forall h, hist_class i_empty h = 0 -> i_run i_empty h = s_run s_empty h.
Check ddl_histories_simulate : forall h s, clean s = true -> hist_class s h = 0 -> i_run s h = s_run (abs s) h.
Check add_column_reads_default : forall s t tb c, clean s = true -> get t (itabs s) = Some tb -> fits (cty c) (cdef c) = true ->
    (cdef c = VN \/ live (irows tb) = []) ->
    i_obs1 (fst (i_step s (AddCol t c))) t
    = TRows (map cname (icols tb) ++ [cname c]) (map (fun r => r ++ [cdef c]) (live (irows tb))).
Check add_column_reads_null : forall s t tb c, clean s = true -> get t (itabs s) = Some tb -> fits (cty c) (cdef c) = true ->
    i_obs1 (fst (i_step s (AddCol t c))) t
    = TRows (map cname (icols tb) ++ [cname c]) (map (fun r => r ++ [VN]) (live (irows tb))).
Check drop_column_preserves_others : forall s t tb c i, clean s = true -> get t (itabs s) = Some tb -> find_col c (icols tb) = Some i ->
    has_tomb (irows tb) = false ->
    i_obs1 (fst (i_step s (DropCol t c true))) t
    = TRows (map cname (remove_nth i (icols tb))) (map (remove_nth i) (live (irows tb))).
Check drop_column_shows_all_stored : forall s t tb c i, clean s = true -> get t (itabs s) = Some tb -> find_col c (icols tb) = Some i ->
    i_obs1 (fst (i_step s (DropCol t c true))) t
    = TRows (map cname (remove_nth i (icols tb))) (map (fun p => remove_nth i (snd p)) (irows tb)).
Check rename_preserves_values : forall s t tb c n i, clean s = true -> get t (itabs s) = Some tb -> find_col c (icols tb) = Some i ->
    i_obs1 (fst (i_step s (RenameCol t c n))) t = TRows (map cname (rename_at i n (icols tb))) (live (irows tb)).
Check truncate_then_insert_visible : forall s t tb b r, clean s = true -> get t (itabs s) = Some tb -> fits_row (icols tb) r = true ->
    i_obs1 (fst (i_step s (Truncate t b))) t = TRows (map cname (icols tb)) [] /\
    i_obs1 (fst (i_step (fst (i_step s (Truncate t b))) (Insert t r))) t = TRows (map cname (icols tb)) [r].
Check add_default_refuted : hist_class i_empty w1 = 1 /\ i_run i_empty w1 <> s_run s_empty w1.
Check drop_resurrects_refuted : hist_class i_empty w2 = 2 /\ i_run i_empty w2 <> s_run s_empty w2.
Check drop_other_case_refuted : hist_class i_empty w3 = 3 /\ i_run i_empty w3 <> s_run s_empty w3.
Check add_duplicate_refuted : hist_class i_empty w4 = 4 /\ i_run i_empty w4 <> s_run s_empty w4.
Check update_resurrects_refuted : hist_class i_empty w5 = 5 /\ i_run i_empty w5 <> s_run s_empty w5.
Check rename_indexed_refuted : hist_class i_empty w6 = 6 /\ i_run i_empty w6 <> s_run s_empty w6.
Check rename_duplicate_refuted : hist_class i_empty w7 = 7 /\ i_run i_empty w7 <> s_run s_empty w7.
Check index_missing_column_refuted : hist_class i_empty w8 = 8 /\ i_run i_empty w8 <> s_run s_empty w8.
Check drop_column_index_file_refuted : hist_class i_empty w12 = 12 /\ i_run i_empty w12 <> s_run s_empty w12.
Check drop_only_column_refuted : hist_class i_empty w9 = 9 /\ i_run i_empty w9 <> s_run s_empty w9.

Print Assumptions ddl_histories_correct.
Print Assumptions ddl_histories_simulate.
Print Assumptions add_column_reads_default.
Print Assumptions add_column_reads_null.
Print Assumptions drop_column_preserves_others.
Print Assumptions drop_column_shows_all_stored.
Print Assumptions rename_preserves_values.
Print Assumptions truncate_then_insert_visible.
Print Assumptions add_default_refuted.
Print Assumptions drop_resurrects_refuted.
Print Assumptions drop_other_case_refuted.
Print Assumptions add_duplicate_refuted.
Print Assumptions update_resurrects_refuted.
Print Assumptions rename_indexed_refuted.
Print Assumptions rename_duplicate_refuted.
Print Assumptions index_missing_column_refuted.
Print Assumptions drop_only_column_refuted.
Print Assumptions drop_column_index_file_refuted.
