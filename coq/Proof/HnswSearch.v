(* Proof/HnswSearch.v -- loop invariants of beam_search / finalize_results / greedy_search and what they
   give for PersistentHnswIndex::search in EVERY index state (reachable or not):
   at most k results, in non-decreasing order of reported distance, pairwise distinct node ids, and every
   result with a finite distance is a row of the caller's table reported with its true distance. *)
From Coq Require Import ZArith List Bool Lia Permutation Sorted.
From TV Require Import Model.Hnsw Proof.HnswHeap.
Import ListNotations.
Open Scope Z_scope.

(* ------------------------------------------------------------------ the two orders *)
Lemma dle_total : forall a b, dle a b = true \/ dle b a = true.
Proof.
  intros [x|] [y|]; cbn; auto.
  destruct (Z.leb_spec x y); auto. right. apply Z.leb_le. lia.
Qed.
Lemma dle_trans : forall a b c, dle a b = true -> dle b c = true -> dle a c = true.
Proof.
  intros [x|] [y|] [z|]; cbn; auto; try discriminate.
  intros H1 H2. apply Z.leb_le in H1, H2. apply Z.leb_le. lia.
Qed.
Lemma dle_refl : forall a, dle a a = true.
Proof. intros a. destruct (dle_total a a); auto. Qed.
Lemma dlt_dle : forall a b, dlt a b = negb (dle b a).
Proof. intros [x|] [y|]; cbn; auto. apply Z.ltb_antisym. Qed.

Lemma le_max_total : forall a b, le_max a b = true \/ le_max b a = true.
Proof. intros. apply dle_total. Qed.
Lemma le_max_trans : forall a b c, le_max a b = true -> le_max b c = true -> le_max a c = true.
Proof. unfold le_max. intros. eapply dle_trans; eauto. Qed.
Lemma le_min_total : forall a b, le_min a b = true \/ le_min b a = true.
Proof. intros. apply dle_total. Qed.
Lemma le_min_trans : forall a b c, le_min a b = true -> le_min b c = true -> le_min a c = true.
Proof. unfold le_min. intros. eapply dle_trans; eauto. Qed.

Definition rheap (rs : list cand) : Prop := heap_ok le_max rs.

(* ------------------------------------------------------------------ add_result *)
Lemma add_result_spec : forall ef c rs, rheap rs ->
  let rs' := add_result ef c rs in
  rheap rs' /\ (forall x, In x rs' -> x = c \/ In x rs) /\
  (NoDup (map cid (c :: rs)) -> NoDup (map cid rs')) /\
  (length rs' <= S (length rs))%nat /\
  (0 < ef -> rs' <> []) /\
  (Z.of_nat (length rs) <= ef -> Z.of_nat (length rs') <= ef).
Proof.
  intros ef c rs Hh. unfold add_result.
  pose proof (push_perm le_max c rs) as Pp.
  pose proof (push_ok le_max le_max_total le_max_trans c rs Hh) as Po.
  pose proof (push_length le_max c rs) as Pl.
  destruct (ef <? Z.of_nat (length (push le_max c rs))) eqn:Hef.
  - destruct (pop le_max (push le_max c rs)) as [[x r]|] eqn:Epop.
    + destruct (pop_spec le_max le_max_total le_max_trans _ _ _ Epop) as (P & L & Hk).
      destruct (Hk Po) as [Hr _]. cbn zeta.
      split; [exact Hr|]. split; [|split; [|split; [|split]]].
      * intros y Hy.
        assert (In y (c :: rs)).
        { eapply Permutation_in; [symmetry; exact Pp|]. eapply Permutation_in; [symmetry; exact P|]. right; exact Hy. }
        destruct H; auto.
      * intros Hnd.
        assert (Hn2 : NoDup (map cid (x :: r))).
        { eapply Permutation_NoDup; [|exact Hnd]. apply Permutation_map. etransitivity; [exact Pp | exact P]. }
        cbn [map] in Hn2. inversion Hn2; auto.
      * lia.
      * intros Hpos Hnil. subst r. cbn [length] in L. apply Z.ltb_lt in Hef. lia.
      * intros Hle. apply Z.ltb_lt in Hef. lia.
    + apply pop_none in Epop. rewrite Epop in Pl. cbn in Pl. lia.
  - cbn zeta. split; [exact Po|]. split; [|split; [|split; [|split]]].
    + intros y Hy. assert (In y (c :: rs)) by (eapply Permutation_in; [symmetry; exact Pp | exact Hy]).
      destruct H; auto.
    + intros Hnd. eapply Permutation_NoDup; [|exact Hnd]. apply Permutation_map. exact Pp.
    + lia.
    + intros _ Hnil. rewrite Hnil in Pl. cbn in Pl. lia.
    + intros _. apply Z.ltb_ge in Hef. lia.
Qed.

(* ------------------------------------------------------------------ the beam-search invariant *)
Section Beam.
  Variable gn : Z -> list Z.
  Variable cdf : Z -> dist.
  Variable ef : Z.

  Record binv (c : bctx) : Prop := {
    bi_heap : rheap (b_res c);
    bi_nodup : NoDup (map cid (b_res c));
    bi_vis : forall x, In x (b_res c) -> In (cid x) (b_vis c);
    bi_cvis : forall x, In x (b_cands c) -> In (cid x) (b_vis c)
  }.

  (* every result carries the distance of its node *)
  Definition bcd (c : bctx) : Prop := forall x, In x (b_res c) -> cd x = cdf (cid x).

  Lemma mem_In : forall x l, mem x l = true <-> In x l.
  Proof.
    intros x l. unfold mem. rewrite existsb_exists. split.
    - intros [y [Hy He]]. apply Z.eqb_eq in He. subst; auto.
    - intros H. exists x. split; auto. apply Z.eqb_refl.
  Qed.

  Lemma beam_nbrs_inv : forall nbrs c, binv c -> binv (beam_nbrs nbrs cdf ef c).
  Proof.
    induction nbrs as [|n t IH]; intros c Hc; cbn [beam_nbrs]; auto.
    destruct (mem n (b_vis c)) eqn:Hm; auto.
    assert (Hnv : ~ In n (b_vis c)) by (rewrite <- mem_In; congruence).
    destruct (dlt (cdf n) (worst (b_res c)) || (Z.of_nat (length (b_res c)) <? ef)).
    - apply IH. destruct Hc as [H1 H2 H3 H5].
      destruct (add_result_spec ef (C n (cdf n)) (b_res c) H1) as (A1 & A2 & A3 & _).
      constructor; cbn [b_res b_cands b_vis].
      + exact A1.
      + apply A3. cbn [map cid]. constructor; auto.
        intros Hin. apply in_map_iff in Hin. destruct Hin as [x [Hx1 Hx2]]. apply H3 in Hx2. congruence.
      + intros x Hx. destruct (A2 x Hx) as [->|Hx']; cbn [cid]; [left; auto | right; auto].
      + intros x Hx.
        assert (In x (C n (cdf n) :: b_cands c)).
        { eapply Permutation_in; [symmetry; apply push_perm | exact Hx]. }
        destruct H as [<-|H]; cbn [cid]; [left; auto | right; auto].
    - apply IH. destruct Hc as [H1 H2 H3 H5].
      constructor; cbn [b_res b_cands b_vis]; auto.
      + intros x Hx. right; auto.
      + intros x Hx. right; auto.
  Qed.

  Lemma beam_nbrs_cd : forall nbrs c, binv c -> bcd c -> bcd (beam_nbrs nbrs cdf ef c).
  Proof.
    induction nbrs as [|n t IH]; intros c Hc Hd; cbn [beam_nbrs]; auto.
    destruct (mem n (b_vis c)) eqn:Hm; auto.
    pose proof (beam_nbrs_inv [n] c Hc) as Hstep. cbn [beam_nbrs] in Hstep. rewrite Hm in Hstep.
    destruct (dlt (cdf n) (worst (b_res c)) || (Z.of_nat (length (b_res c)) <? ef)).
    - apply IH; [exact Hstep|].
      destruct (add_result_spec ef (C n (cdf n)) (b_res c) (bi_heap _ Hc)) as (_ & A2 & _).
      intros x Hx. cbn [b_res] in Hx. destruct (A2 x Hx) as [->|Hx']; cbn [cid cd]; auto.
    - apply IH; [exact Hstep|]. exact Hd.
  Qed.

  Lemma beam_loop_inv : forall fuel c c', binv c -> beam_loop fuel gn cdf ef c = Some c' -> binv c'.
  Proof.
    induction fuel as [|f IH]; intros c c' Hc Hl; cbn [beam_loop] in Hl; [discriminate|].
    destruct (pop le_min (b_cands c)) as [[cur rest]|] eqn:Ep.
    - assert (Hrest : binv (B rest (b_res c) (b_vis c))).
      { destruct Hc as [H1 H2 H3 H5].
        destruct (pop_spec le_min le_min_total le_min_trans _ _ _ Ep) as (P & _ & _).
        constructor; cbn [b_res b_cands b_vis]; auto.
        intros x Hx. apply H5. eapply Permutation_in; [symmetry; exact P | right; exact Hx]. }
      destruct (dlt (worst (b_res c)) (cd cur)).
      + inversion Hl; subst; auto.
      + eapply IH; [|exact Hl]. apply beam_nbrs_inv; auto.
    - inversion Hl; subst; auto.
  Qed.

  Lemma beam_loop_cd : forall fuel c c', binv c -> bcd c -> beam_loop fuel gn cdf ef c = Some c' -> bcd c'.
  Proof.
    induction fuel as [|f IH]; intros c c' Hc Hd Hl; cbn [beam_loop] in Hl; [discriminate|].
    destruct (pop le_min (b_cands c)) as [[cur rest]|] eqn:Ep; [|inversion Hl; subst; auto].
    assert (Hrest : binv (B rest (b_res c) (b_vis c))).
    { destruct Hc as [H1 H2 H3 H5].
      destruct (pop_spec le_min le_min_total le_min_trans _ _ _ Ep) as (P & _ & _).
      constructor; cbn [b_res b_cands b_vis]; auto.
      intros x Hx. apply H5. eapply Permutation_in; [symmetry; exact P | right; exact Hx]. }
    destruct (dlt (worst (b_res c)) (cd cur)); [inversion Hl; subst; exact Hd|].
    eapply IH; [| |exact Hl]; [apply beam_nbrs_inv; auto | apply beam_nbrs_cd; auto].
  Qed.

  Lemma beam_init_inv : forall e, binv (beam_init ef e).
  Proof.
    intros e. unfold beam_init.
    destruct (add_result_spec ef e [] (heap_ok_nil le_max)) as (A1 & A2 & A3 & _).
    constructor; cbn [b_res b_cands b_vis].
    - exact A1.
    - apply A3. cbn. constructor; [intros []|constructor].
    - intros x Hx. destruct (A2 x Hx) as [->|[]]. left; auto.
    - intros x Hx.
      assert (In x [e]) by (eapply Permutation_in; [symmetry; apply push_perm | exact Hx]).
      destruct H as [<-|[]]. left; auto.
  Qed.

  (* with ef >= 1 the results heap is never empty once the entry is in it *)
  Lemma beam_nbrs_nonempty : forall nbrs c, binv c -> 0 < ef -> b_res c <> [] ->
    b_res (beam_nbrs nbrs cdf ef c) <> [].
  Proof.
    induction nbrs as [|n t IH]; intros c Hc Hef Hne; cbn [beam_nbrs]; auto.
    destruct (mem n (b_vis c)) eqn:Hm; auto.
    pose proof (beam_nbrs_inv [n] c Hc) as Hstep. cbn [beam_nbrs] in Hstep. rewrite Hm in Hstep.
    destruct (dlt (cdf n) (worst (b_res c)) || (Z.of_nat (length (b_res c)) <? ef)).
    - apply IH; auto. cbn [b_res].
      destruct (add_result_spec ef (C n (cdf n)) (b_res c) (bi_heap _ Hc)) as (_ & _ & _ & _ & A5 & _). auto.
    - apply IH; auto.
  Qed.

  Lemma beam_loop_nonempty : forall fuel c c', binv c -> 0 < ef -> b_res c <> [] ->
    beam_loop fuel gn cdf ef c = Some c' -> b_res c' <> [].
  Proof.
    induction fuel as [|f IH]; intros c c' Hc Hef Hne Hl; cbn [beam_loop] in Hl; [discriminate|].
    destruct (pop le_min (b_cands c)) as [[cur rest]|] eqn:Ep; [|inversion Hl; subst; auto].
    assert (Hrest : binv (B rest (b_res c) (b_vis c))).
    { destruct Hc as [H1 H2 H3 H5].
      destruct (pop_spec le_min le_min_total le_min_trans _ _ _ Ep) as (P & _ & _).
      constructor; cbn [b_res b_cands b_vis]; auto.
      intros x Hx. apply H5. eapply Permutation_in; [symmetry; exact P | right; exact Hx]. }
    destruct (dlt (worst (b_res c)) (cd cur)); [inversion Hl; subst; exact Hne|].
    eapply IH; [| | |exact Hl]; auto.
    - apply beam_nbrs_inv; auto.
    - apply beam_nbrs_nonempty; auto.
  Qed.

  Lemma beam_heap : forall fuel e rs, beam fuel gn cdf ef e = Some rs ->
    rheap rs /\ NoDup (map cid rs) /\ (0 < ef -> rs <> []).
  Proof.
    intros fuel e rs Hb. unfold beam in Hb.
    destruct (beam_loop fuel gn cdf ef (beam_init ef e)) as [c'|] eqn:El; [|discriminate].
    cbn in Hb. inversion Hb; subst.
    destruct (beam_loop_inv _ _ _ (beam_init_inv e) El) as [H1 H2 H3 H5].
    split; [exact H1|]. split; [exact H2|].
    intros Hef. eapply beam_loop_nonempty; [apply beam_init_inv | exact Hef | | exact El].
    unfold beam_init. cbn [b_res].
    destruct (add_result_spec ef e [] (heap_ok_nil le_max)) as (_ & _ & _ & _ & A5 & _). auto.
  Qed.

  (* the results heap that beam returns *)
  Lemma beam_spec : forall fuel e rs, cd e = cdf (cid e) -> beam fuel gn cdf ef e = Some rs ->
    rheap rs /\ NoDup (map cid rs) /\ forall x, In x rs -> cd x = cdf (cid x).
  Proof.
    intros fuel e rs He Hb. unfold beam in Hb.
    destruct (beam_loop fuel gn cdf ef (beam_init ef e)) as [c'|] eqn:El; [|discriminate].
    cbn in Hb. inversion Hb; subst.
    destruct (beam_loop_inv _ _ _ (beam_init_inv e) El) as [H1 H2 H3 H5].
    split; [exact H1|]. split; [exact H2|].
    eapply beam_loop_cd; [apply beam_init_inv | | exact El].
    unfold beam_init. intros x Hx. cbn [b_res] in Hx.
    destruct (add_result_spec ef e [] (heap_ok_nil le_max)) as (_ & A2 & _).
    destruct (A2 x Hx) as [->|[]]. exact He.
  Qed.
End Beam.

(* ------------------------------------------------------------------ finalize_results *)
Definition asc (l : list cand) : Prop := StronglySorted (fun a b => dle (cd a) (cd b) = true) l.

Lemma sorted_app_one : forall (A : Type) (R : A -> A -> Prop) l a,
  StronglySorted R l -> Forall (fun b => R b a) l -> StronglySorted R (l ++ [a]).
Proof.
  intros A R l a Hs Hf. induction Hs as [|x l Hs IH Hx]; cbn [app].
  - constructor; constructor.
  - inversion Hf; subst. constructor; auto.
    apply Forall_app. split; auto.
Qed.

Lemma StronglySorted_rev : forall (A : Type) (R : A -> A -> Prop) l,
  StronglySorted (fun a b => R b a) l -> StronglySorted R (rev l).
Proof.
  intros A R l H. induction H as [|a l Hs IH Hf]; cbn [rev]; [constructor|].
  apply sorted_app_one; auto. apply Forall_rev. exact Hf.
Qed.

Lemma In_firstn : forall (A : Type) n (l : list A) x, In x (firstn n l) -> In x l.
Proof.
  intros A n. induction n as [|n IH]; intros l x H; cbn [firstn] in H; [destruct H|].
  destruct l as [|y l]; [destruct H|]. destruct H as [->|H]; [left; auto | right; auto].
Qed.

Lemma StronglySorted_firstn : forall (A : Type) (R : A -> A -> Prop) n l,
  StronglySorted R l -> StronglySorted R (firstn n l).
Proof.
  intros A R n. induction n as [|n IH]; intros l H; cbn [firstn]; [constructor|].
  destruct l as [|x l]; [constructor|]. inversion H; subst. constructor; auto.
  rewrite Forall_forall in *. intros y Hy. apply H3. eapply In_firstn; eauto.
Qed.

Lemma NoDup_firstn : forall (A : Type) n (l : list A), NoDup l -> NoDup (firstn n l).
Proof.
  intros A n. induction n as [|n IH]; intros l H; cbn [firstn]; [constructor|].
  destruct l as [|x l]; [constructor|]. inversion H; subst. constructor; auto.
  intros Hin. apply H2. eapply In_firstn; eauto.
Qed.

Lemma finalize_spec : forall k rs, rheap rs -> 0 <= k ->
  let out := finalize k rs in
  Z.of_nat (length out) <= k /\ asc out /\ (forall x, In x out -> In x rs) /\
  (NoDup (map cid rs) -> NoDup (map cid out)) /\
  (length out = Nat.min (Z.to_nat k) (length rs)).
Proof.
  intros k rs Hh Hk. unfold finalize. cbn zeta.
  pose proof (drain_perm le_max le_max_total le_max_trans (length rs) rs (le_n _)) as P.
  pose proof (drain_sorted le_max le_max_total le_max_trans (length rs) rs (le_n _) Hh) as S.
  set (d := drain le_max (length rs) rs) in *.
  split; [|split; [|split; [|split]]].
  - rewrite firstn_length. lia.
  - apply StronglySorted_firstn. apply StronglySorted_rev. exact S.
  - intros x Hx. apply In_firstn in Hx. apply in_rev in Hx.
    eapply Permutation_in; [symmetry; exact P | exact Hx].
  - intros Hnd. rewrite <- firstn_map. apply NoDup_firstn. rewrite map_rev.
    apply Permutation_NoDup with (l := map cid rs); auto.
    etransitivity; [apply Permutation_map; exact P | apply Permutation_rev].
  - rewrite firstn_length, rev_length. apply Permutation_length in P. rewrite <- P. reflexivity.
Qed.

(* ------------------------------------------------------------------ greedy descent keeps (node, its distance) *)
Lemma greedy_step_cd : forall cdf nbrs best bd n d,
  bd = cdf best -> greedy_step nbrs cdf best bd = (n, d) -> d = cdf n.
Proof.
  intros cdf nbrs. induction nbrs as [|x t IH]; intros best bd n d Hb Hg; cbn [greedy_step] in Hg.
  - inversion Hg; subst; auto.
  - destruct (dlt (cdf x) bd); [eapply (IH x (cdf x)); eauto | eapply (IH best bd); eauto].
Qed.

Lemma greedy_cd : forall iters gn cdf cur d n d',
  d = cdf cur -> greedy iters gn cdf cur d = (n, d') -> d' = cdf n.
Proof.
  induction iters as [|f IH]; intros gn cdf cur d n d' Hd Hg; cbn [greedy] in Hg.
  - inversion Hg; subst; auto.
  - destruct (greedy_step (gn cur) cdf cur d) as [n1 d1] eqn:Es.
    pose proof (greedy_step_cd _ _ _ _ _ _ Hd Es) as H1.
    destruct (n1 =? cur).
    + inversion Hg; subst; auto.
    + eapply IH; eauto.
Qed.

Lemma descend_cd : forall n lvl s cdf ep ed e d,
  ed = cdf ep -> descend n lvl s cdf ep ed = (e, d) -> d = cdf e.
Proof.
  induction n as [|n IH]; intros lvl s cdf ep ed e d He Hd; cbn [descend] in Hd.
  - inversion Hd; subst; auto.
  - destruct (greedy GREEDY_MAX_ITER (gn_at s lvl) cdf ep ed) as [e1 d1] eqn:Eg.
    pose proof (greedy_cd _ _ _ _ _ _ _ He Eg). eapply IH; eauto.
Qed.

(* ------------------------------------------------------------------ search, in any state *)
Definition res_asc (l : list (Z * dist)) : Prop :=
  StronglySorted (fun a b => dle (snd a) (snd b) = true) l.

Lemma sorted_map : forall (A B : Type) (R : A -> A -> Prop) (R' : B -> B -> Prop) (f : A -> B) l,
  (forall a b, R a b -> R' (f a) (f b)) -> StronglySorted R l -> StronglySorted R' (map f l).
Proof.
  intros A B R R' f l Hf H. induction H as [|a l Hs IH Ha]; cbn [map]; constructor; auto.
  rewrite Forall_forall in *. intros y Hy. apply in_map_iff in Hy. destruct Hy as [x [<- Hx]]. auto.
Qed.

(* facts about the final filter_map (unreadable candidates are dropped) *)
Lemma result_of_in : forall s out r d, In (r, d) (flat_map (result_of s) out) <->
  exists x nd, In x out /\ read_node s (cid x) = Some nd /\ r = n_row nd /\ d = cd x.
Proof.
  intros s out r d. rewrite in_flat_map. split.
  - intros (x & Hx & Hin). unfold result_of in Hin. destruct (read_node s (cid x)) as [nd|] eqn:E; [|destruct Hin].
    destruct Hin as [Heq|[]]. inversion Heq; subst. exists x, nd. auto.
  - intros (x & nd & Hx & Hr & -> & ->). exists x. split; auto. unfold result_of. rewrite Hr. left; auto.
Qed.

Lemma result_of_length : forall s out, (length (flat_map (result_of s) out) <= length out)%nat.
Proof.
  intros s out. induction out as [|x t IH]; cbn [flat_map length]; auto.
  rewrite app_length. unfold result_of at 1. destruct (read_node s (cid x)); cbn [length]; lia.
Qed.

Lemma result_of_sorted : forall s out, asc out -> res_asc (flat_map (result_of s) out).
Proof.
  intros s out H. induction H as [|x t Hs IH Hx]; cbn [flat_map]; [constructor|].
  unfold result_of at 1. destruct (read_node s (cid x)) as [nd|]; cbn [app]; auto.
  constructor; auto. apply Forall_forall. intros [r d] Hin.
  apply result_of_in in Hin. destruct Hin as (y & ny & Hy & _ & _ & ->). cbn [snd].
  rewrite Forall_forall in Hx. apply Hx; auto.
Qed.

(* what search returns, as a list of candidates, before unreadable ones are dropped *)
Lemma search_shape : forall p getv s q k ef l,
  search p getv s q k ef = SOk l -> 0 <= k ->
  l = [] \/
  exists out : list cand,
    l = flat_map (result_of s) out /\
    Z.of_nat (length out) <= k /\ asc out /\ NoDup (map cid out) /\
    (forall x, In x out -> cd x = cd_search s getv q (cid x)).
Proof.
  intros p getv s q k ef l Hs Hk. unfold search in Hs.
  destruct (negb (Z.of_nat (length q) =? dims p)); [discriminate|].
  destruct (entry s) as [ep|]; [|inversion Hs; auto].
  destruct (ep <? 0); [discriminate|].
  destruct (descend (Z.to_nat (maxlvl s)) (maxlvl s) s (cd_search s getv q) ep (cd_search s getv q ep)) as [cur d] eqn:Ed.
  pose proof (descend_cd _ _ _ _ _ _ _ _ eq_refl Ed) as Hd.
  destruct (beam (beam_fuel s) (gn_at s 0) (cd_search s getv q) ef (C cur d)) as [rs|] eqn:Eb; [|discriminate].
  inversion Hs; subst l. clear Hs. right.
  destruct (beam_spec (gn_at s 0) (cd_search s getv q) ef (beam_fuel s) (C cur d) rs Hd Eb) as (B1 & B2 & B3).
  destruct (finalize_spec k rs B1 Hk) as (F1 & F2 & F3 & F4 & _).
  exists (finalize k rs). repeat split; auto.
Qed.

Theorem search_any_state : forall p getv s q k ef l,
  search p getv s q k ef = SOk l -> 0 <= k ->
  Z.of_nat (length l) <= k /\ res_asc l /\
  (forall r z, In (r, Fin z) l -> exists v, getv r = Some v /\ z = dist2 q v).
Proof.
  intros p getv s q k ef l Hs Hk.
  destruct (search_shape _ _ _ _ _ _ _ Hs Hk) as [->|(out & -> & H1 & H2 & H3 & H4)].
  - cbn. split; [lia|]. split; [constructor|]. intros r z [].
  - split; [pose proof (result_of_length s out); lia|]. split; [apply result_of_sorted; exact H2|].
    intros r z Hin. apply result_of_in in Hin. destruct Hin as (x & nd & Hxin & Hr & -> & Hz).
    pose proof (H4 x Hxin) as Hc. rewrite <- Hz in Hc. unfold cd_search in Hc. rewrite Hr in Hc.
    destruct (getv (n_row nd)) as [v|] eqn:Ev; [|discriminate].
    exists v. split; auto. inversion Hc; auto.
Qed.

(* the same for the state reached by any history (the caller's table is what get_vector answers from) *)
Lemma search_sound_finite_l : forall p ops q k ef l,
  0 <= k ->
  search p (getv_of (tbl (run0 p ops))) (ix (run0 p ops)) q k ef = SOk l ->
  Z.of_nat (length l) <= k /\ res_asc l /\
  (forall r z, In (r, Fin z) l -> exists v, a_get r (tbl (run0 p ops)) = Some v /\ z = dist2 q v).
Proof. intros p ops q k ef l Hk Hs. exact (search_any_state _ _ _ _ _ _ _ Hs Hk). Qed.
