(* C03 - WAL replay applies exactly the longest valid frame prefix.
   Property theorems only.  Model: Model/Wal.v (hand-written, slot level, faithful to
   src/storage/wal.rs as it is); what the property demands: Model/WalSpec.v; checksum:
   Model/WalCrc.v.  `known_case ops d = 0` excludes the six recorded finding classes
   (known_findings.d/C03.json); each class has a `..._refuted` witness below. *)
From Coq Require Import ZArith List Bool.
From TV Require Import Lib.MachInt Model.WalCrc Model.Wal Model.WalSpec
  Proof.WalCrc Proof.WalRead Proof.Wal Proof.WalMain.
Import ListNotations.
Open Scope Z_scope.

(* a frame slot of zero bytes passes validate_checksum: CRC-64/ECMA-182 of zeros is 0 (this is
   why the model's SZero slots are accepted by the reader) *)
Theorem zero_slot_valid : zero_slot_validates = true.
Proof. exact zero_slot_valid_l. Qed.

(* READER, any file contents (any list of slots per segment, damaged or not, produced by a
   defective writer or not): recover applies exactly the frames the sequential reader accepts,
   segment after segment, in order; each page ends with its last image, other pages stay zero *)
Theorem recover_exact : forall files,
  Forall (fun f => frame_ok f = true) (seg_frames files) ->
  rec_ok (seg_frames files) (recover files) = true.
Proof. exact recover_exact_l. Qed.

(* ... and never panics (page numbers below u32::MAX, as the quantifier's small page space) *)
Theorem recover_never_panics : forall files,
  Forall (fun f => frame_ok f = true) (seg_frames files) -> recover files <> RecPanic.
Proof. exact recover_no_panic_l. Qed.

(* after Wal::open, read_page returns the last image of the page among the frames the reader
   accepts in the latest segment - for any content of that file *)
Theorem read_after_open_latest : forall lo closed fl k,
  read_page (open_st lo closed fl) k = last_image (valid_frames fl) k RNone.
Proof. exact read_after_open. Qed.

(* WRITER, every op sequence (write / batch with and without sync / set_sync_mode / sync /
   rotate / truncate / drop+open) outside classes 1-3: the segment files hold exactly the frames
   of the abstract log, in write order - nothing overwritten, nothing hidden, no other bytes *)
Theorem writer_files_exact : forall ops,
  known_ops ops = 0 -> final_files (run ops) = map (map SFrame) (log_of ops).
Proof. exact writer_files_l. Qed.

(* RECOVERY after any such sequence and any cut / byte flip / zero fill of one segment file
   outside classes 4, 6: exactly the longest valid prefix is applied (all files and per file id) *)
Theorem recover_longest_valid_prefix : forall ops d,
  ops_ok ops = true -> known_ops ops = 0 -> dmg_class (log_of ops) d = 0 ->
  let vp := valid_prefix (log_of ops) d in
  let files := dmg_files d (final_files (run ops)) in
  rec_ok vp (recover files) = true /\
  forall fid, rec_ok (by_fid fid vp) (recover_for_file files fid) = true.
Proof. exact recover_prefix_l. Qed.

(* read_page after the fault + Wal::open returns the last image in the valid prefix (also outside class 5) *)
Theorem reads_after_reopen : forall ops d,
  known_ops ops = 0 -> dmg_class (log_of ops) d = 0 ->
  read_class (log_of ops) (valid_prefix (log_of ops) d) = 0 ->
  map (read_page (reopened (run ops) d)) read_keys
  = expect_reads (valid_prefix (log_of ops) d) read_keys.
Proof. exact reads_prefix_l. Qed.

(* all of it: what the model predicts the implementation shows satisfies the property's rule *)
Theorem c03_outside_known_classes : forall ops d,
  ops_ok ops = true -> known_case ops d = 0 -> spec_check ops d (model_obs ops d) = true.
Proof. exact c03_main_l. Qed.

(* the faithful model violates the property in each recorded class (witnesses are replayed on
   the real implementation by every run: known_findings.d/C03.json) *)
Theorem reopen_overwrite_refuted : refutes 1 [w 0 1; w 1 2; OReopen; w 2 3] DNone.
Proof. exact class1_refuted_l. Qed.
Theorem truncate_hole_refuted : refutes 2 [w 1 1; w 2 2; OTruncate; w 1 3] DNone.
Proof. exact class2_refuted_l. Qed.
Theorem truncate_buffered_refuted : refutes 3 [OSetSync false; w 1 1; OTruncate] DNone.
Proof. exact class3_refuted_l. Qed.
Theorem damaged_closed_segment_refuted : refutes 4 [w 0 1; ORotate; w 1 2] (DFlip 0 40 1).
Proof. exact class4_refuted_l. Qed.
Theorem reopen_hides_older_segments_refuted : refutes 5 [w 0 1; ORotate; w 1 2] DNone.
Proof. exact class5_refuted_l. Qed.
Theorem zeroed_slot_replayed_refuted : refutes 6 [w 0 1; w 1 2; w 2 5] (DZero 0 16416 16416 1 1).
Proof. exact class6_refuted_l. Qed.

(* non-vacuity: a history with unsynced batches, a rotation, a truncate, reopen-then-append on
   an empty segment and a fault in the middle of the last segment lies outside all classes;
   its valid prefix is non-trivial and the model's observations are as the property demands *)
Example c03_witness :
  let ops := [w 0 1; ORotate; w 1 2; OTruncate; OReopen; OSetSync false;
              OBatch [Fr 0 0 3 7; Fr 1 2 4 9] true; OSync; w 0 8; OWrite (Fr 1 1 0 6)] in
  let d := DFlip 0 (2 * 16416 + 100) 128 in
  ops_ok ops = true /\ known_case ops d = 0 /\
  valid_prefix (log_of ops) d = [Fr 0 0 3 7; Fr 1 2 4 9] /\
  recover (dmg_files d (final_files (run ops))) = RecOk 2 [7; 0; 9; 0] /\
  spec_check ops d (model_obs ops d) = true.
Proof. vm_compute. repeat split. Qed.

Check zero_slot_valid : zero_slot_validates = true.
Check recover_exact : forall files,
  Forall (fun f => frame_ok f = true) (seg_frames files) ->
  rec_ok (seg_frames files) (recover files) = true.
Check recover_never_panics : forall files,
  Forall (fun f => frame_ok f = true) (seg_frames files) -> recover files <> RecPanic.
Check read_after_open_latest : forall lo closed fl k,
  read_page (open_st lo closed fl) k = last_image (valid_frames fl) k RNone.
Check writer_files_exact : forall ops,
  known_ops ops = 0 -> final_files (run ops) = map (map SFrame) (log_of ops).
Check recover_longest_valid_prefix : forall ops d,
  ops_ok ops = true -> known_ops ops = 0 -> dmg_class (log_of ops) d = 0 ->
  let vp := valid_prefix (log_of ops) d in
  let files := dmg_files d (final_files (run ops)) in
  rec_ok vp (recover files) = true /\
  forall fid, rec_ok (by_fid fid vp) (recover_for_file files fid) = true.
Check reads_after_reopen : forall ops d,
  known_ops ops = 0 -> dmg_class (log_of ops) d = 0 ->
  read_class (log_of ops) (valid_prefix (log_of ops) d) = 0 ->
  map (read_page (reopened (run ops) d)) read_keys
  = expect_reads (valid_prefix (log_of ops) d) read_keys.
Check c03_outside_known_classes : forall ops d,
  ops_ok ops = true -> known_case ops d = 0 -> spec_check ops d (model_obs ops d) = true.
Check reopen_overwrite_refuted : refutes 1 [w 0 1; w 1 2; OReopen; w 2 3] DNone.
Check truncate_hole_refuted : refutes 2 [w 1 1; w 2 2; OTruncate; w 1 3] DNone.
Check truncate_buffered_refuted : refutes 3 [OSetSync false; w 1 1; OTruncate] DNone.
Check damaged_closed_segment_refuted : refutes 4 [w 0 1; ORotate; w 1 2] (DFlip 0 40 1).
Check reopen_hides_older_segments_refuted : refutes 5 [w 0 1; ORotate; w 1 2] DNone.
Check zeroed_slot_replayed_refuted : refutes 6 [w 0 1; w 1 2; w 2 5] (DZero 0 16416 16416 1 1).

Print Assumptions zero_slot_valid.
Print Assumptions recover_exact.
Print Assumptions recover_never_panics.
Print Assumptions read_after_open_latest.
Print Assumptions writer_files_exact.
Print Assumptions recover_longest_valid_prefix.
Print Assumptions reads_after_reopen.
Print Assumptions c03_outside_known_classes.
Print Assumptions reopen_overwrite_refuted.
Print Assumptions truncate_hole_refuted.
Print Assumptions truncate_buffered_refuted.
Print Assumptions damaged_closed_segment_refuted.
Print Assumptions reopen_hides_older_segments_refuted.
Print Assumptions zeroed_slot_replayed_refuted.
