(* C28 witness histories (DEFINITIONS ONLY).  w_fwd .. w_intfull and w_zsep are the witnesses of the eight findings
   fixed in /repo (commits 8f0490a a847df1 0e115d7 9c96190 09348e1 a0471f9 691ce2c): on the code as it was they
   reached a defect class, on the repaired code they are regular.  Each of them is also a replay line run on the real code (known_findings.d/C28.json).
   Values are (length, tag) pairs; keys are "k00" .. "k15". *)
From Coq Require Import ZArith List Bool.
From TV Require Import Lib.MachInt Gen.Varint Model.BTree Model.BTreeSpec.
Import ListNotations.
Open Scope Z_scope.

Definition wval := (Z * Z)%type.
Definition wvlen (v : wval) : Z := fst v.
Definition wveqb (a b : wval) : bool := (fst a =? fst b) && (snd a =? snd b).
Definition wk (i : Z) : key := [107; 48 + i / 10; 48 + i mod 10].
Definition wins (i len tag : Z) : op wval := OInsert (wk i) (len, tag).

Definition wrun (ops : list (op wval)) : list (out wval * Z) := fst (run wval wvlen (init_state wval 1 2) ops).
(* the model reaches outcome class k on this history, and the results it returns are not those of an ordered map *)
Definition refutes (k : Z) (ops : list (op wval)) : Prop :=
  first_flag wval (wrun ops) = k /\ spec_run wval wvlen wveqb [] (combine ops (map fst (wrun ops))) = false.

(* ten 4000-byte entries k02..k11: leaves [k02..k05] [k06..k09] [k10,k11] *)
Definition w_base : list (op wval) := map (fun i => wins i 4000 (i + 1)) [2;3;4;5;6;7;8;9;10;11].
Definition w_empty_mid : list (op wval) := w_base ++ map (fun i => ODelete (wk i)) [6;7;8;9].

Definition w_fwd := w_empty_mid ++ [OFwd 1000].
Definition w_seek := w_empty_mid ++ [OSeek (wk 6) 40].
Definition w_bwd := w_empty_mid ++ [OBwd 1000].
Definition w_hint := w_base ++ [ODelete (wk 10); ODelete (wk 11); wins 0 4000 50; OGet (wk 0)].
Definition w_upd := map (fun i => wins i 4000 (i + 1)) [0;1;2;3] ++ [OUpdate (wk 1) (4200, 9); OGet (wk 1)].
Definition w_leaffull := [wins 0 7000 1; wins 2 7000 2; wins 1 10000 3].
Definition w_sepdup := map (fun i => wins i 4000 (i + 1)) [0;1;2;3;4;5;6;7]
  ++ map (fun i => ODelete (wk i)) [4;5;6;7] ++ [OReopen None; wins 4 4000 20].


(* class 7: 32 keys of 1000 bytes (values 6000) and 182 one-byte keys (values 8000) inserted in ascending
   order leave the root with 15 long and 91 short separators (5 bytes free); one more 1000-byte key whose
   leaf splits makes split_interior put 16 long + 37 short separators into the left half, which does not fit *)
Definition wbig (i : Z) : key := [65; i + 1] ++ repeat 97 998.
Definition wtiny (j : Z) : key := [66 + j].
Fixpoint zrange (n : nat) (from : Z) : list Z := match n with O => [] | S m => from :: zrange m (from + 1) end.
Definition w_intfull : list (op wval) :=
  map (fun i => OInsert (wbig i) (6000, i + 1)) (zrange 32 0)
  ++ map (fun j => OInsert (wtiny j) (8000, j + 33)) (zrange 182 0)
  ++ [OInsert ([65; 6] ++ repeat 97 998 ++ [1]) (6000, 215)].

(* former class F_ZSEP (finding F-C28-8, fixed by 691ce2c): four ascending keys of 8200 bytes.  Each leaf holds one cell; the second
   separator does not fit beside the first, split_interior (2 separators) leaves the new right interior page
   WITHOUT separators, and the next split below it used to evaluate `cell_count() as usize - 1` on it *)
Definition whuge (i : Z) : key := [65; i + 1] ++ repeat 97 8198.
Definition w_zsep : list (op wval) := map (fun i => OInsert (whuge i) (1, i + 1)) [0; 1; 2; 3].

(* a former witness is now handled like an ordered map *)
Definition accepted (ops : list (op wval)) : Prop :=
  first_flag wval (wrun ops) = 0 /\ spec_run wval wvlen wveqb [] (combine ops (map fst (wrun ops))) = true.
