(* C28 proofs, part 9: the backward cursor (code as of commit 8f0490a).  find_prev_leaf (re-descent from
   the root by the last key of the current leaf, then at every ancestor the left siblings, nearest first,
   searched by find_rightmost_nonempty) finds the nearest NON-EMPTY leaf to the left; cursor_last starts
   at the rightmost non-empty leaf.  The walk therefore enumerates every entry, in reverse key order. *)
From Coq Require Import ZArith List Bool Lia Sorting.Permutation Sorting.Sorted.
From TV Require Import Lib.MachInt Gen.Varint Model.BTree Model.BTreeSpec Model.BTreeInv
  Proof.BTreeOrder Proof.BTreeInv Proof.BTreeLeaf Proof.BTreeScan.
Import ListNotations.
Open Scope Z_scope.
Arguments Z.sub : simpl never.
Arguments Z.add : simpl never.
Arguments Z.mul : simpl never.
Arguments Z.of_nat : simpl never.

Section B.
Variable V : Type.
Variable vlen : V -> Z.
Notation entry := (entry V).
Notation leaf := (leaf V).
Notation tree := (tree V).
Notation kid := (kid V).
Notation pres := (pres V).
Notation bounded := (bounded V vlen).
Notation abs := (abs V).
Notation leaves := (leaves V).
Notation keys := (keys V).
Notation kabs := (kabs V).
Notation kleaves := (kleaves V).
Notation flat := (flat V).

Definition ne (l : leaf) : option leaf := if lempty V l then None else Some l.
(* the last non-empty leaf of a sequence *)
Definition lastne (ls : list leaf) : option leaf := first_some ne (rev ls).

Lemma first_some_app {A B} (f : A -> option B) (a b : list A) :
  first_some f (a ++ b) = match first_some f a with Some x => Some x | None => first_some f b end.
Proof. induction a as [|x a IH]; [reflexivity|]. cbn [app first_some]. destruct (f x); [reflexivity | exact IH]. Qed.

Lemma lastne_app (a b : list leaf) : lastne (a ++ b) = match lastne b with Some x => Some x | None => lastne a end.
Proof. unfold lastne. rewrite rev_app_distr. apply first_some_app. Qed.
Lemma lastne_nil : lastne [] = None.
Proof. reflexivity. Qed.
Lemma lastne_one l : lastne [l] = ne l.
Proof. unfold lastne. cbn. destruct (ne l); reflexivity. Qed.

Lemma flat_app (a b : list leaf) : flat (a ++ b) = flat a ++ flat b.
Proof. unfold BTreeScan.flat. apply flat_map_app. Qed.

Lemma lastne_none (ls : list leaf) : lastne ls = None -> flat ls = [].
Proof.
  induction ls as [|l r IH] using rev_ind; intros H; [reflexivity|].
  rewrite lastne_app, lastne_one in H. unfold ne, lempty in H. destruct (lcells l) eqn:E; [|discriminate].
  rewrite flat_app, (IH H). unfold BTreeScan.flat. cbn. rewrite E. reflexivity.
Qed.
Lemma lastne_some (ls : list leaf) p : lastne ls = Some p ->
  exists a b, ls = a ++ p :: b /\ lcells p <> [] /\ flat b = [].
Proof.
  induction ls as [|l r IH] using rev_ind; intros H; [discriminate|].
  rewrite lastne_app, lastne_one in H. unfold ne, lempty in H. destruct (lcells l) eqn:E.
  - destruct (IH H) as (a & b & -> & Hp & Hb). exists a, (b ++ [l]). split; [rewrite <- app_assoc; reflexivity|]. split; [exact Hp|].
    rewrite flat_app, Hb. unfold BTreeScan.flat. cbn. rewrite E. reflexivity.
  - injection H as <-. exists r, []. split; [reflexivity|]. split; [rewrite E; discriminate | reflexivity].
Qed.

Lemma kids_bounded_each (P : option key -> option key -> tree -> Prop) kids : forall lo hi r,
  kids_bounded V P lo hi kids r -> (forall sc, In sc kids -> exists lo' hi', P lo' hi' (snd sc)) /\ exists lo', P lo' hi r.
Proof.
  induction kids as [|sc rest IH]; intros lo hi r HB; [split; [intros sc [] | exists lo; exact HB]|].
  destruct HB as (_ & _ & H3 & H4). destruct (IH _ _ _ H4) as [I1 I2]. split; [|exact I2].
  intros x [<- | Hx]; [exists lo, (Some (fst sc)); exact H3 | apply I1; exact Hx].
Qed.

(* find_rightmost_nonempty finds the last non-empty leaf of the subtree *)
Lemma rnl_spec : forall h lo hi (t : tree), bounded h lo hi t -> rnl V h t = lastne (leaves h t).
Proof.
  induction h as [|h' IH]; intros lo hi t HB; destruct t as [l | id kids r]; cbn in HB; try contradiction.
  - cbn [rnl BTree.leaves]. rewrite lastne_one. reflexivity.
  - destruct HB as [_ HB]. destruct (kids_bounded_each _ _ _ _ _ HB) as [Hk (lo' & Hr)].
    cbn [rnl]. rewrite leaves_node. unfold BTreeInv.kleaves. rewrite lastne_app. cbn [first_some]. rewrite (IH _ _ _ Hr).
    destruct (lastne (leaves h' r)); [reflexivity|]. clear Hr HB.
    induction kids as [|sc rest IHk]; [reflexivity|]. cbn [map rev flat_map]. rewrite first_some_app, lastne_app.
    rewrite IHk by (intros x Hx; apply Hk; right; exact Hx). destruct (lastne (flat_map (fun sc0 : kid => leaves h' (snd sc0)) rest)); [reflexivity|].
    cbn [first_some]. destruct (Hk sc (or_introl eq_refl)) as (a & b & Hc). rewrite (IH _ _ _ Hc). destruct (lastne (leaves h' (snd sc))); reflexivity.
Qed.

Definition ll_res (ll : option leaf) : pres := match ll with None => PUp | Some p => PFound p end.
Definition prev_res (ll : option leaf) (pre : list leaf) : pres :=
  match lastne pre with Some p => PFound p | None => ll_res ll end.

Definition fpk (h' : nat) (ll : option leaf) (kids : list kid) (r : tree) (nav : key) (cur : Z) : pres :=
  match find_prev V h' (child_at V kids r (cidx V nav kids)) nav cur with
  | PUp => match first_some (rnl V h') (rev (map snd (firstn (cidx V nav kids) kids))) with
           | Some l' => PFound l'
           | None => ll_res ll
           end
  | PFound l => PFound l
  | PErr => PErr
  end.

Lemma find_prev_node h' id kids r nav cur : find_prev V (S h') (Node id kids r) nav cur = fpk h' None kids r nav cur.
Proof. reflexivity. Qed.

Lemma fpk_cons_lt h' ll sc rest r nav cur : kltb nav (fst sc) = true ->
  fpk h' ll (sc :: rest) r nav cur =
  match find_prev V h' (snd sc) nav cur with PUp => ll_res ll | PFound l => PFound l | PErr => PErr end.
Proof. intros E. unfold fpk. cbn [cidx]. rewrite E. reflexivity. Qed.

Lemma fpk_cons_ge h' ll sc rest r nav cur : kltb nav (fst sc) = false ->
  fpk h' ll (sc :: rest) r nav cur =
  fpk h' (match rnl V h' (snd sc) with Some x => Some x | None => ll end) rest r nav cur.
Proof.
  intros E. unfold fpk. cbn [cidx]. rewrite E. rewrite child_at_S.
  destruct (find_prev V h' (child_at V rest r (cidx V nav rest)) nav cur); try reflexivity.
  cbn [firstn map rev]. rewrite first_some_app.
  match goal with |- context [first_some ?f (rev ?x)] => destruct (first_some f (rev x)) end; [reflexivity|].
  cbn [first_some]. destruct (rnl V h' (snd sc)); reflexivity.
Qed.

Lemma lift_prev ll pre :
  match prev_res None pre with PUp => ll_res ll | PFound l => PFound l | PErr => PErr end = prev_res ll pre.
Proof. unfold prev_res. destruct (lastne pre); reflexivity. Qed.

Lemma in_leaf_in_abs h (t : tree) pre l post nav : leaves h t = pre ++ l :: post -> In nav (keys (lcells l)) ->
  exists v, In (nav, v) (abs h t).
Proof.
  intros Hl Hn. apply in_map_iff in Hn as ([k v] & Hk & Hin). cbn in Hk. subst k. exists v.
  eapply leaf_cells_in_abs; [|exact Hin]. rewrite Hl. apply in_or_app. right. left. reflexivity.
Qed.

Lemma fpk_spec h' :
  (forall lo hi (t : tree) pre l post nav, bounded h' lo hi t -> leaves h' t = pre ++ l :: post ->
     In nav (keys (lcells l)) -> find_prev V h' t nav (lid l) = prev_res None pre) ->
  forall kids lo hi r ll pre l post nav,
    kids_bounded V (bounded h') lo hi kids r -> kleaves h' kids r = pre ++ l :: post ->
    In nav (keys (lcells l)) -> fpk h' ll kids r nav (lid l) = prev_res ll pre.
Proof.
  intros IH. induction kids as [|sc rest IHk]; intros lo hi r ll pre l post nav HB Hl Hn.
  - unfold fpk. cbn [cidx child_at nth_error firstn map rev first_some]. change (kleaves h' [] r) with (leaves h' r) in Hl.
    rewrite (IH _ _ _ _ _ _ _ HB Hl Hn). apply lift_prev.
  - destruct HB as (H1 & H2 & H3 & H4). rewrite kleaves_cons in Hl.
    assert (Hcase : (exists m', leaves h' (snd sc) = pre ++ l :: m') \/ (exists m, pre = leaves h' (snd sc) ++ m /\ kleaves h' rest r = m ++ l :: post)).
    { apply app_eq_app in Hl as (m & [[E1 E2] | [E1 E2]]).
      - destruct m as [|x m].
        + right. exists []. rewrite app_nil_r in E1. cbn [app] in E2. split; [rewrite app_nil_r; symmetry; exact E1 | symmetry; exact E2].
        + cbn [app] in E2. injection E2 as <- E2. left. exists m. exact E1.
      - right. exists m. split; assumption. }
    destruct Hcase as [(m' & Hc) | (m & Hp & Hr)].
    + destruct (in_leaf_in_abs _ _ _ _ _ _ Hc Hn) as (v & Hv).
      pose proof (abs_in_bounds V vlen _ _ _ _ H3) as B. unfold BTreeInv.cells_in in B. rewrite Forall_forall in B.
      destruct (B _ Hv) as [_ B2]. cbn in B2. rewrite fpk_cons_lt by (apply kltb_true; exact B2).
      rewrite (IH _ _ _ _ _ _ _ H3 Hc Hn). apply lift_prev.
    + assert (Hge : kltb nav (fst sc) = false).
      { apply kltb_false. apply in_map_iff in Hn as ([k v] & Hk & Hin). cbn in Hk. subst k.
        assert (Hv : In (nav, v) (kabs h' rest r)).
        { unfold BTreeInv.kabs. apply in_flat_map. exists l. split; [rewrite Hr; apply in_or_app; right; left; reflexivity | exact Hin]. }
        pose proof (kabs_in_bounds V vlen h' (abs_in_bounds V vlen h') _ _ _ _ H4) as B. unfold BTreeInv.cells_in in B.
        rewrite Forall_forall in B. destruct (B _ Hv) as [B1 _]. exact B1. }
      rewrite fpk_cons_ge by exact Hge. rewrite (IHk _ _ _ _ _ _ _ _ H4 Hr Hn). subst pre.
      unfold prev_res. rewrite lastne_app, (rnl_spec _ _ _ _ H3). destruct (lastne m); [reflexivity|].
      destruct (lastne (leaves h' (snd sc))); reflexivity.
Qed.

Lemma find_prev_spec : forall h lo hi (t : tree) pre l post nav, bounded h lo hi t -> leaves h t = pre ++ l :: post ->
  In nav (keys (lcells l)) -> find_prev V h t nav (lid l) = prev_res None pre.
Proof.
  induction h as [|h' IH]; intros lo hi t pre l post nav HB Hl Hn; destruct t as [l0 | id kids r]; cbn in HB; try contradiction.
  - cbn in Hl. destruct pre as [|x pre]; [|destruct pre; discriminate]. injection Hl as <- _.
    cbn [find_prev]. rewrite Z.eqb_refl. reflexivity.
  - destruct HB as [_ HB]. rewrite find_prev_node. rewrite leaves_node in Hl. eapply fpk_spec; eassumption.
Qed.

Lemma last_key_in (cs : list entry) nav : last (map (fun c : entry => Some (fst c)) cs) None = Some nav -> In nav (keys cs).
Proof.
  induction cs as [|c cs IH]; intros H; [discriminate|]. destruct cs as [|c2 cs2].
  - cbn in H. injection H as <-. left. reflexivity.
  - right. apply IH. exact H.
Qed.
Lemma last_key_some (cs : list entry) : cs <> [] -> exists nav, last (map (fun c : entry => Some (fst c)) cs) None = Some nav.
Proof.
  induction cs as [|c cs IH]; intros H; [contradiction|]. destruct cs as [|c2 cs2]; [exists (fst c); reflexivity|].
  destruct IH as (nav & Hn); [discriminate|]. exists nav. exact Hn.
Qed.

Lemma bwd_walk_spec h lo hi (root : tree) : bounded h lo hi root ->
  forall fuel pre l post, leaves h root = pre ++ l :: post -> lcells l <> [] -> (length pre < fuel)%nat ->
  bwd_walk V fuel h root l = (rev (flat (pre ++ [l])), 0).
Proof.
  intros HB. induction fuel as [|f IH]; intros pre l post Hl Hne Hf; [lia|].
  cbn [bwd_walk]. destruct (last_key_some _ Hne) as (nav & Hnav). rewrite Hnav.
  rewrite (find_prev_spec h lo hi root pre l post nav HB Hl (last_key_in _ _ Hnav)). unfold prev_res.
  destruct (lastne pre) as [p|] eqn:Ep.
  - destruct (lastne_some _ _ Ep) as (a & b & -> & Hp & Hb). cbn [ll_res].
    rewrite <- app_assoc in Hl. cbn [app] in Hl. rewrite app_length in Hf. cbn [length] in Hf.
    rewrite (IH a p (b ++ l :: post) Hl Hp ltac:(lia)). f_equal.
    replace ((a ++ p :: b) ++ [l]) with ((a ++ [p]) ++ b ++ [l]) by (rewrite <- !app_assoc; reflexivity).
    rewrite (flat_app (a ++ [p])), (flat_app b), Hb. cbn [app]. rewrite rev_app_distr. f_equal.
    unfold BTreeScan.flat. cbn [flat_map]. rewrite app_nil_r. reflexivity.
  - cbn [ll_res]. f_equal. rewrite flat_app, (lastne_none _ Ep). unfold BTreeScan.flat. cbn [flat_map app]. rewrite app_nil_r. reflexivity.
Qed.

(* cursor_last + prev ... : every entry, in reverse order *)
Lemma bwd_ok h lo hi (root : tree) : bounded h lo hi root ->
  match (if lempty V (last_leaf V root) then rnl V h root else Some (last_leaf V root)) with
  | None => abs h root = []
  | Some l => bwd_walk V (length (leaves h root)) h root l = (rev (abs h root), 0)
  end.
Proof.
  intros HB. destruct (leaves_last_c28 V vlen h lo hi root HB) as (pre0 & Hp0).
  assert (Hstart : (if lempty V (last_leaf V root) then rnl V h root else Some (last_leaf V root)) = lastne (leaves h root)).
  { rewrite (rnl_spec h lo hi root HB), Hp0, lastne_app, lastne_one. unfold ne. destruct (lempty V (last_leaf V root)); reflexivity. }
  rewrite Hstart. destruct (lastne (leaves h root)) as [l|] eqn:El.
  - destruct (lastne_some _ _ El) as (a & b & Hab & Hl & Hb).
    rewrite (bwd_walk_spec h lo hi root HB (length (leaves h root)) a l b Hab Hl) by (rewrite Hab, app_length; cbn [length]; lia).
    f_equal. f_equal. unfold BTree.abs. rewrite Hab. change (flat_map (@lcells V)) with flat.
    rewrite !flat_app. change (l :: b) with ([l] ++ b). rewrite flat_app, Hb, app_nil_r. reflexivity.
  - exact (lastne_none _ El).
Qed.

End B.
