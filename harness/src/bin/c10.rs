//! C10 indexes never change query results: twin tables on the real `turdb::Database`.
//!   A: t(x0 BIGINT PRIMARY KEY, x1 BIGINT, x2 BIGINT) + secondary indexes created / dropped by the
//!      history (slot 0: ix1 ON t(x1); slot 1: ix2 ON t(x2, x1));
//!   B: t(x0 BIGINT, x1 BIGINT, x2 BIGINT) with nothing declared (its own database: row ids are a
//!      per-database counter).
//! Every statement of a history runs on both; queries are `SELECT * FROM t WHERE e`.
//!   c10 gen    --seed S --tier T --out DIR [--lines FILE]
//!   c10 search --seed S --budget N --out FILE      (oracle only: rows of A == rows of B)
//!   c10 show --lines FILE
//! The case term is `Twin [(stmt, obs); ..]` of coq/Corr/C10.v; the judge is Coq.
#![allow(dead_code)]
#[path = "sqlgen/mod.rs"]
mod sqlgen;
use sqlgen::{CmpOp, Expr, Val};
use std::path::PathBuf;
use turdb::{Database, OwnedValue};
use tvh::*;

#[derive(Clone, Debug, PartialEq)]
enum Stmt {
    Ins(Vec<Val>),
    Del(Option<Expr>),
    Upd(Vec<(usize, Val)>, Option<Expr>),
    Create(usize),
    Drop(usize),
    Query(Expr),
}
#[derive(Clone, Debug, PartialEq)]
enum Obs { Dml(bool, bool), Rows(Vec<Vec<Val>>, Vec<Vec<Val>>), Bad }

fn cb(b: bool) -> &'static str { if b { "true" } else { "false" } }
fn cname(i: usize) -> String { format!("x{}", i) }
fn val_sql(v: &Val) -> String { match v { Val::Int(i) if *i < 0 => format!("(-{})", (*i as i128).abs()), _ => v.to_sql() } }
fn expr_sql(e: &Expr) -> String {
    match e {
        Expr::Col(i) => cname(*i),
        Expr::Lit(v) => val_sql(v),
        Expr::Arith(op, a, b) => format!("({} {} {})", expr_sql(a), op.sql(), expr_sql(b)),
        Expr::Cmp(op, a, b) => format!("({} {} {})", expr_sql(a), op.sql(), expr_sql(b)),
        Expr::And(a, b) => format!("({} AND {})", expr_sql(a), expr_sql(b)),
        Expr::Or(a, b) => format!("({} OR {})", expr_sql(a), expr_sql(b)),
        Expr::Not(a) => format!("(NOT ({}))", expr_sql(a)),
        Expr::In(neg, a, l) => format!("({} {}IN ({}))", expr_sql(a), if *neg { "NOT " } else { "" }, l.iter().map(expr_sql).collect::<Vec<_>>().join(", ")),
        Expr::Between(neg, a, l, h) => format!("({} {}BETWEEN {} AND {})", expr_sql(a), if *neg { "NOT " } else { "" }, expr_sql(l), expr_sql(h)),
        Expr::Like(neg, a, p) => format!("({} {}LIKE {})", expr_sql(a), if *neg { "NOT " } else { "" }, expr_sql(p)),
        Expr::IsNull(neg, a) => format!("({} IS {}NULL)", expr_sql(a), if *neg { "NOT " } else { "" }),
    }
}
/// top level: comparisons and AND-trees of comparisons without the outer parentheses
fn where_sql(e: &Expr) -> String {
    match e {
        Expr::Cmp(op, a, b) if matches!(**a, Expr::Col(_) | Expr::Lit(_)) && matches!(**b, Expr::Col(_) | Expr::Lit(_)) =>
            format!("{} {} {}", expr_sql(a), op.sql(), expr_sql(b)),
        Expr::And(a, b) => format!("{} AND {}", expr_sql(a), expr_sql(b)),
        _ => expr_sql(e),
    }
}
fn slot_sql(s: usize) -> (&'static str, &'static str) { if s == 0 { ("ix1", "x1") } else { ("ix2", "x2, x1") } }
fn rows_coq(rows: &[Vec<Val>]) -> String {
    format!("[{}]", rows.iter().map(|r| format!("[{}]", r.iter().map(|v| v.to_coq()).collect::<Vec<_>>().join("; "))).collect::<Vec<_>>().join("; "))
}
fn wcoq(w: &Option<Expr>) -> String { match w { Some(e) => format!("(Some {})", e.to_coq()), None => "None".into() } }
fn wline(w: &Option<Expr>) -> String { match w { Some(e) => e.to_line(), None => "-".into() } }
fn wparse(s: &str) -> Option<Option<Expr>> { if s.trim() == "-" { Some(None) } else { Expr::from_line(s.trim()).map(Some) } }

impl Stmt {
    /// (SQL for A, SQL for B if it runs there)
    fn sql(&self) -> (String, Option<String>) {
        match self {
            Stmt::Ins(r) => { let s = format!("INSERT INTO t VALUES ({})", r.iter().map(val_sql).collect::<Vec<_>>().join(", ")); (s.clone(), Some(s)) }
            Stmt::Del(w) => { let s = format!("DELETE FROM t{}", match w { Some(e) => format!(" WHERE {}", where_sql(e)), None => String::new() }); (s.clone(), Some(s)) }
            Stmt::Upd(sets, w) => {
                let s = format!("UPDATE t SET {}{}", sets.iter().map(|(c, v)| format!("{} = {}", cname(*c), val_sql(v))).collect::<Vec<_>>().join(", "),
                    match w { Some(e) => format!(" WHERE {}", where_sql(e)), None => String::new() });
                (s.clone(), Some(s))
            }
            Stmt::Create(s) => { let (n, c) = slot_sql(*s); (format!("CREATE INDEX {} ON t ({})", n, c), None) }
            Stmt::Drop(s) => (format!("DROP INDEX {}", slot_sql(*s).0), None),
            Stmt::Query(e) => { let s = format!("SELECT * FROM t WHERE {}", where_sql(e)); (s.clone(), Some(s)) }
        }
    }
    fn coq(&self) -> String {
        match self {
            Stmt::Ins(r) => format!("TIns [{}]", r.iter().map(|v| v.to_coq()).collect::<Vec<_>>().join("; ")),
            Stmt::Del(w) => format!("TDel {}", wcoq(w)),
            Stmt::Upd(sets, w) => format!("TUpd [{}] {}", sets.iter().map(|(c, v)| format!("({}%nat, {})", c, v.to_coq())).collect::<Vec<_>>().join("; "), wcoq(w)),
            Stmt::Create(s) => format!("TCreate {}", s),
            Stmt::Drop(s) => format!("TDrop {}", s),
            Stmt::Query(e) => format!("TQuery {}", e.to_coq()),
        }
    }
    fn tok(&self) -> String {
        match self {
            Stmt::Ins(r) => format!("I:{}", r.iter().map(|v| v.to_tok()).collect::<Vec<_>>().join(",")),
            Stmt::Del(w) => format!("D:{}", wline(w)),
            Stmt::Upd(sets, w) => format!("U:{}:{}", sets.iter().map(|(c, v)| format!("{}={}", c, v.to_tok())).collect::<Vec<_>>().join("&"), wline(w)),
            Stmt::Create(s) => format!("C{}", s),
            Stmt::Drop(s) => format!("X{}", s),
            Stmt::Query(e) => format!("Q:{}", e.to_line()),
        }
    }
    fn from_tok(s: &str) -> Option<Stmt> {
        let s = s.trim();
        if let Some(r) = s.strip_prefix("I:") { return Some(Stmt::Ins(r.split(',').map(|x| Val::from_tok(x.trim())).collect::<Option<Vec<Val>>>()?)); }
        if let Some(r) = s.strip_prefix("D:") { return Some(Stmt::Del(wparse(r)?)); }
        if let Some(r) = s.strip_prefix("U:") {
            let (a, w) = r.split_once(':')?;
            let mut sets = vec![];
            for p in a.split('&') { let (c, v) = p.split_once('=')?; sets.push((c.trim().parse().ok()?, Val::from_tok(v.trim())?)); }
            return Some(Stmt::Upd(sets, wparse(w)?));
        }
        if let Some(r) = s.strip_prefix("Q:") { return Some(Stmt::Query(Expr::from_line(r.trim())?)); }
        if let Some(r) = s.strip_prefix('C') { return Some(Stmt::Create(r.parse().ok().filter(|x| *x < 2)?)); }
        if let Some(r) = s.strip_prefix('X') { return Some(Stmt::Drop(r.parse().ok().filter(|x| *x < 2)?)); }
        None
    }
}
fn hist_line(h: &[Stmt]) -> String { format!("t | {}", h.iter().map(|s| s.tok()).collect::<Vec<_>>().join(" | ")) }
fn parse_hist(l: &str) -> Option<Vec<Stmt>> {
    let l = l.trim().strip_prefix("t |")?;
    let mut h = vec![];
    for t in l.split('|') { if t.trim().is_empty() { continue; } h.push(Stmt::from_tok(t)?); }
    Some(h)
}

// ------------------------------------------------------------------ the system under test
fn scratch_root() -> PathBuf {
    let base = if std::path::Path::new("/dev/shm").is_dir() { PathBuf::from("/dev/shm") } else { PathBuf::from("/verif/build/tmp") };
    base.join(format!("tvh-c10-{}", std::process::id()))
}
fn to_val(o: &OwnedValue) -> Option<Val> { match o { OwnedValue::Null => Some(Val::Null), OwnedValue::Int(i) => Some(Val::Int(*i)), _ => None } }
fn to_rows(rs: &[turdb::Row]) -> Option<Vec<Vec<Val>>> { rs.iter().map(|r| r.values.iter().map(to_val).collect::<Option<Vec<Val>>>()).collect() }
struct Sut { dir: PathBuf, seq: u64 }
impl Sut {
    fn new() -> Sut { Sut { dir: scratch_root(), seq: 0 } }
    fn cleanup(&mut self) { let _ = std::fs::remove_dir_all(&self.dir); }
    fn open(&self, name: &str, ddl: &str) -> Result<Database, String> {
        let path = self.dir.join(format!("{}{}", name, self.seq));
        let _ = std::fs::remove_dir_all(&path);
        std::fs::create_dir_all(&self.dir).map_err(|e| format!("mkdir: {}", e))?;
        let ddl = ddl.to_string();
        match catch(std::panic::AssertUnwindSafe(move || -> Result<Database, String> {
            let db = Database::create(&path).map_err(|e| format!("create: {:#}", e))?;
            db.execute(&ddl).map_err(|e| format!("{}: {:#}", ddl, e))?;
            Ok(db)
        })) { Caught::Done(r) => r, Caught::Panicked(m) => Err(format!("panic in setup: {}", m)) }
    }
    fn run(&mut self, h: &[Stmt]) -> Result<Vec<Obs>, String> {
        self.seq += 1;
        let a = self.open("a", "CREATE TABLE t (x0 BIGINT PRIMARY KEY, x1 BIGINT, x2 BIGINT)")?;
        let b = self.open("b", "CREATE TABLE t (x0 BIGINT, x1 BIGINT, x2 BIGINT)")?;
        let exec = |db: &Database, sql: &str| -> Option<bool> {
            match catch(std::panic::AssertUnwindSafe(|| db.execute(sql).map(|_| ()))) { Caught::Done(Ok(())) => Some(true), Caught::Done(Err(_)) => Some(false), Caught::Panicked(_) => None }
        };
        let query = |db: &Database, sql: &str| -> Option<Vec<Vec<Val>>> {
            match catch(std::panic::AssertUnwindSafe(|| db.query(sql))) { Caught::Done(Ok(rs)) => to_rows(&rs), _ => None }
        };
        let mut out = vec![];
        let mut dead = false;
        for s in h {
            if dead { out.push(Obs::Bad); continue; }
            let (sa, sb) = s.sql();
            let o = match s {
                Stmt::Query(_) => match (query(&a, &sa), query(&b, sb.as_ref().unwrap())) { (Some(x), Some(y)) => Obs::Rows(x, y), _ => Obs::Bad },
                _ => {
                    let ra = exec(&a, &sa);
                    let rb = match &sb { Some(q) => exec(&b, q), None => Some(true) };
                    match (ra, rb) { (Some(x), Some(y)) => Obs::Dml(x, y), _ => { dead = true; Obs::Bad } }
                }
            };
            out.push(o);
        }
        if dead { std::mem::forget(a); std::mem::forget(b); } else { drop(a); drop(b); }
        let _ = std::fs::remove_dir_all(self.dir.join(format!("a{}", self.seq)));
        let _ = std::fs::remove_dir_all(self.dir.join(format!("b{}", self.seq)));
        Ok(out)
    }
}
fn case_term(h: &[Stmt], obs: &[Obs]) -> String {
    let steps: Vec<String> = h.iter().zip(obs.iter()).map(|(s, o)| format!("({}, {})", s.coq(), match o {
        Obs::Dml(x, y) => format!("TDml {} {}", cb(*x), cb(*y)),
        Obs::Rows(x, y) => format!("TRows {} {}", rows_coq(x), rows_coq(y)),
        Obs::Bad => "TBad".into(),
    })).collect();
    format!("Twin [{}]", steps.join(";\n     "))
}
fn bag_eq(a: &[Vec<Val>], b: &[Vec<Val>]) -> bool {
    if a.len() != b.len() { return false; }
    let mut used = vec![false; b.len()];
    'o: for r in a { for (i, x) in b.iter().enumerate() { if !used[i] && x == r { used[i] = true; continue 'o; } } return false; }
    true
}
/// the property's oracle: every query returns the same bag on both tables, every statement is accepted on both
fn oracle(obs: &[Obs]) -> Option<usize> {
    for (i, o) in obs.iter().enumerate() {
        match o { Obs::Rows(x, y) => if !bag_eq(x, y) { return Some(i); }, Obs::Dml(x, y) => if !(*x && *y) { return Some(i); }, Obs::Bad => return Some(i) }
    }
    None
}

// ------------------------------------------------------------------ generators
const DOM: [i64; 8] = [0, 1, 2, 3, 4, 5, 7, 9];
fn gval(rng: &mut Rng, null_pct: u64) -> Val { if rng.chance(null_pct, 100) { Val::Null } else { Val::Int(*rng.pick(&DOM)) } }
fn gen_query(rng: &mut Rng, maxid: i64, residual: bool) -> Expr {
    let c = 1 + rng.below(2) as usize;
    let eq = |rng: &mut Rng, c: usize| -> Expr {
        let lit = if c == 0 { Expr::int(rng.range(1, maxid.max(1) + 1)) } else { Expr::int(*rng.pick(&DOM)) };
        if rng.chance(1, 5) { Expr::cmp(CmpOp::Eq, lit, Expr::col(c)) } else { Expr::cmp(CmpOp::Eq, Expr::col(c), lit) }
    };
    match rng.below(if residual { 14 } else { 11 }) {
        0..=3 => eq(rng, c),                                                                   // point on a secondary index column
        4 => eq(rng, 0),                                                                       // point on the primary key
        5 => Expr::and(eq(rng, c), Expr::cmp(*rng.pick(&CmpOp::all()), Expr::col(3 - c), Expr::int(*rng.pick(&DOM)))),   // + residual on the other column
        6 => Expr::and(Expr::cmp(*rng.pick(&[CmpOp::Lt, CmpOp::Ge, CmpOp::Ne]), Expr::col(0), Expr::int(rng.range(1, maxid.max(1)))), eq(rng, c)),
        7 => Expr::cmp(*rng.pick(&[CmpOp::Lt, CmpOp::Le, CmpOp::Gt, CmpOp::Ge, CmpOp::Ne]), Expr::col(c), Expr::int(*rng.pick(&DOM))),   // range: full scan
        8 => Expr::Between(false, Box::new(Expr::col(c)), Box::new(Expr::int(2)), Box::new(Expr::int(5))),
        9 => Expr::and(eq(rng, 1), eq(rng, 2)),                                                // prefix of the composite index
        10 => Expr::or(eq(rng, c), eq(rng, 3 - c)),
        // a second conjunct on the index column itself (recorded class 3)
        11 => Expr::and(eq(rng, c), Expr::cmp(*rng.pick(&[CmpOp::Lt, CmpOp::Gt, CmpOp::Ge]), Expr::col(c), Expr::int(*rng.pick(&DOM)))),
        12 => Expr::and(eq(rng, c), Expr::cmp(CmpOp::Lt, Expr::col(c), Expr::col(3 - c))),
        _ => Expr::and(eq(rng, c), Expr::Between(false, Box::new(Expr::col(c)), Box::new(Expr::int(3)), Box::new(Expr::int(9)))),
    }
}
fn gen_where(rng: &mut Rng, maxid: i64) -> Option<Expr> {
    match rng.below(8) {
        0..=2 => Some(Expr::cmp(CmpOp::Eq, Expr::col(0), Expr::int(rng.range(1, maxid.max(1))))),
        3 => Some(Expr::cmp(*rng.pick(&[CmpOp::Lt, CmpOp::Gt]), Expr::col(0), Expr::int(rng.range(1, maxid.max(1))))),
        4..=6 => Some(Expr::cmp(*rng.pick(&CmpOp::all()), Expr::col(1 + rng.below(2) as usize), Expr::int(*rng.pick(&DOM)))),
        _ => Some(Expr::is_null(false, Expr::col(1 + rng.below(2) as usize))),
    }
}
fn gen_history(rng: &mut Rng, fam: &str) -> Vec<Stmt> {
    let mut h = vec![];
    let mut next = 1i64;
    let mut have = [false, false];
    let early = fam != "late_index" && rng.chance(3, 4);
    if early { for s in 0..2 { if rng.chance(3, 4) { h.push(Stmt::Create(s)); have[s] = true; } } }
    let big = fam == "big";
    let n_ins = if big { 150 + rng.below(250) as usize } else { 4 + rng.below(10) as usize };
    let order = rng.below(3);   // 0 ascending x1, 1 descending, 2 random
    let mut ins = |h: &mut Vec<Stmt>, rng: &mut Rng, next: &mut i64, k: usize, n: usize| {
        let x1 = if big { match order { 0 => Val::Int(k as i64 / 3), 1 => Val::Int((n - k) as i64 / 3), _ => Val::Int(rng.range(0, (n / 3) as i64)) } } else { gval(rng, 12) };
        let x1 = if big && rng.chance(1, 25) { Val::Null } else { x1 };
        h.push(Stmt::Ins(vec![Val::Int(*next), x1, gval(rng, 12)]));
        *next += 1;
    };
    for k in 0..n_ins { ins(&mut h, rng, &mut next, k, n_ins); }
    if !early || fam == "late_index" { for s in 0..2 { if !have[s] && rng.chance(4, 5) { h.push(Stmt::Create(s)); have[s] = true; } } }
    let steps = if big { 12 } else { 8 + rng.below(10) as usize };
    for _ in 0..steps {
        let r = rng.below(100);
        let dml = fam == "delete" || fam == "update" || fam == "mixed";
        if dml && r < 30 {
            match fam {
                "delete" => h.push(Stmt::Del(gen_where(rng, next - 1))),
                "update" => { let c = 1 + rng.below(2) as usize; h.push(Stmt::Upd(vec![(c, gval(rng, 10))], gen_where(rng, next - 1))); }
                _ => if rng.chance(1, 2) { h.push(Stmt::Del(gen_where(rng, next - 1))) } else { let c = 1 + rng.below(2) as usize; h.push(Stmt::Upd(vec![(c, gval(rng, 10))], gen_where(rng, next - 1))); },
            }
        } else if r < 40 { ins(&mut h, rng, &mut next, 0, 9); }
        else if r < 46 && fam != "big" { let s = rng.below(2) as usize; if have[s] { h.push(Stmt::Drop(s)); have[s] = false; } else { h.push(Stmt::Create(s)); have[s] = true; } }
        else {
            let q = if big { Expr::cmp(CmpOp::Eq, Expr::col(1), Expr::int(rng.range(0, (n_ins / 3) as i64 + 1))) } else { gen_query(rng, next - 1, fam == "residual") };
            h.push(Stmt::Query(q));
        }
    }
    h
}
struct Fam { name: &'static str, n: usize }
fn families(thorough: bool) -> Vec<Fam> {
    let m = if thorough { 10 } else { 1 };
    vec![Fam { name: "insert_only", n: 90 * m }, Fam { name: "late_index", n: 50 * m }, Fam { name: "big", n: 4 * m }, Fam { name: "residual", n: 30 * m },
         Fam { name: "delete", n: 40 * m }, Fam { name: "update", n: 40 * m }, Fam { name: "mixed", n: 40 * m }]
}
fn nontrivial(h: &[Stmt], obs: &[Obs]) -> bool {
    // some query went through an index (an equality on an indexed column) and returned rows
    h.iter().zip(obs.iter()).any(|(s, o)| matches!((s, o), (Stmt::Query(Expr::Cmp(CmpOp::Eq, _, _)) | Stmt::Query(Expr::And(_, _)), Obs::Rows(x, _)) if !x.is_empty()))
        && h.iter().any(|s| matches!(s, Stmt::Create(_)))
}

fn main() {
    let a = Args::parse();
    match a.mode.as_str() {
        "gen" => gen(&a),
        "search" => search(&a),
        "show" => { for l in a.replay_lines().unwrap_or_default() { if let Some(h) = parse_hist(&l) { for s in &h { let (x, y) = s.sql(); println!("{}{}", x, if y.is_none() { "     -- A only" } else { "" }); } } else { println!("unparsable: {}", l); } } }
        _ => { eprintln!("c10: unknown mode"); std::process::exit(2); }
    }
}
fn gen(a: &Args) {
    let mut rng = Rng::new(a.seed);
    let mut w = CaseWriter::new(&a.out, "C10", "Corr.C10", 60);
    let mut sut = Sut::new();
    let mut setup_errors = 0u64;
    let mut push = |w: &mut CaseWriter, sut: &mut Sut, h: &[Stmt], kind: &str| {
        match sut.run(h) {
            Ok(obs) => {
                w.push(case_term(h, &obs), hist_line(h), nontrivial(h, &obs), kind);
                w.count("statements", h.len() as u64);
                w.count("queries", h.iter().filter(|s| matches!(s, Stmt::Query(_))).count() as u64);
                w.count("queries_differing", obs.iter().filter(|o| matches!(o, Obs::Rows(x, y) if !bag_eq(x, y))).count() as u64);
            }
            Err(e) => { setup_errors += 1; eprintln!("c10: setup failed: {}", e); }
        }
    };
    if let Some(lines) = a.replay_lines() {
        for l in lines { match parse_hist(&l) { Some(h) => push(&mut w, &mut sut, &h, "replay"), None => eprintln!("c10: unparsable line: {}", l) } }
    } else {
        for f in families(a.thorough()) { for _ in 0..f.n { let h = gen_history(&mut rng, f.name); push(&mut w, &mut sut, &h, f.name); } }
    }
    sut.cleanup();
    w.finish(&[("setup_errors".to_string(), setup_errors.to_string())]);
}
fn search(a: &Args) {
    let mut rng = Rng::new(a.seed ^ 0xC10);
    let mut sut = Sut::new();
    let mut fails: Vec<String> = vec![];
    let mut tried = 0u64;
    let fams = families(false);
    while tried < a.budget && fails.len() < 40 {
        let f = &fams[(tried % fams.len() as u64) as usize];
        let h = gen_history(&mut rng, f.name);
        if let Ok(obs) = sut.run(&h) { if let Some(i) = oracle(&obs) { fails.push(format!("{} #k={}", hist_line(&h[..=i]), tag(&h[..=i]))); } }
        tried += 1;
    }
    sut.cleanup();
    let mut out = format!("tried={}\n", tried);
    for f in &fails { out.push_str("FAIL "); out.push_str(f); out.push('\n'); }
    std::fs::write(&a.out, out).expect("write search output");
}
/// syntactic attribution of a failing history for the search mode (the recorded classes are
/// decided in Coq on the model state; here: which kind of statement preceded the failing query)
fn tag(h: &[Stmt]) -> u32 {
    let q = h.last();
    let res3 = match q { Some(Stmt::Query(Expr::And(a, b))) => {
        let col = |e: &Expr| -> Vec<usize> { let mut v = vec![]; e.walk(&mut |x| if let Expr::Col(i) = x { v.push(*i) }); v };
        let (ca, cb) = (col(a), col(b)); ca.iter().any(|c| cb.contains(c)) }, _ => false };
    let late_null = { let mut seen_null = false; let mut hit = false; for s in h { match s { Stmt::Ins(r) => if r[1..].iter().any(|v| v.is_null()) { seen_null = true; }, Stmt::Create(_) => if seen_null { hit = true; }, _ => {} } } hit };
    if h.iter().any(|s| matches!(s, Stmt::Upd(..))) { 2 } else if h.iter().any(|s| matches!(s, Stmt::Del(..))) { 1 } else if res3 { 3 } else if late_null { 4 } else { 0 }
}
