(* C22 - No input makes the library panic, abort or hang.
   Property theorems only.  PARTIAL by nature: what is proved is the SQL lexer (src/sql/lexer.rs)
   and the slicing literal parsers of src/parsing/literal.rs, on hand-written models of the code
   as repaired by /repo adf5bcc and d86c1b1, which the correspondence run compares with the compiled
   code.  Parser / planner / executor are explored with a crash oracle (harness/src/bin/c22.rs),
   not proved. *)
From Coq Require Import ZArith List Bool.
From TV Require Import Model.Lexer Model.Literal Proof.LexerTotal Proof.Literal Proof.LexerDepth.
Import ListNotations.
Open Scope Z_scope.

(* EVERY byte string: no loop of the lexer runs out of the fuel S (length s): the caller's loop
   `next_token until Eof` ends within length s + 1 calls, every inner loop and the comment-skipping
   loop of next_token within length s + 1 iterations *)
Theorem lexer_total : forall s, lex s <> OutOfFuel.
Proof. exact lexer_total_l. Qed.

(* EVERY byte string: a call of next_token that does not return Eof consumes at least one byte *)
Theorem lexer_progress :
  forall s st t ts st' d, (pos st <= length s)%nat ->
    next_token s (lfuel s) st = Ok (t, ts, st', d) ->
    (pos st <= pos st' <= length s)%nat /\ (is_eof_tok t = false -> (pos st < pos st')%nat).
Proof. exact lexer_progress_l. Qed.

(* EVERY valid UTF-8 string (the type invariant of &str) shorter than 2^31 bytes: no unchecked
   index, no str slice off a char boundary, no overflow of the u32 line / column counters or of the
   i32 comment depth, no usize underflow; the result is a token list that ends with Eof *)
Theorem lexer_no_panic :
  forall s, utf8_valid s = true -> Z.of_nat (length s) < 2 ^ 31 ->
    exists toks st d, lex s = Ok (toks, st, d) /\ last_is_eof toks.
Proof. exact lexer_no_panic_l. Qed.

(* EVERY valid UTF-8 text: parse_hex_blob, parse_binary_blob, parse_time, parse_uuid, parse_vector,
   LiteralParser::parse, LiteralParser::parse_typed(text) do not panic (they return Ok or Err) *)
Theorem literal_no_panic :
  forall f l, utf8_valid l = true -> run_lit f l <> Some LitPanic.
Proof. exact literal_no_panic_l. Qed.

(* EVERY n below 2^32 - 1: n consecutive comments "--\n" are skipped by n iterations of the loop
   inside ONE call of next_token, which then returns Eof (last component of the result = comments
   skipped by that call).  In the lexer before /repo d86c1b1 the same count was the depth of nested
   self.next_token() calls, which overflowed the stack (finding F-C22-12, fixed). *)
Theorem lexer_comments_iterated :
  forall n, Z.of_nat n < 4294967295 ->
    lex (comments n) = Ok ([L (T 0) (3 * n) (3 * n)], mkLx (3 * n) (1 + Z.of_nat n) 1, n).
Proof. exact lexer_comment_depth_l. Qed.

(* ---- non-vacuity and tightness of the hypotheses *)
(* "a, 'é' <- x" : valid UTF-8, lexes to 6 tokens + Eof, second line/column tracked *)
Example lexer_witness :
  utf8_valid [97; 44; 32; 39; 195; 169; 39; 10; 60; 45; 32; 120] = true /\
  lex [97; 44; 32; 39; 195; 169; 39; 10; 60; 45; 32; 120] =
    Ok ([L (TS 2 0 1) 0 1; L (T 58) 1 2; L (TS 4 4 6) 3 7; L (T 35) 8 9; L (T 21) 9 10;
         L (TS 2 11 12) 11 12; L (T 0) 12 12], mkLx 12 2 6, 0%nat).
Proof. vm_compute. split; reflexivity. Qed.

(* the UTF-8 hypothesis of lexer_no_panic is needed by the model: an identifier followed by a stray
   continuation byte would slice off a char boundary (not constructible as a &str in safe Rust) *)
Example lexer_utf8_hypothesis_needed : utf8_valid [97; 169] = false /\ lex [97; 169] = Panic.
Proof. vm_compute. split; reflexivity. Qed.

(* comments with a body, block comments, and a token after them *)
Example lexer_comments_mixed :
  lex (concat (repeat [45; 45; 99; 10; 47; 42; 42; 47] 20) ++ [49]) =
    Ok ([L (TS 5 160 161) 160 161; L (T 0) 161 161], mkLx 161 21 6, 40%nat).
Proof. vm_compute. reflexivity. Qed.

(* the literal theorem is not vacuous: all outcomes occur; the witnesses of the fixed findings
   F-C22-1..4 (historical: they panicked before /repo adf5bcc) are now errors / plain text *)
Example literal_witness :
  run_lit f_hex [48; 97; 70; 70] = Some (LitBytes [10; 255]) /\
  run_lit f_time [49; 50; 58; 51; 52; 58; 53; 54; 46; 53] = Some (LitNum 45296500000) /\
  run_lit f_lp [39; 195; 169; 39] = Some (LitClass (CText [195; 169])) /\
  run_lit f_hex [122; 122] = Some LitErr.
Proof. vm_compute. repeat split; reflexivity. Qed.

Example literal_former_witnesses :
  run_lit f_hex [97; 195; 169; 97] = Some LitErr /\
  run_lit f_bin [48; 48; 48; 48; 48; 48; 48; 195; 169] = Some LitErr /\
  run_lit f_time [49; 50; 58; 48; 48; 58; 48; 48; 46; 49; 50; 51; 52; 53; 195; 169] = Some LitErr /\
  run_lit f_lp [39] = Some (LitClass COther) /\
  run_lit f_lpt [34] = Some (LitClass (CText [34])).
Proof. exact literal_former_witnesses_l. Qed.

Check lexer_total : forall s, lex s <> OutOfFuel.
Check lexer_progress : forall s st t ts st' d, (pos st <= length s)%nat -> next_token s (lfuel s) st = Ok (t, ts, st', d) -> (pos st <= pos st' <= length s)%nat /\ (is_eof_tok t = false -> (pos st < pos st')%nat).
Check lexer_no_panic : forall s, utf8_valid s = true -> Z.of_nat (length s) < 2 ^ 31 -> exists toks st d, lex s = Ok (toks, st, d) /\ last_is_eof toks.
Check literal_no_panic : forall f l, utf8_valid l = true -> run_lit f l <> Some LitPanic.
Check lexer_comments_iterated : forall n, Z.of_nat n < 4294967295 -> lex (comments n) = Ok ([L (T 0) (3 * n) (3 * n)], mkLx (3 * n) (1 + Z.of_nat n) 1, n).

Print Assumptions lexer_total.
Print Assumptions lexer_progress.
Print Assumptions lexer_no_panic.
Print Assumptions literal_no_panic.
Print Assumptions lexer_comments_iterated.
