(* C26 proofs, part 3: element sequences `e1 01 e2 01 ... 00` (arrays, tuples, composite
   fields, JSON arrays): order and decode, for any element encoder that satisfies the
   element-level statements. *)
From Coq Require Import ZArith List Bool Lia ZifyBool.
From TV Require Import Lib.MachInt Lib.MachIntFacts Gen.KeyPrefix Model.KeySpec Model.Key Proof.KeyBytes.
Import ListNotations.
Open Scope Z_scope.

Lemma blen_app3 (a b : list Z) : blen (a ++ b) = blen a + blen b.
Proof. apply blen_app. Qed.

Section Seq.
  Context {A : Type} (f : A -> list Z) (cmp : A -> A -> comparison).

  Definition elt_ord (x y : A) : Prop :=
    forall r1 r2, lex_cmp (f x ++ r1) (f y ++ r2) = cthen (cmp x y) (lex_cmp r1 r2).
  Definition pos_head (x : A) : Prop := exists b t, f x = b :: t /\ 0 < b.

  Lemma jtail_ord l1 : forall l2 r1 r2,
    (forall x y, In x l1 -> In y l2 -> elt_ord x y) ->
    lex_cmp (jtail (map f l1) ++ r1) (jtail (map f l2) ++ r2) = cthen (lex_by cmp l1 l2) (lex_cmp r1 r2).
  Proof.
    induction l1 as [|x l1 IH]; intros [|y l2] r1 r2 H; cbn [map jtail lex_by app].
    - rewrite lex_cmp_cons. reflexivity.
    - reflexivity.
    - reflexivity.
    - rewrite lex_cmp_cons. change (1 ?= 1) with Eq. cbn [cthen].
      rewrite <- !app_assoc. rewrite (H x y (or_introl eq_refl) (or_introl eq_refl)).
      rewrite IH by (intros; apply H; right; assumption).
      rewrite cthen_assoc. reflexivity.
  Qed.

  Lemma join_ord l1 l2 r1 r2 :
    (forall x y, In x l1 -> In y l2 -> elt_ord x y) ->
    (forall x, hd_error l1 = Some x -> pos_head x) ->
    (forall y, hd_error l2 = Some y -> pos_head y) ->
    lex_cmp (join (map f l1) ++ r1) (join (map f l2) ++ r2) = cthen (lex_by cmp l1 l2) (lex_cmp r1 r2).
  Proof.
    intros H H1 H2. destruct l1 as [|x l1], l2 as [|y l2]; cbn [map join lex_by].
    - cbn [app]. rewrite lex_cmp_cons. reflexivity.
    - destruct (H2 y eq_refl) as (b & t & E & Hb). rewrite E. cbn [app]. rewrite lex_cmp_cons.
      replace (0 ?= b) with Lt by (symmetry; apply Z.compare_lt_iff; lia). reflexivity.
    - destruct (H1 x eq_refl) as (b & t & E & Hb). rewrite E. cbn [app]. rewrite lex_cmp_cons.
      replace (b ?= 0) with Gt by (symmetry; apply Z.compare_gt_iff; lia). reflexivity.
    - rewrite <- !app_assoc. rewrite (H x y (or_introl eq_refl) (or_introl eq_refl)).
      rewrite jtail_ord by (intros; apply H; right; assumption).
      rewrite cthen_assoc. reflexivity.
  Qed.

End Seq.

Section SeqDec.
  Context {A B : Type} (f : A -> list Z) (g : A -> B) (one : list Z -> res B).
  Definition elt_dec (x : A) : Prop := forall r, one (f x ++ r) = ROk (g x) (blen (f x)).

  Lemma elems_jtail l : forall fuel r, (length l < fuel)%nat -> (forall x, In x l -> elt_dec x) ->
    elems fuel one (jtail (map f l) ++ r) false = ROk (map g l) (blen (jtail (map f l))).
  Proof.
    induction l as [|x l IH]; intros fuel r Hf H; (destruct fuel as [|fuel]; [cbn [length] in Hf; lia|]).
    - reflexivity.
    - cbn [map jtail app elems]. change (1 =? 0) with false. change (1 =? 1) with true. cbv iota.
      rewrite <- app_assoc. rewrite (H x (or_introl eq_refl)). cbn [rmap].
      rewrite drop_app_len. rewrite IH by (try (intros; apply H; right; assumption); cbn [length] in Hf; lia).
      cbn [rmap map]. f_equal. rewrite !blen_cons, !blen_app. lia.
  Qed.

  Lemma elems_join l fuel r : (length l < fuel)%nat -> (forall x, In x l -> elt_dec x) ->
    (forall x, hd_error l = Some x -> pos_head f x) ->
    elems fuel one (join (map f l) ++ r) true = ROk (map g l) (blen (join (map f l))).
  Proof.
    intros Hf H Hp. destruct fuel as [|fuel]; [lia|]. destruct l as [|x l].
    - reflexivity.
    - destruct (Hp x eq_refl) as (b & t & E & Hb).
      cbn [map join]. rewrite <- app_assoc.
      assert (Hd : exists t', f x ++ jtail (map f l) ++ r = b :: t').
      { rewrite E. eexists. reflexivity. }
      destruct Hd as (t' & Hd).
      cbn [elems]. rewrite Hd. destruct (Z.eqb_spec b 0) as [->|_]; [lia|]. rewrite <- Hd.
      rewrite (H x (or_introl eq_refl)). cbn [rmap]. rewrite drop_app_len.
      rewrite elems_jtail by (try (intros; apply H; right; assumption); cbn [length] in Hf; lia).
      cbn [rmap]. f_equal. rewrite !blen_app. lia.
  Qed.
End SeqDec.

Lemma lex_by_ext {A} (c1 c2 : A -> A -> comparison) l1 : forall l2,
  (forall x y, In x l1 -> In y l2 -> c1 x y = c2 x y) -> lex_by c1 l1 l2 = lex_by c2 l1 l2.
Proof.
  induction l1 as [|x l1 IH]; intros [|y l2] H; cbn [lex_by]; try reflexivity.
  rewrite (H x y (or_introl eq_refl) (or_introl eq_refl)).
  rewrite IH by (intros; apply H; right; assumption). reflexivity.
Qed.

Lemma join_nonempty l : exists b t, join l = b :: t.
Proof.
  destruct l as [|e l]; cbn [join]; [eauto|].
  destruct e as [|b e]; cbn [app]; [|eauto]. destruct l; cbn [jtail]; eauto.
Qed.
