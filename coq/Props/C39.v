(* C39 - The memory budget is a hard limit.
   Property theorems only.  Model: Model/Budget.v (MemoryBudget::allocate / release at the
   granularity of single atomic loads, compare-exchanges and the mutex acquisition; constants
   regenerated from src/config/constants.rs).  [run (step_w lk) w s]: w is ANY list of naturals -
   entry 2t is a step of thread t, entry 2t+1 a spurious failure of thread t's
   compare_exchange_weak - so each theorem covers every number of threads, every interleaving
   and every length.
   lk = true : the code as it is (allocate's check-and-CAS under the mutex alloc_lock, /repo
               commit 0306f36); the correspondence run compares the real code with this variant;
   lk = false: the lock-free allocate before that commit, kept as documentation of why the lock
               is needed. *)
From Coq Require Import ZArith List Bool Arith.
From TV Require Import Lib.Interleave Gen.BudgetConsts Model.Budget
  Proof.Budget Proof.BudgetInv Proof.BudgetLimit Proof.BudgetRepair Proof.BudgetClient.
Import ListNotations.
Open Scope Z_scope.

(* the scheduler-driven runs of the correspondence (thread by thread, hook site to hook site)
   are runs in the sense of the theorems below *)
Theorem coarse_runs_are_runs :
  forall lk fuel sched s, exists w, run_coarse (step lk) at_site fuel sched s = run (step_w lk) w s.
Proof. exact run_coarse_is_run_w. Qed.

(* THE PROPERTY: successful allocations never bring total tracked usage above the configured
   limit - total_used <= total_limit in every reachable state, for every program, schedule and
   number of threads *)
Theorem budget_hard_limit :
  forall limreq ps w, progs_wf ps = true ->
    let s := run (step_w true) w (init limreq ps) in total (sh s) <= lim s.
Proof. exact budget_hard_limit_l. Qed.

(* ... because at most one thread is between allocate's first counter load and its CAS *)
Theorem allocate_mutual_exclusion :
  forall limreq ps w t u th thu, progs_wf ps = true ->
    let s := run (step_w true) w (init limreq ps) in
    lget (thrs s) t = Some th -> lget (thrs s) u = Some thu ->
    in_body (tpc th) = true -> in_body (tpc thu) = true -> t = u.
Proof. exact allocate_mutual_exclusion_l. Qed.

(* Each pool's usage is exactly what the completed calls did to it (a successful allocate adds
   n, a release subtracts min(n, counter)) - nothing is lost or counted twice under any
   interleaving. *)
Theorem pool_accounting_applied :
  forall lk limreq ps w q,
    let s := run (step_w lk) w (init limreq ps) in
    get (sh s) q = sum_thr (fun th => applied q (tlog th)) (thrs s).
Proof. exact accounting_applied_l. Qed.

(* ... hence, while no release asked for more than its pool held, usage = successful
   allocations minus releases *)
Theorem pool_accounting_exact :
  forall lk limreq ps w,
    let s := run (step_w lk) w (init limreq ps) in
    all_events (fun e => negb (saturating e)) s = true ->
    forall q, get (sh s) q = sum_thr (fun th => net q (tlog th)) (thrs s).
Proof. exact pool_accounting_exact_l. Qed.

(* ... and usage is back to zero when everything that was allocated has been released *)
Theorem all_released_zero :
  forall lk limreq ps w,
    let s := run (step_w lk) w (init limreq ps) in
    all_events (fun e => negb (saturating e)) s = true ->
    (forall x q, In x (thrs s) -> net q (tlog (snd x)) = 0) ->
    total (sh s) = 0.
Proof. exact all_released_zero_l. Qed.

(* A release saturates only on client misuse: if no thread ever released more of a pool than it
   had itself allocated and not yet released ([disciplined]: every moment of every thread's
   history has a non-negative balance in every pool), no release saturates ... *)
Theorem release_saturates_only_on_misuse :
  forall lk limreq ps w,
    let s := run (step_w lk) w (init limreq ps) in
    disciplined s = true -> all_events nonsat s = true.
Proof. exact disciplined_never_saturates_l. Qed.

(* ... so for such clients usage = successful allocations minus releases, in every pool,
   under every interleaving *)
Theorem disciplined_accounting_exact :
  forall lk limreq ps w,
    let s := run (step_w lk) w (init limreq ps) in
    disciplined s = true ->
    forall q, get (sh s) q = sum_thr (fun th => net q (tlog th)) (thrs s).
Proof. exact disciplined_accounting_exact_l. Qed.

(* counters never go negative and never wrap *)
Theorem counters_in_range :
  forall lk limreq ps w, progs_wf ps = true ->
    forall q, 0 <= get (sh (run (step_w lk) w (init limreq ps))) q < U64.
Proof. exact counters_in_range_l. Qed.

(* ---- Why the mutex is needed: the lock-free allocate BEFORE /repo commit 0306f36 (lk = false).
   Its total could get above the limit only through a successful allocation whose snapshot had
   gone stale before its CAS (class 1: another pool's counter grew; class 2: the own pool's
   counter grew and came back) ... *)
Theorem lockfree_limit_unless_stale :
  forall limreq ps w, progs_wf ps = true ->
    let s := run (step_w false) w (init limreq ps) in
    all_events nonstale s = true -> total (sh s) <= lim s.
Proof. exact (limit_unless_stale_l false). Qed.

(* ... and both kinds of stale decision were reachable (findings F-C39-1 / F-C39-2, fixed by
   0306f36; the same schedules are replayed on the real MemoryBudget on every run and must now
   stay within the limit) *)
Theorem lockfree_limit_refuted_cross_pool :
  let s := run_coarse (step false) at_site 64 cross_sched (init 4194304 (number 0 cross_progs)) in
  lim s = 4194304 /\ total (sh s) = 6291456 /\ last_class s 1 = 1.
Proof. exact limit_refuted_cross_pool_l. Qed.

Theorem lockfree_limit_refuted_same_pool_aba :
  let s := run_coarse (step false) at_site 64 aba_sched (init 4194304 (number 0 aba_progs)) in
  lim s = 4194304 /\ total (sh s) = 4718592 /\ last_class s 0 = 2.
Proof. exact limit_refuted_same_pool_aba_l. Qed.

(* ... while a single thread never exceeded it, with or without the mutex *)
Theorem single_thread_within_limit :
  forall lk limreq ps t0 w, progs_wf ps = true ->
    (forall x, In x w -> Nat.div2 x = t0) ->
    let s := run (step_w lk) w (init limreq ps) in total (sh s) <= lim s.
Proof. exact single_thread_within_limit_l. Qed.

(* non-vacuity: the hypotheses are met by runs that do something *)
Example c39_witness :
  progs_wf (number 0 cross_progs) = true /\ progs_wf (number 0 aba_progs) = true /\
  (* the two former witnesses on the code as it is (schedule, then both threads to completion):
     the second allocator waits for the mutex and is then refused *)
  (let s := run_coarse (step true) at_site 64 (cross_sched ++ [0; 0; 1; 1; 1; 1])%nat (init 4194304 (number 0 cross_progs)) in
   total (sh s) = 3145728 /\ all_events nonstale s = true) /\
  (let s := run_coarse (step true) at_site 64 (aba_sched ++ [1; 1; 1; 1; 1; 1; 0; 0; 0; 0; 0])%nat (init 4194304 (number 0 aba_progs)) in
   total (sh s) = 1048576 /\ all_events nonstale s = true) /\
  (* a thread parked in front of the held mutex cannot move *)
  (let s := run_coarse (step true) at_site 64 [0; 0; 1]%nat (init 4194304 (number 0 cross_progs)) in
   step true 1 s = None /\ lock s = Some 0%nat) /\
  (* allocate / release / allocate by one thread: everything released => 0 in between *)
  (let s := run_coarse (step true) at_site 64 [0; 0; 0; 0; 0; 0]%nat
              (init 0 (number 0 [[Alloc PQuery 1000; ReleaseIf 0 PQuery 1000; Alloc PQuery 7]])) in
   disciplined s = true /\ all_events (fun e => negb (saturating e)) s = true /\ total (sh s) = 0) /\
  (* a release of more than the pool holds saturates and is flagged, and the client is not disciplined *)
  (let s := run_coarse (step true) at_site 64 [0; 0]%nat (init 0 (number 0 [[Release PCache 5]])) in
   all_events (fun e => negb (saturating e)) s = false /\ disciplined s = false) /\
  (* lock-free variant: the racy run is flagged stale, the sequential one is not *)
  all_events nonstale (run_coarse (step false) at_site 64 cross_sched (init 4194304 (number 0 cross_progs))) = false /\
  (let s := run_coarse (step false) at_site 64 [0; 0; 0; 0; 1; 1; 1; 1]%nat (init 4194304 (number 0 cross_progs)) in
   all_events nonstale s = true /\ total (sh s) = 3145728).
Proof. vm_compute. repeat split. Qed.

Check coarse_runs_are_runs :
  forall lk fuel sched s, exists w, run_coarse (step lk) at_site fuel sched s = run (step_w lk) w s.
Check budget_hard_limit :
  forall limreq ps w, progs_wf ps = true ->
    let s := run (step_w true) w (init limreq ps) in total (sh s) <= lim s.
Check allocate_mutual_exclusion :
  forall limreq ps w t u th thu, progs_wf ps = true ->
    let s := run (step_w true) w (init limreq ps) in
    lget (thrs s) t = Some th -> lget (thrs s) u = Some thu ->
    in_body (tpc th) = true -> in_body (tpc thu) = true -> t = u.
Check pool_accounting_applied :
  forall lk limreq ps w q,
    let s := run (step_w lk) w (init limreq ps) in
    get (sh s) q = sum_thr (fun th => applied q (tlog th)) (thrs s).
Check pool_accounting_exact :
  forall lk limreq ps w,
    let s := run (step_w lk) w (init limreq ps) in
    all_events (fun e => negb (saturating e)) s = true ->
    forall q, get (sh s) q = sum_thr (fun th => net q (tlog th)) (thrs s).
Check all_released_zero :
  forall lk limreq ps w,
    let s := run (step_w lk) w (init limreq ps) in
    all_events (fun e => negb (saturating e)) s = true ->
    (forall x q, In x (thrs s) -> net q (tlog (snd x)) = 0) ->
    total (sh s) = 0.
Check release_saturates_only_on_misuse :
  forall lk limreq ps w,
    let s := run (step_w lk) w (init limreq ps) in
    disciplined s = true -> all_events nonsat s = true.
Check disciplined_accounting_exact :
  forall lk limreq ps w,
    let s := run (step_w lk) w (init limreq ps) in
    disciplined s = true ->
    forall q, get (sh s) q = sum_thr (fun th => net q (tlog th)) (thrs s).
Check counters_in_range :
  forall lk limreq ps w, progs_wf ps = true ->
    forall q, 0 <= get (sh (run (step_w lk) w (init limreq ps))) q < U64.
Check lockfree_limit_unless_stale :
  forall limreq ps w, progs_wf ps = true ->
    let s := run (step_w false) w (init limreq ps) in
    all_events nonstale s = true -> total (sh s) <= lim s.
Check lockfree_limit_refuted_cross_pool :
  let s := run_coarse (step false) at_site 64 cross_sched (init 4194304 (number 0 cross_progs)) in
  lim s = 4194304 /\ total (sh s) = 6291456 /\ last_class s 1 = 1.
Check lockfree_limit_refuted_same_pool_aba :
  let s := run_coarse (step false) at_site 64 aba_sched (init 4194304 (number 0 aba_progs)) in
  lim s = 4194304 /\ total (sh s) = 4718592 /\ last_class s 0 = 2.
Check single_thread_within_limit :
  forall lk limreq ps t0 w, progs_wf ps = true ->
    (forall x, In x w -> Nat.div2 x = t0) ->
    let s := run (step_w lk) w (init limreq ps) in total (sh s) <= lim s.

Print Assumptions coarse_runs_are_runs.
Print Assumptions budget_hard_limit.
Print Assumptions allocate_mutual_exclusion.
Print Assumptions pool_accounting_applied.
Print Assumptions pool_accounting_exact.
Print Assumptions all_released_zero.
Print Assumptions release_saturates_only_on_misuse.
Print Assumptions disciplined_accounting_exact.
Print Assumptions counters_in_range.
Print Assumptions lockfree_limit_unless_stale.
Print Assumptions lockfree_limit_refuted_cross_pool.
Print Assumptions lockfree_limit_refuted_same_pool_aba.
Print Assumptions single_thread_within_limit.
