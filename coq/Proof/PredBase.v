(* C14: basic facts relating the implementation model (Model/PredImpl.v) to the reference
   semantics (Model/SqlSpec.v) on operands and comparisons. *)
From Coq Require Import ZArith List Bool Lia.
From TV Require Import Model.SqlSpec Model.PredImpl Model.PredClass Proof.SqlSpecLaws.
Import ListNotations.
Open Scope Z_scope.

Lemma first_nz_0 : forall a b, first_nz a b = 0 <-> a = 0 /\ b = 0.
Proof.
  intros a b. unfold first_nz. destruct (a =? 0) eqn:E.
  - apply Z.eqb_eq in E. subst. tauto.
  - apply Z.eqb_neq in E. split; [congruence|tauto].
Qed.

Ltac split_nz :=
  repeat match goal with
  | H : first_nz _ _ = 0 |- _ => apply first_nz_0 in H; destruct H
  end.

(* how a reference value shows up in the implementation: exactly, except that NULL may also be
   the `None` of eval_value (arithmetic over NULL) *)
Definition Rv (v : value) (o : option ivalue) : Prop :=
  match v with
  | VNull => o = Some INull \/ o = None
  | _ => o = Some (inj v)
  end.

Lemma Rv_nonnull : forall v o, v <> VNull -> Rv v o -> o = Some (inj v).
Proof. intros [] o H R; cbn in *; congruence. Qed.

Lemma i64_lit_value : forall z, (z =? - 2 ^ 63) = false -> i64_ok z = true ->
  lit_value (VInt z) = Ok (Some (IInt z)).
Proof.
  intros z Hm Hok. unfold lit_value, i64_ok in *. apply Z.eqb_neq in Hm.
  apply andb_prop in Hok as [H1 H2]. apply Z.leb_le in H1. apply Z.ltb_lt in H2.
  destruct (0 <=? z) eqn:E.
  - destruct (z <? 2 ^ 63) eqn:F; [reflexivity|]. apply Z.ltb_ge in F. lia.
  - apply Z.leb_gt in E. destruct (- z <? 2 ^ 63) eqn:F; [reflexivity|]. apply Z.ltb_ge in F. lia.
Qed.

(* operands: outside the classes, eval_value computes the reference value and does not panic *)
Lemma scalar_rel : forall e r v, cls_v e r = 0 -> eval e r = Some v ->
  exists o, eval_value e r = Ok o /\ Rv v o.
Proof.
  induction e as [i|lv|op a IHa b IHb| | | | | | | |]; intros r w Hc He; cbn [cls_v] in Hc; try discriminate.
  - (* ECol *) cbn [eval eval_value] in *. rewrite He in *.
    destruct w; cbn; try discriminate; eexists; split; try reflexivity; cbn; auto.
  - (* ELit *) cbn [eval eval_value] in *. injection He as <-.
    destruct lv as [|z|b|s|b].
    + eexists; split; [reflexivity|cbn; auto].
    + destruct (z =? - 2 ^ 63) eqn:E1; [discriminate|]. destruct (i64_ok z) eqn:E2; [|discriminate].
      rewrite (i64_lit_value z E1 E2). eexists; split; reflexivity.
    + cbn [lit_value]. destruct (f_finite b); [|discriminate]. eexists; split; reflexivity.
    + eexists; split; reflexivity.
    + eexists; split; reflexivity.
  - (* EArith *) split_nz. cbn [eval] in He.
    destruct (eval a r) as [x|] eqn:E1; [|discriminate].
    destruct (eval b r) as [y|] eqn:E2; [|discriminate].
    destruct (IHa r x H E1) as (o1 & V1 & R1).
    destruct (IHb r y H0 E2) as (o2 & V2 & R2).
    cbn [eval_value]. rewrite V1, V2.
    destruct x, y; cbn [arith_values] in He; try discriminate; cbn in R1, R2.
    + (* NULL, NULL *) injection He as <-.
      destruct R1 as [-> | ->], R2 as [-> | ->]; cbn; eexists; split; try reflexivity; cbn; auto.
    + (* NULL, Int *) injection He as <-. subst o2.
      destruct R1 as [-> | ->]; cbn; eexists; split; try reflexivity; cbn; auto.
    + (* Int, NULL *) injection He as <-. subst o1.
      destruct R2 as [-> | ->]; cbn; eexists; split; try reflexivity; cbn; auto.
    + (* Int, Int *) subst o1 o2. cbn [bindo inj arith_i].
      destruct (i64_ok (arith_z op z z0)); [|discriminate]. injection He as <-.
      eexists; split; reflexivity.
Qed.

(* Some(Value::Null) only comes from a NULL cell or the NULL literal *)
Lemma scalar_some_null : forall e r, cls_v e r = 0 -> eval_value e r = Ok (Some INull) -> dnull e r = true.
Proof.
  destruct e; intros r Hc Hv; cbn [cls_v] in Hc; try discriminate.
  - cbn [eval_value dnull] in *. destruct (nth_error r i) as [[]|]; cbn in *; congruence.
  - cbn [eval_value dnull] in *. destruct v as [|z|b|s|b]; cbn [lit_value] in Hv; try reflexivity.
    + destruct (0 <=? z); [destruct (z <? 2 ^ 63)|destruct (- z <? 2 ^ 63)]; discriminate.
    + destruct (f_finite b); discriminate.
    + discriminate.
    + destruct b; discriminate.
  - exfalso. cbn [eval_value] in Hv.
    destruct (eval_value e1 r) as [[x|]| |]; cbn [bindo] in Hv; try discriminate.
    destruct (eval_value e2 r) as [[y|]| |]; cbn [bindo] in Hv; try discriminate.
    destruct x, y; cbn [arith_i] in Hv; try discriminate.
    destruct (i64_ok (arith_z op z z0)); discriminate.
Qed.

(* ------------------------------------------------------------------ comparisons *)
Lemma round53_small : forall x, int_float_safe x = true -> round53 x = x.
Proof.
  intros x H. unfold int_float_safe in H. apply andb_prop in H as [H1 H2].
  apply Z.leb_le in H1. apply Z.leb_le in H2. unfold round53.
  destruct (Z.abs x <=? 2 ^ 53) eqn:E; [reflexivity|]. apply Z.leb_gt in E. lia.
Qed.

Lemma ifcmp_impl : forall x y c, ifcmp x y = Some c -> if_partial_cmp x y = Some c.
Proof.
  intros x y c H. unfold ifcmp in H. unfold if_partial_cmp.
  destruct (int_float_safe x) eqn:E1; cbn [andb] in H; [|discriminate].
  destruct (f_ok y && negb (f_is_nan y)); [|discriminate].
  now rewrite (round53_small x E1).
Qed.

Lemma cmp_ordering_spec : forall x y c,
  cmp_values x y = Some (Some c) -> cmp_ordering (inj x) (inj y) = Some c.
Proof.
  intros x y c H. destruct x, y; cbn [cmp_values] in H; try discriminate; cbn [inj cmp_ordering ib].
  - congruence.
  - destruct (ifcmp z bits) as [c'|] eqn:E; cbn in H; [|discriminate]. injection H as <-. now apply ifcmp_impl.
  - destruct (ifcmp z bits) as [c'|] eqn:E; cbn in H; [|discriminate]. injection H as <-.
    now rewrite (ifcmp_impl _ _ _ E).
  - destruct (fcmp bits bits0) as [c'|] eqn:E; cbn in H; [|discriminate]. injection H as <-. exact E.
  - congruence.
  - congruence.
Qed.

Lemma value_cmp_spec : forall x y c,
  cmp_values x y = Some (Some c) -> value_cmp (inj x) (inj y) = Some c.
Proof.
  intros x y c H. destruct x, y; cbn [cmp_values] in H; try discriminate; cbn [inj value_cmp ib].
  - congruence.
  - destruct (ifcmp z bits) as [c'|] eqn:E; cbn in H; [|discriminate]. injection H as <-. now apply ifcmp_impl.
  - destruct (ifcmp z bits) as [c'|] eqn:E; cbn in H; [|discriminate]. injection H as <-.
    now rewrite (ifcmp_impl _ _ _ E).
  - destruct (fcmp bits bits0) as [c'|] eqn:E; cbn in H; [|discriminate]. injection H as <-. exact E.
  - congruence.
  - congruence.
Qed.

(* a NULL on either side: the reference says UNKNOWN; value_cmp says None *)
Lemma cmp_values_null_l : forall y, exists k, cmp_values VNull y = Some None /\ k = tt.
Proof. intros []; exists tt; split; reflexivity. Qed.
Lemma cmp3_null_l : forall op y, cmp3 op VNull y = Some UU.
Proof. intros op []; reflexivity. Qed.
Lemma cmp3_null_r : forall op x, cmp3 op x VNull = Some UU \/ cmp3 op x VNull = None.
Proof. intros op []; cbn; auto. Qed.
Lemma cmp3_null_r' : forall op x t, cmp3 op x VNull = Some t -> t = UU.
Proof. intros op [] t H; cbn in H; congruence. Qed.
Lemma cmp3_null_l' : forall op y t, cmp3 op VNull y = Some t -> t = UU.
Proof. intros op [] t H; cbn in H; congruence. Qed.

Lemma cmp3_nonnull : forall op x y t, cmp3 op x y = Some t -> x <> VNull -> y <> VNull ->
  exists c, cmp_values x y = Some (Some c) /\ t = tv_of_bool (cmp_holds op c).
Proof.
  intros op x y t H Hx Hy. unfold cmp3 in H.
  destruct (cmp_values x y) as [[c|]|] eqn:E; try discriminate.
  - injection H as <-. eauto.
  - exfalso. destruct x, y; cbn in E; try congruence;
      repeat match goal with
      | H : option_map _ ?o = Some None |- _ => destruct o; cbn in H; discriminate
      end.
Qed.

Lemma value_cmp_null_l : forall y, value_cmp INull y = None.
Proof. now intros []. Qed.
Lemma value_cmp_null_r : forall x, value_cmp x INull = None.
Proof. now intros []. Qed.

Lemma tv_is_true_of_bool : forall b, tv_is_true (tv_of_bool b) = b.
Proof. now intros []. Qed.

Lemma inj_nonnull : forall v, v <> VNull -> inj v <> INull.
Proof. intros [] H; cbn; try congruence. destruct b; discriminate. Qed.

Lemma truthy_ib : forall b, truthy (Some (ib b)) = b.
Proof. now intros []. Qed.
Lemma value_to_bool_ib : forall b, value_to_bool (ib b) = b.
Proof. now intros []. Qed.
