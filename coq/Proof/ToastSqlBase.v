(* C11 proofs, part 3: the table of Model/ToastSql.v - list lemmas about the row list and the
   expected-contents list, and the relation "row r shows value v" with its preservation lemmas. *)
From Coq Require Import ZArith List Bool Lia ZifyBool.
From TV Require Import Lib.MachInt Lib.MachIntFacts Gen.Toast Model.Toast Model.Utf8 Model.ToastSql
  Proof.ToastCodec Proof.ToastStore.
Import ListNotations.
Open Scope Z_scope.

Arguments Z.div : simpl never.
Arguments Z.modulo : simpl never.
Arguments Z.mul : simpl never.
Arguments Z.add : simpl never.
Arguments Z.sub : simpl never.
Arguments Z.pow : simpl never.
Arguments Z.leb : simpl never.
Arguments Z.ltb : simpl never.
Arguments Z.geb : simpl never.
Arguments Z.gtb : simpl never.
Arguments Z.eqb : simpl never.
Arguments Z.of_nat : simpl never.
Arguments Z.to_nat : simpl never.
Arguments wrap_u : simpl never.

(* ---------------------------------------------------------------- value equality *)
Lemma zlist_eqb_refl a : zlist_eqb a a = true.
Proof. now apply zlist_eqb_eq. Qed.

Definition good_scalar (v : value) : bool :=
  match v with VNull | VText _ | VBlob _ | VPtr _ | VOther => false | _ => true end.

Lemma value_eqb_refl v : v <> VOther -> value_eqb v v = true.
Proof.
  destruct v; intros H; cbn [value_eqb]; try apply Z.eqb_refl; try apply zlist_eqb_refl; try reflexivity.
  - apply Bool.eqb_reflx.
  - congruence.
Qed.

(* ---------------------------------------------------------------- the row list *)
Lemma find_k_some k rs r : find_k k rs = Some r -> In r rs /\ r_k r = k.
Proof.
  induction rs as [|h t IH]; cbn [find_k]; [discriminate|].
  destruct (Z.eqb_spec (r_k h) k) as [E|E]; intros H.
  - injection H as Hr. subst r. split; [now left | exact E].
  - destruct (IH H) as [A B]. split; [now right | exact B].
Qed.
Lemma find_k_none k rs : find_k k rs = None -> ~ In k (map r_k rs).
Proof.
  induction rs as [|h t IH]; cbn [find_k map]; [intros _ []|].
  destruct (Z.eqb_spec (r_k h) k) as [E|E]; [discriminate|]. intros H [A|A]; [congruence | now apply IH].
Qed.

Lemma ins_row_in x rs r : In r (ins_row x rs) <-> r = x \/ In r rs.
Proof.
  induction rs as [|h t IH]; cbn [ins_row].
  - cbn. intuition.
  - destruct (r_k x <=? r_k h).
    + cbn [In]. intuition.
    + cbn [In]. rewrite IH. intuition.
Qed.
Lemma ins_row_keys_in x rs y : In y (map r_k (ins_row x rs)) <-> y = r_k x \/ In y (map r_k rs).
Proof.
  rewrite !in_map_iff. split.
  - intros (r & E & H). apply ins_row_in in H as [->|H]; [left; auto | right; eauto].
  - intros [->|(r & E & H)]; [exists x | exists r]; (split; [auto | apply ins_row_in; auto]).
Qed.
Lemma ins_row_nodup x rs : NoDup (map r_k rs) -> ~ In (r_k x) (map r_k rs) -> NoDup (map r_k (ins_row x rs)).
Proof.
  induction rs as [|h t IH]; cbn [ins_row map]; intros Hn Hx.
  - constructor; [intros [] | constructor].
  - destruct (r_k x <=? r_k h).
    + cbn [map]. constructor; [exact Hx | exact Hn].
    + cbn [map]. inversion Hn as [|? ? Hh Ht]; subst. constructor.
      * intros H. apply ins_row_keys_in in H as [E|H]; [apply Hx; left; auto | contradiction].
      * apply IH; [exact Ht | intros H; apply Hx; now right].
Qed.

Lemma set_row_keys k s rs : map r_k (set_row k s rs) = map r_k rs.
Proof.
  induction rs as [|h t IH]; cbn [set_row map]; [reflexivity|].
  destruct (Z.eqb_spec (r_k h) k) as [E|E]; cbn [map r_k]; [now rewrite E | now rewrite IH].
Qed.
(* every row of the updated list is the rewritten row or an untouched row with another key *)
Lemma set_row_in k s rs r : NoDup (map r_k rs) -> In r (set_row k s rs) ->
  (exists r0, In r0 rs /\ r_k r0 = k /\ r = mkrow (r_rid r0) k s) \/ (In r rs /\ r_k r <> k).
Proof.
  induction rs as [|h t IH]; cbn [set_row map]; intros Hn H; [destruct H|].
  inversion Hn as [|? ? Hh Ht]; subst.
  destruct (Z.eqb_spec (r_k h) k) as [E|E].
  - destruct H as [<-|H].
    + left. exists h. split; [now left | auto].
    + right. split; [now right|]. intros E'. apply Hh. rewrite E, <- E'. now apply in_map.
  - destruct H as [<-|H].
    + right. split; [now left | exact E].
    + destruct (IH Ht H) as [(r0 & A & B & C)|[A B]].
      * left. exists r0. split; [now right | auto].
      * right. split; [now right | exact B].
Qed.

Lemma del_row_in k rs r : NoDup (map r_k rs) -> In r (del_row k rs) -> In r rs /\ r_k r <> k.
Proof.
  induction rs as [|h t IH]; cbn [del_row map]; intros Hn H; [destruct H|].
  inversion Hn as [|? ? Hh Ht]; subst.
  destruct (Z.eqb_spec (r_k h) k) as [E|E].
  - split; [now right|]. intros E'. apply Hh. rewrite E, <- E'. now apply in_map.
  - destruct H as [<-|H]; [split; [now left | exact E]|].
    destruct (IH Ht H) as [A B]. split; [now right | exact B].
Qed.
Lemma del_row_keys_incl k rs y : In y (map r_k (del_row k rs)) -> In y (map r_k rs).
Proof.
  induction rs as [|h t IH]; cbn [del_row map]; [auto|].
  destruct (r_k h =? k); [now right|]. cbn [map]. intros [H|H]; [now left | right; auto].
Qed.
Lemma del_row_nodup k rs : NoDup (map r_k rs) -> NoDup (map r_k (del_row k rs)).
Proof.
  induction rs as [|h t IH]; cbn [del_row map]; intros Hn; [constructor|].
  inversion Hn as [|? ? Hh Ht]; subst.
  destruct (r_k h =? k); [exact Ht|]. cbn [map]. constructor; [|auto].
  intros H. apply Hh. eapply del_row_keys_incl. exact H.
Qed.

(* ---------------------------------------------------------------- rows and expected contents side by side *)
Section Pairing.
Variable R R' : row -> Z * value -> Prop.
Hypothesis R_key : forall r e, R r e -> r_k r = fst e.

Lemma F2_keys rs e : Forall2 R rs e -> map r_k rs = map fst e.
Proof. induction 1 as [|r x rs e H _ IH]; cbn [map]; [reflexivity|]. now rewrite (R_key _ _ H), IH. Qed.

Lemma F2_ins x k v rs e : Forall2 R rs e -> R x (k, v) -> Forall2 R (ins_row x rs) (exp_ins k v e).
Proof.
  intros H Hx. pose proof (R_key _ _ Hx) as Ek. cbn [fst] in Ek.
  induction H as [|r [k' v'] rs e Hr Hrest IH]; cbn [ins_row exp_ins].
  - constructor; [exact Hx | constructor].
  - pose proof (R_key _ _ Hr) as Er. cbn [fst] in Er. rewrite Ek, Er.
    destruct (k <=? k').
    + constructor; [exact Hx|]. constructor; [exact Hr | exact Hrest].
    + constructor; [exact Hr | exact IH].
Qed.

Lemma F2_impl rs e : Forall2 R rs e -> (forall r x, In r rs -> R r x -> R' r x) -> Forall2 R' rs e.
Proof.
  induction 1 as [|r x rs e H _ IH]; intros Himp; constructor.
  - apply Himp; [now left | exact H].
  - apply IH. intros r0 x0 Hin. apply Himp. now right.
Qed.

Lemma F2_set k s v rs e :
  Forall2 R rs e -> NoDup (map r_k rs) ->
  (forall r x, In r rs -> R r x -> r_k r <> k -> R' r x) ->
  (forall r x, In r rs -> R r x -> r_k r = k -> R' (mkrow (r_rid r) k s) (k, v)) ->
  Forall2 R' (set_row k s rs) (exp_set k v e).
Proof.
  induction 1 as [|r [k' v'] rs e Hr Hrest IH]; intros Hn Hother Hthis; cbn [set_row exp_set]; [constructor|].
  pose proof (R_key _ _ Hr) as Er. cbn in Er. rewrite <- Er.
  inversion Hn as [|? ? Hh Ht]; subst.
  destruct (Z.eqb_spec (r_k r) k) as [E|E].
  - constructor.
    + eapply Hthis; [now left | exact Hr | exact E].
    + apply F2_impl; [exact Hrest|]. intros r0 x0 Hin HR. apply Hother; [now right | exact HR |].
      intros E'. apply Hh. rewrite E, <- E'. now apply in_map.
  - constructor.
    + apply Hother; [now left | exact Hr | exact E].
    + apply IH; [exact Ht | |]; intros r0 x0 Hin; [apply Hother | apply Hthis]; now right.
Qed.

Lemma F2_del k rs e :
  Forall2 R rs e -> NoDup (map r_k rs) ->
  (forall r x, In r rs -> R r x -> r_k r <> k -> R' r x) ->
  Forall2 R' (del_row k rs) (exp_del k e).
Proof.
  induction 1 as [|r [k' v'] rs e Hr Hrest IH]; intros Hn Hother; cbn [del_row exp_del]; [constructor|].
  pose proof (R_key _ _ Hr) as Er. cbn in Er. rewrite <- Er.
  inversion Hn as [|? ? Hh Ht]; subst.
  destruct (Z.eqb_spec (r_k r) k) as [E|E].
  - apply F2_impl; [exact Hrest|]. intros r0 x0 Hin HR. apply Hother; [now right | exact HR |].
    intros E'. apply Hh. rewrite E, <- E'. now apply in_map.
  - constructor.
    + apply Hother; [now left | exact Hr | exact E].
    + apply IH; [exact Ht|]. intros r0 x0 Hin. apply Hother. now right.
Qed.

(* UPDATE / DELETE of a key that is not there change nothing on either side *)
Lemma exp_set_absent k v rs e : Forall2 R rs e -> ~ In k (map r_k rs) -> exp_set k v e = e.
Proof.
  induction 1 as [|r [k' v'] rs e Hr _ IH]; intros Hk; cbn [exp_set]; [reflexivity|].
  pose proof (R_key _ _ Hr) as Er. cbn in Er. cbn [map] in Hk.
  destruct (Z.eqb_spec k' k) as [E|E]; [exfalso; apply Hk; left; congruence|].
  rewrite IH; [reflexivity | intros H; apply Hk; now right].
Qed.
Lemma exp_del_absent k rs e : Forall2 R rs e -> ~ In k (map r_k rs) -> exp_del k e = e.
Proof.
  induction 1 as [|r [k' v'] rs e Hr _ IH]; intros Hk; cbn [exp_del]; [reflexivity|].
  pose proof (R_key _ _ Hr) as Er. cbn in Er. cbn [map] in Hk.
  destruct (Z.eqb_spec k' k) as [E|E]; [exfalso; apply Hk; left; congruence|].
  rewrite IH; [reflexivity | intros H; apply Hk; now right].
Qed.
End Pairing.

(* ---------------------------------------------------------------- "the stored column shows value v" *)
(* (chunk id, number of chunks) a stored column refers to, when from_record_column takes it for a pointer *)
Definition span (s : stored) : option (Z * Z) :=
  match s with
  | SBytes b => if is_toast_pointer b then match ptr_decode b with Some (t, c) => Some (c, chunk_count t) | None => None end else None
  | _ => None
  end.

Definition cid_row (rid : Z) : Z := chunk_id_of rid COL_C.

(* bytes b of the row with row id rid are in the record inline, or toasted under the row's chunk id *)
Definition var_repr (m : tmap) (rid : Z) (s : stored) (b : list Z) : Prop :=
  (s = SBytes b /\ is_toast_pointer b = false) \/
  (s = SBytes (ptr_encode (blen b) (cid_row rid)) /\ stored_at m (cid_row rid) b /\ b <> []).

Definition repr (ty : colty) (m : tmap) (rid : Z) (s : stored) (v : value) : Prop :=
  match v with
  | VNull => s = SNull
  | VText b => ty = TText /\ valid_utf8 b = true /\ blen b < ALLOC_OK /\ var_repr m rid s b
  | VBlob b => ty = TBlob /\ blen b < ALLOC_OK /\ var_repr m rid s b
  | _ => ty = TScalar /\ good_scalar v = true /\ s = SScalar v
  end.

Lemma blen_u64 b : blen b < ALLOC_OK -> 0 <= blen b < 2 ^ 64.
Proof.
  intros H. pose proof (blen_nonneg b). unfold ALLOC_OK in H.
  change (2 ^ 31) with 2147483648 in H. change (2 ^ 64) with 18446744073709551616. lia.
Qed.

Lemma cid_row_bound rid : 0 <= rid < 2 ^ 48 -> 0 <= cid_row rid < 2 ^ 64.
Proof. intros H. apply chunk_id_of_bound. change (2 ^ 48) with 281474976710656 in H. change (2 ^ 64) with 18446744073709551616. lia. Qed.

Lemma cid_row_inj rid rid' : 0 <= rid < 2 ^ 48 -> 0 <= rid' < 2 ^ 48 -> cid_row rid = cid_row rid' -> rid = rid'.
Proof.
  intros H H' E. unfold cid_row in E.
  assert (0 <= COL_C < 2 ^ 16) as Hc by (unfold COL_C; change (2 ^ 16) with 65536; lia).
  now destruct (chunk_id_injective_l rid COL_C rid' COL_C H Hc H' Hc E).
Qed.

Lemma span_encode total cid : 0 <= total < 2 ^ 64 -> 0 <= cid < 2 ^ 64 ->
  span (SBytes (ptr_encode total cid)) = Some (cid, chunk_count total).
Proof. intros Ht Hc. unfold span. now rewrite ptr_encode_is_pointer, ptr_decode_encode. Qed.

Lemma var_repr_span m rid s b c n : 0 <= rid < 2 ^ 48 -> blen b < ALLOC_OK -> var_repr m rid s b -> span s = Some (c, n) ->
  c = cid_row rid /\ n = chunk_count (blen b) /\ s = SBytes (ptr_encode (blen b) c) /\ stored_at m c b /\ b <> [].
Proof.
  intros Hr Hl [[-> Hn]|(-> & Hs & Hb)] Hsp.
  - unfold span in Hsp. rewrite Hn in Hsp. discriminate.
  - rewrite span_encode in Hsp by (auto using blen_u64, cid_row_bound). injection Hsp as <- <-. auto.
Qed.

(* a row that refers to chunk id c (with n chunks) is row-id-owned and holds a non-empty value there *)
Lemma repr_span ty m rid s v c n : 0 <= rid < 2 ^ 48 -> repr ty m rid s v -> span s = Some (c, n) ->
  c = cid_row rid /\ exists b, n = chunk_count (blen b) /\ s = SBytes (ptr_encode (blen b) c) /\ stored_at m c b /\ b <> [] /\ blen b < ALLOC_OK.
Proof.
  intros Hrid Hr Hc. destruct v; cbn [repr] in Hr;
    try (destruct Hr as (_ & _ & ->); discriminate);
    try (subst s; discriminate).
  - destruct Hr as (_ & _ & Hl & Hv). destruct (var_repr_span m rid s b c n Hrid Hl Hv Hc) as (A & B & C & D & E).
    split; [exact A|]. exists b. auto.
  - destruct Hr as (_ & Hl & Hv). destruct (var_repr_span m rid s b c n Hrid Hl Hv Hc) as (A & B & C & D & E).
    split; [exact A|]. exists b. auto.
Qed.

Lemma var_repr_extends m m' rid s b : extends m m' -> var_repr m rid s b -> var_repr m' rid s b.
Proof.
  intros He [H|(E & Hs & Hb)]; [now left|]. right. repeat split; auto. eapply stored_at_extends; eauto.
Qed.
Lemma repr_extends ty m m' rid s v : extends m m' -> repr ty m rid s v -> repr ty m' rid s v.
Proof.
  intros He. destruct v; cbn [repr]; auto.
  - intros (A & B & C & D). repeat split; auto. eapply var_repr_extends; eauto.
  - intros (A & B & D). repeat split; auto. eapply var_repr_extends; eauto.
Qed.

(* deleting the chunks of another chunk id *)
Lemma var_repr_del m rid s b c n : cid_row rid <> c -> var_repr m rid s b -> var_repr (del_chunks m c n) rid s b.
Proof.
  intros Hne [H|(E & Hs & Hb)]; [now left|]. right. repeat split; auto. now apply del_chunks_keeps.
Qed.
Lemma repr_del ty m rid s v c n : cid_row rid <> c -> repr ty m rid s v -> repr ty (del_chunks m c n) rid s v.
Proof.
  intros Hne. destruct v; cbn [repr]; auto.
  - intros (A & B & C & D). repeat split; auto. now apply var_repr_del.
  - intros (A & B & D). repeat split; auto. now apply var_repr_del.
Qed.

(* a value that is not toasted does not look at the toast table *)
Lemma repr_no_span ty m m' rid s v : span s = None -> 0 <= rid < 2 ^ 48 -> repr ty m rid s v -> repr ty m' rid s v.
Proof.
  intros Hsp Hrid. destruct v; cbn [repr]; auto.
  - intros (A & B & C & [D|(-> & _ & _)]); [repeat split; auto; now left|].
    rewrite span_encode in Hsp by (auto using blen_u64, cid_row_bound). discriminate.
  - intros (A & C & [D|(-> & _ & _)]); [repeat split; auto; now left|].
    rewrite span_encode in Hsp by (auto using blen_u64, cid_row_bound). discriminate.
Qed.

(* ---------------------------------------------------------------- SELECT shows the value *)
Lemma read_toasted ty m rid b : 0 <= rid < 2 ^ 48 -> blen b < ALLOC_OK -> stored_at m (cid_row rid) b ->
  read_value ty m (SBytes (ptr_encode (blen b) (cid_row rid))) =
  match ty with TText => if valid_utf8 b then ROk (VText b) else RErr | _ => ROk (VBlob b) end.
Proof.
  intros Hrid Hl Hs. pose proof (cid_row_bound rid Hrid) as Hc. pose proof (blen_u64 b Hl) as Hb.
  cbn [read_value]. rewrite ptr_encode_is_pointer, detoast_stored by auto.
  rewrite ptr_decode_encode by auto.
  assert (0 <= COL_C < 2 ^ 16) as Hcol by (unfold COL_C; change (2 ^ 16) with 65536; lia).
  destruct (chunk_id_fields rid COL_C (blen b) Hrid Hcol) as [_ E]. unfold cid_row. rewrite E, Z.eqb_refl.
  destruct ty; reflexivity.
Qed.

Lemma repr_read ty m rid s v : 0 <= rid < 2 ^ 48 -> repr ty m rid s v -> read_value ty m s = ROk v.
Proof.
  intros Hrid. destruct v; cbn [repr].
  - intros ->. reflexivity.
  - intros (-> & _ & ->). reflexivity.
  - intros (-> & _ & ->). reflexivity.
  - intros (-> & _ & ->). reflexivity.
  - intros (-> & Hu & Hl & [[-> Hn]|(-> & Hs & Hb)]).
    + cbn [read_value]. now rewrite Hn.
    + rewrite read_toasted by auto. now rewrite Hu.
  - intros (-> & Hl & [[-> Hn]|(-> & Hs & Hb)]).
    + cbn [read_value]. now rewrite Hn.
    + now rewrite read_toasted by auto.
  - intros (-> & _ & ->). reflexivity.
  - intros (-> & _ & ->). reflexivity.
  - intros (-> & _ & ->). reflexivity.
  - intros (-> & _ & ->). reflexivity.
  - intros (-> & _ & ->). reflexivity.
  - intros (-> & _ & ->). reflexivity.
  - intros (_ & H & _). discriminate.
  - intros (_ & H & _). discriminate.
Qed.

Lemma repr_not_other ty m rid s v : repr ty m rid s v -> v <> VOther.
Proof. intros H ->. cbn [repr] in H. destruct H as (_ & H & _). discriminate. Qed.
